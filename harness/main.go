// Command harness drives the tabula implementation for the correspondence and
// the statement-level oracles. Usage:
//   harness run <Cxx> --tier quick|thorough --seed N --out DIR
//   harness replay <Cxx> --case FILE --out DIR
//   harness htmlvocab
//   harness encodings
//   harness filters
package main

import (
	"encoding/json"
	"flag"
	"fmt"
	"os"

	"bytes"
	"compress/zlib"

	"github.com/tsawler/tabula/core"
	"github.com/tsawler/tabula/font"
	"github.com/tsawler/tabula/htmldoc"

	"verifharness/hx"
	"verifharness/writers"

	_ "verifharness/c01"
	_ "verifharness/c02"
	_ "verifharness/c03"
	_ "verifharness/c04"
	_ "verifharness/c05"
	_ "verifharness/c06"
	_ "verifharness/c07"
	_ "verifharness/c08"
	_ "verifharness/c09"
	_ "verifharness/c10"
	_ "verifharness/c11"
	_ "verifharness/c12"
	_ "verifharness/c13"
	_ "verifharness/c14"
	_ "verifharness/c15"
	_ "verifharness/c16"
	_ "verifharness/c17"
	_ "verifharness/c18"
	_ "verifharness/c19"
	_ "verifharness/c20"
)

func main() {
	if len(os.Args) == 2 && os.Args[1] == "htmlvocab" {
		// the compiled class/id patterns of htmldoc, for extract (Gen/HtmlVocab.lean)
		b, _ := json.Marshal(htmldoc.VerifPatternSources())
		fmt.Println(string(b))
		return
	}
	if len(os.Args) == 2 && os.Args[1] == "encodings" {
		// the six exported simple encodings as the built package behaves, for extract
		// (fallback source of Gen/Encodings.lean)
		vars := []string{"WinAnsiEncoding", "MacRomanEncoding", "PDFDocEncoding", "StandardEncodingTable", "SymbolEncoding", "ZapfDingbatsEncoding"}
		encs := []font.Encoding{font.WinAnsiEncoding, font.MacRomanEncoding, font.PDFDocEncoding, font.StandardEncodingTable, font.SymbolEncoding, font.ZapfDingbatsEncoding}
		out := map[string]interface{}{"vars": vars}
		names, tables := map[string]string{}, map[string][]int64{}
		varOf := func(e font.Encoding) string {
			for i, x := range encs {
				if x == e {
					return vars[i]
				}
			}
			return "?"
		}
		var dispatch [][2]string
		for i, e := range encs {
			names[vars[i]] = e.Name()
			t := make([]int64, 256)
			for b := 0; b < 256; b++ {
				t[b] = int64(e.Decode(byte(b)))
			}
			tables[vars[i]] = t
		}
		for _, n := range []string{"WinAnsiEncoding", "MacRomanEncoding", "PDFDocEncoding", "StandardEncoding", "SymbolEncoding", "ZapfDingbatsEncoding"} {
			dispatch = append(dispatch, [2]string{n, varOf(font.GetEncoding(n))})
		}
		out["names"], out["tables"], out["dispatch"] = names, tables, dispatch
		out["default"] = varOf(font.GetEncoding("\x00no such encoding"))
		b, _ := json.Marshal(out)
		fmt.Println(string(b))
		return
	}
	if len(os.Args) == 2 && os.Args[1] == "filters" {
		// what the built package does with each filter name, for extract (fallback source
		// of Gen/FilterTable.lean when the name dispatch is not a switch it can read)
		fmt.Println(filterBehaviour())
		return
	}
	if len(os.Args) < 3 {
		fmt.Fprintln(os.Stderr, "usage: harness run|replay <Cxx> [flags]")
		os.Exit(2)
	}
	cmd, prop := os.Args[1], os.Args[2]
	fs := flag.NewFlagSet(cmd, flag.ExitOnError)
	tier := fs.String("tier", "quick", "")
	seed := fs.Uint64("seed", 1, "")
	out := fs.String("out", "", "")
	caseFile := fs.String("case", "", "")
	fs.Parse(os.Args[3:])
	pr, ok := hx.Registry[prop]
	if !ok {
		fmt.Fprintln(os.Stderr, "unknown property", prop)
		os.Exit(2)
	}
	switch cmd {
	case "run":
		c, err := hx.NewCtx(prop, *tier, *seed, *out)
		if err != nil {
			fmt.Fprintln(os.Stderr, err)
			os.Exit(2)
		}
		pr.Run(c)
		if err := c.Finish(); err != nil {
			fmt.Fprintln(os.Stderr, err)
			os.Exit(2)
		}
	case "replay":
		b, err := os.ReadFile(*caseFile)
		if err != nil {
			fmt.Fprintln(os.Stderr, err)
			os.Exit(2)
		}
		var rp struct {
			Seed uint64                 `json:"seed"`
			Tier string                 `json:"tier"`
			Case map[string]interface{} `json:"case"`
		}
		if err := json.Unmarshal(b, &rp); err != nil {
			fmt.Fprintln(os.Stderr, err)
			os.Exit(2)
		}
		if rp.Tier == "" {
			rp.Tier = "quick"
		}
		c, _ := hx.NewCtx(prop, rp.Tier, rp.Seed, *out)
		pr.Replay(c, rp.Case)
		c.Finish()
		for _, f := range c.Rep.Failures {
			fmt.Printf("FAIL %s: %s\n", f.Key, f.Detail)
		}
		if len(c.Rep.Failures) > 0 {
			os.Exit(1)
		}
		fmt.Println("replay: no failure reproduced")
	}
}

// filterBehaviour classifies every candidate filter name by what Stream.Decode does with it:
// the decoder whose encoding of a probe it undoes, "data" (input returned as it is), "nil"
// (an error whatever the data), "other" (anything else, e.g. CCITT). Candidates: the names and
// abbreviations of ISO 32000-1 Table 6 / Table 93 in the order of the specification, then
// near-misses that must not be accepted.
func filterBehaviour() string {
	probe := []byte("probe \x00\xff data, long enough to be told apart: 0123456789 0123456789")
	var zb bytes.Buffer
	zw := zlib.NewWriter(&zb)
	zw.Write(probe)
	zw.Close()
	enc := map[string][]byte{
		"filters.FlateDecode":    zb.Bytes(),
		"filters.ASCIIHexDecode": writers.HexEncode(probe, 0, true),
		"filters.ASCII85Decode":  writers.A85Encode(probe, 0, false),
	}
	order := []string{"filters.FlateDecode", "filters.ASCIIHexDecode", "filters.ASCII85Decode"}
	names := []string{"FlateDecode", "Fl", "ASCIIHexDecode", "AHx", "ASCII85Decode", "A85", "LZWDecode", "LZW",
		"RunLengthDecode", "RL", "CCITTFaxDecode", "CCF", "JBIG2Decode", "DCTDecode", "DCT", "JPXDecode", "Crypt",
		"flatedecode", "FL", "Flate", "Deflate", "AHX", "ahx", "ASCIIHex", "a85", "ASCII85", "Hex", ""}
	decode := func(name string, data []byte) (out []byte, err error) {
		defer func() {
			if r := recover(); r != nil {
				err = fmt.Errorf("panic: %v", r)
			}
		}()
		st := &core.Stream{Dict: core.Dict{"Filter": core.Name(name)}, Data: data}
		return st.Decode()
	}
	type row struct {
		Names []string `json:"names"`
		Class string   `json:"class"`
	}
	var rows []row
	for _, n := range names {
		class := ""
		for _, k := range order {
			if out, err := decode(n, enc[k]); err == nil && bytes.Equal(out, probe) {
				class = k
				break
			}
		}
		if class == "" {
			allErr, allSame := true, true
			for _, k := range order {
				out, err := decode(n, enc[k])
				if err == nil {
					allErr = false
					if !bytes.Equal(out, enc[k]) {
						allSame = false
					}
				} else {
					allSame = false
				}
			}
			switch {
			case allSame:
				class = "data"
			case allErr:
				class = "nil"
			default:
				class = "other"
			}
		}
		if len(rows) > 0 && rows[len(rows)-1].Class == class && class != "nil" && class != "other" && class != "data" {
			rows[len(rows)-1].Names = append(rows[len(rows)-1].Names, n)
		} else {
			rows = append(rows, row{[]string{n}, class})
		}
	}
	b, _ := json.Marshal(map[string]interface{}{"rows": rows})
	return string(b)
}
