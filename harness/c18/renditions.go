package c18

import (
	"fmt"
	"strings"

	"verifharness/hx"
)

// Several package documents (EPUB).
//
// META-INF/container.xml may list more than one package document: a publication with
// several renditions (EPUB Multiple-Rendition Publications 1.1: a reflowable and a
// fixed-layout rendition, two languages, ...), or a left-over <rootfile> of an earlier
// export. OCF 3 §3.5.2.1: "the first rootfile element within the rootfiles element
// represents the Default Rendition"; a reader that presents one rendition presents that
// one. The package whose manifest and spine DECLARE the parts and their order is
// therefore the first listed package document — not the last, not the one that sorts
// first by name, not the one that comes first in the archive.
//
// In the logical package the further renditions declare nothing: the chapters only they
// list are decoys (unique token, never presented), and chapters of the default rendition
// that a further rendition lists as well stay where the default rendition's spine puts
// them, whatever order the further rendition gives them. A further rendition is
//
//   own       a package document with 1-3 content documents of its own
//   shared    a package document that lists the default rendition's content documents
//             once more, in another order (reversed, rotated) or only some of them
//   mixed     both
//   leftover  a rootfile entry whose package document is not in the archive
//
// listed AFTER the default rendition, with the OPF media type or none, in a directory of
// its own, in the default rendition's directory, or at the root. Archive order is a random
// permutation as for every member, so a further package document stands before or after
// the default one in the ZIP.

type rendition struct {
	opf, media string
	kind       string
	items      []manItem
	spine      []string
	own        []part // content documents only this rendition lists
	title      string
}

var renditionOPFs = []string{"ALT/page.opf", "renditions/fixed/package.opf", "second.opf", "A/first-by-name.opf", "zz/last.opf", "OEBPS/fxl/content.opf"}

var renditionChapterNames = []string{"pages%d.xhtml", "chapter%02d.xhtml", "fxl/p%d.xhtml", "alt %d.xhtml", "text/a%d.xhtml"}

// planRenditions decides on the further renditions (own stream, one EPUB in four). It is
// called when the default rendition's spine is final; it changes nothing of the default
// rendition. The rootfile entries are appended to roots.
func (p *pkg) planRenditions(r *hx.Rng, opf string, used map[string]bool, roots *[][2]string) []rendition {
	if !r.Chance(1, 4) {
		return nil
	}
	n := 1
	if r.Chance(1, 3) {
		n = 2
	}
	var out []rendition
	for j := 0; j < n; j++ {
		rd := rendition{media: "application/oebps-package+xml", title: fmt.Sprintf("Rendition %d", j+2)}
		if r.Chance(1, 6) {
			rd.media = ""
		}
		switch c := r.Intn(8); {
		case c < 3:
			rd.opf = hx.Pick(r, renditionOPFs)
		case c < 5: // beside the default package document
			rd.opf = joinName(dirOf(opf), hx.Pick(r, []string{"alt.opf", "a.opf", "zz-print.opf"}))
		case c < 6: // the same file name in another directory
			rd.opf = joinName(hx.Pick(r, []string{"print", "ALT", "0"}), opf[strings.LastIndexByte(opf, '/')+1:])
		default:
			rd.opf = hx.Pick(r, renditionOPFs)
		}
		if used[rd.opf] {
			continue
		}
		used[rd.opf] = true
		base := dirOf(rd.opf)
		switch c := r.Intn(16); {
		case c < 6:
			rd.kind = "own"
		case c < 10:
			rd.kind = "shared"
		case c < 14:
			rd.kind = "mixed"
		default:
			rd.kind = "leftover"
		}
		if rd.kind == "own" || rd.kind == "mixed" || rd.kind == "leftover" {
			for k, m := 0, r.Range(1, 3); k < m; k++ {
				name := joinName(base, fmt.Sprintf(hx.Pick(r, renditionChapterNames), r.Range(1, 9)))
				if used[name] {
					continue
				}
				used[name] = true
				d := part{Tok: token(r, 85+j*3+k), ID: fmt.Sprintf("alt%d-%d", j, k), Title: "Other rendition", Name: name}
				segs, _ := relRef(r, base, name)
				d.Ref = encodeRef(r, segs, r.Intn(4))
				rd.own = append(rd.own, d)
				rd.items = append(rd.items, manItem{d.ID, d.Ref, "application/xhtml+xml", ""})
				rd.spine = append(rd.spine, d.ID)
			}
		}
		var again []part
		if rd.kind == "shared" || rd.kind == "mixed" {
			// the default rendition's content documents once more, in an order of this
			// rendition's own
			for _, d := range p.Declared {
				if d.Name != "" && d.State != stRepeat && d.State != stDangling {
					again = append(again, d)
				}
			}
		}
		if len(again) > 0 {
			switch r.Intn(4) {
			case 0: // reversed
				for a, b := 0, len(again)-1; a < b; a, b = a+1, b-1 {
					again[a], again[b] = again[b], again[a]
				}
			case 1: // rotated
				if len(again) > 1 {
					again = append(again[1:], again[0])
				}
			case 2: // some of them, in any order
				hx.Shuffle(r, again)
				again = again[:r.Range(1, len(again))]
			default:
				hx.Shuffle(r, again)
			}
			var sh []string
			for k, d := range again {
				segs, _ := relRef(r, base, d.Name)
				id := fmt.Sprintf("sh%d-%d", j, k)
				rd.items = append(rd.items, manItem{id, encodeRef(r, segs, r.Intn(4)), "application/xhtml+xml", ""})
				sh = append(sh, id)
			}
			if r.Bool() {
				rd.spine = append(rd.spine, sh...)
			} else {
				rd.spine = append(sh, rd.spine...)
			}
		}
		hx.Shuffle(r, rd.items)
		*roots = append(*roots, [2]string{rd.opf, rd.media})
		out = append(out, rd)
		p.Notes = append(p.Notes, "rendition:"+rd.kind)
		if rd.media == "" {
			p.Notes = append(p.Notes, "rendition-without-media-type")
		}
	}
	if len(out) > 0 {
		p.Notes = append(p.Notes, fmt.Sprintf("renditions=%d", len(out)+1))
	}
	return out
}

// writeRenditions adds the members of the further renditions: the package document (not
// for a left-over entry) and the content documents only they list, which are decoys of
// the logical package.
func (p *pkg) writeRenditions(rs []rendition, opfDoc func(items []manItem, sp []string, title string) (string, string)) {
	for _, rd := range rs {
		p.Renditions = append(p.Renditions, rd.opf)
		if rd.kind != "leftover" {
			body, spec := opfDoc(rd.items, rd.spine, rd.title)
			p.add(rd.opf, body, spec)
		}
		for _, d := range rd.own {
			if p.has(d.Name) {
				continue
			}
			p.add(d.Name, chapterXHTML(d.Tok, d.Title), "")
			p.Decoys = append(p.Decoys, part{Tok: d.Tok, Name: d.Name, Title: d.Title})
		}
	}
}

// renditionOracle: with several package documents listed, the parts presented are the
// parts the FIRST listed package document declares, in its spine order: the chapters of
// the reader are read from exactly the members the default rendition's spine resolves to.
func renditionOracle(c *hx.Ctx, p *pkg, k kase, o *observation) {
	if len(p.Renditions) == 0 {
		return
	}
	var want []string
	for _, d := range p.pages() {
		want = append(want, d.Name)
	}
	good := o.opened && strings.Join(want, "\x00") == strings.Join(o.hrefs, "\x00")
	if len(want) == 0 { // nothing declared is readable: nothing of another rendition instead
		good = !o.opened || len(o.hrefs) == 0
	}
	c.Check("C18/epub-default-rendition", good, k, func() string {
		return fmt.Sprintf("container.xml lists %d package documents (further ones: %q); the first is the default rendition and declares the parts: chapters are read from members %q, want %q (open error %q); %s",
			len(p.Renditions)+1, p.Renditions, o.hrefs, want, o.openErr, p.describe())
	})
	// and the front door shows as many pages as the default rendition declares
	if o.opened && len(want) > 0 {
		c.Check("C18/epub-default-rendition", o.tOpened && o.tCount == len(want), k, func() string {
			return fmt.Sprintf("container.xml lists %d package documents; tabula.Open.PageCount()=%d (err %q), the default rendition declares %d readable part(s); %s", len(p.Renditions)+1, o.tCount, o.tErr, len(want), p.describe())
		})
	}
}
