package c18

import (
	"encoding/hex"
	"regexp"
	"strings"

	"verifharness/hx"
)

// Markup flavours of OOXML packages (XLSX, PPTX).
//
// What a package declares does not depend on how its markup spells the XML namespaces:
//
//   strict        ISO/IEC 29500 Strict conformance class (what Excel / PowerPoint write as
//                 "Strict Open XML Spreadsheet / Presentation"): the same markup with the
//                 purl.oclc.org namespaces — main, drawing and, above all, the relationships
//                 namespace of r:id and of every relationship Type; conformance="strict" on
//                 the root of the main part. The OPC layer (package relationships namespace,
//                 content types) is the same in both classes.
//   rel-prefix    the relationships namespace bound to another prefix (rel:id, relationships:id)
//   local-decl    the relationships namespace declared on each referencing element, not on
//                 the root
//   main-prefix   XLSX: the main namespace bound to a prefix (<x:workbook>); PPTX: the main
//                 namespace as the default namespace (<presentation>, <sldId>)
//
// and combinations of strict with the three spellings. The declared order is the same list
// in every flavour, so are all expectations; a reader that binds r:id to one namespace URI,
// to the prefix "r", or to the root's declarations loses the declaration in some flavour and
// falls back to file-name discovery.
//
// The flavour is applied to the finished members (the writers produce the transitional
// spelling): namespace URIs are rewritten in every XML member, the prefixes in the main
// part only. The parse table of the op line carries relationship Types (T specs): they are
// rewritten alike. Not well-formed members (spec B) are left alone.

const (
	nsSSStrict   = "http://purl.oclc.org/ooxml/spreadsheetml/main"
	nsPStrict    = "http://purl.oclc.org/ooxml/presentationml/main"
	nsAStrict    = "http://purl.oclc.org/ooxml/drawingml/main"
	uriTbl       = "http://schemas.openxmlformats.org/drawingml/2006/table"
	uriTblStrict = "http://purl.oclc.org/ooxml/drawingml/table"
)

var strictURIs = strings.NewReplacer(nsSS, nsSSStrict, nsRel, nsRelStrict, nsP, nsPStrict, nsA, nsAStrict, uriTbl, uriTblStrict)

var openTag = regexp.MustCompile(`<(/?)([A-Za-z])`)

// pickFlavour draws the flavour of a package (own stream).
func pickFlavour(r *hx.Rng) string {
	var fl []string
	switch c := r.Intn(20); {
	case c < 9:
		return ""
	case c < 13:
		return "strict"
	case c < 16:
		fl = append(fl, "strict")
	}
	fl = append(fl, hx.Pick(r, []string{"rel-prefix", "local-decl", "main-prefix"}))
	return strings.Join(fl, "+")
}

// respec rewrites the relationship Types inside a T spec (Id.Type.Target, hex fields).
func respecTypes(spec string) string {
	if !strings.HasPrefix(spec, "T") {
		return spec
	}
	items := strings.Split(spec, ",")
	for i, it := range items[1:] {
		f := strings.Split(it, ".")
		if len(f) != 3 || f[1] == "-" {
			continue
		}
		raw, err := hex.DecodeString(f[1])
		if err != nil {
			continue
		}
		f[1] = hx.HexS(strictURIs.Replace(string(raw)))
		items[i+1] = strings.Join(f, ".")
	}
	return strings.Join(items, ",")
}

// applyFlavour rewrites the finished members of an XLSX / PPTX package.
func (p *pkg) applyFlavour(r *hx.Rng) {
	fl := pickFlavour(r)
	if fl == "" {
		return
	}
	p.Flavour = fl
	p.Notes = append(p.Notes, "markup:"+fl)
	has := func(k string) bool { return strings.Contains("+"+fl+"+", "+"+k+"+") }
	mainPart := "xl/workbook.xml"
	if p.Fmt == "pptx" {
		mainPart = "ppt/presentation.xml"
	}
	prefix := hx.Pick(r, []string{"rel", "relationships", "R", "ns1"})
	for i := range p.Docs {
		d := &p.Docs[i]
		if d.spec == "B" || !(strings.HasSuffix(d.name, ".xml") || strings.HasSuffix(d.name, ".rels")) {
			continue
		}
		s := string(d.data)
		if d.name == mainPart {
			decl := ` xmlns:r="` + nsRel + `"`
			switch {
			case has("rel-prefix"):
				s = strings.Replace(s, decl, ` xmlns:`+prefix+`="`+nsRel+`"`, 1)
				s = strings.ReplaceAll(s, ` r:id="`, ` `+prefix+`:id="`)
			case has("local-decl"):
				s = strings.Replace(s, decl, "", 1)
				s = strings.ReplaceAll(s, ` r:id="`, decl+` r:id="`)
			case has("main-prefix") && p.Fmt == "xlsx":
				s = strings.Replace(s, ` xmlns="`+nsSS+`"`, ` xmlns:x="`+nsSS+`"`, 1)
				s = openTag.ReplaceAllString(s, "<${1}x:${2}")
			case has("main-prefix"):
				s = strings.Replace(s, ` xmlns:p="`+nsP+`"`, ` xmlns="`+nsP+`"`, 1)
				s = strings.ReplaceAll(strings.ReplaceAll(s, "<p:", "<"), "</p:", "</")
			}
			if has("strict") {
				if at := strings.Index(s, ` xmlns`); at >= 0 {
					s = s[:at] + ` conformance="strict"` + s[at:]
				}
			}
		}
		if has("strict") {
			s = strictURIs.Replace(s)
			d.spec = respecTypes(d.spec)
		}
		d.data = []byte(s)
	}
}
