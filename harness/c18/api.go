package c18

import (
	"bytes"
	"fmt"
	"regexp"
	"strings"

	"github.com/tsawler/tabula"
	"github.com/tsawler/tabula/epubdoc"
	"github.com/tsawler/tabula/htmldoc"
	"github.com/tsawler/tabula/model"
	"github.com/tsawler/tabula/pptx"
	"github.com/tsawler/tabula/rag"
	"github.com/tsawler/tabula/xlsx"

	"verifharness/hx"
)

// Correspondence of the reader API model (lean/TabulaModel/Model/PackageApi.lean):
//
//	c18.pptxn  pptx.Open with the speaker-notes plumbing: per presented slide the notes
//	           part it carries (parseSlideRelationships / parseSlideNotes)
//	c18.api    ONE opened reader and a generated history of calls on it (count, names,
//	           part accessors, TextWithOptions / markdown with selections and options,
//	           Document) interleaved with the front door tabula.Open(f).PageCount()/
//	           Text()/Document(); the model computes every reply from the archive, the
//	           parse table and what each part's bytes parse to (sheet grid, slide blocks,
//	           notes text, chapter text: supplied here, keyed by content id).
//
// Parts are identified by the unique token inside their text, looked up in the bytes the
// harness wrote (not in tabula's part list).

var tokRe = regexp.MustCompile(`T\d\dK[0-9a-f]{6}Q`)

// tokenMap maps every token to the content id of the one member that carries it
// (0 when several members do).
func (p *pkg) tokenMap() map[string]int {
	m := map[string]int{}
	for i, d := range p.Docs {
		seen := map[string]bool{}
		for _, t := range tokRe.FindAllString(string(d.data), -1) {
			if seen[t] {
				continue
			}
			seen[t] = true
			if _, dup := m[t]; dup {
				m[t] = 0
			} else {
				m[t] = i + 1
			}
		}
	}
	return m
}

// cidsIn lists, in order of appearance, the content ids of the tokens occurring in text,
// restricted to members of the given kind (doc spec; "*" = any).
func (p *pkg) cidsIn(tm map[string]int, text, kind string) []string {
	var out []string
	for _, t := range tokRe.FindAllString(text, -1) {
		cid, ok := tm[t]
		if !ok || cid == 0 {
			out = append(out, "?")
			continue
		}
		if kind != "*" && p.Docs[cid-1].spec != kind {
			continue
		}
		out = append(out, fmt.Sprint(cid))
	}
	return out
}

// cidOf1 names the one member of the kind whose token(s) the text carries.
func (p *pkg) cidOf1(tm map[string]int, text, kind string) string {
	found := ""
	for _, c := range p.cidsIn(tm, text, kind) {
		switch {
		case found == "":
			found = c
		case found != c:
			return "?multi"
		}
	}
	if found == "" {
		return "?"
	}
	return found
}

func selStr(sel []int) string {
	if len(sel) == 0 {
		return "e"
	}
	var xs []string
	for _, i := range sel {
		xs = append(xs, fmt.Sprint(i))
	}
	return strings.Join(xs, "_")
}

func b01(b bool) string {
	if b {
		return "1"
	}
	return "0"
}

func table(m map[string]string, order []string) string {
	var xs []string
	for _, k := range order {
		xs = append(xs, k+"="+m[k])
	}
	return strings.Join(xs, ";")
}

func docPagesLine(p *pkg, tm map[string]int, doc *model.Document, kind string) string {
	var xs []string
	blanks := p.textlessMembers()
	for _, pg := range doc.Pages {
		t := pageText(pg)
		cid := p.cidOf1(tm, t, kind)
		if cid == "?" && len(blanks) > 0 && strings.TrimSpace(t) == "" {
			// a page without any text is a text-less chapter: the k-th such page is the k-th
			// text-less chapter of the spine
			cid = fmt.Sprint(p.cidOf(blanks[0]))
			blanks = blanks[1:]
		}
		xs = append(xs, fmt.Sprintf("%d:%s", pg.Number, cid))
	}
	return "pages=" + strings.Join(xs, ",")
}

// front-door calls: every terminal operation on an extractor of its own
func frontCount(path string) string {
	ext := tabula.Open(path)
	defer ext.Close()
	n, err := ext.PageCount()
	if err != nil {
		return "err"
	}
	return fmt.Sprintf("n=%d", n)
}

func frontExt(path string, eh, ef bool, pages []int) *tabula.Extractor {
	ext := tabula.Open(path)
	if len(pages) > 0 {
		ext = ext.Pages(pages...)
	}
	if eh {
		ext = ext.ExcludeHeaders()
	}
	if ef {
		ext = ext.ExcludeFooters()
	}
	return ext
}

func frontText(path string, eh, ef bool, pages []int) string {
	t, _, err := frontExt(path, eh, ef, pages).Text()
	if err != nil {
		return "err"
	}
	return "text=" + hx.HexS(t)
}

func frontDoc(p *pkg, tm map[string]int, path, kind string) string {
	doc, _, err := tabula.Open(path).Document()
	if err != nil || doc == nil {
		return "err"
	}
	return docPagesLine(p, tm, doc, kind)
}

// genFront draws the front-door calls of a history (at most two: each opens the file again).
type frontCall struct {
	kind   string // FC | FT | FD
	eh, ef bool
	pages  []int
}

func (f frontCall) enc() string {
	if f.kind == "FT" {
		return "FT," + b01(f.eh) + b01(f.ef) + "," + selStr(f.pages)
	}
	return f.kind
}

func genFront(r *hx.Rng, n int) frontCall {
	f := frontCall{kind: hx.Pick(r, []string{"FC", "FT", "FT", "FD"})}
	if f.kind == "FT" {
		f.eh, f.ef = r.Chance(1, 4), r.Chance(1, 4)
		if r.Chance(1, 3) { // Pages(...) is recorded but not consulted for these formats
			f.pages = []int{r.Range(1, n+1)}
			if r.Bool() {
				f.pages = append(f.pages, r.Range(1, n+2))
			}
		}
	}
	return f
}

func (f frontCall) run(p *pkg, tm map[string]int, path, kind string) string {
	switch f.kind {
	case "FC":
		return frontCount(path)
	case "FT":
		return frontText(path, f.eh, f.ef, f.pages)
	}
	return frontDoc(p, tm, path, kind)
}

// ---- xlsx ---------------------------------------------------------------------------

func gridSpec(s *xlsx.Sheet) string {
	var rows []string
	for _, row := range s.Rows {
		var cells []string
		for _, c := range row {
			f := 0
			if c.IsMerged {
				f += 2
			}
			if c.IsMergeRoot {
				f++
			}
			cells = append(cells, fmt.Sprintf("%s:%d", hx.HexS(c.Value), f))
		}
		rows = append(rows, "r"+strings.Join(cells, "."))
	}
	return strings.Join(rows, ",")
}

func xlsxAPI(c *hx.Ctx, r *hx.Rng, p *pkg, args, path string) {
	tm := p.tokenMap()
	rd, err := xlsx.Open(path)
	if err != nil {
		c.Op("c18.api xlsx "+args+" g= q=C", "err")
		c.Count("xlsx/api-open-fails")
		return
	}
	defer rd.Close()
	n := rd.SheetCount()
	g, order := map[string]string{}, []string{}
	for i := 0; i < n; i++ {
		s, _ := rd.Sheet(i)
		cid := p.cidOf1(tm, sheetCells(s), "S")
		if strings.HasPrefix(cid, "?") {
			c.Count("xlsx/api-part-unidentified")
			return
		}
		if _, ok := g[cid]; !ok {
			order = append(order, cid)
		}
		g[cid] = gridSpec(s)
	}
	names := rd.SheetNames()
	var calls, outs []string
	fronts := 0
	for k, m := 0, r.Range(3, 7); k < m; k++ {
		switch ch := r.Intn(14); {
		case ch < 1:
			calls = append(calls, "C")
			pc, _ := rd.PageCount()
			outs = append(outs, fmt.Sprintf("n=%d/%d", rd.SheetCount(), pc))
		case ch < 2:
			calls = append(calls, "N")
			var hs []string
			for _, nm := range rd.SheetNames() {
				hs = append(hs, hx.HexS(nm))
			}
			outs = append(outs, "names="+strings.Join(hs, ","))
		case ch < 4:
			var s *xlsx.Sheet
			var err error
			if r.Bool() {
				i := r.Range(-1, n)
				calls = append(calls, fmt.Sprintf("S,%d", i))
				s, err = rd.Sheet(i)
			} else {
				nm := "no such sheet"
				if len(names) > 0 && r.Chance(4, 5) {
					nm = hx.Pick(r, names)
				}
				calls = append(calls, "B,"+hx.HexS(nm))
				s, err = rd.SheetByName(nm)
			}
			if err != nil || s == nil {
				outs = append(outs, "sheet=none")
			} else {
				outs = append(outs, fmt.Sprintf("sheet=%d:%s:%s", s.Index, p.cidOf1(tm, sheetCells(s), "S"), hx.HexS(s.Name)))
			}
		case ch < 8:
			sel, _, class := genSelection(r, n)
			if r.Chance(1, 4) {
				sel, class = nil, "all"
			}
			o := xlsx.ExtractOptions{Sheets: append([]int(nil), sel...), IncludeHeaders: r.Bool(), Delimiter: hx.Pick(r, []string{"", "", ",", " | ", "\t\t"})}
			calls = append(calls, fmt.Sprintf("T,%s,%s,%s", selStr(sel), b01(o.IncludeHeaders), hx.HexS(o.Delimiter)))
			t, err := rd.TextWithOptions(o)
			if err != nil {
				outs = append(outs, "err")
			} else {
				outs = append(outs, "text="+hx.HexS(t))
			}
			c.Count("xlsx/api-text-sel:" + class)
		case ch < 10:
			sel, _, class := genSelection(r, n)
			if r.Chance(1, 4) {
				sel, class = nil, "all"
			}
			o := xlsx.ExtractOptions{Sheets: append([]int(nil), sel...)}
			calls = append(calls, "M,"+selStr(sel))
			var md string
			var err error
			if r.Bool() {
				md, err = rd.MarkdownWithOptions(o)
			} else {
				mo := rag.DefaultMarkdownOptions()
				mo.IncludeTableOfContents = r.Bool()
				md, err = rd.MarkdownWithRAGOptions(o, mo)
			}
			if err != nil {
				outs = append(outs, "err")
			} else {
				outs = append(outs, "parts="+strings.Join(p.cidsIn(tm, md, "S"), ","))
			}
			c.Count("xlsx/api-md-sel:" + class)
		case ch < 11:
			calls = append(calls, "D")
			doc, err := rd.Document()
			if err != nil || doc == nil {
				outs = append(outs, "err")
			} else {
				outs = append(outs, docPagesLine(p, tm, doc, "S"))
			}
		default:
			if fronts >= 2 {
				k--
				continue
			}
			fronts++
			f := genFront(r, n)
			calls = append(calls, f.enc())
			outs = append(outs, f.run(p, tm, path, "S"))
			c.Count("xlsx/api-front:" + f.kind)
		}
	}
	c.Op("c18.api xlsx "+args+" g="+table(g, order)+" q="+strings.Join(calls, ";"), "ok "+strings.Join(outs, " "))
	c.Count(fmt.Sprintf("xlsx/api-calls=%d", len(calls)))
}

// ---- pptx ---------------------------------------------------------------------------

func slideBodySpec(s *pptx.Slide) string {
	var blocks []string
	for _, b := range s.Content {
		fs := []string{"b" + b01(b.IsTitle), hx.HexS(b.Placeholder)}
		for _, q := range b.Paragraphs {
			f := 0
			if q.IsBullet {
				f += 2
			}
			if q.IsNumbered {
				f++
			}
			fs = append(fs, fmt.Sprintf("%s:%d:%d", hx.HexS(q.Text), q.Level, f))
		}
		blocks = append(blocks, strings.Join(fs, "."))
	}
	var tables []string
	for _, t := range s.Tables {
		var rows []string
		for _, row := range t.Rows {
			var cells []string
			for _, cell := range row {
				cells = append(cells, hx.HexS(cell.Text))
			}
			rows = append(rows, "r"+strings.Join(cells, "."))
		}
		tables = append(tables, "t"+strings.Join(rows, ","))
	}
	return hx.HexS(s.Title) + "/" + strings.Join(blocks, "|") + "/" + strings.Join(tables, "|")
}

// notesCid names the notes part a slide's Notes came from ("-" when it has none).
func notesCid(p *pkg, tm map[string]int, s *pptx.Slide) string {
	if s.Notes == "" {
		return "-"
	}
	return p.cidOf1(tm, s.Notes, "N")
}

func pptxNotesOp(c *hx.Ctx, p *pkg, args, path string) {
	tm := p.tokenMap()
	line := "err"
	pn := hx.Safe(func() {
		rd, err := pptx.Open(path)
		if err != nil {
			return
		}
		defer rd.Close()
		var out []string
		for i := 0; i < rd.SlideCount(); i++ {
			s, _ := rd.Slide(i)
			nc := notesCid(p, tm, s)
			out = append(out, fmt.Sprintf("%d:%s:%s", s.Index, tokenCid(p, s.GetText()), nc))
			if nc != "-" {
				c.Count("pptx/notes-op-slide-with-notes")
			}
		}
		line = strings.TrimSpace("ok " + strings.Join(out, " "))
	})
	if pn != "" {
		line = "panic"
	}
	c.Op("c18.pptxn "+args, line)
}

func pptxAPI(c *hx.Ctx, r *hx.Rng, p *pkg, args, path string) {
	tm := p.tokenMap()
	rd, err := pptx.Open(path)
	if err != nil {
		c.Op("c18.api pptx "+args+" g= n= q=C", "err")
		c.Count("pptx/api-open-fails")
		return
	}
	defer rd.Close()
	n := rd.SlideCount()
	g, order := map[string]string{}, []string{}
	nt, norder := map[string]string{}, []string{}
	for i := 0; i < n; i++ {
		s, _ := rd.Slide(i)
		cid := p.cidOf1(tm, s.GetText(), "L")
		nc := notesCid(p, tm, s)
		if strings.HasPrefix(cid, "?") || strings.HasPrefix(nc, "?") {
			c.Count("pptx/api-part-unidentified")
			return
		}
		if _, ok := g[cid]; !ok {
			order = append(order, cid)
		}
		g[cid] = slideBodySpec(s)
		if nc != "-" {
			if _, ok := nt[nc]; !ok {
				norder = append(norder, nc)
			}
			nt[nc] = hx.HexS(s.Notes)
		}
	}
	var calls, outs []string
	fronts := 0
	for k, m := 0, r.Range(3, 7); k < m; k++ {
		switch ch := r.Intn(13); {
		case ch < 1:
			calls = append(calls, "C")
			pc, _ := rd.PageCount()
			outs = append(outs, fmt.Sprintf("n=%d/%d", rd.SlideCount(), pc))
		case ch < 3:
			i := r.Range(-1, n)
			calls = append(calls, fmt.Sprintf("S,%d", i))
			s, err := rd.Slide(i)
			if err != nil || s == nil {
				outs = append(outs, "slide=none")
			} else {
				outs = append(outs, fmt.Sprintf("slide=%d:%s:%s", s.Index, p.cidOf1(tm, s.GetText(), "L"), notesCid(p, tm, s)))
			}
		case ch < 9:
			sel, _, class := genSelection(r, n)
			if r.Chance(1, 4) {
				sel, class = nil, "all"
			}
			o := pptx.ExtractOptions{SlideNumbers: append([]int(nil), sel...), IncludeNotes: r.Bool(), IncludeTitles: r.Bool(), ExcludeHeaders: r.Chance(1, 4), ExcludeFooters: r.Chance(1, 4)}
			flags := b01(o.IncludeNotes) + b01(o.IncludeTitles) + b01(o.ExcludeHeaders) + b01(o.ExcludeFooters)
			if ch < 7 {
				calls = append(calls, fmt.Sprintf("T,%s,%s", selStr(sel), flags))
				t, err := rd.TextWithOptions(o)
				if err != nil {
					outs = append(outs, "err")
				} else {
					outs = append(outs, "text="+hx.HexS(t))
				}
				c.Count("pptx/api-text-sel:" + class)
			} else {
				calls = append(calls, fmt.Sprintf("M,%s,%s", selStr(sel), flags))
				var md string
				var err error
				if r.Bool() {
					md, err = rd.MarkdownWithOptions(o)
				} else {
					md, err = rd.MarkdownWithRAGOptions(o, rag.DefaultMarkdownOptions())
				}
				if err != nil {
					outs = append(outs, "err")
				} else {
					outs = append(outs, "parts="+strings.Join(p.cidsIn(tm, md, "L"), ","))
				}
				c.Count("pptx/api-md-sel:" + class)
			}
		case ch < 10:
			calls = append(calls, "D")
			doc, err := rd.Document()
			if err != nil || doc == nil {
				outs = append(outs, "err")
			} else {
				outs = append(outs, docPagesLine(p, tm, doc, "L"))
			}
		default:
			if fronts >= 2 {
				k--
				continue
			}
			fronts++
			f := genFront(r, n)
			calls = append(calls, f.enc())
			outs = append(outs, f.run(p, tm, path, "L"))
			c.Count("pptx/api-front:" + f.kind)
		}
	}
	c.Op("c18.api pptx "+args+" g="+table(g, order)+" n="+table(nt, norder)+" q="+strings.Join(calls, ";"), "ok "+strings.Join(outs, " "))
	c.Count(fmt.Sprintf("pptx/api-calls=%d", len(calls)))
}

// ---- epub ---------------------------------------------------------------------------

// htmlViews runs htmldoc on the bytes of one member, as epubdoc does per chapter.
func htmlViews(data []byte, mode int) (text, md string) {
	text, md = "!", "!"
	opts := htmldoc.ExtractOptions{NavigationExclusion: htmldoc.NavigationExclusionMode(mode)}
	if hr, err := htmldoc.OpenReader(bytes.NewReader(data)); err == nil {
		if t, err := hr.TextWithOptions(opts); err == nil {
			text = hx.HexS(strings.TrimSpace(t))
		}
	}
	if hr, err := htmldoc.OpenReader(bytes.NewReader(data)); err == nil {
		if m, err := hr.MarkdownWithOptions(opts); err == nil {
			md = hx.HexS(strings.TrimSpace(m))
		}
	}
	return
}

func htmlPages(data []byte) string {
	hr, err := htmldoc.OpenReader(bytes.NewReader(data))
	if err != nil {
		return "!"
	}
	doc, err := hr.Document()
	if err != nil {
		return "!"
	}
	return fmt.Sprint(len(doc.Pages))
}

func epubAPI(c *hx.Ctx, r *hx.Rng, p *pkg, args, path string) {
	tm := p.tokenMap()
	rd, err := epubdoc.Open(path)
	if err != nil {
		c.Op("c18.api epub "+args+" h= p= q=C", "err")
		c.Count("epub/api-open-fails")
		return
	}
	defer rd.Close()
	byContent := map[string]int{}
	for i, d := range p.Docs {
		byContent[string(d.data)] = i + 1
	}
	var cids []int
	seen := map[int]bool{}
	for _, ch := range rd.Chapters() {
		id, ok := byContent[string(ch.Content)]
		if !ok {
			c.Count("epub/api-part-unidentified")
			return
		}
		if !seen[id] {
			seen[id] = true
			cids = append(cids, id)
		}
	}
	n := rd.ChapterCount()
	// the calls first (the views are supplied for the modes they use, and for mode 0)
	type ecall struct {
		kind string
		mode int
		f    frontCall
	}
	var plan []ecall
	fronts := 0
	modes := map[int]bool{0: true}
	for k, m := 0, r.Range(3, 7); k < m; k++ {
		switch ch := r.Intn(12); {
		case ch < 1:
			plan = append(plan, ecall{kind: "C"})
		case ch < 2:
			plan = append(plan, ecall{kind: "L"})
		case ch < 7:
			e := ecall{kind: hx.Pick(r, []string{"T", "T", "M"}), mode: r.Intn(4)}
			if r.Chance(1, 10) {
				e.mode = hx.Pick(r, []int{-1, 4, 9})
			}
			modes[e.mode] = true
			plan = append(plan, e)
		case ch < 9:
			plan = append(plan, ecall{kind: "D"})
		default:
			if fronts >= 2 {
				k--
				continue
			}
			fronts++
			plan = append(plan, ecall{kind: "F", f: genFront(r, n)})
		}
	}
	h, horder := map[string]string{}, []string{}
	pg, porder := map[string]string{}, []string{}
	for _, id := range cids {
		data := p.Docs[id-1].data
		for m := -1; m <= 9; m++ {
			if !modes[m] {
				continue
			}
			t, md := htmlViews(data, m)
			key := fmt.Sprintf("%d.%d", id, m)
			h[key] = t + "," + md
			horder = append(horder, key)
		}
		key := fmt.Sprint(id)
		pg[key] = htmlPages(data)
		porder = append(porder, key)
	}
	var calls, outs []string
	for _, e := range plan {
		switch e.kind {
		case "C":
			calls = append(calls, "C")
			outs = append(outs, fmt.Sprintf("n=%d/%d", rd.ChapterCount(), len(rd.Chapters())))
		case "L":
			calls = append(calls, "L")
			var xs []string
			for _, ch := range rd.Chapters() {
				xs = append(xs, fmt.Sprintf("%d:%d:%s:%s", ch.Index, byContent[string(ch.Content)], hx.HexS(ch.Href), hx.HexS(ch.ID)))
			}
			outs = append(outs, "ch="+strings.Join(xs, ","))
		case "T", "M":
			calls = append(calls, fmt.Sprintf("%s,%d", e.kind, e.mode))
			o := epubdoc.ExtractOptions{NavigationExclusion: e.mode}
			var t string
			var err error
			if e.kind == "T" {
				t, err = rd.TextWithOptions(o)
			} else {
				t, err = rd.MarkdownWithOptions(o)
			}
			if err != nil {
				outs = append(outs, "err")
			} else {
				outs = append(outs, "text="+hx.HexS(t))
			}
			c.Count(fmt.Sprintf("epub/api-%s-mode=%d", e.kind, e.mode))
		case "D":
			calls = append(calls, "D")
			doc, err := rd.Document()
			if err != nil || doc == nil {
				outs = append(outs, "err")
			} else {
				outs = append(outs, docPagesLine(p, tm, doc, "*"))
			}
		default:
			calls = append(calls, e.f.enc())
			outs = append(outs, e.f.run(p, tm, path, "*"))
			c.Count("epub/api-front:" + e.f.kind)
		}
	}
	c.Op("c18.api epub "+args+" h="+table(h, horder)+" p="+table(pg, porder)+" q="+strings.Join(calls, ";"), "ok "+strings.Join(outs, " "))
	c.Count(fmt.Sprintf("epub/api-calls=%d", len(calls)))
}

// apiOps emits the reader-API correspondence of one written package.
func apiOps(c *hx.Ctx, p *pkg, k kase, path string, idx int) {
	r := c.Rng.Fork(uint64(3_000_000 + idx))
	args := strings.TrimPrefix(p.opLine(), "c18.pkg "+p.Fmt+" ")
	if p.Fmt == "pptx" {
		pptxNotesOp(c, p, args, path)
	}
	args += " " + p.mimeTable()
	pn := hx.Safe(func() {
		switch p.Fmt {
		case "xlsx":
			xlsxAPI(c, r, p, args, path)
		case "pptx":
			pptxAPI(c, r, p, args, path)
		default:
			epubAPI(c, r, p, args, path)
		}
	})
	c.Check("C18/panic", pn == "", k, func() string { return "panic in the reader API history: " + pn + "; " + p.describe() })
}
