package c18

import (
	"fmt"
	"os"
	"path/filepath"
	"strings"

	"github.com/tsawler/tabula/pptx"
	"github.com/tsawler/tabula/xlsx"

	"verifharness/hx"
	"verifharness/writers"
)

// Attribute-level binding (op c18.bind, Model/PackageBind.lean).
//
// The packages of the main stream hand the model the r:id VALUES the harness wrote; here
// the model receives what encoding/xml hands to tabula's struct tags — per declaring
// element (<sheet>, <sldId>, <Relationship>) the attributes in document order as
// (namespace URI, local name, value) — and must itself say which attribute is the
// relationship id / the name / the Id, Type and Target. The harness writes the markup with
// prefixes it declares (on the root or on the element itself) and resolves them for the op
// line; the implementation side is xlsx.Open / pptx.Open on the written package, the
// presented parts identified by unique tokens. Mostly the regular spellings (r:id bound to
// the Transitional or the Strict relationships namespace, under any prefix, declared
// anywhere), plus a malformed stream: the id in a foreign namespace or none, both
// namespaces on one element, the same expanded name twice under two prefixes, empty
// values, a prefix named "id" declared on the element, foreign attributes called
// Id/Type/Target/name on the relationship / sheet elements, duplicate relationship Ids,
// missing members, a presentation without sldIdLst.

const (
	nsOther = "urn:example:other"
	nsXmlns = "xmlns"
)

// battr is one attribute as written (prefix:local="value") with its resolved namespace.
type battr struct {
	prefix, local, value, space string
}

func (a battr) markup() string {
	n := a.local
	if a.prefix != "" {
		n = a.prefix + ":" + a.local
	}
	return " " + n + `="` + writers.XMLEsc(a.value) + `"`
}

func (a battr) enc() string { return hx.HexS(a.space) + "." + hx.HexS(a.local) + "." + hx.HexS(a.value) }

type belem []battr

func (e belem) markup(tag string) string {
	var b strings.Builder
	b.WriteString("<" + tag)
	for _, a := range e {
		b.WriteString(a.markup())
	}
	b.WriteString("/>")
	return b.String()
}

func (e belem) enc() string {
	if len(e) == 0 {
		return "z"
	}
	s := make([]string, len(e))
	for i, a := range e {
		s[i] = a.enc()
	}
	return strings.Join(s, "_")
}

func encElems(letter string, es []belem) string {
	s := []string{letter}
	for _, e := range es {
		s = append(s, e.enc())
	}
	return strings.Join(s, ",")
}

// prefixes declared on the root of the main part
var rootNS = map[string]string{"r": nsRel, "r2": nsRel, "s": nsRelStrict, "o": nsOther}

func rootDecls() string {
	return ` xmlns:r="` + nsRel + `" xmlns:r2="` + nsRel + `" xmlns:s="` + nsRelStrict + `" xmlns:o="` + nsOther + `"`
}

func pa(prefix, local, value string) battr {
	return battr{prefix: prefix, local: local, value: value, space: rootNS[prefix]}
}

// decl is a namespace declaration written on the element itself.
func decl(prefix, uri string) battr {
	return battr{prefix: "xmlns", local: prefix, value: uri, space: nsXmlns}
}

// genIDAttrs draws the attributes that say (or fail to say) which relationship a
// declaring element refers to; rid is the id it means, other another known id.
func genIDAttrs(r *hx.Rng, rid, other string) (belem, string) {
	switch c := r.Intn(40); {
	case c < 12:
		return belem{pa("r", "id", rid)}, "transitional"
	case c < 18:
		return belem{pa("s", "id", rid)}, "strict"
	case c < 21:
		return belem{pa("r2", "id", rid)}, "other-prefix"
	case c < 24:
		ns := hx.Pick(r, []string{nsRel, nsRelStrict})
		e := belem{decl("q", ns), {prefix: "q", local: "id", value: rid, space: ns}}
		if r.Bool() {
			e[0], e[1] = e[1], e[0]
		}
		return e, "local-decl"
	case c < 26:
		return belem{pa("o", "id", rid)}, "foreign-ns"
	case c < 28:
		return belem{pa("", "id", rid)}, "no-ns"
	case c < 30:
		return belem{}, "no-id"
	case c < 32:
		e := belem{pa("r", "id", rid), pa("s", "id", other)}
		if r.Bool() {
			e[0], e[1] = e[1], e[0]
		}
		return e, "both-namespaces"
	case c < 34:
		e := belem{pa("r", "id", ""), pa("s", "id", rid)}
		if r.Bool() {
			e[0], e[1] = e[1], e[0]
		}
		return e, "empty-transitional"
	case c < 36:
		e := belem{pa("r", "id", other), pa("r2", "id", rid)}
		return e, "same-name-twice"
	case c < 38:
		e := belem{pa("r", "id", rid), decl("id", hx.Pick(r, []string{other, nsOther}))}
		if r.Bool() {
			e[0], e[1] = e[1], e[0]
		}
		return e, "prefix-named-id"
	default:
		e := belem{pa("r", "id", rid), pa("o", "id", other)}
		if r.Bool() {
			e[0], e[1] = e[1], e[0]
		}
		return e, "foreign-id-beside"
	}
}

func bindSheetBody(tok string) string {
	return xmlHdr + `<worksheet xmlns="` + nsSS + `"><sheetData><row r="1"><c r="A1" t="inlineStr"><is><t>` + tok + `</t></is></c><c r="B1"><v>7</v></c></row></sheetData></worksheet>`
}

type bmember struct {
	name, data, spec, tok string
}

func bindCase(c *hx.Ctx, idx int) {
	r := c.Rng.Fork(uint64(2_000_000 + idx))
	f := []string{"xlsx", "pptx"}[idx%2]
	k := kase{Seed: c.Seed, Index: idx, Fmt: "bind"}
	var ms []bmember
	add := func(name, data, spec, tok string) { ms = append(ms, bmember{name, data, spec, tok}) }
	add("[Content_Types].xml", xmlHdr+`<Types xmlns="http://schemas.openxmlformats.org/package/2006/content-types"/>`, "", "")

	// the parts
	n := r.Range(2, 5)
	dir, relDir := "ppt/slides/", "slides/"
	if f == "xlsx" {
		dir, relDir = "xl/worksheets/", "worksheets/"
	}
	rids := make([]string, n)
	for j := 0; j < n; j++ {
		rids[j] = fmt.Sprintf("rId%d", 10+j)
		tok := fmt.Sprintf("BND%dq%dz", idx, j)
		name := fmt.Sprintf("%sp%d.xml", dir, n-j)
		state := "ok"
		if r.Chance(1, 12) {
			state = hx.Pick(r, []string{"missing", "malformed"})
		}
		switch {
		case state == "missing":
		case f == "xlsx" && state == "ok":
			add(name, bindSheetBody(tok), "S", tok)
		case f == "xlsx":
			add(name, xmlHdr+`<worksheet xmlns="`+nsSS+`"><sheetData><row r="1">`, "B", tok)
		case state == "ok":
			add(name, slideXMLBody(tok, "", false), "L", tok)
		default:
			add(name, xmlHdr+`<p:sld xmlns:p="`+nsP+`"><p:cSld>`, "B", tok)
		}
		if state != "ok" {
			c.Count("bind/part-" + state)
		}
	}
	if f == "xlsx" && r.Chance(1, 3) {
		// the default name an unbound <sheet> falls back to
		j := r.Range(1, n)
		tok := fmt.Sprintf("BND%dd%dz", idx, j)
		add(fmt.Sprintf("xl/worksheets/sheet%d.xml", j), bindSheetBody(tok), "S", tok)
		c.Count("bind/xlsx-default-name-member")
	}

	// the relationship part
	var rels []belem
	for j := 0; j < n; j++ {
		tgt := fmt.Sprintf("%sp%d.xml", relDir, n-j)
		if r.Chance(1, 6) {
			tgt = "/" + dir + fmt.Sprintf("p%d.xml", n-j)
		}
		e := belem{pa("", "Id", rids[j]), pa("", "Type", nsRel+"/part"), pa("", "Target", tgt)}
		hx.Shuffle(r, e)
		switch r.Intn(12) {
		case 0:
			e = append(e, pa("", "TargetMode", "Internal"))
		case 1:
			// a foreign attribute of the same local name: the tags carry no namespace
			fa := pa("o", hx.Pick(r, []string{"Id", "Target"}), hx.Pick(r, []string{rids[r.Intn(n)], "worksheets/none.xml"}))
			at := r.Intn(len(e) + 1)
			e = append(e[:at:at], append(belem{fa}, e[at:]...)...)
			c.Count("bind/rel-foreign-attribute")
		case 2:
			e = belem{pa("", "Id", rids[j]), pa("", "Target", tgt)}
		case 3:
			e = belem{pa("", "Type", nsRel+"/part"), pa("", "Target", tgt)}
			c.Count("bind/rel-without-id")
		}
		rels = append(rels, e)
	}
	if r.Chance(1, 6) {
		// a second relationship under an Id already used: the later one counts
		j, j2 := r.Intn(n), r.Intn(n)
		rels = append(rels, belem{pa("", "Id", rids[j]), pa("", "Type", nsRel+"/part"), pa("", "Target", fmt.Sprintf("%sp%d.xml", relDir, n-j2))})
		c.Count("bind/rel-duplicate-id")
	}
	hx.Shuffle(r, rels)
	relsName := "ppt/_rels/presentation.xml.rels"
	if f == "xlsx" {
		relsName = "xl/_rels/workbook.xml.rels"
	}
	if !r.Chance(1, 25) {
		var b strings.Builder
		b.WriteString(xmlHdr + `<Relationships xmlns="` + nsPkgR + `" xmlns:o="` + nsOther + `">`)
		for _, e := range rels {
			b.WriteString(e.markup("Relationship"))
		}
		b.WriteString(`</Relationships>`)
		add(relsName, b.String(), encElems("t", rels), "")
	} else {
		c.Count("bind/no-relationship-part")
	}

	// the declaring elements, in an order unrelated to the part numbers
	m := r.Range(1, 5)
	var elems []belem
	for j := 0; j < m; j++ {
		rid := rids[r.Intn(n)]
		if r.Chance(1, 15) {
			rid = "rId99"
		}
		other := rids[r.Intn(n)]
		ids, style := genIDAttrs(r, rid, other)
		c.Count("bind/" + f + "/" + style)
		var e belem
		if f == "xlsx" {
			e = belem{pa("", "name", fmt.Sprintf("N%d", j)), pa("", "sheetId", fmt.Sprint(r.Range(1, 900)))}
			if r.Chance(1, 10) {
				e = append(e, pa("o", "name", "Foreign"))
				c.Count("bind/xlsx/foreign-name-attribute")
			}
		} else {
			e = belem{pa("", "id", fmt.Sprint(256+r.Intn(900)))}
		}
		if r.Bool() {
			e = append(e, ids...)
		} else {
			e = append(append(belem{}, ids...), e...)
		}
		elems = append(elems, e)
	}
	var b strings.Builder
	if f == "xlsx" {
		b.WriteString(xmlHdr + `<workbook xmlns="` + nsSS + `"` + rootDecls() + `><sheets>`)
		for _, e := range elems {
			b.WriteString(e.markup("sheet"))
		}
		b.WriteString(`</sheets></workbook>`)
		add("xl/workbook.xml", b.String(), encElems("w", elems), "")
	} else if r.Chance(1, 30) {
		add("ppt/presentation.xml", xmlHdr+`<p:presentation xmlns:p="`+nsP+`"`+rootDecls()+`/>`, "P", "")
		c.Count("bind/pptx/no-sldIdLst")
	} else {
		b.WriteString(xmlHdr + `<p:presentation xmlns:p="` + nsP + `"` + rootDecls() + `><p:sldIdLst>`)
		for _, e := range elems {
			b.WriteString(e.markup("p:sldId"))
		}
		b.WriteString(`</p:sldIdLst></p:presentation>`)
		add("ppt/presentation.xml", b.String(), encElems("q", elems), "")
	}

	// write, in a ZIP order of its own
	hx.Shuffle(r, ms)
	zm := make([]writers.Member, len(ms))
	var av, xv []string
	for i, mbr := range ms {
		zm[i] = writers.Member{Name: mbr.name, Data: []byte(mbr.data)}
		av = append(av, fmt.Sprintf("%s:%d", hx.HexS(mbr.name), i+1))
		if mbr.spec != "" {
			xv = append(xv, fmt.Sprintf("%d=%s", i+1, mbr.spec))
		}
	}
	cidOfText := func(text string) string {
		found := "?"
		for i, mbr := range ms {
			if mbr.tok != "" && strings.Contains(text, mbr.tok) {
				if found != "?" {
					return "?multi"
				}
				found = fmt.Sprint(i + 1)
			}
		}
		return found
	}
	path := filepath.Join(c.OutDir, fmt.Sprintf("c18-bind-%d.%s", idx, f))
	if err := os.WriteFile(path, writers.Zip(zm), 0o644); err != nil {
		panic(err)
	}
	defer os.Remove(path)

	line, opened := "err", false
	pn := hx.Safe(func() {
		var out []string
		if f == "xlsx" {
			rd, err := xlsx.Open(path)
			if err != nil {
				return
			}
			defer rd.Close()
			for i := 0; i < rd.SheetCount(); i++ {
				s, _ := rd.Sheet(i)
				var t strings.Builder
				for _, row := range s.Rows {
					for _, cell := range row {
						t.WriteString(cell.Value + "\t")
					}
				}
				out = append(out, fmt.Sprintf("%d:%s:%s", s.Index, cidOfText(t.String()), hx.HexS(s.Name)))
			}
		} else {
			rd, err := pptx.Open(path)
			if err != nil {
				return
			}
			defer rd.Close()
			for i := 0; i < rd.SlideCount(); i++ {
				s, _ := rd.Slide(i)
				out = append(out, fmt.Sprintf("%d:%s", s.Index, cidOfText(s.GetText())))
			}
		}
		opened = true
		line = strings.TrimSpace("ok " + strings.Join(out, " "))
	})
	c.Check("C18/panic", pn == "", k, func() string { return "bind case panic: " + pn })
	op := "c18.bind " + f + " a=" + strings.Join(av, ",") + " x=" + strings.Join(xv, ";")
	c.Op(op, line)
	if opened {
		c.Count("bind/" + f + "/opened")
	} else {
		c.Count("bind/" + f + "/refused")
	}
	c.Case(op, opened)
}

func bindOps(c *hx.Ctx, from, n int) {
	for i := from; i < from+n; i++ {
		bindCase(c, i)
	}
}
