package c18

import (
	"fmt"
	"strings"

	"github.com/tsawler/tabula/epubdoc"
	"github.com/tsawler/tabula/pptx"
	"github.com/tsawler/tabula/rag"
	"github.com/tsawler/tabula/xlsx"

	"verifharness/hx"
)

// Call sequences on ONE opened reader.
//
// C18 speaks about what a container document presents, not about the first
// call only: whatever was asked of a reader before (a selection naming a
// subset or a permutation of the parts, Text/Markdown/Document in any order,
// repeated), every accessor must still present the declared readable parts in
// declared order, with the declared count and each part's text in its own
// page — the same as a freshly opened reader. The output of a call that selects
// parts must list exactly the selected parts.
//
// Expectations come from the logical package only: the i-th presented part is
// the i-th declared readable part (index i of a selection names that part).

// seqReader is the part of a format reader's API that a sequence exercises.
type seqReader interface {
	count() int
	pageCount() (int, error)
	names() []string                  // xlsx: SheetNames(); epub: chapter id + href; pptx: nil
	part(i int) (string, int, string) // text held for part i, its Index field, pptx notes
	text() (string, error)
	markdown() (string, error)
	docPages() ([]string, error)
	selected(s step) (string, error) // a call that names parts / carries options
	other(s step)                    // accessors without a text result (Tables, SheetByName ...)
	listing(p *pkg) string           // the reply line of op c18.pkg
	close()
}

// step is one call of a sequence.
type step struct {
	Call  string // text | markdown | document | parts | other | sel-text | sel-md | sel-rag | opt-text | opt-md
	Sel   []int  // sel-*: the selection as passed (xlsx Sheets / pptx SlideNumbers)
	Flag  bool   // xlsx IncludeHeaders / pptx IncludeNotes
	Flag2 bool   // pptx IncludeTitles / rag IncludeTableOfContents
	Flag3 bool   // pptx ExcludeHeaders+ExcludeFooters
	Delim string // xlsx Delimiter
	Mode  int    // epub NavigationExclusion
	// strict: the selection names distinct existing parts, so the output is decided by the
	// statement; otherwise (indices out of range, repeated) only "nothing that was not
	// selected is listed" is decided.
	Strict bool
}

func (s step) String() string {
	switch s.Call {
	case "sel-text", "sel-md", "sel-rag":
		return fmt.Sprintf("%s{sel:%v,flag:%v,flag2:%v,flag3:%v,delim:%q}", s.Call, s.Sel, s.Flag, s.Flag2, s.Flag3, s.Delim)
	case "opt-text", "opt-md":
		return fmt.Sprintf("%s{nav:%d}", s.Call, s.Mode)
	}
	return s.Call + "()"
}

// ---- adapters -------------------------------------------------------------------

type xlsxSeq struct{ rd *xlsx.Reader }

func sheetCells(s *xlsx.Sheet) string {
	var b strings.Builder
	for _, row := range s.Rows {
		for _, cell := range row {
			b.WriteString(cell.Value + "\t")
		}
		b.WriteString("\n")
	}
	return b.String()
}

func (x xlsxSeq) count() int              { return x.rd.SheetCount() }
func (x xlsxSeq) pageCount() (int, error) { return x.rd.PageCount() }
func (x xlsxSeq) names() []string         { return x.rd.SheetNames() }
func (x xlsxSeq) part(i int) (string, int, string) {
	s, err := x.rd.Sheet(i)
	if err != nil || s == nil {
		return "", -1, ""
	}
	return sheetCells(s), s.Index, s.Name
}
func (x xlsxSeq) text() (string, error)     { return x.rd.Text() }
func (x xlsxSeq) markdown() (string, error) { return x.rd.Markdown() }
func (x xlsxSeq) docPages() ([]string, error) {
	doc, err := x.rd.Document()
	if err != nil || doc == nil {
		return nil, fmt.Errorf("Document: %v", err)
	}
	var out []string
	for _, pg := range doc.Pages {
		out = append(out, pageText(pg))
	}
	return out, nil
}
func (x xlsxSeq) selected(s step) (string, error) {
	o := xlsx.ExtractOptions{Sheets: append([]int(nil), s.Sel...), IncludeHeaders: s.Flag, Delimiter: s.Delim}
	switch s.Call {
	case "sel-text":
		return x.rd.TextWithOptions(o)
	case "sel-md":
		return x.rd.MarkdownWithOptions(o)
	}
	m := rag.DefaultMarkdownOptions()
	m.IncludeTableOfContents = s.Flag2
	return x.rd.MarkdownWithRAGOptions(o, m)
}
func (x xlsxSeq) other(s step) {
	_ = x.rd.Tables()
	for _, n := range x.rd.SheetNames() {
		_, _ = x.rd.SheetByName(n)
	}
	_ = x.rd.Metadata()
}
func (x xlsxSeq) listing(p *pkg) string {
	var out []string
	for i := 0; i < x.rd.SheetCount(); i++ {
		s, _ := x.rd.Sheet(i)
		out = append(out, fmt.Sprintf("%d:%s:%s", s.Index, tokenCid(p, sheetCells(s)), hx.HexS(s.Name)))
	}
	return strings.TrimSpace("ok " + strings.Join(out, " "))
}
func (x xlsxSeq) close() { x.rd.Close() }

type pptxSeq struct{ rd *pptx.Reader }

func (x pptxSeq) count() int              { return x.rd.SlideCount() }
func (x pptxSeq) pageCount() (int, error) { return x.rd.PageCount() }
func (x pptxSeq) names() []string         { return nil }
func (x pptxSeq) part(i int) (string, int, string) {
	s, err := x.rd.Slide(i)
	if err != nil || s == nil {
		return "", -1, ""
	}
	return s.GetText(), s.Index, s.Notes
}
func (x pptxSeq) text() (string, error)     { return x.rd.Text() }
func (x pptxSeq) markdown() (string, error) { return x.rd.Markdown() }
func (x pptxSeq) docPages() ([]string, error) {
	doc, err := x.rd.Document()
	if err != nil || doc == nil {
		return nil, fmt.Errorf("Document: %v", err)
	}
	var out []string
	for _, pg := range doc.Pages {
		out = append(out, pageText(pg))
	}
	return out, nil
}
func (x pptxSeq) selected(s step) (string, error) {
	o := pptx.ExtractOptions{SlideNumbers: append([]int(nil), s.Sel...), IncludeNotes: s.Flag, IncludeTitles: s.Flag2, ExcludeHeaders: s.Flag3, ExcludeFooters: s.Flag3}
	switch s.Call {
	case "sel-text":
		return x.rd.TextWithOptions(o)
	case "sel-md":
		return x.rd.MarkdownWithOptions(o)
	}
	return x.rd.MarkdownWithRAGOptions(o, rag.DefaultMarkdownOptions())
}
func (x pptxSeq) other(s step) { _ = x.rd.Metadata() }
func (x pptxSeq) listing(p *pkg) string {
	var out []string
	for i := 0; i < x.rd.SlideCount(); i++ {
		s, _ := x.rd.Slide(i)
		out = append(out, fmt.Sprintf("%d:%s", s.Index, tokenCid(p, s.GetText())))
	}
	return strings.TrimSpace("ok " + strings.Join(out, " "))
}
func (x pptxSeq) close() { x.rd.Close() }

type epubSeq struct{ rd *epubdoc.Reader }

func (x epubSeq) count() int              { return x.rd.ChapterCount() }
func (x epubSeq) pageCount() (int, error) { return len(x.rd.Chapters()), nil }
func (x epubSeq) names() []string {
	out := []string{}
	for _, ch := range x.rd.Chapters() {
		out = append(out, ch.ID+" "+ch.Href)
	}
	return out
}
func (x epubSeq) part(i int) (string, int, string) {
	chs := x.rd.Chapters()
	if i < 0 || i >= len(chs) || chs[i] == nil {
		return "", -1, ""
	}
	return string(chs[i].Content), chs[i].Index, ""
}
func (x epubSeq) text() (string, error)     { return x.rd.Text() }
func (x epubSeq) markdown() (string, error) { return x.rd.Markdown() }
func (x epubSeq) docPages() ([]string, error) {
	doc, err := x.rd.Document()
	if err != nil || doc == nil {
		return nil, fmt.Errorf("Document: %v", err)
	}
	var out []string
	for _, pg := range doc.Pages {
		out = append(out, pageText(pg))
	}
	return out, nil
}
func (x epubSeq) selected(s step) (string, error) {
	o := epubdoc.ExtractOptions{NavigationExclusion: s.Mode}
	if s.Call == "opt-text" {
		return x.rd.TextWithOptions(o)
	}
	return x.rd.MarkdownWithOptions(o)
}
func (x epubSeq) other(s step) { _ = x.rd.Metadata() }
func (x epubSeq) listing(p *pkg) string {
	byContent := map[string]int{}
	for i, d := range p.Docs {
		byContent[string(d.data)] = i + 1
	}
	var out []string
	for _, ch := range x.rd.Chapters() {
		cid := "?"
		if id, ok := byContent[string(ch.Content)]; ok {
			cid = fmt.Sprint(id)
		}
		out = append(out, fmt.Sprintf("%d:%s:%s:%s", ch.Index, cid, hx.HexS(ch.Href), hx.HexS(ch.ID)))
	}
	return strings.TrimSpace("ok " + strings.Join(out, " "))
}
func (x epubSeq) close() { x.rd.Close() }

func openSeq(f, path string) (seqReader, error) {
	switch f {
	case "xlsx":
		rd, err := xlsx.Open(path)
		if err != nil {
			return nil, err
		}
		return xlsxSeq{rd}, nil
	case "pptx":
		rd, err := pptx.Open(path)
		if err != nil {
			return nil, err
		}
		return pptxSeq{rd}, nil
	}
	rd, err := epubdoc.Open(path)
	if err != nil {
		return nil, err
	}
	return epubSeq{rd}, nil
}

// ---- generators -------------------------------------------------------------------

// genSelection draws a selection over n parts. The classes: one part that is not the
// first, a suffix, an ascending subset that is not a prefix, the reversed list, a
// permutation of all parts, a subset in random (mostly non-ascending) order, a prefix,
// and lenient ones carrying indices that name no part or name a part twice.
func genSelection(r *hx.Rng, n int) (sel []int, strict bool, class string) {
	if n <= 0 {
		return []int{0, 1}, false, "no-parts"
	}
	if n == 1 {
		if r.Chance(1, 4) {
			return []int{0, 0, 3, -1}, false, "lenient"
		}
		return []int{0}, true, "prefix"
	}
	switch c := r.Intn(16); {
	case c < 3:
		return []int{r.Range(1, n-1)}, true, "single-not-first"
	case c < 5:
		from := r.Range(1, n-1)
		for i := from; i < n; i++ {
			sel = append(sel, i)
		}
		return sel, true, "suffix"
	case c < 7:
		for i := 0; i < n; i++ {
			if r.Bool() {
				sel = append(sel, i)
			}
		}
		if len(sel) == 0 || sel[0] == 0 {
			sel = append([]int{}, n-1)
			if n > 2 && r.Bool() {
				sel = []int{n - 2, n - 1}
			}
		}
		return sel, true, "ascending-not-prefix"
	case c < 9:
		for i := n - 1; i >= 0; i-- {
			sel = append(sel, i)
		}
		return sel, true, "reversed"
	case c < 11:
		return perm(r, n), true, "permutation"
	case c < 14:
		q := perm(r, n)
		return q[:r.Range(1, n)], true, "subset-any-order"
	case c < 15:
		for i := 0; i < r.Range(1, n); i++ {
			sel = append(sel, i)
		}
		return sel, true, "prefix"
	}
	q := perm(r, n)
	sel = append(sel, q[:r.Range(1, n)]...)
	for k, m := 0, r.Range(1, 3); k < m; k++ {
		at := r.Intn(len(sel) + 1)
		v := hx.Pick(r, []int{-1, n, n + 3, sel[0], -7})
		sel = append(sel[:at], append([]int{v}, sel[at:]...)...)
	}
	return sel, false, "lenient"
}

func genSteps(r *hx.Rng, f string, n int) []step {
	var steps []step
	m := r.Range(2, 6)
	for len(steps) < m {
		var s step
		switch c := r.Intn(12); {
		case f == "epub" && c < 5:
			s = step{Call: hx.Pick(r, []string{"opt-text", "opt-md"}), Mode: r.Intn(4)}
		case c < 5:
			s = step{Call: hx.Pick(r, []string{"sel-text", "sel-text", "sel-md", "sel-md", "sel-rag"}), Flag: r.Bool(), Flag2: r.Bool(), Flag3: r.Chance(1, 4)}
			s.Sel, s.Strict, _ = genSelection(r, n)
			if f == "xlsx" {
				s.Delim = hx.Pick(r, []string{"", "", ",", " | "})
			}
		case c < 7:
			s.Call = "text"
		case c < 9:
			s.Call = "markdown"
		case c < 10:
			s.Call = "document"
		case c < 11:
			s.Call = "parts"
		default:
			s.Call = "other"
		}
		steps = append(steps, s)
	}
	// a sequence without any part-naming call says nothing new for xlsx/pptx: put one first
	// or in the middle
	if f != "epub" {
		has := false
		for _, s := range steps {
			if strings.HasPrefix(s.Call, "sel-") {
				has = true
			}
		}
		if !has {
			s := step{Call: hx.Pick(r, []string{"sel-text", "sel-md"}), Flag: r.Bool(), Flag2: true}
			s.Sel, s.Strict, _ = genSelection(r, n)
			steps[r.Intn(len(steps)-1)] = s
		}
	}
	return steps
}

// ---- snapshots --------------------------------------------------------------------

// snapshot = what every accessor of the reader shows at one moment.
type snapshot struct {
	count, pageCount int
	names            []string
	parts            []string // per part: text
	idx              []int    // per part: Index field
	notes            []string
	text, md         string
	textErr, mdErr   string
	doc              []string
	docErr           string
}

func takeSnapshot(rd seqReader) *snapshot {
	s := &snapshot{count: rd.count()}
	s.pageCount, _ = rd.pageCount()
	s.names = append([]string(nil), rd.names()...)
	for i := 0; i < s.count && i < 64; i++ {
		t, ix, nt := rd.part(i)
		s.parts, s.idx, s.notes = append(s.parts, t), append(s.idx, ix), append(s.notes, nt)
	}
	var err error
	if s.text, err = rd.text(); err != nil {
		s.textErr = err.Error()
	}
	if s.md, err = rd.markdown(); err != nil {
		s.mdErr = err.Error()
	}
	if s.doc, err = rd.docPages(); err != nil {
		s.docErr = err.Error()
	}
	return s
}

func (s *snapshot) equal(t *snapshot) (bool, string) {
	j := func(xs []string) string { return strings.Join(xs, "\x00") }
	switch {
	case s.count != t.count || s.pageCount != t.pageCount:
		return false, fmt.Sprintf("part count %d/page count %d, was %d/%d", s.count, s.pageCount, t.count, t.pageCount)
	case j(s.names) != j(t.names):
		return false, fmt.Sprintf("names %q, was %q", s.names, t.names)
	case j(s.parts) != j(t.parts):
		return false, "the text held per part (Sheet(i)/Slide(i)/Chapters()[i]) differs"
	case fmt.Sprint(s.idx) != fmt.Sprint(t.idx):
		return false, fmt.Sprintf("Index fields %v, was %v", s.idx, t.idx)
	case j(s.notes) != j(t.notes):
		return false, fmt.Sprintf("per-part notes/names %q, was %q", s.notes, t.notes)
	case s.text != t.text || s.textErr != t.textErr:
		return false, fmt.Sprintf("Text() = %q (err %q), was %q (err %q)", s.text, s.textErr, t.text, t.textErr)
	case s.md != t.md || s.mdErr != t.mdErr:
		return false, fmt.Sprintf("Markdown() = %q (err %q), was %q (err %q)", s.md, s.mdErr, t.md, t.mdErr)
	case j(s.doc) != j(t.doc) || s.docErr != t.docErr:
		return false, fmt.Sprintf("Document() pages %q (err %q), were %q (err %q)", s.doc, s.docErr, t.doc, t.docErr)
	}
	return true, ""
}

// tokenSeq lists, in order of appearance, the indices (in E) of the expected parts'
// tokens occurring in text; every occurrence counts.
func tokenSeq(E []part, text string) []int {
	type hit struct{ at, i int }
	var hits []hit
	for i, d := range E {
		for from := 0; ; {
			k := strings.Index(text[from:], d.Tok)
			if k < 0 {
				break
			}
			hits = append(hits, hit{from + k, i})
			from += k + len(d.Tok)
		}
	}
	for a := 1; a < len(hits); a++ {
		for b := a; b > 0 && hits[b].at < hits[b-1].at; b-- {
			hits[b], hits[b-1] = hits[b-1], hits[b]
		}
	}
	out := []int{}
	for _, h := range hits {
		out = append(out, h.i)
	}
	return out
}

// tokenSet lists the indices (in E) of the expected parts whose token occurs in text.
func tokenSet(E []part, text string) []int {
	out := []int{}
	for i, d := range E {
		if strings.Contains(text, d.Tok) {
			out = append(out, i)
		}
	}
	return out
}

func upto(n int) []int {
	out := []int{}
	for i := 0; i < n; i++ {
		out = append(out, i)
	}
	return out
}

func sameInts(a, b []int) bool { return fmt.Sprint(a) == fmt.Sprint(b) }

// stateOracle evaluates the statement on one snapshot: declared count, declared
// order through every accessor, each part's text in its own page and only there.
// It returns a description of the first accessor that contradicts the logical package.
func stateOracle(p *pkg, E []part, s *snapshot) (bool, string) {
	n := len(E)
	// page j shows the text of E[at[j]], or of no part at all when at[j] < 0 (a text-less part)
	slot := p.slots()
	nP := len(p.pages())
	at := make([]int, nP)
	for j := range at {
		at[j] = -1
	}
	for i, j := range slot {
		at[j] = i
	}
	wantAt := func(j int) ([]int, string) {
		if j < nP && at[j] >= 0 {
			return []int{at[j]}, fmt.Sprintf("exactly [%d] = %s", at[j], E[at[j]].Tok)
		}
		return []int{}, "none: a text-less part"
	}
	if s.count != nP || s.pageCount != nP {
		return false, fmt.Sprintf("part count %d / PageCount %d, %d parts are declared and readable", s.count, s.pageCount, nP)
	}
	if p.Fmt == "xlsx" {
		var want []string
		for _, d := range E {
			want = append(want, d.Title)
		}
		if strings.Join(want, "\x00") != strings.Join(s.names, "\x00") {
			return false, fmt.Sprintf("SheetNames()=%q, declared %q", s.names, want)
		}
		if strings.Join(want, "\x00") != strings.Join(s.notes, "\x00") {
			return false, fmt.Sprintf("Sheet(i).Name = %q, declared %q", s.notes, want)
		}
	}
	for j, t := range s.parts {
		want, ws := wantAt(j)
		if got := tokenSeq(E, t); !sameInts(got, want) {
			return false, fmt.Sprintf("part %d of the reader carries the text of declared text-bearing part(s) %v (want %s)", j, got, ws)
		}
	}
	if got := tokenSeq(E, s.text); !sameInts(got, upto(n)) || s.textErr != "" {
		return false, fmt.Sprintf("Text() (err %q) carries the declared parts in order %v, want %v", s.textErr, got, upto(n))
	}
	if got := tokenSeq(E, s.md); !sameInts(got, upto(n)) || s.mdErr != "" {
		return false, fmt.Sprintf("Markdown() (err %q) carries the declared parts in order %v, want %v", s.mdErr, got, upto(n))
	}
	if len(s.doc) != nP || s.docErr != "" {
		return false, fmt.Sprintf("Document() has %d pages (err %q), %d parts are declared and readable", len(s.doc), s.docErr, nP)
	}
	for j, t := range s.doc {
		// (a page's text is read through its elements and through ExtractText: which parts, not how often)
		want, ws := wantAt(j)
		if got := tokenSet(E, t); !sameInts(got, want) {
			return false, fmt.Sprintf("Document().Pages[%d] carries the text of declared text-bearing part(s) %v (want %s)", j, got, ws)
		}
	}
	if p.Fmt == "pptx" {
		for i, d := range E {
			for j, nt := range s.notes {
				if d.NotesTok != "" && strings.Contains(nt, d.NotesTok) != (i == j) {
					return false, fmt.Sprintf("Slide(%d).Notes=%q: the notes text %s belongs to declared slide %d and only there", j, nt, d.NotesTok, i)
				}
			}
		}
	}
	return true, ""
}

// ---- the sequence run -------------------------------------------------------------

// selectionOracle judges the output of one part-naming call.
//
//	parts: exactly the selected parts are listed (strict), nothing unselected (lenient)
//	order: the listed parts stand in the order asked for, or in declared order (the API
//	       documents "which parts to include"; either reading is accepted, a third is not)
func selectionOracle(p *pkg, E []part, s step, out string, err error) (partsOK, orderOK bool, detail string) {
	partsOK, orderOK = true, true
	if err != nil {
		if s.Strict {
			return false, true, fmt.Sprintf("error %v", err)
		}
		return true, true, ""
	}
	got := tokenSeq(E, out)
	inSel := map[int]bool{}
	var want []int
	for _, i := range s.Sel {
		if i >= 0 && i < len(E) && !inSel[i] {
			inSel[i] = true
			want = append(want, i)
		}
	}
	cnt := map[int]int{}
	for _, i := range got {
		cnt[i]++
		if !inSel[i] {
			partsOK = false
		}
	}
	if s.Strict {
		for _, i := range want {
			if cnt[i] != 1 {
				partsOK = false
			}
		}
	}
	// nothing that is not a page at all, and no notes of slides that were not asked for
	for _, d := range p.Decoys {
		if d.Tok != "" && strings.Contains(out, d.Tok) || d.NotesTok != "" && strings.Contains(out, d.NotesTok) {
			partsOK = false
		}
	}
	for _, d := range p.Declared {
		if d.State != stOK && (d.Tok != "" && strings.Contains(out, d.Tok) || d.NotesTok != "" && strings.Contains(out, d.NotesTok)) {
			partsOK = false
		}
	}
	if p.Fmt == "pptx" {
		for i, d := range E {
			if d.NotesTok == "" {
				continue
			}
			k := strings.Count(out, d.NotesTok)
			switch {
			case !inSel[i] && k > 0:
				partsOK = false
			case inSel[i] && s.Strict && s.Flag && k != 1:
				partsOK = false
			}
		}
	}
	if !partsOK {
		return false, true, fmt.Sprintf("the output lists declared parts %v (by their tokens; notes tokens checked likewise), selected were %v; output %q", got, want, clip(out))
	}
	if s.Strict {
		asc := append([]int(nil), want...)
		for a := 1; a < len(asc); a++ {
			for b := a; b > 0 && asc[b] < asc[b-1]; b-- {
				asc[b], asc[b-1] = asc[b-1], asc[b]
			}
		}
		if !sameInts(got, want) && !sameInts(got, asc) {
			return true, false, fmt.Sprintf("the output lists the selected parts in order %v, neither the order asked for %v nor declared order %v; output %q", got, want, asc, clip(out))
		}
	}
	return true, true, ""
}

func clip(s string) string {
	if len(s) > 600 {
		return s[:600] + "…"
	}
	return s
}

// runSequence opens one reader on the written package, performs a generated sequence of
// calls on it and, after every call, evaluates the statement on all accessors. It returns
// the op reply line of the reader after the whole sequence ("" when it did not open).
func runSequence(c *hx.Ctx, p *pkg, k kase, path string, idx int) string {
	f := p.Fmt
	E := p.expected()
	r := c.Rng.Fork(uint64(2_000_000 + idx))
	var rd seqReader
	line := ""
	history := "Open"
	pn := hx.Safe(func() {
		var err error
		rd, err = openSeq(f, path)
		if err != nil {
			return
		}
		defer rd.close()
		n := len(p.pages())
		if !p.Oracle {
			n = rd.count() // no verdict on the content: indices relative to what is presented
		}
		steps := genSteps(r, f, n)
		var base *snapshot
		if p.Oracle {
			base = takeSnapshot(rd)
			history += "; <all accessors>"
		}
		for _, s := range steps {
			history += "; " + s.String()
			switch s.Call {
			case "text":
				_, _ = rd.text()
			case "markdown":
				_, _ = rd.markdown()
			case "document":
				_, _ = rd.docPages()
			case "parts":
				_ = rd.names()
				for i := 0; i < rd.count() && i < 64; i++ {
					rd.part(i)
				}
			case "other":
				rd.other(s)
			default:
				out, err := rd.selected(s)
				c.Count(f + "/seq-call:" + s.Call)
				if !p.Oracle || len(E) == 0 {
					break
				}
				if f == "epub" {
					// no part is named: all chapters, in spine order (with navigation filtering
					// only mode 0 is sure to keep every chapter's paragraph)
					got := tokenSeq(E, out)
					ok := err == nil
					last := -1
					for _, i := range got {
						if i <= last {
							ok = false
						}
						last = i
					}
					if s.Mode == 0 && !sameInts(got, upto(len(E))) {
						ok = false
					}
					h := history
					c.Check("C18/epub-spine-order", ok, k, func() string {
						return fmt.Sprintf("sequence [%s]: the last call (err %v) carries the chapters in order %v, want ascending (all of %v for nav mode 0); %s", h, err, got, upto(len(E)), p.describe())
					})
					break
				}
				partsOK, orderOK, detail := selectionOracle(p, E, s, out, err)
				h := history
				c.Check("C18/"+f+"-selection-parts", partsOK, k, func() string {
					return fmt.Sprintf("sequence [%s]: the last call must list exactly the selected parts: %s; %s", h, detail, p.describe())
				})
				c.Check("C18/"+f+"-selection-order", orderOK, k, func() string {
					return fmt.Sprintf("sequence [%s]: %s; %s", h, detail, p.describe())
				})
				if s.Strict {
					c.Count(f + "/seq-strict-selection")
					asc := true
					for i := 1; i < len(s.Sel); i++ {
						if s.Sel[i] < s.Sel[i-1] {
							asc = false
						}
					}
					if !asc {
						c.Count(f + "/seq-selection-non-ascending")
					}
					if s.Sel[0] != 0 {
						c.Count(f + "/seq-selection-not-a-prefix")
					}
				} else {
					c.Count(f + "/seq-lenient-selection")
				}
			}
			if !p.Oracle {
				continue
			}
			// the statement, on every accessor, after this call
			now := takeSnapshot(rd)
			if len(p.pages()) > 0 {
				ok, why := stateOracle(p, E, now)
				h := history
				c.Check("C18/"+f+"-order-after-calls", ok, k, func() string {
					return fmt.Sprintf("sequence [%s] then: %s; %s", h, why, p.describe())
				})
			}
			same, why := now.equal(base)
			h := history
			c.Check("C18/"+f+"-accessors-changed-by-calls", same, k, func() string {
				return fmt.Sprintf("sequence [%s]: the reader no longer shows what it showed right after Open: %s; %s", h, why, p.describe())
			})
		}
		c.Count(fmt.Sprintf("%s/seq-steps=%d", f, len(steps)))
		line = rd.listing(p)
		if p.Oracle {
			// ... and equal to what a freshly opened reader reports
			fresh, err := openSeq(f, path)
			if err == nil {
				defer fresh.close()
				fs, now := takeSnapshot(fresh), takeSnapshot(rd)
				same, why := now.equal(fs)
				h := history
				c.Check("C18/"+f+"-differs-from-fresh-reader", same, k, func() string {
					return fmt.Sprintf("sequence [%s]: the used reader differs from a freshly opened one: %s; %s", h, why, p.describe())
				})
			}
		}
	})
	c.Check("C18/panic", pn == "", k, func() string { return fmt.Sprintf("panic in sequence [%s]: %s; %s", history, pn, p.describe()) })
	if pn != "" {
		return "panic"
	}
	return line
}
