package c18

import (
	"fmt"
	"strings"

	"verifharness/hx"
)

// Repeated spine resources (EPUB). The spine is the reading order of the publication's
// resources; EPUB 3 §3.4.13 forbids a spine to reference the same resource more than
// once, but a reader meets such spines. The property says that each part's text appears
// in its own page and only there, so a resource that the spine lists several times is ONE
// part, presented at the position of its first listing. A spine reaches a resource
// again in three ways:
//
//   same-idref       <itemref idref="a"/> ... <itemref idref="a"/>
//   same-href        two manifest items (different ids) with the same href
//   spelling-*       two manifest items whose hrefs are spelled differently and denote the
//                    same member once resolved against the package document:
//                    percent-encoding of a character that needs none (spelling-pct), a "./"
//                    segment (spelling-dot), a detour "x/../" (spelling-dotdot)
//
// The repetition stands right behind the entry it repeats (adjacent) or further down
// (apart); for the two-item ways either of the two items may come first. A repeated
// resource may also be one whose member is missing (then no listing of it is a page).
// In the logical package a repetition is a declared entry of state stRepeat: it carries
// no token of its own and is never a page; expected() (State == stOK) therefore lists
// every resource once, at its first position, and every statement-level oracle works
// from that.

// altSpelling spells a reference to member name differently from ref; it never calls a
// path library. kind is pct | dot | dotdot.
func altSpelling(r *hx.Rng, ref string) (string, string) {
	switch r.Intn(3) {
	case 0:
		// percent-encode one character of the file name that is written literally
		at := strings.LastIndexByte(ref, '/') + 1
		var cand []int
		for i := at; i < len(ref); i++ {
			c := ref[i]
			if c == '%' {
				i += 2
				continue
			}
			if strings.IndexByte(unreservedChars, c) >= 0 && c != '.' {
				cand = append(cand, i)
			}
		}
		if len(cand) > 0 {
			i := hx.Pick(r, cand)
			f := "%%%02X"
			if r.Bool() {
				f = "%%%02x"
			}
			return ref[:i] + fmt.Sprintf(f, ref[i]) + ref[i+1:], "pct"
		}
		fallthrough
	case 1:
		return "./" + ref, "dot"
	}
	return hx.Pick(r, []string{"tmp", "x%20y", "images"}) + "/../" + ref, "dotdot"
}

// addEPUBRepeats is called while spine and p.Declared are parallel (after the near-name
// members, before the navigation documents).
func (p *pkg) addEPUBRepeats(r *hx.Rng, manifest *[]manItem, spine *[]string) {
	if !r.Chance(3, 10) {
		return
	}
	n := 1
	switch c := r.Intn(10); {
	case c < 2:
		n = 3
	case c < 5:
		n = 2
	}
	flood := r.Chance(1, 12) // one resource listed very often (an <itemref> costs 20 bytes)
	for j := 0; j < n; j++ {
		var targets []int
		for i, d := range p.Declared {
			if d.Name != "" && (d.State == stOK || d.State == stMissing) {
				targets = append(targets, i)
			}
		}
		if len(targets) == 0 {
			return
		}
		at := hx.Pick(r, targets)
		d := p.Declared[at]
		rep := part{Name: d.Name, Title: d.Title, State: stRepeat, ID: d.ID, Ref: d.Ref}
		switch r.Intn(3) {
		case 0:
			rep.RepeatWay = "same-idref"
		case 1:
			rep.RepeatWay = "same-href"
			rep.ID = fmt.Sprintf("again%d", j)
		default:
			ref, kind := altSpelling(r, d.Ref)
			rep.RepeatWay = "spelling-" + kind
			rep.ID, rep.Ref = fmt.Sprintf("alias%d", j), ref
		}
		if rep.ID != d.ID {
			*manifest = append(*manifest, manItem{rep.ID, rep.Ref, "application/xhtml+xml", ""})
			if r.Chance(1, 3) {
				// the added item comes first in the spine, the original item is the repetition
				p.Declared[at].ID, p.Declared[at].Ref, rep.ID, rep.Ref = rep.ID, rep.Ref, d.ID, d.Ref
				(*spine)[at] = p.Declared[at].ID
				rep.RepeatWay += "/added-item-first"
			}
		}
		pos := at + 1 // adjacent
		where := "adjacent"
		if len(p.Declared) > at+1 && r.Chance(2, 3) {
			pos = at + 2 + r.Intn(len(p.Declared)-at-1) // at least one other entry in between
			where = "apart"
		}
		copies := 1
		if flood && j == 0 {
			copies = r.Range(40, 300)
			p.Notes = append(p.Notes, "spine-repeat-flood")
		}
		for k := 0; k < copies; k++ {
			*spine = append((*spine)[:pos], append([]string{rep.ID}, (*spine)[pos:]...)...)
			p.Declared = append(p.Declared[:pos], append([]part{rep}, p.Declared[pos:]...)...)
		}
		note := "spine-repeat:" + rep.RepeatWay + "," + where
		if d.State == stMissing {
			note += ",of-missing"
		}
		p.Notes = append(p.Notes, note)
	}
}

// repeatedResources: member name -> number of spine entries that list it again.
func (p *pkg) repeatedResources() map[string]int {
	m := map[string]int{}
	for _, d := range p.Declared {
		if d.State == stRepeat {
			m[d.Name]++
		}
	}
	return m
}
