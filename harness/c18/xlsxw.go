package c18

import (
	"fmt"
	"strings"

	"verifharness/hx"
	"verifharness/writers"
)

// XLSX package writer (ECMA-376 part 1 §18.2 workbook/sheets, part 2 OPC
// relationships). The sheet order is the order of <sheet> elements of
// xl/workbook.xml; each names a relationship id whose Target is the part.

const (
	nsSS   = "http://schemas.openxmlformats.org/spreadsheetml/2006/main"
	nsRel  = "http://schemas.openxmlformats.org/officeDocument/2006/relationships"
	nsPkgR = "http://schemas.openxmlformats.org/package/2006/relationships"
	xmlHdr = `<?xml version="1.0" encoding="UTF-8" standalone="yes"?>` + "\n"
)

var sheetWords = []string{"Budget", "Q3 & Q4", "Données", "<raw>", "シート", "Sales'24", "summary", "Pivot \"A\"", "zeta", "Alpha"}

func relsXML(rels [][3]string) string { // id, type, target
	var b strings.Builder
	b.WriteString(xmlHdr + `<Relationships xmlns="` + nsPkgR + `">`)
	for _, r := range rels {
		fmt.Fprintf(&b, `<Relationship Id="%s" Type="%s" Target="%s"/>`, writers.XMLEsc(r[0]), writers.XMLEsc(r[1]), writers.XMLEsc(r[2]))
	}
	b.WriteString(`</Relationships>`)
	return b.String()
}

func relPairs(rels [][3]string) [][2]string {
	out := make([][2]string, len(rels))
	for i, r := range rels {
		out[i] = [2]string{r[0], r[2]}
	}
	return out
}

func sheetBody(tok string, r *hx.Rng) string {
	v := func(s string) *string { return &s }
	rows := []writers.XRow{
		{R: 1, Cells: []writers.XCell{{Ref: "A1", T: "inlineStr", Is: v("label")}, {Ref: "B1", T: "inlineStr", Is: v("value")}}},
		{R: 2 + r.Intn(3), Cells: []writers.XCell{{Ref: "A" + fmt.Sprint(2), T: "inlineStr", Is: v("row " + tok + " end")}, {Ref: "C2", HasV: true, V: "42"}}},
	}
	rows[1].Cells[0].Ref = fmt.Sprintf("A%d", rows[1].R)
	rows[1].Cells[1].Ref = fmt.Sprintf("C%d", rows[1].R)
	return writers.SheetXML(writers.XSheet{Rows: rows})
}

func genXLSX(r *hx.Rng) *pkg {
	p := &pkg{Fmt: "xlsx", Variant: "rels", Oracle: true}
	n := r.Range(1, 6)
	legacy := r.Chance(1, 14) // no relationship part at all: default part naming
	if legacy {
		p.Variant, p.Oracle = "no-rels", false
	}
	nums := perm(r, n+2) // file numbers unrelated to the declared position
	ids := perm(r, n+6)
	// sheetId is an identifier given at creation time, not a position: after tabs are
	// dragged, sheets deleted or inserted, the values are neither ascending nor dense.
	sids := perm(r, n+4)
	sidBase := hx.Pick(r, []int{1, 1, 1, 2, 7, 100, 65530})
	const tSheet = nsRel + "/worksheet"
	pn := r.Fork(0x9c7e) // part names with percent signs (pctnames.go), own stream
	var rels [][3]string
	usedNames := map[string]bool{}
	for k := 0; k < n; k++ {
		d := part{Tok: token(r, k), ID: fmt.Sprintf("rId%d", ids[k]+1)}
		d.Title = fmt.Sprintf("%s %d", hx.Pick(r, sheetWords), k*7%10)
		d.SheetID = sidBase + sids[k]
		if r.Chance(1, 8) {
			d.ID = fmt.Sprintf("R%x", ids[k]+10)
		}
		var rel string // path relative to xl/
		abs, outside := false, false
		switch c := r.Intn(10); {
		case legacy:
			rel = fmt.Sprintf("worksheets/sheet%d.xml", k+1)
		case c < 4:
			rel = fmt.Sprintf("worksheets/sheet%d.xml", nums[k]+1)
		case c < 5:
			rel, abs = fmt.Sprintf("worksheets/sheet%d.xml", nums[k]+1), true
		case c < 6:
			rel = fmt.Sprintf("worksheets/data/%s%d.xml", hx.Pick(r, []string{"alpha", "zeta", "m"}), nums[k])
		case c < 7:
			rel = fmt.Sprintf("sheets/%s-%d.xml", hx.Pick(r, []string{"renamed", "a", "tab one"}), nums[k])
		case c < 8:
			rel, abs = fmt.Sprintf("ws/deep/er/s%d.xml", nums[k]), true
		case c < 9:
			rel, abs, outside = fmt.Sprintf("custom/sheet%d.xml", nums[k]), true, true
		default:
			rel = fmt.Sprintf("worksheets/Sheet_%c.xml", 'z'-byte(nums[k]))
		}
		if !legacy && pn.Chance(1, 7) {
			// the ZIP item name is the part name as the target spells it, percent signs included
			rel, outside = pctRel(pn, "worksheets", nums[k]+1), false
		}
		if outside {
			d.Name = rel
		} else {
			d.Name = "xl/" + rel
		}
		d.Ref = rel
		if abs {
			d.Ref = "/" + d.Name
		}
		if abs && !outside && !legacy && r.Chance(1, 12) {
			// "/worksheets/x.xml" names a root-level part; tabula retries under xl/ and finds
			// the member there. Lenient recovery, not a declared path: compared with the model only.
			d.Ref = "/" + rel
			p.Oracle = false
			p.Notes = append(p.Notes, "abs-without-xl")
		}
		if usedNames[d.Name] {
			d.Name = strings.TrimSuffix(d.Name, ".xml") + fmt.Sprintf("_%d.xml", k)
			d.Ref = strings.TrimSuffix(d.Ref, ".xml") + fmt.Sprintf("_%d.xml", k)
		}
		usedNames[d.Name] = true
		switch c := r.Intn(40); {
		case c < 4:
			d.State = stMissing
		case c < 7:
			d.State = stMalformed
		case c < 9 && !legacy:
			d.State = stDangling
		case c < 10 && !legacy:
			d.State = stWrongKind
			d.Ref, d.Name = hx.Pick(r, []string{"workbook.xml", "styles.xml"}), ""
		}
		if d.State != stDangling && !legacy {
			rels = append(rels, [3]string{d.ID, tSheet, d.Ref})
		}
		p.Declared = append(p.Declared, d)
	}
	// noise relationships and orphan worksheet relationships (decoys that ARE in the rels)
	rels = append(rels, [3]string{"rIdStyles", nsRel + "/styles", "styles.xml"}, [3]string{"rIdTheme", nsRel + "/theme", "theme/theme1.xml"})
	for k, nd := 0, r.Intn(4); k < nd; k++ {
		d := part{Tok: token(r, 50+k)}
		switch r.Intn(3) {
		case 0: // left-over part under the default name of some position
			d.Name = fmt.Sprintf("xl/worksheets/sheet%d.xml", r.Range(1, n+3))
		case 1:
			d.Name = fmt.Sprintf("xl/worksheets/sheet%d.xml", n+3+k)
		default:
			d.Name = fmt.Sprintf("xl/worksheets/aaa%d.xml", k)
		}
		if usedNames[d.Name] {
			continue
		}
		usedNames[d.Name] = true
		if r.Chance(1, 3) && !legacy {
			d.InManifest = true
			rels = append(rels, [3]string{fmt.Sprintf("rIdOrphan%d", k), tSheet, strings.TrimPrefix(d.Name, "xl/")})
		}
		p.Decoys = append(p.Decoys, d)
	}
	if !legacy { // near-name members (twins.go), from their own stream
		p.addOOXMLTwins(r.Fork(0x7717), "xl", tSheet, usedNames, &rels, func(j int, t *part) {
			t.ID = fmt.Sprintf("rId%d", ids[n+j]+1)
			t.Title = fmt.Sprintf("%s %d", hx.Pick(r.Fork(uint64(0x7718+j)), sheetWords), (n+j)*7%10)
			t.SheetID = sidBase + sids[n+j]
		})
		// a second member under the percent-DECODED name of a declared part (pctnames.go)
		p.addPctDecodedTwins(pn.Fork(1), "xl", tSheet, usedNames, &rels, func(j int, t *part) {
			t.ID = fmt.Sprintf("rId%d", ids[n+j]+1)
			t.Title = fmt.Sprintf("%s %d", hx.Pick(pn.Fork(uint64(0x7718+j)), sheetWords), (n+j)*7%10)
			t.SheetID = sidBase + sids[n+j]
		})
	}
	hx.Shuffle(r, rels)
	if !legacy && r.Chance(1, 30) && len(p.Declared) > 1 { // duplicate Id: the declaration is ambiguous
		rels = append(rels, [3]string{p.Declared[0].ID, tSheet, p.Declared[1].Ref})
		p.Oracle = false
		p.Notes = append(p.Notes, "dup-rel-id")
	}

	// ---- members --------------------------------------------------------------
	var ct strings.Builder
	ct.WriteString(xmlHdr + `<Types xmlns="http://schemas.openxmlformats.org/package/2006/content-types"><Default Extension="rels" ContentType="application/vnd.openxmlformats-package.relationships+xml"/><Default Extension="xml" ContentType="application/xml"/><Override PartName="/xl/workbook.xml" ContentType="application/vnd.openxmlformats-officedocument.spreadsheetml.sheet.main+xml"/>`)
	for _, d := range p.Declared {
		if d.Name != "" {
			fmt.Fprintf(&ct, `<Override PartName="/%s" ContentType="application/vnd.openxmlformats-officedocument.spreadsheetml.worksheet+xml"/>`, writers.XMLEsc(d.Name))
		}
	}
	ct.WriteString(`</Types>`)
	p.add("[Content_Types].xml", ct.String(), "")
	p.add("_rels/.rels", relsXML([][3]string{{"rId1", nsRel + "/officeDocument", "xl/workbook.xml"}}), "")

	var wb strings.Builder
	wb.WriteString(xmlHdr + `<workbook xmlns="` + nsSS + `" xmlns:r="` + nsRel + `"><bookViews><workbookView/></bookViews><sheets>`)
	var decl [][2]string
	for _, d := range p.Declared {
		fmt.Fprintf(&wb, `<sheet name="%s" sheetId="%d" r:id="%s"/>`, writers.XMLEsc(d.Title), d.SheetID, writers.XMLEsc(d.ID))
		decl = append(decl, [2]string{d.Title, d.ID})
	}
	wb.WriteString(`</sheets></workbook>`)
	if r.Chance(1, 60) {
		p.add("xl/workbook.xml", `<workbook><sheets><sheet name="x"`, "B")
		p.Oracle = false
		p.Notes = append(p.Notes, "bad-workbook")
	} else {
		p.add("xl/workbook.xml", wb.String(), pairSpec("W", decl))
	}
	if !legacy {
		name := "xl/_rels/workbook.xml.rels"
		if r.Chance(1, 10) {
			name = "xl/_rels/workbook.rels"
		}
		p.add(name, relsXML(rels), pairSpec("R", relPairs(rels)))
	}
	if r.Chance(3, 4) {
		p.add("xl/styles.xml", xmlHdr+`<styleSheet xmlns="`+nsSS+`"/>`, "")
	}
	if r.Chance(1, 2) {
		p.add("xl/sharedStrings.xml", xmlHdr+`<sst xmlns="`+nsSS+`" count="1" uniqueCount="1"><si><t>unused shared</t></si></sst>`, "")
	}
	if r.Chance(1, 2) {
		p.add("docProps/core.xml", xmlHdr+`<cp:coreProperties xmlns:cp="http://schemas.openxmlformats.org/package/2006/metadata/core-properties" xmlns:dc="http://purl.org/dc/elements/1.1/"><dc:title>Book</dc:title></cp:coreProperties>`, "")
	}
	for _, d := range p.Declared {
		switch d.State {
		case stOK, stDangling:
			if d.State == stDangling && r.Bool() {
				continue // nothing written at all
			}
			p.add(d.Name, sheetBody(d.Tok, r), "S")
		case stMalformed:
			p.add(d.Name, xmlHdr+`<worksheet xmlns="`+nsSS+`"><sheetData><row r="1"><c r="A1" t="inlineStr"><is><t>`+d.Tok+`</t></is></c></row>`, "B")
		}
	}
	for _, d := range p.Decoys {
		p.add(d.Name, sheetBody(d.Tok, r), "S")
	}
	// a dangling entry falls back to xl/worksheets/sheet<i+1>.xml: if such a member
	// exists the declaration does not say what the sheet is -> no oracle verdict
	for i, d := range p.Declared {
		if d.State == stDangling && p.has(fmt.Sprintf("xl/worksheets/sheet%d.xml", i+1)) {
			p.Oracle = false
			p.Notes = append(p.Notes, "dangling-default-collision")
		}
	}
	p.applyFlavour(r.Fork(0xf1a7)) // namespace flavour of the markup (flavour.go), own stream
	p.admissionVariant(r.Fork(0xad31))
	p.finishZip(r, "")
	return p
}
