package c18

import (
	"fmt"
	"strings"

	"verifharness/hx"
	"verifharness/writers"
)

// EPUB writer (OCF 3.x §4: META-INF/container.xml names the package document by
// full-path; EPUB Packages §3.4: manifest items carry an href that is a
// percent-encoded relative IRI reference resolved against the package document;
// the spine's itemref order is the reading order. EPUB 2: OPF 2.0.1 §2.3/2.4 with
// an NCX; EPUB 3: nav document).

// ---- independent href construction --------------------------------------------

func splitSegs(p string) []string {
	if p == "" {
		return nil
	}
	return strings.Split(p, "/")
}

// relRef builds the (decoded) segments of a relative reference from a document in
// directory base to the archive member name; it never calls a path library.
func relRef(r *hx.Rng, base, name string) (segs []string, dots bool) {
	b, n := splitSegs(base), splitSegs(name)
	k := 0
	for k < len(b) && k < len(n)-1 && b[k] == n[k] {
		k++
	}
	if k > 0 && r.Chance(1, 6) {
		k-- // climb one level higher than needed and come back down
	}
	for i := k; i < len(b); i++ {
		segs = append(segs, "..")
	}
	segs = append(segs, n[k:]...)
	dots = k < len(b)
	if r.Chance(1, 6) {
		segs = append([]string{"."}, segs...)
		dots = true
	}
	if r.Chance(1, 6) { // a detour: x/.. somewhere before the file name
		at := r.Intn(len(segs))
		out := append([]string{}, segs[:at]...)
		out = append(out, hx.Pick(r, []string{"tmp", "x y", "images"}), "..")
		segs = append(out, segs[at:]...)
		dots = true
	}
	return segs, dots
}

const unreservedChars = "ABCDEFGHIJKLMNOPQRSTUVWXYZabcdefghijklmnopqrstuvwxyz0123456789-._~"
const subDelimsEtc = "!$&'()*+,;=:@" // allowed literally in a path segment (RFC 3986 pchar)

// pctEncodeSeg percent-encodes one segment. mode 0: only what must be encoded;
// 1: everything but unreserved; 2: as 1 with lower-case hex; 3: as 0 plus random
// unreserved characters over-encoded.
func pctEncodeSeg(r *hx.Rng, seg string, mode int) string {
	if seg == "." || seg == ".." {
		return seg
	}
	var b strings.Builder
	for i := 0; i < len(seg); i++ {
		c := seg[i]
		lit := strings.IndexByte(unreservedChars, c) >= 0
		if (mode == 0 || mode == 3) && strings.IndexByte(subDelimsEtc, c) >= 0 {
			lit = true
		}
		if mode == 3 && lit && r.Chance(1, 5) {
			lit = false
		}
		if lit {
			b.WriteByte(c)
		} else if mode == 2 {
			fmt.Fprintf(&b, "%%%02x", c)
		} else {
			fmt.Fprintf(&b, "%%%02X", c)
		}
	}
	return b.String()
}

func encodeRef(r *hx.Rng, segs []string, mode int) string {
	out := make([]string, len(segs))
	for i, s := range segs {
		out[i] = pctEncodeSeg(r, s, mode)
	}
	return strings.Join(out, "/")
}

var chapterNames = []string{"chapter%02d.xhtml", "ch %d.xhtml", "c+%d.xhtml", "a+b c%d.xhtml", "café-%d.xhtml", "第%d章.xhtml",
	"100%%-%d.xhtml", "q&a(%d).xhtml", "x=y;%d,@.xhtml", "it's%d.xhtml", "tilde~%d_.xhtml", "hash#%d.xhtml", "why?%d.xhtml", "chapter%02d.xhtml", "%d.html"}
var chapterDirs = []string{"", "", "text", "Text/part one", "sec+1", "深い/階層", "xhtml"}
var opfPaths = []string{"content.opf", "package.opf", "OEBPS/content.opf", "OPS/pkg/book.opf", "EPUB/package.opf", "my book/vol+1/c.opf", "a/b/c/d.opf"}

func chapterXHTML(tok, title string) string {
	return `<?xml version="1.0" encoding="UTF-8"?>` + "\n" + `<html xmlns="http://www.w3.org/1999/xhtml"><head><title>` + writers.XMLEsc(title) + `</title></head><body><h1>` + writers.XMLEsc(title) + `</h1><p>before ` + tok + ` after</p><p>closing words</p></body></html>`
}

func joinName(dir, rel string) string {
	if dir == "" {
		return rel
	}
	return dir + "/" + rel
}

func dirOf(p string) string {
	if i := strings.LastIndexByte(p, '/'); i >= 0 {
		return p[:i]
	}
	return ""
}

type manItem struct{ id, href, media, props string }

func genEPUB(r *hx.Rng) *pkg {
	p := &pkg{Fmt: "epub", Oracle: true}
	v3 := r.Bool()
	p.Variant = "epub2"
	if v3 {
		p.Variant = "epub3"
	}
	opf := hx.Pick(r, opfPaths)
	p.Base = dirOf(opf)
	n := r.Range(1, 6)
	nums := perm(r, n+3)
	used := map[string]bool{opf: true}
	var manifest []manItem
	var spine []string
	place := func(k int) string { // archive name of a content document
		var where string
		switch c := r.Intn(8); {
		case c < 4: // below the package directory
			where = joinName(p.Base, hx.Pick(r, chapterDirs))
		case c < 6: // in the package directory
			where = p.Base
		case c < 7: // a sibling of the package directory or the root
			where = hx.Pick(r, []string{"", "shared", "OPS/other"})
		default:
			where = dirOf(p.Base)
		}
		where = strings.Trim(where, "/")
		return joinName(where, fmt.Sprintf(hx.Pick(r, chapterNames), nums[k]+1))
	}
	for k := 0; k < n; k++ {
		d := part{Tok: token(r, k), ID: fmt.Sprintf("item%d", nums[(k+1)%len(nums)]), Title: fmt.Sprintf("Part %c", 'A'+byte(r.Intn(5)))}
		if r.Chance(1, 6) {
			d.ID = fmt.Sprintf("id-%c.%d", 'z'-byte(k), k)
		}
		d.Name = place(k)
		if used[d.Name] {
			continue
		}
		used[d.Name] = true
		segs, _ := relRef(r, p.Base, d.Name)
		d.Ref = encodeRef(r, segs, r.Intn(4))
		switch c := r.Intn(40); {
		case c < 4:
			d.State = stMissing
		case c < 6:
			d.State = stDangling // idref without manifest item
		}
		if d.State != stDangling {
			manifest = append(manifest, manItem{d.ID, d.Ref, "application/xhtml+xml", ""})
		}
		spine = append(spine, d.ID)
		p.Declared = append(p.Declared, d)
	}
	// decoys: content documents that are not in the spine (some listed in the manifest)
	for k, nd := 0, r.Intn(4); k < nd; k++ {
		d := part{Tok: token(r, 50+k), ID: fmt.Sprintf("extra%d", k), Title: "Appendix draft"}
		d.Name = place((k + 1) % len(nums))
		if r.Chance(1, 3) {
			d.Name = joinName(p.Base, fmt.Sprintf("chapter%02d.xhtml", r.Range(0, n+2)))
		}
		if used[d.Name] {
			continue
		}
		used[d.Name] = true
		if r.Chance(1, 2) {
			d.InManifest = true
			segs, _ := relRef(r, p.Base, d.Name)
			manifest = append(manifest, manItem{d.ID, encodeRef(r, segs, 0), "application/xhtml+xml", ""})
		}
		p.Decoys = append(p.Decoys, d)
	}
	// near-name members: a second member whose name differs from a declared part's only
	// in letter case / normalisation form / percent-decoding (twins.go); own stream, so
	// the packages without them are the same as before
	p.addEPUBTwins(r.Fork(0x7717), used, &manifest, &spine)
	// repeated spine resources (repeats.go; own stream): a resource listed several times in
	// the spine is one part, at its first position
	p.addEPUBRepeats(r.Fork(0x5e9ea7), &manifest, &spine)
	// content documents whose member NAME holds escape-looking text, "part%201.xhtml", referred
	// to as href="part%25201.xhtml" (pcthex.go; own stream): an href is decoded exactly once
	p.addEPUBPctHex(r.Fork(0x9c25), used, &manifest, &spine)
	// navigation: EPUB 3 nav document, EPUB 2 NCX (either may be missing; EPUB 3 may carry both)
	navTok, ncxTok := token(r, 90), token(r, 91)
	hasNav := v3 && r.Chance(5, 6)
	hasNCX := (!v3 && r.Chance(5, 6)) || (v3 && r.Chance(1, 3))
	navName, ncxName := joinName(p.Base, "nav.xhtml"), joinName(p.Base, "toc.ncx")
	navInSpine := hasNav && r.Chance(1, 5)
	var tocLinks []string
	for _, d := range p.Declared {
		if d.State != stDangling {
			tocLinks = append(tocLinks, d.Ref)
		}
	}
	if hasNav {
		manifest = append(manifest, manItem{"nav", "nav.xhtml", "application/xhtml+xml", "nav"})
		if navInSpine {
			at := r.Intn(len(spine) + 1)
			spine = append(spine[:at], append([]string{"nav"}, spine[at:]...)...)
			nd := part{Tok: navTok, ID: "nav", Name: navName, Ref: "nav.xhtml", Title: "Contents"}
			p.Declared = append(p.Declared[:at], append([]part{nd}, p.Declared[at:]...)...)
		} else {
			p.Decoys = append(p.Decoys, part{Tok: navTok, ID: "nav", Name: "", InManifest: true})
		}
	}
	if hasNCX {
		manifest = append(manifest, manItem{"ncx", "toc.ncx", "application/x-dtbncx+xml", ""})
		p.Decoys = append(p.Decoys, part{Tok: ncxTok, ID: "ncx", Name: "", InManifest: true})
	}
	// text-less chapters (textless.go; own stream, one package in four): a cover or plate page
	// holding an image only, a blank separator page, ... They are declared readable parts
	// without a token: pages of their own, which is what the oracles expect (p.pages()).
	p.addEPUBTextless(r.Fork(0xb1a4), used, &manifest, &spine)
	manifest = append(manifest, manItem{"css", "style/main.css", "text/css", ""})
	hx.Shuffle(r, manifest)
	if r.Chance(1, 30) && len(p.Declared) > 1 { // duplicate manifest id: ambiguous declaration
		// (between text-bearing entries: a page without text is attributed, on the op line, to
		// the text-less chapters in spine order, which needs all of them presented)
		var tb []part
		for _, d := range p.Declared {
			if d.NoText == "" {
				tb = append(tb, d)
			}
		}
		if len(tb) > 1 {
			manifest = append(manifest, manItem{tb[0].ID, tb[1].Ref, "application/xhtml+xml", ""})
			p.Oracle = false
			p.Notes = append(p.Notes, "dup-manifest-id")
		}
	}

	// ---- members -----------------------------------------------------------------
	if r.Chance(5, 6) {
		p.Docs = append(p.Docs, mdoc{name: "mimetype", data: []byte("application/epub+zip"), store: true})
	}
	roots := [][2]string{{opf, "application/oebps-package+xml"}}
	if r.Chance(1, 8) {
		roots[0][1] = ""
	}
	var decoyOPF string
	if r.Chance(1, 6) { // an alternative rendition of another media type listed first
		decoyOPF = hx.Pick(r, []string{"alt/other.opf", "rendition2.opf"})
		roots = append([][2]string{{decoyOPF, "application/x-other-package"}}, roots...)
	}
	// further renditions / left-over package documents listed AFTER the default rendition
	// (renditions.go; own stream): they declare nothing
	alts := p.planRenditions(r.Fork(0x2e4d), opf, used, &roots)
	var cx strings.Builder
	cx.WriteString(`<?xml version="1.0" encoding="UTF-8"?>` + "\n" + `<container version="1.0" xmlns="urn:oasis:names:tc:opendocument:xmlns:container"><rootfiles>`)
	for _, rf := range roots {
		fmt.Fprintf(&cx, `<rootfile full-path="%s"`, writers.XMLEsc(rf[0]))
		if rf[1] != "" {
			fmt.Fprintf(&cx, ` media-type="%s"`, rf[1])
		}
		cx.WriteString(`/>`)
	}
	cx.WriteString(`</rootfiles></container>`)
	if r.Chance(1, 60) {
		p.add("META-INF/container.xml", `<?xml version="1.0"?><container version="1.0" xmlns="urn:oasis:names:tc:opendocument:xmlns:container"><rootfiles/></container>`, "C")
		p.Oracle = false
		p.Notes = append(p.Notes, "no-rootfile")
	} else if r.Chance(1, 60) {
		p.add("META-INF/container.xml", `<container><rootfiles><rootfile full-path="`, "B")
		p.Oracle = false
		p.Notes = append(p.Notes, "bad-container")
	} else {
		p.add("META-INF/container.xml", cx.String(), pairSpec("C", roots))
	}

	ver := "2.0"
	if v3 {
		ver = "3.0"
	}
	opfDoc := func(items []manItem, sp []string, title string) (string, string) {
		var o strings.Builder
		o.WriteString(`<?xml version="1.0" encoding="UTF-8"?>` + "\n" + `<package xmlns="http://www.idpf.org/2007/opf" version="` + ver + `" unique-identifier="uid"><metadata xmlns:dc="http://purl.org/dc/elements/1.1/"><dc:identifier id="uid">urn:uuid:0000</dc:identifier><dc:title>` + title + `</dc:title><dc:language>en</dc:language></metadata><manifest>`)
		var mp [][2]string
		for _, it := range items {
			fmt.Fprintf(&o, `<item id="%s" href="%s" media-type="%s"`, writers.XMLEsc(it.id), writers.XMLEsc(it.href), it.media)
			if it.props != "" {
				fmt.Fprintf(&o, ` properties="%s"`, it.props)
			}
			o.WriteString(`/>`)
			mp = append(mp, [2]string{it.id, it.href})
		}
		o.WriteString(`</manifest><spine`)
		if hasNCX {
			o.WriteString(` toc="ncx"`)
		}
		o.WriteString(`>`)
		for i, id := range sp {
			lin := ""
			if i%4 == 3 {
				lin = ` linear="no"`
			}
			fmt.Fprintf(&o, `<itemref idref="%s"%s/>`, writers.XMLEsc(id), lin)
		}
		o.WriteString(`</spine></package>`)
		return o.String(), pairSpec("F", mp) + "/" + listSpec("I", sp)
	}
	switch c := r.Intn(120); {
	case c < 2: // the first spine item once more at the end: the resource is listed twice, it is one part (at its first position)
		if len(spine) > 0 {
			spine = append(spine, spine[0])
			p.Notes = append(p.Notes, "spine-repeats-first-item-at-end")
		}
	case c < 4:
		spine = nil
		p.Oracle = false
		p.Notes = append(p.Notes, "empty-spine")
	}
	body, spec := opfDoc(manifest, spine, "The Book")
	if r.Chance(1, 60) {
		p.Oracle = false
		p.Notes = append(p.Notes, "opf-missing")
	} else {
		p.add(opf, body, spec)
	}
	if decoyOPF != "" {
		dtok := token(r, 95)
		dname := joinName(dirOf(decoyOPF), "only-alt.xhtml")
		b2, s2 := opfDoc([]manItem{{"a1", "only-alt.xhtml", "application/xhtml+xml", ""}}, []string{"a1"}, "Alt")
		p.add(decoyOPF, b2, s2)
		if !used[dname] {
			used[dname] = true
			p.add(dname, chapterXHTML(dtok, "Alt only"), "")
			p.Decoys = append(p.Decoys, part{Tok: dtok, Name: dname})
		}
	}
	p.writeRenditions(alts, opfDoc)
	for _, d := range p.Declared {
		if d.ID == "nav" {
			continue
		}
		if d.NoText != "" {
			continue // written below, from its own serial number
		}
		if d.State == stOK || (d.State == stDangling && r.Bool()) {
			p.add(d.Name, chapterXHTML(d.Tok, d.Title), "")
		}
	}
	for _, d := range p.Decoys {
		if d.Name != "" && !p.has(d.Name) {
			p.add(d.Name, chapterXHTML(d.Tok, d.Title), "")
		}
	}
	serial := 0
	for _, d := range p.Declared {
		if d.State != stOK || d.NoText == "" {
			continue
		}
		serial++
		p.add(d.Name, textlessXHTML(d.NoText, serial, p.imgRefFrom(d.Name)), "")
		if img := joinName(p.Base, "images/cover.png"); (d.NoText == "image-only" || d.NoText == "svg-cover") && !p.has(img) && !used[img] {
			used[img] = true
			p.add(img, "\x89PNG\r\n\x1a\n\x00\x00\x00\rIHDR", "")
		}
	}
	if hasNav {
		var nv strings.Builder
		nv.WriteString(`<?xml version="1.0" encoding="UTF-8"?>` + "\n" + `<html xmlns="http://www.w3.org/1999/xhtml" xmlns:epub="http://www.idpf.org/2007/ops"><head><title>Contents</title></head><body><p>navigation page ` + navTok + ` here</p><nav epub:type="toc"><h2>Contents</h2><ol>`)
		for i, l := range tocLinks {
			fmt.Fprintf(&nv, `<li><a href="%s">Entry %d</a></li>`, writers.XMLEsc(l), i+1)
		}
		nv.WriteString(`</ol></nav></body></html>`)
		p.add(navName, nv.String(), "")
	}
	if hasNCX {
		var nc strings.Builder
		nc.WriteString(`<?xml version="1.0" encoding="UTF-8"?>` + "\n" + `<ncx xmlns="http://www.daisy.org/z3986/2005/ncx/" version="2005-1"><head/><docTitle><text>Book ` + ncxTok + `</text></docTitle><navMap>`)
		for i, l := range tocLinks {
			fmt.Fprintf(&nc, `<navPoint id="np%d" playOrder="%d"><navLabel><text>Entry %d</text></navLabel><content src="%s"/></navPoint>`, i, i+1, i+1, writers.XMLEsc(l))
		}
		nc.WriteString(`</navMap></ncx>`)
		p.add(ncxName, nc.String(), "")
	}
	if r.Chance(1, 2) {
		p.add(joinName(p.Base, "style/main.css"), "p { margin: 0 } /* not a chapter */", "")
	}
	p.admissionVariant(r.Fork(0xad31))
	first := ""
	if r.Bool() {
		first = "mimetype"
	}
	p.finishZip(r, first)
	return p
}
