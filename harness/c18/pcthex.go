package c18

import (
	"fmt"
	"strings"

	"verifharness/hx"
)

// Content documents whose MEMBER NAME holds escape-looking text (EPUB).
//
// The property says that an EPUB href is resolved relative to the package file and
// percent-decoded: decoded ONCE. An OCF file name is any string of characters; a file that
// was exported under an already-escaped name is called "Text/part%201.xhtml" in the
// archive, percent sign and all, and the manifest refers to it — correctly — as
// href="Text/part%25201.xhtml" ('%' is no pchar, RFC 3986 §2.1/§3.3, so every writing of
// the reference spells it %25). Decoding the href once gives the member name. A reader
// that decodes the reference a second time somewhere on the way from the manifest to the
// archive (once when the manifest is loaded and once more when the chapter is fetched,
// say) looks for "Text/part 1.xhtml": the declared chapter is dropped and every later
// chapter moves up one page, or — when a member of the over-decoded name exists — that
// member's text is shown in the chapter's page.
//
// The ordinary chapter names have a percent sign only where it cannot be taken for an
// escape ("100%-3.xhtml"). Generated here (own stream, two packages in five): one or two
// further declared chapters, anywhere in the spine, whose file name and/or directory holds
// a percent sign followed by two hex digits — an escaped space, a UTF-8 sequence, '+', a
// slash, an over-encoded letter (so that the over-decoded name is a conventional
// chapter03.xhtml), upper- and lower-case hex, an escaped percent sign (so that the name
// can be decoded two more times), escapes next to a percent sign that is no escape. For
// half of those whose name is a well-formed escaped string a second member stands under
// the once-more-decoded name (near-name kind pct-over-decoded): an unreferenced left-over,
// a left-over listed in the manifest, or a declared chapter of its own (both are pages,
// each with its own text). The chapter with the escaped name may itself be missing from
// the archive (then nothing is presented for it, whatever stands under the decoded name).
// Expectations follow from the logical package alone: the page-count, order, containment
// and missing-part oracles of c18.go see the chapter like any other, nearNameOracle
// (twins.go) sees the pair.

var pctHexChapterNames = []string{
	"part%%20%d.xhtml",              // an escaped space
	"ch%%20%d%%20(final).xhtml",     // several
	"caf%%C3%%A9-%d.xhtml",          // UTF-8
	"r%%c3%%a9sum%%c3%%a9 %d.xhtml", // lower-case hex, a literal space beside it
	"a%%2Bb%d.xhtml",                // '+'
	"sec%%2F%d.xhtml",               // an escaped slash
	"%%63hapter%02d.xhtml",          // over-encoded letter: over-decodes to chapter<NN>.xhtml
	"%%41%%42%d.xhtml",              // adjacent escapes
	"100%%25-%d.xhtml",              // an escaped percent sign: over-decodes to 100%-<N>.xhtml
	"tab%%2520%d.xhtml",             // ... twice: tab%2520<N> -> tab%20<N> -> "tab <N>"
	"50%%-off%%20%d.xhtml",          // an escape next to a percent sign that is none
	"%d%%25.html",                   // "%25." at the end of the stem
	"%%e7%%ab%%a0%d.xhtml",          // a whole CJK character, lower-case hex
	"q%%26a%%28%d%%29.xhtml",        // escaped sub-delims
}

var pctHexDirs = []string{"", "", "", "Text", "my%20text", "%74ext", "q%2Ba/part%20one"}

// addEPUBPctHex is called while spine and p.Declared are parallel (after the repeated
// spine resources, before the navigation documents, so that nav / NCX link to the new
// chapters too).
func (p *pkg) addEPUBPctHex(r *hx.Rng, used map[string]bool, manifest *[]manItem, spine *[]string) {
	if !r.Chance(2, 5) {
		return
	}
	n := 1
	if r.Chance(1, 3) {
		n = 2
	}
	for j := 0; j < n; j++ {
		dir := p.Base
		switch c := r.Intn(6); {
		case c < 3: // below the package directory
			dir = strings.Trim(joinName(p.Base, hx.Pick(r, pctHexDirs)), "/")
		case c < 4: // a sibling of the package directory or the root
			dir = hx.Pick(r, []string{"", "shared", "old%20files"})
		}
		name := joinName(dir, fmt.Sprintf(hx.Pick(r, pctHexChapterNames), r.Range(1, 9)))
		if used[name] {
			continue
		}
		used[name] = true
		d := part{Tok: token(r, 60+j), ID: fmt.Sprintf("%s%d", hx.Pick(r, []string{"esc", "pc", "item9", "p-"}), j), Title: fmt.Sprintf("Part %c", 'P'+byte(j)), Name: name}
		segs, _ := relRef(r, p.Base, name)
		d.Ref = encodeRef(r, segs, r.Intn(4)) // '%' is neither unreserved nor a sub-delim: %25 in every mode
		if r.Chance(1, 8) {
			d.State = stMissing
		}
		*manifest = append(*manifest, manItem{d.ID, d.Ref, "application/xhtml+xml", ""})
		// anywhere; half of the time in front of an existing entry, so that a later chapter
		// exists whose page would move
		at := r.Intn(len(*spine) + 1)
		if len(*spine) > 0 && r.Bool() {
			at = r.Intn(len(*spine))
		}
		*spine = append((*spine)[:at], append([]string{d.ID}, (*spine)[at:]...)...)
		p.Declared = append(p.Declared[:at], append([]part{d}, p.Declared[at:]...)...)
		note := "pct-hex-member-name"
		if d.State == stMissing {
			note += ",missing"
		}
		p.Notes = append(p.Notes, note)

		// a member under the once-more-decoded name
		over, ok := pctDecoded(name)
		if !ok || !r.Bool() || !plainMemberName(over) || used[over] {
			continue
		}
		used[over] = true
		role := "decoy"
		switch c := r.Intn(8); {
		case c < 2:
			role = "listed-decoy"
		case c < 4:
			role = "declared"
		}
		osegs, _ := relRef(r, p.Base, over)
		oref := encodeRef(r, osegs, r.Intn(4))
		if role == "declared" {
			t := part{Tok: token(r, 70+j), ID: fmt.Sprintf("plain%d", j), Title: fmt.Sprintf("Part %c", 'R'+byte(j)), Name: over, Ref: oref}
			*manifest = append(*manifest, manItem{t.ID, t.Ref, "application/xhtml+xml", ""})
			pos := r.Intn(len(*spine) + 1)
			*spine = append((*spine)[:pos], append([]string{t.ID}, (*spine)[pos:]...)...)
			p.Declared = append(p.Declared[:pos], append([]part{t}, p.Declared[pos:]...)...)
		} else {
			t := part{Tok: token(r, 72+j), ID: fmt.Sprintf("decoded%d", j), Title: "Decoded copy", Name: over}
			if role == "listed-decoy" {
				t.InManifest = true
				*manifest = append(*manifest, manItem{t.ID, oref, "application/xhtml+xml", ""})
			}
			p.Decoys = append(p.Decoys, t)
		}
		p.noteTwin(twin{Of: name, Name: over, Kind: "pct-over-decoded", Role: role}, d)
	}
}
