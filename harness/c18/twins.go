package c18

import (
	"fmt"
	"strings"

	"verifharness/hx"
)

// Near-name members. A ZIP member name is a byte string and a declaration names a
// part by its exact spelling (after the resolution the property states: relative to
// the declaring part, percent-decoded for EPUB). A package may hold a second member
// whose name is "almost" that spelling:
//
//   case      the same name with the letter case of one path segment (file name,
//             extension or a directory) changed: text/part.xhtml | text/Part.xhtml
//   nfd       the same name in the other Unicode normalisation form (é as e + U+0301)
//   raw-href  (EPUB) the href as written, NOT percent-decoded, taken as a member name:
//             "ch%201.xhtml" next to "ch 1.xhtml"
//
// The near-name member is either a declared part of its own (both are pages, each with
// its own text), an unreferenced left-over, or a left-over that is listed in the
// manifest / relationships but not declared; it may also stand beside a declared part
// whose own member is missing (then nothing may be presented for that entry). ZIP
// order is a random permutation, so the near-name member comes before or after the
// part it resembles. What is expected follows from the logical package alone: a
// declared entry is read from the member its reference spells, a left-over is never
// presented.

type twin struct {
	Of   string // member name of the declared part it resembles
	Name string // its own member name
	Kind string // case | nfd | raw-href
	Role string // declared | decoy | listed-decoy
}

func isASCIILetter(c byte) bool { return (c|0x20) >= 'a' && (c|0x20) <= 'z' }

func flipByte(c byte) byte {
	if isASCIILetter(c) {
		return c ^ 0x20
	}
	return c
}

// caseVariant changes the letter case of ASCII letters in one path segment of name
// ("" when the name has no ASCII letter). Bytes >= 0x80 are left alone, so UTF-8
// sequences stay intact.
func caseVariant(r *hx.Rng, name string) string {
	segs := strings.Split(name, "/")
	var cand []int
	for i, s := range segs {
		for j := 0; j < len(s); j++ {
			if isASCIILetter(s[j]) {
				cand = append(cand, i)
				break
			}
		}
	}
	if len(cand) == 0 {
		return ""
	}
	at := cand[len(cand)-1] // the file name, most of the time
	if len(cand) > 1 && r.Chance(1, 3) {
		at = cand[r.Intn(len(cand)-1)] // a directory
	}
	s := []byte(segs[at])
	var letters []int
	for j, c := range s {
		if isASCIILetter(c) {
			letters = append(letters, j)
		}
	}
	for try := 0; try < 6; try++ {
		t := append([]byte{}, s...)
		switch r.Intn(5) {
		case 0: // all upper case
			t = []byte(asciiUpper(string(t)))
		case 1: // all lower case
			t = []byte(asciiLower(string(t)))
		case 2: // first letter
			t[letters[0]] = flipByte(t[letters[0]])
		case 3: // one letter somewhere
			j := hx.Pick(r, letters)
			t[j] = flipByte(t[j])
		default: // the extension only (file.XHTML), or the first letter when there is none
			if dot := strings.LastIndexByte(string(t), '.'); dot >= 0 && dot+1 < len(t) {
				for j := dot + 1; j < len(t); j++ {
					t[j] = flipByte(t[j])
				}
			} else {
				t[letters[0]] = flipByte(t[letters[0]])
			}
		}
		if string(t) != string(s) {
			segs[at] = string(t)
			return strings.Join(segs, "/")
		}
	}
	s[letters[0]] = flipByte(s[letters[0]])
	segs[at] = string(s)
	return strings.Join(segs, "/")
}

func asciiUpper(s string) string {
	b := []byte(s)
	for i, c := range b {
		if c >= 'a' && c <= 'z' {
			b[i] = c - 0x20
		}
	}
	return string(b)
}

func asciiLower(s string) string {
	b := []byte(s)
	for i, c := range b {
		if c >= 'A' && c <= 'Z' {
			b[i] = c + 0x20
		}
	}
	return string(b)
}

// nfdVariant writes the precomposed letters the generators use in decomposed form
// ("" when the name has none).
func nfdVariant(name string) string {
	out := strings.NewReplacer("\u00e9", "e\u0301", "\u00c9", "E\u0301").Replace(name)
	if out == name {
		return ""
	}
	return out
}

// twinTargets: declared entries that spell a member name and either have that member
// or miss it (a missing entry with a near-name left-over must stay missing).
func twinTargets(ds []part) []part {
	var out []part
	for _, d := range ds {
		if d.Name != "" && (d.State == stOK || d.State == stMissing) {
			out = append(out, d)
		}
	}
	return out
}

// nearName picks the near-name spelling for target d; rawHref is the un-decoded
// spelling of the reference as a member name ("" when not applicable).
func nearName(r *hx.Rng, d part, rawHref string) (name, kind string) {
	if v := nfdVariant(d.Name); v != "" && r.Chance(1, 2) {
		return v, "nfd"
	}
	if rawHref != "" && rawHref != d.Name && r.Chance(1, 3) {
		return rawHref, "raw-href"
	}
	return caseVariant(r, d.Name), "case"
}

func twinRole(r *hx.Rng, kind string) string {
	switch c := r.Intn(6); {
	case kind == "raw-href" && c < 3: // a member named like the raw href is a left-over by nature
		return "decoy"
	case c < 3:
		return "declared"
	case c < 5:
		return "decoy"
	}
	return "listed-decoy"
}

func (p *pkg) noteTwin(t twin, target part) {
	p.Twins = append(p.Twins, t)
	n := "near-name:" + t.Kind + "-" + t.Role
	if target.State == stMissing {
		n += "-of-missing"
	}
	p.Notes = append(p.Notes, n)
}

func twinCount(r *hx.Rng) int {
	if !r.Chance(1, 4) {
		return 0
	}
	if r.Chance(1, 3) {
		return 2
	}
	return 1
}

// ---- EPUB ------------------------------------------------------------------------

// addEPUBTwins is called after the declared parts and the ordinary decoys are chosen
// and before the navigation documents; spine and p.Declared are parallel here.
func (p *pkg) addEPUBTwins(r *hx.Rng, used map[string]bool, manifest *[]manItem, spine *[]string) {
	for j, n := 0, twinCount(r); j < n; j++ {
		targets := twinTargets(p.Declared)
		if len(targets) == 0 {
			return
		}
		d := hx.Pick(r, targets)
		raw := ""
		if strings.Contains(d.Ref, "%") && !hasDotSeg(d.Ref) {
			raw = joinName(p.Base, d.Ref)
		}
		name, kind := nearName(r, d, raw)
		if name == "" || used[name] {
			continue
		}
		used[name] = true
		role := twinRole(r, kind)
		segs, _ := relRef(r, p.Base, name)
		ref := encodeRef(r, segs, r.Intn(4))
		if role == "declared" {
			t := part{Tok: token(r, 30+j), ID: fmt.Sprintf("twin%d", j), Title: fmt.Sprintf("Part %c", 'V'+byte(j)), Name: name, Ref: ref}
			*manifest = append(*manifest, manItem{t.ID, t.Ref, "application/xhtml+xml", ""})
			at := r.Intn(len(*spine) + 1)
			*spine = append((*spine)[:at], append([]string{t.ID}, (*spine)[at:]...)...)
			p.Declared = append(p.Declared[:at], append([]part{t}, p.Declared[at:]...)...)
		} else {
			t := part{Tok: token(r, 40+j), ID: fmt.Sprintf("shadow%d", j), Title: "Shadow copy", Name: name}
			if role == "listed-decoy" {
				t.InManifest = true
				*manifest = append(*manifest, manItem{t.ID, ref, "application/xhtml+xml", ""})
			}
			p.Decoys = append(p.Decoys, t)
		}
		p.noteTwin(twin{Of: d.Name, Name: name, Kind: kind, Role: role}, d)
	}
}

// ---- OOXML -----------------------------------------------------------------------

// ooxmlTarget writes a relationship Target for member name from the main part in
// directory mainDir ("xl", "ppt"): relative when the member lies below it, else (or at
// random) package-absolute; dotdot allows "../x" for members outside (PPTX only: XLSX
// targets are generated without dot segments, see props/C18.json).
func ooxmlTarget(r *hx.Rng, mainDir, name string, dotdot bool) string {
	if strings.HasPrefix(name, mainDir+"/") {
		if r.Chance(3, 4) {
			return name[len(mainDir)+1:]
		}
		return "/" + name
	}
	if dotdot && r.Bool() {
		return "../" + name
	}
	return "/" + name
}

// addOOXMLTwins adds near-name members for declared sheets / slides. mk fills in the
// format's own fields of a declared twin (id, title, sheetId, notes); relType is the
// relationship type of a part of this kind.
func (p *pkg) addOOXMLTwins(r *hx.Rng, mainDir, relType string, used map[string]bool, rels *[][3]string, mk func(j int, t *part)) {
	for j, n := 0, twinCount(r); j < n; j++ {
		targets := twinTargets(p.Declared)
		if len(targets) == 0 {
			return
		}
		d := hx.Pick(r, targets)
		name, kind := nearName(r, d, "")
		if name == "" || used[name] {
			continue
		}
		used[name] = true
		role := twinRole(r, kind)
		ref := ooxmlTarget(r, mainDir, name, p.Fmt == "pptx")
		if role == "declared" {
			t := part{Tok: token(r, 30+j), Name: name, Ref: ref}
			mk(j, &t)
			*rels = append(*rels, [3]string{t.ID, relType, t.Ref})
			at := r.Intn(len(p.Declared) + 1)
			p.Declared = append(p.Declared[:at], append([]part{t}, p.Declared[at:]...)...)
		} else {
			t := part{Tok: token(r, 40+j), Title: "Shadow copy", Name: name}
			if role == "listed-decoy" {
				t.InManifest = true
				*rels = append(*rels, [3]string{fmt.Sprintf("rIdShadow%d", j), relType, ref})
			}
			p.Decoys = append(p.Decoys, t)
		}
		p.noteTwin(twin{Of: d.Name, Name: name, Kind: kind, Role: role}, d)
	}
}

// ---- oracle ----------------------------------------------------------------------

// partNamed finds the logical part stored under a member name; declared reports
// whether it is a declared, readable part (a page).
func (p *pkg) partNamed(name string) (d part, page bool, ok bool) {
	for _, x := range p.Declared {
		if x.Name == name {
			return x, x.State == stOK, true
		}
	}
	for _, x := range p.Decoys {
		if x.Name == name {
			return x, false, true
		}
	}
	return part{}, false, false
}

// nearNameOracle: for every pair (declared entry, near-name member) the text of each of
// the two members is presented exactly as often as the declaration makes it a page
// (once, or never), in the format reader, in Document() and in Text(). A reader that
// takes one member for the other shows one text too often and the other not at all.
func nearNameOracle(c *hx.Ctx, p *pkg, k kase, o *observation) {
	if !o.opened {
		return // reported by the page-count / missing-part checks
	}
	key := "C18/" + p.Fmt + "-near-name-member-confused"
	count := func(tok string) (rd, doc, txt int) {
		for _, pg := range o.pages {
			if strings.Contains(pg, tok) {
				rd++
			}
		}
		for _, pg := range o.docPages {
			if strings.Contains(pg, tok) {
				doc++
			}
		}
		return rd, doc, strings.Count(o.tText, tok)
	}
	for _, t := range p.Twins {
		a, aPage, okA := p.partNamed(t.Of)
		b, bPage, okB := p.partNamed(t.Name)
		if !okA || !okB || b.Tok == "" {
			continue
		}
		want := func(page bool) int {
			if page {
				return 1
			}
			return 0
		}
		ard, adoc, atxt := count(a.Tok)
		brd, bdoc, btxt := count(b.Tok)
		wa, wb := want(aPage), want(bPage)
		good := ard == wa && brd == wb
		if o.tOpened && o.tErr == "" {
			good = good && adoc == wa && bdoc == wb && atxt == wa && btxt == wb
		}
		c.Check(key, good, k, func() string {
			return fmt.Sprintf("members %q and %q differ only by %s (the second is %s); text of the first (%s, declared state %d) is presented in %d reader part(s) / %d Document page(s) / %d time(s) in Text(), want %d; text of the second (%s) in %d / %d / %d, want %d; %s",
				t.Of, t.Name, t.Kind, t.Role, a.Tok, a.State, ard, adoc, atxt, wa, b.Tok, brd, bdoc, btxt, wb, p.describe())
		})
	}
}
