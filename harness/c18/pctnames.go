package c18

import (
	"fmt"
	"strings"

	"verifharness/hx"
)

// Part names with percent signs (XLSX, PPTX).
//
// In an OPC package (ECMA-376 part 2 §6.2 part names, §7.3 mapping to ZIP) a part name is
// a URI path whose segments are percent-encoded where needed, a relationship Target spells
// that path, and the ZIP item name IS the part name without the leading "/" — percent
// signs included. A worksheet the user renamed "Q1 data.xml" is the part
// /xl/worksheets/Q1%20data.xml, its relationship says Target="worksheets/Q1%20data.xml",
// and the ZIP member is called "xl/worksheets/Q1%20data.xml". Unlike an EPUB href (which
// the property says is percent-decoded, because OCF file names are the decoded ones) an
// OOXML target therefore denotes the member it spells, byte for byte. A reader that
// decodes the target looks for "xl/worksheets/Q1 data.xml": the declared part is skipped,
// or a left-over member of that name is presented in its place.
//
// Generated (own stream): declared sheets / slides / notes parts whose file name or
// directory carries escapes of every sort — space, a percent sign (%25), UTF-8, '+',
// an over-encoded unreserved letter (so that the decoded name is a conventional
// sheet3.xml / slide3.xml), a doubly encoded space (%2520), an encoded slash, lower-case
// hex — and names with a percent sign that is no escape at all ("50%-off", "%zz"); and,
// for half of the parts with real escapes, a second member under the percent-DECODED name
// (twin kind pct-decoded): an unreferenced left-over, a left-over listed in the
// relationships, or a declared part of its own (whose target spells the decoded name
// literally). Expectations follow from the logical package alone.

var pctFileNames = []string{
	"Q1%%20data%d.xml",           // space
	"100%%25-%d.xml",             // a percent sign
	"caf%%C3%%A9-%d.xml",         // UTF-8
	"a%%2Bb%d.xml",               // '+'
	"%%73heet%d.xml",             // over-encoded unreserved letter: decodes to sheet<N>.xml
	"%%73lide%d.xml",             // ... slide<N>.xml
	"tab%%2520%d.xml",            // doubly encoded: decodes to tab%20<N>.xml
	"part%%2F%d.xml",             // an encoded slash
	"r%%c3%%a9sum%%c3%%a9 %d.xml", // lower-case hex, and a literal space beside it
	"50%%-off-%d.xml",            // a percent sign that is no escape
	"x%%zz%d.xml",                // ... followed by non-hex letters
	"tail%d.xml%%",               // ... at the very end
	"%%41%%42%d.xml",             // adjacent escapes
	"Sheet%%20%d%%20(2).xml",
}

var pctDirs = []string{"", "", "", "my%20sheets", "q%2Ba", "%64ata"}

// pctRel returns a path (relative to the main part's directory) below dir whose file name,
// and sometimes directory, carries percent signs.
func pctRel(r *hx.Rng, dir string, num int) string {
	name := fmt.Sprintf(hx.Pick(r, pctFileNames), num)
	if sub := hx.Pick(r, pctDirs); sub != "" {
		if r.Bool() {
			return sub + "/" + name // a directory of its own, itself with an escape
		}
		return dir + "/" + sub + "/" + name
	}
	return dir + "/" + name
}

func hexVal(c byte) int {
	switch {
	case c >= '0' && c <= '9':
		return int(c - '0')
	case c >= 'a' && c <= 'f':
		return int(c-'a') + 10
	case c >= 'A' && c <= 'F':
		return int(c-'A') + 10
	}
	return -1
}

// pctDecoded is the name with every %XX replaced by the byte it stands for; ok is false
// when the name has no escape or has a percent sign that is not an escape (RFC 3986 §2.1).
func pctDecoded(name string) (string, bool) {
	var b strings.Builder
	n := 0
	for i := 0; i < len(name); i++ {
		if name[i] != '%' {
			b.WriteByte(name[i])
			continue
		}
		if i+2 > len(name)-1 {
			return "", false
		}
		h, l := hexVal(name[i+1]), hexVal(name[i+2])
		if h < 0 || l < 0 {
			return "", false
		}
		b.WriteByte(byte(h<<4 | l))
		i += 2
		n++
	}
	return b.String(), n > 0
}

// plainMemberName: a name archive/zip accepts as written and that has no empty or dot
// segments (see props/C18.json, assumptions).
func plainMemberName(name string) bool {
	if name == "" || strings.HasPrefix(name, "/") || strings.ContainsAny(name, "\\\x00") {
		return false
	}
	for _, s := range strings.Split(name, "/") {
		if s == "" || s == "." || s == ".." {
			return false
		}
	}
	return true
}

// addPctDecodedTwins: for declared parts whose member name carries real escapes, a second
// member under the percent-decoded name (at most two per package). mk fills in the
// format's own fields of a declared twin and gets serial numbers 2 and 3 (0 and 1 belong
// to addOOXMLTwins).
func (p *pkg) addPctDecodedTwins(r *hx.Rng, mainDir, relType string, used map[string]bool, rels *[][3]string, mk func(j int, t *part)) {
	j := 2
	for _, d := range twinTargets(p.Declared) {
		name, ok := pctDecoded(d.Name)
		if !ok || j > 3 || !r.Chance(1, 2) {
			continue
		}
		if !plainMemberName(name) || used[name] || used[partRelsName(name)] {
			continue
		}
		used[name] = true
		role := "decoy"
		switch c := r.Intn(8); {
		case c < 2:
			role = "listed-decoy"
		case c < 4:
			role = "declared"
		}
		ref := ooxmlTarget(r, mainDir, name, p.Fmt == "pptx")
		if role == "declared" {
			t := part{Tok: token(r, 44+j), Name: name, Ref: ref}
			mk(j, &t)
			*rels = append(*rels, [3]string{t.ID, relType, t.Ref})
			at := r.Intn(len(p.Declared) + 1)
			p.Declared = append(p.Declared[:at], append([]part{t}, p.Declared[at:]...)...)
		} else {
			t := part{Tok: token(r, 46+j), Title: "Decoded copy", Name: name}
			if role == "listed-decoy" {
				t.InManifest = true
				*rels = append(*rels, [3]string{fmt.Sprintf("rIdDecoded%d", j), relType, ref})
			}
			p.Decoys = append(p.Decoys, t)
		}
		p.noteTwin(twin{Of: d.Name, Name: name, Kind: "pct-decoded", Role: role}, d)
		j++
	}
}

// hasPct reports whether a member name carries a percent sign.
func hasPct(name string) bool { return strings.Contains(name, "%") }
