package c18

import (
	"fmt"
	"os"
	"path/filepath"
	"strings"

	"github.com/tsawler/tabula"
	"github.com/tsawler/tabula/xlsx"

	"verifharness/hx"
	"verifharness/writers"
)

// Statement-level oracle C18/xlsx-foreign-id-attribute-shadows-rid (no model involved).
//
// A workbook declares its sheets by the <sheet> elements of xl/workbook.xml in document
// order; each names its part by the attribute `id` OF THE RELATIONSHIPS NAMESPACE (r:id,
// ECMA-376 part 1 §18.2.19; the Transitional URI or the ISO/IEC 29500 Strict one). Other
// attributes on the element whose local name happens to be `id` say nothing about the
// part: an attribute of a foreign namespace (o:id="…", an extension an editing tool left
// behind) and, above all, a namespace DECLARATION for a prefix called id (xmlns:id="…" —
// well-formed, schema-valid, and listed by encoding/xml as an attribute of local name id).
// The workbooks here are regular in every other respect (every declared part present and
// well-formed, one relationship per sheet, distinct ids, both conformance classes), so
// the property applies without ifs: sheets in declared order, each part's text on its own
// page and only there, members the declaration does not lead to nowhere.
//
// Before 10098f7 xlsx.sheetRefXML.RID was tagged `id,attr` without a namespace: the last
// attribute of local name id won, the sheet lost its relationship, fell back to
// xl/worksheets/sheet<i+1>.xml and was dropped or shown with that member's cells (or,
// when the foreign value was another sheet's relationship id, with that sheet's cells).

const foreignIDKey = "C18/xlsx-foreign-id-attribute-shadows-rid"

func foreignIDCase(c *hx.Ctx, idx int) {
	r := c.Rng.Fork(uint64(3_000_000 + idx))
	k := kase{Seed: c.Seed, Index: idx, Fmt: "fid"}

	strict := r.Chance(2, 5)
	relNS := nsRel
	if strict {
		relNS = nsRelStrict
	}
	n := r.Range(1, 5)
	nums := perm(r, n+2)
	ids := perm(r, n+3)
	type fsheet struct{ name, rid, member, target, tok, markup, kind string }
	sheets := make([]fsheet, n)
	for j := range sheets {
		s := &sheets[j]
		s.name = fmt.Sprintf("Tab%d", j+1)
		s.rid = fmt.Sprintf("rId%d", ids[j]+1)
		s.tok = fmt.Sprintf("FID%dq%dz", idx, j)
		file := fmt.Sprintf("p%d.xml", nums[j]+1)
		s.member = "xl/worksheets/" + file
		s.target = "worksheets/" + file
		if r.Chance(1, 5) {
			s.target = "/" + s.member
		}
	}

	// left-over members under the names an unbound <sheet> falls back to
	var decoys []bmember
	if r.Chance(2, 3) {
		for j := 1; j <= n; j++ {
			if r.Chance(2, 3) {
				tok := fmt.Sprintf("FID%dd%dz", idx, j)
				decoys = append(decoys, bmember{name: fmt.Sprintf("xl/worksheets/sheet%d.xml", j), data: bindSheetBody(tok), tok: tok})
			}
		}
	}

	// the <sheet> elements: at least one carries an attribute of local name id that is
	// not the relationship id
	marked := r.Intn(n)
	kinds := []string{"foreign-after", "foreign-before", "xmlns-id-after", "xmlns-id-before", "foreign-local-decl-after", "both-after", "bare-xmlns-and-foreign-around"}
	for j := range sheets {
		s := &sheets[j]
		base := []string{
			` name="` + s.name + `"`,
			` sheetId="` + fmt.Sprint(r.Range(1, 900)) + `"`,
			` r:id="` + s.rid + `"`,
		}
		hx.Shuffle(r, base)
		at := 0
		for i, a := range base {
			if strings.HasPrefix(a, " r:id=") {
				at = i
			}
		}
		s.kind = "plain"
		if j == marked || r.Chance(1, 3) {
			s.kind = hx.Pick(r, kinds)
		}
		// what the foreign attribute says: another sheet's relationship id, this one's,
		// an id nothing has, or something that is no id at all
		val := hx.Pick(r, []string{sheets[r.Intn(n)].rid, sheets[(j+1)%n].rid, "rId99", "shape-7", ""})
		uri := hx.Pick(r, []string{"urn:x", nsOther, sheets[(j+1)%n].rid, "http://example.org/ids"})
		foreign := ` o:id="` + val + `"`
		xmlnsID := ` xmlns:id="` + uri + `"`
		var before, after []string
		switch s.kind {
		case "foreign-after":
			after = []string{foreign}
		case "foreign-before":
			before = []string{foreign}
		case "xmlns-id-after":
			after = []string{xmlnsID}
		case "xmlns-id-before":
			before = []string{xmlnsID}
		case "foreign-local-decl-after":
			after = []string{` xmlns:x14="urn:example:ext"`, ` x14:id="` + val + `"`}
		case "both-after":
			after = []string{foreign, xmlnsID}
			if r.Bool() {
				after[0], after[1] = after[1], after[0]
			}
		case "bare-xmlns-and-foreign-around":
			before, after = []string{xmlnsID}, []string{foreign}
		}
		// before: anywhere up to r:id; after: anywhere behind it
		out := append([]string{}, base...)
		for _, a := range before {
			p := r.Intn(at + 1)
			out = append(out[:p:p], append([]string{a}, out[p:]...)...)
			at++
		}
		for i, a := range after {
			p := at + 1 + i + r.Intn(len(out)-at-i)
			out = append(out[:p:p], append([]string{a}, out[p:]...)...)
		}
		s.markup = "<sheet" + strings.Join(out, "") + "/>"
		c.Count("fid/sheet-" + s.kind)
	}

	var wb strings.Builder
	wb.WriteString(xmlHdr + `<workbook xmlns="` + nsSS + `" xmlns:r="` + relNS + `" xmlns:o="` + nsOther + `"`)
	if strict {
		wb.WriteString(` conformance="strict"`)
	}
	wb.WriteString(`><sheets>`)
	for _, s := range sheets {
		wb.WriteString(s.markup)
	}
	wb.WriteString(`</sheets></workbook>`)

	var rels [][3]string
	for _, s := range sheets {
		rels = append(rels, [3]string{s.rid, relNS + "/worksheet", s.target})
	}
	hx.Shuffle(r, rels)

	ms := []bmember{
		{name: "[Content_Types].xml", data: xmlHdr + `<Types xmlns="http://schemas.openxmlformats.org/package/2006/content-types"><Default Extension="xml" ContentType="application/xml"/><Default Extension="rels" ContentType="application/vnd.openxmlformats-package.relationships+xml"/><Override PartName="/xl/workbook.xml" ContentType="application/vnd.openxmlformats-officedocument.spreadsheetml.sheet.main+xml"/></Types>`},
		{name: "_rels/.rels", data: relsXML([][3]string{{"rId1", relNS + "/officeDocument", "xl/workbook.xml"}})},
		{name: "xl/workbook.xml", data: wb.String()},
		{name: "xl/_rels/workbook.xml.rels", data: relsXML(rels)},
	}
	for _, s := range sheets {
		ms = append(ms, bmember{name: s.member, data: bindSheetBody(s.tok), tok: s.tok})
	}
	ms = append(ms, decoys...)
	if strict {
		for i := range ms {
			ms[i].data = strictURIs.Replace(ms[i].data)
		}
		c.Count("fid/strict")
	} else {
		c.Count("fid/transitional")
	}
	wbWritten := ms[2].data[len(xmlHdr):]
	hx.Shuffle(r, ms)
	zm := make([]writers.Member, len(ms))
	for i, m := range ms {
		zm[i] = writers.Member{Name: m.name, Data: []byte(m.data)}
	}
	path := filepath.Join(c.OutDir, fmt.Sprintf("c18-fid-%d.xlsx", idx))
	if err := os.WriteFile(path, writers.Zip(zm), 0o644); err != nil {
		panic(err)
	}
	defer os.Remove(path)

	// which tokens a text shows, in order of first appearance
	shown := func(text string) []string {
		type hit struct {
			at  int
			tok string
		}
		var hs []hit
		for _, m := range ms {
			if m.tok == "" {
				continue
			}
			if at := strings.Index(text, m.tok); at >= 0 {
				hs = append(hs, hit{at, m.tok})
			}
		}
		for i := 1; i < len(hs); i++ {
			for j := i; j > 0 && hs[j].at < hs[j-1].at; j-- {
				hs[j], hs[j-1] = hs[j-1], hs[j]
			}
		}
		out := make([]string, len(hs))
		for i, h := range hs {
			out[i] = h.tok
		}
		return out
	}

	var want, wantNames []string
	for _, s := range sheets {
		want = append(want, s.tok)
		wantNames = append(wantNames, s.name)
	}
	var got, gotNames []string // per presented sheet: the tokens its cells show, joined by '+'
	openErr, tText, tErr, tCount := "", "", "", -1
	pn := hx.Safe(func() {
		rd, err := xlsx.Open(path)
		if err != nil {
			openErr = err.Error()
			return
		}
		defer rd.Close()
		for i := 0; i < rd.SheetCount(); i++ {
			s, err := rd.Sheet(i)
			if err != nil || s == nil {
				got, gotNames = append(got, "?"), append(gotNames, "?")
				continue
			}
			var t strings.Builder
			for _, row := range s.Rows {
				for _, cell := range row {
					t.WriteString(cell.Value + "\t")
				}
			}
			got = append(got, strings.Join(shown(t.String()), "+"))
			gotNames = append(gotNames, s.Name)
		}
		ext := tabula.Open(path)
		defer ext.Close()
		if tCount, err = ext.PageCount(); err != nil {
			tErr = err.Error()
			return
		}
		txt, _, err := tabula.Open(path).Text()
		if err != nil {
			tErr = "Text: " + err.Error()
		}
		tText = txt
	})
	c.Check("C18/panic", pn == "", k, func() string { return "foreign-id case panic: " + pn })

	desc := func() string {
		var ds []string
		for _, d := range decoys {
			ds = append(ds, d.name+"="+d.tok)
		}
		var ps []string
		for _, s := range sheets {
			ps = append(ps, s.rid+"->"+s.target+"="+s.tok)
		}
		return fmt.Sprintf("workbook.xml %q; relationships %s; left-over members %v", wbWritten, strings.Join(ps, " "), ds)
	}
	eq := func(a, b []string) bool { return strings.Join(a, "\x00") == strings.Join(b, "\x00") && len(a) == len(b) }
	c.Check(foreignIDKey, pn != "" || (openErr == "" && eq(got, want) && eq(gotNames, wantNames)), k, func() string {
		return fmt.Sprintf("xlsx.Open (err %q) presents sheets %v showing %v, declared %v with %v; %s", openErr, gotNames, got, wantNames, want, desc())
	})
	c.Check(foreignIDKey, pn != "" || openErr != "" || (tErr == "" && tCount == n && eq(shown(tText), want)), k, func() string {
		return fmt.Sprintf("tabula.Open: PageCount()=%d (err %q), Text() shows %v, declared %v; %s", tCount, tErr, shown(tText), want, desc())
	})
	c.Case("c18.fid "+hx.HexS(wb.String()), openErr == "" && len(got) > 0)
}

func foreignIDCases(c *hx.Ctx, from, n int) {
	for i := from; i < from+n; i++ {
		foreignIDCase(c, i)
	}
}
