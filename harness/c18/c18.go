// Package c18 is the correspondence/oracle harness for property C18.
package c18

import "verifharness/hx"

func init() { hx.Register("C18", Run, Replay) }

// Run is not built yet for this property.
func Run(c *hx.Ctx) { c.Note("C18: harness not built") }

func Replay(c *hx.Ctx, kase map[string]interface{}) {}
