// Package c18 is the correspondence/oracle harness for property C18:
// multi-part documents are read in their declared order.
package c18

import (
	"fmt"
	"os"
	"path/filepath"
	"strings"

	"github.com/tsawler/tabula"
	"github.com/tsawler/tabula/epubdoc"
	"github.com/tsawler/tabula/model"
	"github.com/tsawler/tabula/pptx"
	"github.com/tsawler/tabula/xlsx"

	"verifharness/hx"
	"verifharness/writers"
)

func init() { hx.Register("C18", Run, Replay) }

type kase struct {
	Seed  uint64 `json:"seed"`
	Index int    `json:"index"`
	Fmt   string `json:"fmt"`
	File  string `json:"file,omitempty"`
}

// observation = what the format reader and the tabula front door showed.
type observation struct {
	opened   bool
	openErr  string
	pages    []string // per part, the text the format reader holds for it
	names    []string // xlsx: SheetNames()
	notes    []string // pptx: per slide, Slide(i).Notes
	hrefs    []string // epub: per chapter, Chapter.Href (the archive name it was read from)
	tOpened  bool
	tErr     string
	tCount   int
	tText    string
	docPages []string
	panicked string
}

func pageText(pg *model.Page) string {
	var b strings.Builder
	for _, el := range pg.Elements {
		switch e := el.(type) {
		case *model.Heading:
			b.WriteString(e.Text + "\n")
		case *model.Paragraph:
			b.WriteString(e.Text + "\n")
		case *model.List:
			for _, it := range e.Items {
				b.WriteString(it.Text + "\n")
			}
		case *model.Table:
			for _, row := range e.Rows {
				for _, cell := range row {
					b.WriteString(cell.Text + "\t")
				}
				b.WriteString("\n")
			}
		}
	}
	b.WriteString(pg.ExtractText())
	return b.String()
}

// tokenCid finds which member's token a text carries ("?" when none or several).
func tokenCid(p *pkg, text string) string {
	found := ""
	try := func(d part) {
		if d.Tok != "" && d.Name != "" && strings.Contains(text, d.Tok) {
			if found != "" {
				found = "?multi"
			} else {
				found = fmt.Sprint(p.cidOf(d.Name))
			}
		}
	}
	for _, d := range p.Declared {
		try(d)
	}
	for _, d := range p.Decoys {
		try(d)
	}
	if found == "" {
		return "?"
	}
	return found
}

// observe runs the implementation on the written package and returns the impl
// line of the correspondence together with what the oracles need.
func observe(p *pkg, path string) (string, *observation) {
	o := &observation{}
	line := "err"
	o.panicked = hx.Safe(func() {
		switch p.Fmt {
		case "xlsx":
			rd, err := xlsx.Open(path)
			if err != nil {
				o.openErr = err.Error()
				return
			}
			defer rd.Close()
			o.opened = true
			o.names = rd.SheetNames()
			var out []string
			for i := 0; i < rd.SheetCount(); i++ {
				s, _ := rd.Sheet(i)
				var b strings.Builder
				for _, row := range s.Rows {
					for _, cell := range row {
						b.WriteString(cell.Value + "\t")
					}
					b.WriteString("\n")
				}
				o.pages = append(o.pages, b.String())
				out = append(out, fmt.Sprintf("%d:%s:%s", s.Index, tokenCid(p, b.String()), hx.HexS(s.Name)))
			}
			line = strings.TrimSpace("ok " + strings.Join(out, " "))
		case "pptx":
			rd, err := pptx.Open(path)
			if err != nil {
				o.openErr = err.Error()
				return
			}
			defer rd.Close()
			o.opened = true
			var out []string
			for i := 0; i < rd.SlideCount(); i++ {
				s, _ := rd.Slide(i)
				t := s.GetText()
				o.pages = append(o.pages, t)
				o.notes = append(o.notes, s.Notes)
				out = append(out, fmt.Sprintf("%d:%s", s.Index, tokenCid(p, t)))
			}
			line = strings.TrimSpace("ok " + strings.Join(out, " "))
		case "epub":
			rd, err := epubdoc.Open(path)
			if err != nil {
				o.openErr = err.Error()
				return
			}
			defer rd.Close()
			o.opened = true
			byContent := map[string]int{}
			for i, d := range p.Docs {
				byContent[string(d.data)] = i + 1
			}
			var out []string
			for _, ch := range rd.Chapters() {
				o.pages = append(o.pages, string(ch.Content))
				o.hrefs = append(o.hrefs, ch.Href)
				cid := "?"
				if id, ok := byContent[string(ch.Content)]; ok {
					cid = fmt.Sprint(id)
				}
				out = append(out, fmt.Sprintf("%d:%s:%s:%s", ch.Index, cid, hx.HexS(ch.Href), hx.HexS(ch.ID)))
			}
			line = strings.TrimSpace("ok " + strings.Join(out, " "))
		}
	})
	if o.panicked != "" {
		return "panic", o
	}
	o.panicked = hx.Safe(func() {
		ext := tabula.Open(path)
		defer ext.Close()
		n, err := ext.PageCount()
		if err != nil {
			o.tErr = err.Error()
			return
		}
		o.tOpened, o.tCount = true, n
		txt, _, err := tabula.Open(path).Text()
		if err != nil {
			o.tErr = "Text: " + err.Error()
		}
		o.tText = txt
		doc, _, err := tabula.Open(path).Document()
		if err != nil || doc == nil {
			o.tErr = fmt.Sprint("Document: ", err)
			return
		}
		for _, pg := range doc.Pages {
			o.docPages = append(o.docPages, pageText(pg))
		}
	})
	return line, o
}

func hasDotSeg(ref string) bool {
	for _, s := range strings.Split(ref, "/") {
		if s == "." || s == ".." {
			return true
		}
	}
	return false
}

// missKey names the failure class when an expected part is not shown.
func missKey(p *pkg, d part) string {
	switch p.Fmt {
	case "xlsx":
		if hasPct(d.Name) { // an OOXML target denotes the member it spells, percent signs included
			return "C18/xlsx-part-name-with-percent-sign"
		}
		return "C18/xlsx-sheet-order"
	case "pptx":
		if hasPct(d.Name) {
			return "C18/pptx-part-name-with-percent-sign"
		}
		return "C18/pptx-slide-order"
	}
	if strings.ContainsAny(d.Ref, "%+") {
		return "C18/href-percent-decoding"
	}
	if strings.Contains(d.Ref, "/") || hasDotSeg(d.Ref) {
		return "C18/href-relative-resolution"
	}
	return "C18/epub-spine-order"
}

func orderKey(p *pkg) string {
	switch p.Fmt {
	case "xlsx":
		return "C18/xlsx-sheet-order"
	case "pptx":
		return "C18/pptx-slide-order"
	}
	return "C18/epub-spine-order"
}

// oracles: the statement of C18 evaluated directly on what the implementation
// showed, using only the logical package (declared list, states, tokens).
func oracles(c *hx.Ctx, p *pkg, k kase, o *observation) {
	E := p.expected()
	P, slot := p.pages(), p.slots() // all pages (with the text-less ones); E index -> page index
	var forbidden []part
	for _, d := range p.Declared {
		if d.State != stOK && d.Tok != "" {
			forbidden = append(forbidden, d)
		}
	}
	forbidden = append(forbidden, p.Decoys...)
	// notes of slides that are not pages (unreadable / undeclared) belong to no page
	type strayNote struct {
		tok, why string
	}
	var strayNotes []strayNote
	for _, d := range p.Declared {
		if d.State != stOK && d.NotesTok != "" {
			strayNotes = append(strayNotes, strayNote{d.NotesTok, fmt.Sprintf("notes %q of declared but unreadable slide %q (state %d)", d.NotesName, d.Name, d.State)})
		}
	}
	for _, d := range p.Decoys {
		if d.NotesTok != "" {
			strayNotes = append(strayNotes, strayNote{d.NotesTok, fmt.Sprintf("notes %q of undeclared slide %q", d.NotesName, d.Name)})
		}
	}
	everywhere := func() []string { // every place where the implementation shows text
		all := append([]string{o.tText}, o.pages...)
		all = append(all, o.notes...)
		return append(all, o.docPages...)
	}
	f := p.Fmt
	desc := p.describe
	// a member whose name is nearly a declared part's name is not taken for that part
	nearNameOracle(c, p, k, o)
	// with several package documents listed, the first one is the declaration
	renditionOracle(c, p, k, o)
	if len(P) == 0 {
		// nothing declared is readable: the reader must not present anything else instead
		shown := false
		for _, d := range forbidden {
			if strings.Contains(o.tText, d.Tok) || strings.Contains(strings.Join(o.pages, "\x00"), d.Tok) {
				shown = true
			}
		}
		for _, sn := range strayNotes {
			if strings.Contains(strings.Join(everywhere(), "\x00"), sn.tok) {
				shown = true
			}
		}
		c.Check("C18/decoy-included-"+f, !shown, k, func() string {
			return "no declared part is readable, yet an undeclared part is presented; " + desc()
		})
		c.Check("C18/page-count-"+f, !o.opened || len(o.pages) == 0, k, func() string {
			return fmt.Sprintf("no declared part is readable but %d part(s) reported; %s", len(o.pages), desc())
		})
		return
	}
	// every expected part is shown (by the format reader) ...
	idxOf := func(text string) int { // index in E of the expected token a page carries
		for i, d := range E {
			if strings.Contains(text, d.Tok) {
				return i
			}
		}
		return -1
	}
	for _, d := range E {
		seen := false
		for _, pg := range o.pages {
			if strings.Contains(pg, d.Tok) {
				seen = true
			}
		}
		c.Check(missKey(p, d), seen, k, func() string {
			return fmt.Sprintf("declared readable part %s (ref %q -> member %q) is not presented (open error %q); %s", d.Tok, d.Ref, d.Name, o.openErr, desc())
		})
	}
	// ... in declared order
	last, inOrder := -1, true
	var seq []int
	for _, pg := range o.pages {
		i := idxOf(pg)
		seq = append(seq, i)
		if i >= 0 {
			if i <= last {
				inOrder = false
			}
			last = i
		}
	}
	c.Check(orderKey(p), inOrder, k, func() string {
		return fmt.Sprintf("parts presented in order %v of the declared readable list (want ascending); %s", seq, desc())
	})
	if f == "xlsx" && o.opened {
		var want []string
		for _, d := range E {
			want = append(want, d.Title)
		}
		c.Check("C18/xlsx-sheet-order", strings.Join(want, "\x00") == strings.Join(o.names, "\x00"), k, func() string {
			return fmt.Sprintf("SheetNames()=%q want %q; %s", o.names, want, desc())
		})
	}
	// the front door: count, order in Text(), own page, leaks, decoys
	c.Check("C18/page-count-"+f, o.opened && len(o.pages) == len(P), k, func() string {
		return fmt.Sprintf("format reader reports %d part(s), %d declared readable (open error %q); %s", len(o.pages), len(P), o.openErr, desc())
	})
	c.Check("C18/page-count-"+f, o.tOpened && o.tCount == len(P), k, func() string {
		return fmt.Sprintf("tabula.Open.PageCount()=%d (err %q), %d declared readable; %s", o.tCount, o.tErr, len(P), desc())
	})
	c.Check("C18/page-count-"+f, len(o.docPages) == len(P), k, func() string {
		return fmt.Sprintf("Document() has %d pages (err %q), %d declared readable; %s", len(o.docPages), o.tErr, len(P), desc())
	})
	pos, asc := -1, true
	for _, d := range E {
		at := strings.Index(o.tText, d.Tok)
		if at < 0 {
			continue // reported by the missing-part check
		}
		if at < pos {
			asc = false
		}
		pos = at
	}
	c.Check(orderKey(p), asc, k, func() string {
		return fmt.Sprintf("Text() does not carry the parts' tokens in declared order; %s", desc())
	})
	for i, d := range E {
		pi := slot[i] // the part's page: its position among ALL declared readable parts
		own := pi < len(o.docPages) && strings.Contains(o.docPages[pi], d.Tok)
		c.Check("C18/text-in-own-page-"+f, own, k, func() string {
			got := "<no such page>"
			if pi < len(o.docPages) {
				got = clip(o.docPages[pi])
			}
			return fmt.Sprintf("Document().Pages[%d] = %q does not contain the text of declared readable part %d (%s); %s", pi, got, pi, d.Tok, desc())
		})
		// the format reader holds the part at the same position
		if o.opened {
			c.Check("C18/text-in-own-page-"+f, pi < len(o.pages) && strings.Contains(o.pages[pi], d.Tok), k, func() string {
				return fmt.Sprintf("part %d of the format reader does not hold the text of declared readable part %d (%s); %s", pi, pi, d.Tok, desc())
			})
		}
		// "and only there": the part's text is in one page only and once in Text()
		inDoc, inRd := 0, 0
		for _, pg := range o.docPages {
			if strings.Contains(pg, d.Tok) {
				inDoc++
			}
		}
		for _, pg := range o.pages {
			if strings.Contains(pg, d.Tok) {
				inRd++
			}
		}
		leaks := strings.Count(o.tText, d.Tok) > 1 || inDoc > 1 || inRd > 1
		c.Check("C18/text-leaks-"+f, !leaks, k, func() string {
			return fmt.Sprintf("text of declared part %d (%s) appears in %d Document pages, %d reader parts, %d times in Text(); %s", i, d.Tok, inDoc, inRd, strings.Count(o.tText, d.Tok), desc())
		})
	}
	// a resource that the spine lists several times (same idref again, another manifest item
	// with the same href, another spelling of the href) is one part: its text is presented
	// exactly once, at the position of its first listing (E lists every resource once, at its
	// first position: repetitions are declared entries of state stRepeat)
	if f == "epub" {
		reps := p.repeatedResources()
		for i, d := range E {
			if reps[d.Name] == 0 {
				continue
			}
			var rdAt, docAt []int
			for j, pg := range o.pages {
				if strings.Contains(pg, d.Tok) {
					rdAt = append(rdAt, j)
				}
			}
			for j, pg := range o.docPages {
				if strings.Contains(pg, d.Tok) {
					docAt = append(docAt, j)
				}
			}
			inText := strings.Count(o.tText, d.Tok)
			good := len(rdAt) == 1 && rdAt[0] == slot[i]
			if o.tOpened && o.tErr == "" {
				good = good && len(docAt) == 1 && docAt[0] == slot[i] && inText == 1
			}
			c.Check("C18/epub-repeated-resource-is-one-part", good, k, func() string {
				return fmt.Sprintf("resource %q (%s) is listed %d times in the spine (first as declared readable part %d): it is presented as reader part(s) %v, Document page(s) %v, %d time(s) in Text(); want exactly part %d, page %d, once; %s", d.Name, d.Tok, reps[d.Name]+1, slot[i], rdAt, docAt, inText, slot[i], slot[i], desc())
			})
		}
	}
	if f == "epub" {
		textlessOracle(c, p, k, o)
	}
	// speaker notes (pptx): the notes part's text belongs to its slide's page, and only there.
	// Observed through Slide(i).Notes and through Text(), where a page's text runs from its
	// own part's token to the next page's.
	if f == "pptx" {
		bodyAt := make([]int, len(E)+1)
		for i, d := range E {
			bodyAt[i] = strings.Index(o.tText, d.Tok)
		}
		bodyAt[len(E)] = len(o.tText)
		for i, d := range E {
			// a slide's own text never shows up as somebody's notes
			inNotes := 0
			for _, nt := range o.notes {
				if strings.Contains(nt, d.Tok) {
					inNotes++
				}
			}
			c.Check("C18/text-leaks-pptx", inNotes == 0, k, func() string {
				return fmt.Sprintf("text of declared slide %d (%s) appears in the notes of %d slide(s); %s", i, d.Tok, inNotes, desc())
			})
			if d.NotesTok == "" {
				continue
			}
			own := i < len(o.notes) && strings.Contains(o.notes[i], d.NotesTok)
			c.Check("C18/pptx-notes-in-own-page", own, k, func() string {
				got := "<no such slide>"
				if i < len(o.notes) {
					got = o.notes[i]
				}
				return fmt.Sprintf("Slide(%d).Notes=%q does not contain the notes text %s of declared readable slide %d (%s, notes target %q -> member %q); %s", i, got, d.NotesTok, i, d.Tok, d.NotesRef, d.NotesName, desc())
			})
			var where []int
			for j, nt := range o.notes {
				if j != i && strings.Contains(nt, d.NotesTok) {
					where = append(where, j)
				}
			}
			for j, pg := range o.pages {
				if strings.Contains(pg, d.NotesTok) {
					where = append(where, j)
				}
			}
			for j, pg := range o.docPages {
				if j != i && strings.Contains(pg, d.NotesTok) {
					where = append(where, j)
				}
			}
			c.Check("C18/pptx-notes-leak", len(where) == 0 && strings.Count(o.tText, d.NotesTok) <= 1, k, func() string {
				return fmt.Sprintf("notes text %s of declared readable slide %d (%s) appears on other page(s) %v / %d times in Text(); %s", d.NotesTok, i, d.Tok, where, strings.Count(o.tText, d.NotesTok), desc())
			})
			// in Text(): after its own slide's text and before the next slide's
			at := strings.Index(o.tText, d.NotesTok)
			c.Check("C18/pptx-notes-in-own-page", at >= 0, k, func() string {
				return fmt.Sprintf("Text() does not contain the notes text %s of declared readable slide %d (%s, notes target %q -> member %q); %s", d.NotesTok, i, d.Tok, d.NotesRef, d.NotesName, desc())
			})
			if at >= 0 && bodyAt[i] >= 0 && bodyAt[i+1] >= 0 {
				c.Check("C18/pptx-notes-leak", bodyAt[i] < at && at < bodyAt[i+1], k, func() string {
					return fmt.Sprintf("in Text() the notes text %s of declared readable slide %d stands at offset %d, outside its page's text [%d,%d) (own token %s to the next page's); %s", d.NotesTok, i, at, bodyAt[i], bodyAt[i+1], d.Tok, desc())
				})
			}
		}
		for _, sn := range strayNotes {
			shown := false
			for _, t := range everywhere() {
				if strings.Contains(t, sn.tok) {
					shown = true
				}
			}
			c.Check("C18/decoy-included-pptx", !shown, k, func() string {
				return fmt.Sprintf("%s (%s) is presented although that slide is not a page; %s", sn.why, sn.tok, desc())
			})
		}
	}
	for _, d := range forbidden {
		shown := strings.Contains(o.tText, d.Tok)
		for _, pg := range append(append(append([]string{}, o.pages...), o.docPages...), o.notes...) {
			if strings.Contains(pg, d.Tok) {
				shown = true
			}
		}
		c.Check("C18/decoy-included-"+f, !shown, k, func() string {
			return fmt.Sprintf("undeclared/unreadable part %s (member %q, listed-in-rels/manifest=%v, state %d) is presented; %s", d.Tok, d.Name, d.InManifest, d.State, desc())
		})
	}
}

// describe renders the logical package for failure messages.
func (p *pkg) describe() string {
	var b strings.Builder
	fmt.Fprintf(&b, "%s/%s", p.Fmt, p.Variant)
	if p.Flavour != "" {
		fmt.Fprintf(&b, "/markup:%s", p.Flavour)
	}
	b.WriteString(" declared=[")
	for _, d := range p.Declared {
		fmt.Fprintf(&b, "{%s ref=%q name=%q st=%d", d.Tok, d.Ref, d.Name, d.State)
		if p.Fmt == "xlsx" {
			fmt.Fprintf(&b, " sheetId=%d rid=%q", d.SheetID, d.ID)
		}
		if d.NotesRef != "" {
			fmt.Fprintf(&b, " notes=%s target=%q member=%q", d.NotesTok, d.NotesRef, d.NotesName)
		}
		if d.NoText != "" {
			fmt.Fprintf(&b, " text-less:%s", d.NoText)
		}
		b.WriteString("} ")
	}
	for _, d := range p.Decoys {
		if d.NotesRef != "" {
			fmt.Fprintf(&b, "{decoy %s name=%q notes=%s target=%q member=%q} ", d.Tok, d.Name, d.NotesTok, d.NotesRef, d.NotesName)
		}
	}
	for _, rd := range p.Renditions {
		fmt.Fprintf(&b, "{further-rootfile %q} ", rd)
	}
	for _, t := range p.Twins {
		fmt.Fprintf(&b, "{near-name %s/%s %q ~ %q} ", t.Kind, t.Role, t.Name, t.Of)
	}
	b.WriteString("] zip=[")
	for _, i := range p.ZipOrder {
		b.WriteString(p.Docs[i].name + " ")
	}
	b.WriteString("]")
	return b.String()
}

var exts = map[string]string{"xlsx": ".xlsx", "pptx": ".pptx", "epub": ".epub"}

func genCase(r *hx.Rng, idx int) *pkg {
	switch idx % 3 {
	case 0:
		return genXLSX(r)
	case 1:
		return genPPTX(r)
	}
	return genEPUB(r)
}

// RunCase generates package #idx of the seed's stream, runs tabula on it and
// evaluates correspondence and oracles.
func RunCase(c *hx.Ctx, idx int, keep bool) {
	r := c.Rng.Fork(uint64(idx))
	p := genCase(r, idx)
	path := filepath.Join(c.OutDir, fmt.Sprintf("c18-%d%s", idx, exts[p.Fmt]))
	if err := os.WriteFile(path, writers.Zip(p.members()), 0o644); err != nil {
		panic(err)
	}
	if !keep {
		defer os.Remove(path)
	}
	k := kase{Seed: c.Seed, Index: idx, Fmt: p.Fmt}
	if keep {
		k.File = path
	}
	line, o := observe(p, path)
	c.Check("C18/panic", o.panicked == "", k, func() string { return "panic: " + o.panicked })
	c.Op(p.opLine(), line)
	if p.Oracle && o.panicked == "" {
		oracles(c, p, k, o)
	}
	if p.Fmt == "epub" && o.opened && o.panicked == "" {
		// whatever the declaration (also where it is ambiguous): no archive member is two parts
		seen := map[string]int{}
		twice := ""
		for i, h := range o.hrefs {
			if j, ok := seen[h]; ok && twice == "" {
				twice = fmt.Sprintf("chapters %d and %d are both read from member %q", j, i, h)
			}
			seen[h] = i
		}
		c.Check("C18/epub-resource-presented-twice", twice == "", k, func() string { return twice + "; " + p.describe() })
	}
	// one opened reader, a generated sequence of calls (selections naming a subset or a
	// permutation of the parts, Text/Markdown/Document interleaved and repeated): the
	// statement after every call (seq.go), and the model once more on what the used
	// reader presents
	if o.opened && o.panicked == "" {
		if after := runSequence(c, p, k, path, idx); after != "" {
			c.Op(p.opLine(), after)
		}
	}
	// the reader API model (api.go): notes plumbing, one reader + a history of calls, front door
	if o.panicked == "" {
		apiOps(c, p, k, path, idx)
	}
	// distribution of what was generated
	c.Count(p.Fmt + "/" + p.Variant)
	if !p.Oracle {
		c.Count("correspondence-only")
	}
	for _, n := range p.Notes {
		c.Count("note:" + n)
	}
	E := p.expected()
	c.Count(fmt.Sprintf("%s/declared-readable=%d", p.Fmt, len(p.pages())))
	if p.Fmt != "epub" {
		fl := p.Flavour
		if fl == "" {
			fl = "transitional"
		}
		c.Count(p.Fmt + "/markup:" + fl)
	}
	if P := p.pages(); len(P) > len(E) {
		c.Count(fmt.Sprintf("epub/text-less-chapters=%d", len(P)-len(E)))
		for i, d := range P {
			if d.NoText == "" {
				continue
			}
			c.Count("epub/text-less-kind:" + d.NoText)
			switch {
			case i == len(P)-1:
				c.Count("epub/text-less-chapter-last")
			case i == 0:
				c.Count("epub/text-less-chapter-first")
			default:
				c.Count("epub/text-less-chapter-inside")
			}
		}
	}
	unreadable := 0
	for _, d := range p.Declared {
		if d.State != stOK && d.State != stRepeat {
			unreadable++
		}
	}
	if unreadable > 0 {
		c.Count(p.Fmt + "/has-unreadable-declared")
	}
	if len(p.Decoys) > 0 {
		c.Count(p.Fmt + "/has-decoys")
	}
	if p.Fmt != "epub" {
		for _, d := range E {
			if _, real := pctDecoded(d.Name); real {
				c.Count(p.Fmt + "/declared-part-name-percent-escaped")
			} else if hasPct(d.Name) {
				c.Count(p.Fmt + "/declared-part-name-percent-no-escape")
			}
			if hasPct(d.NotesName) && d.NotesTok != "" {
				c.Count("pptx/notes-part-name-with-percent-sign")
			}
		}
	}
	if len(p.Renditions) > 0 && p.Oracle {
		c.Count("epub/several-package-documents-with-oracle")
	}
	if len(E) > 1 {
		var names []string
		zipPos := map[string]int{}
		for k, i := range p.ZipOrder {
			zipPos[p.Docs[i].name] = k
		}
		zipAsc := true
		for i, d := range E {
			names = append(names, d.Name)
			if i > 0 && zipPos[d.Name] < zipPos[E[i-1].Name] {
				zipAsc = false
			}
		}
		if !isSortedStrings(names) {
			c.Count(p.Fmt + "/declared!=name-order")
		}
		if !zipAsc {
			c.Count(p.Fmt + "/declared!=zip-order")
		}
	}
	if p.Fmt == "xlsx" && len(E) > 1 {
		sidAsc, ridAsc := true, true
		for i := 1; i < len(E); i++ {
			if E[i].SheetID < E[i-1].SheetID {
				sidAsc = false
			}
			if E[i].ID < E[i-1].ID {
				ridAsc = false
			}
		}
		if !sidAsc {
			c.Count("xlsx/declared!=sheetId-order")
		}
		if !ridAsc {
			c.Count("xlsx/declared!=rId-order")
		}
	}
	if p.Fmt == "pptx" {
		unreadableBefore, drift, withNotes := false, false, 0
		for _, d := range p.Declared {
			switch {
			case d.State != stOK && d.State != stDangling:
				unreadableBefore = true
			case d.State == stOK && d.NotesTok != "":
				withNotes++
				if unreadableBefore {
					drift = true
				}
			}
		}
		if withNotes > 0 {
			c.Count("pptx/has-notes")
		}
		if withNotes > 1 {
			c.Count("pptx/several-slides-with-notes")
		}
		if drift {
			c.Count("pptx/notes-after-unreadable-declared")
		}
		for _, d := range E {
			if d.NotesTok != "" && (strings.HasPrefix(d.NotesRef, "/") || dirOf(d.Name) != "ppt/slides" || !strings.HasPrefix(d.NotesRef, "../")) {
				c.Count("pptx/notes-unconventional-location")
				break
			}
		}
	}
	if p.Fmt == "epub" {
		first := map[string]int{}
		for i, d := range p.Declared {
			if d.State != stRepeat {
				if d.Name != "" {
					first[d.Name] = i
				}
				continue
			}
			if i > 0 && p.Declared[i-1].State == stRepeat && p.Declared[i-1].ID == d.ID {
				continue // a further copy of the same repetition (flood)
			}
			way := strings.TrimSuffix(d.RepeatWay, "/added-item-first")
			c.Count("epub/spine-repeat-way:" + way)
			if way != d.RepeatWay {
				c.Count("epub/spine-repeat-added-item-first")
			}
			at := first[d.Name]
			switch st := p.Declared[at].State; {
			case st == stMissing:
				c.Count("epub/spine-repeat-of-missing-member")
			case st == stOK:
				c.Count("epub/spine-repeat-of-readable-part")
			}
			if i > 0 && p.Declared[i-1].Name == d.Name {
				c.Count("epub/spine-repeat-adjacent")
			} else {
				c.Count("epub/spine-repeat-apart")
			}
		}
		if n := len(p.repeatedResources()); n > 0 {
			c.Count(fmt.Sprintf("epub/repeated-resources=%d", n))
			if p.Oracle {
				c.Count("epub/repeated-resources-with-oracle")
			}
		}
		for _, d := range E {
			if strings.Contains(d.Ref, "+") {
				c.Count("epub/href-with-plus")
			}
			if strings.Contains(d.Ref, "%") {
				c.Count("epub/href-percent-encoded")
			}
			if hasDotSeg(d.Ref) {
				c.Count("epub/href-dot-segments")
			}
		}
	}
	c.Case(p.opLine(), o.opened && len(o.pages) > 0)
}

// ---- href resolution ----------------------------------------------------------

var hrefJunk = []string{"%", "%2", "%zz", "%41", "%2F", "%2f", "+", " ", "/", "//", ".", "..", "a", "é", "%C3%A9", "#x", "?q=1", "%00", "ch", ".xhtml", "%2B", "%25", "%2e"}

func hrefOps(c *hx.Ctx, from, n int) {
	for i := from; i < from+n; i++ {
		r := c.Rng.Fork(uint64(1_000_000 + i))
		base := dirOf(hx.Pick(r, opfPaths))
		if r.Chance(1, 8) {
			base = hx.Pick(r, []string{"a//b", "a/./b", "a/../b", "..", "a/", "/abs", "x/y/../../.."})
		}
		k := kase{Seed: c.Seed, Index: i, Fmt: "href"}
		if r.Chance(2, 3) {
			// structured: the reference is built from the member it must denote
			clean := !strings.ContainsAny(base, ".") && !strings.Contains(base, "//") && !strings.HasSuffix(base, "/") && !strings.HasPrefix(base, "/")
			if !clean {
				base = dirOf(hx.Pick(r, opfPaths))
			}
			name := joinName(strings.Trim(hx.Pick(r, []string{base, joinName(base, "text"), dirOf(base), "", "other/dir", joinName(base, "深い/階層")}), "/"),
				fmt.Sprintf(hx.Pick(r, chapterNames), r.Range(1, 99)))
			segs, _ := relRef(r, base, name)
			ref := encodeRef(r, segs, r.Intn(4))
			got := epubdoc.VerifResolveHref(base, ref)
			key := "C18/href-relative-resolution"
			if strings.ContainsAny(ref, "%+") {
				key = "C18/href-percent-decoding"
			}
			c.Check(key, got == name, map[string]interface{}{"seed": c.Seed, "index": i, "fmt": "href", "base": base, "href": ref}, func() string {
				return fmt.Sprintf("resolveHref(base %q, href %q) = %q, the reference denotes member %q", base, ref, got, name)
			})
			c.Op("c18.href "+hx.HexS(base)+" "+hx.HexS(ref), hx.HexS(got))
			c.Count("href/structured")
			c.Case("href "+base+" "+ref, true)
			continue
		}
		var sb strings.Builder
		for j, m := 0, r.Range(0, 5); j < m; j++ {
			sb.WriteString(hx.Pick(r, hrefJunk))
		}
		ref := sb.String()
		got := ""
		pn := hx.Safe(func() { got = epubdoc.VerifResolveHref(base, ref) })
		c.Check("C18/panic", pn == "", k, func() string { return "resolveHref panic: " + pn })
		c.Op("c18.href "+hx.HexS(base)+" "+hx.HexS(ref), hx.HexS(got))
		c.Count("href/junk")
		c.Case("href "+base+" "+ref, false)
	}
}

func Run(c *hx.Ctx) {
	c.Rep.Rule = "packages: XLSX / PPTX / EPUB 2+3 written by the harness's own writers from a logical package = declared list (1-6 parts, each with a unique text token; states ok/missing/malformed/dangling/wrong-kind), decoy parts (unreferenced; some listed in rels/manifest but not declared), XLSX/PPTX markup in namespace flavours from their own stream (flavour.go; 45% transitional, 20% ISO/IEC 29500 Strict = purl.oclc.org namespaces for main/drawing/relationships and every relationship Type with conformance=\"strict\", the rest the relationships namespace under another prefix, declared on each referencing element instead of the root, the main namespace prefixed (xlsx) or default (pptx), alone or combined with Strict): same declaration, same expectations, XLSX sheetId values a random permutation (non-ascending, sparse) unrelated to position and to r:id, PPTX speaker-notes parts with their own unique token behind the slide's own relationship part (for readable, unreadable and decoy slides; conventional/renamed/absolute targets, numbered independently of the slides), part paths nested/renamed/absolute/with dot segments, file numbers a random permutation of the declared order, ZIP member order another random permutation, optional parts (rels, sharedStrings, docProps, mimetype, NCX, nav) randomly absent; hrefs percent-encoded in 4 styles incl. space, unicode, '+', '%', '#'; near-name members in a quarter of the packages (1-2 members whose name differs from a declared part's only in the letter case of one path segment, in NFC/NFD form, or that is the EPUB href without percent-decoding; as a second declared part, an unreferenced left-over or a listed left-over, on either side in ZIP order, also beside a missing declared member). call sequences: on one opened reader of every package that opens, 2-6 generated calls (xlsx ExtractOptions.Sheets / pptx ExtractOptions.SlideNumbers selections through TextWithOptions, MarkdownWithOptions, MarkdownWithRAGOptions: a single part that is not the first, suffix, ascending non-prefix subset, reversed list, permutation, subset in any order, prefix, and lenient selections with out-of-range or repeated indices; epub TextWithOptions/MarkdownWithOptions with the 4 navigation modes; Text, Markdown, Document, part accessors, Tables/SheetByName/Metadata interleaved, repeated), the statement evaluated on every accessor after every call and against a fresh reader, and the model compared once more with the used reader. reader API model (api.go): per PPTX package op c18.pptxn (which notes part each presented slide carries; slide relationship parts are in the parse table with their Types, notes parts as a kind of their own; one package in five has an irregular notes plumbing: notes part or slide relationship part not well-formed, notesSlide relationship naming a slide, root-relative target without '/', two notesSlide relationships, ISO-strict relationship type, targets with dot segments / doubled or trailing slashes / percent signs, with a notes part put where they lead or under the literal name; fallback decks carry candidate names that are not plain slideN.xml, some with notes), and per package op c18.api: ONE opened reader, a history of 3-7 calls (count, names, Sheet/Slide(i) with i from -1 to n, SheetByName, TextWithOptions / MarkdownWithOptions / MarkdownWithRAGOptions with the selection classes above or none and random flags and delimiters, Document, Chapters, epub navigation modes -1..9) interleaved with up to two front-door calls tabula.Open(f).PageCount() / .Pages(..).ExcludeHeaders().ExcludeFooters().Text() / .Document(); replies compared byte for byte (texts) or as sequences of part ids found through the unique tokens (markdown, pages); what each part's bytes parse to is passed to the model keyed by content id (sheet grids and slide bodies from the reader, notes text, chapter text/markdown/page count from htmldoc run on the member bytes the harness wrote); slides carry bulleted, numbered and indented paragraphs and footer / slide-number / date / header placeholders chosen by a hash of the token; one package in sixteen carries members the front door's content sniffing looks at (a mimetype member naming this, another or no known format, META-INF/container.xml or another OOXML main part beside the package's own: refused by tabula.Open where the content names another format, no oracle verdict there, the model's admission step must agree); one EPUB in four has 1-2 text-less chapters in the spine (textless.go: empty body, white space, an image only, an SVG cover, a comment only, empty blocks; first, inside or last; no token): declared readable parts, i.e. pages of their own — counted, held by the reader at their position, a Document page there that shows no part's text, every later chapter on its own page (p.pages()/p.slots()); three EPUBs in ten have 1-3 spine entries that list an already listed resource again (repeats.go: the same idref again, a second manifest item with the same href, a second manifest item whose href is spelled differently — a needlessly percent-encoded character, a './' segment, an 'x/../' detour — and resolves to the same member; right behind the first listing or further down; either of the two items first; also of a resource whose member is missing; one in twelve of those lists the resource 40-300 times): such a resource is one part at its first position in the logical package, which is what all oracles expect; one EPUB in four lists 1-2 FURTHER package documents in container.xml after the default rendition (renditions.go: OPF media type or none; a package document with content documents of its own, one that lists the default rendition's content documents again in another order or only some of them, both, or a left-over entry whose package document is absent; in its own directory, beside the default package document, under the same file name elsewhere, sorting before or after it by name, anywhere in ZIP order): the first listed package document is the declaration, the others declare nothing (their own chapters are decoys; C18/epub-default-rendition compares the members the chapters are read from with the default rendition's spine); one declared XLSX sheet / PPTX slide in seven and one PPTX notes part in six has a part name with percent signs (pctnames.go: %20, %25, UTF-8, %2B, over-encoded letters so that the decoded name is a conventional sheetN/slideN.xml, doubly encoded %2520, %2F, lower-case hex, escaped directories, and percent signs that are no escape), the ZIP member carrying that name byte for byte as OPC maps part names to ZIP items, relative or package-absolute target; for half of those with real escapes a second member under the percent-DECODED name (near-name kind pct-decoded: unreferenced left-over, listed left-over, or a declared part of its own whose target spells the decoded name literally), also beside a missing declared member. attribute-level binding (bind.go, op c18.bind): small XLSX / PPTX packages whose declaring elements (<sheet>, <sldId>, <Relationship>) reach the model as attribute lists (namespace URI, local name, value) in document order — r:id under the Transitional or Strict relationships namespace, any prefix, declared on the root or the element, and a malformed stream (foreign or no namespace, both namespaces, the same expanded name twice, empty values, a prefix named id, foreign Id/Target/name attributes, duplicate relationship Ids, relationships without Id, missing / malformed parts, no relationship part, no sldIdLst, a member under the default sheet name). foreign id attributes (foreignid.go, oracle only): regular workbooks of either conformance class (1-5 sheets, every part present, shuffled relationships, left-over members under the default names sheet<i>.xml in two of three) in which at least one <sheet> carries beside r:id an attribute of local name id that is not the relationship id — a foreign o:id / x14:id (value: another sheet's relationship id, its own, an unknown one, no id at all) or the declaration xmlns:id of a prefix called id, before or after r:id, alone or together; expectation = the declared list. href ops: structured (reference built from the member it denotes) and junk strings. non-trivial = the package opened with at least one part; distinct by op line"
	n := c.N(660, 9900)          // (600, 9000) before the correspondence-only variants of api.go took a share of the packages
	only := os.Getenv("C18_FMT") // debugging aid: restrict the stream to one format
	for i := 0; i < n; i++ {
		if only != "" && only != []string{"xlsx", "pptx", "epub"}[i%3] {
			continue
		}
		RunCase(c, i, false)
	}
	if only == "" || only == "href" {
		hrefOps(c, 0, c.N(1500, 20000))
	}
	if only == "" || only == "bind" {
		bindOps(c, 0, c.N(400, 6000))
	}
	if only == "" || only == "fid" {
		foreignIDCases(c, 0, c.N(150, 2500))
	}
}

// Replay re-runs one recorded failing case on the implementation.
func Replay(c *hx.Ctx, k map[string]interface{}) {
	idx, _ := k["index"].(float64)
	if f, _ := k["fmt"].(string); f == "href" {
		hrefOps(c, int(idx), 1)
		return
	}
	if f, _ := k["fmt"].(string); f == "bind" {
		bindOps(c, int(idx), 1)
		return
	}
	if f, _ := k["fmt"].(string); f == "fid" {
		foreignIDCases(c, int(idx), 1)
		return
	}
	RunCase(c, int(idx), true)
}
