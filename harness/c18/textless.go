package c18

import (
	"fmt"
	"strings"

	"verifharness/hx"
)

// Text-less chapters (EPUB).
//
// A spine item is a part of the publication whether or not it holds any text: books open
// with a cover page that holds one image, carry plates, and separate their parts with
// blank pages. C18 counts "declared, readable parts" and gives each "its own page"; a
// content document without text is declared and readable, so it is a page — an empty one —
// and every later chapter stays at its own position (page i = spine item i). A reader that
// leaves such a chapter out of the count, of the page list, or of one of the two but not
// the other, moves the text of every later chapter to a page that is not its own.
//
// In the logical package a text-less chapter is a declared entry of state stOK with
// Tok == "" and NoText = the kind; expected() (the text-bearing parts) skips it, pages()
// keeps it, slots() gives every text-bearing part its page index. One or two of them are
// put anywhere in the spine (first, inside, last; next to each other as well).

var textlessKinds = []string{"empty-body", "white-space", "image-only", "svg-cover", "comment-only", "empty-blocks"}

var textlessNames = []string{"cover.xhtml", "blank.xhtml", "plate-%d.xhtml", "sep %d.xhtml", "titlepage.xhtml", "p000%d.html"}

// textlessXHTML writes a content document of the given kind; serial makes the bytes of two
// such documents of one package differ (parts are identified by their bytes).
func textlessXHTML(kind string, serial int, imgRef string) string {
	head := `<?xml version="1.0" encoding="UTF-8"?>` + "\n" + `<html xmlns="http://www.w3.org/1999/xhtml"><head><title>` + fmt.Sprintf("Page %d", serial) + `</title><meta charset="utf-8"/></head>`
	body := ""
	switch kind {
	case "empty-body":
		body = `<body></body>`
	case "white-space":
		body = "<body>\n  \t\n \n</body>"
	case "image-only":
		body = `<body><div class="cover"><img src="` + imgRef + `" alt=""/></div></body>`
	case "svg-cover":
		body = `<body><div><svg xmlns="http://www.w3.org/2000/svg" xmlns:xlink="http://www.w3.org/1999/xlink" version="1.1" viewBox="0 0 600 800" width="100%" height="100%"><image width="600" height="800" xlink:href="` + imgRef + `"/></svg></div></body>`
	case "comment-only":
		body = `<body><!-- this page is intentionally left blank --></body>`
	default: // empty-blocks
		body = `<body><div class="blank"><p></p><p> </p></div><p class="sep"><br/></p></body>`
	}
	return head + body + `</html>`
}

// addEPUBTextless puts one or two text-less chapters into the spine (own stream; called
// while spine and p.Declared are parallel, after the navigation documents). place names a
// directory for the new member.
func (p *pkg) addEPUBTextless(r *hx.Rng, used map[string]bool, manifest *[]manItem, spine *[]string) {
	if !r.Chance(1, 4) {
		return
	}
	n := 1
	if r.Chance(1, 4) {
		n = 2
	}
	imgListed := false
	for j := 0; j < n; j++ {
		kind := hx.Pick(r, textlessKinds)
		dir := p.Base
		if r.Chance(1, 3) {
			dir = strings.Trim(joinName(p.Base, hx.Pick(r, []string{"text", "front matter", "xhtml"})), "/")
		}
		name := hx.Pick(r, textlessNames)
		if strings.Contains(name, "%d") {
			name = fmt.Sprintf(name, j+1)
		}
		name = joinName(dir, name)
		if used[name] {
			continue
		}
		used[name] = true
		segs, _ := relRef(r, p.Base, name)
		d := part{ID: fmt.Sprintf("%s%d", hx.Pick(r, []string{"cover", "blank", "front", "x"}), j), Title: "", Name: name, State: stOK, NoText: kind}
		d.Ref = encodeRef(r, segs, r.Intn(4))
		*manifest = append(*manifest, manItem{d.ID, d.Ref, "application/xhtml+xml", ""})
		if (kind == "image-only" || kind == "svg-cover") && !imgListed {
			imgListed = true
			*manifest = append(*manifest, manItem{"cover-image", "images/cover.png", "image/png", ""})
		}
		// anywhere; one time in three right in front of a text-bearing chapter, so that a
		// later chapter exists whose page would move
		at := r.Intn(len(*spine) + 1)
		if len(*spine) > 0 && r.Chance(1, 3) {
			at = r.Intn(len(*spine))
		}
		*spine = append((*spine)[:at], append([]string{d.ID}, (*spine)[at:]...)...)
		p.Declared = append(p.Declared[:at], append([]part{d}, p.Declared[at:]...)...)
		p.Notes = append(p.Notes, "text-less-chapter:"+kind)
	}
}

// imgRefFrom is the reference from member name to the cover image of the package.
func (p *pkg) imgRefFrom(name string) string {
	return relTarget(dirOf(name), joinName(p.Base, "images/cover.png"))
}

// textlessMembers lists the member names of the text-less chapters in spine order.
func (p *pkg) textlessMembers() []string {
	var out []string
	for _, d := range p.Declared {
		if d.State == stOK && d.NoText != "" {
			out = append(out, d.Name)
		}
	}
	return out
}

// textlessOracle: a declared readable chapter without text is a page of its own. The format
// reader holds it at its position (the bytes of its member), the Document has a page at
// that position, and that page shows the text of NO part (a token there is the text of some
// other chapter on a page that is not its own).
func textlessOracle(c *hx.Ctx, p *pkg, k kase, o *observation) {
	const key = "C18/epub-textless-chapter-own-page"
	for j, d := range p.pages() {
		if d.NoText == "" {
			continue
		}
		var data string
		for _, m := range p.Docs {
			if m.name == d.Name {
				data = string(m.data)
			}
		}
		if o.opened {
			held := j < len(o.pages) && o.pages[j] == data
			c.Check(key, held, k, func() string {
				got := "<no such chapter>"
				if j < len(o.hrefs) {
					got = o.hrefs[j]
				}
				return fmt.Sprintf("chapter %d of the reader (read from %q; %d chapters) is not the declared readable text-less part %d (%s, ref %q -> member %q); %s", j, got, len(o.pages), j, d.NoText, d.Ref, d.Name, p.describe())
			})
		}
		if o.tOpened && o.tErr == "" {
			good := j < len(o.docPages) && !tokRe.MatchString(o.docPages[j])
			c.Check(key, good, k, func() string {
				got := "<no such page>"
				if j < len(o.docPages) {
					got = clip(o.docPages[j])
				}
				return fmt.Sprintf("spine item %d is a readable content document without text (%s, member %q): it is a page of its own, so Document().Pages[%d] must exist and show no other part's text; Document() has %d page(s), PageCount()=%d, Pages[%d] = %q; %s", j, d.NoText, d.Name, j, len(o.docPages), o.tCount, j, got, p.describe())
			})
		}
	}
	// the same through the page numbers: what PageCount() reports is what Document() holds
	if o.tOpened && o.tErr == "" && len(p.textlessMembers()) > 0 {
		c.Check("C18/page-count-epub", o.tCount == len(o.docPages), k, func() string {
			return fmt.Sprintf("PageCount()=%d but Document() holds %d page(s); %s", o.tCount, len(o.docPages), p.describe())
		})
	}
}
