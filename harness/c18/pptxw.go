package c18

import (
	"fmt"
	"path"
	"strings"

	"verifharness/hx"
	"verifharness/writers"
)

// PPTX package writer (ECMA-376 part 1 §19.2.1.34 sldIdLst: "the order of the
// slide IDs is the order of the slides"; each sldId names, through r:id, a
// relationship of ppt/_rels/presentation.xml.rels whose Target is the slide part,
// resolved against /ppt/ per OPC part 2 §8.3).

const (
	nsP = "http://schemas.openxmlformats.org/presentationml/2006/main"
	nsA = "http://schemas.openxmlformats.org/drawingml/2006/main"
)

func slideXMLBody(tok string, title string, withTable bool) string {
	var b strings.Builder
	b.WriteString(xmlHdr + `<p:sld xmlns:a="` + nsA + `" xmlns:r="` + nsRel + `" xmlns:p="` + nsP + `"><p:cSld><p:spTree><p:nvGrpSpPr><p:cNvPr id="1" name=""/><p:cNvGrpSpPr/><p:nvPr/></p:nvGrpSpPr><p:grpSpPr/>`)
	if title != "" {
		b.WriteString(`<p:sp><p:nvSpPr><p:cNvPr id="2" name="Title 1"/><p:cNvSpPr/><p:nvPr><p:ph type="title"/></p:nvPr></p:nvSpPr><p:spPr/><p:txBody><a:bodyPr/><a:p><a:r><a:t>` + writers.XMLEsc(title) + `</a:t></a:r></a:p></p:txBody></p:sp>`)
	}
	// (the shape of the rest of the slide is derived from the token, so that it does not
	// draw from the generator's stream: bulleted / numbered / indented paragraphs, and
	// footer, slide-number, date and header placeholders)
	h := 0
	for _, c := range []byte(tok) {
		h = h*31 + int(c)
	}
	if h < 0 {
		h = -h
	}
	extra := ""
	switch h % 4 {
	case 1:
		extra = `<a:p><a:pPr lvl="1"><a:buChar char="-"/></a:pPr><a:r><a:t>sub point</a:t></a:r></a:p><a:p><a:pPr lvl="2"/><a:r><a:t>deeper</a:t></a:r></a:p>`
	case 2:
		extra = `<a:p><a:pPr><a:buAutoNum type="arabicPeriod"/></a:pPr><a:r><a:t>first step</a:t></a:r></a:p><a:p><a:pPr lvl="1"><a:buNone/></a:pPr><a:r><a:t>plain indented</a:t></a:r></a:p>`
	}
	b.WriteString(`<p:sp><p:nvSpPr><p:cNvPr id="3" name="Content 2"/><p:cNvSpPr/><p:nvPr><p:ph type="body" idx="1"/></p:nvPr></p:nvSpPr><p:spPr/><p:txBody><a:bodyPr/><a:p><a:r><a:t>point ` + tok + ` made</a:t></a:r></a:p><a:p><a:r><a:t>second line</a:t></a:r></a:p>` + extra + `</p:txBody></p:sp>`)
	if k := (h / 4) % 6; k < 4 {
		ph := []string{"ftr", "sldNum", "dt", "hdr"}[k]
		b.WriteString(`<p:sp><p:nvSpPr><p:cNvPr id="9" name="Placeholder 9"/><p:cNvSpPr/><p:nvPr><p:ph type="` + ph + `" idx="10"/></p:nvPr></p:nvSpPr><p:spPr/><p:txBody><a:bodyPr/><a:p><a:r><a:t>margin ` + ph + `</a:t></a:r></a:p></p:txBody></p:sp>`)
	}
	if withTable {
		b.WriteString(`<p:graphicFrame><p:nvGraphicFramePr><p:cNvPr id="4" name="Table 3"/><p:cNvGraphicFramePr/><p:nvPr/></p:nvGraphicFramePr><p:xfrm/><a:graphic><a:graphicData uri="http://schemas.openxmlformats.org/drawingml/2006/table"><a:tbl><a:tblGrid><a:gridCol w="100"/><a:gridCol w="100"/></a:tblGrid><a:tr h="10"><a:tc><a:txBody><a:bodyPr/><a:p><a:r><a:t>k</a:t></a:r></a:p></a:txBody></a:tc><a:tc><a:txBody><a:bodyPr/><a:p><a:r><a:t>v</a:t></a:r></a:p></a:txBody></a:tc></a:tr></a:tbl></a:graphicData></a:graphic></p:graphicFrame>`)
	}
	b.WriteString(`</p:spTree></p:cSld></p:sld>`)
	return b.String()
}

// notesXMLBody is a notes slide (ECMA-376 part 1 §19.3.1.26 p:notes): the slide
// image placeholder, the body placeholder carrying the speaker's text, and a
// slide-number field.
func notesXMLBody(tok string) string {
	return xmlHdr + `<p:notes xmlns:a="` + nsA + `" xmlns:r="` + nsRel + `" xmlns:p="` + nsP + `"><p:cSld><p:spTree><p:nvGrpSpPr><p:cNvPr id="1" name=""/><p:cNvGrpSpPr/><p:nvPr/></p:nvGrpSpPr><p:grpSpPr/>` +
		`<p:sp><p:nvSpPr><p:cNvPr id="2" name="Slide Image Placeholder 1"/><p:cNvSpPr/><p:nvPr><p:ph type="sldImg"/></p:nvPr></p:nvSpPr><p:spPr/></p:sp>` +
		`<p:sp><p:nvSpPr><p:cNvPr id="3" name="Notes Placeholder 2"/><p:cNvSpPr/><p:nvPr><p:ph type="body" idx="1"/></p:nvPr></p:nvSpPr><p:spPr/><p:txBody><a:bodyPr/><a:p><a:r><a:t>remember ` + tok + ` here</a:t></a:r></a:p></p:txBody></p:sp>` +
		`</p:spTree></p:cSld></p:notes>`
}

// relTarget is the shortest relative reference from a part in directory baseDir
// to the part name (OPC part 2 §8.3: relative targets resolve against the source part).
func relTarget(baseDir, name string) string {
	b, n := splitSegs(baseDir), splitSegs(name)
	k := 0
	for k < len(b) && k < len(n)-1 && b[k] == n[k] {
		k++
	}
	var segs []string
	for i := k; i < len(b); i++ {
		segs = append(segs, "..")
	}
	return strings.Join(append(segs, n[k:]...), "/")
}

// partRelsName is the relationship part of a part (OPC part 2 §8.3.4:
// <dir>/_rels/<file name>.rels).
func partRelsName(name string) string {
	dir, base := dirOf(name), name
	if i := strings.LastIndexByte(name, '/'); i >= 0 {
		base = name[i+1:]
	}
	return joinName(joinName(dir, "_rels"), base+".rels")
}

// addNotes gives the slide part d speaker notes: a notes part with its own token, in a
// conventional or renamed location, numbered independently of the slide.
func addNotes(r *hx.Rng, d *part, tokIdx, num int, used map[string]bool) {
	var name string
	switch c := r.Intn(10); {
	case c < 6:
		name = fmt.Sprintf("ppt/notesSlides/notesSlide%d.xml", num)
	case c < 8:
		name = fmt.Sprintf("ppt/notes/%s%d.xml", hx.Pick(r, []string{"n-", "speaker", "a"}), num)
	case c < 9:
		name = joinName(dirOf(d.Name), fmt.Sprintf("notes-%d.xml", num))
	default:
		name = fmt.Sprintf("custom/notes/n%d.xml", num)
	}
	if used[name] {
		return
	}
	used[name] = true
	d.NotesTok, d.NotesName = token(r, tokIdx), name
	d.NotesRef = relTarget(dirOf(d.Name), name)
	if r.Chance(1, 7) {
		d.NotesRef = "/" + name
	}
}

// slideRelsXML is the slide's relationship part: its layout and, when it has notes,
// the notesSlide relationship, in either order and with unrelated ids.
func slideRelsList(r *hx.Rng, d part) [][3]string {
	rels := [][3]string{{fmt.Sprintf("rId%d", r.Range(1, 3)), nsRel + "/slideLayout", relTarget(dirOf(d.Name), "ppt/slideLayouts/slideLayout1.xml")}}
	if d.NotesRef != "" {
		rels = append(rels, [3]string{fmt.Sprintf("rId%d", r.Range(4, 9)), nsRel + "/notesSlide", d.NotesRef})
	}
	if r.Chance(1, 3) {
		rels = append(rels, [3]string{"rId10", nsRel + "/image", relTarget(dirOf(d.Name), "ppt/media/image1.png")})
	}
	hx.Shuffle(r, rels)
	return rels
}

// tripleSpec renders relationships with their Type for the op line (Id.Type.Target).
func tripleSpec(tag string, rels [][3]string) string {
	var b strings.Builder
	b.WriteString(tag)
	for _, q := range rels {
		b.WriteString("," + hx.HexS(q[0]) + "." + hx.HexS(q[1]) + "." + hx.HexS(q[2]))
	}
	return b.String()
}

// addSlideRels writes the relationship part of slide d and remembers its entries.
func (p *pkg) addSlideRels(r *hx.Rng, d part) {
	rels := slideRelsList(r, d)
	if p.slideRels == nil {
		p.slideRels = map[string][][3]string{}
	}
	p.slideRels[d.Name] = rels
	p.add(partRelsName(d.Name), relsXML(rels), tripleSpec("T", rels))
}

// setDoc replaces the content of an already written member.
func (p *pkg) setDoc(name, data, spec string) {
	for i := range p.Docs {
		if p.Docs[i].name == name {
			p.Docs[i].data, p.Docs[i].spec = []byte(data), spec
		}
	}
}

const nsRelStrict = "http://purl.oclc.org/ooxml/officeDocument/relationships"

// mutateNotes turns the notes plumbing of one slide into one of the irregular shapes a
// reader meets (its own stream, one package in five): the notes part or the slide's
// relationship part is not well-formed, the notesSlide relationship names a part of
// another kind, the target is spelled relative to the package root without the leading
// "/" (tolerated by readers, not a declared path: no oracle verdict), there are two
// notesSlide relationships (ambiguous: no verdict), or the relationship type uses the
// ISO-strict namespace. Expectations follow from the logical package: notes that cannot
// be reached or read belong to no page.
func (p *pkg) mutateNotes(r *hx.Rng) {
	if !r.Chance(1, 5) {
		return
	}
	var cand []*part
	for _, ds := range [][]part{p.Declared, p.Decoys} {
		for i := range ds {
			d := &ds[i]
			if d.NotesTok != "" && d.Name != "" && p.has(d.NotesName) && p.slideRels[d.Name] != nil {
				cand = append(cand, d)
			}
		}
	}
	if len(cand) == 0 {
		return
	}
	d := cand[r.Intn(len(cand))]
	rels := append([][3]string(nil), p.slideRels[d.Name]...)
	rewrite := func() {
		p.slideRels[d.Name] = rels
		p.setDoc(partRelsName(d.Name), relsXML(rels), tripleSpec("T", rels))
	}
	at := -1
	for i, q := range rels {
		if strings.HasSuffix(q[1], "/notesSlide") {
			at = i
		}
	}
	if at < 0 {
		return
	}
	switch r.Intn(8) {
	case 6, 7:
		// a target that is not the shortest relative reference: dot segments, doubled
		// slashes, root-relative spellings, a trailing slash ... The declaration is
		// irregular: no oracle verdict; a notes part is put where path.Join leads
		// (sometimes), and for "ppt/..." spellings under the literal name (sometimes).
		junk := hx.Pick(r, []string{"..", "/", "//x.xml", "./a/../n.xml", "ppt/", "ppt/x.xml", "%6e.xml", "a//b.xml", "../../../n.xml",
			"/../n.xml", "n.xml/", ".", "/ppt/notesSlides/../notesSlides/n.xml", "ppt/notesSlides/n.xml", "../notesSlides/./n.xml", "ppt/../ppt/n.xml"})
		rels[at][2] = junk
		rewrite()
		dest := path.Join(dirOf(d.Name), junk)
		if strings.HasPrefix(junk, "/") {
			dest = path.Clean(junk)[1:]
		}
		place := func(name string) {
			if name == "" || name == "." || strings.HasPrefix(name, "..") || strings.HasSuffix(name, "/") || p.has(name) {
				return
			}
			p.add(name, notesXMLBody(token(r, 97+len(p.Docs)%2)), "N")
		}
		if r.Chance(2, 3) {
			place(dest)
		}
		if strings.HasPrefix(junk, "ppt/") && r.Bool() {
			place(junk)
		}
		p.Oracle = false
		p.Notes = append(p.Notes, "notes-target-irregular")
	case 0:
		p.setDoc(d.NotesName, xmlHdr+`<p:notes xmlns:a="`+nsA+`" xmlns:p="`+nsP+`"><p:cSld><p:spTree><p:sp><p:txBody><a:p><a:r><a:t>lost `+d.NotesTok, "B")
		d.NotesTok = ""
		p.Notes = append(p.Notes, "notes-part-malformed")
	case 1:
		p.setDoc(partRelsName(d.Name), `<Relationships xmlns="`+nsPkgR+`"><Relationship Id="rId1" Type="`+nsRel+`/notesSlide" Target="`+writers.XMLEsc(d.NotesRef)+`"`, "B")
		d.NotesTok = ""
		p.Notes = append(p.Notes, "slide-rels-malformed")
	case 2:
		var other string
		for _, e := range p.Declared {
			if e.Name != "" && e.Name != d.Name && p.has(e.Name) {
				other = e.Name
			}
		}
		if other == "" {
			other = "ppt/presentation.xml"
		}
		rels[at][2] = relTarget(dirOf(d.Name), other)
		rewrite()
		d.NotesTok = ""
		p.Notes = append(p.Notes, "notes-rel-wrong-kind")
	case 3:
		if !strings.HasPrefix(d.NotesName, "ppt/") {
			return
		}
		rels[at][2] = d.NotesName
		rewrite()
		p.Oracle = false
		p.Notes = append(p.Notes, "notes-target-root-relative-no-slash")
	case 4:
		extra := [3]string{"rId77", nsRel + "/notesSlide", hx.Pick(r, []string{"../notesSlides/none.xml", "/ppt/presentation.xml", d.NotesRef + ".bak", ""})}
		for _, e := range cand {
			if e != d && r.Bool() {
				extra[2] = relTarget(dirOf(d.Name), e.NotesName)
			}
		}
		k := r.Intn(len(rels) + 1)
		rels = append(rels[:k], append([][3]string{extra}, rels[k:]...)...)
		rewrite()
		p.Oracle = false
		p.Notes = append(p.Notes, "two-notes-rels")
	default:
		rels[at][1] = nsRelStrict + "/notesSlide"
		rewrite()
		p.Notes = append(p.Notes, "notes-rel-strict-namespace")
	}
}

func genPPTX(r *hx.Rng) *pkg {
	p := &pkg{Fmt: "pptx", Variant: "sldIdLst", Oracle: true}
	n := r.Range(1, 6)
	noRels := r.Chance(1, 14)
	noList := !noRels && r.Chance(1, 16)
	if noRels {
		p.Variant, p.Oracle = "no-rels", false
	}
	if noList {
		p.Variant, p.Oracle = "no-sldIdLst", false
	}
	nums := perm(r, n+3)
	ids := perm(r, n+6)
	nnums := perm(r, n+8) // notes parts are numbered independently of slides and positions
	const tSlide = nsRel + "/slide"
	pn := r.Fork(0x9c7e) // part names with percent signs (pctnames.go), own stream
	var rels [][3]string
	used := map[string]bool{}
	for k := 0; k < n; k++ {
		d := part{Tok: token(r, k), ID: fmt.Sprintf("rId%d", ids[k]+2), Title: fmt.Sprintf("Heading %c", 'A'+byte(r.Intn(4)))}
		if r.Chance(1, 8) {
			d.ID = fmt.Sprintf("R%x", ids[k]+10)
		}
		num := nums[k] + 1
		c := r.Intn(12)
		if noRels || noList {
			c = 0
		}
		switch {
		case c < 5:
			d.Name = fmt.Sprintf("ppt/slides/slide%d.xml", num)
			d.Ref = fmt.Sprintf("slides/slide%d.xml", num)
		case c < 6:
			d.Name = fmt.Sprintf("ppt/slides/slide%d.xml", num)
			d.Ref = "/" + d.Name
		case c < 7:
			d.Name = fmt.Sprintf("ppt/slides/%s%d.xml", hx.Pick(r, []string{"intro", "agenda", "s-final", "Slide"}), num)
			d.Ref = strings.TrimPrefix(d.Name, "ppt/")
		case c < 8:
			d.Name = fmt.Sprintf("ppt/slides/part%d/slide%d.xml", r.Range(1, 2), num)
			d.Ref = strings.TrimPrefix(d.Name, "ppt/")
		case c < 9:
			d.Name = fmt.Sprintf("ppt/slides/slides%d/a.xml", num)
			d.Ref = strings.TrimPrefix(d.Name, "ppt/")
		case c < 10:
			d.Name = fmt.Sprintf("ppt/deck/%s%d.xml", hx.Pick(r, []string{"z", "a", "m"}), num)
			d.Ref = strings.TrimPrefix(d.Name, "ppt/")
		case c < 11:
			d.Name = fmt.Sprintf("pres/s%d.xml", num)
			d.Ref = "../" + d.Name
		default:
			d.Name = fmt.Sprintf("custom/slides/c%d.xml", num)
			d.Ref = "/" + d.Name
		}
		if !noRels && !noList && pn.Chance(1, 7) {
			// the ZIP item name is the part name as the target spells it, percent signs included
			rel := pctRel(pn, "slides", num)
			d.Name, d.Ref = "ppt/"+rel, rel
			if pn.Chance(1, 5) {
				d.Ref = "/" + d.Name
			}
		}
		if used[d.Name] {
			continue
		}
		used[d.Name] = true
		switch c := r.Intn(40); {
		case c < 4:
			d.State = stMissing
		case c < 7:
			d.State = stMalformed
		case c < 9 && p.Oracle:
			d.State = stDangling
		case c < 10 && p.Oracle:
			d.State = stWrongKind
			d.Ref, d.Name = hx.Pick(r, []string{"presentation.xml", "presProps.xml"}), ""
		}
		if d.State != stDangling && !noRels {
			rels = append(rels, [3]string{d.ID, tSlide, d.Ref})
		}
		// speaker notes: for readable slides, and left behind for slide parts that are
		// missing / malformed / no longer reachable (their notes belong to no page)
		if d.Name != "" && r.Chance(3, 5) {
			addNotes(r, &d, 20+k, nnums[k]+1, used)
			if d.NotesTok != "" && pn.Chance(1, 6) { // a notes part whose name carries percent signs
				name := "ppt/notesSlides/" + fmt.Sprintf(hx.Pick(pn, pctFileNames), nnums[k]+1)
				if !used[name] {
					used[name] = true
					d.NotesName, d.NotesRef = name, relTarget(dirOf(d.Name), name)
					if pn.Chance(1, 7) {
						d.NotesRef = "/" + name
					}
				}
			}
		}
		p.Declared = append(p.Declared, d)
	}
	rels = append(rels, [3]string{"rId1", nsRel + "/slideMaster", "slideMasters/slideMaster1.xml"}, [3]string{"rIdPP", nsRel + "/presProps", "presProps.xml"})
	for k, nd := 0, r.Intn(4); k < nd; k++ {
		d := part{Tok: token(r, 50+k), Title: "Left over"}
		switch r.Intn(5) {
		case 4: // odd numbers for the file-name fallback's %d scan
			d.Name = fmt.Sprintf("ppt/slides/slide%s.xml", hx.Pick(r, []string{"-1", "+3", "", "_1", "1_0", "2a", " 4", "99999999999999999999", "-0"}))
		case 0:
			d.Name = fmt.Sprintf("ppt/slides/slide%d.xml", r.Range(0, n+4))
		case 1:
			d.Name = fmt.Sprintf("ppt/slides/slide%d.xml", n+4+k)
		case 2:
			d.Name = fmt.Sprintf("ppt/slides/slide0%d.xml", r.Range(1, 3))
		default:
			d.Name = fmt.Sprintf("ppt/slides/old/slide%d.xml", k)
		}
		if used[d.Name] {
			continue
		}
		used[d.Name] = true
		if r.Chance(1, 3) && !noRels {
			d.InManifest = true // a slide relationship that the slide list does not mention
			rels = append(rels, [3]string{fmt.Sprintf("rIdOrphan%d", k), tSlide, strings.TrimPrefix(d.Name, "ppt/")})
		}
		if r.Chance(1, 2) {
			addNotes(r, &d, 70+k, nnums[n+k]+1, used)
		}
		p.Decoys = append(p.Decoys, d)
	}
	if noRels || noList {
		// file-name fallback: candidate names that are not plain slide<N>.xml (nested below a
		// directory whose name starts with "slide", doubled slash, blank, double extension),
		// some with notes — the notes plumbing works from the candidate's own path
		fr := r.Fork(0xfa11)
		for k, m := 0, fr.Intn(3); k < m; k++ {
			d := part{Tok: token(fr, 60+k), Title: "Odd"}
			d.Name = hx.Pick(fr, []string{"ppt/slides/slide5/x.xml", "ppt/slides/slide.d/y.xml", "ppt/slides/slide7/.xml", "ppt/slides/slide 3.xml",
				"ppt/slides/slide3/deep/er/z.xml", "ppt/slides/slide-2.xml.xml", "ppt/slides/slide5//x.xml", "ppt/slides/slide8/" + "slide1.xml"})
			if used[d.Name] {
				continue
			}
			used[d.Name] = true
			if fr.Chance(2, 3) {
				addNotes(fr, &d, 80+k, 40+k, used)
			}
			p.Decoys = append(p.Decoys, d)
			p.Notes = append(p.Notes, "fallback-odd-candidate")
		}
	}
	if !noRels && !noList { // near-name members (twins.go), from their own stream
		tr := r.Fork(0x7717)
		p.addOOXMLTwins(tr, "ppt", tSlide, used, &rels, func(j int, t *part) {
			t.ID = fmt.Sprintf("rId%d", ids[n+j]+2)
			t.Title = fmt.Sprintf("Heading %c", 'W'+byte(j))
			if tr.Chance(3, 5) { // its own speaker notes, behind a relationship part whose name is a near-name too
				addNotes(tr, t, 34+j, nnums[n+4+j]+1, used)
			}
		})
		// a second member under the percent-DECODED name of a declared slide (pctnames.go)
		pt := pn.Fork(1)
		p.addPctDecodedTwins(pt, "ppt", tSlide, used, &rels, func(j int, t *part) {
			t.ID = fmt.Sprintf("rId%d", ids[n+j]+2)
			t.Title = fmt.Sprintf("Heading %c", 'W'+byte(j))
			if pt.Chance(1, 2) {
				addNotes(pt, t, 34+j, nnums[n+4+j]+1, used)
			}
		})
	}
	hx.Shuffle(r, rels)
	if p.Oracle && r.Chance(1, 30) && len(p.Declared) > 1 {
		rels = append(rels, [3]string{p.Declared[0].ID, tSlide, p.Declared[1].Ref})
		p.Oracle = false
		p.Notes = append(p.Notes, "dup-rel-id")
	}

	var ct strings.Builder
	ct.WriteString(xmlHdr + `<Types xmlns="http://schemas.openxmlformats.org/package/2006/content-types"><Default Extension="rels" ContentType="application/vnd.openxmlformats-package.relationships+xml"/><Default Extension="xml" ContentType="application/xml"/><Override PartName="/ppt/presentation.xml" ContentType="application/vnd.openxmlformats-officedocument.presentationml.presentation.main+xml"/>`)
	for _, d := range p.Declared {
		if d.Name != "" {
			fmt.Fprintf(&ct, `<Override PartName="/%s" ContentType="application/vnd.openxmlformats-officedocument.presentationml.slide+xml"/>`, writers.XMLEsc(d.Name))
		}
	}
	ct.WriteString(`</Types>`)
	p.add("[Content_Types].xml", ct.String(), "")
	p.add("_rels/.rels", relsXML([][3]string{{"rId1", nsRel + "/officeDocument", "ppt/presentation.xml"}}), "")

	var pr strings.Builder
	pr.WriteString(xmlHdr + `<p:presentation xmlns:a="` + nsA + `" xmlns:r="` + nsRel + `" xmlns:p="` + nsP + `"><p:sldMasterIdLst><p:sldMasterId id="2147483648" r:id="rId1"/></p:sldMasterIdLst>`)
	var ridList []string
	if !noList {
		pr.WriteString(`<p:sldIdLst>`)
		for k, d := range p.Declared {
			fmt.Fprintf(&pr, `<p:sldId id="%d" r:id="%s"/>`, 256+k, writers.XMLEsc(d.ID))
			ridList = append(ridList, d.ID)
		}
		pr.WriteString(`</p:sldIdLst>`)
	}
	pr.WriteString(`<p:sldSz cx="9144000" cy="6858000"/></p:presentation>`)
	switch {
	case r.Chance(1, 60):
		p.add("ppt/presentation.xml", `<p:presentation xmlns:p="`+nsP+`"><p:sldIdLst>`, "B")
		p.Oracle = false
		p.Notes = append(p.Notes, "bad-presentation")
	case noList:
		p.add("ppt/presentation.xml", pr.String(), "P")
	default:
		p.add("ppt/presentation.xml", pr.String(), listSpec("Q", ridList))
	}
	if !noRels {
		p.add("ppt/_rels/presentation.xml.rels", relsXML(rels), tripleSpec("T", rels))
	}
	if r.Chance(3, 4) {
		p.add("ppt/presProps.xml", xmlHdr+`<p:presentationPr xmlns:p="`+nsP+`"/>`, "")
	}
	if r.Chance(1, 2) {
		p.add("ppt/slideMasters/slideMaster1.xml", xmlHdr+`<p:sldMaster xmlns:p="`+nsP+`"><p:cSld><p:spTree/></p:cSld></p:sldMaster>`, "")
	}
	if r.Chance(1, 2) {
		p.add("docProps/app.xml", xmlHdr+`<Properties xmlns="http://schemas.openxmlformats.org/officeDocument/2006/extended-properties"><Application>harness</Application></Properties>`, "")
	}
	for _, d := range p.Declared {
		switch d.State {
		case stOK, stDangling:
			if d.State == stDangling && r.Bool() {
				continue
			}
			p.add(d.Name, slideXMLBody(d.Tok, d.Title, r.Chance(1, 4)), "L")
		case stMalformed:
			p.add(d.Name, xmlHdr+`<p:sld xmlns:a="`+nsA+`" xmlns:p="`+nsP+`"><p:cSld><p:spTree><p:sp><p:txBody><a:p><a:r><a:t>`+d.Tok+`</a:t></a:r></a:p>`, "B")
		}
	}
	for _, d := range p.Decoys {
		p.add(d.Name, slideXMLBody(d.Tok, d.Title, false), "L")
	}
	// slide relationship parts and notes parts (they do not take part in deciding which
	// parts are presented, or in which order; op c18.pptxn / c18.api compare which notes
	// part each presented slide carries)
	withNotes := func(ds []part) {
		for i := range ds {
			d := &ds[i]
			if d.Name == "" {
				continue
			}
			if d.NotesTok == "" {
				if r.Chance(1, 3) && !p.has(partRelsName(d.Name)) {
					p.addSlideRels(r, *d)
				}
				continue
			}
			if p.has(partRelsName(d.Name)) { // cannot happen with distinct part names; stay safe
				d.NotesTok, d.NotesName, d.NotesRef = "", "", ""
				continue
			}
			p.addSlideRels(r, *d)
			if r.Chance(1, 12) {
				// optional part absent: the relationship stays, the notes part is gone
				d.NotesTok = ""
				p.Notes = append(p.Notes, "notes-part-missing")
				continue
			}
			p.add(d.NotesName, notesXMLBody(d.NotesTok), "N")
		}
	}
	withNotes(p.Declared)
	withNotes(p.Decoys)
	p.mutateNotes(r.Fork(0x4e07))
	// when the slide list yields no relationship target at all the reader falls back to
	// file-name discovery: nothing is declared then, so the oracles do not apply
	resolvable := 0
	for _, d := range p.Declared {
		if d.State != stDangling {
			resolvable++
		}
	}
	if resolvable == 0 && p.Oracle {
		p.Oracle = false
		p.Notes = append(p.Notes, "nothing-declared")
	}
	p.applyFlavour(r.Fork(0xf1a7)) // namespace flavour of the markup (flavour.go), own stream
	p.admissionVariant(r.Fork(0xad31))
	p.finishZip(r, "")
	return p
}
