package c18

import (
	"fmt"
	"sort"
	"strings"

	"verifharness/hx"
	"verifharness/writers"
)

// The logical package: what the author of the container declares, independent
// of tabula. Every part that carries text carries exactly one unique token, so
// order and containment are decidable by substring search.

const (
	stOK        = 0 // member present and well-formed
	stMissing   = 1 // declared, but no such member in the archive
	stMalformed = 2 // member present, not well-formed XML (sheet/slide only)
	stDangling  = 3 // declared entry whose id has no relationship / manifest item
	stWrongKind = 4 // relationship resolves to an existing member of another kind
	stRepeat    = 5 // epub: a spine entry that lists a resource an EARLIER spine entry already lists (repeats.go)
)

type part struct {
	Tok        string // unique token inside the part's text ("" for dangling)
	Name       string // ZIP member name
	Ref        string // Target / href exactly as written in the package (unescaped XML)
	ID         string // relationship id / manifest id
	Title      string // sheet name / chapter title
	State      int
	InManifest bool // decoys: listed in the manifest (EPUB) / rels (OOXML) but not declared

	SheetID int // xlsx: the sheetId attribute (an identifier, unrelated to the position)

	// pptx: the slide's speaker notes, a separate part reached through the slide's own
	// relationship part (<dir>/_rels/<base>.rels, Type .../notesSlide). NotesTok is the
	// unique token inside the notes text ("" = the slide has no readable notes).
	NotesTok  string
	NotesName string // ZIP member name of the notes part
	NotesRef  string // Target exactly as written in the slide's relationship part

	// epub, State == stRepeat: how the entry reaches the resource again (same-idref |
	// same-href | spelling-pct | spelling-dot | spelling-dotdot) and whether it stands
	// right behind the entry it repeats
	RepeatWay string

	// epub: a declared, readable content document WITHOUT any text (a cover or plate page that
	// holds an image only, a blank separator page, a body of white space / comments / empty
	// blocks). NoText names the kind; such a part carries no token (Tok == ""), it is a page
	// of its own all the same (textless.go).
	NoText string
}

// mdoc is the harness's record of what it wrote into one member; it becomes
// the parse table of the op line (the XML/ZIP libraries are parameters of the model).
type mdoc struct {
	name  string
	data  []byte
	spec  string // doc spec for the op line, "" = opaque
	store bool
}

type pkg struct {
	Fmt      string // xlsx | pptx | epub
	Variant  string // e.g. epub2, epub3, legacy-no-rels
	Declared []part
	Decoys   []part
	Docs     []mdoc // canonical order; ZipOrder permutes
	ZipOrder []int
	Oracle   bool   // the statement-level oracles apply (a declaration exists and is unambiguous)
	Base     string // EPUB: directory of the package file
	Notes    []string
	Twins    []twin // near-name members (twins.go)

	Renditions []string // epub: package documents container.xml lists AFTER the default rendition (renditions.go)

	slideRels map[string][][3]string // pptx: slide member name -> entries of its relationship part
	Flavour   string                 // xlsx/pptx: namespace flavour of the markup (flavour.go), "" = transitional as always
}

func (p *pkg) add(name string, data string, spec string) {
	p.Docs = append(p.Docs, mdoc{name: name, data: []byte(data), spec: spec})
}

func (p *pkg) has(name string) bool {
	for _, d := range p.Docs {
		if d.name == name {
			return true
		}
	}
	return false
}

func (p *pkg) members() []writers.Member {
	ms := make([]writers.Member, 0, len(p.Docs))
	for _, i := range p.ZipOrder {
		d := p.Docs[i]
		ms = append(ms, writers.Member{Name: d.name, Data: d.data, Store: d.store})
	}
	return ms
}

// cid of a member = its index in Docs + 1 (0 is never used).
func (p *pkg) cidOf(name string) int {
	for i, d := range p.Docs {
		if d.name == name {
			return i + 1
		}
	}
	return 0
}

// expected = the declared, readable parts that carry text (a token), in declared order.
func (p *pkg) expected() []part {
	var e []part
	for _, d := range p.Declared {
		if d.State == stOK && d.NoText == "" {
			e = append(e, d)
		}
	}
	return e
}

// pages = ALL declared, readable parts in declared order: the parts of expected() and the
// text-less ones (textless.go). Page i of the document is pages()[i].
func (p *pkg) pages() []part {
	var e []part
	for _, d := range p.Declared {
		if d.State == stOK {
			e = append(e, d)
		}
	}
	return e
}

// slots maps the index of a part in expected() to its page index (its index in pages()).
// Without text-less parts it is the identity.
func (p *pkg) slots() []int {
	var out []int
	k := 0
	for _, d := range p.Declared {
		if d.State != stOK {
			continue
		}
		if d.NoText == "" {
			out = append(out, k)
		}
		k++
	}
	return out
}

// opLine renders the archive in ZIP order plus the parse table.
func (p *pkg) opLine() string {
	var a, x []string
	for _, i := range p.ZipOrder {
		a = append(a, fmt.Sprintf("%s:%d", hx.HexS(p.Docs[i].name), i+1))
	}
	for i, d := range p.Docs {
		if d.spec != "" {
			x = append(x, fmt.Sprintf("%d=%s", i+1, d.spec))
		}
	}
	return "c18.pkg " + p.Fmt + " a=" + strings.Join(a, ",") + " x=" + strings.Join(x, ";")
}

// admissionVariant (own stream, one package in sixteen) adds or rewrites members that the
// front door's content sniffing looks at before any reader is opened: a member named
// "mimetype" naming this, another or no known format, a META-INF/container.xml or the main
// part of another OOXML format beside this package's own. Variants whose content names
// another format are refused by tabula.Open (by design: property C20) although the format
// reader itself reads them: no C18 verdict there, the model must agree on the refusal.
func (p *pkg) admissionVariant(r *hx.Rng) {
	if !r.Chance(1, 16) {
		return
	}
	mime := func(data string) {
		for i := range p.Docs {
			if p.Docs[i].name == "mimetype" {
				p.Docs[i].data = []byte(data)
				return
			}
		}
		p.Docs = append(p.Docs, mdoc{name: "mimetype", data: []byte(data), store: true})
	}
	refused := func(why string) {
		p.Oracle = false
		p.Notes = append(p.Notes, "admission-refused:"+why)
	}
	harmless := func(why string) { p.Notes = append(p.Notes, "admission-harmless:"+why) }
	switch p.Fmt {
	case "epub":
		switch r.Intn(5) {
		case 0:
			mime("application/vnd.oasis.opendocument.text")
			refused("odt-mimetype")
		case 1:
			mime("  application/epub+zip\r\n")
			harmless("padded-mimetype")
		case 2:
			mime("application/epub+zip; version=3")
			harmless("unknown-mimetype")
		case 3:
			if !p.has("word/document.xml") {
				p.add("word/document.xml", "<w:document/>", "")
			}
			harmless("stray-word-part")
		default:
			mime("x-application/vnd.oasis.opendocument.text-template")
			refused("odt-like-mimetype")
		}
	default:
		switch r.Intn(7) {
		case 0:
			if !p.has("word/document.xml") {
				p.add("word/document.xml", "<w:document/>", "")
			}
			refused("word-main-part")
		case 1:
			if !p.has("META-INF/container.xml") {
				p.add("META-INF/container.xml", "<container/>", "")
			}
			refused("container")
		case 2:
			mime("application/epub+zip")
			refused("epub-mimetype")
		case 3:
			mime("application/vnd.oasis.opendocument.text")
			refused("odt-mimetype")
		case 4:
			mime("text/plain")
			harmless("unknown-mimetype")
		case 5:
			other := "ppt/presentation.xml"
			if p.Fmt == "pptx" {
				other = "xl/workbook.xml"
			}
			if !p.has(other) {
				p.add(other, "<x/>", "")
			}
			if p.Fmt == "pptx" {
				refused("xlsx-main-part")
			} else {
				harmless("pptx-main-part")
			}
		default:
			if !p.has("word/media/x.bin") {
				p.add("word/media/x.bin", "bin", "")
			}
			harmless("word-directory")
		}
	}
}

// mimeTable renders, for the op line, the first bytes of every member named "mimetype".
func (p *pkg) mimeTable() string {
	var xs []string
	for i, d := range p.Docs {
		if d.name == "mimetype" {
			b := d.data
			if len(b) > 256 {
				b = b[:256]
			}
			xs = append(xs, fmt.Sprintf("%d=%s", i+1, hx.Hex(b)))
		}
	}
	return "m=" + strings.Join(xs, ";")
}

func pairSpec(tag string, pairs [][2]string) string {
	var b strings.Builder
	b.WriteString(tag)
	for _, q := range pairs {
		b.WriteString("," + hx.HexS(q[0]) + "." + hx.HexS(q[1]))
	}
	return b.String()
}

func listSpec(tag string, xs []string) string {
	var b strings.Builder
	b.WriteString(tag)
	for _, s := range xs {
		b.WriteString("," + hx.HexS(s))
	}
	return b.String()
}

func token(r *hx.Rng, i int) string {
	return fmt.Sprintf("T%02dK%06xQ", i%100, r.Intn(1<<24))
}

// perm returns a random permutation of 0..n-1.
func perm(r *hx.Rng, n int) []int {
	p := make([]int, n)
	for i := range p {
		p[i] = i
	}
	hx.Shuffle(r, p)
	return p
}

func isSortedStrings(xs []string) bool { return sort.StringsAreSorted(xs) }

// finishZip chooses the ZIP member order: a random permutation (so it is
// unrelated to both the declared order and the file-name order).
func (p *pkg) finishZip(r *hx.Rng, keepFirst string) {
	p.ZipOrder = perm(r, len(p.Docs))
	if keepFirst != "" {
		for k, i := range p.ZipOrder {
			if p.Docs[i].name == keepFirst {
				copy(p.ZipOrder[1:k+1], p.ZipOrder[:k])
				p.ZipOrder[0] = i
				break
			}
		}
	}
}
