package c09

import (
	"bytes"
	"fmt"
	"strconv"
	"strings"
)

// Minimal one-page PDF writer, written from ISO 32000-1 (7.5 file structure,
// 7.7.3 page tree, 9.4 text objects, 9.10.3 ToUnicode CMaps), not from tabula's
// reader. Classic cross-reference table, one uncompressed content stream, one
// text object per fragment with an absolute text matrix.
//
// Fonts: /F1 Helvetica (Type1, WinAnsiEncoding) for ASCII tokens; /F2 Helvetica
// with a /ToUnicode CMap that maps the codes 0x41.. to Hebrew U+05D0.. and the
// codes 0x61.. to Arabic U+0628.. (the right-to-left runs), 0x30 to U+2022 and
// 0x31-0x33 to the currency signs U+20AA, U+20AC, U+00A3; /F3 Helvetica with a
// /ToUnicode CMap in which the codes 0x20-0x7E are themselves. In /F2 and /F3 the
// code 0x80+i is the i-th mark of marks.go (format, private-use, control and
// unassigned characters).

func dec(n, den int) string {
	if den == 1 || n%den == 0 {
		return strconv.Itoa(n / den)
	}
	return strconv.FormatFloat(float64(n)/float64(den), 'f', -1, 64)
}

func pdfEscape(s []byte) string {
	var b strings.Builder
	for _, c := range s {
		switch {
		case c == '(' || c == ')' || c == '\\':
			b.WriteByte('\\')
			b.WriteByte(c)
		case c < 0x20 || c > 0x7e:
			fmt.Fprintf(&b, "\\%03o", c)
		default:
			b.WriteByte(c)
		}
	}
	return b.String()
}

// encodeText picks the font and the code string of a fragment text.
func encodeText(t string) (font string, codes []byte, ok bool) {
	ascii := true
	for _, r := range t {
		if r >= 0x7f || r < 0x20 {
			ascii = false
		}
	}
	if ascii {
		return "F1", []byte(t), true
	}
	// ASCII with marks (marks.go): /F3
	f3 := true
	for _, r := range t {
		if _, mark := markCode[r]; !mark && (r >= 0x7f || r < 0x20) {
			f3 = false
		}
	}
	if f3 {
		for _, r := range t {
			if code, mark := markCode[r]; mark {
				codes = append(codes, code)
			} else {
				codes = append(codes, byte(r))
			}
		}
		return "F3", codes, true
	}
	for _, r := range t {
		if code, mark := markCode[r]; mark {
			codes = append(codes, code)
			continue
		}
		switch {
		case r >= 0x05D0 && r <= 0x05EA:
			codes = append(codes, byte(0x41+r-0x05D0))
		case r >= 0x0628 && r <= 0x063A:
			codes = append(codes, byte(0x61+r-0x0628))
		case r == 0x2022:
			codes = append(codes, 0x30)
		case r == 0x20AA:
			codes = append(codes, 0x31)
		case r == 0x20AC:
			codes = append(codes, 0x32)
		case r == 0x00A3:
			codes = append(codes, 0x33)
		default:
			return "", nil, false
		}
	}
	return "F2", codes, true
}

func toUnicodeCMap() string { return toUnicodeCMapOf(false) }

// toUnicodeCMapOf: the CMap of /F2 (Hebrew, Arabic, bullet, currency signs) or, with
// ascii, of /F3 (the codes 0x20-0x7E are themselves); both map 0x80+i to the i-th mark.
func toUnicodeCMapOf(ascii bool) string {
	var b strings.Builder
	b.WriteString("/CIDInit /ProcSet findresource begin\n12 dict begin\nbegincmap\n")
	b.WriteString("/CIDSystemInfo << /Registry (Adobe) /Ordering (UCS) /Supplement 0 >> def\n")
	b.WriteString("/CMapName /Adobe-Identity-UCS def\n/CMapType 2 def\n")
	b.WriteString("1 begincodespacerange\n<00> <FF>\nendcodespacerange\n")
	if ascii {
		b.WriteString("1 beginbfrange\n<20> <7E> <0020>\nendbfrange\n")
	} else {
		b.WriteString("2 beginbfrange\n<41> <5B> <05D0>\n<61> <73> <0628>\nendbfrange\n")
		b.WriteString("4 beginbfchar\n<30> <2022>\n<31> <20AA>\n<32> <20AC>\n<33> <00A3>\nendbfchar\n")
	}
	fmt.Fprintf(&b, "%d beginbfchar\n", len(allMarks))
	for i, r := range allMarks {
		fmt.Fprintf(&b, "<%02X> <%04X>\n", 0x80+i, r)
	}
	b.WriteString("endbfchar\n")
	b.WriteString("endcmap\nCMapName currentdict /CMap defineresource pop\nend\nend\n")
	return b.String()
}

func writePDF(p Page) []byte {
	var buf bytes.Buffer
	var offs []int
	obj := func(body string) {
		offs = append(offs, buf.Len())
		fmt.Fprintf(&buf, "%d 0 obj\n%s\nendobj\n", len(offs), body)
	}
	buf.WriteString("%PDF-1.4\n%\xe2\xe3\xcf\xd3\n")
	obj("<< /Type /Catalog /Pages 2 0 R >>")
	obj("<< /Type /Pages /Count 1 /Kids [6 0 R] >>")
	obj("<< /Type /Font /Subtype /Type1 /BaseFont /Helvetica /Encoding /WinAnsiEncoding >>")
	obj("<< /Type /Font /Subtype /Type1 /BaseFont /Helvetica /ToUnicode 5 0 R >>")
	cm := toUnicodeCMap()
	obj(fmt.Sprintf("<< /Length %d >>\nstream\n%sendstream", len(cm), cm))
	obj(fmt.Sprintf("<< /Type /Page /Parent 2 0 R /MediaBox [0 0 %s %s] /Resources << /Font << /F1 3 0 R /F2 4 0 R /F3 8 0 R >> >> /Contents 7 0 R >>",
		dec(p.W, p.Den), dec(p.H, p.Den)))
	var cs bytes.Buffer
	for _, f := range p.F {
		font, codes, ok := encodeText(f.T)
		if !ok {
			continue
		}
		fmt.Fprintf(&cs, "BT\n/%s %s Tf\n1 0 0 1 %s %s Tm\n(%s) Tj\nET\n", font, dec(f.FS, p.Den), dec(f.X, p.Den), dec(f.Y, p.Den), pdfEscape(codes))
	}
	obj(fmt.Sprintf("<< /Length %d >>\nstream\n%sendstream", cs.Len(), cs.String()))
	// /F3 and its ToUnicode CMap come last: the numbers of the other objects are as before
	obj("<< /Type /Font /Subtype /Type1 /BaseFont /Helvetica /ToUnicode 9 0 R >>")
	cm3 := toUnicodeCMapOf(true)
	obj(fmt.Sprintf("<< /Length %d >>\nstream\n%sendstream", len(cm3), cm3))
	xref := buf.Len()
	fmt.Fprintf(&buf, "xref\n0 %d\n", len(offs)+1)
	buf.WriteString("0000000000 65535 f \n")
	for _, o := range offs {
		fmt.Fprintf(&buf, "%010d %05d n \n", o, 0)
	}
	fmt.Fprintf(&buf, "trailer\n<< /Size %d /Root 1 0 R >>\nstartxref\n%d\n%%%%EOF\n", len(offs)+1, xref)
	return buf.Bytes()
}

// writePDFPages writes a document of several pages (same structure as writePDF: objects 1-5
// catalog, page tree, two fonts, the ToUnicode CMap; then a page object and its content stream
// per page). A page without fragments has an empty content stream.
func writePDFPages(ps []Page) []byte {
	var buf bytes.Buffer
	var offs []int
	obj := func(body string) {
		offs = append(offs, buf.Len())
		fmt.Fprintf(&buf, "%d 0 obj\n%s\nendobj\n", len(offs), body)
	}
	buf.WriteString("%PDF-1.4\n%\xe2\xe3\xcf\xd3\n")
	obj("<< /Type /Catalog /Pages 2 0 R >>")
	var kids []string
	for i := range ps {
		kids = append(kids, fmt.Sprintf("%d 0 R", 6+2*i))
	}
	obj(fmt.Sprintf("<< /Type /Pages /Count %d /Kids [%s] >>", len(ps), strings.Join(kids, " ")))
	obj("<< /Type /Font /Subtype /Type1 /BaseFont /Helvetica /Encoding /WinAnsiEncoding >>")
	obj("<< /Type /Font /Subtype /Type1 /BaseFont /Helvetica /ToUnicode 5 0 R >>")
	cm := toUnicodeCMap()
	obj(fmt.Sprintf("<< /Length %d >>\nstream\n%sendstream", len(cm), cm))
	for i, p := range ps {
		obj(fmt.Sprintf("<< /Type /Page /Parent 2 0 R /MediaBox [0 0 %s %s] /Resources << /Font << /F1 3 0 R /F2 4 0 R /F3 %d 0 R >> >> /Contents %d 0 R >>",
			dec(p.W, p.Den), dec(p.H, p.Den), 6+2*len(ps), 7+2*i))
		var cs bytes.Buffer
		for _, f := range p.F {
			font, codes, ok := encodeText(f.T)
			if !ok {
				continue
			}
			fmt.Fprintf(&cs, "BT\n/%s %s Tf\n1 0 0 1 %s %s Tm\n(%s) Tj\nET\n", font, dec(f.FS, p.Den), dec(f.X, p.Den), dec(f.Y, p.Den), pdfEscape(codes))
		}
		obj(fmt.Sprintf("<< /Length %d >>\nstream\n%sendstream", cs.Len(), cs.String()))
	}
	obj(fmt.Sprintf("<< /Type /Font /Subtype /Type1 /BaseFont /Helvetica /ToUnicode %d 0 R >>", 7+2*len(ps)))
	cm3 := toUnicodeCMapOf(true)
	obj(fmt.Sprintf("<< /Length %d >>\nstream\n%sendstream", len(cm3), cm3))
	xref := buf.Len()
	fmt.Fprintf(&buf, "xref\n0 %d\n", len(offs)+1)
	buf.WriteString("0000000000 65535 f \n")
	for _, o := range offs {
		fmt.Fprintf(&buf, "%010d %05d n \n", o, 0)
	}
	fmt.Fprintf(&buf, "trailer\n<< /Size %d /Root 1 0 R >>\nstartxref\n%d\n%%%%EOF\n", len(offs)+1, xref)
	return buf.Bytes()
}
