package c09

import (
	"fmt"
	"sort"
	"strings"

	"github.com/tsawler/tabula/layout"
	"github.com/tsawler/tabula/text"

	"verifharness/hx"
)

// Third layer of the correspondence (Model/LayoutText.lean): the GetText renderings of the
// layout results, BlockDetector.groupIntoLines, text.groupFragments and text.Extractor.GetText.

func bandsExact(fs []text.TextFragment) bool {
	for _, b := range layout.VerifGroupFragmentsIntoLines(cp(fs)) {
		if !inlineExact(b) {
			return false
		}
		for i := 1; i < len(b); i++ {
			// the space rule is evaluated on the ordered band; test every pair
			for j := 0; j < len(b); j++ {
				if i != j && near(b[i].X-(b[j].X+b[j].Width), b[i].Height*0.1) {
					return false
				}
			}
		}
	}
	return true
}

// opRenderings: LineLayout.GetText, ReadingOrderResult.GetText, ColumnLayout.GetText,
// Block.GetText / BlockLayout.GetText.
func opRenderings(c *hx.Ctx, frs []text.TextFragment, w, h float64) {
	if len(frs) == 0 {
		return
	}
	// ---- LineLayout.GetText from the fragments
	tol := layout.VerifLineTolerance(cp(frs))
	pre, ok := linesPre(frs, tol)
	exact := ok
	for _, g := range pre {
		if !inlineExact(g) {
			exact = false
		}
	}
	ll := layout.NewLineDetector().Detect(cp(frs), w, h)
	for i, l := range ll.Lines {
		if lineTextAmbiguous(l.Fragments) {
			exact = false
		}
		if i < len(ll.Lines)-1 && near(l.SpacingAfter, ll.AverageLineSpacing*1.5) {
			exact = false
		}
	}
	if exact {
		c.Op("c09.lltext "+ratOf(tol)+" "+fragsStr(frs), hx.HexS(ll.GetText()))
	} else {
		drop(c, "lltext")
	}

	// ---- ColumnLayout.GetText from the column layout
	cl := layout.NewColumnDetector().Detect(cp(frs), w, h)
	clExact := bandsExact(cl.SpanningFragments)
	var cols [][]text.TextFragment
	for _, col := range cl.Columns {
		cols = append(cols, col.Fragments)
		if !bandsExact(col.Fragments) {
			clExact = false
		}
	}
	c.Op("c09.clfrags "+groupsStr(cols)+" "+fragsStr(cl.SpanningFragments), idList(idsOf(cl.GetFragmentsInReadingOrder(), false)))
	if clExact {
		c.Op("c09.cltext "+groupsStr(cols)+" "+fragsStr(cl.SpanningFragments), hx.HexS(cl.GetText()))
	} else {
		drop(c, "cltext")
	}

	// ---- Block.GetText / BlockLayout.GetText on the detected blocks, in their order
	bl := layout.NewBlockDetector().Detect(cp(frs), w, h)
	bAmb := false
	var bs []string
	for _, b := range bl.Blocks {
		for _, l := range b.Lines {
			if lineTextAmbiguous(l) {
				bAmb = true
			}
		}
		bs = append(bs, groupsStr(b.Lines))
	}
	if !bAmb && len(bs) > 0 {
		c.Op("c09.bltext "+strings.Join(bs, "_"), hx.HexS(bl.GetText()))
	}

	// ---- BlockDetector.groupIntoLines where both sorts have one possible result
	opBlockLines(c, frs)
}

// strictOrder: less is a strict weak order on xs in which no two elements are equivalent.
func strictOrder(xs []text.TextFragment, less func(a, b text.TextFragment) bool) bool {
	s, ok := weakOrder(xs, less)
	if !ok {
		return false
	}
	for i := 1; i < len(s); i++ {
		if !less(s[i-1], s[i]) {
			return false
		}
	}
	return true
}

func opBlockLines(c *hx.Ctx, frs []text.TextFragment) {
	blLess := func(a, b text.TextFragment) bool {
		d := a.Y - b.Y
		if abs(d) > (a.Height+b.Height)/2*0.5 {
			return d > 0
		}
		return a.X < b.X
	}
	if !strictOrder(frs, blLess) {
		c.Count("dropped:blinesx-sort-result-not-unique")
		return
	}
	lines := layout.VerifBlockGroupIntoLines(cp(frs))
	for _, l := range lines {
		if !strictOrder(l, func(a, b text.TextFragment) bool { return a.X < b.X }) {
			c.Count("dropped:blinesx-sort-result-not-unique")
			return
		}
	}
	c.Op("c09.blinesx "+fragsStr(frs), partOut(lines, false))
}

// opReadingOrderText: ReadingOrderResult.GetText (= AnalysisResult.GetText) as a function of the
// column layout. args/exact come from opReadingOrder.
func opReadingOrderText(c *hx.Ctx, ro *layout.ReadingOrderResult, args string) {
	if len(ro.Lines) == 0 {
		return
	}
	total, n := 0.0, 0
	for _, l := range ro.Lines {
		if l.SpacingBefore > 0 {
			total += l.SpacingBefore
			n++
		}
	}
	avg := 0.0
	if n > 0 && len(ro.Lines) >= 2 {
		avg = total / float64(n)
	}
	for i, l := range ro.Lines {
		if i < len(ro.Lines)-1 && near(l.SpacingAfter, avg*1.5) {
			drop(c, "rotext")
			return
		}
	}
	c.Op("c09.rotext "+args, hx.HexS(ro.GetText()))
}

// ---- text.groupFragments, text.Extractor.GetText ------------------------------------------

func groupFragmentsAmbiguous(frs []text.TextFragment) bool {
	for i := 1; i < len(frs); i++ {
		p, f := frs[i-1], frs[i]
		vd := abs(f.Y - p.Y)
		if near(p.Height*0.15, 1) || (p.Height*0.15 > 1 && near(vd, p.Height*0.15)) {
			return true
		}
	}
	return false
}

func sameOrder(a, b []text.TextFragment) bool {
	if len(a) != len(b) {
		return false
	}
	for i := range a {
		if fragID(a[i]) != fragID(b[i]) {
			return false
		}
	}
	return true
}

func opTextGetText(c *hx.Ctx, k interface{}, frs []text.TextFragment) {
	if len(frs) == 0 {
		return
	}
	out := text.VerifGetText(cp(frs))
	checkText(c, "text-gettext", k, dedupeExpected(frs), out)
	if groupFragmentsAmbiguous(frs) {
		drop(c, "tgroup")
	} else {
		c.Op("c09.tgroup "+fragsStr(frs), partOut(text.VerifGroupFragments(cp(frs)), false))
	}
	dd := text.VerifDeduplicateFragments(cp(frs))
	if groupFragmentsAmbiguous(dd) {
		drop(c, "gettext")
		return
	}
	lines := text.VerifGroupFragments(cp(dd))
	sort.SliceStable(lines, func(i, j int) bool { return lines[i][0].Y > lines[j][0].Y })
	var kr, sp []string
	for _, l := range lines {
		dir := text.VerifDetectLineDirection(cp(l))
		ord := text.VerifReorderFragmentsForReading(cp(l), dir)
		keep := sameOrder(ord, l)
		rtl := dir == text.RTL
		if !keep {
			less := lessXGo
			if rtl {
				less = func(a, b text.TextFragment) bool {
					if abs(a.X-b.X) < a.FontSize*0.25 {
						return false
					}
					return a.X > b.X
				}
			}
			if _, ok := weakOrder(l, less); !ok {
				c.Count("dropped:gettext-comparator-not-weak-order")
				return
			}
			c.Count("gettext-line-reordered")
		}
		kr = append(kr, fmt.Sprintf("%d/%d:%d:%d", fragID(l[0]), len(l), btoi(keep), btoi(rtl)))
		for i, s := range text.VerifLineSpaces(cp(ord), dir) {
			if s {
				sp = append(sp, fmt.Sprintf("%d.%d", fragID(ord[i]), fragID(ord[i+1])))
			}
		}
	}
	j := func(xs []string, sep string) string {
		if len(xs) == 0 {
			return "-"
		}
		return strings.Join(xs, sep)
	}
	c.Op("c09.gettext "+j(kr, ";")+" "+j(sp, ",")+" "+fragsStr(frs), hx.HexS(out))
}
