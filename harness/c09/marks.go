package c09

import (
	"sort"

	"verifharness/hx"
)

// Pages with characters that are neither white space nor printable.
//
// C09 speaks of "the non-whitespace characters" of the fragments: every code
// point that is not white space counts, whether a viewer paints it or not. Real
// pages carry many such characters inside or between their words:
//
//   - format characters (category Cf): ZERO WIDTH NON-JOINER / JOINER inside
//     Persian and Indic words, the SOFT HYPHEN a hyphenating producer leaves in a
//     word, the bidi marks and embedding controls around right-to-left runs, WORD
//     JOINER (U+FEFF is left out: tabula's ToUnicode reader takes a destination
//     <FEFF> for a byte order mark, which is the business of C07, and the pages
//     here have to pass the trusted reading path unchanged);
//   - private-use characters (Co): the glyph codes of symbol fonts - the bullet of
//     a Word list is U+F0B7 of Symbol, U+F0A7 / U+F0D8 of Wingdings - and the
//     codes a subset font without a usable ToUnicode map is given;
//   - control characters (Cc) from a broken ToUnicode map or a wrongly decoded
//     string: C0 other than TAB LF VT FF CR, DEL, C1 other than NEL;
//   - code points without an assignment and non-characters (Cn).
//
// A marks page is a standard or a bidi page of the generator in which such
// characters have been put: at the start, inside or at the end of the text of
// some fragments (all kinds: words, headings, list markers, right-to-left words,
// single characters of a character-level page, copies of a duplicate layer),
// as the bullet of a list (a private-use glyph instead of "-" or U+2022), or as a
// fragment of their own (a glyph of a symbol font standing alone, a bidi mark
// shown by its own operator). The geometry of the page is left as it was: the
// format and control characters have no advance, a symbol glyph takes the box of
// the marker it replaces.

const kindMarks = "marks"

// marksBase: fork index of the first marks page.
const marksBase = 5 * bidiBase

// markClasses: the characters by class. None of them is white space
// (unicode.IsSpace: TAB LF VT FF CR SPACE U+0085 U+00A0 and category Z).
// All are in the BMP (one UTF-16 unit in a ToUnicode CMap).
var markClasses = []struct {
	name string
	rs   []rune
}{
	{"format", []rune{0x200C, 0x200D, 0x00AD, 0x200E, 0x200F, 0x2060, 0x061C, 0x202A, 0x202B, 0x202C, 0x202D, 0x202E, 0x2066, 0x2067, 0x2069, 0x200B}},
	{"private-use", []rune{0xF0B7, 0xF0A7, 0xF0D8, 0xF0FC, 0xF020, 0xE000, 0xE001, 0xE0FF, 0xF8FF, 0xF6D9}},
	{"control", []rune{0x0001, 0x0002, 0x0003, 0x0008, 0x000E, 0x001B, 0x001C, 0x001F, 0x007F, 0x0080, 0x0084, 0x0086, 0x0092, 0x009F}},
	{"unassigned", []rune{0x0378, 0x05FF, 0x2065, 0xFDD0, 0xFFFE, 0xFFFF}},
}

// allMarks: every mark, in the fixed order that gives it its code 0x80+i in the
// fonts /F2 and /F3 of the PDF writer.
var allMarks = func() []rune {
	var rs []rune
	for _, cl := range markClasses {
		rs = append(rs, cl.rs...)
	}
	return rs
}()

var markCode = func() map[rune]byte {
	m := map[rune]byte{}
	for i, r := range allMarks {
		m[r] = byte(0x80 + i)
	}
	return m
}()

// genMarksPage: a standard or bidi page with marks of one to three classes.
func genMarksPage(r *hx.Rng) Page {
	kind := ""
	if r.Bool() {
		kind = kindBidi
	}
	pg := genPageKind(r.Fork(1), kind)
	injectMarks(r.Fork(2), &pg)
	return pg
}

func injectMarks(r *hx.Rng, pg *Page) {
	tags := map[string]bool{"marks-page": true}
	// classes of this page
	var cls []int
	for len(cls) == 0 {
		for i := range markClasses {
			if r.Chance(2, 5) {
				cls = append(cls, i)
			}
		}
	}
	pick := func() rune {
		cl := markClasses[cls[r.Intn(len(cls))]]
		tags["marks:"+cl.name] = true
		return cl.rs[r.Intn(len(cl.rs))]
	}
	hasPUA := false
	for _, i := range cls {
		if markClasses[i].name == "private-use" {
			hasPUA = true
		}
	}
	den := []int{2, 4, 8}[r.Intn(3)] // one fragment in 2, 4 or 8
	touched := 0
	touch := func(i int) {
		f := &pg.F[i]
		touched++
		// the bullet of a list: a glyph of a symbol font
		if hasPUA && (f.T == "-" || f.T == "•") && r.Chance(3, 4) {
			pua := markClasses[1].rs
			f.T = string(pua[r.Intn(4)])
			tags["marks:private-use"] = true
			tags["marks:symbol-font-bullet"] = true
			return
		}
		rs := []rune(f.T)
		n := 1
		if r.Chance(1, 4) {
			n = r.Range(2, 3)
		}
		for ; n > 0; n-- {
			at := 0
			switch r.Intn(4) {
			case 0:
				tags["marks:at-start"] = true
			case 1:
				at = len(rs)
				tags["marks:at-end"] = true
			default:
				at = r.Intn(len(rs) + 1)
				tags["marks:inside"] = true
			}
			rs = append(rs[:at], append([]rune{pick()}, rs[at:]...)...)
		}
		f.T = string(rs)
	}
	for i := range pg.F {
		if r.Chance(1, den) {
			touch(i)
		}
	}
	if touched == 0 && len(pg.F) > 0 {
		touch(r.Intn(len(pg.F)))
	}
	// marks as fragments of their own: next to a fragment of the page (its start
	// or its end), without advance - or, for a symbol glyph, half an em wide
	if n := len(pg.F); n > 0 && r.Chance(1, 2) {
		for k := r.Range(1, 3); k > 0; k-- {
			g := pg.F[r.Intn(n)]
			m := pick()
			nf := Frag{ID: len(pg.F), T: string(m), X: g.X, Y: g.Y, W: 0, H: g.H, FS: g.FS, RTL: g.RTL, Neu: !g.RTL}
			if r.Bool() {
				nf.X = g.X + g.W
			}
			if m >= 0xE000 && m <= 0xF8FF {
				nf.W = g.FS / 2
			}
			if r.Chance(1, 3) {
				nf.T += string(pick())
			}
			at := r.Intn(len(pg.F) + 1)
			pg.F = append(pg.F[:at], append([]Frag{nf}, pg.F[at:]...)...)
		}
		tags["marks:standalone"] = true
		for i := range pg.F { // ids follow the stream order
			pg.F[i].ID = i
		}
	}
	for _, t := range pg.Tags {
		tags[t] = true
	}
	pg.Tags = pg.Tags[:0]
	for t := range tags {
		pg.Tags = append(pg.Tags, t)
	}
	sort.Strings(pg.Tags)
}
