package c09

import (
	"fmt"
	"os"
	"path/filepath"
	"sort"
	"strings"
	"sync"
	"unicode"

	"github.com/tsawler/tabula"
	"github.com/tsawler/tabula/layout"
	"github.com/tsawler/tabula/model"
	"github.com/tsawler/tabula/text"

	"verifharness/hx"
)

// Statement-level oracles of C09, written from the property text and
// independent of the Lean model:
//
//   - the non-whitespace characters of every output (lines, paragraphs, blocks,
//     columns, reading order, analysis elements, every plain-text rendering)
//     equal, as a multiset, those of the input fragments;
//   - every input fragment is in exactly one line and in exactly one column or
//     the spanning group.
//
// Through the public API the input is what the PDF shows after the one
// sanctioned removal: a fragment with the same text at the same rounded
// position as an earlier one (an overlaid duplicate layer) may disappear.

var dbg = os.Getenv("C09_DEBUG")

// chk is c.Check; with C09_DEBUG=<substring> failures of matching keys are also printed.
//
// A failed check is not handed to c.Check at once but at the end of the run
// (flushChecks), in the order of the keys: the report keeps the input of only
// the first 20 failures of a run (3 per key) and the verdict names the first
// new key in that order, so recording in page order let the many keys that fail
// on one page - and the recorded findings of the element tree - use up the room
// before the named key had kept its failing input. Nothing is dropped: every
// failure is still counted under its key; what each check returns is unchanged.
func chk(c *hx.Ctx, key string, ok bool, k interface{}, detail func() string) bool {
	if ok {
		return c.Check(key, true, k, detail)
	}
	if dbg != "" && strings.Contains(key, dbg) {
		idx := -1
		if kk, isK := k.(kase); isK {
			idx = kk.Index
		}
		fmt.Fprintf(os.Stderr, "%s #%d %s\n", key, idx, detail())
	}
	pendMu.Lock()
	defer pendMu.Unlock()
	pendN[key]++
	p := pendingFail{key: key}
	if pendN[key] <= 3 { // c.Check keeps input and detail of the first three per key
		p.kase, p.detail = k, detail()
	}
	pend = append(pend, p)
	return false
}

type pendingFail struct {
	key    string
	kase   interface{}
	detail string
}

var (
	pendMu sync.Mutex
	pend   []pendingFail
	pendN  = map[string]int{}
)

// flushChecks records the failed checks of the run, sorted by key (stable, so
// the first three of a key are its first three in page order).
func flushChecks(c *hx.Ctx) {
	pendMu.Lock()
	defer pendMu.Unlock()
	sort.SliceStable(pend, func(i, j int) bool { return pend[i].key < pend[j].key })
	for _, p := range pend {
		d := p.detail
		c.Check(p.key, false, p.kase, func() string { return d })
	}
	pend, pendN = nil, map[string]int{}
}

type bag map[rune]int

func bagOf(ss ...string) bag {
	b := bag{}
	for _, s := range ss {
		for _, r := range s {
			if !unicode.IsSpace(r) {
				b[r]++
			}
		}
	}
	return b
}

// diff reports the first rune that is missing, surplus (present in the input)
// or invented (absent from the input).
func (want bag) diff(got bag) (lost, dup, inv string) {
	var rs []rune
	for r := range want {
		rs = append(rs, r)
	}
	for r := range got {
		if _, ok := want[r]; !ok {
			rs = append(rs, r)
		}
	}
	sort.Slice(rs, func(i, j int) bool { return rs[i] < rs[j] })
	for _, r := range rs {
		w, g := want[r], got[r]
		switch {
		case g < w && lost == "":
			lost = fmt.Sprintf("%q x%d (want %d)", r, g, w)
		case g > w && w > 0 && dup == "":
			dup = fmt.Sprintf("%q x%d (want %d)", r, g, w)
		case g > w && w == 0 && inv == "":
			inv = fmt.Sprintf("%q x%d (not in the input)", r, g)
		}
	}
	return
}

// tokenDiff names the fragments whose text occurs fewer / more times in out
// than in the input (tokens are unique apart from deliberate copies and list
// markers, so this localises a rune-level difference).
func tokenDiff(frs []text.TextFragment, out string) (lost, dup []string) {
	want := map[string]int{}
	var order []string
	for _, f := range frs {
		t := strings.TrimSpace(f.Text)
		if len([]rune(t)) < 3 {
			continue
		}
		if want[t] == 0 {
			order = append(order, t)
		}
		want[t]++
	}
	squeezed := strings.Join(strings.Fields(out), " ")
	for _, t := range order {
		n := strings.Count(squeezed, t)
		if n < want[t] {
			lost = append(lost, t)
		} else if n > want[t] {
			dup = append(dup, t)
		}
	}
	return
}

func short(xs []string) string {
	if len(xs) > 6 {
		return strings.Join(xs[:6], ",") + fmt.Sprintf(",…(%d)", len(xs))
	}
	return strings.Join(xs, ",")
}

func textsOf(frs []text.TextFragment) []string {
	ts := make([]string, len(frs))
	for i, f := range frs {
		ts[i] = f.Text
	}
	return ts
}

// checkText compares a text rendering with the fragments it must conserve.
func checkText(c *hx.Ctx, name string, kase interface{}, frs []text.TextFragment, out string) bool {
	var ts []string
	for _, f := range frs {
		ts = append(ts, f.Text)
	}
	lost, dup, inv := bagOf(ts...).diff(bagOf(out))
	tl, td := []string(nil), []string(nil)
	if lost != "" || dup != "" {
		tl, td = tokenDiff(frs, out)
	}
	ok := true
	ok = chk(c, "C09/"+name+"-lost", lost == "", kase, func() string {
		return fmt.Sprintf("%s: character %s missing; fragments missing: %s", name, lost, short(tl))
	}) && ok
	ok = chk(c, "C09/"+name+"-duplicated", dup == "", kase, func() string {
		return fmt.Sprintf("%s: character %s; fragments repeated: %s", name, dup, short(td))
	}) && ok
	ok = chk(c, "C09/"+name+"-invented", inv == "", kase, func() string {
		return fmt.Sprintf("%s: character %s", name, inv)
	}) && ok
	return ok
}

// checkIDs: every fragment id of the input occurs exactly once in got.
func checkIDs(c *hx.Ctx, name string, kase interface{}, frs []text.TextFragment, got []text.TextFragment) bool {
	cnt := map[int]int{}
	for _, f := range got {
		cnt[fragID(f)]++
	}
	var lost, dup, inv []string
	for _, f := range frs {
		id := fragID(f)
		switch n := cnt[id]; {
		case n == 0:
			lost = append(lost, fmt.Sprintf("%d:%q@(%v,%v)w%v,%v", id, f.Text, f.X, f.Y, f.Width, f.Direction))
		case n > 1:
			dup = append(dup, fmt.Sprintf("%d:%q x%d", id, f.Text, n))
		}
		delete(cnt, id)
	}
	for id := range cnt {
		inv = append(inv, fmt.Sprint(id))
	}
	ok := chk(c, "C09/"+name+"-lost", len(lost) == 0, kase, func() string {
		return fmt.Sprintf("%s: fragments in no group: %s", name, short(lost))
	})
	ok = chk(c, "C09/"+name+"-duplicated", len(dup) == 0, kase, func() string {
		return fmt.Sprintf("%s: fragments in more than one group: %s", name, short(dup))
	}) && ok
	ok = chk(c, "C09/"+name+"-invented", len(inv) == 0, kase, func() string {
		return fmt.Sprintf("%s: unknown fragments: %s", name, short(inv))
	}) && ok
	return ok
}

func lineFrags(ls []layout.Line) (fs []text.TextFragment, txt string) {
	var sb strings.Builder
	for _, l := range ls {
		fs = append(fs, l.Fragments...)
		sb.WriteString(l.Text)
		sb.WriteByte('\n')
	}
	return fs, sb.String()
}

func paraFrags(ps []layout.Paragraph) (fs []text.TextFragment, txt string) {
	var sb strings.Builder
	for _, p := range ps {
		f, _ := lineFrags(p.Lines)
		fs = append(fs, f...)
		sb.WriteString(p.Text)
		sb.WriteByte('\n')
	}
	return fs, sb.String()
}

func elementsText(es []layout.LayoutElement) string {
	var sb strings.Builder
	for _, e := range es {
		sb.WriteString(e.Text)
		sb.WriteByte('\n')
	}
	return sb.String()
}

// overlapRule is the documented rule of the element tree: two boxes overlap
// when the intersection covers more than half of the smaller one.
func overlapRule(a, b model.BBox) bool {
	ox := min(a.X+a.Width, b.X+b.Width) - max(a.X, b.X)
	oy := min(a.Y+a.Height, b.Y+b.Height) - max(a.Y, b.Y)
	if ox <= 0 || oy <= 0 {
		return false
	}
	return ox*oy > min(a.Width*a.Height, b.Width*b.Height)*0.5
}

func (b bag) within(o bag) bool {
	for r, n := range b {
		if n > o[r] {
			return false
		}
	}
	return true
}

// checkElements compares the text of the analysis elements with the input.
// Two defects of the element tree (repaired by tabula 8ee0e52, see
// known_findings.txt) are told apart from any other loss or repetition, so
// that the tree before the repair fails under their own keys: a paragraph was
// suppressed as soon as its box overlapped the box of a heading or list (which
// were detected on a different line grouping), so text of that paragraph
// beyond the heading/list was lost, and a heading/list whose own paragraph was
// not suppressed was emitted twice. A loss is attributed to the first only if
// the missing characters all lie in reading-order paragraphs that are not
// emitted and overlap a heading/list box by the old rule; a repetition to the
// second only if the surplus characters all lie in heading/list elements.
func checkElements(c *hx.Ctx, name string, kase interface{}, frs []text.TextFragment, ar *layout.AnalysisResult, es []layout.LayoutElement) {
	var ts []string
	for _, f := range frs {
		ts = append(ts, f.Text)
	}
	want, got := bagOf(ts...), bagOf(elementsText(es))
	lostBag, dupBag := bag{}, bag{}
	for r, n := range want {
		if got[r] < n {
			lostBag[r] = n - got[r]
		}
	}
	for r, n := range got {
		if n > want[r] && want[r] > 0 {
			dupBag[r] = n - want[r]
		}
	}
	var boxes []model.BBox
	hl := bag{}
	for _, e := range es {
		if e.Type == model.ElementTypeHeading || e.Type == model.ElementTypeList {
			boxes = append(boxes, e.BBox)
			for r, n := range bagOf(e.Text) {
				hl[r] += n
			}
		}
	}
	covered := bag{}
	if ar != nil && ar.Paragraphs != nil {
		for _, p := range ar.Paragraphs.Paragraphs {
			emitted := false
			for _, e := range es {
				if e.Type == model.ElementTypeParagraph && e.BBox == p.BBox && e.Text == p.Text {
					emitted = true
				}
			}
			if emitted {
				continue
			}
			for _, b := range boxes {
				if overlapRule(b, p.BBox) {
					for r, n := range bagOf(p.Text) {
						covered[r] += n
					}
					break
				}
			}
		}
	}
	// the typed detail of an element shows the same text as the element
	detail := ""
	for i, e := range es {
		switch {
		case e.Type == model.ElementTypeHeading && (e.Heading == nil || e.Heading.Text != e.Text):
			detail = fmt.Sprintf("element %d is the heading %q but its Heading field is %+v", i, e.Text, e.Heading)
		case e.Type == model.ElementTypeParagraph && (e.Paragraph == nil || e.Paragraph.Text != e.Text):
			detail = fmt.Sprintf("element %d is the paragraph %.40q but its Paragraph field holds %.40q", i, e.Text, e.Paragraph.Text)
		case e.Type == model.ElementTypeList:
			var sb strings.Builder
			if e.List != nil {
				for _, it := range e.List.GetAllItems() {
					sb.WriteString(it.Prefix + " " + it.Text + "\n")
				}
			}
			if sb.String() != e.Text {
				detail = fmt.Sprintf("element %d is the list %.40q but its List field holds %.40q", i, e.Text, sb.String())
			}
		}
		if detail != "" {
			break
		}
	}
	chk(c, "C09/"+name+"-detail-mismatch", detail == "", kase, func() string { return detail })

	lost, dup, inv := want.diff(got)
	tl, td := []string(nil), []string(nil)
	if lost != "" || dup != "" {
		tl, td = tokenDiff(frs, elementsText(es))
	}
	lk, dk := "C09/"+name+"-lost", "C09/"+name+"-duplicated"
	if lost != "" && lostBag.within(covered) {
		lk += "-paragraph-covered-by-heading-or-list"
	}
	if dup != "" && dupBag.within(hl) {
		dk += "-heading-or-list-also-in-paragraph"
	}
	chk(c, lk, lost == "", kase, func() string {
		return fmt.Sprintf("%s: character %s missing; fragments missing: %s", name, lost, short(tl))
	})
	chk(c, dk, dup == "", kase, func() string {
		return fmt.Sprintf("%s: character %s; fragments repeated: %s", name, dup, short(td))
	})
	chk(c, "C09/"+name+"-invented", inv == "", kase, func() string {
		return fmt.Sprintf("%s: character %s", name, inv)
	})
}

// oracleLayout checks the detectors and the analyzer on one page (direct
// layout API, fragments identified by id).
func oracleLayout(c *hx.Ctx, kase interface{}, pg Page) {
	frs := toLayout(pg)
	w, h := float64(pg.W)/float64(pg.Den), float64(pg.H)/float64(pg.Den)
	cp := func() []text.TextFragment { return append([]text.TextFragment(nil), frs...) }
	c.Guard("C09", kase, 20, func() {
		// lines
		ll := layout.NewLineDetector().Detect(cp(), w, h)
		lf, lt := lineFrags(ll.Lines)
		checkIDs(c, "lines", kase, frs, lf)
		checkText(c, "lines-text", kase, frs, lt)
		checkText(c, "lines-gettext", kase, frs, ll.GetText())

		// columns
		cl := layout.NewColumnDetector().Detect(cp(), w, h)
		var cf []text.TextFragment
		for _, col := range cl.Columns {
			cf = append(cf, col.Fragments...)
		}
		cf = append(cf, cl.SpanningFragments...)
		checkIDs(c, "columns", kase, frs, cf)
		checkText(c, "columns-gettext", kase, frs, cl.GetText())
		// "returns all fragments ordered for reading"
		checkIDs(c, "columns-fragments-in-reading-order", kase, frs, cl.GetFragmentsInReadingOrder())

		// paragraphs
		pl := layout.NewParagraphDetector().DetectFromFragments(cp(), w, h)
		pf, pt := paraFrags(pl.Paragraphs)
		checkIDs(c, "paragraphs", kase, frs, pf)
		checkText(c, "paragraphs-text", kase, frs, pt)

		// blocks
		bl := layout.NewBlockDetector().Detect(cp(), w, h)
		var bf, blf []text.TextFragment
		for _, b := range bl.Blocks {
			bf = append(bf, b.Fragments...)
			for _, l := range b.Lines {
				blf = append(blf, l...)
			}
		}
		checkIDs(c, "blocks", kase, frs, bf)
		checkIDs(c, "blocks-lines", kase, frs, blf)
		checkText(c, "blocks-gettext", kase, frs, bl.GetText())

		// reading order
		ro := layout.NewReadingOrderDetector().Detect(cp(), w, h)
		checkIDs(c, "reading-order", kase, frs, ro.Fragments)
		rlf, rlt := lineFrags(ro.Lines)
		checkIDs(c, "reading-order-lines", kase, frs, rlf)
		checkText(c, "reading-order-text", kase, frs, rlt)
		var sf []text.TextFragment
		for _, s := range ro.Sections {
			sf = append(sf, s.Fragments...)
		}
		checkIDs(c, "reading-order-sections", kase, frs, sf)
		rp := ro.GetParagraphs()
		rpf, rpt := paraFrags(rp.Paragraphs)
		checkIDs(c, "reading-order-paragraphs", kase, frs, rpf)
		checkText(c, "reading-order-paragraphs-text", kase, frs, rpt)

		// analyzer
		ar := layout.NewAnalyzer().Analyze(cp(), w, h)
		checkElements(c, "elements", kase, frs, ar, ar.Elements)
		checkText(c, "analysis-text", kase, frs, ar.GetText())

		// the text assembly paths of the extractor on the very fragments of the page
		// (no reading path in between: what is lost here is lost by the assembly)
		checkText(c, "assemble-hook", kase, frs, tabula.VerifAssembleText(cp()))
		checkText(c, "preservelayout-hook", kase, frs, tabula.VerifExtractPreserveLayout(cp(), w))
		checkText(c, "bycolumn-hook", kase, frs, tabula.VerifExtractByColumn(cp(), w, h))
		checkText(c, "withparagraphs-hook", kase, frs, tabula.VerifExtractWithParagraphs(cp(), w, h))
	})
}

// dedupeExpected is the sanctioned removal, stated independently: drop a
// fragment when an earlier one has the same text at the same rounded position.
func dedupeExpected(frs []text.TextFragment) []text.TextFragment {
	type key struct {
		x, y int
		t    string
	}
	seen := map[key]bool{}
	var out []text.TextFragment
	for _, f := range frs {
		k := key{int(f.X + 0.5), int(f.Y + 0.5), f.Text}
		if seen[k] {
			continue
		}
		seen[k] = true
		out = append(out, f)
	}
	return out
}

var textModes = []string{"text", "bycolumn", "joinparagraphs", "preservelayout"}

func openMode(fn, mode string) *tabula.Extractor {
	e := tabula.Open(fn)
	switch mode {
	case "bycolumn":
		return e.ByColumn()
	case "joinparagraphs":
		return e.JoinParagraphs()
	case "preservelayout":
		return e.PreserveLayout()
	}
	return e
}

// oraclePDF renders the page and pushes it through the public API.
func oraclePDF(c *hx.Ctx, kase interface{}, pg Page) {
	fn := filepath.Join(c.OutDir, "page.pdf")
	if err := os.WriteFile(fn, writePDF(pg), 0o644); err != nil {
		c.Note("cannot write %s: %v", fn, err)
		return
	}
	want := dedupeExpected(toLayout(pg))
	c.Guard("C09", kase, 30, func() {
		got, _, err := tabula.Open(fn).Fragments()
		if !chk(c, "C09/pdf-open", err == nil, kase, func() string { return fmt.Sprint(err) }) {
			return
		}
		var gt []string
		for _, f := range got {
			gt = append(gt, f.Text)
		}
		// the reading path itself (C01/C07/C08) must show what was written, otherwise the
		// layout oracles below would blame the wrong component
		if !checkText(c, "fragments", kase, want, strings.Join(gt, "\n")) {
			return
		}
		for _, m := range textModes {
			s, _, err := openMode(fn, m).Text()
			if chk(c, "C09/text-"+m+"-error", err == nil, kase, func() string { return fmt.Sprint(err) }) {
				checkText(c, "text-"+m, kase, want, s)
			}
		}
		if ls, err := tabula.Open(fn).Lines(); chk(c, "C09/api-lines-error", err == nil, kase, func() string { return fmt.Sprint(err) }) {
			_, t := lineFrags(ls)
			checkText(c, "api-lines", kase, want, t)
		}
		if ps, err := tabula.Open(fn).Paragraphs(); chk(c, "C09/api-paragraphs-error", err == nil, kase, func() string { return fmt.Sprint(err) }) {
			_, t := paraFrags(ps)
			checkText(c, "api-paragraphs", kase, want, t)
		}
		if bs, err := tabula.Open(fn).Blocks(); chk(c, "C09/api-blocks-error", err == nil, kase, func() string { return fmt.Sprint(err) }) {
			var sb strings.Builder
			for _, b := range bs {
				sb.WriteString(b.GetText())
				sb.WriteByte('\n')
			}
			checkText(c, "api-blocks", kase, want, sb.String())
		}
		if es, err := tabula.Open(fn).Elements(); chk(c, "C09/api-elements-error", err == nil, kase, func() string { return fmt.Sprint(err) }) {
			// Elements() does not return the paragraphs it suppressed; the analysis is
			// repeated on the same fragments for the attribution of a loss. Paragraph
			// detection breaks ties by map iteration order (detectLeftMargin,
			// detectBodyFontSize), so the repetition is retried until it reproduces
			// the elements that were returned.
			var ar *layout.AnalysisResult
			for try := 0; try < 40; try++ {
				a := layout.NewAnalyzer().Analyze(append([]text.TextFragment(nil), got...), float64(pg.W)/float64(pg.Den), float64(pg.H)/float64(pg.Den))
				if elementsText(a.Elements) == elementsText(es) {
					ar = a
					break
				}
			}
			if ar == nil {
				// the attribution needs the paragraphs of the very analysis that produced es
				c.Count("api-elements:analysis-not-reproduced")
				_, _, inv := bagOf(textsOf(want)...).diff(bagOf(elementsText(es)))
				chk(c, "C09/api-elements-invented", inv == "", kase, func() string { return "api-elements: character " + inv })
			} else {
				checkElements(c, "api-elements", kase, want, ar, es)
			}
		}
	})
}
