// Package c09 is the correspondence/oracle harness for property C09.
package c09

import "verifharness/hx"

func init() { hx.Register("C09", Run, Replay) }

// Run is not built yet for this property.
func Run(c *hx.Ctx) { c.Note("C09: harness not built") }

func Replay(c *hx.Ctx, kase map[string]interface{}) {}
