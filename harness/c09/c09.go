// Package c09: layout analysis never loses, invents or duplicates text.
package c09

import (
	"fmt"
	"path/filepath"
	"strings"

	"verifharness/hx"
)

func init() { hx.Register("C09", Run, Replay) }

type kase struct {
	Seed  uint64 `json:"seed"`
	Index int    `json:"index"`
	Tags  string `json:"tags"`
	Kind  string `json:"kind,omitempty"` // "" standard page, "bidi" page with mixed-direction lines
	Page  *Page  `json:"page,omitempty"`
}

const kindDoc = "doc"

// bidiBase: fork index of the first bidi page (the standard pages keep 0..n-1).
const bidiBase = 1000000

func mkCase(c *hx.Ctx, i int, kind string, pg Page) kase {
	k := kase{Seed: c.Seed, Index: i, Kind: kind, Tags: strings.Join(pg.Tags, ",")}
	if len(pg.F) <= 60 {
		k.Page = &pg
	}
	return k
}

func runPage(c *hx.Ctx, k kase, pg Page) {
	if len(pg.F) <= 400 {
		mechanisms(c, k, pg)
	} else {
		c.Count("mechanism-ops-skipped:more-than-400-fragments")
	}
	oracleLayout(c, k, pg)
	oraclePDF(c, k, pg)
	c.Guard("C09", k, 60, func() { opPageText(c, k, pg, filepath.Join(c.OutDir, "page.pdf")) })
}

func Run(c *hx.Ctx) {
	defer flushChecks(c)
	c.Rep.Rule = "synthetic pages (integer coordinates over a denominator 1, 2 or 4): 1-4 columns of ragged or justified lines of unique tokens, headings of larger size, lists, single-word lines, short last lines, right-to-left runs, spanning titles, character-level fragmentation, exact and shifted duplicate layers, an outlier word, a zero-width glyph at the right edge, narrow marks in the left margin, a one-character line, boxes higher than the font size, list markers and numbers as direction-neutral fragments, visual / row-major / shuffled stream order, inverted Y, scaled coordinates; each page goes through the layout detectors directly and, rendered to PDF, through the public API in every text mode; plus bidi pages: the same pages whose columns also carry mixed-direction lines of 2-8 fragments (a right-to-left line of Hebrew or Arabic words, or a left-to-right line, with separate direction-neutral fragments - numbers, punctuation marks, currency signs, short compounds like 12:30 or $150 - and embedded words of the other direction in the minority; written in visual left-to-right, logical or random stream order, also character by character). plus marks pages: standard and bidi pages in which characters that are neither white space nor printable - format characters (ZWNJ, ZWJ, soft hyphen, bidi marks and embedding controls, word joiner), private-use glyph codes of symbol fonts (U+F0B7 and others, also as the bullet of a list), C0/C1 control characters other than white space, unassigned code points and non-characters - stand at the start, inside or at the end of fragment texts or as fragments of their own. plus bound pages for the resource bounds of PreserveLayout (at most 100 newlines per vertical gap, target column at most 200) and of the column histogram (page width below 5242880 = 2^20 buckets): edge pages 1200 wide set in size 10 whose lines ask for 1, 2, 99, 100, 101, 102, 150, 1000, 10^10 and 95-106 newlines and for the columns 0, 1, 199, 200, 201, 202, 250, 2000, 10^10 and 195-206; pages with text at x or y = +-1e14, 4e18 and (direct API only) 1e30 / 1e300, on a sheet 2^-30 or 0 wide, set in a font of size 2^-30 or 0, lines without height; generated pages on sheets 5242875, 5242879.75, 5242880, 5242880.25, 5242885, 1e12 and 13107200 wide; the witness of the histogram repair (20000 fragments as wide as a sheet of 5242000 points; oracles only, 3-6 such fragments also through the model). Non-trivial = the page has fragments."
	// bidi pages first, and among them first the ones small enough to travel in
	// the replay file: a failure then shows its input
	m := c.N(60, 600)
	for pass := 0; pass < 2; pass++ {
		for i := bidiBase; i < bidiBase+m; i++ {
			pg := genPageKind(c.Rng.Fork(uint64(i)), kindBidi)
			if (len(pg.F) <= 60) != (pass == 0) {
				continue
			}
			k := mkCase(c, i, kindBidi, pg)
			c.Current(k)
			for _, t := range pg.Tags {
				c.Count(t)
			}
			runPage(c, k, pg)
			c.Case(fmt.Sprintf("%d/%d", c.Seed, i), len(pg.F) > 0)
		}
	}
	// marks pages: standard and bidi pages with format, private-use, control and
	// unassigned characters in their fragments (small ones first, as above)
	mm := c.N(60, 600)
	for pass := 0; pass < 2; pass++ {
		for i := marksBase; i < marksBase+mm; i++ {
			pg := genPageKind(c.Rng.Fork(uint64(i)), kindMarks)
			if (len(pg.F) <= 60) != (pass == 0) {
				continue
			}
			k := mkCase(c, i, kindMarks, pg)
			c.Current(k)
			for _, t := range pg.Tags {
				c.Count(t)
			}
			runPage(c, k, pg)
			c.Case(fmt.Sprintf("%d/%d", c.Seed, i), len(pg.F) > 0)
		}
	}
	n := c.N(150, 1500)
	for i := 0; i < n; i++ {
		r := c.Rng.Fork(uint64(i))
		pg := genPage(r)
		k := mkCase(c, i, "", pg)
		c.Current(k)
		for _, t := range pg.Tags {
			c.Count(t)
		}
		runPage(c, k, pg)
		c.Case(fmt.Sprintf("%d/%d", c.Seed, i), len(pg.F) > 0)
	}
	// documents of several pages: the page loops of the public entry points
	for i := 0; i < c.N(25, 250); i++ {
		k := kase{Seed: c.Seed, Index: docBase + i, Kind: kindDoc}
		c.Current(k)
		runDoc(c, k)
		c.Case(fmt.Sprintf("%d/%d", c.Seed, docBase+i), true)
	}
	// pages of white-space fragments only: the fall-backs of the text paths
	for i := 0; i < c.N(30, 300); i++ {
		opBlankPage(c, c.Rng.Fork(uint64(2*bidiBase+i)), 612, 792)
	}
	// the resource bounds of PreserveLayout and of the column histogram, from both sides
	runBounds(c)
}

func Replay(c *hx.Ctx, m map[string]interface{}) {
	defer flushChecks(c)
	var k kase
	if err := hx.Remarshal(m, &k); err != nil {
		c.Note("bad case: %v", err)
		return
	}
	if k.Kind == kindDoc {
		c.Seed = k.Seed
		runDoc(c, k)
		return
	}
	if k.Kind == kindBound {
		c.Seed = k.Seed
		if k.Index == boundBase-2 {
			runHistogramWitness(c, k, hx.NewRng(k.Seed).Fork(uint64(k.Index)))
			return
		}
		if k.Index < boundBase {
			runBeyondInt64(c, k, hx.NewRng(k.Seed).Fork(uint64(k.Index)))
			return
		}
		pg, want := genBound(k.Seed, k.Index)
		runBound(c, k, pg, want)
		return
	}
	var pg Page
	if k.Page != nil {
		pg = *k.Page
	} else {
		c.Seed = k.Seed
		pg = genPageKind(hx.NewRng(k.Seed).Fork(uint64(k.Index)), k.Kind)
	}
	runPage(c, k, pg)
}
