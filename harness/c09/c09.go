// Package c09: layout analysis never loses, invents or duplicates text.
package c09

import (
	"fmt"
	"strings"

	"verifharness/hx"
)

func init() { hx.Register("C09", Run, Replay) }

type kase struct {
	Seed  uint64 `json:"seed"`
	Index int    `json:"index"`
	Tags  string `json:"tags"`
	Page  *Page  `json:"page,omitempty"`
}

func mkCase(c *hx.Ctx, i int, pg Page) kase {
	k := kase{Seed: c.Seed, Index: i, Tags: strings.Join(pg.Tags, ",")}
	if len(pg.F) <= 60 {
		k.Page = &pg
	}
	return k
}

func runPage(c *hx.Ctx, k kase, pg Page) {
	if len(pg.F) <= 400 {
		mechanisms(c, k, pg)
	} else {
		c.Count("mechanism-ops-skipped:more-than-400-fragments")
	}
	oracleLayout(c, k, pg)
	oraclePDF(c, k, pg)
}

func Run(c *hx.Ctx) {
	c.Rep.Rule = "synthetic pages (integer coordinates over a denominator 1, 2 or 4): 1-4 columns of ragged or justified lines of unique tokens, headings of larger size, lists, single-word lines, short last lines, right-to-left runs, spanning titles, character-level fragmentation, exact and shifted duplicate layers, an outlier word, a zero-width glyph at the right edge, narrow marks in the left margin, a one-character line, boxes higher than the font size, visual / row-major / shuffled stream order, inverted Y, scaled coordinates; each page goes through the layout detectors directly and, rendered to PDF, through the public API in every text mode. Non-trivial = the page has fragments."
	n := c.N(150, 1500)
	for i := 0; i < n; i++ {
		r := c.Rng.Fork(uint64(i))
		pg := genPage(r)
		k := mkCase(c, i, pg)
		c.Current(k)
		for _, t := range pg.Tags {
			c.Count(t)
		}
		runPage(c, k, pg)
		c.Case(fmt.Sprintf("%d/%d", c.Seed, i), len(pg.F) > 0)
	}
}

func Replay(c *hx.Ctx, m map[string]interface{}) {
	var k kase
	if err := hx.Remarshal(m, &k); err != nil {
		c.Note("bad case: %v", err)
		return
	}
	var pg Page
	if k.Page != nil {
		pg = *k.Page
	} else {
		c.Seed = k.Seed
		pg = genPage(hx.NewRng(k.Seed).Fork(uint64(k.Index)))
	}
	runPage(c, k, pg)
}
