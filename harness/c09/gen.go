package c09

import (
	"fmt"
	"sort"
	"strconv"
	"strings"
	"unicode"

	"github.com/tsawler/tabula/text"

	"verifharness/hx"
)

// Frag is one positioned fragment of a synthetic page. Coordinates are integer
// numerators over Page.Den (Den is 1, 2 or 4: "scaled coordinates" stay dyadic,
// so float64 holds them exactly).
type Frag struct {
	ID  int    `json:"id"`
	T   string `json:"t"`
	X   int    `json:"x"`
	Y   int    `json:"y"`
	W   int    `json:"w"`
	H   int    `json:"h"`
	FS  int    `json:"fs"`
	RTL bool   `json:"rtl,omitempty"`
	// Neu: the fragment has no strong-direction character (digits, punctuation,
	// currency signs, bullets): its direction is Neutral (UAX #9 classes EN, ES,
	// ET, CS, ON), whatever line it stands on.
	Neu bool `json:"neu,omitempty"`
}

// Page is a synthetic page: the quantifier of C09.
type Page struct {
	W    int      `json:"w"`
	H    int      `json:"h"`
	Den  int      `json:"den"`
	F    []Frag   `json:"f"`
	Tags []string `json:"tags,omitempty"`
}

func (p Page) has(tag string) bool {
	for _, t := range p.Tags {
		if t == tag {
			return true
		}
	}
	return false
}

// toLayout converts to tabula fragments; the id travels in FontName.
func toLayout(p Page) []text.TextFragment {
	d := float64(p.Den)
	out := make([]text.TextFragment, len(p.F))
	for i, f := range p.F {
		dir := text.LTR
		if f.RTL {
			dir = text.RTL
		} else if f.Neu {
			dir = text.Neutral
		}
		out[i] = text.TextFragment{Text: f.T, X: float64(f.X) / d, Y: float64(f.Y) / d, Width: float64(f.W) / d,
			Height: float64(f.H) / d, FontSize: float64(f.FS) / d, FontName: fmt.Sprintf("f%d", f.ID), Direction: dir}
	}
	return out
}

func fragID(f text.TextFragment) int {
	n := -1
	fmt.Sscanf(f.FontName, "f%d", &n)
	return n
}

// ---- tokens -------------------------------------------------------------------------

func base(n, b int, first rune) string {
	if n == 0 {
		return string(first)
	}
	var rs []rune
	for n > 0 {
		rs = append([]rune{first + rune(n%b)}, rs...)
		n /= b
	}
	return string(rs)
}

// latinToken: random letters a-y, the separator 'z', then the id in base 25
// over a-y: distinct ids give distinct tokens.
func latinToken(r *hx.Rng, id, minLen int) string {
	var sb strings.Builder
	s := base(id, 25, 'a')
	n := r.Intn(5)
	for n+1+len(s) < minLen {
		n++
	}
	for i := 0; i < n; i++ {
		sb.WriteRune('a' + rune(r.Intn(25)))
	}
	sb.WriteByte('z')
	sb.WriteString(s)
	return sb.String()
}

// hebrewToken: U+05D0..U+05E8 digits, U+05E9 separator.
func hebrewToken(r *hx.Rng, id int) string {
	var sb strings.Builder
	for i := r.Intn(3); i > 0; i-- {
		sb.WriteRune(0x05D0 + rune(r.Intn(25)))
	}
	sb.WriteRune(0x05E9)
	sb.WriteString(base(id, 25, 0x05D0))
	return sb.String()
}

// arabicToken: U+0628..U+0637 digits, U+0638 separator.
func arabicToken(r *hx.Rng, id int) string {
	var sb strings.Builder
	for i := r.Intn(3); i > 0; i-- {
		sb.WriteRune(0x0628 + rune(r.Intn(16)))
	}
	sb.WriteRune(0x0638)
	sb.WriteString(base(id, 16, 0x0628))
	return sb.String()
}

// neutralToken: a fragment text without any strong-direction character, of the
// kinds that stand as separate fragments on real pages: numbers (years,
// amounts), one punctuation mark, a currency sign, or a short ASCII compound
// (time, bracketed number, price, percentage, range).
func neutralToken(r *hx.Rng, id int) string {
	num := func() string {
		switch r.Intn(3) {
		case 0:
			return strconv.Itoa(r.Range(1990, 2030))
		case 1:
			return strconv.Itoa(r.Range(0, 999))
		}
		return strconv.Itoa(id)
	}
	switch r.Intn(8) {
	case 0, 1, 2:
		return num()
	case 3, 4:
		return []string{":", "-", "(", ")", ",", ".", "/", "%", "+", "=", "*", "#", "!", "?", ";"}[r.Intn(15)]
	case 5:
		return []string{"$", "\u20aa", "\u20ac", "\u00a3"}[r.Intn(4)]
	}
	switch r.Intn(6) {
	case 0:
		return fmt.Sprintf("%d:%02d", r.Range(0, 23), r.Range(0, 59))
	case 1:
		return "(" + num() + ")"
	case 2:
		return "$" + num()
	case 3:
		return fmt.Sprintf("%d.%d%%", r.Range(0, 99), r.Intn(10))
	case 4:
		return num() + "-" + num()
	}
	return num() + "/" + strconv.Itoa(r.Range(1, 31))
}

// ---- page builder -------------------------------------------------------------------

type builder struct {
	r    *hx.Rng
	p    Page
	tags map[string]bool
	tok  int  // token counter: every generated word is distinct
	bidi bool // bidi page: columns also carry mixed-direction lines (bidiBlock)
}

func (b *builder) tag(t string) { b.tags[t] = true }

// noStrongChar: the text has no letter at all (list markers "-", "1.", "•",
// numbers, punctuation, currency signs): a direction-neutral fragment.
func noStrongChar(t string) bool {
	for _, c := range t {
		if unicode.IsLetter(c) {
			return false
		}
	}
	return true
}

func (b *builder) add(t string, x, y, w, h, fs int, rtl bool) int {
	id := len(b.p.F)
	b.p.F = append(b.p.F, Frag{ID: id, T: t, X: x, Y: y, W: w, H: h, FS: fs, RTL: rtl, Neu: !rtl && noStrongChar(t)})
	return id
}

func runeLen(s string) int { return len([]rune(s)) }

type lineOpt struct {
	justify bool
	rtl     int // 0 latin, 1 hebrew, 2 arabic
	chars   bool
	maxW    int // at most this many words (0 = fill)
	minLen  int
	prefix  string // list marker placed as its own first fragment
}

type wd struct {
	t string
	w int
}

func (b *builder) word(o lineOpt) string {
	b.tok++
	switch o.rtl {
	case 1:
		return hebrewToken(b.r, b.tok)
	case 2:
		return arabicToken(b.r, b.tok)
	}
	return latinToken(b.r, b.tok, o.minLen)
}

// words chooses the words of one line of the given width; cw = fs/2 is the
// advance per character, one cw between words.
func (b *builder) words(width, fs int, o lineOpt) ([]wd, int) {
	cw := fs / 2
	var ws []wd
	used := 0
	if o.prefix != "" {
		ws = append(ws, wd{o.prefix, runeLen(o.prefix) * cw})
		used = ws[0].w
	}
	for {
		t := b.word(o)
		w := runeLen(t) * cw
		need := w
		if len(ws) > 0 {
			need += cw
		}
		if used+need > width && len(ws) > 0 {
			break
		}
		ws = append(ws, wd{t, w})
		used += need
		if o.maxW > 0 && len(ws) >= o.maxW+btoi(o.prefix != "") {
			break
		}
		if used >= width {
			break
		}
	}
	return ws, used
}

// place puts the words on one baseline inside [x0, x0+width].
func (b *builder) place(ws []wd, used, x0, y, width, fs int, o lineOpt) {
	cw := fs / 2
	gaps := len(ws) - 1
	extra := 0
	if o.justify && gaps > 0 && width > used {
		extra = width - used
	}
	x := x0
	if o.rtl != 0 {
		x = x0 + width
	}
	for i, w := range ws {
		sp := 0
		if i > 0 {
			sp = cw
			if extra > 0 {
				q := extra / gaps
				if i <= extra%gaps {
					q++
				}
				sp += q
			}
		}
		if o.rtl != 0 {
			x -= sp + w.w
			b.emit(w.t, x, y, w.w, fs, o)
		} else {
			x += sp
			b.emit(w.t, x, y, w.w, fs, o)
			x += w.w
		}
	}
}

func (b *builder) line(x0, y, width, fs int, o lineOpt) {
	ws, used := b.words(width, fs, o)
	b.place(ws, used, x0, y, width, fs, o)
}

func btoi(b bool) int {
	if b {
		return 1
	}
	return 0
}

func (b *builder) emit(t string, x, y, w, fs int, o lineOpt) {
	if !o.chars {
		b.add(t, x, y, w, fs, fs, o.rtl != 0)
		return
	}
	rs := []rune(t)
	cw := fs / 2
	for i, c := range rs {
		cx := x + i*cw
		if o.rtl != 0 {
			cx = x + (len(rs)-1-i)*cw
		}
		b.add(string(c), cx, y, cw, fs, fs, o.rtl != 0)
	}
}

// ---- mixed-direction lines ----------------------------------------------------------

const (
	dirLTR = iota
	dirRTL
	dirNeu
)

// bidiLine puts one line of 2..8 fragments on the baseline y: words of the
// dominant direction (Hebrew/Arabic for a right-to-left line, Latin for a
// left-to-right one) in strict majority over words of the other direction,
// plus separate direction-neutral fragments (numbers, punctuation, currency
// signs). The logical sequence runs from the right edge leftwards on a
// right-to-left line and from the left edge rightwards otherwise. The
// fragments enter the stream in visual left-to-right order (what most
// producers write for shaped text), in logical order, or in random order.
func (b *builder) bidiLine(x0, y, width, fs, script int, domRTL, chars bool) {
	r := b.r
	cw := fs / 2
	n := r.Range(2, 8)
	nNeu := 0
	if r.Chance(5, 6) {
		nNeu = r.Range(1, n-1)
	}
	rest := n - nNeu
	nOth := r.Intn((rest-1)/2 + 1) // other-direction words: fewer than the dominant ones
	kinds := make([]int, 0, n)
	dom, oth := dirLTR, dirRTL
	if domRTL {
		dom, oth = dirRTL, dirLTR
	}
	for i := 0; i < n; i++ {
		switch {
		case i < nNeu:
			kinds = append(kinds, dirNeu)
		case i < nNeu+nOth:
			kinds = append(kinds, oth)
		default:
			kinds = append(kinds, dom)
		}
	}
	hx.Shuffle(r, kinds)

	type piece struct {
		t        string
		x, w, kd int
	}
	var ps []piece
	pos := 0 // distance from the line's starting edge
	cnt := [3]int{}
	for i, kd := range kinds {
		b.tok++
		var t string
		switch kd {
		case dirNeu:
			t = neutralToken(r, b.tok)
		case dirRTL:
			if script == 2 {
				t = arabicToken(r, b.tok)
			} else {
				t = hebrewToken(r, b.tok)
			}
		default:
			t = latinToken(r, b.tok, 2)
		}
		w := runeLen(t) * cw
		gap := 0
		if i > 0 {
			gap = cw
			if (kd == dirNeu || kinds[i-1] == dirNeu) && r.Chance(1, 3) {
				gap = r.Intn(2) * (cw / 2) // a mark set close to its neighbour
			}
		}
		if i >= 2 && pos+gap+w > width {
			break
		}
		pos += gap
		x := x0 + pos
		if domRTL {
			x = x0 + width - pos - w
		}
		pos += w
		cnt[kd]++
		if !chars {
			ps = append(ps, piece{t, x, w, kd})
			continue
		}
		rs := []rune(t)
		for j, c := range rs { // characters in reading order; a right-to-left word runs leftwards
			cx := x + j*cw
			if kd == dirRTL {
				cx = x + (len(rs)-1-j)*cw
			}
			ps = append(ps, piece{string(c), cx, cw, kd})
		}
	}
	switch {
	case domRTL && cnt[dirNeu] > 0 && cnt[dirRTL] > cnt[dirLTR]:
		b.tag("rtl-line-with-neutral")
	case !domRTL && cnt[dirNeu] > 0:
		b.tag("ltr-line-with-neutral")
	}
	if cnt[oth] > 0 {
		if domRTL {
			b.tag("rtl-line-with-ltr-word")
		} else {
			b.tag("ltr-line-with-rtl-word")
		}
	}
	switch r.Intn(6) {
	case 0, 1, 2:
		sort.SliceStable(ps, func(i, j int) bool { return ps[i].x < ps[j].x })
		b.tag("bidi-emit-visual")
	case 3, 4:
		b.tag("bidi-emit-logical")
	default:
		hx.Shuffle(r, ps)
		b.tag("bidi-emit-random")
	}
	for _, p := range ps {
		id := b.add(p.t, p.x, y, p.w, fs, fs, p.kd == dirRTL)
		b.p.F[id].Neu = p.kd == dirNeu
	}
}

// bidiBlock: 1-4 consecutive mixed-direction lines of one script.
func (b *builder) bidiBlock(x0, width, y, yBottom, fs, lead int, chars bool) int {
	r := b.r
	n := r.Range(1, 4)
	script := r.Range(1, 2)
	domRTL := r.Chance(3, 4)
	for i := 0; i < n && y > yBottom; i++ {
		b.bidiLine(x0, y, width, fs, script, domRTL, chars)
		y -= lead
	}
	b.tag("bidi-lines")
	return y - r.Range(4, 10)
}

// column fills one column from yTop down to yBottom with headings, paragraphs,
// lists, single-word lines and short last lines.
func (b *builder) column(x0, width, yTop, yBottom, fs int, chars bool) {
	r := b.r
	lead := fs + r.Range(2, 5)
	justify := r.Chance(1, 3)
	if justify {
		b.tag("justified")
	} else {
		b.tag("ragged")
	}
	y := yTop
	for y > yBottom {
		if b.bidi && r.Chance(2, 5) { // (no draw on a standard page: its stream is unchanged)
			y = b.bidiBlock(x0, width, y, yBottom, fs, lead, chars)
			continue
		}
		switch k := r.Intn(10); {
		case k == 0: // heading of larger size
			hfs := fs + 2*r.Range(2, 5)
			y -= hfs - fs
			if y <= yBottom {
				return
			}
			b.line(x0, y, width, hfs, lineOpt{maxW: r.Range(1, 3), chars: chars, minLen: 3})
			b.tag("heading")
			y -= lead + r.Range(2, 8)
		case k == 1: // list
			n := r.Range(2, 4)
			numbered := r.Bool()
			for i := 0; i < n && y > yBottom; i++ {
				pre := "-"
				if numbered {
					pre = fmt.Sprintf("%d.", i+1)
				} else if r.Bool() {
					pre = "•"
				}
				b.line(x0+r.Range(0, 1)*fs, y, width-fs, fs, lineOpt{maxW: r.Range(1, 6), prefix: pre, chars: chars})
				y -= lead
			}
			b.tag("list")
			y -= r.Range(4, 10)
		case k == 2: // single-word line
			b.line(x0, y, width, fs, lineOpt{maxW: 1, chars: chars, minLen: r.Range(1, 8)})
			b.tag("single-word-line")
			y -= lead + r.Range(0, 8)
		case k == 3 && !chars: // right-to-left run
			n := r.Range(1, 3)
			script := r.Range(1, 2)
			for i := 0; i < n && y > yBottom; i++ {
				b.line(x0, y, width, fs, lineOpt{rtl: script, maxW: r.Range(1, 6)})
				y -= lead
			}
			b.tag("rtl")
			y -= r.Range(4, 10)
		default: // paragraph with a short last line
			n := r.Range(1, 6)
			indent := 0
			if r.Chance(1, 4) {
				indent = 2 * fs
			}
			for i := 0; i < n && y > yBottom; i++ {
				o := lineOpt{justify: justify && i < n-1, chars: chars}
				xi, wi := x0, width
				if i == 0 {
					xi, wi = x0+indent, width-indent
				}
				if i == n-1 && n > 1 {
					o.maxW = r.Range(1, 4)
					b.tag("short-last-line")
				}
				b.line(xi, y, wi, fs, o)
				y -= lead
			}
			y -= r.Range(0, 2) * (fs / 2) * 2
		}
	}
}

// genPage draws one synthetic page.
func genPage(r *hx.Rng) Page { return genPageKind(r, "") }

// kindBidi pages are standard pages whose columns, between the left-to-right
// paragraphs, headings and lists, also carry mixed-direction lines.
const kindBidi = "bidi"

func genPageKind(r *hx.Rng, kind string) Page {
	if kind == kindMarks {
		return genMarksPage(r)
	}
	b := &builder{r: r, tags: map[string]bool{}, bidi: kind == kindBidi}
	if b.bidi {
		b.tag("bidi-page")
	}
	W, H := 612, 792
	if r.Chance(1, 5) {
		W, H = 10*r.Range(40, 90), 10*r.Range(50, 100)
	}
	b.p = Page{W: W, H: H, Den: 1}
	margin := r.Range(36, 72)
	ncols := []int{1, 1, 2, 2, 2, 3, 3, 4}[r.Intn(8)]
	gutter := r.Range(20, 44)
	fs := 2 * r.Range(4, 6)
	if ncols == 4 {
		fs = 8
	}
	chars := r.Chance(1, 8)
	if chars {
		b.tag("char-level")
	}
	small := b.bidi && r.Chance(1, 3) // a few lines in one column: the failing input fits into the replay file
	if small {
		ncols = 1
	}
	b.tag(fmt.Sprintf("cols-%d", ncols))
	colW := (W - 2*margin - (ncols-1)*gutter) / ncols
	top := H - margin - fs
	bottom := margin + r.Range(0, H/2)
	if small {
		bottom = top - fs*r.Range(3, 12)
		b.tag("bidi-small")
	}
	if r.Chance(1, 3) { // spanning title across the columns
		tfs := fs + 2*r.Range(3, 7)
		top -= tfs - fs
		n := r.Range(1, 3)
		for i := 0; i < n; i++ {
			o := lineOpt{maxW: r.Range(2, 6), minLen: 4}
			ws, used := b.words(W-2*margin, tfs, o)
			b.place(ws, used, margin+(W-2*margin-used)/2, top, used, tfs, o)
			top -= tfs + r.Range(2, 6)
		}
		b.tag("spanning-title")
		top -= r.Range(10, 40)
	}
	for cidx := 0; cidx < ncols; cidx++ {
		x0 := margin + cidx*(colW+gutter)
		cb := bottom
		if r.Chance(1, 4) {
			cb = bottom + r.Range(0, (top-bottom)/2)
		}
		b.column(x0, colW, top, cb, fs, chars)
	}

	// adversarial details the mechanisms are sensitive to
	if r.Chance(1, 6) && len(b.p.F) > 0 { // a word that sticks out past the right edge of everything
		f := b.p.F[r.Intn(len(b.p.F))]
		maxR := 0
		for _, g := range b.p.F {
			if g.X+g.W > maxR {
				maxR = g.X + g.W
			}
		}
		b.tok++
		t := latinToken(r, b.tok, r.Range(2, 6))
		b.add(t, maxR+r.Range(20, 60), f.Y, runeLen(t)*f.FS/2, f.H, f.FS, false)
		b.tag("outlier-word")
	}
	if r.Chance(1, 8) && len(b.p.F) > 0 { // a zero-width glyph at the right edge of the content
		maxR, at := 0, 0
		for i, g := range b.p.F {
			if g.X+g.W > maxR {
				maxR, at = g.X+g.W, i
			}
		}
		g := b.p.F[at]
		b.tok++
		b.add(latinToken(r, b.tok, 1), maxR, g.Y, 0, g.H, g.FS, false)
		b.tag("zero-width-at-edge")
	}
	if margin >= 45 && r.Chance(1, 5) { // a narrow run of marks in the left margin (a column < 50 pt before the body)
		n := r.Range(1, 5)
		for i := 0; i < n; i++ {
			b.tok++
			t := latinToken(r, b.tok, 1)
			if len(t) > 3 {
				t = t[len(t)-3:]
			}
			b.add(t, 4, top-i*3*fs, runeLen(t)*fs/2, fs, fs, false)
		}
		b.tag("left-margin-marks")
	}
	if r.Chance(1, 6) { // a one-character line of its own (narrow)
		y := margin / 2
		b.add(string(rune('A'+r.Intn(26))), margin+r.Range(0, 200), y, fs/2, fs, fs, false)
		b.tag("narrow-line")
	}
	if r.Chance(1, 5) && len(b.p.F) > 0 { // duplicate layers
		n := r.Range(1, 6)
		base := len(b.p.F)
		for i := 0; i < n; i++ {
			f := b.p.F[r.Intn(base)]
			if r.Bool() {
				b.add(f.T, f.X, f.Y, f.W, f.H, f.FS, f.RTL) // exact copy
				b.tag("dup-exact")
			} else {
				dx, dy := 0, 0
				if r.Bool() {
					dx = r.Range(2, 4)
				} else {
					dy = r.Range(2, 3)
				}
				b.add(f.T, f.X+dx, f.Y+dy, f.W, f.H, f.FS, f.RTL)
				b.tag("dup-near")
			}
		}
	}

	if r.Chance(1, 5) { // fragment boxes higher than the font size, mixed within a line
		for i := range b.p.F {
			if r.Chance(1, 4) {
				b.p.F[i].H = b.p.F[i].FS + 2*r.Range(1, 3)
			}
		}
		b.tag("mixed-heights")
	}

	// stream order
	switch r.Intn(6) {
	case 0:
		hx.Shuffle(r, b.p.F)
		b.tag("order-shuffled")
	case 1: // row-major (interleaved columns)
		sort.SliceStable(b.p.F, func(i, j int) bool {
			if b.p.F[i].Y != b.p.F[j].Y {
				return b.p.F[i].Y > b.p.F[j].Y
			}
			return b.p.F[i].X < b.p.F[j].X
		})
		b.tag("order-rowmajor")
	default:
		b.tag("order-visual")
	}

	// coordinate system
	if r.Chance(1, 6) { // inverted Y: y grows downwards
		for i := range b.p.F {
			b.p.F[i].Y = H - b.p.F[i].Y - b.p.F[i].H
		}
		b.tag("inverted-y")
	}
	switch r.Intn(8) {
	case 0:
		b.p.Den = 2
		b.tag("scaled-1/2")
	case 1:
		b.p.Den = 4
		b.tag("scaled-1/4")
	case 2:
		k := r.Range(2, 3)
		for i := range b.p.F {
			f := &b.p.F[i]
			f.X, f.Y, f.W, f.H, f.FS = f.X*k, f.Y*k, f.W*k, f.H*k, f.FS*k
		}
		b.p.W, b.p.H = b.p.W*k, b.p.H*k
		b.tag(fmt.Sprintf("scaled-x%d", k))
	}
	for i := range b.p.F { // ids follow the final stream order
		b.p.F[i].ID = i
	}
	for t := range b.tags {
		b.p.Tags = append(b.p.Tags, t)
	}
	sort.Strings(b.p.Tags)
	return b.p
}
