package c09

import (
	"math"
	"sort"
	"strconv"
	"strings"

	"verifharness/hx"

	"github.com/tsawler/tabula/layout"
	"github.com/tsawler/tabula/model"
	"github.com/tsawler/tabula/text"
)

// ---- the analysis elements: where headings and lists come from ----------------------------

func dotIDs(fs []text.TextFragment) string {
	ids := idsOf(fs, true)
	ss := make([]string, len(ids))
	for i, v := range ids {
		ss[i] = strconv.Itoa(v)
	}
	return strings.Join(ss, ".")
}

func elemLineFrags(ls []layout.Line) []text.TextFragment {
	var out []text.TextFragment
	for _, l := range ls {
		out = append(out, l.Fragments...)
	}
	return out
}

func finiteBox(b model.BBox) bool {
	for _, x := range []float64{b.X, b.Y, b.Width, b.Height} {
		if math.IsNaN(x) || math.IsInf(x, 0) {
			return false
		}
	}
	return true
}

// opElements: AnalysisResult.Elements as a function of the page paragraphs (whole-page lines
// grouped by ParagraphDetector, with the heading decision and the list type of each), and of
// the reading-order paragraphs: headings = accepted page paragraphs, lists = the runs
// groupIntoLists builds (index / gap / type rule, runs of one item dropped, box of
// calculateListBBox, nested items included); a heading that is an item of a list is left to the
// list; of every paragraph the fragments that no emitted heading and no list shows (the box of a
// reduced paragraph is taken from the implementation).
func opElements(c *hx.Ctx, frs []text.TextFragment, w, h float64) {
	if len(frs) == 0 {
		return
	}
	ar := layout.NewAnalyzer().Analyze(cp(frs), w, h)
	if ar.Paragraphs == nil {
		return
	}
	ll := layout.NewLineDetector().Detect(cp(frs), w, h)
	pars := layout.NewParagraphDetector().Detect(ll.Lines, w, h).Paragraphs
	isH := map[int]bool{}
	if ar.Headings != nil {
		for _, hd := range ar.Headings.Headings {
			isH[hd.Index] = true
		}
	}
	types := layout.VerifListCandidates(pars)
	var pp []string
	last := -1
	runLen, shortRun, gapJoin := 0, false, false
	for i, p := range pars {
		if !finiteBox(p.BBox) || math.IsNaN(p.AverageFontSize) || math.IsInf(p.AverageFontSize, 0) {
			return
		}
		ids := dotIDs(elemLineFrags(p.Lines))
		if ids == "" {
			return
		}
		hb := "0"
		if isH[i] {
			hb = "1"
		}
		pp = append(pp, ids+"@"+boxStr(p.BBox.X, p.BBox.Y, p.BBox.Width, p.BBox.Height)+"@"+ratOf(p.AverageFontSize)+"@"+hb+"@"+strconv.Itoa(int(types[i])))
		if types[i] != layout.ListTypeUnknown {
			if last >= 0 {
				q := pars[last]
				gap := math.Abs(q.BBox.Y - (p.BBox.Y + p.BBox.Height))
				thr := (q.AverageFontSize + p.AverageFontSize) / 2 * 2.0
				if i != last+1 && near(gap, thr) {
					drop(c, "elems")
					return
				}
				cont := (i == last+1 || gap <= thr) && types[i] == types[last]
				if cont {
					runLen++
					if i != last+1 {
						gapJoin = true
					}
				} else {
					if runLen == 1 {
						shortRun = true
					}
					runLen = 1
				}
			} else {
				runLen = 1
			}
			last = i
		}
	}
	if runLen == 1 {
		shortRun = true
	}
	// the elements first: a reduced paragraph is matched to its reading-order paragraph by ids
	var out []string
	nh, nl := 0, 0
	type pel struct {
		ids map[int]bool
		box model.BBox
	}
	var pels []pel
	for _, e := range ar.Elements {
		if !finiteBox(e.BBox) {
			return
		}
		var kind string
		var fs []text.TextFragment
		switch e.Type {
		case model.ElementTypeHeading:
			kind, fs = "H", elemLineFrags(e.Lines)
			nh++
		case model.ElementTypeList:
			kind = "L"
			nl++
			for _, it := range e.List.GetAllItems() {
				fs = append(fs, elemLineFrags(it.Lines)...)
			}
		default:
			kind, fs = "P", elemLineFrags(e.Lines)
			m := map[int]bool{}
			for _, id := range idsOf(fs, false) {
				m[id] = true
			}
			pels = append(pels, pel{m, e.BBox})
		}
		out = append(out, kind+":"+dotIDs(fs)+":"+boxStr(e.BBox.X, e.BBox.Y, e.BBox.Width, e.BBox.Height))
	}
	var rp []string
	reduced := false
	for _, p := range ar.Paragraphs.Paragraphs {
		if !finiteBox(p.BBox) {
			return
		}
		pf := elemLineFrags(p.Lines)
		ids := dotIDs(pf)
		if ids == "" {
			return
		}
		// the box of what remains of p: that of the paragraph element showing some, not all, of p
		rb := p.BBox
		pid := idsOf(pf, false)
		for _, e := range pels {
			n := 0
			for _, id := range pid {
				if e.ids[id] {
					n++
				}
			}
			if n > 0 && n == len(e.ids) && n < len(pid) {
				rb = e.box
				reduced = true
			}
		}
		rp = append(rp, ids+"@"+boxStr(p.BBox.X, p.BBox.Y, p.BBox.Width, p.BBox.Height)+"@"+boxStr(rb.X, rb.Y, rb.Width, rb.Height))
	}
	headingInList := false
	if ar.Headings != nil && nh < len(ar.Headings.Headings) {
		headingInList = true
	}
	sort.Strings(out)
	if nh > 0 {
		c.Count("elems:with-headings")
	}
	if nl > 0 {
		c.Count("elems:with-lists")
	}
	if nh == 0 && nl == 0 {
		c.Count("elems:plain")
	}
	if shortRun {
		c.Count("elems:single-candidate-is-no-list")
	}
	if gapJoin {
		c.Count("elems:list-joined-across-a-paragraph")
	}
	if reduced {
		c.Count("elems:paragraph-reduced")
	}
	if headingInList {
		c.Count("elems:heading-is-list-item")
	}
	j := func(xs []string) string {
		if len(xs) == 0 {
			return "-"
		}
		return strings.Join(xs, ";")
	}
	res := "-"
	if len(out) > 0 {
		res = strings.Join(out, "|")
	}
	c.Op("c09.elems "+j(pp)+" "+j(rp), res)
}
