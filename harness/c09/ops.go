package c09

import (
	"fmt"
	"math"
	"math/big"
	"sort"
	"strconv"
	"strings"

	"github.com/tsawler/tabula"
	"github.com/tsawler/tabula/layout"
	"github.com/tsawler/tabula/model"
	"github.com/tsawler/tabula/text"

	"verifharness/hx"
)

// Per-mechanism correspondence: the implementation function (through the
// verif hooks) against the Lean model (lean/TabulaModel/Handlers/C09.lean).
//
// Wire format: number n or n/d; fragment id,x,y,w,h,fs,hextext; fragment list
// joined by | (- empty); group list joined by ; (- none, ~ empty group); gaps
// l:r;l:r (- none); box x,y,w,h. Answers: id lists 3,1,2 (- empty),
// partitions = id lists joined by | (- none, ~ empty group), texts as hex.
//
// Float discipline (DESIGN 3.3): all coordinates are dyadic, so sums and
// halves are exact; a case is dropped from an op (counted as
// dropped:<op>-float-ambiguous) when a comparison against a non-dyadic
// product (0.35, 0.05, 0.3, 0.1, average of n values) is closer than 1e-9,
// or when a tolerance comparator is not a strict weak order on the input
// (then sort.SliceStable and the model's merge sort may legitimately differ).

func ratOf(x float64) string {
	r := new(big.Rat)
	if r.SetFloat64(x) == nil {
		return "0"
	}
	if r.IsInt() {
		return r.Num().String()
	}
	return r.Num().String() + "/" + r.Denom().String()
}

func fragStr(f text.TextFragment) string {
	return fmt.Sprintf("%d,%s,%s,%s,%s,%s,%s", fragID(f), ratOf(f.X), ratOf(f.Y), ratOf(f.Width), ratOf(f.Height), ratOf(f.FontSize), hx.HexS(f.Text))
}

func fragsStr(fs []text.TextFragment) string {
	if len(fs) == 0 {
		return "-"
	}
	ss := make([]string, len(fs))
	for i, f := range fs {
		ss[i] = fragStr(f)
	}
	return strings.Join(ss, "|")
}

func groupsStr(gs [][]text.TextFragment) string {
	if len(gs) == 0 {
		return "-"
	}
	ss := make([]string, len(gs))
	for i, g := range gs {
		if len(g) == 0 {
			ss[i] = "~"
		} else {
			ss[i] = fragsStr(g)
		}
	}
	return strings.Join(ss, ";")
}

func idsOf(fs []text.TextFragment, sorted bool) []int {
	ids := make([]int, len(fs))
	for i, f := range fs {
		ids[i] = fragID(f)
	}
	if sorted {
		sort.Ints(ids)
	}
	return ids
}

func idList(ids []int) string {
	if len(ids) == 0 {
		return "-"
	}
	ss := make([]string, len(ids))
	for i, v := range ids {
		ss[i] = strconv.Itoa(v)
	}
	return strings.Join(ss, ",")
}

func groupOut(fs []text.TextFragment, sorted bool) string {
	if len(fs) == 0 {
		return "~"
	}
	return idList(idsOf(fs, sorted))
}

func partOut(gs [][]text.TextFragment, sorted bool) string {
	if len(gs) == 0 {
		return "-"
	}
	ss := make([]string, len(gs))
	for i, g := range gs {
		ss[i] = groupOut(g, sorted)
	}
	return strings.Join(ss, "|")
}

func gapsStr(gs []layout.Gap) string {
	if len(gs) == 0 {
		return "-"
	}
	ss := make([]string, len(gs))
	for i, g := range gs {
		ss[i] = ratOf(g.Left) + ":" + ratOf(g.Right)
	}
	return strings.Join(ss, ";")
}

func cp(fs []text.TextFragment) []text.TextFragment { return append([]text.TextFragment(nil), fs...) }

const eps = 1e-9

func near(a, b float64) bool { return math.Abs(a-b) < eps }

// weakOrder reports whether less is a strict weak order on xs, and returns xs
// stably sorted by it.
func weakOrder(xs []text.TextFragment, less func(a, b text.TextFragment) bool) ([]text.TextFragment, bool) {
	s := cp(xs)
	sort.SliceStable(s, func(i, j int) bool { return less(s[i], s[j]) })
	class := make([]int, len(s))
	for i := 1; i < len(s); i++ {
		class[i] = class[i-1]
		if less(s[i-1], s[i]) {
			class[i]++
		}
	}
	for i := range s {
		for j := i + 1; j < len(s); j++ {
			lij, lji := less(s[i], s[j]), less(s[j], s[i])
			if class[i] == class[j] {
				if lij || lji {
					return s, false
				}
			} else if !lij || lji {
				return s, false
			}
		}
	}
	return s, true
}

func abs(x float64) float64 { return math.Abs(x) }

func drop(c *hx.Ctx, op string) { c.Count("dropped:" + op + "-float-ambiguous") }

// ---- lines ---------------------------------------------------------------------------

func opLines(c *hx.Ctx, frs []text.TextFragment) [][]text.TextFragment {
	groups := layout.VerifGroupIntoLines(cp(frs))
	tol := layout.VerifLineTolerance(cp(frs))
	sorted, ok := weakOrder(frs, func(a, b text.TextFragment) bool {
		d := a.Y - b.Y
		return abs(d) > tol && d > 0
	})
	// sweep ties
	var cur []text.TextFragment
	for _, f := range sorted {
		if len(cur) > 0 {
			t := 0.0
			for _, g := range cur {
				t += g.Y
			}
			if near(abs(f.Y-t/float64(len(cur))), tol) {
				ok = false
			}
			if abs(f.Y-t/float64(len(cur))) > tol {
				cur = nil
			}
		}
		cur = append(cur, f)
	}
	if !ok {
		drop(c, "lines")
	} else {
		c.Op("c09.lines "+ratOf(tol)+" "+fragsStr(frs), partOut(groups, true))
	}
	return groups
}

func opBuildLines(c *hx.Ctx, groups [][]text.TextFragment, w float64) {
	lines := layout.VerifBuildLines(groups, w)
	// a kept line is identified by its first fragment
	var kept []int
	j := 0
	for i, g := range groups {
		if j < len(lines) && len(g) > 0 && len(lines[j].Fragments) > 0 && fragID(lines[j].Fragments[0]) == fragID(g[0]) && len(lines[j].Fragments) == len(g) {
			kept = append(kept, i)
			j++
		}
	}
	out := idList(kept)
	if j != len(lines) {
		out = "not-a-sublist"
	}
	amb := false
	for _, g := range groups {
		for i := 1; i < len(g); i++ {
			if near(g[i].X-(g[i-1].X+g[i-1].Width), g[i].Height*0.1) {
				amb = true
			}
		}
	}
	if amb {
		drop(c, "blines")
		return
	}
	c.Op("c09.blines 5 "+groupsStr(groups), out)
	// the text of some lines
	for i, l := range lines {
		if i%7 == 0 {
			c.Op("c09.linetext "+fragsStr(l.Fragments), hx.HexS(l.Text))
		}
	}
}

// ---- columns --------------------------------------------------------------------------

func extent(fs []text.TextFragment, skipWs bool) float64 {
	l, r := 1e9, 0.0
	for _, f := range fs {
		if skipWs && strings.Trim(f.Text, " \t\n\r") == "" {
			continue
		}
		if f.X < l {
			l = f.X
		}
		if f.X+f.Width > r {
			r = f.X + f.Width
		}
	}
	return r - l
}

func colsAmbiguous(frs []text.TextFragment, regular []text.TextFragment) bool {
	cw := extent(frs, false)
	for _, l := range layout.VerifGroupFragmentsIntoLines(cp(frs)) {
		if near(extent(l, true), cw*0.35) {
			return true
		}
	}
	mn, mx := 1e9, 0.0
	for _, f := range regular {
		mn, mx = math.Min(mn, f.Y), math.Max(mx, f.Y)
	}
	for _, f := range frs {
		if near(f.Y, mn+(mx-mn)*0.05) {
			return true
		}
	}
	return false
}

func opColumns(c *hx.Ctx, k interface{}, frs []text.TextFragment, w, h float64) {
	bands := layout.VerifGroupFragmentsIntoLines(cp(frs))
	c.Op("c09.bands "+fragsStr(frs), partOut(bands, false))
	gaps := layout.VerifFindVerticalGaps(cp(frs), w, h)
	cl := layout.NewColumnDetector().Detect(cp(frs), w, h)
	var cols [][]text.TextFragment
	for _, col := range cl.Columns {
		cols = append(cols, col.Fragments)
	}
	if len(gaps) == 0 {
		c.Count("gaps:0")
		c.Op("c09.cols - "+fragsStr(frs), "C="+partOut(cols, true)+" S="+groupOut(cl.SpanningFragments, true))
		return
	}
	c.Count(fmt.Sprintf("gaps:%d", len(gaps)))
	reg, sp := layout.VerifSeparateSpanningFragments(cp(frs), append([]layout.Gap(nil), gaps...))
	if len(sp) > 0 {
		c.Count("spanning-detected")
	}
	// the stage-1 regular set is not observable; ambiguity of the 5% rule is tested against
	// both the final regular set and all fragments
	if colsAmbiguous(frs, reg) || colsAmbiguous(frs, frs) {
		drop(c, "cols")
		return
	}
	gs := gapsStr(gaps)
	c.Op("c09.sep "+gs+" "+fragsStr(frs), "R="+groupOut(reg, true)+" S="+groupOut(sp, true))
	created := layout.VerifCreateColumnsFromGaps(cp(reg), append([]layout.Gap(nil), gaps...), w, h)
	var cg [][]text.TextFragment
	for _, col := range created {
		cg = append(cg, col.Fragments)
	}
	c.Op("c09.create "+gs+" "+fragsStr(reg), partOut(cg, false))
	valid := layout.VerifValidateColumns(created)
	var vg [][]text.TextFragment
	for _, col := range valid {
		vg = append(vg, col.Fragments)
	}
	if len(vg) != len(cg) {
		c.Count("narrow-column-merged")
	}
	c.Op("c09.validate "+groupsStr(cg), partOut(vg, false))
	c.Op("c09.cols "+gs+" "+fragsStr(frs), "C="+partOut(cols, true)+" S="+groupOut(cl.SpanningFragments, true))
	columnProbes(c, k, reg, gaps, w, h)
}

func mkColumn(fs []text.TextFragment) layout.Column {
	col := layout.Column{Fragments: fs}
	if len(fs) > 0 {
		x0, y0, x1, y1 := fs[0].X, fs[0].Y, fs[0].X+fs[0].Width, fs[0].Y+fs[0].Height
		for _, f := range fs {
			x0, y0 = math.Min(x0, f.X), math.Min(y0, f.Y)
			x1, y1 = math.Max(x1, f.X+f.Width), math.Max(y1, f.Y+f.Height)
		}
		col.BBox.X, col.BBox.Y, col.BBox.Width, col.BBox.Height = x0, y0, x1-x0, y1-y0
	}
	return col
}

// columnProbes exercises the edges of the assignment and validation mechanisms directly:
// fragments centred exactly on every interval boundary (gap centres, left and right edge of
// the content) and column lists with narrow columns in every position.
func columnProbes(c *hx.Ctx, k interface{}, reg []text.TextFragment, gaps []layout.Gap, w, h float64) {
	if len(reg) == 0 {
		return
	}
	next := 0
	for _, f := range reg {
		if id := fragID(f); id >= next {
			next = id + 1
		}
	}
	minX, maxX := reg[0].X, reg[0].X+reg[0].Width
	for _, f := range reg {
		minX, maxX = math.Min(minX, f.X), math.Max(maxX, f.X+f.Width)
	}
	probe := func(x, wd float64) text.TextFragment {
		f := text.TextFragment{Text: fmt.Sprintf("probe%d", next), X: x, Y: reg[0].Y, Width: wd, Height: reg[0].Height,
			FontSize: reg[0].FontSize, FontName: fmt.Sprintf("f%d", next)}
		next++
		return f
	}
	in := cp(reg)
	in = append(in, probe(minX, 0), probe(maxX, 0))
	for _, g := range gaps {
		ctr := (g.Left + g.Right) / 2
		in = append(in, probe(ctr-4, 8), probe(ctr, 0))
	}
	created := layout.VerifCreateColumnsFromGaps(cp(in), append([]layout.Gap(nil), gaps...), w, h)
	var cg [][]text.TextFragment
	var all []text.TextFragment
	for _, col := range created {
		cg = append(cg, col.Fragments)
		all = append(all, col.Fragments...)
	}
	checkIDs(c, "columns-boundary-probe", k, in, all)
	c.Op("c09.create "+gapsStr(gaps)+" "+fragsStr(in), partOut(cg, false))

	// column lists: narrow first, narrow in the middle, narrow last, all narrow, with an empty one
	byX := cp(reg)
	sort.SliceStable(byX, func(i, j int) bool { return byX[i].X < byX[j].X })
	n := len(byX)
	var shapes [][][]text.TextFragment
	if n >= 4 {
		shapes = append(shapes,
			[][]text.TextFragment{byX[:1], byX[1 : n-1], byX[n-1:]},
			[][]text.TextFragment{byX[:1], byX[1:2], byX[2:]},
			[][]text.TextFragment{byX[:n/2], nil, byX[n/2 : n/2+1], byX[n/2+1:]},
			[][]text.TextFragment{byX[:1], byX[1:2]},
		)
	}
	for _, sh := range shapes {
		var cols []layout.Column
		var want []text.TextFragment
		for _, g := range sh {
			cols = append(cols, mkColumn(cp(g)))
			want = append(want, g...)
		}
		valid := layout.VerifValidateColumns(cols)
		var vg [][]text.TextFragment
		var got []text.TextFragment
		for _, col := range valid {
			vg = append(vg, col.Fragments)
			got = append(got, col.Fragments...)
		}
		checkIDs(c, "columns-validate-probe", k, want, got)
		c.Op("c09.validate "+groupsStr(sh), partOut(vg, false))
	}
}

// ---- paragraphs ------------------------------------------------------------------------

// segmentation of a line list as the op "c09.seg n bits": bit i = line i starts a group
func opSeg(c *hx.Ctx, lines []layout.Line, groups [][]layout.Line) {
	key := func(l layout.Line) string {
		if len(l.Fragments) == 0 {
			return "?"
		}
		return fmt.Sprintf("%d/%d", fragID(l.Fragments[0]), len(l.Fragments))
	}
	pos := map[string]int{}
	for i, l := range lines {
		pos[key(l)] = i
	}
	bits := make([]byte, len(lines))
	for i := range bits {
		bits[i] = '0'
	}
	var out []string
	for _, g := range groups {
		var ids []int
		for j, l := range g {
			p, ok := pos[key(l)]
			if !ok {
				p = -1
			}
			ids = append(ids, p)
			if j == 0 && p >= 0 {
				bits[p] = '1'
			}
		}
		out = append(out, idList(ids))
	}
	o := "-"
	if len(out) > 0 {
		o = strings.Join(out, "|")
	}
	c.Op(fmt.Sprintf("c09.seg %d %s", len(lines), string(bits)), o)
}

func opParagraphs(c *hx.Ctx, frs []text.TextFragment, w, h float64) {
	ll := layout.NewLineDetector().Detect(cp(frs), w, h)
	ps := layout.VerifGroupIntoParagraphs(ll.Lines)
	var gs [][]layout.Line
	for _, p := range ps {
		gs = append(gs, p.Lines)
	}
	if len(ll.Lines) > 0 {
		opSeg(c, ll.Lines, gs)
	}
}

// ---- blocks -----------------------------------------------------------------------------

func lineXR(l []text.TextFragment) (float64, float64) {
	a, b := l[0].X, l[0].X+l[0].Width
	for _, f := range l {
		a, b = math.Min(a, f.X), math.Max(b, f.X+f.Width)
	}
	return a, b
}

func blocksAmbiguous(lines [][]text.TextFragment, blocks []layout.Block) bool {
	for i := 1; i < len(lines); i++ {
		p, q := lines[i-1], lines[i]
		pl, pr := lineXR(p)
		ql, qr := lineXR(q)
		hg := 0.0
		if !(pr > ql && qr > pl) {
			if ql > pr {
				hg = ql - pr
			} else {
				hg = pl - qr
			}
		}
		t, hp, hq := 0.0, 0.0, 0.0
		for _, f := range p {
			t += f.FontSize
			hp += f.Height
		}
		for _, f := range q {
			hq += f.Height
		}
		if near(hg, t/float64(len(p))*3) {
			return true
		}
		minP, maxQ := p[0].Y, q[0].Y+q[0].Height
		for _, f := range p {
			minP = math.Min(minP, f.Y)
		}
		for _, f := range q {
			maxQ = math.Max(maxQ, f.Y+f.Height)
		}
		if near(minP-maxQ, (hp/float64(len(p))+hq/float64(len(q)))/2*1.5) {
			return true
		}
	}
	// merge simulation on boxes
	type box struct{ x, y, w, h float64 }
	bs := make([]box, len(blocks))
	for i, b := range blocks {
		bs[i] = box{b.BBox.X, b.BBox.Y, b.BBox.Width, b.BBox.Height}
	}
	used := make([]bool, len(bs))
	for i := range bs {
		if used[i] {
			continue
		}
		cur := bs[i]
		for j := i + 1; j < len(bs); j++ {
			if used[j] {
				continue
			}
			o := bs[j]
			l, r := math.Max(cur.x, o.x), math.Min(cur.x+cur.w, o.x+o.w)
			bo, t := math.Max(cur.y, o.y), math.Min(cur.y+cur.h, o.y+o.h)
			if l >= r || bo >= t {
				continue
			}
			inter, small := (r-l)*(t-bo), math.Min(cur.w*cur.h, o.w*o.h)*0.3
			if near(inter, small) {
				return true
			}
			if inter > small {
				x0, y0 := math.Min(cur.x, o.x), math.Min(cur.y, o.y)
				x1, y1 := math.Max(cur.x+cur.w, o.x+o.w), math.Max(cur.y+cur.h, o.y+o.h)
				cur = box{x0, y0, x1 - x0, y1 - y0}
				used[j] = true
			}
		}
	}
	return false
}

func blocksOut(bs []layout.Block) string {
	var gs [][]int
	for _, b := range bs {
		ids := idsOf(b.Fragments, true)
		var lf []text.TextFragment
		for _, l := range b.Lines {
			lf = append(lf, l...)
		}
		if fmt.Sprint(idsOf(lf, true)) != fmt.Sprint(ids) {
			return "fragments-and-lines-differ"
		}
		gs = append(gs, ids)
	}
	sort.Slice(gs, func(i, j int) bool {
		a, b := 0, 0
		if len(gs[i]) > 0 {
			a = gs[i][0]
		}
		if len(gs[j]) > 0 {
			b = gs[j][0]
		}
		return a < b
	})
	if len(gs) == 0 {
		return "-"
	}
	ss := make([]string, len(gs))
	for i, g := range gs {
		ss[i] = idList(g)
	}
	return strings.Join(ss, "|")
}

func opBlocks(c *hx.Ctx, k interface{}, frs []text.TextFragment, w, h float64) {
	lines := layout.VerifBlockGroupIntoLines(cp(frs))
	var lf []text.TextFragment
	for _, l := range lines {
		lf = append(lf, l...)
	}
	checkIDs(c, "blocks-linegroups", k, frs, lf)
	grouped := layout.VerifGroupLinesIntoBlocks(lines)
	if blocksAmbiguous(lines, grouped) {
		drop(c, "blocks")
		return
	}
	var gg [][]text.TextFragment
	for _, b := range grouped {
		gg = append(gg, b.Fragments)
	}
	c.Op("c09.bgroup "+groupsStr(lines), partOut(gg, true))
	final := layout.NewBlockDetector().Detect(cp(frs), w, h)
	// Detect runs the same line grouping again: sort.Slice is not stable, compare only when it
	// reproduced the same groups
	again := layout.VerifBlockGroupIntoLines(cp(frs))
	if partOut(again, false) != partOut(lines, false) {
		c.Count("dropped:blocks-unstable-sort")
		return
	}
	if len(final.Blocks) < len(grouped) {
		c.Count("blocks-merged")
	}
	c.Op("c09.blocks "+groupsStr(lines), blocksOut(final.Blocks))
}

// ---- element tree -----------------------------------------------------------------------

func boxStr(x, y, w, h float64) string {
	return ratOf(x) + "," + ratOf(y) + "," + ratOf(w) + "," + ratOf(h)
}

// opElementTree: which reading-order paragraphs buildElementTree does not emit
// as they are (dropped or reduced), as a function of the fragment ids of the
// headings, of the lists and of the paragraphs (coverage is decided by fragment
// identity since the repair of the element tree).
func opElementTree(c *hx.Ctx, frs []text.TextFragment, w, h float64) {
	ar := layout.NewAnalyzer().Analyze(cp(frs), w, h)
	if ar.Paragraphs == nil {
		return
	}
	var hb, lb, pb []string
	ok := true
	add := func(dst *[]string, fs []text.TextFragment) {
		ids := dotIDs(fs)
		if ids == "" {
			ok = false
		}
		*dst = append(*dst, ids)
	}
	if ar.Headings != nil {
		for _, x := range ar.Headings.Headings {
			add(&hb, elemLineFrags(x.Lines))
		}
	}
	if ar.Lists != nil {
		for i := range ar.Lists.Lists {
			var fs []text.TextFragment
			for _, it := range ar.Lists.Lists[i].GetAllItems() {
				fs = append(fs, elemLineFrags(it.Lines)...)
			}
			add(&lb, fs)
		}
	}
	var changed []int
	for i, p := range ar.Paragraphs.Paragraphs {
		add(&pb, elemLineFrags(p.Lines))
		emitted := false
		for _, e := range ar.Elements {
			if e.Type == model.ElementTypeParagraph && e.BBox == p.BBox && e.Text == p.Text && len(elemLineFrags(e.Lines)) == len(elemLineFrags(p.Lines)) {
				emitted = true
			}
		}
		if !emitted {
			changed = append(changed, i)
		}
	}
	if !ok {
		return
	}
	j := func(xs []string) string {
		if len(xs) == 0 {
			return "-"
		}
		return strings.Join(xs, "|")
	}
	if len(changed) > 0 {
		c.Count("paragraphs-reduced-or-dropped")
	}
	c.Op("c09.etree "+j(hb)+" "+j(lb)+" "+j(pb), idList(changed))
}

// ---- text assembly ----------------------------------------------------------------------

func asmLessGo(a, b text.TextFragment) bool {
	d := a.Y - b.Y
	if abs(d) > a.Height*0.5 {
		return d > 0
	}
	if abs(a.X-b.X) < a.FontSize*0.25 {
		return false
	}
	return a.X < b.X
}

func plLessGo(a, b text.TextFragment) bool {
	d := a.Y - b.Y
	if abs(d) > a.Height*0.5 {
		return d > 0
	}
	return a.X < b.X
}

func stripSpace(s string) string {
	return strings.Join(strings.Fields(s), "")
}

func opAssemble(c *hx.Ctx, frs []text.TextFragment, w float64) {
	if s, ok := weakOrder(frs, asmLessGo); ok {
		amb := false
		for i := 1; i < len(s); i++ {
			if near(s[i].X-(s[i-1].X+s[i-1].Width), s[i].FontSize*0.3) {
				amb = true
			}
		}
		if amb {
			drop(c, "asm")
		} else {
			c.Op("c09.asm "+fragsStr(frs), hx.HexS(tabula.VerifAssembleText(cp(frs))))
		}
	} else {
		c.Count("dropped:asm-comparator-not-weak-order")
	}
	if _, ok := weakOrder(frs, plLessGo); ok {
		c.Op("c09.preserve "+fragsStr(frs), hx.HexS(stripSpace(tabula.VerifExtractPreserveLayout(cp(frs), w))))
	} else {
		c.Count("dropped:preserve-comparator-not-weak-order")
	}
}

func lineCode(prev, l layout.Line) int {
	gap := prev.BBox.Y - (l.BBox.Y + l.BBox.Height)
	if gap > l.BBox.Height*0.8 {
		return 2
	}
	return 1
}

func opByColumn(c *hx.Ctx, frs []text.TextFragment, w, h float64) {
	ro := layout.NewReadingOrderDetector().Detect(cp(frs), w, h)
	if len(ro.Sections) == 0 {
		return
	}
	var secs []string
	for _, s := range ro.Sections {
		var ls []string
		for i, l := range s.Lines {
			code := 0
			if i > 0 {
				code = lineCode(s.Lines[i-1], l)
			}
			ls = append(ls, hx.HexS(l.Text)+":"+strconv.Itoa(code))
		}
		if len(ls) == 0 {
			secs = append(secs, "~")
		} else {
			secs = append(secs, strings.Join(ls, "|"))
		}
	}
	c.Op("c09.bycol "+strings.Join(secs, ";"), hx.HexS(tabula.VerifExtractByColumn(cp(frs), w, h)))

	// JoinParagraphs: the paragraph segmentation is a heuristic outcome (ties are broken by
	// map iteration order in detectLeftMargin): take an outcome that reproduces the text
	if len(ro.Lines) == 0 {
		return
	}
	impl := tabula.VerifExtractWithParagraphs(cp(frs), w, h)
	var op string
	for try := 0; try < 40; try++ {
		pl := layout.NewParagraphDetector().Detect(ro.Lines, w, h)
		var ps []string
		var sb strings.Builder
		for i, p := range pl.Paragraphs {
			var ls []string
			if i > 0 {
				sb.WriteString("\n\n")
			}
			for j, l := range p.Lines {
				ls = append(ls, hx.HexS(l.Text))
				if j > 0 {
					sb.WriteString(" ")
				}
				sb.WriteString(strings.TrimSpace(l.Text))
			}
			if len(ls) == 0 {
				ps = append(ps, "~")
			} else {
				ps = append(ps, strings.Join(ls, "|"))
			}
		}
		op = "c09.joinpara " + strings.Join(ps, ";")
		if len(ps) == 0 {
			op = "c09.joinpara -"
		}
		if sb.String() == impl {
			c.Op(op, hx.HexS(impl))
			return
		}
	}
	// no repetition of the paragraph heuristic reproduced the outcome the call saw; the
	// end-to-end oracle still checks the text
	c.Count("dropped:joinpara-heuristic-outcome-not-reproduced")
}

// ---- dedupe -----------------------------------------------------------------------------

func opDedupe(c *hx.Ctx, k interface{}, frs []text.TextFragment) {
	out := text.VerifDeduplicateFragments(cp(frs))
	c.Op("c09.dedupe "+fragsStr(frs), idList(idsOf(out, false)))
	// oracle: exactly the sanctioned removal
	want := dedupeExpected(frs)
	ok := len(want) == len(out)
	for i := 0; ok && i < len(out); i++ {
		ok = fragID(want[i]) == fragID(out[i])
	}
	chk(c, "C09/dedupe-not-only-duplicates", ok, k, func() string {
		return fmt.Sprintf("deduplicateFragments kept %v, the sanctioned removal keeps %v", idsOf(out, false), idsOf(want, false))
	})
}

// mechanisms runs every per-mechanism op on one page.
func mechanisms(c *hx.Ctx, k interface{}, pg Page) {
	frs := toLayout(pg)
	w, h := float64(pg.W)/float64(pg.Den), float64(pg.H)/float64(pg.Den)
	c.Guard("C09", k, 30, func() {
		opDedupe(c, k, frs)
		groups := opLines(c, frs)
		opBuildLines(c, groups, w)
		opColumns(c, k, frs, w, h)
		opParagraphs(c, frs, w, h)
		opBlocks(c, k, frs, w, h)
		opElementTree(c, frs, w, h)
		opElements(c, frs, w, h)
		opAssemble(c, frs, w)
		opPreserveX(c, k, frs, w)
		opGaps(c, k, frs, w, h)
		opByColumn(c, frs, w, h)
		opLineOrder(c, frs)
		opReadingOrder(c, frs, w, h)
		if len(layout.VerifFindVerticalGaps(cp(frs), w, h)) > 0 {
			// the same page read right to left: the direction branch of orderSections on
			// several columns (the direction of a fragment is a field, not derived from its text)
			rt := cp(frs)
			for i := range rt {
				rt[i].Direction = text.RTL
			}
			c.Count("reading-order:columns-read-right-to-left")
			opReadingOrder(c, rt, w, h)
		}
		opRenderings(c, frs, w, h)
		opTextGetText(c, k, frs)
		opAnalyze(c, frs, w, h)
	})
}
