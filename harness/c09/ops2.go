package c09

import (
	"fmt"
	"math"
	"math/big"
	"sort"
	"strconv"
	"strings"

	"github.com/tsawler/tabula"
	"github.com/tsawler/tabula/layout"
	"github.com/tsawler/tabula/text"

	"verifharness/hx"
)

// Second layer of the correspondence (Model/LayoutOrder.lean): the reading order as a closed
// function of the column layout - shouldPreserveStreamOrder, the exact order inside a line,
// buildSections / reorderLinesByY / orderSections, extractByColumn with its separator rule,
// GetParagraphs, assembleParagraphText / ParagraphLayout.GetText, extractWithParagraphs with
// its fall-backs.
//
// The same float discipline as ops.go: an op is dropped (and counted) when a comparison
// against a non-dyadic product or an average is closer than 1e-9, or when a tolerance
// comparator is not a strict weak order on its input.

// linesPre replays the sort and the sweep of (*LineDetector).groupIntoLines and returns the
// groups in stream order (before the per-line X sort); ok is false when the op is ambiguous.
func linesPre(frs []text.TextFragment, tol float64) (groups [][]text.TextFragment, ok bool) {
	sorted, ok := weakOrder(frs, func(a, b text.TextFragment) bool {
		d := a.Y - b.Y
		return abs(d) > tol && d > 0
	})
	var cur []text.TextFragment
	for _, f := range sorted {
		if len(cur) > 0 {
			t := 0.0
			for _, g := range cur {
				t += g.Y
			}
			avg := t / float64(len(cur))
			if near(abs(f.Y-avg), tol) {
				ok = false
			}
			if abs(f.Y-avg) > tol {
				groups = append(groups, cur)
				cur = nil
			}
		}
		cur = append(cur, f)
	}
	if len(cur) > 0 {
		groups = append(groups, cur)
	}
	return groups, ok
}

// preserveAmbiguous: a step of shouldPreserveStreamOrder is within 1e-9 of its threshold
// (the threshold is twice an average font size).
func preserveAmbiguous(g []text.TextFragment) bool {
	if len(g) < 3 {
		return false
	}
	sum := 0.0
	for i := 0; i < len(g)-1; i++ {
		sum += g[i].FontSize
	}
	avg := sum / float64(len(g)-1)
	if exactQuot(sum, len(g)-1, avg) {
		return false // the threshold is exact: so are the comparisons with it
	}
	if near(avg, 1) {
		return true
	}
	if avg < 1 {
		avg = 1
	}
	for i := 0; i < len(g)-1; i++ {
		if near(g[i+1].X-g[i].X, -avg*2) {
			return true
		}
	}
	return false
}

// exactQuot: q is exactly sum/n (sum is a sum of dyadic values, hence exact).
func exactQuot(sum float64, n int, q float64) bool {
	a, b := new(big.Rat), new(big.Rat)
	if a.SetFloat64(q) == nil || b.SetFloat64(sum) == nil {
		return false
	}
	a.Mul(a, big.NewRat(int64(n), 1))
	return a.Cmp(b) == 0
}

func lessXGo(a, b text.TextFragment) bool {
	if abs(a.X-b.X) < a.FontSize*0.25 {
		return false
	}
	return a.X < b.X
}

// inlineExact: the order of the fragments inside the line is determined (stream order is
// kept, or the X comparator is a strict weak order on the group).
func inlineExact(g []text.TextFragment) bool {
	if preserveAmbiguous(g) {
		return false
	}
	if layout.VerifShouldPreserveStreamOrder(cp(g)) {
		return true
	}
	_, ok := weakOrder(g, lessXGo)
	return ok
}

func lineTextAmbiguous(l []text.TextFragment) bool {
	for i := 1; i < len(l); i++ {
		if near(l[i].X-(l[i-1].X+l[i-1].Width), l[i].Height*0.1) {
			return true
		}
	}
	return false
}

// opLineOrder: shouldPreserveStreamOrder on the stream-order groups and the exact order inside
// every line of groupIntoLines.
func opLineOrder(c *hx.Ctx, frs []text.TextFragment) {
	if len(frs) == 0 {
		return
	}
	tol := layout.VerifLineTolerance(cp(frs))
	pre, ok := linesPre(frs, tol)
	if !ok {
		drop(c, "lineso")
		return
	}
	exact := true
	n := 0
	for _, g := range pre {
		if len(g) >= 3 && !preserveAmbiguous(g) && n < 12 {
			n++
			p := layout.VerifShouldPreserveStreamOrder(cp(g))
			if p {
				c.Count("stream-order-preserved-line")
			}
			c.Op("c09.stream "+fragsStr(g), strconv.Itoa(btoi(p)))
		}
		if !inlineExact(g) {
			exact = false
		}
	}
	if !exact {
		c.Count("dropped:lineso-inline-order-ambiguous")
		return
	}
	c.Op("c09.lineso "+ratOf(tol)+" "+fragsStr(frs), partOut(layout.VerifGroupIntoLines(cp(frs)), false))
}

// ---- reading order ----------------------------------------------------------------------

type sbox struct {
	span       bool
	x, y, w, h float64
}

func boxOf(fs []text.TextFragment, span bool) sbox {
	b := mkColumn(fs).BBox
	return sbox{span, b.X, b.Y, b.Width, b.Height}
}

// sectionLessGo is the comparator of orderSections (invertedY = false), restated.
func sectionLessGo(a, b sbox, rtl bool) bool {
	av, bv := a.y+a.h, b.y+b.h
	if a.span && !b.span && av >= bv-10 {
		return true
	}
	if b.span && !a.span && bv >= av-10 {
		return false
	}
	overlap := math.Min(av, bv) - math.Max(a.y, b.y)
	mh := math.Min(a.h, b.h)
	if mh > 0 && overlap > mh*0.5 {
		if rtl {
			return a.x > b.x
		}
		return a.x < b.x
	}
	return av > bv
}

// weakOrderN: less is a strict weak order on 0..n-1.
func weakOrderN(n int, less func(i, j int) bool) bool {
	idx := make([]int, n)
	for i := range idx {
		idx[i] = i
	}
	sort.SliceStable(idx, func(a, b int) bool { return less(idx[a], idx[b]) })
	class := make([]int, n)
	for i := 1; i < n; i++ {
		class[i] = class[i-1]
		if less(idx[i-1], idx[i]) {
			class[i]++
		}
	}
	for i := 0; i < n; i++ {
		for j := i + 1; j < n; j++ {
			lij, lji := less(idx[i], idx[j]), less(idx[j], idx[i])
			if class[i] == class[j] {
				if lij || lji {
					return false
				}
			} else if !lij || lji {
				return false
			}
		}
	}
	return true
}

func sectionOut(s layout.ReadingSection) string {
	t := "C"
	if s.Type == layout.SectionSpanning {
		t = "S"
	}
	var ls [][]text.TextFragment
	for _, l := range s.Lines {
		ls = append(ls, l.Fragments)
	}
	return t + "[" + groupOut(s.Fragments, true) + "]:" + partOut(ls, true)
}

func lineKey(l layout.Line) string {
	if len(l.Fragments) == 0 {
		return "?"
	}
	return fmt.Sprintf("%d/%d", fragID(l.Fragments[0]), len(l.Fragments))
}

// startBits: bit i = line i of lines starts one of the groups; out = the groups as indices.
func startBits(lines []layout.Line, groups [][]layout.Line) (bits string, out string) {
	pos := map[string]int{}
	for i, l := range lines {
		pos[lineKey(l)] = i
	}
	bs := make([]byte, len(lines))
	for i := range bs {
		bs[i] = '0'
	}
	var gs []string
	for _, g := range groups {
		var ids []int
		for j, l := range g {
			p, ok := pos[lineKey(l)]
			if !ok {
				p = -1
			}
			ids = append(ids, p)
			if j == 0 && p >= 0 {
				bs[p] = '1'
			}
		}
		gs = append(gs, idList(ids))
	}
	out = "-"
	if len(gs) > 0 {
		out = strings.Join(gs, "|")
	}
	if len(bs) == 0 {
		return "-", out
	}
	return string(bs), out
}

func linesStr(ls []layout.Line) string {
	gs := make([][]text.TextFragment, len(ls))
	for i, l := range ls {
		gs[i] = l.Fragments
	}
	return groupsStr(gs)
}

// opReadingOrder: the reading order, the ByColumn text and the JoinParagraphs text as functions
// of the column layout; the paragraphs of the reading order and their texts.
func opReadingOrder(c *hx.Ctx, frs []text.TextFragment, w, h float64) {
	if len(frs) == 0 {
		return
	}
	cl := layout.NewColumnDetector().Detect(cp(frs), w, h)
	ro := layout.NewReadingOrderDetector().Detect(cp(frs), w, h)
	rtl := ro.Direction == layout.RightToLeft
	if rtl {
		c.Count("reading-order:right-to-left")
	}
	c.Count(fmt.Sprintf("reading-order-sections:%d", len(ro.Sections)))

	// the sections in the order buildSections makes them
	var built [][]text.TextFragment
	var boxes []sbox
	if len(cl.SpanningFragments) > 0 {
		built = append(built, cl.SpanningFragments)
		boxes = append(boxes, boxOf(cl.SpanningFragments, true))
	}
	var cols [][]text.TextFragment
	for _, col := range cl.Columns {
		cols = append(cols, col.Fragments)
		if len(col.Fragments) > 0 {
			built = append(built, col.Fragments)
			boxes = append(boxes, boxOf(col.Fragments, false))
		}
	}
	ok, exact := true, true
	var tols []string
	for _, s := range built {
		tol := layout.VerifLineTolerance(cp(s))
		tols = append(tols, fmt.Sprintf("%d/%d:%s", fragID(s[0]), len(s), ratOf(tol)))
		pre, lok := linesPre(s, tol)
		if !lok {
			ok = false
		}
		for _, g := range pre {
			if !inlineExact(g) {
				exact = false
			}
		}
	}
	if !weakOrderN(len(boxes), func(i, j int) bool { return sectionLessGo(boxes[i], boxes[j], rtl) }) {
		c.Count("dropped:ro-section-comparator-not-weak-order")
		return
	}
	if !ok {
		drop(c, "ro")
		return
	}
	ts := "-"
	if len(tols) > 0 {
		ts = strings.Join(tols, ",")
	}
	args := fmt.Sprintf("%d %s %s %s", btoi(rtl), ts, groupsStr(cols), fragsStr(cl.SpanningFragments))
	var so []string
	for _, s := range ro.Sections {
		so = append(so, sectionOut(s))
	}
	out := "-"
	if len(so) > 0 {
		out = strings.Join(so, ";")
	}
	c.Op("c09.ro "+args, out)

	// paragraphs of the reading order: segmentation per section, texts
	rp := ro.GetParagraphs()
	var pg [][]layout.Line
	for _, p := range rp.Paragraphs {
		pg = append(pg, p.Lines)
	}
	bits, pout := startBits(ro.Lines, pg)
	var counts []string
	for _, s := range ro.Sections {
		counts = append(counts, strconv.Itoa(len(s.Lines)))
	}
	cs := "-"
	if len(counts) > 0 {
		cs = strings.Join(counts, ",")
	}
	c.Op("c09.ropara "+cs+" "+bits, pout)

	textAmb := false
	for _, l := range ro.Lines {
		if lineTextAmbiguous(l.Fragments) {
			textAmb = true
		}
	}
	if !textAmb && len(rp.Paragraphs) > 0 {
		var ps []string
		for _, p := range rp.Paragraphs {
			ps = append(ps, linesStr(p.Lines))
		}
		c.Op("c09.playout "+strings.Join(ps, "_"), hx.HexS(rp.GetText()))
	}

	// the texts need the exact order inside every line and unambiguous separators
	if !exact {
		c.Count("dropped:bycolx-inline-order-ambiguous")
		return
	}
	if textAmb {
		drop(c, "bycolx")
		return
	}
	opReadingOrderText(c, ro, args)
	for _, s := range ro.Sections {
		for i, l := range s.Lines {
			if i > 0 && near(s.Lines[i-1].BBox.Y-(l.BBox.Y+l.BBox.Height), l.BBox.Height*0.8) {
				textAmb = true
			}
		}
	}
	if textAmb {
		drop(c, "bycolx")
		return
	}
	c.Op("c09.bycolx "+args, hx.HexS(tabula.VerifExtractByColumn(cp(frs), w, h)))

	// JoinParagraphs: the break decisions of ParagraphDetector.Detect on the lines of the
	// reading order are inputs
	if len(ro.Lines) == 0 {
		return
	}
	pl := layout.NewParagraphDetector().Detect(ro.Lines, w, h)
	var dg [][]layout.Line
	for _, p := range pl.Paragraphs {
		dg = append(dg, p.Lines)
	}
	jbits, _ := startBits(ro.Lines, dg)
	c.Op("c09.jpx "+args+" "+ratOf(layout.VerifLineTolerance(cp(frs)))+" "+jbits, hx.HexS(tabula.VerifExtractWithParagraphs(cp(frs), w, h)))
}

// opBlankPage: a page of white-space fragments only takes the fall-backs of extractByColumn and
// extractWithParagraphs (no visible line anywhere).
func opBlankPage(c *hx.Ctx, r *hx.Rng, w, h float64) {
	n := 1 + r.Intn(4)
	var frs []text.TextFragment
	for i := 0; i < n; i++ {
		t := hx.Pick(r, []string{" ", "  ", "\t", " \n"})
		frs = append(frs, text.TextFragment{Text: t, X: float64(72 + 40*r.Intn(8)), Y: float64(700 - 14*r.Intn(6)), Width: 3, Height: 10,
			FontSize: 10, FontName: fmt.Sprintf("f%d", i), Direction: text.Neutral})
	}
	if _, ok := weakOrder(frs, asmLessGo); !ok {
		return
	}
	for i := 1; i < len(frs); i++ {
		if frs[i].Y == frs[i-1].Y && frs[i].X == frs[i-1].X {
			return
		}
	}
	cl := layout.NewColumnDetector().Detect(cp(frs), w, h)
	ro := layout.NewReadingOrderDetector().Detect(cp(frs), w, h)
	if len(ro.Lines) != 0 || len(cl.SpanningFragments) != 0 {
		return
	}
	var cols [][]text.TextFragment
	var tols []string
	for _, col := range cl.Columns {
		cols = append(cols, col.Fragments)
		if len(col.Fragments) > 0 {
			tols = append(tols, fmt.Sprintf("%d/%d:%s", fragID(col.Fragments[0]), len(col.Fragments), ratOf(layout.VerifLineTolerance(cp(col.Fragments)))))
			if _, ok := linesPre(col.Fragments, layout.VerifLineTolerance(cp(col.Fragments))); !ok {
				return
			}
		}
	}
	if _, ok := linesPre(frs, layout.VerifLineTolerance(cp(frs))); !ok {
		return
	}
	c.Count("blank-page-fallback")
	args := fmt.Sprintf("0 %s %s -", strings.Join(tols, ","), groupsStr(cols))
	c.Op("c09.bycolx "+args, hx.HexS(tabula.VerifExtractByColumn(cp(frs), w, h)))
	c.Op("c09.jpx "+args+" "+ratOf(layout.VerifLineTolerance(cp(frs)))+" -", hx.HexS(tabula.VerifExtractWithParagraphs(cp(frs), w, h)))
}
