package c09

import (
	"fmt"
	"math"
	"math/big"
	"path/filepath"
	"strings"

	"github.com/tsawler/tabula"
	"github.com/tsawler/tabula/layout"
	"github.com/tsawler/tabula/text"

	"verifharness/hx"
)

// The resource bounds that the C02 repairs put into code C09 models:
//
//   - daef69b extractPreserveLayout: one vertical gap writes at most 100 newlines
//     (`if gapInLines > maxGapLines`), the target column of a fragment is at most 200
//     (`if targetCol > maxCharsPerLine`);
//   - 988a551 / 541d4a6 findVerticalGaps: a page width that is negative or of 2^20
//     five-point buckets and more (>= 5242880) yields no gaps; the histogram is summed
//     from a difference array.
//
// Correspondence: `c09.preservex cw lh0 F` compares extractPreserveLayout byte for byte -
// padding included - with Model/Layout.lean preserveLayoutGo, `c09.gaps W F` /
// `c09.gapsold W F` compare findVerticalGaps with Model/LayoutGaps.lean; both run on every
// generated page and on the bound pages below, which reach each bound from both sides
// (bound-1, bound, bound+1, far beyond).
//
// Oracles (independent of the model): inside a bound the property text applies unchanged
// (the existing multiset / id oracles run on the bound pages too); on the edge pages the
// text of PreserveLayout is predicted from the written layout (newlines = lines of gap,
// blanks = column, both as the documentation of the option describes them) with the
// documented truncation beyond the bound; on every page the padding stays inside the
// budget of 300 bytes per fragment; beyond the width bound no gaps are reported; nothing
// panics, hangs or exhausts memory (c.Guard).

const (
	kindBound = "bound"
	boundBase = 4 * bidiBase
)

// ---- float arithmetic in front of the clamps (mirror of extractPreserveLayout) ------------

// plCharWidth: charWidth and charWidth*1.2 as extractPreserveLayout computes them. They
// are inputs of the model (exact rationals of these float64 values); a wrong mirror shows
// as a divergence of c09.preservex.
func plCharWidth(frs []text.TextFragment, pageWidth float64) (cw, lh0 float64) {
	var total float64
	n := 0
	for _, f := range frs {
		if f.FontSize > 0 {
			total += f.FontSize
			n++
		}
	}
	if n > 0 {
		avg := total / float64(n)
		cw = avg * 0.6
	} else {
		cw = pageWidth / float64(80)
	}
	if cw <= 0 {
		cw = pageWidth / float64(80)
	}
	cpl := int(pageWidth / cw)
	if cpl < 40 {
		cw = pageWidth / float64(40)
	} else if cpl > 200 {
		cw = pageWidth / float64(200)
	}
	return cw, cw * 1.2
}

func rat(x float64) *big.Rat { return new(big.Rat).SetFloat64(x) }

// truncAgrees: the float64 value v that Go converts with int(v) is finite, far inside an
// int64, and truncates to the same integer as the exact quotient q.
func truncAgrees(q *big.Rat, v float64) (int64, bool) {
	if q == nil || math.IsNaN(v) || math.Abs(v) >= 1<<62 {
		return 0, false
	}
	t := new(big.Int).Quo(q.Num(), q.Denom()) // truncates towards zero
	return int64(v), t.IsInt64() && t.Int64() == int64(v)
}

func finite(xs ...float64) bool {
	for _, x := range xs {
		if math.IsNaN(x) || math.IsInf(x, 0) {
			return false
		}
	}
	return true
}

type plLine struct {
	y, h float64
	frs  []text.TextFragment
}

// plLinesGo: the lines of extractPreserveLayout over the sorted fragments.
func plLinesGo(sorted []text.TextFragment) []plLine {
	var ls []plLine
	for _, f := range sorted {
		if n := len(ls); n > 0 && abs(f.Y-ls[n-1].y) <= ls[n-1].h*0.5 {
			ls[n-1].frs = append(ls[n-1].frs, f)
			if f.Height > ls[n-1].h {
				ls[n-1].h = f.Height
			}
			continue
		}
		ls = append(ls, plLine{f.Y, f.Height, []text.TextFragment{f}})
	}
	return ls
}

// plRequests: the requested newlines per gap and the requested column per fragment, and
// whether every int(...) conversion involved is exact.
func plRequests(sorted []text.TextFragment, cw, lh0 float64) (gapsReq, colsReq []int64, exact bool) {
	exact = true
	if !finite(cw, lh0) || cw == 0 {
		return nil, nil, false
	}
	ls := plLinesGo(sorted)
	for i, ln := range ls {
		if i > 0 {
			lh := ln.h
			if lh <= 0 {
				lh = lh0
			}
			if lh == 0 || !finite(ls[i-1].y, ln.y) {
				return nil, nil, false
			}
			v := (ls[i-1].y-ln.y)/lh + 0.5
			q := new(big.Rat).Sub(rat(ls[i-1].y), rat(ln.y))
			q.Quo(q, rat(lh)).Add(q, big.NewRat(1, 2))
			g, ok := truncAgrees(q, v)
			exact = exact && ok
			gapsReq = append(gapsReq, g)
		}
		for _, f := range ln.frs {
			if !finite(f.X) {
				return nil, nil, false
			}
			k, ok := truncAgrees(new(big.Rat).Quo(rat(f.X), rat(cw)), f.X/cw)
			exact = exact && ok
			colsReq = append(colsReq, k)
		}
	}
	return
}

func bucketOf(v, bound int64) string {
	switch {
	case v < bound-1:
		return fmt.Sprintf("<%d", bound-1)
	case v <= bound+1:
		return fmt.Sprintf("=%d", v)
	case v <= 10*bound:
		return fmt.Sprintf("%d..%d", bound+2, 10*bound)
	default:
		return fmt.Sprintf(">%d", 10*bound)
	}
}

// checkPreserveBudget: the padding of PreserveLayout is bounded (daef69b): at most 100
// newlines per line and 200 blanks per line, so at most 300 bytes per fragment beside the
// text itself.
func checkPreserveBudget(c *hx.Ctx, name string, k interface{}, frs []text.TextFragment, out string) {
	n := 0
	for _, f := range frs {
		n += len(f.Text)
	}
	chk(c, "C09/"+name+"-padding-exceeds-bound", len(out) <= n+300*len(frs), k, func() string {
		return fmt.Sprintf("%s: %d bytes for %d fragments carrying %d bytes of text: more than 300 bytes of padding per fragment", name, len(out), len(frs), n)
	})
}

// opPreserveX: extractPreserveLayout byte for byte against the model.
func opPreserveX(c *hx.Ctx, k interface{}, frs []text.TextFragment, w float64) {
	if len(frs) == 0 {
		return
	}
	out := tabula.VerifExtractPreserveLayout(cp(frs), w)
	checkPreserveBudget(c, "preservelayout-hook", k, frs, out)
	sorted, ok := weakOrder(frs, plLessGo)
	if !ok {
		c.Count("dropped:preservex-comparator-not-weak-order")
		return
	}
	cw, lh0 := plCharWidth(frs, w)
	gr, cr, exact := plRequests(sorted, cw, lh0)
	if !exact {
		c.Count("dropped:preservex-float-ambiguous-or-beyond-int64")
		return
	}
	for _, g := range gr {
		c.Count("preserve-gap-request:" + bucketOf(g, 100))
	}
	for _, k := range cr {
		if k >= 199 {
			c.Count("preserve-col-request:" + bucketOf(k, 200))
		}
	}
	c.Op("c09.preservex "+ratOf(cw)+" "+ratOf(lh0)+" "+fragsStr(frs), hx.HexS(out))
}

// ---- findVerticalGaps ----------------------------------------------------------------------

// opGaps: findVerticalGaps as a closed function of the page width and the fragments.
func opGaps(c *hx.Ctx, k interface{}, frs []text.TextFragment, w, h float64) {
	if len(frs) == 0 || !finite(w) {
		return
	}
	gaps := layout.VerifFindVerticalGaps(cp(frs), w, h)
	refused := !(w >= 0) || rat(w).Cmp(big.NewRat(5242880, 1)) >= 0
	if refused {
		c.Count("gaps:width-refused")
		chk(c, "C09/gaps-reported-beyond-width-bound", len(gaps) == 0, k, func() string {
			return fmt.Sprintf("findVerticalGaps reports %d gaps on a page %v wide (documented: none for a width that is negative or of 2^20 buckets and more)", len(gaps), w)
		})
		c.Op("c09.gaps "+ratOf(w)+" "+fragsStr(frs), gapsStr(gaps))
		return
	}
	five := big.NewRat(5, 1)
	nbv, ok := truncAgrees(new(big.Rat).Quo(rat(w), five), w/5.0)
	if !ok {
		c.Count("dropped:gaps-float-ambiguous")
		return
	}
	nb := int(nbv) + 1
	// the histogram, for the one non-dyadic comparison: float64(h) < (total/content)*0.2 is
	// 5*h*content < total unless the two sides are equal
	hist := make([]int, nb+1)
	minX, maxX := frs[0].X, frs[0].X+frs[0].Width
	clamp := func(s, e int64) (int, int) {
		if s < 0 {
			s = 0
		}
		if e >= int64(nb) {
			e = int64(nb) - 1
		}
		return int(s), int(e)
	}
	naive := 0
	for _, f := range frs {
		if !finite(f.X, f.Width) {
			return
		}
		minX, maxX = math.Min(minX, f.X), math.Max(maxX, f.X+f.Width)
		s, ok1 := truncAgrees(new(big.Rat).Quo(rat(f.X), five), f.X/5.0)
		e, ok2 := truncAgrees(new(big.Rat).Quo(new(big.Rat).Add(rat(f.X), rat(f.Width)), five), (f.X+f.Width)/5.0)
		if !ok1 || !ok2 {
			c.Count("dropped:gaps-float-ambiguous")
			return
		}
		if si, ei := clamp(s, e); si <= ei {
			hist[si]++
			hist[ei+1]--
			naive += ei - si + 1
		}
	}
	for b := 1; b < len(hist); b++ {
		hist[b] += hist[b-1]
	}
	s, ok1 := truncAgrees(new(big.Rat).Quo(rat(minX), five), minX/5.0)
	e, ok2 := truncAgrees(new(big.Rat).Quo(rat(maxX), five), maxX/5.0)
	if !ok1 || !ok2 {
		c.Count("dropped:gaps-float-ambiguous")
		return
	}
	si, ei := clamp(s, e)
	total, cnt := 0, ei-si+1
	for b := si; b <= ei; b++ {
		total += hist[b]
	}
	for b := si; b <= ei; b++ {
		if 5*hist[b]*cnt == total {
			c.Count("dropped:gaps-density-equals-threshold")
			return
		}
	}
	if nb >= 1<<20 {
		c.Count("gaps:histogram-of-2^20-buckets")
	}
	c.Op("c09.gaps "+ratOf(w)+" "+fragsStr(frs), gapsStr(gaps))
	// the loop as it was before 541d4a6 (fragments x buckets): where that is cheap
	_ = naive
	if len(frs)*nb <= 8<<20 { // the model's lists make the old loop cost fragments x buckets whatever the run lengths
		c.Op("c09.gapsold "+ratOf(w)+" "+fragsStr(frs), gapsStr(gaps))
	}
}

// ---- bound pages ---------------------------------------------------------------------------

// edgeLine is one line of an edge page: a single token asked to stand in column col,
// reqGap line heights below the line before.
type edgeLine struct {
	reqGap, col int64
}

// genEdgePage: a page 1200 wide set in size 10 (character width 6, 200 columns: the bound of
// the column clamp is the right edge of the page), every line one token whose position asks
// for a number of newlines and a column on either side of the bounds. Returns the page and
// the text the documentation of PreserveLayout predicts (blank lines for vertical gaps, one
// blank per character width), truncated as daef69b documents.
func genEdgePage(r *hx.Rng) (Page, string) {
	gapsAt := []int64{1, 2, 99, 100, 101, 102, 150, 1000, 10000000000}
	colsAt := []int64{0, 1, 199, 200, 201, 202, 250, 2000, 10000000000}
	var ls []edgeLine
	for _, g := range gapsAt {
		ls = append(ls, edgeLine{g, hx.Pick(r, colsAt)})
	}
	for _, k := range colsAt {
		ls = append(ls, edgeLine{hx.Pick(r, gapsAt), k})
	}
	for i := 0; i < 4; i++ {
		ls = append(ls, edgeLine{int64(95 + r.Intn(12)), int64(195 + r.Intn(12))})
	}
	hx.Shuffle(r, ls)
	den := hx.Pick(r, []int{1, 2, 4})
	pg := Page{W: 1200 * den, H: 792 * den, Den: den, Tags: []string{"bound:preservelayout-edge-page"}}
	// bottom-up: the last line at y = 100, each line reqGap line heights (10) above the next
	y := int64(100)
	type placed struct {
		y, x int64
		t    string
	}
	var ps []placed
	for i := len(ls) - 1; i >= 0; i-- {
		ps = append([]placed{{y, 6*ls[i].col + 3, latinToken(r, i, 3)}}, ps...)
		y += 10 * ls[i].reqGap
	}
	// the first line: nothing before it
	ps = append([]placed{{y, 3, latinToken(r, len(ls), 3)}}, ps...)
	var want strings.Builder
	for i, p := range ps {
		pg.F = append(pg.F, Frag{ID: i, T: p.t, X: int(p.x) * den, Y: int(p.y) * den, W: 6 * len(p.t) * den, H: 10 * den, FS: 10 * den})
		if i > 0 {
			l := ls[i-1]
			want.WriteString(strings.Repeat("\n", int(min64(l.reqGap, 100))))
			want.WriteString(strings.Repeat(" ", int(min64(l.col, 200))))
		}
		want.WriteString(p.t)
	}
	return pg, want.String()
}

func min64(a, b int64) int64 {
	if a < b {
		return a
	}
	return b
}

// genFarPage: the witnesses of daef69b and their neighbours - text at x or y = +-1e14 and
// beyond, a page 2^-30 wide, a font of size 2^-30, lines without height, a page without width.
func genFarPage(r *hx.Rng, variant int) Page {
	tok := func(i int) string { return latinToken(r, i, 3) }
	big := int64(100000000000000) // 1e14
	switch variant {
	case 0: // y = 1e14: 10^13 newlines asked for
		return Page{W: 612, H: 792, Den: 1, Tags: []string{"bound:preservelayout-y-1e14"}, F: []Frag{
			{ID: 0, T: tok(0), X: 72, Y: int(big), W: 30, H: 10, FS: 10},
			{ID: 1, T: tok(1), X: 72, Y: 700, W: 30, H: 10, FS: 10},
			{ID: 2, T: tok(2), X: 130, Y: 700, W: 30, H: 10, FS: 10},
			{ID: 3, T: tok(3), X: 72, Y: -int(big), W: 30, H: 10, FS: 10}}}
	case 1: // x = 1e14: 1.6 x 10^13 blanks asked for; x = -1e14: none
		return Page{W: 612, H: 792, Den: 1, Tags: []string{"bound:preservelayout-x-1e14"}, F: []Frag{
			{ID: 0, T: tok(0), X: 72, Y: 700, W: 30, H: 10, FS: 10},
			{ID: 1, T: tok(1), X: int(big), Y: 700, W: 30, H: 10, FS: 10},
			{ID: 2, T: tok(2), X: -int(big), Y: 680, W: 30, H: 10, FS: 10},
			{ID: 3, T: tok(3), X: int(big) / 2, Y: 680, W: 30, H: 10, FS: 10},
			{ID: 4, T: tok(4), X: 4000000000000000000, Y: 660, W: 30, H: 10, FS: 10}}}
	case 2: // a /MediaBox 2^-30 wide: charWidth = width/40
		d := 1 << 30
		return Page{W: 1, H: 792 * d, Den: d, Tags: []string{"bound:preservelayout-mediabox-2^-30-wide"}, F: []Frag{
			{ID: 0, T: tok(0), X: 72 * d, Y: 700 * d, W: 30 * d, H: 10 * d, FS: 10 * d},
			{ID: 1, T: tok(1), X: 300 * d, Y: 700 * d, W: 30 * d, H: 10 * d, FS: 10 * d},
			{ID: 2, T: tok(2), X: 72 * d, Y: 680 * d, W: 30 * d, H: 10 * d, FS: 10 * d},
			{ID: 3, T: tok(3), X: 0, Y: 660 * d, W: 30 * d, H: 10 * d, FS: 10 * d}}}
	case 3: // a font of size 2^-30: line height 2^-30, gaps of 2*10^10 lines and more
		d := 1 << 30
		return Page{W: 612 * d, H: 792 * d, Den: d, Tags: []string{"bound:preservelayout-font-size-2^-30"}, F: []Frag{
			{ID: 0, T: tok(0), X: 72 * d, Y: 700 * d, W: 30, H: 1, FS: 1},
			{ID: 1, T: tok(1), X: 300 * d, Y: 700 * d, W: 30, H: 1, FS: 1},
			{ID: 2, T: tok(2), X: 72 * d, Y: 680 * d, W: 30, H: 1, FS: 1},
			{ID: 3, T: tok(3), X: 72 * d, Y: 680*d - 100, W: 30, H: 1, FS: 1},
			{ID: 4, T: tok(4), X: 72 * d, Y: 680*d - 201, W: 30, H: 1, FS: 1}}}
	case 4: // lines without height (line height = charWidth * 1.2) and without font size
		return Page{W: 612, H: 792, Den: 1, Tags: []string{"bound:preservelayout-zero-height-lines"}, F: []Frag{
			{ID: 0, T: tok(0), X: 72, Y: 7000, W: 30, H: 0, FS: 0},
			{ID: 1, T: tok(1), X: 72, Y: 700, W: 30, H: 0, FS: 0},
			{ID: 2, T: tok(2), X: 600, Y: 700, W: 30, H: 0, FS: 0},
			{ID: 3, T: tok(3), X: 72, Y: 690, W: 30, H: 0, FS: 0}}}
	default: // a page without width: charWidth = 0, every quotient is not a number
		return Page{W: 0, H: 792, Den: 1, Tags: []string{"bound:preservelayout-page-width-0"}, F: []Frag{
			{ID: 0, T: tok(0), X: 72, Y: 700, W: 30, H: 10, FS: 0},
			{ID: 1, T: tok(1), X: 300, Y: 700, W: 30, H: 10, FS: 0},
			{ID: 2, T: tok(2), X: 72, Y: 600, W: 30, H: 0, FS: 0}}}
	}
}

const farVariants = 6

// widthVariants: page widths on either side of the bound of findVerticalGaps, in quarter points.
var widthVariants = []struct {
	name string
	w4   int64
}{
	{"bound-5pt:2^20-buckets", 4*5242880 - 20},
	{"bound-1/4pt:2^20-buckets", 4*5242880 - 1},
	{"bound:refused", 4 * 5242880},
	{"bound+1/4pt:refused", 4*5242880 + 1},
	{"bound+5pt:refused", 4*5242880 + 20},
	{"1e12:refused", 4 * 1000000000000},
	{"2^19-buckets", 4 * 2621440},
}

// genWidthPage: a generated page of at most 120 fragments on a sheet whose width stands at
// the bound of the histogram of findVerticalGaps.
func genWidthPage(r *hx.Rng, variant int) Page {
	var pg Page
	for try := 0; try < 80; try++ {
		pg = genPage(r.Fork(uint64(try)))
		if n := len(pg.F); n >= 8 && n <= 120 && (try >= 40 || pg.has("cols:2") || pg.has("cols:3")) {
			break
		}
	}
	if len(pg.F) > 120 {
		pg.F = pg.F[:120]
	}
	v := widthVariants[variant]
	// pg.Den is 1, 2 or 4: the width in quarter points is a multiple of 4/Den for the variants
	// that need it, otherwise the page is rescaled to quarter points
	if v.w4%int64(4/pg.Den) != 0 {
		m := 4 / pg.Den
		for i := range pg.F {
			f := &pg.F[i]
			f.X, f.Y, f.W, f.H, f.FS = f.X*m, f.Y*m, f.W*m, f.H*m, f.FS*m
		}
		pg.H *= m
		pg.Den = 4
	}
	pg.W = int(v.w4 / int64(4/pg.Den))
	pg.Tags = append(pg.Tags, "bound:page-width:"+v.name)
	return pg
}

// genBound: the bound case of a fork index. want is the predicted PreserveLayout text of an
// edge page ("" otherwise).
func genBound(seed uint64, index int) (pg Page, want string) {
	r := hx.NewRng(seed).Fork(uint64(index))
	j := index - boundBase
	switch {
	case j%16 < 2:
		return genEdgePage(r)
	case j%16 < 2+farVariants:
		return genFarPage(r, j%16-2), ""
	default:
		return genWidthPage(r, (j%16-2-farVariants+j/16)%len(widthVariants)), ""
	}
}

// runBound: one bound page through the two ops, the oracles of the bounds and the
// statement-level oracles of every page (direct layout API and rendered PDF).
func runBound(c *hx.Ctx, k kase, pg Page, want string) {
	frs := toLayout(pg)
	w, h := float64(pg.W)/float64(pg.Den), float64(pg.H)/float64(pg.Den)
	widthPage := false
	for _, t := range pg.Tags {
		if strings.HasPrefix(t, "bound:page-width:") {
			widthPage = true
		}
	}
	if widthPage {
		// a generated page on a sheet at the width bound: everything a page goes through
		runPage(c, k, pg)
		return
	}
	c.Guard("C09", k, 30, func() {
		opPreserveX(c, k, frs, w)
		opGaps(c, k, frs, w, h)
		out := tabula.VerifExtractPreserveLayout(cp(frs), w)
		checkText(c, "preservelayout-hook", k, frs, out)
		if want != "" {
			chk(c, "C09/preservelayout-edge-page-text", out == want, k, func() string {
				return fmt.Sprintf("PreserveLayout of the edge page: got %d bytes %.80q..., the written layout with the documented truncation (100 newlines per gap, column 200) gives %d bytes %.80q...", len(out), out, len(want), want)
			})
		}
	})
	oracleLayout(c, k, pg)
	// through the public API: the rendered page in every text mode, Lines(), Paragraphs(), ...
	oraclePDF(c, k, pg)
	fn := filepath.Join(c.OutDir, "page.pdf")
	c.Guard("C09", k, 60, func() {
		got, _, err := tabula.Open(fn).Fragments()
		if err != nil || len(got) == 0 {
			c.Count("bound:pdf-without-fragments")
			return
		}
		for i := range got {
			got[i].FontName = fmt.Sprintf("f%d", i)
		}
		if s, _, err := openMode(fn, "preservelayout").Text(); err == nil {
			checkPreserveBudget(c, "text-preservelayout", k, got, s)
		}
		opPreserveX(c, k, got, w)
		opGaps(c, k, got, w, h)
	})
	c.Guard("C09", k, 60, func() { opPageText(c, k, pg, fn) })
}

// far-beyond values no Page can carry (coordinates beyond an int64): the direct layout API
// only; the conversions int(x/charWidth) are then implementation-dependent (Go spec), so
// there is no correspondence, only the oracles.
func runBeyondInt64(c *hx.Ctx, k kase, r *hx.Rng) {
	frs := []text.TextFragment{
		{Text: latinToken(r, 0, 3), X: 72, Y: 1e30, Width: 30, Height: 10, FontSize: 10, FontName: "f0"},
		{Text: latinToken(r, 1, 3), X: 1e30, Y: 700, Width: 30, Height: 10, FontSize: 10, FontName: "f1"},
		{Text: latinToken(r, 2, 3), X: -1e30, Y: 700, Width: 30, Height: 10, FontSize: 10, FontName: "f2"},
		{Text: latinToken(r, 3, 3), X: 1e300, Y: -1e300, Width: 30, Height: 10, FontSize: 1e-300, FontName: "f3"},
	}
	c.Count("bound:preservelayout-beyond-int64")
	for _, w := range []float64{612, 1e-300, 1e300, 0, -0.25, -1e300} {
		c.Guard("C09", k, 30, func() {
			out := tabula.VerifExtractPreserveLayout(cp(frs), w)
			checkText(c, "preservelayout-hook", k, frs, out)
			checkPreserveBudget(c, "preservelayout-hook", k, frs, out)
			opPreserveX(c, k, frs, w)
			opGaps(c, k, frs, w, 792)
		})
	}
}

// runHistogramWitness: the witness of 541d4a6 - a sheet 5242000 wide, 20000 one-letter lines
// set in a font of size 10000000 (every fragment as wide as the sheet: 2*10^10 bucket
// increments before the repair, which did not return within 10 s). Too large for the model
// (its lists make the difference array cost fragments x buckets again): oracles only -
// findVerticalGaps and the column detector return in time and the columns partition the input.
// A handful of such fragments also goes through c09.gaps / c09.gapsold on the widest sheet.
func runHistogramWitness(c *hx.Ctx, k kase, r *hx.Rng) {
	mk := func(n int, w float64) []text.TextFragment {
		frs := make([]text.TextFragment, n)
		for i := range frs {
			frs[i] = text.TextFragment{Text: string(rune('a' + i%26)), X: float64(72 + i%3), Y: float64(20000000 * (n - i)), Width: w - 80,
				Height: 10000000, FontSize: 10000000, FontName: fmt.Sprintf("f%d", i)}
		}
		return frs
	}
	c.Count("bound:histogram-witness-20000-page-wide-fragments")
	frs := mk(20000, 5242000)
	c.Guard("C09", k, 10, func() {
		gaps := layout.VerifFindVerticalGaps(cp(frs), 5242000, 792)
		c.Count(fmt.Sprintf("bound:histogram-witness:gaps=%d", len(gaps)))
	})
	if !c.Thorough() {
		frs = frs[:2000] // the whole detector (its line grouping is quadratic) on all 20000: thorough tier
	}
	c.Guard("C09", k, 60, func() {
		cl := layout.NewColumnDetector().Detect(cp(frs), 5242000, 792)
		var cf []text.TextFragment
		for _, col := range cl.Columns {
			cf = append(cf, col.Fragments...)
		}
		cf = append(cf, cl.SpanningFragments...)
		checkIDs(c, "columns", k, frs, cf)
	})
	few := mk(3+r.Intn(4), 5242875)
	c.Guard("C09", k, 30, func() { opGaps(c, k, few, 5242875, 792) })
}

func runBounds(c *hx.Ctx) {
	n := c.N(16, 160)
	for i := 0; i < n; i++ {
		idx := boundBase + i
		pg, want := genBound(c.Seed, idx)
		k := mkCase(c, idx, kindBound, pg)
		c.Current(k)
		for _, t := range pg.Tags {
			if strings.HasPrefix(t, "bound:") {
				c.Count(t)
			}
		}
		runBound(c, k, pg, want)
		c.Case(fmt.Sprintf("%d/%d", c.Seed, idx), true)
	}
	k := kase{Seed: c.Seed, Index: boundBase - 1, Kind: kindBound}
	c.Current(k)
	runBeyondInt64(c, k, hx.NewRng(c.Seed).Fork(uint64(boundBase-1)))
	c.Case(fmt.Sprintf("%d/%d", c.Seed, boundBase-1), true)
	k = kase{Seed: c.Seed, Index: boundBase - 2, Kind: kindBound}
	c.Current(k)
	runHistogramWitness(c, k, hx.NewRng(c.Seed).Fork(uint64(boundBase-2)))
	c.Case(fmt.Sprintf("%d/%d", c.Seed, boundBase-2), true)
}
