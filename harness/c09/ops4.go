package c09

import (
	"crypto/sha256"
	"fmt"
	"os"
	"path/filepath"
	"strings"

	"github.com/tsawler/tabula"
	"github.com/tsawler/tabula/layout"
	"github.com/tsawler/tabula/text"

	"verifharness/hx"
)

// Fourth layer of the correspondence (Model/LayoutApi.lean): the public entry points. The
// choice of the text path per page (all eight option sets), isCharacterLevel,
// detectMultiColumn, and the page loops of Text(), Lines(), Paragraphs(), Blocks() and
// ReadingOrder() on documents of several pages (rendered by writePDFPages).

func openOpts(fn string, pl, jp, bc bool) *tabula.Extractor {
	e := tabula.Open(fn)
	if bc {
		e = e.ByColumn()
	}
	if jp {
		e = e.JoinParagraphs()
	}
	if pl {
		e = e.PreserveLayout()
	}
	return e
}

// digest: the first 8 bytes of the SHA-256 of a text, in hex. The dispatch of Text() selects one
// of four texts; the model selects among their digests.
func digest(s string) string {
	h := sha256.Sum256([]byte(s))
	return hx.Hex(h[:8])
}

// opPageText: one rendered page through Text() with every option set; the candidates are the
// four text paths (hooks) on the fragments the reader shows.
func opPageText(c *hx.Ctx, k interface{}, pg Page, fn string) {
	if len(pg.F) > 400 {
		return
	}
	got, _, err := tabula.Open(fn).Fragments()
	if err != nil || len(got) == 0 {
		return
	}
	w, h := float64(pg.W)/float64(pg.Den), float64(pg.H)/float64(pg.Den)
	for i := range got {
		got[i].FontName = fmt.Sprintf("f%d", i)
	}
	cl := tabula.VerifIsCharacterLevel(cp(got))
	c.Op("c09.charlevel "+fragsStr(got), fmt.Sprint(btoi(cl)))
	ro := layout.NewReadingOrderDetector().Detect(cp(got), w, h)
	mc := tabula.VerifDetectMultiColumn(cp(got), w, h)
	c.Op(fmt.Sprintf("c09.multicol %d %d %d", btoi(w == 0), len(got), ro.ColumnCount), fmt.Sprint(btoi(mc)))
	if cl {
		c.Count("auto-mode:character-level")
	}
	if mc {
		c.Count("auto-mode:multi-column")
	}
	cands := digest(tabula.VerifExtractPreserveLayout(cp(got), w)) + " " + digest(tabula.VerifExtractWithParagraphs(cp(got), w, h)) + " " +
		digest(tabula.VerifExtractByColumn(cp(got), w, h)) + " " + digest(tabula.VerifAssembleText(cp(got)))
	for m := 0; m < 8; m++ {
		if !c.Thorough() && len(got) > 150 && m%2 != len(got)%2 {
			continue // quick tier: four of the eight option sets on large pages
		}
		pl, jp, bc := m&4 != 0, m&2 != 0, m&1 != 0
		var s string
		var terr error
		if p := hx.Safe(func() { s, _, terr = openOpts(fn, pl, jp, bc).Text() }); p != "" || terr != nil {
			chk(c, "C09/api-text-options-error", false, k, func() string { return fmt.Sprintf("options %03b: %v %s", m, terr, p) })
			continue
		}
		c.Op(fmt.Sprintf("c09.pagetext %d %d %d %d %d %s", btoi(pl), btoi(jp), btoi(bc), btoi(cl), btoi(mc), cands), digest(s))
	}
}

// ---- documents ---------------------------------------------------------------------------

const docBase = 3000000

func genDoc(r *hx.Rng) []Page {
	n := 2 + r.Intn(3)
	var ps []Page
	for i := 0; i < n; i++ {
		if r.Chance(1, 4) {
			ps = append(ps, Page{W: 612, H: 792, Den: 1, Tags: []string{"page-without-fragments"}})
			continue
		}
		var pg Page
		for try := 0; try < 50; try++ {
			pg = genPage(r.Fork(uint64(100*i + try)))
			if len(pg.F) <= 120 {
				break
			}
		}
		if len(pg.F) > 120 {
			pg.F = pg.F[:120]
		}
		ps = append(ps, pg)
	}
	return ps
}

func textsHex(ts []string) string {
	if len(ts) == 0 {
		return "~"
	}
	hs := make([]string, len(ts))
	for i, t := range ts {
		hs[i] = hx.HexS(t)
	}
	return strings.Join(hs, "|")
}

func outHex(ts []string) string {
	if len(ts) == 0 {
		return "-"
	}
	hs := make([]string, len(ts))
	for i, t := range ts {
		hs[i] = hx.HexS(t)
	}
	return strings.Join(hs, "|")
}

type docView struct {
	lines, paras, blocks, roLines, roFrags []string
}

func viewOf(e func() *tabula.Extractor) (v docView, err error) {
	ls, err := e().Lines()
	if err != nil {
		return v, err
	}
	for _, l := range ls {
		v.lines = append(v.lines, l.Text)
	}
	ps, err := e().Paragraphs()
	if err != nil {
		return v, err
	}
	for _, p := range ps {
		v.paras = append(v.paras, p.Text)
	}
	bs, err := e().Blocks()
	if err != nil {
		return v, err
	}
	for _, b := range bs {
		v.blocks = append(v.blocks, b.GetText())
	}
	ro, err := e().ReadingOrder()
	if err != nil {
		return v, err
	}
	for _, l := range ro.Lines {
		v.roLines = append(v.roLines, l.Text)
	}
	for _, f := range ro.Fragments {
		v.roFrags = append(v.roFrags, f.Text)
	}
	return v, nil
}

// runDoc: a document of 2-4 pages (some without fragments) through the page loops.
func runDoc(c *hx.Ctx, k kase) {
	r := hx.NewRng(k.Seed).Fork(uint64(k.Index))
	ps := genDoc(r)
	m := r.Intn(8)
	pl, jp, bc := m&4 != 0, m&2 != 0, m&1 != 0
	fn := filepath.Join(c.OutDir, "doc.pdf")
	if err := os.WriteFile(fn, writePDFPages(ps), 0o644); err != nil {
		c.Note("cannot write %s: %v", fn, err)
		return
	}
	c.Count(fmt.Sprintf("document-pages:%d", len(ps)))
	c.Count(fmt.Sprintf("document-options:%03b", m))
	var want []text.TextFragment
	for _, p := range ps {
		if len(p.F) == 0 {
			c.Count("document-page-without-fragments")
		}
		want = append(want, dedupeExpected(toLayout(p))...)
	}
	c.Guard("C09", k, 60, func() {
		full, _, err := openOpts(fn, pl, jp, bc).Text()
		if !chk(c, "C09/doc-text-error", err == nil, k, func() string { return fmt.Sprint(err) }) {
			return
		}
		checkText(c, "doc-text", k, want, full)
		var per []string
		views := make([]docView, len(ps))
		for i := range ps {
			i := i
			t, _, err := openOpts(fn, pl, jp, bc).Pages(i + 1).Text()
			if !chk(c, "C09/doc-page-text-error", err == nil, k, func() string { return fmt.Sprintf("page %d: %v", i+1, err) }) {
				return
			}
			if t == "" {
				per = append(per, "-")
			} else {
				per = append(per, hx.HexS(t))
			}
			v, err := viewOf(func() *tabula.Extractor { return tabula.Open(fn).Pages(i + 1) })
			if !chk(c, "C09/doc-page-view-error", err == nil, k, func() string { return fmt.Sprintf("page %d: %v", i+1, err) }) {
				return
			}
			views[i] = v
		}
		c.Op("c09.doctext "+strings.Join(per, ";"), hx.HexS(full))
		all, err := viewOf(func() *tabula.Extractor { return tabula.Open(fn) })
		if !chk(c, "C09/doc-view-error", err == nil, k, func() string { return fmt.Sprint(err) }) {
			return
		}
		cat := func(name string, whole []string, part func(v docView) []string) {
			var in []string
			for _, v := range views {
				in = append(in, textsHex(part(v)))
			}
			c.Op("c09.doccat "+name+" "+strings.Join(in, ";"), outHex(whole))
			checkText(c, "doc-"+name, k, want, strings.Join(whole, "\n"))
		}
		cat("lines", all.lines, func(v docView) []string { return v.lines })
		cat("paragraphs", all.paras, func(v docView) []string { return v.paras })
		cat("blocks", all.blocks, func(v docView) []string { return v.blocks })
		cat("reading-order-lines", all.roLines, func(v docView) []string { return v.roLines })
		cat("reading-order-fragments", all.roFrags, func(v docView) []string { return v.roFrags })
	})
}

// ---- Analyze ------------------------------------------------------------------------------

func minID(fs []text.TextFragment) int {
	m := -1
	for _, f := range fs {
		if id := fragID(f); m < 0 || id < m {
			m = id
		}
	}
	return m
}

func lineSetStr(l layout.Line) string { return idList(idsOf(l.Fragments, true)) }

// opAnalyze: (*Analyzer).Analyze as one function of the fragments and the heuristic outcomes
// (gaps, line tolerances, paragraph starts): columns, reading order, lines, paragraphs.
func opAnalyze(c *hx.Ctx, frs []text.TextFragment, w, h float64) {
	if len(frs) == 0 {
		return
	}
	gaps := layout.VerifFindVerticalGaps(cp(frs), w, h)
	if len(gaps) > 0 {
		reg, _ := layout.VerifSeparateSpanningFragments(cp(frs), append([]layout.Gap(nil), gaps...))
		if colsAmbiguous(frs, reg) || colsAmbiguous(frs, frs) {
			drop(c, "analyze")
			return
		}
	}
	ar := layout.NewAnalyzer().Analyze(cp(frs), w, h)
	if ar.Columns == nil || ar.ReadingOrder == nil || ar.Lines == nil || ar.Paragraphs == nil {
		return
	}
	ro := ar.ReadingOrder
	rtl := ro.Direction == layout.RightToLeft
	var boxes []sbox
	var tols []string
	ok := true
	addSec := func(fs []text.TextFragment, span bool) {
		if len(fs) == 0 {
			return
		}
		tol := layout.VerifLineTolerance(cp(fs))
		tols = append(tols, fmt.Sprintf("%d/%d:%s", minID(fs), len(fs), ratOf(tol)))
		boxes = append(boxes, boxOf(fs, span))
		if _, lok := linesPre(fs, tol); !lok {
			ok = false
		}
	}
	addSec(ar.Columns.SpanningFragments, true)
	var cols [][]text.TextFragment
	for _, col := range ar.Columns.Columns {
		cols = append(cols, col.Fragments)
		addSec(col.Fragments, false)
	}
	tolAll := layout.VerifLineTolerance(cp(frs))
	if _, lok := linesPre(frs, tolAll); !lok {
		ok = false
	}
	if !ok || !weakOrderN(len(boxes), func(i, j int) bool { return sectionLessGo(boxes[i], boxes[j], rtl) }) {
		drop(c, "analyze")
		return
	}
	// paragraph starts over the lines of the reading order, lines keyed by (least id, length)
	key := func(l layout.Line) string { return fmt.Sprintf("%d/%d", minID(l.Fragments), len(l.Fragments)) }
	start := map[string]bool{}
	var ps []string
	for _, p := range ar.Paragraphs.Paragraphs {
		var ls []string
		for j, l := range p.Lines {
			if j == 0 {
				start[key(l)] = true
			}
			ls = append(ls, lineSetStr(l))
		}
		ps = append(ps, strings.Join(ls, "+"))
	}
	bits := make([]byte, len(ro.Lines))
	for i, l := range ro.Lines {
		bits[i] = '0'
		if start[key(l)] {
			bits[i] = '1'
		}
	}
	bs := "-"
	if len(bits) > 0 {
		bs = string(bits)
	}
	var so []string
	for _, s := range ro.Sections {
		so = append(so, sectionOut(s))
	}
	var lg [][]text.TextFragment
	for _, l := range ar.Lines.Lines {
		lg = append(lg, l.Fragments)
	}
	j := func(xs []string, sep string) string {
		if len(xs) == 0 {
			return "-"
		}
		return strings.Join(xs, sep)
	}
	out := "C=" + partOut(cols, true) + " S=" + groupOut(ar.Columns.SpanningFragments, true) + " RO=" + j(so, ";") +
		" L=" + partOut(lg, true) + " P=" + j(ps, "|")
	c.Op(fmt.Sprintf("c09.analyze %d %s %s %s %s %s", btoi(rtl), gapsStr(gaps), j(tols, ","), ratOf(tolAll), bs, fragsStr(frs)), out)
}
