package c12

import (
	"fmt"
	"strings"

	"github.com/tsawler/tabula/model"
	"github.com/tsawler/tabula/rag"

	"verifharness/hx"
)

func init() { hx.Register("C12", Run, Replay) }

type kase struct {
	Seed  uint64 `json:"seed"`
	Index int    `json:"index"`
	Mode  string `json:"mode"` // doc | layout | fixed | nested | e2e | sent | usp | addpage | history | atomic | query | intro | mdoc
	Name  string `json:"name,omitempty"`
}

// ---- element-based chunker (rag.ChunkDocument …) ------------------------------------

func viewsOf(chunks []*rag.Chunk) []cview {
	out := make([]cview, len(chunks))
	for i, ch := range chunks {
		out[i] = cview{Idx: ch.Metadata.ChunkIndex, ID: ch.ID, Total: ch.Metadata.TotalChunks,
			PS: ch.Metadata.PageStart, PE: ch.Metadata.PageEnd,
			Path: append([]string(nil), ch.Metadata.SectionPath...), Text: ch.Text, Title: ch.Metadata.SectionTitle}
	}
	return out
}

// dumpChunks is the implementation's side of the correspondence:
// <idx>,<hex id>,<total>,<pageStart>,<pageEnd>,<path: hex+hex… or ~>,<hex text> joined by ';' ("none" if empty)
func dumpChunks(vs []cview) string {
	if len(vs) == 0 {
		return "none"
	}
	parts := make([]string, len(vs))
	for i, v := range vs {
		path := "~"
		if len(v.Path) > 0 {
			hs := make([]string, len(v.Path))
			for j, p := range v.Path {
				hs[j] = hx.HexS(p)
			}
			path = strings.Join(hs, "+")
		}
		parts[i] = fmt.Sprintf("%d,%s,%d,%d,%d,%s,%s", v.Idx, hx.HexS(v.ID), v.Total, v.PS, v.PE, path, hx.HexS(v.Text))
	}
	return strings.Join(parts, ";")
}

func chunkDoc(sz sizeCase, doc *model.Document) *rag.ChunkCollection {
	switch sz.API {
	case 0:
		return rag.ChunkDocument(doc)
	case 2:
		return rag.NewDocumentChunker().ChunkDocument(doc)
	default:
		return rag.ChunkDocumentWithConfig(doc, sz.CC, sz.Cfg)
	}
}

// tocMatch is the documented rule for a heading-like paragraph: its trimmed text
// equals a Layout heading of a page with the same number.
func tocMatch(d ldoc, number int, text string) bool {
	text = strings.TrimSpace(text)
	for _, lp := range d.Pages {
		if lp.NoLayout || lp.Number != number {
			continue
		}
		for _, e := range lp.Elems {
			if e.Kind == "h" && strings.TrimSpace(e.Text) == text {
				return true
			}
		}
	}
	return false
}

// splitTable supplies the text splitter (a parameter of the model, property C13)
// at the call boundary: for every run of consecutive paragraphs whose joined text
// exceeds the configured maximum, the pieces SplitToSize returns for it.
//
//	s=<hex text>:<piece>+<piece>…,…    piece = <start>.<len> (substring of the text) or x<hex>
func splitTable(d ldoc, cfg rag.SizeConfig) string {
	sc := rag.NewSizeCalculatorWithConfig(cfg)
	var entries []string
	seen := map[string]bool{}
	flush := func(text string) {
		if text == "" || seen[text] || !sc.IsAboveMax(text) {
			return
		}
		seen[text] = true
		pieces := sc.SplitToSize(text, nil)
		var ps []string
		from := 0
		for _, p := range pieces {
			at := strings.Index(text[from:], p)
			if at >= 0 && p != "" {
				ps = append(ps, fmt.Sprintf("%d.%d", from+at, len(p)))
				from += at + len(p)
			} else {
				ps = append(ps, "x"+hx.HexS(p))
			}
		}
		entries = append(entries, hx.HexS(text)+":"+strings.Join(ps, "+"))
	}
	for _, lp := range d.Pages {
		cur := ""
		for _, e := range lp.Elems {
			if e.Kind == "p" && !tocMatch(d, lp.Number, e.Text) {
				if cur != "" {
					cur += "\n\n"
				}
				cur += e.Text
				continue
			}
			flush(cur)
			cur = ""
		}
		flush(cur)
	}
	return "s=" + strings.Join(entries, ",")
}

var allKinds = map[string]bool{"heading": true, "paragraph": true, "list-item": true, "table-cell": true, "image": true}

func pagesOf(d ldoc) map[int]bool {
	m := map[int]bool{}
	for _, lp := range d.Pages {
		m[lp.Number] = true
	}
	return m
}

// runDocCase checks one document with the element-based chunker.
func runDocCase(c *hx.Ctx, k kase, d ldoc, sz sizeCase, tie bool) {
	var vs []cview
	var nColl int
	var chunks []*rag.Chunk
	p := hx.Safe(func() {
		coll := chunkDoc(sz, toModel(d))
		vs = viewsOf(coll.Chunks)
		nColl = coll.Count()
		chunks = coll.Chunks
	})
	what := func() string { return fmt.Sprintf("config %s; %s", sz.Name, describe(d)) }
	if !c.Check("C12/panic", p == "", k, func() string { return "panic: " + p + "; " + what() }) {
		return
	}
	if tie {
		c.Op("c12.chunk "+splitTable(d, effCfg(sz))+" "+docWire(d), dumpChunks(vs))
		// the same with IsAboveMax/SplitToSize computed by the model of C13 (compose.go)
		if w, ok := sizeWire(sz); ok && textBytes(d) <= 30000 {
			c.Op("c12.chunkc "+w+" "+docWire(d), dumpChunks(vs))
			// … and every other field of ChunkMetadata (Model/ChunkMeta.lean, intro.go); every second tied
			// document and every fixed one (the quick tier has a minute)
			if k.Index%2 == 0 {
				c.Op("c12.chunkx "+w+" "+docWire(d), dumpMeta(chunks))
				c.Count("doc/metadata-by-model")
			}
			if strings.Contains(dumpSplit(d, effCfg(sz)), ":") {
				c.Count("doc/splitter-by-model/some-block-split")
			} else {
				c.Count("doc/splitter-by-model/no-block-split")
			}
		}
	}
	atoms := atomsOf(d, func(int) bool { return true })
	checkChunks(c, coverOpts{prefix: "C12/", kinds: allKinds, crossKind: true, exactPage: true, inPath: allKinds, pages: pagesOf(d)},
		atoms, vs, k, what)
	c.Check("C12/total", nColl == len(vs), k, func() string { return fmt.Sprintf("Count()=%d, %d chunks", nColl, len(vs)) })
	checkMeta(c, k, chunks, what)

	// a chunk's path is unaffected by later headings: rename one later heading and
	// compare every chunk that precedes it
	var hpos [][2]int
	for pi, lp := range d.Pages {
		for ei, e := range lp.Elems {
			if e.Kind == "h" {
				hpos = append(hpos, [2]int{pi, ei})
			}
		}
	}
	if len(hpos) >= 2 {
		pick := hpos[1+int(uint64(k.Index)%uint64(len(hpos)-1))]
		d2 := cloneDoc(d)
		old := d2.Pages[pick[0]].Elems[pick[1]].Text
		d2.Pages[pick[0]].Elems[pick[1]].Text = strings.Replace(old, "h", "H", 1)
		var vs2 []cview
		if hx.Safe(func() { vs2 = viewsOf(chunkDoc(sz, toModel(d2)).Chunks) }) == "" {
			cut := -1
			hs := strip(old)
			for i, v := range vs {
				if strings.Contains(strip(v.Text), hs) {
					cut = i
					break
				}
			}
			ok, bad := true, -1
			for i := 0; i < cut && i < len(vs2); i++ {
				if !eqPath(vs[i].Path, vs2[i].Path) {
					ok, bad = false, i
					break
				}
			}
			c.Check("C12/path-aliased", ok, k, func() string {
				return fmt.Sprintf("renaming the later heading %q changes the section path of the earlier chunk %d from %q to %q; %s",
					clip(old), bad, vs[bad].Path, vs2[bad].Path, what())
			})
		}
	}
}

// effCfg is the size configuration the chosen API really uses.
func effCfg(sz sizeCase) rag.SizeConfig {
	if sz.API == 1 {
		return sz.Cfg
	}
	return rag.DefaultSizeConfig()
}

func cloneDoc(d ldoc) ldoc {
	out := d
	out.Pages = make([]lpage, len(d.Pages))
	for i, p := range d.Pages {
		out.Pages[i] = p
		out.Pages[i].Elems = append([]lelem(nil), p.Elems...)
	}
	return out
}

// ---- fixed small documents (the shapes named in the property's rationale) -------------

func h(lv int, t string) lelem { return lelem{Kind: "h", Level: lv, Text: t} }

// hp is a heading delivered as a paragraph that matches a Layout heading of its page.
func hp(lv int, t string) lelem { return lelem{Kind: "h", Level: lv, Text: t, TOC: true} }
func para(t string) lelem       { return lelem{Kind: "p", Text: t} }

func fixedDocs() map[string]ldoc {
	one := func(es ...lelem) ldoc { return ldoc{Pages: []lpage{{Number: 1, Elems: es}}} }
	return map[string]ldoc{
		"h1-h2-h2":      one(h(1, "ha1z"), h(2, "hb2z"), para("pa3z"), h(2, "hc4z"), para("pb5z")),
		"h1-h3-h3":      one(h(1, "ha1z"), h(3, "hb2z"), para("pa3z"), h(3, "hc4z"), para("pb5z")),
		"h2-h1":         one(h(2, "ha1z"), para("pa2z"), h(1, "hb3z"), para("pb4z")),
		"h1-p-h2-p":     one(h(1, "ha1z"), para("pa2z"), h(2, "hb3z"), para("pb4z")),
		"h1-h2-p":       one(h(1, "ha1z"), h(2, "hb2z"), para("pa3z")),
		"p-h4-p":        one(para("pa1z"), h(4, "ha2z"), para("pb3z")),
		"h3-h2-h1-deep": one(h(3, "ha1z"), h(2, "hb2z"), h(1, "hc3z"), h(2, "hd4z"), h(6, "he5z"), h(4, "hf6z"), para("pa7z")),
		// H1 > H2 > H3 > three sibling H4 sections (one per page) > two sibling H5, then a second H3
		"deep-siblings": {Pages: []lpage{
			{Number: 1, Elems: []lelem{h(1, "ha1z"), h(2, "hb2z"), h(3, "hc3z"), h(4, "hd4z"), para("pa5z")}},
			{Number: 2, Elems: []lelem{h(4, "he6z"), para("pb7z")}},
			{Number: 3, Elems: []lelem{h(4, "hf8z"), para("pc9z")}},
			{Number: 4, Elems: []lelem{h(5, "hg10z"), para("pd11z")}},
			{Number: 5, Elems: []lelem{h(5, "hh12z"), para("pe13z")}},
			{Number: 6, Elems: []lelem{h(3, "hi14z"), para("pf15z")}},
			{Number: 7, Elems: []lelem{h(6, "hj16z"), para("pg17z")}},
			{Number: 8, Elems: []lelem{h(6, "hk18z"), para("ph19z")}}}},
		// the same heading text under every chapter, on different pages, all headings
		// delivered as heading-like paragraphs (the PDF path)
		"repeat-toc-pages": {Pages: []lpage{
			{Number: 1, Elems: []lelem{hp(1, "ha1z"), hp(2, "hov2z"), para("pa3z")}},
			{Number: 2, Elems: []lelem{hp(1, "hb4z"), hp(2, "hov2z"), para("pb5z"), hp(2, "hsu6z"), para("pc7z")}},
			{Number: 3, Elems: []lelem{hp(1, "hc8z"), hp(2, " hov2z "), para("pd9z"), hp(2, "hsu6z"), para("pe10z")}}}},
		// recurring texts on one page and across pages, at the same and at other levels,
		// as elements and as heading-like paragraphs, a chapter title recurring as a subsection
		"repeat-mixed": {Pages: []lpage{
			{Number: 1, Elems: []lelem{h(1, "ha1z"), hp(2, "hov2z"), para("pa3z"), h(2, "hb4z"), hp(3, "hov2z"), para("pb5z"), hp(4, "hov2z"), para("pc6z")}},
			{Number: 2, Elems: []lelem{h(2, "hov2z"), para("pd7z"), hp(1, "hc8z"), hp(2, "hov2z"), para("pe9z"), hp(3, "ha1z"), para("pf10z")}},
			{Number: 4, NoLayout: true, Elems: []lelem{h(1, "hc8z"), h(3, "hov2z"), para("pg11z")}},
			{Number: 5, Elems: []lelem{hp(3, "hov2z"), para("ph12z"), hp(3, "hov2z"), para("pi13z"), hp(1, "hov2z"), para("pj14z")}}}},
		// a list that continues on the next page starts there with a nested item: the chunk text keeps
		// that item's indentation (createListChunk trimmed it away: efed37d)
		"list-first-item-nested": {Pages: []lpage{
			{Number: 1, Elems: []lelem{h(1, "ha1z"), {Kind: "l", Items: []litem{{0, "la2z"}, {1, "lb3z"}}}}},
			{Number: 2, Elems: []lelem{{Kind: "l", Items: []litem{{1, "lc4z"}, {2, "ld5z"}, {0, "le6z"}}}, para("pa7z"),
				{Kind: "l", Ordered: true, Items: []litem{{2, "lf8z"}, {0, "lg9z"}}}}}}},
		"two-pages": {Pages: []lpage{{Number: 1, Elems: []lelem{h(1, "ha1z"), para("pa2z")}}, {Number: 2}, {Number: 3, Elems: []lelem{para("pb3z"), h(2, "hb4z"),
			{Kind: "l", Items: []litem{{0, "la5z"}, {1, "lb6z"}, {0, "lc7z"}}}, {Kind: "t", Rows: [][]string{{"ta8z", "tb9z"}, {"tc10z", "td11z"}}}, {Kind: "i", Text: "ia12z"}}}}},
	}
}

// ---- driver ---------------------------------------------------------------------------

// tieBudget bounds the bytes of document text sent through the correspondence with
// the Lean driver in one run (every case goes through the oracles regardless).
var tieBudget int

// repeatIdx: cases with an index from repeatFrom on are documents in which heading
// texts recur (tokGen.repeat).
const repeatFrom = 4000000

// sentFrom: cases of the sentence family (sent.go).
const sentFrom = 8000000

// uspFrom: histories of updateSectionPath calls and AddPage sequences (api.go).
const uspFrom = 9000000

func repeatIdx(idx int) bool { return idx >= repeatFrom }

// countRepeats records how heading texts recur in d: on another page, on the same
// page, at another level, under another parent, as heading-like paragraphs.
func countRepeats(c *hx.Ctx, mode string, d ldoc) {
	type occ struct {
		page, level int
		toc         bool
		parent      string
	}
	seen := map[string][]occ{}
	var hs []hd
	for _, lp := range d.Pages {
		for _, e := range lp.Elems {
			if e.Kind != "h" || strip(e.Text) == "" {
				continue
			}
			parent := strings.Join(enclosing(append(append([]hd(nil), hs...), hd{e.Level, ""})), "/")
			hs = append(hs, hd{e.Level, e.Text})
			t := strings.TrimSpace(e.Text)
			seen[t] = append(seen[t], occ{lp.Number, e.Level, e.TOC && !lp.NoLayout, parent})
		}
	}
	var any, otherPage, samePage, otherLevel, otherParent, tocLater, tocSamePageOtherLevel bool
	for _, os := range seen {
		for j := 1; j < len(os); j++ {
			any = true
			for i := 0; i < j; i++ {
				if os[i].page != os[j].page {
					otherPage = true
					if os[j].toc {
						tocLater = true
					}
				} else {
					samePage = true
					if os[i].level != os[j].level && os[j].toc {
						tocSamePageOtherLevel = true
					}
				}
				if os[i].level != os[j].level {
					otherLevel = true
				}
				if os[i].parent != os[j].parent {
					otherParent = true
				}
			}
		}
	}
	for name, v := range map[string]bool{"any": any, "on-another-page": otherPage, "on-the-same-page": samePage, "at-another-level": otherLevel,
		"under-another-parent": otherParent, "as-heading-like-paragraph-on-a-later-page": tocLater,
		"as-heading-like-paragraph-on-the-same-page-at-another-level": tocSamePageOtherLevel} {
		if v {
			c.Count(mode + "/repeated-heading-text/" + name)
		}
	}
}

func runIndex(c *hx.Ctx, idx int, mode string) {
	r := c.Rng.Fork(uint64(idx))
	sz := pickSize(r)
	d := genDoc(r, sz, repeatIdx(idx))
	k := kase{Seed: c.Seed, Index: idx, Mode: mode}
	tie := false
	if n := textBytes(d); n <= tieBudget && (n <= 40000 || idx%16 == 0) {
		tie = true
		tieBudget -= n
	}
	if tie {
		c.Count(mode + "/tied-to-model")
	} else {
		c.Count(mode + "/oracle-only")
	}
	nel, nh := 0, 0
	for _, p := range d.Pages {
		nel += len(p.Elems)
		for _, e := range p.Elems {
			if e.Kind == "h" {
				nh++
			}
			// createListChunk keeps the indentation of a nested first item (it used to trim it: efed37d);
			// the chunk text of such a list is compared with the model like every other one
			if e.Kind == "l" && len(e.Items) > 0 && e.Items[0].Level > 0 {
				c.Count(mode + "/list-first-item-nested")
			}
		}
	}
	switch mode {
	case "doc":
		runDocCase(c, k, d, sz, tie)
		c.Count("doc/size=" + sz.Name)
	case "layout":
		runLayoutCase(c, k, d, r, tie)
	}
	if repeatIdx(idx) {
		mode += "-repeat"
		countRepeats(c, mode, d)
	}
	c.Count(fmt.Sprintf("%s/pages=%d", mode, len(d.Pages)))
	switch {
	case nh == 0:
		c.Count(mode + "/headings=0")
	case nh < 4:
		c.Count(mode + "/headings=1-3")
	default:
		c.Count(mode + "/headings>=4")
	}
	c.Case(mode+sz.Name+docWire(d), nel > 0)
}

func Run(c *hx.Ctx) {
	c.Rep.Rule = "random logical documents (0-9 pages, 0-8 elements per page: headings of levels 1-6 in any order, paragraphs of 1 word .. 4x the configured maximum, nested ordered/unordered lists (about a third of them starting with a nested item, level 1..4), ragged tables, images with/without alt text, empty pages, pages without layout, non-consecutive page numbers, heading-like paragraphs matched through the table of contents) built as model.Document with Elements and Layout filled consistently; every text is made of words unique in the document; x all size presets and random custom size configurations (characters, tokens, words, sentences, paragraphs) x both chunkers (layout-based chunker with default, RAG-optimized and random ChunkerConfig); plus outline documents (heading nesting 2-6 deep, 2-4 sibling sections under one parent at every depth, each with its own body, one section per page or several, skipped and uneven sibling levels) through the element-based chunker and through the layout-based chunker under every MinHeadingLevel 1..6 with random non-size options; plus the same three families (random, layout, outline) and HTML files with recurring heading texts: about half of the headings take the text of an earlier heading (a few texts recur often, as \"Overview\" under every chapter) under other parents, on other pages and on the same page, at the same and at other levels, about half of them delivered as heading-like paragraphs matched through Layout.Headings and the rest as model.Heading elements, all other texts unique, a repeated heading being identified by its position among the occurrences of its text; table cells now and then hold pipes (escaped by Table.ToMarkdown); every tied document is sent a second time with only its size configuration (presets by name), the Lean side computing IsAboveMax/SplitToSize itself, and every tied layout case a second time without sentence pieces (splitIntoSentences computed by the model) and, for half of the list-atomic ones, a third time through the index-driven loop with FindAtomicBlocks/GetAtomicBlockAt; tabula.Open(html).Chunks() is compared with the model applied to Document(); plus a sentence family (layout documents with maxima 12-160 whose texts are 1 word .. 4x the maximum with sentence ends before blanks, capitals, lower-case ASCII and non-ASCII letters, initials, abbreviations, decimals, several ends in a row, continuation bytes 0x85/0xA0 before a capital; splitIntoSentences alone on such texts and on a stream over a tricky alphabet); histories of 0-12 updateSectionPath calls (two thirds without a skipped level, one third with arbitrary levels), AddPage sequences (numbers unset, preset, mixed), block-type sequences for FindAtomicBlocks, the named size presets and chunker configurations, and histories of 5-8 calls on one DocumentChunker and one Chunker over 2-3 documents; plus query histories: one document (mostly 2 or more pages) chunked through ChunkDocument / ChunkDocumentWithConfig / NewDocumentChunker().ChunkDocument, through the layout-based chunker with its result wrapped by rag.NewChunkCollection, or through tabula.Open(html).Chunks()/ChunksWithConfig, followed by 1-7 reads of the collection (FilterByPage/PageRange/Section/ElementType, FilterWith*, FilterByMin/MaxTokens, Search for a word of the document, Filter with a predicate, a hand-made sub-collection NewChunkCollection(ToSlice()[a:b]), GetByIndex/GetByID/First/Last, statistics, Markdown, JSON/JSONL/CSV/TSV export, exporters, per-chunk formatting), a quarter of them applied to the result of an earlier read; after every read the metadata clauses are evaluated again on the original collection and on the result; non-trivial = at least one element"
	runPresets(c)
	runChunkerSettings(c)
	for i, n := 0, c.N(300, 3000); i < n; i++ {
		runUpdatePath(c, uspFrom+i)
	}
	for i, n := 0, c.N(100, 1000); i < n; i++ {
		runAddPage(c, uspFrom+500000+i)
	}
	for i, n := 0, c.N(120, 1200); i < n; i++ {
		runHistory(c, uspFrom+700000+i)
	}
	for i, n := 0, c.N(300, 3000); i < n; i++ {
		runAtomic(c, uspFrom+800000+i)
	}
	// one model.Document, Elements and Layout independent, through both entry points (mdoc.go)
	for i, n := 0, c.N(400, 4000); i < n; i++ {
		runMDoc(c, mdocFrom+i)
	}
	// isListIntro alone (intro.go)
	for i, n := 0, c.N(600, 6000); i < n; i++ {
		runIntro(c, introFrom+i)
	}
	// histories of reads on the collection a chunker returned (query.go)
	for i, n := 0, c.N(700, 7000); i < n; i++ {
		runQuery(c, queryFrom+i)
	}
	fd := fixedDocs()
	for _, name := range hx.SortedKeys(fd) {
		d := fd[name]
		k := kase{Seed: c.Seed, Mode: "fixed", Name: name}
		runDocCase(c, k, d, sizeCase{Name: "default-api", Cfg: rag.DefaultSizeConfig(), CC: rag.DefaultChunkerConfig(), API: 0, MaxLen: 2000}, true)
		runLayoutFixed(c, k, d)
		c.Case("fixed"+name, true)
	}
	n := c.N(1500, 12000)
	tieBudget = c.N(4000000, 40000000)
	for i := 0; i < n; i++ {
		runIndex(c, i, "doc")
	}
	m := c.N(1500, 12000)
	tieBudget = c.N(4000000, 40000000)
	for i := 0; i < m; i++ {
		runIndex(c, 1000000+i, "layout")
	}
	q := c.N(150, 1500)
	tieBudget = c.N(1500000, 15000000)
	for i := 0; i < q; i++ {
		runNested(c, 3000000+i)
	}
	// the same three families with recurring heading texts
	n = c.N(600, 6000)
	tieBudget = c.N(1500000, 15000000)
	for i := 0; i < n; i++ {
		runIndex(c, repeatFrom+i, "doc")
	}
	m = c.N(300, 3000)
	tieBudget = c.N(800000, 8000000)
	for i := 0; i < m; i++ {
		runIndex(c, repeatFrom+1000000+i, "layout")
	}
	q = c.N(100, 1000)
	tieBudget = c.N(1000000, 10000000)
	for i := 0; i < q; i++ {
		runNested(c, repeatFrom+2000000+i)
	}
	// splitIntoSentences alone and through the layout-based chunker (sent.go)
	q = c.N(400, 4000)
	for i := 0; i < q; i++ {
		runSentIndex(c, sentFrom+i)
	}
	runEndToEnd(c)
}

// Replay re-runs one recorded failing case on the implementation.
func Replay(c *hx.Ctx, ks map[string]interface{}) {
	mode, _ := ks["mode"].(string)
	idx, _ := ks["index"].(float64)
	if s, ok := ks["seed"].(float64); ok && uint64(s) != c.Seed {
		c.Seed = uint64(s)
		c.Rng = hx.NewRng(c.Seed)
	}
	switch mode {
	case "fixed":
		name, _ := ks["name"].(string)
		if d, ok := fixedDocs()[name]; ok {
			k := kase{Seed: c.Seed, Mode: "fixed", Name: name}
			runDocCase(c, k, d, sizeCase{Name: "default-api", Cfg: rag.DefaultSizeConfig(), CC: rag.DefaultChunkerConfig(), API: 0, MaxLen: 2000}, false)
			runLayoutFixed(c, k, d)
		}
	case "doc", "layout":
		tieBudget = 0
		runIndex(c, int(idx), mode)
	case "nested":
		tieBudget = 0
		runNested(c, int(idx))
	case "sent":
		runSentIndex(c, int(idx))
	case "usp":
		runUpdatePath(c, int(idx))
	case "addpage":
		runAddPage(c, int(idx))
	case "history":
		runHistory(c, int(idx))
	case "atomic":
		runAtomic(c, int(idx))
	case "query":
		runQuery(c, int(idx))
	case "intro":
		runIntro(c, int(idx))
	case "mdoc":
		runMDoc(c, int(idx))
	case "e2e":
		runEndToEnd(c)
	}
}
