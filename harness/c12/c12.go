// Package c12 is the correspondence/oracle harness for property C12.
package c12

import "verifharness/hx"

func init() { hx.Register("C12", Run, Replay) }

// Run is not built yet for this property.
func Run(c *hx.Ctx) { c.Note("C12: harness not built") }

func Replay(c *hx.Ctx, kase map[string]interface{}) {}
