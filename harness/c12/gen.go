// Package c12: RAG chunks cover the document once, in order, with true metadata.
//
// gen.go: the logical document (what the property quantifies over), its random
// generator, and the conversion to model.Document with Elements and Layout
// populated consistently (the element-based DocumentChunker reads Elements and
// the table of contents; the layout-based Chunker reads Layout only).
package c12

import (
	"fmt"
	"strings"

	"github.com/tsawler/tabula/model"
	"github.com/tsawler/tabula/rag"

	"verifharness/hx"
)

type litem struct {
	Level int
	Text  string
}

// lelem is one logical element. Kind: h heading, p paragraph, l list, t table, i image.
type lelem struct {
	Kind    string
	Level   int    // heading level
	Text    string // heading / paragraph text, image alt text
	Items   []litem
	Ordered bool
	Rows    [][]string
	TOC     bool // heading realised as a Paragraph element that matches a Layout heading
}

type lpage struct {
	Number   int
	Elems    []lelem
	NoLayout bool
}

type ldoc struct {
	Title   string
	Pages   []lpage
	AddPage bool // build with Document.AddPage (numbers 1..n) instead of literal Pages
}

// tokens -------------------------------------------------------------------------

// tokGen produces words that are unique in a document and cannot occur inside
// one another or inside any decoration the chunkers add: <letter><digits>z, with an
// optional two-byte letter inside. After whitespace is stripped a concatenation
// of such words still contains each exactly once.
type tokGen struct {
	n int
	r *hx.Rng

	// repeat: heading texts recur. About half of the headings take the text of a
	// heading generated before (a few texts recur often, like "Overview" under every
	// chapter), at whatever level, page and parent the new heading has, and about
	// half of the headings are delivered as heading-like paragraphs. All other
	// texts stay unique, and a heading text is never part of another text, so a
	// repeated heading is identified by its position among the occurrences of its text.
	repeat bool
	heads  []string
}

// heading makes the text of one heading of lo..hi words.
func (g *tokGen) heading(lo, hi int) string {
	if g.repeat && len(g.heads) > 0 && g.r.Chance(1, 2) {
		i := g.r.Intn(len(g.heads))
		if j := g.r.Intn(len(g.heads)); j < i {
			i = j // the early texts recur most
		}
		return pad(g.r, g.heads[i])
	}
	raw := g.text("h", g.r.Range(lo, hi))
	if g.repeat {
		g.heads = append(g.heads, raw)
	}
	return pad(g.r, raw)
}

// tocChance: one heading in tocChance is delivered as a paragraph that matches
// Layout.Headings (the PDF path) instead of a model.Heading element.
func (g *tokGen) tocChance(plain int) int {
	if g.repeat {
		return 2
	}
	return plain
}

func (g *tokGen) word(kind string) string {
	g.n++
	if g.r.Chance(1, 9) {
		return fmt.Sprintf("%sé%dz", kind, g.n)
	}
	return fmt.Sprintf("%s%dz", kind, g.n)
}

// text makes a text of about n words with sentence punctuation and line breaks.
func (g *tokGen) text(kind string, n int) string {
	var sb strings.Builder
	for i := 0; i < n; i++ {
		if i > 0 {
			switch g.r.Intn(14) {
			case 0:
				sb.WriteString(". ")
			case 1:
				sb.WriteString("? ")
			case 2:
				sb.WriteString("\n")
			case 3:
				sb.WriteString(", ")
			case 4:
				sb.WriteString("  ")
			default:
				sb.WriteString(" ")
			}
		}
		sb.WriteString(g.word(kind))
	}
	if n > 1 && g.r.Chance(1, 2) {
		sb.WriteString(".")
	}
	return sb.String()
}

func pad(r *hx.Rng, s string) string {
	switch r.Intn(8) {
	case 0:
		return " " + s
	case 1:
		return s + " \n"
	case 2:
		return "\t" + s + "  "
	}
	return s
}

// sizing -----------------------------------------------------------------------------

// sizeCase is one size configuration with the length scale (in bytes) at which
// a text block crosses its maximum, so that paragraphs can be drawn from one word
// to several times the maximum whatever the unit.
type sizeCase struct {
	Name   string
	Cfg    rag.SizeConfig
	CC     rag.ChunkerConfig
	API    int // 0 ChunkDocument(doc), 1 ChunkDocumentWithConfig, 2 NewDocumentChunker().ChunkDocument
	MaxLen int // approximate byte length at which IsAboveMax flips
}

func customChars(t, mn, mx int) rag.SizeConfig {
	c := rag.DefaultSizeConfig()
	c.Target.Value, c.Min.Value, c.Max.Value = t, mn, mx
	return c
}

func pickSize(r *hx.Rng) sizeCase {
	cc := rag.DefaultChunkerConfig()
	if r.Chance(1, 3) {
		cc = rag.RAGOptimizedOptions().ChunkerConfig
	}
	switch r.Intn(16) {
	case 0:
		return sizeCase{"default-api", rag.DefaultSizeConfig(), cc, 0, 2000}
	case 1:
		return sizeCase{"default-ctor", rag.DefaultSizeConfig(), cc, 2, 2000}
	case 2:
		return sizeCase{"small", rag.SmallChunkConfig(), cc, 1, 800}
	case 3:
		return sizeCase{"medium", rag.MediumChunkConfig(), cc, 1, 2000}
	case 4:
		return sizeCase{"large", rag.LargeChunkConfig(), cc, 1, 4000}
	case 5:
		return sizeCase{"openai", rag.OpenAIEmbeddingConfig(), cc, 1, 32000}
	case 6:
		return sizeCase{"cohere", rag.CohereEmbeddingConfig(), cc, 1, 2048}
	case 7:
		return sizeCase{"claude", rag.ClaudeContextConfig(), cc, 1, 32000}
	case 8:
		o := rag.RAGOptimizedOptions()
		return sizeCase{"rag-optimized", o.SizeConfig, o.ChunkerConfig, 1, 32000}
	case 9:
		t := r.Range(1, 3)
		m := t + r.Range(0, 3)
		return sizeCase{"semantic", rag.SemanticSizeConfig(t, m), cc, 1, 400 * m}
	case 10:
		t := r.Range(4, 120)
		m := t + r.Range(0, 200)
		c := rag.TokenBasedSizeConfig(t, m)
		if r.Bool() {
			c.TokensPerChar = hx.Pick(r, []float64{0.5, 1, 0.125})
		}
		return sizeCase{"token-custom", c, cc, 1, int(float64(m) / c.TokensPerChar)}
	case 11:
		m := r.Range(3, 40)
		c := rag.DefaultSizeConfig()
		c.Target = rag.SizeLimit{Value: m, Unit: rag.SizeUnitWords, Type: rag.LimitTypeSoft}
		c.Max = rag.SizeLimit{Value: m + r.Intn(10), Unit: rag.SizeUnitWords, Type: rag.LimitTypeHard}
		return sizeCase{"words-custom", c, cc, 1, 6 * c.Max.Value}
	case 12:
		m := r.Range(1, 6)
		c := rag.DefaultSizeConfig()
		c.Target = rag.SizeLimit{Value: m, Unit: rag.SizeUnitSentences, Type: rag.LimitTypeSoft}
		c.Max = rag.SizeLimit{Value: m, Unit: rag.SizeUnitSentences, Type: rag.LimitTypeHard}
		return sizeCase{"sentences-custom", c, cc, 1, 80 * m}
	default:
		mx := r.Range(10, 400)
		c := customChars(mx/2, mx/10, mx)
		if r.Chance(1, 4) {
			c.SplitAtSemanticBoundaries = false
		}
		return sizeCase{"chars-custom", c, cc, 1, mx}
	}
}

// paraWords draws a paragraph length: one word .. several times the maximum.
func paraWords(r *hx.Rng, maxLen int, budget *int) int {
	perWord := 6
	var n int
	switch r.Intn(10) {
	case 0:
		n = 1
	case 1, 2, 3:
		n = r.Range(2, 12)
	case 4, 5:
		n = r.Range(1, maxLen/perWord+1) // up to the maximum
	case 6, 7:
		n = maxLen/perWord + r.Range(-3, 3) // around the maximum
	default:
		n = (maxLen / perWord) * r.Range(1, 4) // several times the maximum
		n += r.Intn(20)
	}
	if n < 1 {
		n = 1
	}
	if n*perWord > *budget { // keep one case below ~150 kB of text
		n = *budget / perWord
		if n < 1 {
			n = 1
		}
	}
	*budget -= n * perWord
	return n
}

// generator --------------------------------------------------------------------------

func genDoc(r *hx.Rng, sz sizeCase, repeat bool) ldoc {
	g := &tokGen{r: r, repeat: repeat}
	d := ldoc{AddPage: r.Chance(1, 4)}
	if r.Bool() {
		d.Title = "Title " + g.word("d")
	}
	npages := r.Range(1, 4)
	if r.Chance(1, 10) {
		npages = r.Range(5, 9)
	}
	if r.Chance(1, 20) {
		npages = 0
	}
	budget := 6000 // bytes of paragraph text in one document; now and then enough to cross the big presets
	if r.Chance(1, 10) {
		budget = 120000
	}
	num := 0
	for p := 0; p < npages; p++ {
		num++
		if !d.AddPage && r.Chance(1, 6) {
			num += r.Range(1, 5) // a page selection: increasing, not consecutive
		}
		pg := lpage{Number: num, NoLayout: r.Chance(1, 8)}
		nel := r.Range(0, 8)
		if r.Chance(1, 7) {
			nel = 0
		}
		for e := 0; e < nel; e++ {
			switch r.Intn(12) {
			case 0, 1, 2:
				lv := r.Range(1, 6)
				h := lelem{Kind: "h", Level: lv, Text: g.heading(1, 4)}
				if !pg.NoLayout && r.Chance(1, g.tocChance(5)) {
					h.TOC = true
				}
				pg.Elems = append(pg.Elems, h)
			case 3, 4, 5, 6, 7:
				t := pad(r, g.text("p", paraWords(r, sz.MaxLen, &budget)))
				if r.Chance(1, 8) {
					t += ":" // a list introduction
				}
				if r.Chance(1, 25) {
					t = hx.Pick(r, []string{"", " ", "\n\n"})
				}
				pg.Elems = append(pg.Elems, lelem{Kind: "p", Text: t})
			case 8, 9:
				l := lelem{Kind: "l", Ordered: r.Bool()}
				n := r.Range(1, 7)
				if r.Chance(1, 12) {
					n = 0
				}
				lv := 0
				if r.Chance(1, 5) { // the list starts with a nested item (a list continued from the page before)
					lv = r.Range(1, 3)
				}
				for i := 0; i < n; i++ {
					switch r.Intn(4) {
					case 0:
						lv++
					case 1:
						if lv > 0 {
							lv -= r.Range(1, lv)
						}
					}
					l.Items = append(l.Items, litem{Level: lv, Text: pad(r, g.text("l", r.Range(1, 6)))})
				}
				if r.Chance(1, 15) && n > 0 { // one long list (several times the maximum)
					k := r.Intn(n)
					l.Items[k].Text = g.text("l", paraWords(r, sz.MaxLen, &budget))
				}
				pg.Elems = append(pg.Elems, l)
			case 10:
				t := lelem{Kind: "t"}
				rows, cols := r.Range(1, 4), r.Range(1, 4)
				if r.Chance(1, 12) {
					rows = 0
				}
				for i := 0; i < rows; i++ {
					nc := cols
					if r.Chance(1, 6) {
						nc = r.Range(0, cols+1) // ragged
					}
					row := []string{}
					for j := 0; j < nc; j++ {
						c := g.text("t", r.Range(1, 3))
						if r.Chance(1, 6) {
							c = g.word("t") + "\n" + g.word("t")
						}
						if g.n%6 == 0 {
							c = "|" + c + "|q" // pipes: escaped by Table.ToMarkdown
						}
						if r.Chance(1, 10) {
							c = ""
						}
						row = append(row, c)
					}
					t.Rows = append(t.Rows, row)
				}
				pg.Elems = append(pg.Elems, t)
			default:
				alt := ""
				if r.Chance(2, 3) {
					alt = g.text("i", r.Range(1, 5))
				}
				pg.Elems = append(pg.Elems, lelem{Kind: "i", Text: alt})
			}
		}
		d.Pages = append(d.Pages, pg)
	}
	return d
}

// toModel builds the model.Document: Elements in document order; Layout with the
// page's headings, paragraphs and lists (as the PDF path of tabula fills it).
func toModel(d ldoc) *model.Document {
	doc := model.NewDocument()
	doc.Metadata.Title = d.Title
	for _, lp := range d.Pages {
		pg := model.NewPage(612, 792)
		pg.Number = lp.Number
		var lay *model.PageLayout
		if !lp.NoLayout {
			lay = &model.PageLayout{}
		}
		for _, e := range lp.Elems {
			switch e.Kind {
			case "h":
				if e.TOC && lay != nil {
					pg.Elements = append(pg.Elements, &model.Paragraph{Text: e.Text})
				} else {
					pg.Elements = append(pg.Elements, &model.Heading{Text: e.Text, Level: e.Level})
				}
				if lay != nil {
					lay.Headings = append(lay.Headings, model.HeadingInfo{Level: e.Level, Text: e.Text})
				}
			case "p":
				pg.Elements = append(pg.Elements, &model.Paragraph{Text: e.Text})
				if lay != nil {
					lay.Paragraphs = append(lay.Paragraphs, model.ParagraphInfo{Text: e.Text})
				}
			case "l":
				items := make([]model.ListItem, len(e.Items))
				for i, it := range e.Items {
					items[i] = model.ListItem{Text: it.Text, Level: it.Level}
				}
				pg.Elements = append(pg.Elements, &model.List{Items: items, Ordered: e.Ordered})
				if lay != nil {
					ty := model.ListTypeBullet
					if e.Ordered {
						ty = model.ListTypeNumbered
					}
					lay.Lists = append(lay.Lists, model.ListInfo{Type: ty, Items: append([]model.ListItem(nil), items...)})
				}
			case "t":
				t := &model.Table{}
				for _, row := range e.Rows {
					cells := make([]model.Cell, len(row))
					for j, c := range row {
						cells[j] = model.Cell{Text: c, RowSpan: 1, ColSpan: 1}
					}
					t.Rows = append(t.Rows, cells)
				}
				pg.Elements = append(pg.Elements, t)
			case "i":
				pg.Elements = append(pg.Elements, &model.Image{AltText: e.Text})
			}
		}
		pg.Layout = lay
		if d.AddPage {
			doc.AddPage(pg)
		} else {
			doc.Pages = append(doc.Pages, pg)
		}
	}
	return doc
}

// wire format -------------------------------------------------------------------------

func levelHex(lv int, s string) string { return fmt.Sprintf("%d=%s", lv, hx.HexS(s)) }

// docWire renders the document for the Lean driver:
//
//	d=<page>/<page>…      page  = <number>:<layout>:<elem>|<elem>…
//	layout = ~ (no layout) or <level>=<hex>,…   (Layout.Headings)
//	elem   = h.<level>.<hex> | p.<hex> | l.<o|u>.<level>=<hex>,… | t.r<hex>,<hex>…;r… | i.<hex>
func docWire(d ldoc) string {
	var pages []string
	for _, lp := range d.Pages {
		lay := "~"
		if !lp.NoLayout {
			var hs []string
			for _, e := range lp.Elems {
				if e.Kind == "h" {
					hs = append(hs, levelHex(e.Level, e.Text))
				}
			}
			lay = strings.Join(hs, ",")
		}
		var es []string
		for _, e := range lp.Elems {
			switch e.Kind {
			case "h":
				if e.TOC && !lp.NoLayout {
					es = append(es, "p."+hx.HexS(e.Text))
				} else {
					es = append(es, fmt.Sprintf("h.%d.%s", e.Level, hx.HexS(e.Text)))
				}
			case "p":
				es = append(es, "p."+hx.HexS(e.Text))
			case "l":
				var its []string
				for _, it := range e.Items {
					its = append(its, levelHex(it.Level, it.Text))
				}
				o := "u"
				if e.Ordered {
					o = "o"
				}
				es = append(es, "l."+o+"."+strings.Join(its, ","))
			case "t":
				var rows []string
				for _, row := range e.Rows {
					rows = append(rows, "r"+hx.HexList(row))
				}
				es = append(es, "t."+strings.Join(rows, ";"))
			case "i":
				es = append(es, "i."+hx.HexS(e.Text))
			}
		}
		pages = append(pages, fmt.Sprintf("%d:%s:%s", lp.Number, lay, strings.Join(es, "|")))
	}
	return "d=" + strings.Join(pages, "/")
}

// describe is a short human-readable form for failure details.
func describe(d ldoc) string {
	var sb strings.Builder
	for _, lp := range d.Pages {
		fmt.Fprintf(&sb, "page %d:", lp.Number)
		for _, e := range lp.Elems {
			switch e.Kind {
			case "h":
				fmt.Fprintf(&sb, " H%d(%q)", e.Level, clip(e.Text))
			case "p":
				fmt.Fprintf(&sb, " P(%q)", clip(e.Text))
			case "l":
				fmt.Fprintf(&sb, " L[%d]", len(e.Items))
			case "t":
				fmt.Fprintf(&sb, " T[%d]", len(e.Rows))
			case "i":
				fmt.Fprintf(&sb, " I(%q)", clip(e.Text))
			}
		}
		sb.WriteString("; ")
	}
	s := sb.String()
	if len(s) > 600 {
		s = s[:600] + "…"
	}
	return s
}

// textBytes is the amount of text in the document.
func textBytes(d ldoc) int {
	n := 0
	for _, lp := range d.Pages {
		for _, e := range lp.Elems {
			n += len(e.Text)
			for _, it := range e.Items {
				n += len(it.Text)
			}
			for _, row := range e.Rows {
				for _, c := range row {
					n += len(c)
				}
			}
		}
	}
	return n
}

func clip(s string) string {
	if len(s) > 24 {
		return s[:24] + "…"
	}
	return s
}
