package c12

// intro.go: BoundaryDetector.isListIntro (rag/boundary.go) is part of the model
// (Model/ChunkIntro.lean: the four default ListIntroPatterns read backwards from the
// end of the trimmed text). It is tied to the code directly (op c12.intro, through the
// exported ShouldKeepTogether on a paragraph followed by a list) and through the whole
// layout-based chunker (op c12.lchunki: the Lean side computes every introduction flag
// itself instead of reading the '!' marks of the op line).
//
// meta.go part: the metadata of the element-based chunker's chunks beyond the fields the
// statement names (op c12.chunkx, Model/ChunkMeta.lean).

import (
	"fmt"
	"strings"

	"github.com/tsawler/tabula/rag"

	"verifharness/hx"
)

// introFrom: cases of the list-introduction family.
const introFrom = 9950000

var introPhrases = []string{"the following", "here are", "these are", "these include", "below are", "below is", "as follows",
	"step", "steps", "feature", "features", "item", "items", "point", "points", "reason", "reasons", "benefit", "benefits",
	"advantage", "advantages", "option", "options", "example", "examples", "include", "includes", "including", "such as",
	"for example", "e.g.", "i.e."}

// near misses: a phrase cut short, glued, with a wrong separator or a wrong last character
var introNear = []string{"the followin", "thefollowing", "here  ar", "these is", "below was", "as follow", "ste", "stepss", "feature s",
	"e.g", "eg.", "i.e.,", "such-as", "for\vexample", "for\u00a0example", "includ", "exampl", "optiona", "item.", "points)", "reason!"}

// introAlphabet: the malformed stream (pieces of phrases, separators, colons, white space
// of every kind the code's TrimSpace and the expressions' \s treat differently, the two
// non-ASCII characters case folding puts with ASCII letters, broken UTF-8)
var introAlphabet = []string{"the", " ", "following", ":", "  ", "\t", "\n", "\v", "\f", "\r", "\u00a0", "\u0085", "\u2003", "step", "s", "S", "\u017f", "\u212a",
	"e.g.", ".", "are", "here", "as", "follows", "item", "x", "é", "É", "\xc5", "\xbf", "\xff", "I", "i", "\u0130", "\u0131", "such", "for", "example", "include", "d"}

// variant re-spells a phrase: case, separators, long s.
func introVariant(r *hx.Rng, p string) string {
	var sb strings.Builder
	for i := 0; i < len(p); i++ {
		ch := p[i]
		switch {
		case ch == ' ':
			sb.WriteString(hx.Pick(r, []string{" ", " ", "  ", "\t", "\n", " \r\n ", "\f"}))
		case ch == 's' && r.Chance(1, 6):
			sb.WriteString("\u017f")
		case ch >= 'a' && ch <= 'z' && r.Chance(1, 3):
			sb.WriteByte(ch - 32)
		default:
			sb.WriteByte(ch)
		}
	}
	return sb.String()
}

func genIntroText(r *hx.Rng, g *tokGen) (string, string) {
	pre := ""
	if r.Chance(3, 4) {
		pre = g.text("p", r.Range(1, 6))
		if r.Chance(4, 5) {
			pre += hx.Pick(r, []string{" ", " ", ", ", ". ", "\n", ""})
		}
	}
	tail := hx.Pick(r, []string{"", "", "", ":", ":", " :", ": ", " : \n", "\t", " \v", "\u00a0", ":\u00a0", ".", " x", "::", ":\v", "\u2003:"})
	switch r.Intn(10) {
	case 0, 1, 2, 3:
		return pad(r, pre+introVariant(r, hx.Pick(r, introPhrases))+tail), "phrase"
	case 4, 5:
		return pad(r, pre+introVariant(r, hx.Pick(r, introNear))+tail), "near-miss"
	case 6:
		return pad(r, pre+hx.Pick(r, []string{":", " :", ": ", ":\n\n"})), "colon"
	case 7:
		return pad(r, g.text("p", r.Range(1, 8))), "plain"
	case 8:
		return hx.Pick(r, []string{"", " ", ":", "s", "S", "\u017f", "step", "STEPS:", "\n:\n", "e.g.", "I.E.", "Such As"}), "tiny"
	default:
		var sb strings.Builder
		for i, n := 0, r.Range(0, 10); i < n; i++ {
			sb.WriteString(hx.Pick(r, introAlphabet))
		}
		return sb.String(), "malformed-stream"
	}
}

func runIntro(c *hx.Ctx, idx int) {
	r := c.Rng.Fork(uint64(idx))
	k := kase{Seed: c.Seed, Index: idx, Mode: "intro"}
	g := &tokGen{r: r}
	text, family := genIntroText(r, g)
	var got bool
	p := hx.Safe(func() { got = isIntro(text) })
	if !c.Check("C12/panic", p == "", k, func() string { return fmt.Sprintf("panic in isListIntro(%q): %s", text, p) }) {
		return
	}
	out := "0"
	if got {
		out = "1"
	}
	c.Op("c12.intro "+hx.HexS(text), out)
	// what the patterns document, on the texts where it is plain: a text that ends with a
	// colon introduces a list; a text of unique words without a phrase or colon does not
	tr := strings.TrimSpace(text)
	if strings.HasSuffix(tr, ":") {
		c.Check("C12/list-intro-colon-not-recognised", got, k, func() string {
			return fmt.Sprintf("isListIntro(%q) = false although the text ends with a colon", text)
		})
	}
	if family == "plain" && !strings.HasSuffix(tr, ":") {
		c.Check("C12/list-intro-on-plain-text", !got, k, func() string {
			return fmt.Sprintf("isListIntro(%q) = true: no colon, no introducing phrase", text)
		})
	}
	c.Count("intro/family=" + family)
	if got {
		c.Count("intro/result=introduction")
	} else {
		c.Count("intro/result=no-introduction")
	}
	c.Case("intro"+text, true)
}

// ---- metadata beyond the statement's fields (Model/ChunkMeta.lean) --------------------

// dumpMeta: <idx>,<hex SectionTitle>,<HeadingLevel>,<Level>,<hex ElementTypes[0]>,<HasTable><HasList><HasImage>,<CharCount>,<WordCount>,<EstimatedTokens>
// joined by ';' ("none" if there is no chunk). A chunk of the element-based chunker has exactly one element type.
func dumpMeta(chunks []*rag.Chunk) string {
	if len(chunks) == 0 {
		return "none"
	}
	b := func(v bool) string {
		if v {
			return "1"
		}
		return "0"
	}
	parts := make([]string, len(chunks))
	for i, ch := range chunks {
		m := ch.Metadata
		ty := "?" + fmt.Sprint(len(m.ElementTypes))
		if len(m.ElementTypes) == 1 {
			ty = hx.HexS(m.ElementTypes[0])
		}
		parts[i] = fmt.Sprintf("%d,%s,%d,%d,%s,%s%s%s,%d,%d,%d", m.ChunkIndex, hx.HexS(m.SectionTitle), m.HeadingLevel, int(m.Level), ty,
			b(m.HasTable), b(m.HasList), b(m.HasImage), m.CharCount, m.WordCount, m.EstimatedTokens)
	}
	return strings.Join(parts, ";")
}

// checkMeta: the metadata clauses that follow from the statement ("true metadata"): the
// section title is the innermost enclosing heading (the last entry of the section path),
// the content flags and the element type say what the chunk was made from.
func checkMeta(c *hx.Ctx, k kase, chunks []*rag.Chunk, what func() string) {
	for i, ch := range chunks {
		m := ch.Metadata
		want := ""
		if n := len(m.SectionPath); n > 0 {
			want = m.SectionPath[n-1]
		}
		if !c.Check("C12/section-title-not-innermost-heading", m.SectionTitle == want, k, func() string {
			return fmt.Sprintf("chunk %d: SectionTitle %q, SectionPath %q; %s", i, m.SectionTitle, m.SectionPath, what())
		}) {
			return
		}
		kinds := 0
		for _, v := range []bool{m.HasTable, m.HasList, m.HasImage} {
			if v {
				kinds++
			}
		}
		ty := ""
		if len(m.ElementTypes) == 1 {
			ty = m.ElementTypes[0]
		}
		okFlags := kinds <= 1 && (m.HasTable == (ty == "table")) && (m.HasList == (ty == "list")) && (m.HasImage == (ty == "image"))
		if !c.Check("C12/content-flags-disagree-with-element-type", okFlags, k, func() string {
			return fmt.Sprintf("chunk %d: ElementTypes %q, HasTable %v HasList %v HasImage %v; %s", i, m.ElementTypes, m.HasTable, m.HasList, m.HasImage, what())
		}) {
			return
		}
	}
}
