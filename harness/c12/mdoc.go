package c12

// mdoc.go: one model.Document through both public entry points (Model/ChunkDoc.lean).
// Elements and Layout are independent fields of a page: the extraction fills them
// consistently, a caller need not. This family builds documents in which they disagree
// — layout headings that no element has, with another level than the Heading element of
// the same text, or with the text of a plain paragraph (which then is heading-like);
// layout paragraphs and lists that are no elements, in another order, or missing — and
// sends the whole document on one op line (c12.mdoc); the Lean side projects it to what
// each chunker reads (toDoc / toLDoc). Each chunker's result is also judged by the
// statement's oracles against its own view of the document. A nil document: the empty
// collection from ChunkDocument, an error from Chunker.Chunk.

import (
	"fmt"
	"strings"

	"github.com/tsawler/tabula/model"
	"github.com/tsawler/tabula/rag"

	"verifharness/hx"
)

const mdocFrom = 9970000

// perturbLayout rewrites the Layout of every page independently of its Elements.
func perturbLayout(r *hx.Rng, g *tokGen, doc *model.Document) {
	for _, pg := range doc.Pages {
		if pg.Layout == nil {
			if r.Chance(1, 4) {
				pg.Layout = &model.PageLayout{}
			} else {
				continue
			}
		}
		lay := pg.Layout
		var hs []model.HeadingInfo
		for _, h := range lay.Headings {
			switch r.Intn(6) {
			case 0: // not in the layout
				continue
			case 1: // another level than the element
				h.Level = r.Range(1, 6)
			}
			hs = append(hs, h)
		}
		// the text of a plain paragraph as a layout heading: the paragraph becomes heading-like
		for _, el := range pg.Elements {
			if p, ok := el.(*model.Paragraph); ok && strings.TrimSpace(p.Text) != "" && len(p.Text) < 60 && r.Chance(1, 6) {
				dup := false
				for _, h := range hs {
					if strings.TrimSpace(h.Text) == strings.TrimSpace(p.Text) {
						dup = true
					}
				}
				if !dup {
					hs = append(hs, model.HeadingInfo{Level: r.Range(1, 6), Text: pad(r, strings.TrimSpace(p.Text))})
				}
			}
		}
		for i, n := 0, r.Intn(3); i < n && r.Chance(1, 2); i++ { // headings no element has
			hs = append(hs, model.HeadingInfo{Level: r.Range(1, 6), Text: g.text("h", r.Range(1, 3))})
		}
		if r.Chance(1, 3) {
			hx.Shuffle(r, hs)
		}
		lay.Headings = hs

		isHeading := map[string]bool{}
		for _, h := range hs {
			isHeading[strings.TrimSpace(h.Text)] = true
		}
		var ps []model.ParagraphInfo
		for _, p := range lay.Paragraphs {
			// a heading-like paragraph is a layout heading, not a layout paragraph (as the PDF path fills it)
			if r.Chance(1, 5) || isHeading[strings.TrimSpace(p.Text)] {
				continue
			}
			ps = append(ps, p)
		}
		for i, n := 0, r.Intn(3); i < n && r.Chance(1, 2); i++ {
			t := g.text("p", r.Range(1, 12))
			if r.Chance(1, 4) {
				t += hx.Pick(r, []string{":", " as follows", " the following"})
			}
			ps = append(ps, model.ParagraphInfo{Text: t})
		}
		if r.Chance(1, 3) {
			hx.Shuffle(r, ps)
		}
		lay.Paragraphs = ps

		var ls []model.ListInfo
		for _, l := range lay.Lists {
			if r.Chance(1, 5) {
				continue
			}
			ls = append(ls, l)
		}
		if r.Chance(1, 4) {
			var items []model.ListItem
			for i, n := 0, r.Range(1, 4); i < n; i++ {
				items = append(items, model.ListItem{Level: r.Intn(3), Text: g.text("l", r.Range(1, 4))})
			}
			ls = append(ls, model.ListInfo{Type: model.ListTypeBullet, Items: items})
		}
		lay.Lists = ls
	}
}

// layoutView is the document as the layout-based chunker reads it, as a logical document in
// canonical order (per page: headings, paragraphs, lists).
func layoutView(doc *model.Document) ldoc {
	d := ldoc{Title: doc.Metadata.Title}
	for _, pg := range doc.Pages {
		lp := lpage{Number: pg.Number, NoLayout: pg.Layout == nil}
		if pg.Layout != nil {
			for _, h := range pg.Layout.Headings {
				lp.Elems = append(lp.Elems, lelem{Kind: "h", Level: h.Level, Text: h.Text})
			}
			for _, p := range pg.Layout.Paragraphs {
				lp.Elems = append(lp.Elems, lelem{Kind: "p", Text: p.Text})
			}
			for _, l := range pg.Layout.Lists {
				e := lelem{Kind: "l"}
				for _, it := range l.Items {
					e.Items = append(e.Items, litem{it.Level, it.Text})
				}
				lp.Elems = append(lp.Elems, e)
			}
		}
		d.Pages = append(d.Pages, lp)
	}
	return d
}

// mdocWire: <page>/…  page = <number>#<elem>|…#<~ | H<level>=<hex>|…:P<hex>|…:L<level>=<hex>,…|…>
func mdocWire(doc *model.Document) string {
	if doc == nil {
		return "m=nil"
	}
	ew := strings.TrimPrefix(modelWire(doc), "d=")
	var epages []string
	if ew != "" {
		epages = strings.Split(ew, "/")
	}
	var pages []string
	for i, pg := range doc.Pages {
		// modelWire's page is <number>:<layout headings>:<elems>; the elements are its third field
		parts := strings.SplitN(epages[i], ":", 3)
		lay := "~"
		if pg.Layout != nil {
			var hs, ps, ls []string
			for _, h := range pg.Layout.Headings {
				hs = append(hs, "H"+levelHex(h.Level, h.Text))
			}
			for _, p := range pg.Layout.Paragraphs {
				ps = append(ps, "P"+hx.HexS(p.Text))
			}
			for _, l := range pg.Layout.Lists {
				var its []string
				for _, it := range l.Items {
					its = append(its, levelHex(it.Level, it.Text))
				}
				ls = append(ls, "L"+strings.Join(its, ","))
			}
			lay = strings.Join(hs, "|") + ":" + strings.Join(ps, "|") + ":" + strings.Join(ls, "|")
		}
		pages = append(pages, fmt.Sprintf("%d#%s#%s", pg.Number, parts[2], lay))
	}
	return "m=" + strings.Join(pages, "/")
}

func runMDoc(c *hx.Ctx, idx int) {
	r := c.Rng.Fork(uint64(idx))
	k := kase{Seed: c.Seed, Index: idx, Mode: "mdoc"}
	sz := pickSize(r)
	lc := pickLayCfg(r)
	g := &tokGen{r: r}
	src := genDoc(r, sz, false)
	g.n = 100000 // fresh words: none of the generated document's
	var doc *model.Document
	if r.Chance(1, 40) {
		c.Count("mdoc/nil-document")
	} else {
		doc = toModel(src)
		perturbLayout(r, g, doc)
	}
	var ev, lv []cview
	var lerr error
	p := hx.Safe(func() {
		var coll *rag.ChunkCollection
		if sz.API == 1 {
			coll = rag.ChunkDocumentWithConfig(doc, sz.CC, sz.Cfg)
		} else {
			coll = rag.ChunkDocument(doc)
		}
		if coll != nil {
			ev = viewsOf(coll.Chunks)
		}
		var ch *rag.Chunker
		if lc.Ctor == 0 {
			ch = rag.NewChunker()
		} else {
			ch = rag.NewChunkerWithConfig(lc.CC)
		}
		var res *rag.ChunkResult
		res, lerr = ch.Chunk(doc)
		if lerr == nil && res != nil {
			lv = viewsOf(res.Chunks)
		}
	})
	what := func() string {
		if doc == nil {
			return "nil document"
		}
		return fmt.Sprintf("size config %s, layout config %s; elements: %s layout: %s", sz.Name, lc.Name, describe(fromModel(doc)), describe(layoutView(doc)))
	}
	if !c.Check("C12/panic", p == "", k, func() string { return "panic: " + p + "; " + what() }) {
		return
	}
	c.Check("C12/nil-document", doc != nil || (len(ev) == 0 && lerr != nil), k, func() string {
		return fmt.Sprintf("nil document: ChunkDocument gave %d chunks, Chunker.Chunk error %v", len(ev), lerr)
	})
	if doc != nil && !c.Check("C12/panic", lerr == nil, k, func() string { return "Chunker.Chunk: " + lerr.Error() + "; " + what() }) {
		return
	}

	// each chunker against its own view of the document
	if doc != nil {
		de := fromModel(doc)
		checkChunks(c, coverOpts{prefix: "C12/", kinds: allKinds, crossKind: true, exactPage: true, inPath: allKinds, pages: pagesOf(de)},
			atomsOf(de, func(int) bool { return true }), ev, k, what)
		dl := layoutView(doc)
		atoms := atomsOf(dl, func(lv int) bool { return lv <= lc.CC.MinHeadingLevel })
		for i := range atoms {
			if atoms[i].Kind == "heading" && atoms[i].Lvl > lc.CC.MinHeadingLevel {
				atoms[i].Kind = "minor-heading"
			}
		}
		checkChunks(c, coverOpts{prefix: "C12/layout-chunker-",
			kinds:  map[string]bool{"paragraph": true, "list-item": true, "heading": true, "minor-heading": true},
			inPath: map[string]bool{"paragraph": true, "list-item": true},
			pages:  pagesOf(dl)}, atoms, lv, k, what)
	}

	// the whole document on one op line
	w, wok := "preset=default", true
	if sz.API == 1 {
		if _, isPreset := presetNames[sz.Name]; isPreset {
			w = "preset=" + sz.Name
		} else {
			w, wok = cfgWire(sz.Cfg)
		}
	}
	if wok && (doc == nil || textBytes(src) <= 20000) {
		keep := 0
		if lc.CC.PreserveListCoherence {
			keep = 1
		}
		var texts []string
		title := ""
		if doc != nil {
			texts = docTexts(layoutView(doc))
			title = doc.Metadata.Title
		}
		out := dumpChunks(ev) + "#"
		if lerr != nil {
			out += "err"
		} else {
			out += dumpChunks(lv)
		}
		c.Op(fmt.Sprintf("c12.mdoc %s %d %d %d %d %s %s t=%s %s", w, lc.CC.MaxChunkSize, lc.CC.MinChunkSize, lc.CC.MinHeadingLevel, keep,
			hx.HexS(lc.CC.IDPrefix), lowTable(texts), hx.HexS(title), mdocWire(doc)), out)
		c.Count("mdoc/tied-to-model")
	} else {
		c.Count("mdoc/oracle-only")
	}
	if doc != nil {
		same := fmt.Sprint(docWire(canonical(fromModel(doc)))) == fmt.Sprint(docWire(layoutView(doc)))
		if same {
			c.Count("mdoc/elements-and-layout=agree")
		} else {
			c.Count("mdoc/elements-and-layout=disagree")
		}
		c.Count(fmt.Sprintf("mdoc/pages=%d", len(doc.Pages)))
	}
	c.Case("mdoc"+mdocWire(doc), doc != nil && len(ev)+len(lv) > 0)
}
