package c12

// layout.go: the layout-based chunker (rag.NewChunker().Chunk) and the end-to-end
// observation point tabula.Open(f).Chunks().

import (
	"fmt"
	"html"
	"os"
	"path/filepath"
	"strings"

	"github.com/tsawler/tabula"
	"github.com/tsawler/tabula/model"
	"github.com/tsawler/tabula/rag"

	"verifharness/hx"
)

type layCfg struct {
	Name string
	CC   rag.ChunkerConfig
	Ctor int // 0 NewChunker(), 1 NewChunkerWithConfig
}

func pickLayCfg(r *hx.Rng) layCfg {
	switch r.Intn(8) {
	case 0, 1:
		return layCfg{"default", rag.DefaultChunkerConfig(), 0}
	case 2:
		return layCfg{"rag-optimized", rag.RAGOptimizedOptions().ChunkerConfig, 1}
	case 3:
		cc := rag.DefaultChunkerConfig()
		cc.MinHeadingLevel = r.Range(0, 6)
		return layCfg{"default-minlevel", cc, 1}
	default:
		cc := rag.DefaultChunkerConfig()
		cc.MaxChunkSize = r.Range(20, 400)
		cc.MinChunkSize = r.Range(0, cc.MaxChunkSize/2)
		if r.Chance(1, 8) {
			cc.MinChunkSize = cc.MaxChunkSize + r.Intn(50)
		}
		cc.TargetChunkSize = cc.MaxChunkSize / 2
		cc.MinHeadingLevel = r.Range(1, 6)
		cc.PreserveListCoherence = r.Chance(3, 4)
		if r.Chance(1, 4) {
			cc.IDPrefix = "c"
		}
		return layCfg{"custom", cc, 1}
	}
}

func formatListRef(items []litem) string {
	var sb strings.Builder
	for i, it := range items {
		if i > 0 {
			sb.WriteString("\n")
		}
		for j := 0; j < it.Level; j++ {
			sb.WriteString("  ")
		}
		sb.WriteString("- ")
		sb.WriteString(it.Text)
	}
	return sb.String()
}

func pieces(text string, ps []string) string {
	var out []string
	from := 0
	for _, p := range ps {
		at := strings.Index(text[from:], p)
		if at >= 0 && p != "" {
			out = append(out, fmt.Sprintf("%d.%d", from+at, len(p)))
			from += at + len(p)
		} else {
			out = append(out, "x"+hx.HexS(p))
		}
	}
	return strings.Join(out, "+")
}

var introDetector = rag.NewBoundaryDetector()

func isIntro(text string) bool {
	return introDetector.ShouldKeepTogether(rag.ContentBlock{Type: model.ElementTypeParagraph, Text: text},
		rag.ContentBlock{Type: model.ElementTypeList})
}

// layoutWire renders what the layout-based chunker reads, plus the two library
// functions that are parameters of the model: the list-introduction regexps (flag
// '!') and splitIntoSentences (pieces after '^', given for texts above the maximum).
//
//	d=<page>/…   page = <number>@~ | <number>@<H entries>:<P entries>:<L entries>   entries joined by '|'
//	H<level>=<hex>[^pieces]   P<hex>[!][^pieces]   L<level>=<hex>,…[^pieces]
func layoutWire(d ldoc, max int) string {
	sents := func(text string) string {
		if len(text) > max {
			return "^" + pieces(text, rag.VerifSplitIntoSentences(text))
		}
		return ""
	}
	var pages []string
	for _, lp := range d.Pages {
		if lp.NoLayout {
			pages = append(pages, fmt.Sprintf("%d@~", lp.Number))
			continue
		}
		var hs, ps, ls []string
		for _, e := range lp.Elems {
			switch e.Kind {
			case "h":
				hs = append(hs, "H"+levelHex(e.Level, e.Text)+sents(e.Text))
			case "p":
				s := "P" + hx.HexS(e.Text)
				if isIntro(e.Text) {
					s += "!"
				}
				ps = append(ps, s+sents(e.Text))
			case "l":
				var its []string
				for _, it := range e.Items {
					its = append(its, levelHex(it.Level, it.Text))
				}
				ls = append(ls, "L"+strings.Join(its, ",")+sents(formatListRef(e.Items)))
			}
		}
		pages = append(pages, fmt.Sprintf("%d@", lp.Number)+strings.Join(hs, "|")+":"+strings.Join(ps, "|")+":"+strings.Join(ls, "|"))
	}
	return "d=" + strings.Join(pages, "/")
}

// dumpLayoutMeta: <idx>,<hex SectionTitle>,<HeadingLevel>,<Level>,<ElementTypes hex+hex…|~>,<HasList>,<CharCount>,<WordCount>,<EstimatedTokens>,<hex TextWithContext>
// joined by ';' ("none" if there is no chunk); HasTable / HasImage must be false (a section holds headings, paragraphs and lists).
func dumpLayoutMeta(chunks []*rag.Chunk) string {
	if len(chunks) == 0 {
		return "none"
	}
	parts := make([]string, len(chunks))
	for i, ch := range chunks {
		m := ch.Metadata
		tys := "~"
		if len(m.ElementTypes) > 0 {
			hs := make([]string, len(m.ElementTypes))
			for j, t := range m.ElementTypes {
				hs[j] = hx.HexS(t)
			}
			tys = strings.Join(hs, "+")
		}
		hl := 0
		if m.HasList {
			hl = 1
		}
		if m.HasTable || m.HasImage {
			hl = 9
		}
		parts[i] = fmt.Sprintf("%d,%s,%d,%d,%s,%d,%d,%d,%d,%s", m.ChunkIndex, hx.HexS(m.SectionTitle), m.HeadingLevel, int(m.Level), tys, hl,
			m.CharCount, m.WordCount, m.EstimatedTokens, hx.HexS(ch.TextWithContext))
	}
	return strings.Join(parts, ";")
}

func countLayoutMeta(c *hx.Ctx, chunks []*rag.Chunk) {
	seen := map[string]bool{}
	for _, ch := range chunks {
		seen[fmt.Sprintf("layout/metadata/level=%s", ch.Metadata.Level)] = true
		if ch.Metadata.HasList {
			seen["layout/metadata/some-chunk-has-list"] = true
		}
		if len(ch.Metadata.ElementTypes) == 0 {
			seen["layout/metadata/some-chunk-without-element-type"] = true
		}
		if len(ch.Metadata.ElementTypes) > 1 {
			seen["layout/metadata/some-chunk-with-several-element-types"] = true
		}
	}
	for k := range seen {
		c.Count(k)
	}
}

// hasIntro: some paragraph directly before a list (in the order the chunker reads them) is a list introduction.
func hasIntro(d ldoc) bool {
	for _, lp := range d.Pages {
		for _, e := range lp.Elems {
			if e.Kind == "p" && isIntro(e.Text) {
				return true
			}
		}
	}
	return false
}

// canonical is the document in the only order the layout-based chunker's input
// type defines: per page headings, then paragraphs, then lists (tables and images
// are not part of a PageLayout); pages are numbered as the model numbers them.
func canonical(d ldoc) ldoc {
	out := ldoc{Title: d.Title}
	for _, lp := range d.Pages {
		np := lpage{Number: lp.Number}
		if !lp.NoLayout {
			for _, kind := range []string{"h", "p", "l"} {
				for _, e := range lp.Elems {
					if e.Kind == kind {
						np.Elems = append(np.Elems, e)
					}
				}
			}
		}
		out.Pages = append(out.Pages, np)
	}
	return out
}

func runLayout(c *hx.Ctx, k kase, d ldoc, lc layCfg, tie bool) {
	var vs []cview
	var errS string
	var lchunks []*rag.Chunk
	p := hx.Safe(func() {
		var ch *rag.Chunker
		if lc.Ctor == 0 {
			ch = rag.NewChunker()
		} else {
			ch = rag.NewChunkerWithConfig(lc.CC)
		}
		res, err := ch.Chunk(toModel(d))
		if err != nil {
			errS = err.Error()
			return
		}
		vs = viewsOf(res.Chunks)
		lchunks = res.Chunks
	})
	what := func() string {
		return fmt.Sprintf("layout-based chunker, config %s (max %d, min %d, minHeadingLevel %d); %s", lc.Name, lc.CC.MaxChunkSize, lc.CC.MinChunkSize, lc.CC.MinHeadingLevel, describe(d))
	}
	if !c.Check("C12/panic", p == "" && errS == "", k, func() string { return "panic/error: " + p + errS + "; " + what() }) {
		return
	}
	if tie {
		keep := 0
		if lc.CC.PreserveListCoherence {
			keep = 1
		}
		c.Op(fmt.Sprintf("c12.lchunk %d %d %d %d %s %s %s", lc.CC.MaxChunkSize, lc.CC.MinChunkSize, lc.CC.MinHeadingLevel, keep,
			hx.HexS(lc.CC.IDPrefix), hx.HexS(d.Title), layoutWire(d, lc.CC.MaxChunkSize)), dumpChunks(vs))
		// the same with splitIntoSentences computed by the model (sent.go)
		if over := overMax(d, lc.CC.MaxChunkSize); over || k.Index%4 == 0 {
			c.Op(fmt.Sprintf("c12.lchunks %d %d %d %d %s %s %s %s", lc.CC.MaxChunkSize, lc.CC.MinChunkSize, lc.CC.MinHeadingLevel, keep,
				hx.HexS(lc.CC.IDPrefix), hx.HexS(d.Title), lowTable(docTexts(d)), layoutWireS(d)), dumpChunks(vs))
			// … and with isListIntro computed by the model as well (Model/ChunkIntro.lean): the '!' marks are ignored
			// (sent when some paragraph is an introduction, and for one in four of the others: there the
			// model only has to say "no" for every paragraph, which c12.intro covers)
			if hasIntro(d) || k.Index%4 == 1 {
				c.Op(fmt.Sprintf("c12.lchunki %d %d %d %d %s %s %s %s", lc.CC.MaxChunkSize, lc.CC.MinChunkSize, lc.CC.MinHeadingLevel, keep,
					hx.HexS(lc.CC.IDPrefix), hx.HexS(d.Title), lowTable(docTexts(d)), layoutWireS(d)), dumpChunks(vs))
			}
			// … and every other field of ChunkMetadata (Model/ChunkLayoutX.lean), for two tied cases in three
			if k.Index%3 != 2 {
				c.Op(fmt.Sprintf("c12.lchunkx %d %d %d %d %s %s %s %s", lc.CC.MaxChunkSize, lc.CC.MinChunkSize, lc.CC.MinHeadingLevel, keep,
					hx.HexS(lc.CC.IDPrefix), hx.HexS(d.Title), lowTable(docTexts(d)), layoutWireS(d)), dumpLayoutMeta(lchunks))
				countLayoutMeta(c, lchunks)
			}
			if hasIntro(d) {
				c.Count("layout/intro-by-model/some-paragraph-introduces-a-list")
			} else {
				c.Count("layout/intro-by-model/no-introduction")
			}
			if lc.CC.PreserveListCoherence && k.Index%2 == 0 {
				// … and with FindAtomicBlocks / GetAtomicBlockAt as the code has them (Model/ChunkAtomic.lean)
				c.Op(fmt.Sprintf("c12.lchunka %d %d %d %d %s %s %s %s", lc.CC.MaxChunkSize, lc.CC.MinChunkSize, lc.CC.MinHeadingLevel, keep,
					hx.HexS(lc.CC.IDPrefix), hx.HexS(d.Title), lowTable(docTexts(d)), layoutWireS(d)), dumpChunks(vs))
				c.Count("layout/atomic-blocks-by-index")
			}
			if over {
				c.Count("layout/sentences-by-model/some-text-above-max")
			} else {
				c.Count("layout/sentences-by-model/all-texts-fit")
			}
		}
	}
	cd := canonical(d)
	atoms := atomsOf(cd, func(lv int) bool { return lv <= lc.CC.MinHeadingLevel })
	for i := range atoms {
		// a heading below MinHeadingLevel opens no section: it is body text
		if atoms[i].Kind == "heading" && atoms[i].Lvl > lc.CC.MinHeadingLevel {
			atoms[i].Kind = "minor-heading"
		}
	}
	checkChunks(c, coverOpts{prefix: "C12/layout-chunker-",
		kinds:  map[string]bool{"paragraph": true, "list-item": true, "heading": true, "minor-heading": true},
		inPath: map[string]bool{"paragraph": true, "list-item": true},
		pages:  pagesOf(d)}, atoms, vs, k, what)
}

func runLayoutCase(c *hx.Ctx, k kase, d ldoc, r *hx.Rng, tie bool) {
	lc := pickLayCfg(r)
	runLayout(c, k, d, lc, tie)
	c.Count("layout/cfg=" + lc.Name)
}

func runLayoutFixed(c *hx.Ctx, k kase, d ldoc) {
	runLayout(c, k, d, layCfg{"default", rag.DefaultChunkerConfig(), 0}, true)
	// every heading level opens a section
	cc := rag.DefaultChunkerConfig()
	cc.MinHeadingLevel = 6
	runLayout(c, k, d, layCfg{"all-levels", cc, 1}, true)
}

// ---- tabula.Open(f).Chunks() ---------------------------------------------------------

func htmlOf(d ldoc) string {
	var sb strings.Builder
	sb.WriteString("<!DOCTYPE html>\n<html><head><title>t</title></head><body>\n")
	for _, lp := range d.Pages {
		for _, e := range lp.Elems {
			switch e.Kind {
			case "h":
				fmt.Fprintf(&sb, "<h%d>%s</h%d>\n", e.Level, html.EscapeString(strings.TrimSpace(e.Text)), e.Level)
			case "p":
				if strings.TrimSpace(e.Text) != "" {
					fmt.Fprintf(&sb, "<p>%s</p>\n", html.EscapeString(e.Text))
				}
			case "l":
				tag := "ul"
				if e.Ordered {
					tag = "ol"
				}
				fmt.Fprintf(&sb, "<%s>\n", tag)
				for _, it := range e.Items {
					fmt.Fprintf(&sb, "<li>%s</li>\n", html.EscapeString(strings.TrimSpace(it.Text)))
				}
				fmt.Fprintf(&sb, "</%s>\n", tag)
			case "t":
				sb.WriteString("<table>\n")
				for _, row := range e.Rows {
					sb.WriteString("<tr>")
					for _, cell := range row {
						fmt.Fprintf(&sb, "<td>%s</td>", html.EscapeString(cell))
					}
					sb.WriteString("</tr>\n")
				}
				sb.WriteString("</table>\n")
			case "i":
				fmt.Fprintf(&sb, "<img src=\"x.png\" alt=\"%s\">\n", html.EscapeString(e.Text))
			}
		}
	}
	sb.WriteString("</body></html>\n")
	return sb.String()
}

// fromModel reads a model.Document back into the logical form (the oracle then
// speaks about exactly what Document() delivered).
func fromModel(doc *model.Document) ldoc {
	var d ldoc
	d.Title = doc.Metadata.Title
	for _, pg := range doc.Pages {
		lp := lpage{Number: pg.Number, NoLayout: pg.Layout == nil}
		for _, el := range pg.Elements {
			switch e := el.(type) {
			case *model.Heading:
				lp.Elems = append(lp.Elems, lelem{Kind: "h", Level: e.Level, Text: e.Text})
			case *model.Paragraph:
				lp.Elems = append(lp.Elems, lelem{Kind: "p", Text: e.Text})
			case *model.List:
				l := lelem{Kind: "l", Ordered: e.Ordered}
				for _, it := range e.Items {
					l.Items = append(l.Items, litem{it.Level, it.Text})
				}
				lp.Elems = append(lp.Elems, l)
			case *model.Table:
				t := lelem{Kind: "t"}
				for _, row := range e.Rows {
					var cells []string
					for _, cl := range row {
						cells = append(cells, cl.Text)
					}
					t.Rows = append(t.Rows, cells)
				}
				lp.Elems = append(lp.Elems, t)
			case *model.Image:
				lp.Elems = append(lp.Elems, lelem{Kind: "i", Text: e.AltText})
			}
		}
		d.Pages = append(d.Pages, lp)
	}
	// a paragraph matching a layout heading is a heading for the chunker
	for pi := range d.Pages {
		pg := doc.Pages[pi]
		if pg.Layout == nil {
			continue
		}
		for ei := range d.Pages[pi].Elems {
			e := &d.Pages[pi].Elems[ei]
			if e.Kind != "p" {
				continue
			}
			for _, hh := range pg.Layout.Headings {
				if strings.TrimSpace(hh.Text) == strings.TrimSpace(e.Text) {
					e.Kind, e.Level, e.TOC = "h", hh.Level, true
					break
				}
			}
		}
	}
	return d
}

// runEndToEnd: tabula.Open(file).Chunks() on generated HTML files — the chunks must
// satisfy the property with respect to what Document() delivers for the same file.
func runEndToEnd(c *hx.Ctx) {
	n := c.N(25, 300)
	nrep := c.N(15, 150) // further files in which heading texts recur
	for i := 0; i < n+nrep; i++ {
		r := c.Rng.Fork(uint64(2000000 + i))
		sz := sizeCase{Name: "default-api", Cfg: rag.DefaultSizeConfig(), CC: rag.DefaultChunkerConfig(), API: 0, MaxLen: 2000}
		src := genDoc(r, sz, i >= n)
		path := filepath.Join(c.OutDir, fmt.Sprintf("e2e-%d.html", i))
		os.WriteFile(path, []byte(htmlOf(src)), 0o644)
		k := kase{Seed: c.Seed, Index: i, Mode: "e2e"}
		var doc *model.Document
		var coll *rag.ChunkCollection
		var e1, e2 error
		p := hx.Safe(func() {
			doc, _, e1 = tabula.Open(path).Document()
			coll, _, e2 = tabula.Open(path).Chunks()
		})
		os.Remove(path)
		if !c.Check("C12/panic", p == "", k, func() string { return "panic in Open(f).Chunks(): " + p }) {
			continue
		}
		if e1 != nil || e2 != nil || doc == nil || coll == nil {
			c.Count("e2e/open-error")
			continue
		}
		d := fromModel(doc)
		vs := viewsOf(coll.Chunks)
		what := func() string { return "tabula.Open(html).Chunks(); " + describe(d) }
		checkChunks(c, coverOpts{prefix: "C12/", kinds: allKinds, crossKind: true, exactPage: true, inPath: allKinds, pages: pagesOf(d)},
			atomsOf(d, func(int) bool { return true }), vs, k, what)
		// the public entry point against the model: Chunks() = ChunkDocument(Document())
		if n := textBytes(d); n <= 30000 {
			c.Op("c12.chunkc preset=default "+modelWire(doc), dumpChunks(vs))
			c.Count("e2e/tied-to-model")
		}
		c.Count("e2e/html")
		if i >= n {
			countRepeats(c, "e2e-repeat", d)
		}
		c.Case("e2e"+docWire(d), len(vs) > 0)
	}
}

// modelWire renders a model.Document as the chunker reads it (docWire's grammar):
// page numbers, Layout.Headings as they are, the elements of the five kinds in order.
func modelWire(doc *model.Document) string {
	var pages []string
	for _, pg := range doc.Pages {
		lay := "~"
		if pg.Layout != nil {
			var hs []string
			for _, h := range pg.Layout.Headings {
				hs = append(hs, levelHex(h.Level, h.Text))
			}
			lay = strings.Join(hs, ",")
		}
		var es []string
		for _, el := range pg.Elements {
			switch e := el.(type) {
			case *model.Heading:
				es = append(es, fmt.Sprintf("h.%d.%s", e.Level, hx.HexS(e.Text)))
			case *model.Paragraph:
				es = append(es, "p."+hx.HexS(e.Text))
			case *model.List:
				var its []string
				for _, it := range e.Items {
					its = append(its, levelHex(it.Level, it.Text))
				}
				o := "u"
				if e.Ordered {
					o = "o"
				}
				es = append(es, "l."+o+"."+strings.Join(its, ","))
			case *model.Table:
				var rows []string
				for _, row := range e.Rows {
					cells := make([]string, len(row))
					for j, cl := range row {
						cells[j] = cl.Text
					}
					rows = append(rows, "r"+hx.HexList(cells))
				}
				es = append(es, "t."+strings.Join(rows, ";"))
			case *model.Image:
				es = append(es, "i."+hx.HexS(e.AltText))
			}
		}
		pages = append(pages, fmt.Sprintf("%d:%s:%s", pg.Number, lay, strings.Join(es, "|")))
	}
	return "d=" + strings.Join(pages, "/")
}
