package c12

// nested.go: outline documents — deep heading nesting with several sibling
// sections under one parent at every depth — chunked by both chunkers; the
// layout-based chunker under every MinHeadingLevel 1..6 and random values of the
// ChunkerConfig options that are not sizes. The section path of every chunk is read
// after the whole run (viewsOf copies it from the returned collection), so a path
// that a later sibling section overwrote is seen by C12/…section-path.

import (
	"fmt"

	"github.com/tsawler/tabula/rag"

	"verifharness/hx"
)

// outline is the state of one outline generation.
type outline struct {
	r        *hx.Rng
	g        *tokGen
	sz       sizeCase
	maxDepth int
	heads    int // headings still allowed
	budget   int // bytes of long-paragraph text still allowed
	d        ldoc
	cur      lpage
	open     bool // cur has been started
	body     bool // cur already holds content other than headings
	num      int
	nh       int
	deepSibs int // sibling groups (>= 2 sections under one parent) at depth >= 4
}

func (o *outline) newPage() {
	if o.open {
		o.d.Pages = append(o.d.Pages, o.cur)
	}
	o.num++
	if !o.d.AddPage && o.r.Chance(1, 10) {
		o.num += o.r.Range(1, 3)
	}
	o.cur = lpage{Number: o.num}
	o.open, o.body = true, false
}

func (o *outline) add(e lelem) {
	if !o.open {
		o.newPage()
	}
	if e.Kind == "h" {
		// The layout-based chunker reads a page as headings, then paragraphs, then
		// lists: a heading that follows body text mostly starts a new page, so that
		// every section keeps a body of its own.
		if (o.body && !o.r.Chance(1, 8)) || (!o.body && len(o.cur.Elems) > 0 && o.r.Chance(1, 4)) {
			o.newPage()
		}
	} else {
		o.body = true
	}
	o.cur.Elems = append(o.cur.Elems, e)
}

// bodyElems emits the body of one section: 0..3 paragraphs (mostly short, now and
// then around or above the configured maximum), sometimes a list, a table or an image.
func (o *outline) bodyElems() {
	r := o.r
	n := hx.Pick(r, []int{0, 1, 1, 1, 1, 2, 2, 3})
	for i := 0; i < n; i++ {
		words := r.Range(1, 12)
		if r.Chance(1, 12) {
			words = paraWords(r, o.sz.MaxLen, &o.budget)
		}
		t := pad(r, o.g.text("p", words))
		if r.Chance(1, 10) {
			t += ":"
		}
		o.add(lelem{Kind: "p", Text: t})
		if r.Chance(1, 12) {
			o.newPage() // a section running over a page break
		}
	}
	if r.Chance(1, 6) {
		l := lelem{Kind: "l", Ordered: r.Bool()}
		lv := 0
		for i, k := 0, r.Range(1, 4); i < k; i++ {
			if r.Chance(1, 3) {
				lv = r.Range(0, lv+1)
			}
			l.Items = append(l.Items, litem{Level: lv, Text: pad(r, o.g.text("l", r.Range(1, 4)))})
		}
		o.add(l)
	}
	if r.Chance(1, 12) {
		o.add(lelem{Kind: "t", Rows: [][]string{{o.g.word("t"), o.g.word("t")}, {o.g.word("t"), o.g.word("t")}}})
	}
	if r.Chance(1, 12) {
		o.add(lelem{Kind: "i", Text: o.g.text("i", r.Range(1, 3))})
	}
}

// sections emits a group of sibling sections below a heading of level parent
// (0 = top of the document) and, recursively, their subsections. Siblings share the
// level of the first one, or (rarely) a shallower one that is still deeper than the
// parent: by the property's reading of nesting they stay siblings.
func (o *outline) sections(depth, parent int) {
	r := o.r
	if parent >= 6 || depth > o.maxDepth {
		return
	}
	lv := parent + 1
	if lv < 6 && r.Chance(1, 6) {
		lv = r.Range(lv, 6) // skipped levels
	}
	nsib := r.Range(2, 4)
	if r.Chance(1, 10) {
		nsib = 1
	}
	if depth == 1 {
		nsib = hx.Pick(r, []int{1, 1, 2, 3})
	}
	must := r.Intn(nsib) // this sibling always goes deeper, the others sometimes
	if nsib >= 2 && depth >= 4 {
		o.deepSibs++
	}
	for i := 0; i < nsib; i++ {
		if i > 0 && lv > parent+1 && r.Chance(1, 8) {
			lv = r.Range(parent+1, lv-1)
		}
		h := lelem{Kind: "h", Level: lv, Text: o.g.heading(1, 3)}
		if r.Chance(1, o.g.tocChance(12)) {
			h.TOC = true
		}
		o.add(h)
		o.nh++
		o.heads--
		o.bodyElems()
		if o.heads > 0 && (i == must || r.Chance(1, 4)) {
			o.sections(depth+1, lv)
		}
	}
}

func genNested(r *hx.Rng, sz sizeCase, repeat bool) (ldoc, *outline) {
	o := &outline{r: r, g: &tokGen{r: r, repeat: repeat}, sz: sz, heads: 60, budget: 4000}
	o.maxDepth = hx.Pick(r, []int{2, 3, 4, 4, 5, 5, 6, 6})
	o.d.AddPage = r.Chance(1, 4)
	if r.Bool() {
		o.d.Title = "Title " + o.g.word("d")
	}
	if r.Chance(1, 4) {
		o.add(lelem{Kind: "p", Text: o.g.text("p", r.Range(1, 8))}) // text before the first heading
	}
	o.sections(1, 0)
	if o.open {
		o.d.Pages = append(o.d.Pages, o.cur)
	}
	return o.d, o
}

// nestedLayCfg is a configuration of the layout-based chunker with the given
// MinHeadingLevel: default or random sizes, and random values for every option of
// ChunkerConfig that is not a size (none of them may change what a chunk reports).
func nestedLayCfg(r *hx.Rng, ml int) layCfg {
	cc := rag.DefaultChunkerConfig()
	name := fmt.Sprintf("nested-minlevel%d", ml)
	switch r.Intn(4) {
	case 0:
		cc = rag.RAGOptimizedOptions().ChunkerConfig
	case 1:
		cc.MaxChunkSize = r.Range(20, 400)
		cc.MinChunkSize = r.Range(0, cc.MaxChunkSize/2)
		cc.TargetChunkSize = cc.MaxChunkSize / 2
	}
	cc.MinHeadingLevel = ml
	if r.Bool() {
		cc.PreserveListCoherence = r.Bool()
		cc.PreserveTableCoherence = r.Bool()
		cc.PreserveParagraphs = r.Bool()
		cc.IncludeSectionContext = r.Bool()
		cc.SplitOnHeadings = r.Bool()
		cc.OverlapSentences = r.Bool()
		cc.OverlapSize = r.Range(0, 120)
	}
	if r.Chance(1, 4) {
		cc.IDPrefix = "c"
	}
	return layCfg{name, cc, 1}
}

// runNested: one outline document through the element-based chunker (one size
// configuration; its ChunkerConfig carries a random MinHeadingLevel) and through the
// layout-based chunker under MinHeadingLevel 1..6.
func runNested(c *hx.Ctx, idx int) {
	r := c.Rng.Fork(uint64(idx))
	sz := pickSize(r)
	sz.CC.MinHeadingLevel = r.Range(1, 6)
	d, o := genNested(r, sz, repeatIdx(idx))
	k := kase{Seed: c.Seed, Index: idx, Mode: "nested"}
	n := textBytes(d)
	tie := func() bool {
		if n <= tieBudget && n <= 40000 {
			tieBudget -= n
			return true
		}
		return false
	}
	runDocCase(c, k, d, sz, tie())
	tied := r.Range(1, 6)
	for ml := 1; ml <= 6; ml++ {
		lc := nestedLayCfg(r, ml)
		runLayout(c, k, d, lc, (ml == tied || ml == 6) && tie())
	}
	if repeatIdx(idx) {
		countRepeats(c, "nested-repeat", d)
		c.Case("nested"+sz.Name+docWire(d), true)
		return
	}
	c.Count(fmt.Sprintf("nested/max-depth=%d", o.maxDepth))
	switch {
	case o.deepSibs == 0:
		c.Count("nested/sibling-groups-at-depth>=4: 0")
	default:
		c.Count("nested/sibling-groups-at-depth>=4: 1+")
	}
	switch {
	case o.nh < 10:
		c.Count("nested/headings<10")
	case o.nh < 30:
		c.Count("nested/headings=10-29")
	default:
		c.Count("nested/headings>=30")
	}
	c.Case("nested"+sz.Name+docWire(d), true)
}
