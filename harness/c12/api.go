package c12

// api.go: the glue around the chunkers that is part of the model
// (Model/ChunkApi.lean): updateSectionPath over histories of calls (hook
// rag.VerifUpdateSectionPath), Document.AddPage numbering, and the configuration the
// constructors of the layout-based chunker hand to Chunk (hook rag.VerifChunkerSettings).

import (
	"fmt"
	"strings"

	"github.com/tsawler/tabula/model"
	"github.com/tsawler/tabula/rag"

	"verifharness/hx"
)

// runUpdatePath: one history of updateSectionPath calls. Mostly outlines that skip no
// level on the way down (then the path must be the chain of enclosing headings), plus
// histories with arbitrary levels (0, negative, far apart).
func runUpdatePath(c *hx.Ctx, idx int) {
	r := c.Rng.Fork(uint64(idx))
	k := kase{Seed: c.Seed, Index: idx, Mode: "usp"}
	g := &tokGen{r: r}
	n := r.Range(0, 12)
	wild := r.Chance(1, 3)
	var hs []hd
	cur := 0
	for i := 0; i < n; i++ {
		var lv int
		switch {
		case wild:
			lv = hx.Pick(r, []int{-3, 0, 1, 1, 2, 2, 3, 3, 4, 5, 6, 9, 40})
		case i == 0:
			lv = r.Range(1, 3)
		default:
			lv = r.Range(1, cur+1) // up any number of levels, down at most one
		}
		cur = lv
		hs = append(hs, hd{lv, pad(r, g.text("h", r.Range(1, 3)))})
	}
	c0 := r.Range(-2, 7)
	noSkip := true
	for i := 1; i < len(hs); i++ {
		if hs[i].level > hs[i-1].level+1 {
			noSkip = false
		}
	}
	var states []string
	var paths [][]string
	p := hx.Safe(func() {
		path, level := []string{}, c0
		for _, h := range hs {
			path, level = rag.VerifUpdateSectionPath(path, level, h.level, h.text)
			paths = append(paths, append([]string(nil), path...))
			ps := "~"
			if len(path) > 0 {
				hxs := make([]string, len(path))
				for j, s := range path {
					hxs[j] = hx.HexS(s)
				}
				ps = strings.Join(hxs, "+")
			}
			states = append(states, fmt.Sprintf("%s@%d", ps, level))
		}
	})
	if !c.Check("C12/panic", p == "", k, func() string { return "panic in updateSectionPath: " + p }) {
		return
	}
	var ws []string
	for _, h := range hs {
		ws = append(ws, levelHex(h.level, h.text))
	}
	w, out := "-", "none"
	if len(ws) > 0 {
		w, out = strings.Join(ws, ","), strings.Join(states, ";")
	}
	c.Op(fmt.Sprintf("c12.usp %d %s", c0, w), out)
	if noSkip {
		c.Count("usp/no-level-skipped")
		for i := range hs {
			want := enclosing(hs[:i+1])
			c.Check("C12/update-section-path", eqPath(paths[i], want), k, func() string {
				return fmt.Sprintf("after heading %d of %v (start level %d) updateSectionPath gives %q, the enclosing headings are %q", i, hs, c0, paths[i], want)
			})
		}
	} else {
		c.Count("usp/level-skipped")
	}
	c.Case(fmt.Sprintf("usp%d%s", c0, w), n > 0)
}

// runAddPage: Document.AddPage on pages whose Number is unset (0) or preset.
func runAddPage(c *hx.Ctx, idx int) {
	r := c.Rng.Fork(uint64(idx))
	k := kase{Seed: c.Seed, Index: idx, Mode: "addpage"}
	n := r.Range(0, 9)
	var nums []int
	mode := r.Intn(3)
	for i := 0; i < n; i++ {
		switch {
		case mode == 0 || (mode == 2 && r.Bool()):
			nums = append(nums, 0)
		default:
			nums = append(nums, hx.Pick(r, []int{1, 2, 3, 5, 8, 13, 40, -1}))
		}
	}
	var got []int
	p := hx.Safe(func() {
		doc := model.NewDocument()
		for _, v := range nums {
			pg := model.NewPage(612, 792)
			pg.Number = v
			doc.AddPage(pg)
		}
		for _, pg := range doc.Pages {
			got = append(got, pg.Number)
		}
	})
	if !c.Check("C12/panic", p == "", k, func() string { return "panic in AddPage: " + p }) {
		return
	}
	join := func(xs []int) string {
		if len(xs) == 0 {
			return "-"
		}
		ss := make([]string, len(xs))
		for i, x := range xs {
			ss[i] = fmt.Sprint(x)
		}
		return strings.Join(ss, ",")
	}
	out := join(got)
	if len(got) == 0 {
		out = ""
	}
	c.Op("c12.addpage "+join(nums), out)
	c.Count([]string{"addpage/all-unset", "addpage/all-preset", "addpage/mixed"}[mode])
	c.Case("addpage"+join(nums), n > 0)
}

// runChunkerSettings compares the configuration the constructors hand to Chunk with the
// model's named configurations.
func runChunkerSettings(c *hx.Ctx) {
	for _, name := range []string{"new-chunker", "default", "rag-optimized"} {
		var ch *rag.Chunker
		switch name {
		case "new-chunker":
			ch = rag.NewChunker()
		case "default":
			ch = rag.NewChunkerWithConfig(rag.DefaultChunkerConfig())
		default:
			ch = rag.NewChunkerWithConfig(rag.RAGOptimizedOptions().ChunkerConfig)
		}
		mx, mn, mhl, keep, pfx := rag.VerifChunkerSettings(ch)
		kp := 0
		if keep {
			kp = 1
		}
		c.Op("c12.lcfg "+name, fmt.Sprintf("%d %d %d %d %s", mx, mn, mhl, kp, hx.HexS(pfx)))
		c.Count("lcfg/" + name)
	}
}

// runAtomic ties BoundaryDetector.FindAtomicBlocks and GetAtomicBlockAt to their model
// on a random sequence of the block types a section holds (headings, paragraphs with
// and without a list-introduction ending, lists), configured as the chunker's
// constructors configure the detector.
func runAtomic(c *hx.Ctx, idx int) {
	r := c.Rng.Fork(uint64(idx))
	k := kase{Seed: c.Seed, Index: idx, Mode: "atomic"}
	g := &tokGen{r: r}
	keep := r.Chance(3, 4)
	cc := rag.DefaultChunkerConfig()
	det := rag.NewBoundaryDetectorWithConfig(rag.BoundaryConfig{
		MinChunkSize: cc.MinChunkSize, MaxChunkSize: cc.MaxChunkSize, PreferParagraphBreaks: true,
		KeepListsIntact: keep, KeepTablesIntact: true, KeepFiguresIntact: true, LookAheadChars: 200,
		ListIntroPatterns: rag.DefaultBoundaryConfig().ListIntroPatterns,
	})
	n := r.Range(0, 10)
	var blocks []rag.ContentBlock
	var ws []string
	for i := 0; i < n; i++ {
		switch r.Intn(5) {
		case 0:
			blocks = append(blocks, rag.ContentBlock{Type: model.ElementTypeHeading, Text: g.text("h", 2), Index: i})
			ws = append(ws, "h")
		case 1, 2:
			blocks = append(blocks, rag.ContentBlock{Type: model.ElementTypeList, Text: "- " + g.word("l"), Index: i})
			ws = append(ws, "l")
		default:
			t := g.text("p", r.Range(1, 5))
			if r.Bool() {
				t += hx.Pick(r, []string{":", " the following:", " such as", " for example", " steps", ": "})
			}
			blocks = append(blocks, rag.ContentBlock{Type: model.ElementTypeParagraph, Text: t, Index: i})
			if isIntro(t) {
				ws = append(ws, "p!")
			} else {
				ws = append(ws, "p")
			}
		}
	}
	var out string
	p := hx.Safe(func() {
		abs := det.FindAtomicBlocks(blocks)
		var bs, at []string
		for _, b := range abs {
			bs = append(bs, fmt.Sprintf("%d-%d", b.StartIndex, b.EndIndex))
		}
		for i := range blocks {
			if b := rag.GetAtomicBlockAt(i, abs); b != nil {
				at = append(at, fmt.Sprintf("%d-%d", b.StartIndex, b.EndIndex))
			} else {
				at = append(at, "~")
			}
		}
		out = strings.Join(bs, ",") + "|" + strings.Join(at, ",")
	})
	if !c.Check("C12/panic", p == "", k, func() string { return "panic in FindAtomicBlocks: " + p }) {
		return
	}
	kp, w := 0, "-"
	if keep {
		kp = 1
	}
	if len(ws) > 0 {
		w = strings.Join(ws, ",")
	}
	c.Op(fmt.Sprintf("c12.atomic %d %s", kp, w), out)
	if keep {
		c.Count("atomic/keep-lists")
	} else {
		c.Count("atomic/lists-not-atomic")
	}
	c.Case(fmt.Sprintf("atomic%d%s", kp, w), n > 0)
}
