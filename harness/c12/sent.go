package c12

// sent.go: splitIntoSentences (rag/chunker.go) is part of the model
// (Model/ChunkSent.lean). It is tied to the code directly (op c12.sents, through the
// hook rag.VerifSplitIntoSentences) and through the whole layout-based chunker (op
// c12.lchunks: the Lean side computes the sentences of every over-long text itself
// instead of reading them from the op line). The only thing still supplied is the
// Unicode table of the Go standard library: the lower-case non-ASCII characters that
// directly follow a '.', '!' or '?'.

import (
	"fmt"
	"sort"
	"strings"
	"unicode"
	"unicode/utf8"

	"github.com/tsawler/tabula/rag"

	"verifharness/hx"
)

// lowTable lists (hex, comma separated, sorted) the UTF-8 encodings of the lower-case
// non-ASCII characters that directly follow a sentence-end character in one of the texts.
func lowTable(texts []string) string {
	set := map[string]bool{}
	for _, t := range texts {
		for i := 0; i < len(t); i++ {
			if t[i] != '.' && t[i] != '!' && t[i] != '?' {
				continue
			}
			if i+1 < len(t) && t[i+1] >= 0x80 {
				r, n := utf8.DecodeRuneInString(t[i+1:])
				if r != utf8.RuneError && unicode.IsLower(r) {
					set[t[i+1:i+1+n]] = true
				}
			}
		}
	}
	var hs []string
	for s := range set {
		hs = append(hs, hx.HexS(s))
	}
	sort.Strings(hs)
	return "low=" + strings.Join(hs, ",")
}

// docTexts lists every text the layout-based chunker may hand to splitIntoSentences.
func docTexts(d ldoc) []string {
	var out []string
	for _, lp := range d.Pages {
		if lp.NoLayout {
			continue
		}
		for _, e := range lp.Elems {
			switch e.Kind {
			case "h", "p":
				out = append(out, e.Text)
			case "l":
				out = append(out, formatListRef(e.Items))
			}
		}
	}
	return out
}

// layoutWireS is layoutWire without the sentence pieces:
//
//	d=<page>/…   page = <number>@~ | <number>@<H entries>:<P entries>:<L entries>   entries joined by '|'
//	H<level>=<hex>   P<hex>[!]   L<level>=<hex>,…
func layoutWireS(d ldoc) string {
	var pages []string
	for _, lp := range d.Pages {
		if lp.NoLayout {
			pages = append(pages, fmt.Sprintf("%d@~", lp.Number))
			continue
		}
		var hs, ps, ls []string
		for _, e := range lp.Elems {
			switch e.Kind {
			case "h":
				hs = append(hs, "H"+levelHex(e.Level, e.Text))
			case "p":
				s := "P" + hx.HexS(e.Text)
				if isIntro(e.Text) {
					s += "!"
				}
				ps = append(ps, s)
			case "l":
				var its []string
				for _, it := range e.Items {
					its = append(its, levelHex(it.Level, it.Text))
				}
				ls = append(ls, "L"+strings.Join(its, ","))
			}
		}
		pages = append(pages, fmt.Sprintf("%d@", lp.Number)+strings.Join(hs, "|")+":"+strings.Join(ps, "|")+":"+strings.Join(ls, "|"))
	}
	return "d=" + strings.Join(pages, "/")
}

// overMax reports whether some text of the document is longer than max (only then
// does the chunker split by sentences).
func overMax(d ldoc, max int) bool {
	for _, t := range docTexts(d) {
		if len(t) > max {
			return true
		}
	}
	return false
}

// sentence-shaped text ---------------------------------------------------------------

var sentSeps = []string{" ", " ", " ", " ", ". ", ". ", "! ", "? ", ".", "...", ". é", ".é", " A. ", " Mr. ", " e.g. ", ".\n", "?! ", " àA. ",
	" ÅB. ", " 3.14 ", ", ", ": ", "  ", "\n", ". É", " X.", ".)", " (A.) ", "\t", " i.e., ", " U.S. ", ".ß", ".Ω", " ω.", ". “"}

// sentText makes a text of n unique words with sentence structure: ends followed by
// blanks, capitals, lower-case letters (ASCII and not), abbreviations, initials,
// decimals, ends without a following blank, several ends in a row.
func (g *tokGen) sentText(kind string, n int) string {
	var sb strings.Builder
	r := g.r
	if r.Chance(1, 10) {
		sb.WriteString(hx.Pick(r, []string{"A. ", "A.", ".", "É. ", "àA. ", " ", "Z"}))
	}
	for i := 0; i < n; i++ {
		w := g.word(kind)
		switch r.Intn(10) {
		case 0:
			w = strings.ToUpper(w[:1]) + w[1:]
		case 1:
			w = "É" + w
		case 2:
			w = "é" + w
		}
		sb.WriteString(w)
		if i < n-1 {
			sb.WriteString(hx.Pick(r, sentSeps))
		}
	}
	sb.WriteString(hx.Pick(r, []string{"", "", ".", ".", "!", "?", " .", ". ", ".\n\n", " A.", "…"}))
	return sb.String()
}

var sentAlphabet = []string{".", "!", "?", " ", " ", "A", "a", "é", "É", "\n", "Mr", "e.g.", "àA", "Å", "z", "Z", "1", ")", "\t", "ß", "…", "x", "B."}

func genSentDoc(r *hx.Rng, max int) ldoc {
	g := &tokGen{r: r}
	d := ldoc{}
	if r.Bool() {
		d.Title = "Title " + g.word("d")
	}
	words := func() int {
		switch r.Intn(6) {
		case 0:
			return r.Range(1, 4)
		case 1, 2:
			return r.Range(1, max/6+1)
		default:
			return (max/6)*r.Range(1, 4) + r.Intn(12)
		}
	}
	num := 0
	for p, np := 0, r.Range(1, 3); p < np; p++ {
		num += r.Range(1, 2)
		pg := lpage{Number: num}
		for e, ne := 0, r.Range(1, 6); e < ne; e++ {
			switch r.Intn(8) {
			case 0:
				n := r.Range(1, 3)
				if r.Chance(1, 4) {
					n = words() // an over-long heading
				}
				pg.Elems = append(pg.Elems, lelem{Kind: "h", Level: r.Range(1, 6), Text: g.sentText("h", n)})
			case 1, 2:
				l := lelem{Kind: "l"}
				for i, n := 0, r.Range(1, 4); i < n; i++ {
					k := r.Range(1, 5)
					if r.Chance(1, 3) {
						k = words() // an over-long list
					}
					l.Items = append(l.Items, litem{Level: r.Intn(3), Text: g.sentText("l", k)})
				}
				pg.Elems = append(pg.Elems, l)
			default:
				t := pad(r, g.sentText("p", words()))
				if r.Chance(1, 4) {
					t += ":"
				}
				pg.Elems = append(pg.Elems, lelem{Kind: "p", Text: t})
			}
		}
		d.Pages = append(d.Pages, pg)
	}
	return d
}

// opSents ties splitIntoSentences to its model on one text and checks that the
// sentences carry the text (white space aside).
func opSents(c *hx.Ctx, k kase, text string) {
	var got []string
	p := hx.Safe(func() { got = rag.VerifSplitIntoSentences(text) })
	if !c.Check("C12/panic", p == "", k, func() string { return "panic in splitIntoSentences: " + p }) {
		return
	}
	out := "none"
	if len(got) > 0 {
		hs := make([]string, len(got))
		for i, s := range got {
			hs[i] = hx.HexS(s)
		}
		out = strings.Join(hs, "+")
	}
	c.Op("c12.sents "+lowTable([]string{text})+" "+hx.HexS(text), out)
	c.Check("C12/sentences-lose-text", strip(strings.Join(got, "")) == strip(text), k, func() string {
		return fmt.Sprintf("splitIntoSentences(%q) = %q does not carry the text, white space aside", clip(text), got)
	})
	switch {
	case len(got) == 0:
		c.Count("sents/sentences=0")
	case len(got) == 1:
		c.Count("sents/sentences=1")
	case len(got) < 6:
		c.Count("sents/sentences=2-5")
	default:
		c.Count("sents/sentences>=6")
	}
}

func runSentIndex(c *hx.Ctx, idx int) {
	r := c.Rng.Fork(uint64(idx))
	k := kase{Seed: c.Seed, Index: idx, Mode: "sent"}
	g := &tokGen{r: r}
	// direct: a sentence-shaped text and a stream over the tricky alphabet
	opSents(c, k, pad(r, g.sentText("s", r.Range(1, 30))))
	var sb strings.Builder
	for i, n := 0, r.Range(0, 24); i < n; i++ {
		sb.WriteString(hx.Pick(r, sentAlphabet))
	}
	opSents(c, k, sb.String())
	c.Count("sents/malformed-stream")
	// through the chunker: small maxima, texts up to several times the maximum
	cc := rag.DefaultChunkerConfig()
	cc.MaxChunkSize = r.Range(12, 160)
	cc.MinChunkSize = r.Range(0, cc.MaxChunkSize/2)
	cc.MinHeadingLevel = r.Range(1, 6)
	cc.PreserveListCoherence = r.Chance(3, 4)
	d := genSentDoc(r, cc.MaxChunkSize)
	runLayout(c, k, d, layCfg{"sentence-family", cc, 1}, true)
	c.Count("layout/cfg=sentence-family")
	c.Case("sent"+layoutWireS(d), true)
}
