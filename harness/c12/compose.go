package c12

// compose.go: the element-based chunker with its text splitter modelled
// (Model/ChunkSplit.lean = Model/Chunk.lean + the model of property C13). The op
// c12.chunkc carries only the size configuration and the document; the Lean side
// computes IsAboveMax and SplitToSize itself. Size presets are named, so that the
// model's table of presets is what is compared (c12.preset checks the table alone).

import (
	"fmt"
	"math"

	"github.com/tsawler/tabula/rag"

	"verifharness/hx"
)

// cfgWire renders what splitting reads of a size configuration:
// <unit>:<max>:<tpcNum>/<tpcDen>:<sem>. TokensPerChar must be a dyadic rational
// (then the float64 arithmetic of the code is exact) and the maximum non-negative.
func cfgWire(cfg rag.SizeConfig) (string, bool) {
	if cfg.Max.Value < 0 || cfg.Max.Unit < 0 || cfg.Max.Unit > 4 {
		return "", false
	}
	num, den := cfg.TokensPerChar, 1
	for i := 0; i < 24 && num != math.Trunc(num); i++ {
		num *= 2
		den *= 2
	}
	if num != math.Trunc(num) || math.Abs(num) > 1<<30 {
		return "", false
	}
	sem := 0
	if cfg.SplitAtSemanticBoundaries {
		sem = 1
	}
	return fmt.Sprintf("%d:%d:%d/%d:%d", int(cfg.Max.Unit), cfg.Max.Value, int(num), den, sem), true
}

var presetNames = map[string]func() rag.SizeConfig{
	"default":       rag.DefaultSizeConfig,
	"small":         rag.SmallChunkConfig,
	"medium":        rag.MediumChunkConfig,
	"large":         rag.LargeChunkConfig,
	"openai":        rag.OpenAIEmbeddingConfig,
	"cohere":        rag.CohereEmbeddingConfig,
	"claude":        rag.ClaudeContextConfig,
	"rag-optimized": func() rag.SizeConfig { return rag.RAGOptimizedOptions().SizeConfig },
}

// sizeWire is the size field of c12.chunkc for one generated size case: the preset's
// name when the case uses a preset (APIs without a size configuration use "default").
func sizeWire(sz sizeCase) (string, bool) {
	if sz.API != 1 {
		return "preset=default", true
	}
	if _, ok := presetNames[sz.Name]; ok {
		return "preset=" + sz.Name, true
	}
	return cfgWire(sz.Cfg)
}

// dumpSplit is splitTable (the blocks the implementation splits); used only to count
// how many tied cases exercise the splitter.
func dumpSplit(d ldoc, cfg rag.SizeConfig) string { return splitTable(d, cfg) }

// runPresets compares the model's table of size presets with the constructors.
func runPresets(c *hx.Ctx) {
	for _, name := range hx.SortedKeys(presetNames) {
		w, ok := cfgWire(presetNames[name]())
		if !ok {
			w = "unrepresentable"
		}
		c.Op("c12.preset "+name, w)
		c.Count("preset/" + name)
	}
}
