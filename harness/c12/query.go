package c12

// query.go: the clauses of the property speak about the chunks of a document, and the
// chunks of a document are what the caller holds for as long as he holds the
// collection — not only in the instant behind the chunker call. A ChunkCollection is
// made to be queried (Filter*, Search, Get*, statistics, Markdown, exports) and to be
// cut into sub-collections; none of these is a chunking operation, so after any history
// of them the collection must still hold the same n chunks with indices 0..n-1, unique
// ids, n as the total on every chunk, the same page ranges, section paths and texts —
// and a chunk reached through a query result is that same chunk of the document.
//
// One case = one document x one way of getting its collection (the three entry points
// of the element-based chunker, the layout-based chunker's result wrapped with
// rag.NewChunkCollection, tabula.Open(html).Chunks()/ChunksWithConfig) x a history of
// 1-7 reads, some of them applied to the result of an earlier read. After every step the
// statement's metadata clauses are evaluated again on the original collection.

import (
	"encoding/json"
	"fmt"
	"os"
	"path/filepath"
	"strings"

	"github.com/tsawler/tabula"
	"github.com/tsawler/tabula/model"
	"github.com/tsawler/tabula/rag"

	"verifharness/hx"
)

// queryFrom: cases of the query-history family.
const queryFrom = 9900000

// csnap is one chunk as the caller sees it: the fields the property names, and
// everything else the chunk carries (its JSON form).
type csnap struct {
	v   cview
	all string
}

func snapshot(chunks []*rag.Chunk) []csnap {
	out := make([]csnap, len(chunks))
	for i, ch := range chunks {
		if ch == nil {
			out[i] = csnap{all: "nil"}
			continue
		}
		b, _ := json.Marshal(ch)
		out[i] = csnap{v: viewsOf([]*rag.Chunk{ch})[0], all: string(b)}
	}
	return out
}

// diffField names the first field of the property in which two views of one chunk differ.
func diffField(a, b csnap) string {
	switch {
	case a.v.Total != b.v.Total:
		return "total"
	case a.v.Idx != b.v.Idx:
		return "index-sequence"
	case a.v.ID != b.v.ID:
		return "id"
	case a.v.PS != b.v.PS || a.v.PE != b.v.PE:
		return "page-range"
	case len(a.v.Path) != len(b.v.Path) || strings.Join(a.v.Path, "\x00") != strings.Join(b.v.Path, "\x00"):
		return "section-path"
	case a.v.Text != b.v.Text:
		return "text"
	case a.all != b.all:
		return "other-field"
	}
	return ""
}

func totalsOf(s []csnap) []int {
	out := make([]int, len(s))
	for i, x := range s {
		out[i] = x.v.Total
	}
	return out
}

// qstep is one read of a collection.
type qstep struct {
	kind string // bucket of the distribution
	name string // the call with its arguments
	// run performs the read on t; a query that yields a collection returns it.
	run func(t *rag.ChunkCollection) *rag.ChunkCollection
	// want is the documented selection rule of the query in terms of the chunk's
	// metadata (nil: only "a sub-sequence of the collection" is demanded).
	want func(v cview) bool
	// get: the read returns single chunks; for each the id of the chunk it must be
	// ("": must be nil), read off the members the queried collection had before.
	get func(t *rag.ChunkCollection, members []string) (got []*rag.Chunk, wantID []string)
	// calls: the step in the grammar of the ops c12.query / c12.lquery (Model/ChunkColl.lean):
	// one call for a query, one per part for GetBy… and the statistics; nil: not modelled.
	calls []string
	// meta: the call reads ElementTypes / HasTable / HasList / HasImage
	meta bool
}

// lowerASCII is strings.ToLower for a text whose upper-case letters are ASCII.
func lowerASCII(s string) string {
	b := []byte(s)
	for i, ch := range b {
		if ch >= 'A' && ch <= 'Z' {
			b[i] = ch + 32
		}
	}
	return string(b)
}

// caseIsASCII: strings.ToLower changes ASCII letters only (the model's ToLower is exact on such texts).
func caseIsASCII(s string) bool { return strings.ToLower(s) == lowerASCII(s) }

func dumpIdx(chunks []*rag.Chunk) string {
	if len(chunks) == 0 {
		return "c~"
	}
	ps := make([]string, len(chunks))
	for i, ch := range chunks {
		if ch == nil {
			ps[i] = "nil"
		} else {
			ps[i] = fmt.Sprint(ch.Metadata.ChunkIndex)
		}
	}
	return "c" + strings.Join(ps, "+")
}

func dumpOne(ch *rag.Chunk) string {
	if ch == nil {
		return "knil"
	}
	return fmt.Sprintf("k%d", ch.Metadata.ChunkIndex)
}

// wordsOf lists the words of the chunk texts (letters and digits only), so that a
// search word comes from the document itself.
func wordsOf(s []csnap, r *hx.Rng) []string {
	var out []string
	for _, x := range s {
		fs := strings.FieldsFunc(x.v.Text, func(c rune) bool {
			return !(c >= '0' && c <= '9' || c >= 'a' && c <= 'z' || c >= 'A' && c <= 'Z' || c >= 0x80)
		})
		if len(fs) > 0 {
			out = append(out, fs[r.Intn(len(fs))])
		}
	}
	return out
}

func headingTexts(d ldoc) []string {
	var out []string
	for _, lp := range d.Pages {
		for _, e := range lp.Elems {
			if e.Kind == "h" && strings.TrimSpace(e.Text) != "" {
				out = append(out, strings.TrimSpace(e.Text))
			}
		}
	}
	return out
}

// pickStep draws one read. d is the logical document, base the chunks as they were
// directly behind the chunker call, tn the size of the collection the read is applied to.
func pickStep(r *hx.Rng, d ldoc, base []csnap, tn int) qstep {
	n := len(base)
	var pages []int
	for _, lp := range d.Pages {
		pages = append(pages, lp.Number)
	}
	page := func() int {
		if len(pages) == 0 || r.Chance(1, 6) {
			return r.Range(-1, 12)
		}
		return hx.Pick(r, pages)
	}
	anyChunk := func() (csnap, bool) {
		if n == 0 {
			return csnap{}, false
		}
		return base[r.Intn(n)], true
	}
	coll := func(kind, name string, want func(cview) bool, run func(*rag.ChunkCollection) *rag.ChunkCollection, call ...string) qstep {
		return qstep{kind: kind, name: name, run: run, want: want, calls: call}
	}
	plain := func(kind, name string, f func(*rag.ChunkCollection)) qstep {
		return qstep{kind: kind, name: name, run: func(t *rag.ChunkCollection) *rag.ChunkCollection { f(t); return nil }}
	}
	switch r.Intn(24) {
	case 0, 1, 2:
		p := page()
		return coll("FilterByPage", fmt.Sprintf("FilterByPage(%d)", p),
			func(v cview) bool { return v.PS <= p && p <= v.PE },
			func(t *rag.ChunkCollection) *rag.ChunkCollection { return t.FilterByPage(p) }, fmt.Sprintf("pg.%d", p))
	case 3:
		a, b := page(), page()
		if a > b && r.Chance(3, 4) {
			a, b = b, a
		}
		return coll("FilterByPageRange", fmt.Sprintf("FilterByPageRange(%d,%d)", a, b),
			func(v cview) bool { return v.PE >= a && v.PS <= b },
			func(t *rag.ChunkCollection) *rag.ChunkCollection { return t.FilterByPageRange(a, b) }, fmt.Sprintf("pr.%d.%d", a, b))
	case 4, 5:
		s := "nosuchsection"
		if hs := headingTexts(d); len(hs) > 0 && r.Chance(2, 3) {
			s = hx.Pick(r, hs)
		} else if x, ok := anyChunk(); ok && r.Bool() {
			s = x.v.Title
		}
		return coll("FilterBySection", fmt.Sprintf("FilterBySection(%q)", clip(s)),
			func(v cview) bool {
				if v.Title == s {
					return true
				}
				for _, p := range v.Path {
					if p == s {
						return true
					}
				}
				return false
			},
			func(t *rag.ChunkCollection) *rag.ChunkCollection { return t.FilterBySection(s) }, "sec."+hx.HexS(s))
	case 6:
		ty := hx.Pick(r, []string{"paragraph", "heading", "list", "table", "image", "Paragraph", "TABLE", "nosuchtype"})
		st := coll("FilterByElementType", fmt.Sprintf("FilterByElementType(%q)", ty), nil,
			func(t *rag.ChunkCollection) *rag.ChunkCollection { return t.FilterByElementType(ty) }, "et."+hx.HexS(ty))
		st.meta = true
		return st
	case 7:
		st := coll("FilterWithTables", "FilterWithTables()", nil, func(t *rag.ChunkCollection) *rag.ChunkCollection { return t.FilterWithTables() }, "wt")
		st.meta = true
		return st
	case 8:
		st := coll("FilterWithLists", "FilterWithLists()", nil, func(t *rag.ChunkCollection) *rag.ChunkCollection { return t.FilterWithLists() }, "wl")
		st.meta = true
		return st
	case 9:
		st := coll("FilterWithImages", "FilterWithImages()", nil, func(t *rag.ChunkCollection) *rag.ChunkCollection { return t.FilterWithImages() }, "wi")
		st.meta = true
		return st
	case 10:
		k := r.Range(0, 40)
		if x, ok := anyChunk(); ok {
			k = len(x.v.Text)/4 + r.Range(-1, 1)
		}
		if r.Bool() {
			return coll("FilterByMinTokens", fmt.Sprintf("FilterByMinTokens(%d)", k), nil,
				func(t *rag.ChunkCollection) *rag.ChunkCollection { return t.FilterByMinTokens(k) }, fmt.Sprintf("mint.%d", k))
		}
		return coll("FilterByMaxTokens", fmt.Sprintf("FilterByMaxTokens(%d)", k), nil,
			func(t *rag.ChunkCollection) *rag.ChunkCollection { return t.FilterByMaxTokens(k) }, fmt.Sprintf("maxt.%d", k))
	case 11, 12, 13:
		w := "nosuchword"
		if ws := wordsOf(base, r); len(ws) > 0 && r.Chance(7, 8) {
			w = hx.Pick(r, ws)
			if r.Chance(1, 3) {
				w = strings.ToUpper(w) // the search is documented as case-insensitive
			}
		} else if r.Chance(1, 4) {
			w = ""
		}
		lw := strings.ToLower(w)
		// the model's ToLower is the ASCII one: sent only when that is what strings.ToLower does here
		var call []string
		if ok := caseIsASCII(w); ok {
			for _, x := range base {
				ok = ok && caseIsASCII(x.v.Text)
			}
			if ok {
				call = []string{"s." + hx.HexS(w)}
			}
		}
		return coll("Search", fmt.Sprintf("Search(%q)", clip(w)),
			func(v cview) bool { return strings.Contains(strings.ToLower(v.Text), lw) },
			func(t *rag.ChunkCollection) *rag.ChunkCollection { return t.Search(w) }, call...)
	case 14, 15:
		m, k := r.Range(2, 4), r.Intn(4)
		cut := r.Range(0, n+1)
		if r.Bool() {
			return coll("Filter", fmt.Sprintf("Filter(index%%%d==%d)", m, k%m),
				func(v cview) bool { return v.Idx%m == k%m },
				func(t *rag.ChunkCollection) *rag.ChunkCollection {
					return t.Filter(func(c *rag.Chunk) bool { return c.Metadata.ChunkIndex%m == k%m })
				}, fmt.Sprintf("mod.%d.%d", m, k%m))
		}
		return coll("Filter", fmt.Sprintf("Filter(index>=%d)", cut),
			func(v cview) bool { return v.Idx >= cut },
			func(t *rag.ChunkCollection) *rag.ChunkCollection {
				return t.Filter(func(c *rag.Chunk) bool { return c.Metadata.ChunkIndex >= cut })
			}, fmt.Sprintf("ge.%d", cut))
	case 16, 17:
		// a sub-collection made by hand from a part of the slice (a batch, a window)
		a := r.Range(0, tn)
		b := r.Range(a, tn)
		if r.Chance(1, 5) {
			a, b = 0, tn
		}
		return coll("NewChunkCollection", fmt.Sprintf("NewChunkCollection(ToSlice()[%d:%d])", a, b), nil,
			func(t *rag.ChunkCollection) *rag.ChunkCollection {
				s := t.ToSlice()
				if b > len(s) {
					b = len(s)
				}
				if a > b {
					a = b
				}
				return rag.NewChunkCollection(s[a:b])
			}, fmt.Sprintf("sl.%d.%d", a, b))
	case 18:
		i := r.Range(-1, tn)
		id := "nosuchid"
		if x, ok := anyChunk(); ok && r.Chance(3, 4) {
			id = x.v.ID
		}
		return qstep{kind: "GetBy", name: fmt.Sprintf("GetByIndex(%d),GetByID(%q),First(),Last()", i, id),
			calls: []string{fmt.Sprintf("gi.%d", i), "gid." + hx.HexS(id), "first", "last"},
			get: func(t *rag.ChunkCollection, members []string) ([]*rag.Chunk, []string) {
				want := []string{"", "", "", ""}
				if i >= 0 && i < len(members) {
					want[0] = members[i]
				}
				for _, m := range members {
					if m == id {
						want[1] = id
					}
				}
				if len(members) > 0 {
					want[2], want[3] = members[0], members[len(members)-1]
				}
				return []*rag.Chunk{t.GetByIndex(i), t.GetByID(id), t.First(), t.Last()}, want
			}}
	case 19:
		st := plain("statistics", "Count(),GetAllSections(),GetPageRange(),GetTotalTokens(),GetTotalWords(),Statistics()", func(t *rag.ChunkCollection) {
			t.Count()
			t.GetAllSections()
			t.GetPageRange()
			t.GetTotalTokens()
			t.GetTotalWords()
			st := t.Statistics()
			st.ToJSON()
		})
		st.calls = []string{"count", "prange", "secs", "tok"}
		return st
	case 20:
		return plain("markdown", "ToMarkdown(),ToMarkdownWithOptions(RAGOptimized),ToMarkdownChunks()", func(t *rag.ChunkCollection) {
			t.ToMarkdown()
			t.ToMarkdownWithOptions(rag.RAGOptimizedMarkdownOptions())
			t.ToMarkdownChunks()
		})
	case 21:
		return plain("export", "ToJSON(),ToJSONL(),ToCSV(),ToTSV()", func(t *rag.ChunkCollection) {
			t.ToJSON()
			t.ToJSONL()
			t.ToCSV()
			t.ToTSV()
		})
	case 22:
		bs := r.Range(1, 4)
		return plain("exporters", fmt.Sprintf("Exporter(VectorDB).ExportToString,EmbeddingExporter.PrepareForVectorDB,BatchExporter(%d).Export", bs), func(t *rag.ChunkCollection) {
			rag.NewExporterWithConfig(rag.VectorDBExportConfig()).ExportToString(t.ToSlice())
			rag.NewEmbeddingExporter().PrepareForVectorDB(t.ToSlice())
			rag.NewBatchExporter(bs).Export(t.ToSlice(), func(rag.ExportBatch) error { return nil })
		})
	default:
		return plain("chunk-methods", "per chunk: ToEmbeddingFormat,ToSearchableText,Summary,ToMarkdown,GenerateContextText,Metadata.ToMap/ToJSON/GetPageRange/GetSectionPathString", func(t *rag.ChunkCollection) {
			for _, ch := range t.Chunks {
				ch.ToEmbeddingFormat()
				ch.ToSearchableText()
				ch.Summary()
				ch.ToMarkdown()
				ch.GenerateContextText(rag.DefaultMetadataConfig())
				ch.Metadata.ToMap()
				ch.Metadata.ToJSON()
				ch.Metadata.GetPageRange()
				ch.Metadata.GetSectionPathString(" > ")
			}
		})
	}
}

// querySource chunks one document through one of the public entry points and
// returns the collection together with the document the chunks are chunks of.
//
// tie: the head of the op that replays the history on the model (c12.query … / c12.lquery …
// up to and including the document); "" when the case is not sent.
func querySource(c *hx.Ctx, r *hx.Rng, idx int, sz sizeCase, src ldoc) (name string, d ldoc, coll *rag.ChunkCollection, layout bool, tie string, ok bool) {
	d = src
	small := textBytes(src) <= 12000
	switch r.Intn(10) {
	case 0, 1, 2, 3, 4:
		name = "element-based chunker, config " + sz.Name + fmt.Sprintf(" (api %d)", sz.API)
		coll = chunkDoc(sz, toModel(src))
		if w, wok := sizeWire(sz); wok && small {
			tie = "c12.query " + w + " " + docWire(src)
		}
		return name, d, coll, false, tie, coll != nil
	case 5, 6, 7:
		lc := pickLayCfg(r)
		name = fmt.Sprintf("rag.NewChunkCollection(<layout-based chunker, config %s (max %d, min %d, minHeadingLevel %d)>.Chunk(doc).Chunks)", lc.Name, lc.CC.MaxChunkSize, lc.CC.MinChunkSize, lc.CC.MinHeadingLevel)
		var ch *rag.Chunker
		if lc.Ctor == 0 {
			ch = rag.NewChunker()
		} else {
			ch = rag.NewChunkerWithConfig(lc.CC)
		}
		res, err := ch.Chunk(toModel(src))
		if err != nil || res == nil {
			return name, d, nil, true, "", false
		}
		if small {
			keep := 0
			if lc.CC.PreserveListCoherence {
				keep = 1
			}
			tie = fmt.Sprintf("c12.lquery %d %d %d %d %s %s %s %s", lc.CC.MaxChunkSize, lc.CC.MinChunkSize, lc.CC.MinHeadingLevel, keep,
				hx.HexS(lc.CC.IDPrefix), hx.HexS(src.Title), lowTable(docTexts(src)), layoutWireS(src))
		}
		return name, d, rag.NewChunkCollection(res.Chunks), true, tie, true
	default:
		path := filepath.Join(c.OutDir, fmt.Sprintf("query-%d.html", idx))
		os.WriteFile(path, []byte(htmlOf(src)), 0o644)
		defer os.Remove(path)
		var doc *model.Document
		var e1, e2 error
		doc, _, e1 = tabula.Open(path).Document()
		w, wok := "preset=default", true
		if r.Bool() {
			name = "tabula.Open(html).Chunks()"
			coll, _, e2 = tabula.Open(path).Chunks()
		} else {
			name = "tabula.Open(html).ChunksWithConfig(" + sz.Name + ")"
			coll, _, e2 = tabula.Open(path).ChunksWithConfig(sz.CC, sz.Cfg)
			if _, isPreset := presetNames[sz.Name]; isPreset {
				w = "preset=" + sz.Name
			} else {
				w, wok = cfgWire(sz.Cfg)
			}
		}
		if e1 != nil || e2 != nil || doc == nil || coll == nil {
			return name, d, nil, false, "", false
		}
		if wok && small {
			tie = "c12.query " + w + " " + modelWire(doc)
		}
		return name, fromModel(doc), coll, false, tie, true
	}
}

func runQuery(c *hx.Ctx, idx int) {
	r := c.Rng.Fork(uint64(idx))
	k := kase{Seed: c.Seed, Index: idx, Mode: "query"}
	sz := pickSize(r)
	src := genDoc(r, sz, r.Chance(1, 4))
	if len(src.Pages) < 2 && r.Chance(2, 3) { // queries by page want several pages
		more := genDoc(r, sz, false)
		g := 0
		for _, lp := range src.Pages {
			g = lp.Number
		}
		for _, lp := range more.Pages {
			g++
			lp.Number = g
			// keep every text unique in the document: the second part gets its own words
			for ei := range lp.Elems {
				e := &lp.Elems[ei]
				e.Text = requal(e.Text)
				for ii := range e.Items {
					e.Items[ii].Text = requal(e.Items[ii].Text)
				}
				rows := make([][]string, len(e.Rows))
				for ri, row := range e.Rows {
					rows[ri] = make([]string, len(row))
					for ci, cell := range row {
						rows[ri][ci] = requal(cell)
					}
				}
				e.Rows = rows
			}
			src.Pages = append(src.Pages, lp)
		}
	}
	var name string
	var d ldoc
	var coll *rag.ChunkCollection
	var layout, ok bool
	var tie string
	var base []csnap
	p := hx.Safe(func() {
		name, d, coll, layout, tie, ok = querySource(c, r, idx, sz, src)
		if ok {
			base = snapshot(coll.Chunks)
		}
	})
	if !c.Check("C12/panic", p == "", k, func() string { return "panic while chunking: " + p + "; " + describe(src) }) {
		return
	}
	if !ok {
		c.Count("query/no-collection")
		return
	}
	n := len(base)
	var history []string
	what := func() string {
		return fmt.Sprintf("%s; history on the collection: %s; %s", name, strings.Join(history, " ; "), describe(d))
	}
	// directly behind the chunker call (the element-based result in full; the
	// layout-based one has its own family, here only what the history is judged by)
	if !layout {
		checkChunks(c, coverOpts{prefix: "C12/", kinds: allKinds, crossKind: true, exactPage: true, inPath: allKinds, pages: pagesOf(d)},
			atomsOf(d, func(int) bool { return true }), viewsOfSnap(base), k, what)
	}
	pos := map[string]int{}
	direct := true
	for i, b := range base {
		if b.all == "nil" || b.v.Idx != i || b.v.Total != n {
			direct = false
		}
		pos[b.v.ID] = i
	}
	tkey := "C12/total"
	if layout {
		tkey = "C12/layout-chunker-total"
	}
	if !c.Check(tkey, direct, k, func() string {
		return fmt.Sprintf("directly behind the call: %d chunks, TotalChunks %v; %s", n, totalsOf(base), what())
	}) || len(pos) != n {
		return
	}

	colls := []*rag.ChunkCollection{coll}
	// the history in the model's grammar: mstore[i] is the model's number of colls[i] (-1: the
	// collection came from a call that is not sent), wsteps/wreplies the calls and what the
	// implementation answered
	mstore := []int{0}
	nextStore := 1
	var wsteps, wreplies []string
	steps := r.Range(1, 7)
	properSubset := false
	for s := 0; s < steps; s++ {
		ti := 0
		if len(colls) > 1 && r.Chance(1, 4) {
			ti = r.Range(1, len(colls)-1) // a query on the result of an earlier query
			c.Count("query/on-an-earlier-result")
		}
		target := colls[ti]
		st := pickStep(r, d, base, len(target.Chunks))
		label := st.name
		if ti > 0 {
			label = fmt.Sprintf("result%d.%s", ti, st.name)
		}
		history = append(history, label)
		c.Count("query/step=" + st.kind)
		before := append([]*rag.Chunk(nil), target.Chunks...)
		var res *rag.ChunkCollection
		var got []*rag.Chunk
		var gwant []string
		members := make([]string, len(before))
		for i, m := range before {
			if m != nil {
				members[i] = m.ID
			}
		}
		p := hx.Safe(func() {
			if st.get != nil {
				got, gwant = st.get(target, members)
			} else {
				res = st.run(target)
			}
		})
		if !c.Check("C12/panic", p == "", k, func() string { return "panic in " + label + ": " + p + "; " + what() }) {
			return
		}

		// the step for the model
		sent := tie != "" && len(st.calls) > 0 && mstore[ti] >= 0
		if sent {
			for j, call := range st.calls {
				var reply string
				switch {
				case st.get != nil:
					if j >= len(got) {
						continue
					}
					reply = dumpOne(got[j])
				case call == "count":
					reply = fmt.Sprintf("n%d", target.Count())
				case call == "prange":
					a, b := target.GetPageRange()
					reply = fmt.Sprintf("p%d:%d", a, b)
				case call == "secs":
					reply = "s~"
					if ss := target.GetAllSections(); len(ss) > 0 {
						hs := make([]string, len(ss))
						for i, x := range ss {
							hs[i] = hx.HexS(x)
						}
						reply = "s" + strings.Join(hs, "+")
					}
				case call == "tok":
					reply = fmt.Sprintf("n%d", target.GetTotalTokens())
				default:
					if res == nil {
						continue
					}
					reply = dumpIdx(res.Chunks)
				}
				wsteps = append(wsteps, fmt.Sprintf("%d:%s", mstore[ti], call))
				wreplies = append(wreplies, reply)
			}
			c.Count("query/step-sent-to-model=" + st.kind)
		}

		// 1. the chunks of the document after the read: the statement's clauses again
		var after []csnap
		if p := hx.Safe(func() { after = snapshot(coll.Chunks) }); p != "" {
			c.Check("C12/panic", false, k, func() string { return "panic reading the collection after " + label + ": " + p })
			return
		}
		if !c.Check("C12/query-changes-collection-size", len(after) == n, k, func() string {
			return fmt.Sprintf("the collection had %d chunks, after %s it has %d; %s", n, label, len(after), what())
		}) {
			return
		}
		okTot := true
		for _, a := range after {
			if a.v.Total != n {
				okTot = false
			}
		}
		if !c.Check("C12/total-after-query", okTot, k, func() string {
			return fmt.Sprintf("the document has %d chunks and every chunk reported %d as the total; after %s the chunks report TotalChunks %v; %s",
				n, n, label, totalsOf(after), what())
		}) {
			return
		}
		for i := range after {
			f := diffField(base[i], after[i])
			if !c.Check("C12/"+orOther(f)+"-after-query", f == "", k, func() string {
				return fmt.Sprintf("chunk %d of the document changed in %s by %s: before index=%d id=%q total=%d pages=%d-%d path=%q text=%q, after index=%d id=%q total=%d pages=%d-%d path=%q text=%q; %s",
					i, f, label, base[i].v.Idx, base[i].v.ID, base[i].v.Total, base[i].v.PS, base[i].v.PE, base[i].v.Path, clip(base[i].v.Text),
					after[i].v.Idx, after[i].v.ID, after[i].v.Total, after[i].v.PS, after[i].v.PE, after[i].v.Path, clip(after[i].v.Text), what())
			}) {
				return
			}
		}
		// the collection that was queried keeps its members
		same := len(before) == len(target.Chunks)
		for i := 0; same && i < len(before); i++ {
			same = before[i] == target.Chunks[i]
		}
		if !c.Check("C12/query-changes-queried-collection", same, k, func() string {
			return fmt.Sprintf("%s changed the members of the collection it was applied to (%d chunks before, %d after); %s", label, len(before), len(target.Chunks), what())
		}) {
			return
		}

		// 2. single chunks handed out
		for j, ch := range got {
			want := -1
			if gwant[j] != "" {
				want = pos[gwant[j]]
			}
			okGet := (want < 0 && ch == nil) || (want >= 0 && ch != nil && diffField(base[want], snapshot([]*rag.Chunk{ch})[0]) == "")
			if !c.Check("C12/query-get", okGet, k, func() string {
				g := "nil"
				if ch != nil {
					g = fmt.Sprintf("index=%d id=%q total=%d", ch.Metadata.ChunkIndex, ch.ID, ch.Metadata.TotalChunks)
				}
				return fmt.Sprintf("%s: part %d returned %s, expected chunk %d of the document (-1: nil); %s", label, j, g, want, what())
			}) {
				return
			}
		}

		// 3. the result of a query: chunks of the document, in index order, each as
		// the document has it, selected by the documented rule
		if res == nil {
			if st.get == nil && st.run != nil && st.want != nil {
				c.Check("C12/query-result-nil", false, k, func() string { return label + " returned nil; " + what() })
				return
			}
			continue
		}
		rs := snapshot(res.Chunks)
		last := -1
		var gotIdx []int
		for j, x := range rs {
			i, known := pos[x.v.ID]
			if !c.Check("C12/query-result-foreign-chunk", known && x.all != "nil", k, func() string {
				return fmt.Sprintf("%s: member %d of the result (id %q) is no chunk of the document; %s", label, j, x.v.ID, what())
			}) {
				return
			}
			if !c.Check("C12/query-result-order", i > last, k, func() string {
				return fmt.Sprintf("%s: member %d of the result is chunk %d of the document, behind chunk %d: not in index order / repeated; %s", label, j, i, last, what())
			}) {
				return
			}
			last = i
			gotIdx = append(gotIdx, i)
			f := diffField(base[i], x)
			if !c.Check("C12/query-result-"+orOther(f), f == "", k, func() string {
				return fmt.Sprintf("%s: member %d of the result is chunk %d of the document but differs from it in %s: document index=%d id=%q total=%d pages=%d-%d path=%q, result index=%d id=%q total=%d pages=%d-%d path=%q (result TotalChunks %v, document has %d chunks); %s",
					label, j, i, f, base[i].v.Idx, base[i].v.ID, base[i].v.Total, base[i].v.PS, base[i].v.PE, base[i].v.Path,
					x.v.Idx, x.v.ID, x.v.Total, x.v.PS, x.v.PE, x.v.Path, totalsOf(rs), n, what())
			}) {
				return
			}
		}
		// every member comes from the queried collection
		inTarget := map[string]bool{}
		for _, m := range before {
			inTarget[m.ID] = true
		}
		for j, x := range rs {
			if !c.Check("C12/query-result-not-from-queried-collection", inTarget[x.v.ID], k, func() string {
				return fmt.Sprintf("%s: member %d of the result (chunk %q) is not in the collection that was queried; %s", label, j, x.v.ID, what())
			}) {
				return
			}
		}
		if st.want != nil {
			var wantIdx []int
			for _, m := range before {
				if i := pos[m.ID]; st.want(base[i].v) {
					wantIdx = append(wantIdx, i)
				}
			}
			if !c.Check("C12/query-result-selection", fmt.Sprint(gotIdx) == fmt.Sprint(wantIdx), k, func() string {
				return fmt.Sprintf("%s selected the chunks %v of the document, by its documented rule and the chunks' metadata it selects %v; %s", label, gotIdx, wantIdx, what())
			}) {
				return
			}
		}
		switch {
		case len(rs) == 0:
			c.Count("query/result=empty")
		case len(rs) == n:
			c.Count("query/result=all-chunks")
		default:
			c.Count("query/result=proper-subset")
			properSubset = true
		}
		colls = append(colls, res)
		if sent {
			mstore = append(mstore, nextStore)
			nextStore++
		} else {
			mstore = append(mstore, -1)
		}
	}
	if len(wsteps) > 0 {
		c.Op(tie+" q="+strings.Join(wsteps, ","), strings.Join(wreplies, "|"))
		if layout {
			c.Count("query/history-replayed-on-model=layout-based")
		} else {
			c.Count("query/history-replayed-on-model=element-based")
		}
	}
	src0 := "element-based"
	if layout {
		src0 = "layout-based"
	} else if strings.HasPrefix(name, "tabula.Open") {
		src0 = "open-html"
	}
	c.Count("query/source=" + src0)
	switch {
	case n == 0:
		c.Count("query/chunks=0")
	case n == 1:
		c.Count("query/chunks=1")
	case n < 8:
		c.Count("query/chunks=2-7")
	default:
		c.Count("query/chunks>=8")
	}
	if properSubset {
		c.Count("query/history-with-a-proper-subset-result")
	}
	c.Case(fmt.Sprintf("query%d%s%s%v", idx, name, docWire(d), history), n > 1 && properSubset)
}

func orOther(f string) string {
	if f == "" {
		return "total"
	}
	return f
}

func viewsOfSnap(s []csnap) []cview {
	out := make([]cview, len(s))
	for i, x := range s {
		out[i] = x.v
	}
	return out
}

// requal renames the words of a text (<letter…><digits>z becomes <letter…><digits>yz)
// so that two generated parts joined into one document share no word.
func requal(s string) string {
	var sb strings.Builder
	for i := 0; i < len(s); i++ {
		if s[i] == 'z' && i > 0 && s[i-1] >= '0' && s[i-1] <= '9' {
			sb.WriteString("yz")
			continue
		}
		sb.WriteByte(s[i])
	}
	return sb.String()
}
