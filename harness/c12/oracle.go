package c12

// oracle.go: statement-level oracles written from the property text, independent
// of the Lean model. They look only at the logical document and at what the
// implementation returned.

import (
	"fmt"
	"sort"
	"strings"

	"verifharness/hx"
)

// cview is what the property talks about in one chunk.
type cview struct {
	Idx   int
	ID    string
	Total int
	PS    int
	PE    int
	Path  []string
	Text  string
	Title string
}

// atom is one piece of document content that must be covered: a heading text, a
// paragraph, one list item, one table cell, one image description.
type atom struct {
	Kind string // heading paragraph list-item table-cell image
	Text string // whitespace stripped
	Page int
	Path []string // chain of headings enclosing it (trimmed texts), outermost first
	Pos  int      // ordinal of its element in document order
	Lvl  int      // heading level (headings only)
	Sec  *secInfo // the section (run of elements under one section-opening heading) it lies in
}

// secInfo is one section of the logical document as the property reads it: a
// section-opening heading and the elements that follow it up to the next
// section-opening heading (the elements before the first one form a section
// without heading). Subsections are sections of their own: their elements are not
// content of the enclosing section. Pages holds the page numbers the section's own
// content — its heading included — came from.
type secInfo struct {
	Ord   int // 0 = before the first section-opening heading
	Head  string
	Pages map[int]bool
}

func (s *secInfo) pageList() []int {
	var out []int
	for p := range s.Pages {
		out = append(out, p)
	}
	sort.Ints(out)
	return out
}

func isWS(b byte) bool { return b == ' ' || (b >= 9 && b <= 13) }

// strip removes all (ASCII) whitespace: the property's "whitespace aside".
func strip(s string) string {
	var sb strings.Builder
	for i := 0; i < len(s); i++ {
		if !isWS(s[i]) {
			sb.WriteByte(s[i])
		}
	}
	return sb.String()
}

type hd struct {
	level int
	text  string
}

// enclosing is the chain of headings open after the heading sequence hs: heading i
// is open iff no later heading has a level <= its own. Declarative on purpose
// (no stack), so that it is independent of the implementation's algorithm.
func enclosing(hs []hd) []string {
	path := []string{}
	for i, h := range hs {
		open := true
		for _, later := range hs[i+1:] {
			if later.level <= h.level {
				open = false
				break
			}
		}
		if open {
			path = append(path, strings.TrimSpace(h.text))
		}
	}
	return path
}

// atomsOf lists the content of the document in document order. major says which
// headings open a section (all of them for the element-based chunker; only levels
// <= MinHeadingLevel for the layout-based one).
func atomsOf(d ldoc, major func(level int) bool) []atom {
	var out []atom
	var hs []hd
	pos := 0
	sec := &secInfo{Pages: map[int]bool{}}
	nsec := 0
	for _, lp := range d.Pages {
		for _, e := range lp.Elems {
			pos++
			if e.Kind == "h" && major(e.Level) {
				nsec++
				sec = &secInfo{Ord: nsec, Head: strings.TrimSpace(e.Text), Pages: map[int]bool{}}
			}
			sec.Pages[lp.Number] = true
			sec := sec
			add := func(kind, text string) {
				if s := strip(text); s != "" {
					out = append(out, atom{Kind: kind, Text: s, Page: lp.Number, Path: enclosing(hs), Pos: pos, Lvl: e.Level, Sec: sec})
				}
			}
			switch e.Kind {
			case "h":
				if major(e.Level) {
					hs = append(hs, hd{e.Level, e.Text})
				}
				add("heading", e.Text)
			case "p":
				add("paragraph", e.Text)
			case "l":
				for _, it := range e.Items {
					add("list-item", it.Text)
				}
			case "t":
				for _, row := range e.Rows {
					for _, c := range row {
						// a cell is rendered as markdown: a pipe inside it is escaped
						add("table-cell", strings.ReplaceAll(c, "|", "\\|"))
					}
				}
			case "i":
				add("image", e.Text)
			}
		}
	}
	return out
}

// occurrences lists the offsets of the non-overlapping occurrences of t in s.
func occurrences(s, t string) []int {
	var out []int
	if t == "" {
		return out
	}
	for from := 0; ; {
		at := strings.Index(s[from:], t)
		if at < 0 {
			return out
		}
		out = append(out, from+at)
		from += at + len(t)
	}
}

func eqPath(a, b []string) bool {
	if len(a) != len(b) {
		return false
	}
	for i := range a {
		if strings.TrimSpace(a[i]) != strings.TrimSpace(b[i]) {
			return false
		}
	}
	return true
}

type coverOpts struct {
	prefix    string          // "C12/" or "C12/layout-chunker-"
	kinds     map[string]bool // atom kinds this chunker is given (others are skipped)
	crossKind bool            // demand document order across kinds (element-based chunker)
	exactPage bool            // PageStart = PageEnd = page of the content
	inPath    map[string]bool // kinds for which the section path is checked
	pages     map[int]bool
}

// checkChunks evaluates the property's clauses on one chunking result.
func checkChunks(c *hx.Ctx, o coverOpts, atoms []atom, chunks []cview, kase interface{}, what func() string) {
	// concatenation in index order, whitespace aside, with the span of every chunk
	var sb strings.Builder
	start := make([]int, len(chunks)+1)
	for i, ch := range chunks {
		start[i] = sb.Len()
		sb.WriteString(strip(ch.Text))
	}
	S := sb.String()
	start[len(chunks)] = len(S)

	// indices, ids, total
	n := len(chunks)
	okIdx, okTot := true, true
	ids := map[string]int{}
	for i, ch := range chunks {
		if ch.Idx != i {
			okIdx = false
		}
		if ch.Total != n {
			okTot = false
		}
		ids[ch.ID]++
	}
	c.Check(o.prefix+"index-sequence", okIdx, kase, func() string {
		var got []int
		for _, ch := range chunks {
			got = append(got, ch.Idx)
		}
		return fmt.Sprintf("chunk indices %v, want 0..%d in order; %s", got, n-1, what())
	})
	c.Check(o.prefix+"id-unique", len(ids) == n, kase, func() string {
		for id, k := range ids {
			if k > 1 {
				return fmt.Sprintf("id %q used by %d chunks; %s", id, k, what())
			}
		}
		return what()
	})
	c.Check(o.prefix+"total", okTot, kase, func() string {
		var got []int
		for _, ch := range chunks {
			got = append(got, ch.Total)
		}
		return fmt.Sprintf("TotalChunks %v, want %d everywhere; %s", got, n, what())
	})

	// cover: each atom exactly once, in order. Texts are unique in the document except
	// that a heading text may recur (group): k headings with one text must give exactly
	// k occurrences, and the i-th heading of the group is the i-th occurrence — a
	// repeated heading is identified by its position, not by its text.
	group := map[string][]int{}
	for i, a := range atoms {
		if o.kinds[a.Kind] {
			group[a.Text] = append(group[a.Text], i)
		}
	}
	type hit struct{ a, b int }
	hits := make([]hit, len(atoms))
	lastEnd := map[string]int{}
	for i, a := range atoms {
		hits[i] = hit{-1, -1}
		if !o.kinds[a.Kind] {
			continue
		}
		members := group[a.Text]
		if len(members) > 1 {
			if members[0] != i {
				continue // the group is judged once, at its first member
			}
			occ := occurrences(S, a.Text)
			k, cnt := len(members), len(occ)
			if cnt < k {
				// k-cnt headings of the group are missing. Section-opening headings and
				// minor headings have keys of their own: a minor heading is reported only
				// when more are missing than the group has section-opening headings.
				majors := 0
				for _, m := range members {
					if atoms[m].Kind != "minor-heading" {
						majors++
					}
				}
				kind := "heading"
				if k-cnt > majors {
					kind = "minor-heading"
				}
				if a.Kind != "heading" && a.Kind != "minor-heading" {
					kind = a.Kind
				}
				c.Check(o.prefix+"cover-missing-"+kind, false, kase, func() string {
					return fmt.Sprintf("%s text %q is the text of %d headings of the document (first on page %d) but occurs only %d times in the concatenated chunk texts; %s",
						kind, clip(a.Text), k, a.Page, cnt, what())
				})
				continue
			}
			if !c.Check(o.prefix+"cover-duplicate-"+a.Kind, cnt == k, kase, func() string {
				return fmt.Sprintf("%s text %q is the text of %d headings of the document (first on page %d) but occurs %d times in the concatenated chunk texts; %s",
					a.Kind, clip(a.Text), k, a.Page, cnt, what())
			}) {
				continue
			}
			for j, m := range members {
				hits[m] = hit{occ[j], occ[j] + len(a.Text)}
			}
		} else {
			cnt := strings.Count(S, a.Text)
			if !c.Check(o.prefix+"cover-missing-"+a.Kind, cnt > 0, kase, func() string {
				return fmt.Sprintf("%s %q (page %d) occurs in no chunk text; %s", a.Kind, clip(a.Text), a.Page, what())
			}) {
				continue
			}
			if !c.Check(o.prefix+"cover-duplicate-"+a.Kind, cnt == 1, kase, func() string {
				return fmt.Sprintf("%s %q (page %d) occurs %d times in the concatenated chunk texts; %s", a.Kind, clip(a.Text), a.Page, cnt, what())
			}) {
				continue
			}
			at := strings.Index(S, a.Text)
			hits[i] = hit{at, at + len(a.Text)}
		}
	}
	for i, a := range atoms {
		at := hits[i].a
		if at < 0 {
			continue
		}
		lane := "all"
		key := o.prefix + "cover-order"
		if !o.crossKind {
			lane = a.Kind
			if a.Kind == "list-item" {
				lane = "list"
			}
			key = o.prefix + "order-" + lane
		}
		c.Check(key, at >= lastEnd[lane], kase, func() string {
			return fmt.Sprintf("%s %q (page %d) appears at offset %d, before content that precedes it in the document (offset %d); %s",
				a.Kind, clip(a.Text), a.Page, at, lastEnd[lane], what())
		})
		if at+len(a.Text) > lastEnd[lane] {
			lastEnd[lane] = at + len(a.Text)
		}
	}

	// metadata of every chunk against the atoms that lie in it
	for k, ch := range chunks {
		var mine []atom
		for i, h := range hits {
			if h.a >= 0 && h.a < start[k+1] && h.b > start[k] && start[k+1] > start[k] {
				mine = append(mine, atoms[i])
			}
		}
		if len(mine) == 0 {
			c.Check(o.prefix+"page-range", ch.PS <= ch.PE && o.pages[ch.PS] && o.pages[ch.PE], kase, func() string {
				return fmt.Sprintf("chunk %d reports pages %d-%d which are not pages of the document; %s", k, ch.PS, ch.PE, what())
			})
			continue
		}
		lo, hi := mine[0].Page, mine[0].Page
		for _, a := range mine {
			if a.Page < lo {
				lo = a.Page
			}
			if a.Page > hi {
				hi = a.Page
			}
		}
		okPage := ch.PS <= lo && hi <= ch.PE && o.pages[ch.PS] && o.pages[ch.PE]
		if o.exactPage {
			okPage = ch.PS == lo && ch.PE == hi
		}
		c.Check(o.prefix+"page-range", okPage, kase, func() string {
			return fmt.Sprintf("chunk %d (%q…) reports pages %d-%d, its content came from pages %d-%d; %s", k, clip(ch.Text), ch.PS, ch.PE, lo, hi, what())
		})
		if !o.exactPage {
			// Where a chunk is a piece of a section (layout-based chunker) its range may be
			// wider than the pages of the piece, but it must still lie on pages its content
			// came from: both ends are pages of the own content (heading included) of the
			// section(s) the chunk's content lies in. The content of a subsection is not
			// content of the enclosing section: a chunk of a parent section's own text must
			// not reach over the pages of the subsections that follow.
			allowed := map[int]bool{}
			var secs []*secInfo
			for _, a := range mine {
				if a.Sec == nil {
					continue
				}
				seen := false
				for _, s := range secs {
					seen = seen || s == a.Sec
				}
				if !seen {
					secs = append(secs, a.Sec)
					for p := range a.Sec.Pages {
						allowed[p] = true
					}
				}
			}
			if len(secs) > 0 {
				c.Check(o.prefix+"page-range-outside-section", allowed[ch.PS] && allowed[ch.PE], kase, func() string {
					var sb strings.Builder
					for _, s := range secs {
						fmt.Fprintf(&sb, " section #%d %q: own content (heading included) on pages %v;", s.Ord, s.Head, s.pageList())
					}
					return fmt.Sprintf("chunk %d (%q…, section path %q) reports pages %d-%d, but its content (pages %d-%d) lies in%s an end of the reported range is a page none of that content came from; %s",
						k, clip(ch.Text), ch.Path, ch.PS, ch.PE, lo, hi, sb.String(), what())
				})
			}
		}
		for _, a := range mine {
			if !o.inPath[a.Kind] {
				continue
			}
			if !c.Check(o.prefix+"section-path", eqPath(ch.Path, a.Path), kase, func() string {
				return fmt.Sprintf("chunk %d holding %s %q has section path %q, enclosing headings are %q; %s", k, a.Kind, clip(a.Text), ch.Path, a.Path, what())
			}) {
				break
			}
		}
	}
}
