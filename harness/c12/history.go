package c12

// history.go: the model takes a chunker to be a function of (configuration, document).
// The property quantifies over documents x chunkers x configurations, and one chunker
// object is normally used for many documents: a history of calls on one object must
// give, for every call, what a fresh chunker gives for that document (no state is
// carried from one call to the next), and must leave the documents it was given alone.

import (
	"fmt"

	"github.com/tsawler/tabula/model"
	"github.com/tsawler/tabula/rag"

	"verifharness/hx"
)

func runHistory(c *hx.Ctx, idx int) {
	r := c.Rng.Fork(uint64(idx))
	k := kase{Seed: c.Seed, Index: idx, Mode: "history"}
	sz := pickSize(r)
	if sz.API != 1 { // the history needs a chunker object built from a configuration
		sz = sizeCase{"default-ctor-cfg", rag.DefaultSizeConfig(), rag.DefaultChunkerConfig(), 1, 2000}
	}
	lc := pickLayCfg(r)
	ndocs := r.Range(2, 3)
	docs := make([]ldoc, ndocs)
	for i := range docs {
		docs[i] = genDoc(r, sz, r.Chance(1, 3))
	}
	// the order of calls: every document at least twice, interleaved
	var order []int
	for i := 0; i < 2*ndocs+1; i++ {
		order = append(order, r.Intn(ndocs))
	}
	for i := 0; i < ndocs; i++ {
		order = append(order, i)
	}
	fresh := func(d ldoc) (string, string) {
		a := dumpChunks(viewsOf(rag.NewDocumentChunkerWithConfig(sz.CC, sz.Cfg).ChunkDocument(toModel(d)).Chunks))
		res, err := rag.NewChunkerWithConfig(lc.CC).Chunk(toModel(d))
		b := "error"
		if err == nil {
			b = dumpChunks(viewsOf(res.Chunks))
		}
		return a, b
	}
	var wantE, wantL []string
	p := hx.Safe(func() {
		for _, d := range docs {
			a, b := fresh(d)
			wantE, wantL = append(wantE, a), append(wantL, b)
		}
	})
	if !c.Check("C12/panic", p == "", k, func() string { return "panic: " + p }) {
		return
	}
	dc := rag.NewDocumentChunkerWithConfig(sz.CC, sz.Cfg)
	ch := rag.NewChunkerWithConfig(lc.CC)
	models := make([]*model.Document, ndocs) // one model.Document per logical document, reused across calls
	for i, d := range docs {
		models[i] = toModel(d)
	}
	for step, di := range order {
		var gotE, gotL string
		p := hx.Safe(func() {
			gotE = dumpChunks(viewsOf(dc.ChunkDocument(models[di]).Chunks))
			res, err := ch.Chunk(models[di])
			gotL = "error"
			if err == nil {
				gotL = dumpChunks(viewsOf(res.Chunks))
			}
		})
		if !c.Check("C12/panic", p == "", k, func() string { return "panic: " + p }) {
			return
		}
		c.Check("C12/chunker-keeps-state", gotE == wantE[di], k, func() string {
			return fmt.Sprintf("call %d of the history %v on one DocumentChunker (config %s): document %d gives other chunks than a fresh chunker gives; %s", step, order, sz.Name, di, describe(docs[di]))
		})
		c.Check("C12/layout-chunker-keeps-state", gotL == wantL[di], k, func() string {
			return fmt.Sprintf("call %d of the history %v on one Chunker (config %s): document %d gives other chunks than a fresh chunker gives; %s", step, order, lc.Name, di, describe(docs[di]))
		})
	}
	c.Count(fmt.Sprintf("history/documents=%d", ndocs))
	c.Case(fmt.Sprintf("history%d%v", idx, order), true)
}
