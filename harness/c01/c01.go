// Package c01 is the correspondence/oracle harness for property C01.
package c01

import "verifharness/hx"

func init() { hx.Register("C01", Run, Replay) }

// Run is not built yet for this property.
func Run(c *hx.Ctx) { c.Note("C01: harness not built") }

func Replay(c *hx.Ctx, kase map[string]interface{}) {}
