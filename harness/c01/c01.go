// Package c01: PDF text survives every physical file layout.
package c01

import (
	"fmt"
	"os"
	"path/filepath"
	"strings"

	"github.com/tsawler/tabula"
	"github.com/tsawler/tabula/core"
	"github.com/tsawler/tabula/reader"

	"verifharness/hx"
	"verifharness/writers"
)

func init() { hx.Register("C01", Run, Replay) }

type kase struct {
	Doc    writers.LDoc   `json:"doc"`
	Layout writers.Layout `json:"layout"`
}

var latinWords = []string{"alpha", "Beta", "gamma(1)", "d\\e", "x)y(z", "café", "naïve", "A.B,C", "100%", "q-r_s", "Ångström", "end."}
var uniWords = []string{"日本語", "αβγ", "Привет", "naïve", "–dash—", "中文", "€100", "¿qué?", "ﬁn", "שלום"}

func genDoc(r *hx.Rng, tag string) writers.LDoc {
	var d writers.LDoc
	np := r.Range(1, 6)
	for p := 0; p < np; p++ {
		var pg writers.LPage
		nl := r.Range(1, 5)
		for l := 0; l < nl; l++ {
			f := r.Intn(2)
			var w []string
			for k := r.Range(1, 3); k > 0; k-- {
				if f == 0 {
					w = append(w, hx.Pick(r, latinWords))
				} else {
					w = append(w, hx.Pick(r, uniWords))
				}
			}
			// unique token per line so order and page membership are decidable
			pg.Lines = append(pg.Lines, writers.LLine{Font: f, Text: fmt.Sprintf("%s p%dl%d %s", tag, p+1, l+1, strings.Join(w, " "))})
		}
		d.Pages = append(d.Pages, pg)
	}
	return d
}

func genLayout(r *hx.Rng) writers.Layout {
	return writers.Layout{
		EOL:        hx.Pick(r, []string{"\n", "\n", "\r\n", "\r"}),
		XrefStream: r.Bool(),
		ObjStm:     r.Chance(1, 3),
		LengthMode: r.Intn(3),
		Split:      r.Range(1, 4),
		SplitWS:    r.Bool(),
		Depth:      r.Intn(4),
		Revisions:  r.Intn(4),
		Shuffle:    r.Bool(),
		Filters:    r.Intn(4),
		BigPad:     hx.Pick(r, []int{0, 0, 0, 6000, 70000}),
		ParmsShape: r.Intn(2),
		Seed:       r.U64(),
	}
}

func boxStr(b []float64, err error) string {
	if err != nil || len(b) != 4 {
		return "-"
	}
	return fmt.Sprintf("%g.%g.%g.%g", b[0], b[1], b[2], b[3])
}

func resVariant(res core.Dict, err error, rd *reader.Reader) string {
	if err != nil || res == nil {
		return "-"
	}
	fonts, _ := rd.Resolve(res.Get("Font"))
	fd, ok := fonts.(core.Dict)
	if !ok {
		return "-"
	}
	f1, _ := rd.Resolve(fd.Get("F1"))
	d, ok := f1.(core.Dict)
	if !ok {
		return "-"
	}
	if n, ok := d.Get("Subtype").(core.Name); ok && string(n) == "Type1" {
		return "A"
	}
	return "B"
}

func runCase(c *hx.Ctx, k kase, tag string) {
	tr := &writers.Trace{}
	lay := k.Layout
	lay.Trace = tr // the writer records the abstract file; the bytes do not depend on it
	rend := writers.RenderPDF(k.Doc, lay)
	path := filepath.Join(c.OutDir, "c01-"+tag+".pdf")
	os.WriteFile(path, rend.Data, 0o644)
	defer os.Remove(path)
	var leafOut []string
	var pageTexts []string
	var samePos []string
	var count int
	var openErr, countErr error
	pageErrs := map[int]string{}
	if !c.Guard("C01", k, 20, func() {
		rd, err := reader.Open(path)
		if err != nil {
			openErr = err
			return
		}
		defer rd.Close()
		count, countErr = rd.PageCount()
		for i := 0; i < len(k.Doc.Pages); i++ {
			pg, err := rd.GetPage(i)
			if err != nil {
				leafOut = append(leafOut, "err")
				pageTexts = append(pageTexts, "")
				pageErrs[i] = err.Error()
				continue
			}
			res, rerr := pg.Resources()
			leafOut = append(leafOut, fmt.Sprintf("%s|%s|%d", boxStr(pg.MediaBox()), resVariant(res, rerr, rd), pg.Rotate()))
			frags, err := rd.ExtractTextFragments(pg)
			if err != nil {
				pageErrs[i] = err.Error()
			}
			var sb strings.Builder
			pos := map[[2]int]bool{}
			for _, f := range frags {
				sb.WriteString(f.Text)
				sb.WriteString("\n")
				// the key deduplicateFragments rounds positions to
				p := [2]int{int(f.X + 0.5), int(f.Y + 0.5)}
				if pos[p] {
					samePos = append(samePos, fmt.Sprintf("page %d (%d,%d)", i+1, p[0], p[1]))
				}
				pos[p] = true
			}
			pageTexts = append(pageTexts, sb.String())
		}
	}) {
		return
	}
	if !c.Check("C01/open", openErr == nil, k, func() string { return fmt.Sprint(openErr) }) {
		c.Case(fmt.Sprint(k), false)
		return
	}
	c.Op("c01.ptree "+writers.TreeSexpr(rend.Tree), fmt.Sprintf("n=%d %s", count, strings.Join(leafOut, ";")))
	readOp(c, k, tr, path)
	// every line is shown at a position of its own, so the position-keyed fragment
	// de-duplication (which the reader model does not have) cannot have removed anything
	c.Check("C01/distinct-positions", len(samePos) == 0, k, func() string {
		return "two fragments of one page at the same rounded position: " + strings.Join(samePos, "; ")
	})
	c.Check("C01/page-count", countErr == nil && count == len(k.Doc.Pages), k, func() string {
		return fmt.Sprintf("PageCount=%d (%v), document has %d page leaves", count, countErr, len(k.Doc.Pages))
	})
	for i, pg := range k.Doc.Pages {
		leaf := rend.Leaves[i]
		want := fmt.Sprintf("%d.%d.%d.%d|%s|%d", leaf.EffMB[0], leaf.EffMB[1], leaf.EffMB[2], leaf.EffMB[3], leaf.EffRes, leaf.EffRot)
		got := ""
		if i < len(leafOut) {
			got = leafOut[i]
		}
		c.Check("C01/inherited-attributes", got == want, k, func() string {
			return fmt.Sprintf("page %d: MediaBox|Resources|Rotate = %s, nearest definers give %s (%s)", i+1, got, want, pageErrs[i])
		})
		var exp strings.Builder
		for _, l := range pg.Lines {
			exp.WriteString(l.Text)
			exp.WriteString("\n")
		}
		gotText := ""
		if i < len(pageTexts) {
			gotText = pageTexts[i]
		}
		c.Check("C01/page-text", gotText == exp.String(), k, func() string {
			return fmt.Sprintf("page %d fragments %q want %q (%s)", i+1, gotText, exp.String(), pageErrs[i])
		})
	}
	// public API: all lines, page by page, in content order
	if c.Rng.Chance(1, 3) || tag == "replay" {
		var frs []string
		var apiErr error
		var n int
		if c.Guard("C01", k, 20, func() {
			ext := tabula.Open(path)
			n, _ = ext.PageCount()
			fr, _, err := ext.Fragments()
			apiErr = err
			for _, f := range fr {
				frs = append(frs, f.Text)
			}
		}) {
			var want []string
			for _, pg := range k.Doc.Pages {
				for _, l := range pg.Lines {
					want = append(want, l.Text)
				}
			}
			c.Check("C01/api-fragments", apiErr == nil && strings.Join(frs, "\n") == strings.Join(want, "\n"), k, func() string {
				return fmt.Sprintf("tabula.Open().Fragments() = %q (%v) want %q", frs, apiErr, want)
			})
			c.Check("C01/api-page-count", n == len(k.Doc.Pages), k, func() string {
				return fmt.Sprintf("tabula.Open().PageCount() = %d want %d", n, len(k.Doc.Pages))
			})
		}
	}
	c.Case(fmt.Sprint(k), true)
}

func Run(c *hx.Ctx) {
	c.Rep.Rule = "random logical documents (1-6 pages x 1-5 lines, Type1/WinAnsi and Type0/ToUnicode fonts, unique token per line) rendered by the harness PDF writer under random combinations of 12 physical-layout dimensions (xref kind, object streams, filter chains with predictors, /Length direct/indirect before/after, content split 1-4 with/without trailing white space, page-tree depth 0-3 with inheritable keys at random levels incl. decoy values overridden lower down, 0-3 incremental revisions with stale content, shuffled numbering/order, EOL, entry terminators, big streams); every case is non-trivial; distinct by (document, layout)"
	c.Rep.Rule += "; plus the bound cases of bounds.go: page trees of 1, 2, 9999, 10000, 10001 and 30000 levels (a list, and a spine with side leaves and inheritable keys at random levels), indirect /Kids arrays (one per node; shared; cyclic), page content of 64 MiB -1/+0/+1 in one, two or three streams, an empty stream after a full page, one 1 MiB stream named 63/64/5000 times, the deepest valid nesting of object loads and /Length chains of 15/16/17/200 streams, page objects and TJ operands nested 499/500/501/5000 deep; distribution printed as bound:*"
	c.Rep.Rule += "; plus the font cases of fonts.go: random documents whose 1-3 fonts are drawn from Type1 / TrueType / Type0 x code assignment (the bytes of /Encoding WinAnsi / MacRoman / Standard, written as a name or a dictionary; subset codes in order of first use, in Unicode order over whole alphabets, or scattered over the whole code space, for two fifths of the subset fonts with the first glyphs of every line numbered so that the shown string's bytes begin with FE FF / FF FE / EF BB BF - codes of the font, not a byte-order mark; identity; codes named by the /Differences of a Type1 / TrueType /Encoding dictionary through Adobe Glyph List names, optionally after a run naming the same codes otherwise and beside names outside the glyph list on unused codes) x ToUnicode form (none, all bfchar, all bfrange <lo> <hi> <dst>, array form, mixed; sections of 100; ligature and supplementary-plane destinations), under a layout of their own (xref kind, object streams, filter chains, /Length placement, inherited /Resources, literal/hex strings, split content, shuffled numbers, an update superseding stale ToUnicode / font / content objects); distribution printed as font:*"
	runBounds(c)
	runFonts(c)
	ndocs := c.N(60, 400)
	per := c.N(6, 30)
	for d := 0; d < ndocs; d++ {
		r := c.Rng.Fork(uint64(d))
		doc := genDoc(r, fmt.Sprintf("D%d", d))
		for l := 0; l < per; l++ {
			lay := genLayout(r)
			runCase(c, kase{Doc: doc, Layout: lay}, "r")
			c.Count(fmt.Sprintf("depth=%d", lay.Depth))
			c.Count(fmt.Sprintf("filters=%d", lay.Filters))
			c.Count(fmt.Sprintf("revisions=%d", lay.Revisions))
			c.Count(fmt.Sprintf("lengthmode=%d", lay.LengthMode))
			countLayout(c, lay)
		}
	}
}

func Replay(c *hx.Ctx, m map[string]interface{}) {
	if _, ok := m["bound"]; ok {
		var b bcase
		hx.Remarshal(m, &b)
		runBound(c, b)
		return
	}
	if _, ok := m["fontcase"]; ok {
		var f fcase
		hx.Remarshal(m, &f)
		runFontCase(c, f, "replay")
		return
	}
	var k kase
	hx.Remarshal(m, &k)
	runCase(c, k, "replay")
}
