package c01

// The `c01.readbytes` op: the BYTES of a file the writer produced go to the Lean reader model
// that starts from the bytes (ReadBytes.readBytes: header, startxref discovery, classic table
// or cross-reference stream, /Prev chain, N G obj framing, the /Length-driven read of stream
// data, object streams - C04's byte-level model - under Reader.readWith), together with zlib's
// and NFC's answers; tabula's side is what its public API reports for that file. Every
// generated document x layout of at most maxBytesOp bytes is sent whole; every third one is
// sent a second time after it was damaged (header, startxref, keywords, truncation): tabula
// and the model must still answer alike (mostly with an error).

import (
	"bytes"
	"hash/fnv"
	"os"
	"strings"

	"verifharness/hx"
	"verifharness/writers"
)

// scannedInflate: zlib's answer for every stream of the file whose data, as it stands between
// `stream` EOL and EOL `endstream`, begins like a zlib stream (the writer's trace does not
// record the cross-reference stream it compresses last); entries the table has are skipped.
func scannedInflate(data []byte, table string) string {
	have := map[string]bool{}
	if table != "_" {
		for _, e := range strings.Split(table, ";") {
			have[strings.SplitN(e, ">", 2)[0]] = true
		}
	}
	var parts []string
	pos := 0
	for {
		i := bytes.Index(data[pos:], []byte("stream"))
		if i < 0 {
			break
		}
		start := pos + i + len("stream")
		pos = start
		if i >= 3 && string(data[start-9:start-6]) == "end" {
			continue
		}
		if start < len(data) && data[start] == '\r' {
			start++
		}
		if start < len(data) && data[start] == '\n' {
			start++
		}
		j := bytes.Index(data[start:], []byte("endstream"))
		if j < 0 {
			break
		}
		raw := data[start : start+j]
		for cut := 0; cut <= 2 && cut <= len(raw); cut++ {
			cand := raw[:len(raw)-cut]
			if len(cand) < 2 || cand[0] != 0x78 || have[hx.Hex(cand)] {
				continue
			}
			out, ok := writers.Inflate(cand)
			o := "!"
			if ok {
				o = hx.Hex(out)
			}
			have[hx.Hex(cand)] = true
			parts = append(parts, hx.Hex(cand)+">"+o)
		}
	}
	if len(parts) == 0 {
		return table
	}
	if table == "_" {
		return strings.Join(parts, ";")
	}
	return table + ";" + strings.Join(parts, ";")
}

const maxBytesOp = 48 << 10

func sizeBucket(n int) string {
	switch {
	case n < 1<<10:
		return "<1K"
	case n < 4<<10:
		return "1K-4K"
	case n < 16<<10:
		return "4K-16K"
	default:
		return "16K-48K"
	}
}

// replaceAt replaces old by new (same length) at its k-th occurrence (0-based, modulo the count).
func replaceAt(data []byte, old, new string, k int) ([]byte, bool) {
	n := bytes.Count(data, []byte(old))
	if n == 0 {
		return nil, false
	}
	k %= n
	pos := 0
	for i := 0; ; i++ {
		j := bytes.Index(data[pos:], []byte(old))
		if i == k {
			out := append([]byte(nil), data...)
			copy(out[pos+j:], new)
			return out, true
		}
		pos += j + len(old)
	}
}

// damage returns a malformed variant of the file and what was done to it.
func damage(r *hx.Rng, data []byte) ([]byte, string) {
	for tries := 0; tries < 8; tries++ {
		switch r.Intn(8) {
		case 0:
			out := append([]byte(nil), data...)
			out[r.Intn(5)] ^= 0x20
			return out, "header-magic"
		case 1:
			out := append([]byte(nil), data...)
			out[5+r.Intn(3)] = "x-/ "[r.Intn(4)]
			return out, "header-version"
		case 2:
			if out, ok := replaceAt(data, "startxref", "startxrex", 1<<20); ok {
				return out, "startxref-keyword"
			}
		case 3:
			n := 1 + r.Intn(60)
			if n < len(data) {
				return append([]byte(nil), data[:len(data)-n]...), "truncated-tail"
			}
		case 4:
			if out, ok := replaceAt(data, " obj", " obk", r.Intn(1<<20)); ok {
				return out, "obj-keyword"
			}
		case 5:
			if out, ok := replaceAt(data, "endobj", "endobk", r.Intn(1<<20)); ok {
				return out, "endobj-keyword"
			}
		case 6:
			if out, ok := replaceAt(data, "/Root", "/Roo_", r.Intn(1<<20)); ok {
				return out, "root-key"
			}
		case 7:
			if out, ok := replaceAt(data, "/Kids", "/Kid_", r.Intn(1<<20)); ok {
				return out, "kids-key"
			}
		}
	}
	return append([]byte(nil), data[:len(data)/2]...), "cut-in-half"
}

// bytesOps emits c01.readbytes for the file at path (got = tabula's answer for it, in the
// format of c01.read) and, for every second file, for a damaged copy of it.
func bytesOps(c *hx.Ctx, k interface{}, path, infl, nfc, got string) {
	data, err := os.ReadFile(path)
	if err != nil {
		return
	}
	if len(data) > maxBytesOp {
		c.Count("bytes:skipped-larger-than-48K")
		return
	}
	h := fnv.New64a()
	h.Write(data)
	r := hx.NewRng(h.Sum64())
	// the thorough tier renders twenty times as many files: a third of them go to the model
	if c.Thorough() && !r.Chance(1, 3) {
		c.Count("bytes:not-sent (thorough tier sends one file in three)")
		return
	}
	infl = scannedInflate(data, infl)
	c.Op("c01.readbytes "+hx.Hex(data)+" "+infl+" "+nfc, got)
	c.Count("bytes:whole-file size=" + sizeBucket(len(data)))
	if got == "err" {
		c.Count("bytes:whole-file answer=err")
	} else {
		c.Count("bytes:whole-file answer=ok")
	}
	if !r.Chance(1, 3) {
		return
	}
	mut, kind := damage(r, data)
	mpath := path + ".damaged.pdf"
	if os.WriteFile(mpath, mut, 0o644) != nil {
		return
	}
	defer os.Remove(mpath)
	got2, ok := implRead(c, k, mpath)
	if !ok {
		return
	}
	// A damaged tail can make tabula read an older revision, whose stale content streams show
	// the marker STALE-CONTENT several times at one position; tabula's position-keyed fragment
	// de-duplication (not part of the reader model, see props/C01.json) then drops the repeats.
	if strings.Contains(got2, "53.54.41.4c.45.2d.43.4f.4e.54.45.4e.54") {
		c.Count("bytes:damaged not-compared=stale-revision-read")
		return
	}
	// A damaged font or resources dictionary makes the same bytes decode to other strings than
	// the document's; the NFC table holds x/text's answers for the document's strings only, and
	// the strings the model would have to normalise cannot be told from tabula's answer.
	if got2 != "err" && got2 != got {
		c.Count("bytes:damaged not-compared=decoded-otherwise (no NFC answers)")
		return
	}
	c.Op("c01.readbytes "+hx.Hex(mut)+" "+scannedInflate(mut, infl)+" "+nfc, got2)
	c.Count("bytes:damaged=" + kind)
	if got2 == "err" {
		c.Count("bytes:damaged answer=err")
	} else {
		c.Count("bytes:damaged answer=ok same-as-whole-file")
	}
}
