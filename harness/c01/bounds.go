package c01

// Generators that reach the resource bounds of the PDF reader from both sides
// (repairs 86b42aa, cd93b07, 36a165b, 129dd3d, a3fd154):
//
//   depth    page trees of 9999 / 10000 / 10001 / far more levels (limit 10000)
//   kids     /Kids written as indirect arrays: one per node (valid), shared by two nodes,
//            leading back into the tree through a direct node
//   content  decoded page content of 64 MiB - 1 / 64 MiB / 64 MiB + 1 / far more, in one
//            stream or several, or one stream named many times (limit 64 MiB)
//   loads    objects loaded inside each other: the deepest valid nesting (4) and /Length
//            chains of 15 / 16 / 17 / 200 streams (limit 16)
//   nest     arrays nested 499 / 500 / 501 / 5000 deep in a page object and in a page's
//            content (limit 500)
//
// Within a bound the oracles are those of the property text (page count, page texts in
// order, inherited attributes); beyond it: refused with an error, no crash, no hang.

import (
	"bytes"
	"fmt"
	"os"
	"path/filepath"
	"runtime"
	"strings"

	"github.com/tsawler/tabula"
	"github.com/tsawler/tabula/reader"

	"verifharness/hx"
	"verifharness/writers"
)

const (
	maxPageTreeDepth    = 10000    // pages/pages.go
	maxPageContentBytes = 64 << 20 // reader/reader.go
	maxNestedLoads      = 16       // reader/reader.go
	maxNestingDepth     = 500      // core/parser.go, contentstream/parser.go
)

// bcase is the replayable description of one bound case.
type bcase struct {
	Bound  string `json:"bound"` // depth | kids | content | loads | nest
	Shape  string `json:"shape"`
	N      int    `json:"n"`      // levels / mentions / chain length / nesting depth
	Parts  []int  `json:"parts"`  // content: decoded length of every stream
	Repeat int    `json:"repeat"` // content: how often the /Contents array names the streams
	Seed   uint64 `json:"seed"`
	// NoRead: depth cases only - the op c01.read is left out (the reader model looks every
	// object up in lists: a 10000-level file costs it several seconds), c01.ptree stays
	NoRead bool `json:"no_read"`
}

// bfile is a one-revision file written object by object with a classic table.
type bfile struct {
	p       *writers.PDF
	tr      *writers.Trace
	entries map[int]writers.XEntry
	maxNum  int
}

func newBFile() *bfile {
	tr := &writers.Trace{}
	p := writers.NewPDF("\n")
	p.Tr = tr
	return &bfile{p: p, tr: tr, entries: map[int]writers.XEntry{0: {Type: 0, F1: 0, F2: 65535}}}
}

func (b *bfile) note(num int, off int64) {
	b.entries[num] = writers.XEntry{Type: 1, F1: off}
	if num > b.maxNum {
		b.maxNum = num
	}
}

func (b *bfile) obj(num int, body string) { b.note(num, b.p.Obj(num, 0, body)) }

func (b *bfile) stream(num int, dict string, data []byte, lengthRef int) {
	b.note(num, b.p.Stream(num, dict, data, lengthRef))
}

// flate writes a FlateDecode stream of plain and records zlib's pair for the model.
func (b *bfile) flate(num int, plain []byte) {
	enc := writers.Deflate(plain)
	b.tr.Inflate = append(b.tr.Inflate, writers.InflatePair{In: enc, Out: plain})
	b.stream(num, "/Filter /FlateDecode", enc, 0)
}

func (b *bfile) finish(root int) []byte {
	b.p.XrefTable(b.entries, fmt.Sprintf("/Root %d 0 R /Size %d", root, b.maxNum+1), -1, " \n")
	return b.p.Buf.Bytes()
}

const (
	fontA = "<< /Type /Font /Subtype /Type1 /BaseFont /Helvetica /Encoding /WinAnsiEncoding >>"
	fontB = "<< /Type /Font /Subtype /TrueType /BaseFont /Arial /Encoding /WinAnsiEncoding >>"
)

func pageProgram(text string) string {
	return fmt.Sprintf("BT /F1 12 Tf 72 720 Td (%s) Tj ET", text)
}

// asDoc is the logical document of a bound case (one line per page, font 0).
func asDoc(texts []string) writers.LDoc {
	var d writers.LDoc
	for _, t := range texts {
		d.Pages = append(d.Pages, writers.LPage{Lines: []writers.LLine{{Font: 0, Text: t}}})
	}
	return d
}

// readAll is tabula's answer through the public API in the format of the op c01.read,
// and the error (if any) that refused the file or a page.
func readAll(c *hx.Ctx, k bcase, path string, seconds int) (out string, firstErr error, ok bool) {
	out = "err"
	ok = c.Guard("C01", k, seconds, func() {
		ext := tabula.Open(path)
		n, err := ext.PageCount()
		ext.Close()
		if err != nil {
			firstErr = err
			return
		}
		var pgs []string
		for i := 1; i <= n; i++ {
			frs, _, err := tabula.Open(path).Pages(i).Fragments()
			if err != nil {
				firstErr = err
				return
			}
			var ss []string
			for _, f := range frs {
				ss = append(ss, scalars(f.Text, "."))
			}
			if len(ss) == 0 {
				pgs = append(pgs, "~")
			} else {
				pgs = append(pgs, strings.Join(ss, ","))
			}
		}
		body := "-"
		if len(pgs) > 0 {
			body = strings.Join(pgs, "|")
		}
		out = fmt.Sprintf("ok n=%d %s", n, body)
	})
	return
}

// wantRead is the op-format answer for a document read in full.
func wantRead(texts []string) string {
	var pgs []string
	for _, t := range texts {
		pgs = append(pgs, scalars(t, "."))
	}
	body := "-"
	if len(pgs) > 0 {
		body = strings.Join(pgs, "|")
	}
	return fmt.Sprintf("ok n=%d %s", len(texts), body)
}

func writeTmp(c *hx.Ctx, name string, data []byte) string {
	path := filepath.Join(c.OutDir, name)
	os.WriteFile(path, data, 0o644)
	return path
}

// ---------------------------------------------------------------------------------------
// depth: the page tree is traversed at most 10000 levels deep (86b42aa)
// ---------------------------------------------------------------------------------------

// deepTree builds a page tree with exactly `levels` levels: a spine of /Pages nodes with the
// deepest leaf at its end; shape "list" has nothing else, shape "bushy" hangs further leaves
// (before and after the spine's kid) and inheritable attributes at random levels of the spine,
// so that pages lie left and right of the deep branch and definers lie far above their leaves.
func deepTree(r *hx.Rng, levels int, shape string) (root *writers.PNode, leaves []*writers.PNode) {
	boxes := [][4]int{{0, 0, 612, 792}, {0, 0, 595, 842}, {10, 20, 410, 620}}
	page := 0
	// positions (levels of the spine, 0 = root) that get side leaves / attributes
	special := map[int]bool{}
	if shape == "bushy" {
		for i := 0; i < 6; i++ {
			special[r.Intn(max(levels-1, 1))] = true
		}
		special[max(levels-2, 0)] = true // a sibling of the deepest leaf
	}
	b0 := boxes[0]
	root = &writers.PNode{MB: &b0, Res: "A"}
	if levels == 1 {
		root.Leaf = true
	}
	cur := root
	var spine []*writers.PNode
	spine = append(spine, root)
	for lv := 1; lv < levels; lv++ {
		n := &writers.PNode{}
		if lv == levels-1 {
			n.Leaf = true
		}
		cur.Kids = append(cur.Kids, n)
		spine = append(spine, n)
		cur = n
	}
	for lv, n := range spine {
		if n.Leaf || !special[lv] {
			continue
		}
		if lv > 0 {
			switch r.Intn(4) {
			case 0:
				b := hx.Pick(r, boxes)
				n.MB = &b
			case 1:
				n.Res = hx.Pick(r, []string{"A", "B"})
			case 2:
				v := hx.Pick(r, []int{0, 90, 180, 270})
				n.Rot = &v
			}
		}
		side := &writers.PNode{Leaf: true}
		if r.Bool() {
			n.Kids = append([]*writers.PNode{side}, n.Kids...)
		} else {
			n.Kids = append(n.Kids, side)
		}
	}
	// effective attributes and page order, left to right (iteratively: the tree is deep)
	type st struct {
		n   *writers.PNode
		mb  *[4]int
		res string
		rot int
	}
	stack := []st{{root, nil, "", 0}}
	for len(stack) > 0 {
		f := stack[len(stack)-1]
		stack = stack[:len(stack)-1]
		n := f.n
		if n.MB != nil {
			f.mb = n.MB
		}
		if n.Res != "" {
			f.res = n.Res
		}
		if n.Rot != nil {
			f.rot = *n.Rot
		}
		if n.Leaf {
			n.Page = page
			page++
			n.EffMB, n.EffRes, n.EffRot = f.mb, f.res, f.rot
			leaves = append(leaves, n)
			continue
		}
		for i := len(n.Kids) - 1; i >= 0; i-- {
			stack = append(stack, st{n.Kids[i], f.mb, f.res, f.rot})
		}
	}
	return root, leaves
}

// sexpr is writers.TreeSexpr without recursion per level of the spine being a problem for
// the reader of this code: Go's stack grows, so the recursive writer is used as it is.
func writeDeepFile(root *writers.PNode, leaves []*writers.PNode, texts []string) (*bfile, []byte) {
	b := newBFile()
	b.obj(2, fontA)
	b.obj(3, fontB)
	next := 5
	nums := map[*writers.PNode]int{}
	var assign func(n *writers.PNode)
	assign = func(n *writers.PNode) {
		nums[n] = next
		next++
		for _, k := range n.Kids {
			assign(k)
		}
	}
	assign(root)
	cont := map[*writers.PNode]int{}
	for _, l := range leaves {
		cont[l] = next
		next++
	}
	attrs := func(n *writers.PNode) string {
		s := ""
		if n.MB != nil {
			s += fmt.Sprintf(" /MediaBox [%d %d %d %d]", n.MB[0], n.MB[1], n.MB[2], n.MB[3])
		}
		if n.Res == "A" {
			s += " /Resources << /Font << /F1 2 0 R >> >>"
		} else if n.Res == "B" {
			s += " /Resources << /Font << /F1 3 0 R >> >>"
		}
		if n.Rot != nil {
			s += fmt.Sprintf(" /Rotate %d", *n.Rot)
		}
		return s
	}
	var count func(n *writers.PNode) int
	count = func(n *writers.PNode) int {
		if n.Leaf {
			return 1
		}
		t := 0
		for _, k := range n.Kids {
			t += count(k)
		}
		return t
	}
	var emit func(n, parent *writers.PNode)
	emit = func(n, parent *writers.PNode) {
		par := ""
		if parent != nil {
			par = fmt.Sprintf(" /Parent %d 0 R", nums[parent])
		}
		if n.Leaf {
			b.obj(nums[n], fmt.Sprintf("<< /Type /Page%s%s /Contents %d 0 R >>", par, attrs(n), cont[n]))
			return
		}
		var kids []string
		for _, k := range n.Kids {
			kids = append(kids, fmt.Sprintf("%d 0 R", nums[k]))
		}
		// /Count of a deep spine: computed once at the root, 1 is written below (tabula and
		// the model only look at the root's /Count, and only at its type)
		cnt := 1
		if parent == nil {
			cnt = count(n)
		}
		b.obj(nums[n], fmt.Sprintf("<< /Type /Pages%s /Kids [%s] /Count %d%s >>", par, strings.Join(kids, " "), cnt, attrs(n)))
		for _, k := range n.Kids {
			emit(k, n)
		}
	}
	emit(root, nil)
	for _, l := range leaves {
		b.stream(cont[l], "", []byte(pageProgram(texts[l.Page])), 0)
	}
	b.obj(1, fmt.Sprintf("<< /Type /Catalog /Pages %d 0 R >>", nums[root]))
	return b, b.finish(1)
}

func runDepth(c *hx.Ctx, k bcase, withRead bool) {
	r := hx.NewRng(k.Seed)
	root, leaves := deepTree(r, k.N, k.Shape)
	texts := make([]string, len(leaves))
	for i := range texts {
		texts[i] = fmt.Sprintf("deep%d page%d", k.N, i+1)
	}
	b, data := writeDeepFile(root, leaves, texts)
	path := writeTmp(c, "c01-depth.pdf", data)
	defer os.Remove(path)
	within := k.N <= maxPageTreeDepth
	c.Count(fmt.Sprintf("bound:depth levels=%d shape=%s", k.N, k.Shape))

	// the page-tree op: page count and effective attributes of every leaf
	var count int
	var countErr, openErr error
	var leafOut []string
	if !c.Guard("C01", k, 60, func() {
		rd, err := reader.Open(path)
		if err != nil {
			openErr = err
			return
		}
		defer rd.Close()
		count, countErr = rd.PageCount()
		if countErr != nil {
			return
		}
		for i := 0; i < count; i++ {
			pg, err := rd.GetPage(i)
			if err != nil {
				leafOut = append(leafOut, "err")
				continue
			}
			res, rerr := pg.Resources()
			leafOut = append(leafOut, fmt.Sprintf("%s|%s|%d", boxStr(pg.MediaBox()), resVariant(res, rerr, rd), pg.Rotate()))
		}
	}) {
		c.Case(fmt.Sprint(k), false)
		return
	}
	if !c.Check("C01/bound-open", openErr == nil, k, func() string { return fmt.Sprint(openErr) }) {
		c.Case(fmt.Sprint(k), false)
		return
	}
	implTree := "err"
	if countErr == nil {
		implTree = fmt.Sprintf("n=%d %s", count, strings.Join(leafOut, ";"))
	}
	// the Lean driver parses the tree expression recursively: far beyond the limit only the
	// oracles run
	withOps := k.N <= 3*maxPageTreeDepth
	if withOps {
		c.Op("c01.ptree "+writers.TreeSexpr(root), implTree)
	}

	got, rerr, ok := readAll(c, k, path, 120)
	if !ok {
		c.Case(fmt.Sprint(k), false)
		return
	}
	if withRead && withOps {
		c.Op("c01.read "+absFileFields(b.tr)+" _ "+nfcTable(asDoc(texts)), got)
	}
	if within {
		// statement level: every page of the logical document, in order, with the attributes
		// of its nearest definers - however deep the tree
		c.Check("C01/deep-tree-page-count", countErr == nil && count == len(leaves), k, func() string {
			return fmt.Sprintf("a page tree of %d levels (limit %d): PageCount=%d (%v), the tree has %d leaves", k.N, maxPageTreeDepth, count, countErr, len(leaves))
		})
		for i, l := range leaves {
			want := fmt.Sprintf("%d.%d.%d.%d|%s|%d", l.EffMB[0], l.EffMB[1], l.EffMB[2], l.EffMB[3], l.EffRes, l.EffRot)
			g := ""
			if i < len(leafOut) {
				g = leafOut[i]
			}
			c.Check("C01/deep-tree-inherited-attributes", g == want, k, func() string {
				return fmt.Sprintf("page %d of a %d-level tree: MediaBox|Resources|Rotate = %s, nearest definers give %s", i+1, k.N, g, want)
			})
		}
		c.Check("C01/deep-tree-page-text", got == wantRead(texts), k, func() string {
			return fmt.Sprintf("a %d-level tree read as %.300q (%v), want %.300q", k.N, got, rerr, wantRead(texts))
		})
	} else {
		c.Check("C01/deep-tree-refused", countErr != nil && got == "err", k, func() string {
			return fmt.Sprintf("a page tree of %d levels (limit %d) must be refused with an error: PageCount=%d (%v), read %.200q", k.N, maxPageTreeDepth, count, countErr, got)
		})
	}
	c.Case(fmt.Sprint(k), within)
}

// ---------------------------------------------------------------------------------------
// kids: an indirect /Kids array is traversed once (cd93b07)
// ---------------------------------------------------------------------------------------

func runKids(c *hx.Ctx, k bcase) {
	r := hx.NewRng(k.Seed)
	b := newBFile()
	b.obj(2, fontA)
	res := " /Resources << /Font << /F1 2 0 R >> >> /MediaBox [0 0 612 792]"
	var texts []string
	valid := true
	modelled := true
	switch k.Shape {
	case "own":
		// every /Pages node has an indirect /Kids array of its own: root -> two nodes -> leaves
		np := r.Range(1, 3)
		nq := r.Range(1, 3)
		num := 20
		var kidsP, kidsQ []string
		for i := 0; i < np+nq; i++ {
			t := fmt.Sprintf("own kids page%d", i+1)
			texts = append(texts, t)
			parent := 5
			if i >= np {
				parent = 6
			}
			b.obj(num, fmt.Sprintf("<< /Type /Page /Parent %d 0 R /Contents %d 0 R >>", parent, num+1))
			b.stream(num+1, "", []byte(pageProgram(t)), 0)
			if i < np {
				kidsP = append(kidsP, fmt.Sprintf("%d 0 R", num))
			} else {
				kidsQ = append(kidsQ, fmt.Sprintf("%d 0 R", num))
			}
			num += 2
		}
		b.obj(4, fmt.Sprintf("<< /Type /Pages /Kids 7 0 R /Count %d%s >>", np+nq, res))
		b.obj(7, "[5 0 R 6 0 R]")
		b.obj(5, fmt.Sprintf("<< /Type /Pages /Parent 4 0 R /Kids 8 0 R /Count %d >>", np))
		b.obj(8, "["+strings.Join(kidsP, " ")+"]")
		b.obj(6, fmt.Sprintf("<< /Type /Pages /Parent 4 0 R /Kids 9 0 R /Count %d >>", nq))
		b.obj(9, "["+strings.Join(kidsQ, " ")+"]")
	case "shared-empty", "shared-leaf":
		// two /Pages nodes name the same indirect /Kids array
		valid = false
		b.obj(4, "<< /Type /Pages /Kids [5 0 R 6 0 R] /Count 0"+res+" >>")
		b.obj(5, "<< /Type /Pages /Parent 4 0 R /Kids 8 0 R /Count 0 >>")
		b.obj(6, "<< /Type /Pages /Parent 4 0 R /Kids 8 0 R /Count 0 >>")
		if k.Shape == "shared-empty" {
			b.obj(8, "[]")
		} else {
			b.obj(8, "[20 0 R]")
			b.obj(20, "<< /Type /Page /Parent 5 0 R /Contents 21 0 R >>")
			b.stream(21, "", []byte(pageProgram("shared leaf")), 0)
		}
	case "cycle-direct":
		// the witness of cd93b07: a direct /Pages node inside an indirect /Kids array that
		// leads back to the array (direct nodes are outside the reader model: oracle only)
		valid, modelled = false, false
		b.obj(4, "<< /Type /Pages /Kids 8 0 R /Count 1"+res+" >>")
		b.obj(8, "[ << /Type /Pages /Kids 8 0 R /Count 1 >> ]")
	case "kids-is-node":
		// /Kids names the node itself (a visited number that is not an array)
		valid = false
		b.obj(4, "<< /Type /Pages /Kids 4 0 R /Count 1"+res+" >>")
	}
	b.obj(1, "<< /Type /Catalog /Pages 4 0 R >>")
	data := b.finish(1)
	path := writeTmp(c, "c01-kids.pdf", data)
	defer os.Remove(path)
	c.Count("bound:kids shape=" + k.Shape)
	got, rerr, ok := readAll(c, k, path, 30)
	if !ok {
		c.Case(fmt.Sprint(k), false)
		return
	}
	if modelled {
		c.Op("c01.read "+absFileFields(b.tr)+" _ "+nfcTable(asDoc(append(texts, "shared leaf"))), got)
	}
	if valid {
		c.Check("C01/indirect-kids-page-text", got == wantRead(texts), k, func() string {
			return fmt.Sprintf("every /Kids an indirect array of its own: read %.300q (%v), want %.300q", got, rerr, wantRead(texts))
		})
	} else {
		c.Check("C01/kids-array-twice-refused", got == "err", k, func() string {
			return fmt.Sprintf("a /Kids array reachable twice (%s) must be refused with an error: read %.200q", k.Shape, got)
		})
	}
	c.Case(fmt.Sprint(k), valid)
}

// ---------------------------------------------------------------------------------------
// content: the decoded content of one page is limited to 64 MiB (36a165b)
// ---------------------------------------------------------------------------------------

// contentPart is a decoded content stream of exactly n bytes: the first non-empty part starts
// with the page's program, the rest is white space (legal anywhere between tokens).
func contentPart(n int, program string) []byte {
	if n == 0 {
		return nil
	}
	out := bytes.Repeat([]byte{' '}, n)
	if len(program) <= n {
		copy(out, program)
	}
	for i := 4095; i < n; i += 4096 {
		if out[i] == ' ' {
			out[i] = '\n'
		}
	}
	return out
}

// fitsLoop is the statement-level reading of the repair's commit message: "The content of a
// page may now be at most 64 MiB" - the parts and the one-byte separators tabula puts after
// the non-empty ones, as they accumulate; used for the oracle's expectation only (the model's
// own answer comes from Lean through the op c01.joinfit).
func contentFits(lens []int) bool {
	n := 0
	for _, l := range lens {
		if n+l > maxPageContentBytes {
			return false
		}
		n += l
		if l > 0 {
			n++
		}
	}
	return true
}

func runContent(c *hx.Ctx, k bcase) {
	text := "big content page"
	program := pageProgram(text) + "\n"
	b := newBFile()
	b.obj(2, fontA)
	var refs []string
	var lens []int
	first := true
	num := 10
	for _, n := range k.Parts {
		prog := ""
		if first && n >= len(program) {
			prog = program
			first = false
		}
		enc := writers.Deflate(contentPart(n, prog))
		b.stream(num, "/Filter /FlateDecode", enc, 0)
		refs = append(refs, fmt.Sprintf("%d 0 R", num))
		num++
	}
	var all []string
	rep := max(k.Repeat, 1)
	for i := 0; i < rep; i++ {
		all = append(all, refs...)
		lens = append(lens, k.Parts...)
	}
	contents := "[" + strings.Join(all, " ") + "]"
	if len(all) == 1 && k.Seed%2 == 0 {
		contents = all[0]
	}
	// a second, small page after the big one: refusing the big page must not damage it
	b.stream(8, "", []byte(pageProgram("small page")), 0)
	b.obj(5, "<< /Type /Page /Parent 4 0 R /Contents "+contents+" >>")
	b.obj(6, "<< /Type /Page /Parent 4 0 R /Contents 8 0 R >>")
	b.obj(4, "<< /Type /Pages /Kids [5 0 R 6 0 R] /Count 2 /Resources << /Font << /F1 2 0 R >> >> /MediaBox [0 0 612 792] >>")
	b.obj(1, "<< /Type /Catalog /Pages 4 0 R >>")
	path := writeTmp(c, "c01-content.pdf", b.finish(1))
	defer os.Remove(path)
	total := 0
	for _, l := range lens {
		total += l
	}
	c.Count(fmt.Sprintf("bound:content shape=%s bytes=%s fits=%v", k.Shape, sizeClass(total), contentFits(lens)))

	var out1, out2 string
	var err1, err2 error
	var heap uint64
	if !c.Guard("C01", k, 120, func() {
		ext := tabula.Open(path)
		defer ext.Close()
		frs, _, err := ext.Pages(1).Fragments()
		err1 = err
		var ss []string
		for _, f := range frs {
			ss = append(ss, f.Text)
		}
		out1 = strings.Join(ss, "\n")
		var ms runtime.MemStats
		runtime.ReadMemStats(&ms)
		heap = ms.HeapInuse
		frs2, _, err := tabula.Open(path).Pages(2).Fragments()
		err2 = err
		ss = nil
		for _, f := range frs2 {
			ss = append(ss, f.Text)
		}
		out2 = strings.Join(ss, "\n")
	}) {
		c.Case(fmt.Sprint(k), false)
		return
	}
	runtime.GC()
	var lensS []string
	for _, l := range lens {
		lensS = append(lensS, fmt.Sprint(l))
	}
	lf := "-"
	if len(lensS) > 0 {
		lf = strings.Join(lensS, ",")
	}
	impl := "ok"
	if err1 != nil {
		impl = "err"
	}
	c.Op("c01.joinfit "+lf, impl)
	fits := contentFits(lens)
	if fits {
		want := text
		if first { // no part was large enough to hold the program: an empty page
			want = ""
		}
		c.Check("C01/big-content-page-text", err1 == nil && out1 == want, k, func() string {
			return fmt.Sprintf("a page with %d bytes of content in %d streams (limit %d): fragments %.100q (%v), want %q", total, len(lens), maxPageContentBytes, out1, err1, want)
		})
	} else {
		c.Check("C01/big-content-refused", err1 != nil && out1 == "", k, func() string {
			return fmt.Sprintf("a page with %d bytes of content in %d streams (limit %d) must be refused with an error: fragments %.100q (%v)", total, len(lens), maxPageContentBytes, out1, err1)
		})
		c.Check("C01/big-content-memory", heap < 1<<30, k, func() string {
			return fmt.Sprintf("refusing %d bytes of content left %d MiB of heap in use", total, heap>>20)
		})
	}
	c.Check("C01/big-content-other-page", err2 == nil && out2 == "small page", k, func() string {
		return fmt.Sprintf("the page after the big one: fragments %.100q (%v), want %q", out2, err2, "small page")
	})
	c.Case(fmt.Sprint(k), fits)
}

func sizeClass(total int) string {
	switch {
	case total < maxPageContentBytes-1:
		return "<limit-1"
	case total == maxPageContentBytes-1:
		return "limit-1"
	case total == maxPageContentBytes:
		return "limit"
	case total == maxPageContentBytes+1:
		return "limit+1"
	case total < 2*maxPageContentBytes:
		return "<2*limit"
	default:
		return "far-beyond"
	}
}

// ---------------------------------------------------------------------------------------
// loads: objects being loaded inside each other are limited to 16 (129dd3d)
// ---------------------------------------------------------------------------------------

func runLoads(c *hx.Ctx, k bcase) {
	b := newBFile()
	b.obj(2, fontA)
	text := "nested loads page"
	prog := []byte(pageProgram(text))
	valid := true
	switch k.Shape {
	case "valid-4":
		// the deepest nesting a valid file can have: content stream 10 -> its /Length 11, a
		// member of object stream 12 -> the object stream's own /Length 13 (which ISO 32000-1
		// 7.5.7 keeps out of object streams)
		b.stream(10, "", prog, 11)
		head := "11 0 "
		body := fmt.Sprint(len(prog)) + " "
		data := []byte(head + body)
		b.stream(12, fmt.Sprintf("/Type /ObjStm /N 1 /First %d", len(head)), data, 13)
		b.entries[11] = writers.XEntry{Type: 2, F1: 12, F2: 0}
		b.obj(13, fmt.Sprint(len(data)))
	case "length-chain":
		// not a valid file: the /Length of stream i is stream i+1 (never an integer); a chain
		// of N streams needs N loads inside each other
		valid = false
		for i := 0; i < k.N; i++ {
			ref := 10 + i + 1
			if i == k.N-1 {
				b.stream(10+i, "", prog, 0)
			} else {
				b.stream(10+i, "", prog, ref)
			}
		}
	}
	b.obj(5, "<< /Type /Page /Parent 4 0 R /Contents 10 0 R >>")
	b.obj(4, "<< /Type /Pages /Kids [5 0 R] /Count 1 /Resources << /Font << /F1 2 0 R >> >> /MediaBox [0 0 612 792] >>")
	b.obj(1, "<< /Type /Catalog /Pages 4 0 R >>")
	// the object stream needs a cross-reference stream to be addressable (type 2 entries)
	var data []byte
	if k.Shape == "valid-4" {
		b.entries[14] = writers.XEntry{}
		b.p.XrefStream(14, b.entries, "/Root 1 0 R", -1, [3]int{1, 4, 2}, false, 0, 20)
		data = b.p.Buf.Bytes()
	} else {
		data = b.finish(1)
	}
	path := writeTmp(c, "c01-loads.pdf", data)
	defer os.Remove(path)
	c.Count(fmt.Sprintf("bound:loads shape=%s n=%d", k.Shape, k.N))
	got, rerr, ok := readAll(c, k, path, 60)
	if !ok {
		c.Case(fmt.Sprint(k), false)
		return
	}
	if valid {
		c.Check("C01/nested-loads-page-text", got == wantRead([]string{text}), k, func() string {
			return fmt.Sprintf("content stream -> /Length in an object stream -> its indirect /Length (4 loads, limit %d): read %.200q (%v), want %.200q", maxNestedLoads, got, rerr, wantRead([]string{text}))
		})
	} else {
		c.Check("C01/length-chain-refused", got == "err", k, func() string {
			return fmt.Sprintf("a /Length chain of %d streams (limit %d loads) must be refused with an error: read %.200q", k.N, maxNestedLoads, got)
		})
	}
	c.Case(fmt.Sprint(k), valid)
}

// ---------------------------------------------------------------------------------------
// nest: arrays and dictionaries may nest at most 500 deep in both parsers (a3fd154)
// ---------------------------------------------------------------------------------------

func nested(n int, inner string) string {
	return strings.Repeat("[", n) + inner + strings.Repeat("]", n)
}

func runNest(c *hx.Ctx, k bcase) {
	b := newBFile()
	b.obj(2, fontA)
	text := "nesting page"
	leafExtra, content := "", pageProgram(text)
	depth := k.N // total nesting depth of the deepest object / operand
	switch k.Shape {
	case "object":
		// the page dictionary is one level itself: N-1 arrays inside it
		leafExtra = " /VerifDeep " + nested(k.N-1, "0")
	case "operand":
		// an operand of a TJ operation: N arrays (non-strings inside TJ show nothing)
		content = "BT /F1 12 Tf 72 720 Td (" + text + ") Tj " + nested(k.N, "0") + " TJ ET"
	}
	b.stream(10, "", []byte(content), 0)
	b.obj(5, "<< /Type /Page /Parent 4 0 R /Contents 10 0 R"+leafExtra+" >>")
	b.obj(4, "<< /Type /Pages /Kids [5 0 R] /Count 1 /Resources << /Font << /F1 2 0 R >> >> /MediaBox [0 0 612 792] >>")
	b.obj(1, "<< /Type /Catalog /Pages 4 0 R >>")
	path := writeTmp(c, "c01-nest.pdf", b.finish(1))
	defer os.Remove(path)
	within := depth <= maxNestingDepth
	c.Count(fmt.Sprintf("bound:nest shape=%s depth=%d", k.Shape, k.N))
	got, rerr, ok := readAll(c, k, path, 60)
	if !ok {
		c.Case(fmt.Sprint(k), false)
		return
	}
	c.Op("c01.read "+absFileFields(b.tr)+" _ "+nfcTable(asDoc([]string{text})), got)
	if within {
		c.Check("C01/nested-object-page-text", got == wantRead([]string{text}), k, func() string {
			return fmt.Sprintf("%s nested %d deep (limit %d): read %.200q (%v), want %.200q", k.Shape, k.N, maxNestingDepth, got, rerr, wantRead([]string{text}))
		})
	} else {
		c.Check("C01/nested-object-refused", got == "err", k, func() string {
			return fmt.Sprintf("%s nested %d deep (limit %d) must be refused with an error: read %.200q", k.Shape, k.N, maxNestingDepth, got)
		})
	}
	c.Case(fmt.Sprint(k), within)
}

// ---------------------------------------------------------------------------------------

func runBound(c *hx.Ctx, k bcase) {
	c.Current(k)
	switch k.Bound {
	case "depth":
		runDepth(c, k, !k.NoRead)
	case "kids":
		runKids(c, k)
	case "content":
		runContent(c, k)
	case "loads":
		runLoads(c, k)
	case "nest":
		runNest(c, k)
	}
}

// runBounds generates the bound cases of one run.
func runBounds(c *hx.Ctx) {
	r := c.Rng.Fork(0xB0D5)
	M := maxPageContentBytes
	// depth: both sides of the limit once per shape, far beyond once
	// (the quick tier sends the whole file to the reader model once on each side of the limit)
	for _, lv := range []int{2, maxPageTreeDepth - 1, maxPageTreeDepth, maxPageTreeDepth + 1, 3 * maxPageTreeDepth} {
		shapes := []string{"list", "bushy"}
		if lv < 3 {
			shapes = []string{"list"}
		}
		for _, sh := range shapes {
			read := c.Thorough() || lv < 3 || (lv == maxPageTreeDepth && sh == "list") || (lv == maxPageTreeDepth+1 && sh == "bushy")
			if lv == 3*maxPageTreeDepth && sh == "list" && !c.Thorough() {
				continue
			}
			runBound(c, bcase{Bound: "depth", Shape: sh, N: lv, Seed: r.U64(), NoRead: !read})
		}
	}
	if c.Thorough() {
		for i := 0; i < 6; i++ {
			lv := maxPageTreeDepth - 3 + r.Intn(7)
			runBound(c, bcase{Bound: "depth", Shape: "bushy", N: lv, Seed: r.U64()})
		}
		runBound(c, bcase{Bound: "depth", Shape: "list", N: 40 * maxPageTreeDepth, Seed: r.U64()})
	}
	// kids
	for _, sh := range []string{"own", "own", "shared-empty", "shared-leaf", "cycle-direct", "kids-is-node"} {
		runBound(c, bcase{Bound: "kids", Shape: sh, Seed: r.U64()})
	}
	// content: one stream at the edge, several streams at the edge, one stream named often
	a := 1000 + r.Intn(M/2)
	cases := []bcase{
		{Shape: "one", Parts: []int{M - 1}},
		{Shape: "one", Parts: []int{M}},
		{Shape: "one", Parts: []int{M + 1}},
		{Shape: "two", Parts: []int{a, M - a - 1}},   // joined: a+1+(M-a-1) = M: the last part is accepted at n+len = M
		{Shape: "two", Parts: []int{a, M - a}},       // n+len = M+1: refused
		{Shape: "then-empty", Parts: []int{M, 0}},    // the empty part is checked against 64 MiB + 1 bytes
		{Shape: "then-empty", Parts: []int{M - 1, 0}}, // accepted
		{Shape: "repeat", Parts: []int{1 << 20}, Repeat: 63},   // 63 * (1 MiB + 1) < 64 MiB
		{Shape: "repeat", Parts: []int{1 << 20}, Repeat: 64},   // the 64th mention does not fit any more
		{Shape: "repeat", Parts: []int{1 << 20}, Repeat: 5000}, // the commit's witness: 5 GB
	}
	if c.Thorough() {
		for i := 0; i < 8; i++ {
			x := 1 + r.Intn(M-2)
			d := r.Intn(5) - 2
			cases = append(cases, bcase{Shape: "two", Parts: []int{x, max(M-x-1+d, 0)}})
		}
		for i := 0; i < 4; i++ {
			x, y := 1+r.Intn(M/3), 1+r.Intn(M/3)
			d := r.Intn(5) - 2
			cases = append(cases, bcase{Shape: "three", Parts: []int{x, y, max(M-x-y-2+d, 0)}})
		}
		cases = append(cases, bcase{Shape: "one", Parts: []int{3 * M}})
	}
	for _, k := range cases {
		k.Bound, k.Seed = "content", r.U64()
		runBound(c, k)
	}
	// loads
	runBound(c, bcase{Bound: "loads", Shape: "valid-4", Seed: r.U64()})
	for _, n := range []int{maxNestedLoads - 1, maxNestedLoads, maxNestedLoads + 1, 200} {
		runBound(c, bcase{Bound: "loads", Shape: "length-chain", N: n, Seed: r.U64()})
	}
	// nest
	for _, sh := range []string{"object", "operand"} {
		for _, n := range []int{maxNestingDepth - 1, maxNestingDepth, maxNestingDepth + 1, 10 * maxNestingDepth} {
			runBound(c, bcase{Bound: "nest", Shape: sh, N: n, Seed: r.U64()})
		}
	}
}
