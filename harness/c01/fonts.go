package c01

// The "fonts" dimension of the logical document (pages x lines x FONTS).
//
// The property says the text is reported "with exactly the Unicode the page's fonts define".
// A font defines the Unicode of its codes in one of two ways (ISO 32000-1 9.10.2): through a
// /ToUnicode CMap (whatever /Encoding says), else - for a simple font - through its
// /Encoding. The generator of c01.go has two fixed fonts (Type1/WinAnsi without ToUnicode,
// Type0/Identity-H with an all-bfchar ToUnicode). Here the fonts are part of the random
// logical document:
//
//   kind      Type1 | TrueType | Type0 (descendant CIDFontType0 / CIDFontType2)
//   codes     enc       a simple font whose codes are the bytes of its /Encoding
//             first     a subset font: codes handed out from a base in order of first use
//             sorted    a subset font: codes handed out from a base in Unicode order of the
//                       glyph repertoire (which may hold the whole alphabets the text touches,
//                       so that real multi-code runs exist)
//             identity  Type0 only: code = UTF-16 value of the (BMP) character
//             scatter   a subset font whose codes are arbitrary distinct codes of the whole code
//                       space (1..255 / 1..65535): what a producer that numbers glyphs by its
//                       own glyph ids leaves behind; needs a ToUnicode CMap
//             diff      Type1 or TrueType: codes handed out from a base, every one named in the
//                       /Differences array of the /Encoding dictionary by its Adobe Glyph List
//                       name (the custom encodings TeX and subsetters write); optionally the
//                       array first names some of those codes otherwise (a later run naming a
//                       code again decides, ISO 32000-1 9.6.6.1) and names codes the text does
//                       not use by names outside the Adobe Glyph List
//   encoding  simple fonts: WinAnsiEncoding | MacRomanEncoding | absent (Type1: Standard),
//             as a name or as an /Encoding dictionary with /BaseEncoding; with remapped codes
//             the /Encoding is what a subsetter leaves behind and does NOT give the text
//   tounicode none (codes = enc only) | bfchar | bfrange (every mapping an <lo> <hi> <dst>
//             entry, no bfchar at all) | array (<lo> <hi> [<d1> ...]) | mixed (runs as
//             ranges in either form, single codes as bfchar or one-code ranges, sections in
//             either order); sections of at most 100 entries, ranges never cross a high-byte
//             boundary of the code nor overflow the low byte of the destination (9.10.3)
//   lead      subset fonts with a ToUnicode CMap only: the codes of the first glyphs every line
//             of the font begins with are chosen so that the BYTES of the shown string begin
//             with what marks the encoding of a PDF *text string* (7.9.2.2: FE FF UTF-16BE;
//             its little-endian mirror FF FE; PDF 2.0: EF BB BF UTF-8). The operand of Tj is
//             not a text string but a sequence of character codes of the font (9.4.3): such
//             bytes are codes like any other - the two-byte code <FEFF>, or the one-byte
//             codes <FE> <FF> next to each other - and the ToUnicode CMap says what they show
//   glyphs    single characters incl. supplementary-plane ones (surrogate pairs in the
//             CMap) and, optionally, fi/fl/ffi ligature glyphs (one code -> several characters)
//
// crossed with a physical layout of its own (EOL, classic/stream xref, object streams holding
// the font dictionaries, filter chains on the ToUnicode and content streams, direct/indirect
// /Length before or after, /Resources on the leaf / inherited from the root or from an
// intermediate node, /Resources and /Font direct or by reference, literal or hexadecimal
// strings, split content, shuffled numbering, and an incremental update that supersedes
// stale ToUnicode streams / font dictionaries / content streams).
//
// Expectations come from the logical document only: page i shows its lines, in order, each
// with the text it was authored with. Every file also goes to the reader model (op c01.read).

import (
	"encoding/hex"
	"fmt"
	"os"
	"sort"
	"strings"
	"unicode/utf16"

	"github.com/tsawler/tabula"
	"golang.org/x/text/encoding/charmap"
	"golang.org/x/text/unicode/norm"

	"verifharness/hx"
	"verifharness/writers"
)

type fontSpec struct {
	Kind    string `json:"kind"`      // Type1 | TrueType | Type0
	CIDKind int    `json:"cid_kind"`  // Type0: 0 = CIDFontType0, 2 = CIDFontType2
	Enc     string `json:"enc"`       // simple: "" (absent) | WinAnsiEncoding | MacRomanEncoding
	EncDict bool   `json:"enc_dict"`  // simple: /Encoding is a dictionary with /BaseEncoding
	Codes   string `json:"codes"`     // enc | first | sorted | identity | diff | scatter
	Base    int    `json:"base"`      // first code of a first/sorted subset; scatter: the seed of the code assignment
	Lead    string `json:"lead,omitempty"` // hex of the bytes every shown string of the font begins with ("" = whatever the code assignment gives)
	ToUni   string `json:"tounicode"` // none | bfchar | bfrange | array | mixed
	Blocks  bool   `json:"blocks"`    // the repertoire holds the whole alphabets the text touches
	Ligs    bool   `json:"ligs"`      // ffi / fi / fl are single glyphs
	MaxRun  int    `json:"max_run"`   // longest range written (0 = no limit)
	Widths  bool   `json:"widths"`    // simple: /FirstChar /LastChar /Widths present
	Upper   bool   `json:"upper"`     // hex digits of the CMap in upper case
	Extra   int    `json:"extra"`     // diff: bit 0 = a leading run names the first codes otherwise, bit 1 = a trailing run of unknown names on unused codes
}

type fline struct {
	Font int    `json:"font"`
	Text string `json:"text"`
}

type fpage struct {
	Lines []fline `json:"lines"`
}

type fdoc struct {
	Fonts []fontSpec `json:"fonts"`
	Pages []fpage    `json:"pages"`
}

type flayout struct {
	EOL         string `json:"eol"`
	XrefStream  bool   `json:"xref_stream"`
	ObjStm      bool   `json:"objstm"`
	LengthMode  int    `json:"length_mode"` // 0 direct, 1 indirect before, 2 indirect after
	Filters     int    `json:"filters"`     // 0 none, 1 one filter, 2 chains of up to 3
	Revisions   int    `json:"revisions"`   // 0 | 1 (an update supersedes stale objects)
	Shuffle     bool   `json:"shuffle"`
	ResAt       string `json:"res_at"` // leaf | root | mid
	ResRef      bool   `json:"res_ref"`
	FontDictRef bool   `json:"font_dict_ref"`
	Strings     int    `json:"strings"` // 0 literal, 1 hexadecimal, 2 either
	Split       int    `json:"split"`
	Names       int    `json:"names"` // resource naming scheme
	Seed        uint64 `json:"seed"`
}

// fcase is the replayable description of one font case.
type fcase struct {
	Fontcase int     `json:"fontcase"`
	Doc      fdoc    `json:"doc"`
	Layout   flayout `json:"layout"`
}

// ---------------------------------------------------------------------------------------
// the logical side: glyph repertoire and code assignment
// ---------------------------------------------------------------------------------------

// word lists by what the font can show
var (
	// the same code in WinAnsiEncoding, MacRomanEncoding as PDF defines them and as
	// cp1252 / Mac OS Roman define them (x/text charmap is the independent table)
	encWords = []string{"alpha", "Beta", "gamma(1)", "d\\e", "x)y(z", "café", "naïve", "A.B,C", "100%", "q-r_s", "Ångström", "end.", "señor", "über", "Çà"}
	// StandardEncoding = ASCII on 0x20..0x7E except 0x27 and 0x60 (Annex D.2)
	stdWords = []string{"alpha", "Beta", "gamma(1)", "d\\e", "x)y(z", "A.B,C", "100%", "q-r_s", "end.", "[z]"}
	bmpWords = []string{"日本語", "αβγδε", "Привет", "naïve", "–dash—", "中文", "€100", "¿qué?", "ﬁn", "שלום", "abcdef", "0123456789", "XYZ", "абвгд", "office", "flow", "fish", "café"}
	uniWords2 = append([]string{"𝔘𝔫𝔦", "😀ok", "𐐷𐐸"}, bmpWords...)
)

func wordsFor(fs fontSpec) []string {
	switch {
	case fs.Codes == "enc" && fs.Enc == "":
		return stdWords
	case fs.Codes == "enc", fs.Codes == "diff":
		return encWords
	case fs.Codes == "identity":
		return bmpWords
	}
	return uniWords2
}

// encByte is the code of r in a simple font's named encoding (independent tables).
func encByte(enc string, r rune) (byte, bool) {
	switch enc {
	case "WinAnsiEncoding":
		return charmap.Windows1252.EncodeRune(r)
	case "MacRomanEncoding":
		return charmap.Macintosh.EncodeRune(r)
	case "":
		if r >= 0x20 && r <= 0x7E && r != 0x27 && r != 0x60 {
			return byte(r), true
		}
	}
	return 0, false
}

// aglName is the Adobe Glyph List name of a character (the part of the list the words need).
func aglName(r rune) (string, bool) {
	switch {
	case r >= 'A' && r <= 'Z', r >= 'a' && r <= 'z':
		return string(r), true
	case r >= '0' && r <= '9':
		return []string{"zero", "one", "two", "three", "four", "five", "six", "seven", "eight", "nine"}[r-'0'], true
	}
	n, ok := map[rune]string{' ': "space", '.': "period", ',': "comma", '-': "hyphen", '(': "parenleft", ')': "parenright",
		'%': "percent", '_': "underscore", '\\': "backslash", '[': "bracketleft", ']': "bracketright",
		'é': "eacute", 'ï': "idieresis", 'Å': "Aring", 'ö': "odieresis", 'ü': "udieresis", 'ñ': "ntilde",
		'ç': "ccedilla", 'à': "agrave", 'Ç': "Ccedilla", '€': "Euro", 'ß': "germandbls"}[r]
	return n, ok
}

// glyphsOf cuts a text into the glyphs of the font.
func glyphsOf(text string, ligs bool) []string {
	var out []string
	rs := []rune(text)
	for i := 0; i < len(rs); {
		if ligs {
			hit := ""
			for _, l := range []string{"ffi", "fi", "fl"} {
				if strings.HasPrefix(string(rs[i:]), l) {
					hit = l
					break
				}
			}
			if hit != "" {
				out = append(out, hit)
				i += len(hit)
				continue
			}
		}
		out = append(out, string(rs[i]))
		i++
	}
	return out
}

var alphabets = [][2]rune{{'a', 'z'}, {'A', 'Z'}, {'0', '9'}, {0x03B1, 0x03C9}, {0x0430, 0x044F}}

// glyphTable is the font as authored: which code shows which glyph.
type glyphTable struct {
	width int            // bytes per code
	code  map[string]int // glyph -> code
	list  []tuEntry      // the whole repertoire, by code
}

type tuEntry struct {
	code  int
	glyph string
	units []uint16
}

func buildGlyphTable(fs fontSpec, texts []string) *glyphTable {
	t := &glyphTable{width: 1, code: map[string]int{}}
	if fs.Kind == "Type0" {
		t.width = 2
	}
	var used []string
	seen := map[string]bool{}
	for _, tx := range texts {
		for _, g := range glyphsOf(tx, fs.Ligs) {
			if !seen[g] {
				seen[g] = true
				used = append(used, g)
			}
		}
	}
	withBlocks := func() []string {
		rep := append([]string(nil), used...)
		in := map[string]bool{}
		for _, g := range used {
			in[g] = true
		}
		for _, ab := range alphabets {
			touched := false
			for _, g := range used {
				rs := []rune(g)
				if len(rs) == 1 && rs[0] >= ab[0] && rs[0] <= ab[1] {
					touched = true
				}
			}
			if touched {
				for r := ab[0]; r <= ab[1]; r++ {
					if !in[string(r)] {
						in[string(r)] = true
						rep = append(rep, string(r))
					}
				}
			}
		}
		return rep
	}
	limit := 1<<(8*t.width) - 1
	// codes fixed by the lead: taken out of the repertoire the code assignment works on
	reserved := map[int]bool{}
	if fs.Lead != "" && len(texts) > 0 {
		lg, lc, ok := leadFor(fs, t.width, texts)
		if !ok {
			panic(fmt.Sprintf("c01 fonts: the lines of the font do not begin with %d distinct glyphs of their own (lead %s)", len(lc), fs.Lead))
		}
		isLead := map[string]bool{}
		for i, g := range lg {
			t.code[g] = lc[i]
			reserved[lc[i]] = true
			isLead[g] = true
		}
		rest := used[:0:0]
		for _, g := range used {
			if !isLead[g] {
				rest = append(rest, g)
			}
		}
		used = rest
	}
	switch fs.Codes {
	case "enc":
		for _, g := range used {
			b, ok := encByte(fs.Enc, []rune(g)[0])
			if !ok {
				panic(fmt.Sprintf("c01 fonts: %q has no code in %q", g, fs.Enc))
			}
			t.code[g] = int(b)
		}
	case "identity":
		rep := used
		if fs.Blocks {
			rep = withBlocks()
		}
		for _, g := range rep {
			t.code[g] = int([]rune(g)[0])
		}
	case "diff":
		rep := append([]string(nil), used...)
		if fs.Blocks {
			sort.Slice(rep, func(i, j int) bool { return rep[i] < rep[j] })
		}
		base := min(fs.Base, 0x7E-len(rep)+1)
		if base < 0x20 {
			panic("c01 fonts: too many glyphs for a /Differences font")
		}
		for i, g := range rep {
			if _, ok := aglName([]rune(g)[0]); !ok {
				panic(fmt.Sprintf("c01 fonts: %q has no glyph name", g))
			}
			t.code[g] = base + i
		}
	case "scatter":
		// arbitrary distinct codes of the whole code space, 0 excepted
		if len(used)+len(reserved) > limit {
			panic("c01 fonts: more glyphs than codes")
		}
		cr := hx.NewRng(uint64(fs.Base)*0x9E3779B97F4A7C15 + 77)
		taken := map[int]bool{}
		for _, g := range used {
			c := cr.Range(1, limit)
			for taken[c] || reserved[c] {
				c = cr.Range(1, limit)
			}
			taken[c] = true
			t.code[g] = c
		}
	default: // first | sorted
		rep := used
		if fs.Blocks && fs.Codes == "sorted" {
			rep = withBlocks()
		}
		base := fs.Base
		// room for the codes the lead has taken: they are skipped
		if base+len(rep)+len(reserved)-1 > limit {
			rep = used
		}
		if base+len(rep)+len(reserved)-1 > limit {
			base = 1
		}
		if fs.Codes == "sorted" {
			rep = append([]string(nil), rep...)
			sort.SliceStable(rep, func(i, j int) bool {
				a, b := []rune(rep[i]), []rune(rep[j])
				if a[0] != b[0] {
					return a[0] < b[0]
				}
				return len(a) < len(b)
			})
		}
		next := base
		for _, g := range rep {
			if _, has := t.code[g]; has { // a glyph of the lead (the blocks bring it back)
				continue
			}
			for reserved[next] {
				next++
			}
			t.code[g] = next
			next++
		}
	}
	for g, c := range t.code {
		t.list = append(t.list, tuEntry{code: c, glyph: g, units: utf16.Encode([]rune(g))})
	}
	sort.Slice(t.list, func(i, j int) bool { return t.list[i].code < t.list[j].code })
	return t
}

// encode is the string operand that shows text in this font.
func (t *glyphTable) encode(text string, ligs bool) []byte {
	var out []byte
	for _, g := range glyphsOf(text, ligs) {
		c := t.code[g]
		if t.width == 2 {
			out = append(out, byte(c>>8))
		}
		out = append(out, byte(c))
	}
	return out
}

// leads are the byte prefixes that mark the encoding of a PDF text string (ISO 32000-1
// 7.9.2.2, ISO 32000-2 7.9.2.2.1) plus the little-endian mirror of the first. In a shown
// string they are character codes.
var leads = []string{"feff", "fffe", "efbbbf"}

// leadFor says which glyphs get which codes so that every shown string of the font begins
// with the bytes fs.Lead: the glyphs are the first ones of the font's lines (the same in every
// line, all different), the codes are the lead cut into codes of the font's width (an odd
// last byte of a two-byte font is completed by a byte of fs.Base).
func leadFor(fs fontSpec, width int, texts []string) (glyphs []string, codes []int, ok bool) {
	m, err := hex.DecodeString(fs.Lead)
	if err != nil || len(m) == 0 {
		return nil, nil, false
	}
	if width == 1 {
		for _, b := range m {
			codes = append(codes, int(b))
		}
	} else {
		for i := 0; i < len(m); i += 2 {
			lo := byte(fs.Base)
			if i+1 < len(m) {
				lo = m[i+1]
			}
			codes = append(codes, int(m[i])<<8|int(lo))
		}
	}
	if len(texts) == 0 {
		return nil, codes, false
	}
	first := glyphsOf(texts[0], fs.Ligs)
	if len(first) < len(codes) {
		return nil, codes, false
	}
	glyphs = first[:len(codes)]
	seen := map[string]bool{}
	for _, g := range glyphs {
		if seen[g] {
			return nil, codes, false
		}
		seen[g] = true
	}
	for _, tx := range texts[1:] {
		gs := glyphsOf(tx, fs.Ligs)
		if len(gs) < len(codes) {
			return nil, codes, false
		}
		for i, g := range glyphs {
			if gs[i] != g {
				return nil, codes, false
			}
		}
	}
	return glyphs, codes, true
}

// ---------------------------------------------------------------------------------------
// the ToUnicode CMap (Adobe Technical Note 5411; ISO 32000-1 9.10.3)
// ---------------------------------------------------------------------------------------

func hexUnits(us []uint16, upper bool) string {
	var b strings.Builder
	for _, u := range us {
		if upper {
			fmt.Fprintf(&b, "%04X", u)
		} else {
			fmt.Fprintf(&b, "%04x", u)
		}
	}
	return b.String()
}

// consecutive codes under one high byte
func adjacent(a, b tuEntry) bool { return a.code+1 == b.code && a.code>>8 == b.code>>8 }

// b's destination is a's with the last unit one higher, without overflowing its low byte
func successor(a, b tuEntry) bool {
	n := len(a.units)
	if n == 0 || len(b.units) != n {
		return false
	}
	for i := 0; i < n-1; i++ {
		if a.units[i] != b.units[i] {
			return false
		}
	}
	return a.units[n-1]&0xFF != 0xFF && a.units[n-1]+1 == b.units[n-1]
}

// cmapRuns cuts the repertoire into runs: scalar = true asks for runs a single
// <lo> <hi> <dst> entry can express, else runs of adjacent codes (array form).
func cmapRuns(list []tuEntry, scalar bool, maxRun int) [][]tuEntry {
	var runs [][]tuEntry
	for i := 0; i < len(list); {
		j := i + 1
		for j < len(list) && adjacent(list[j-1], list[j]) && (!scalar || successor(list[j-1], list[j])) && (maxRun == 0 || j-i < maxRun) {
			j++
		}
		runs = append(runs, list[i:j])
		i = j
	}
	return runs
}

// fstats says what the rendered fonts really contain (for the distribution report).
type fstats struct {
	multiScalar int // <lo> <hi> <dst> entries with lo < hi
	multiArray  int // array entries with more than one element
	sections    int // bfchar / bfrange sections written
	pairs       int // destinations that are surrogate pairs
	ligatures   int // destinations of several characters
}

func toUnicodeCMap(r *hx.Rng, t *glyphTable, fs fontSpec, st *fstats) []byte {
	hexCode := func(c int) string {
		f := "%0*x"
		if fs.Upper {
			f = "%0*X"
		}
		return fmt.Sprintf(f, 2*t.width, c)
	}
	var chars, ranges []string
	scalarEntry := func(run []tuEntry) string {
		if len(run) > 1 {
			st.multiScalar++
		}
		return fmt.Sprintf("<%s> <%s> <%s>", hexCode(run[0].code), hexCode(run[len(run)-1].code), hexUnits(run[0].units, fs.Upper))
	}
	arrayEntry := func(run []tuEntry) string {
		if len(run) > 1 {
			st.multiArray++
		}
		var ds []string
		for _, e := range run {
			ds = append(ds, "<"+hexUnits(e.units, fs.Upper)+">")
		}
		return fmt.Sprintf("<%s> <%s> [%s]", hexCode(run[0].code), hexCode(run[len(run)-1].code), strings.Join(ds, " "))
	}
	charEntry := func(e tuEntry) string {
		return fmt.Sprintf("<%s> <%s>", hexCode(e.code), hexUnits(e.units, fs.Upper))
	}
	switch fs.ToUni {
	case "bfchar":
		for _, e := range t.list {
			chars = append(chars, charEntry(e))
		}
	case "bfrange":
		for _, run := range cmapRuns(t.list, true, fs.MaxRun) {
			ranges = append(ranges, scalarEntry(run))
		}
	case "array":
		for _, run := range cmapRuns(t.list, false, fs.MaxRun) {
			ranges = append(ranges, arrayEntry(run))
		}
	default: // mixed
		for _, run := range cmapRuns(t.list, true, fs.MaxRun) {
			switch {
			case len(run) > 1 && r.Chance(2, 3):
				ranges = append(ranges, scalarEntry(run))
			case len(run) > 1:
				ranges = append(ranges, arrayEntry(run))
			case r.Chance(1, 4):
				ranges = append(ranges, scalarEntry(run))
			default:
				chars = append(chars, charEntry(run[0]))
			}
		}
	}
	space := "<00> <FF>"
	if t.width == 2 {
		space = "<0000> <FFFF>"
	}
	var b strings.Builder
	b.WriteString("/CIDInit /ProcSet findresource begin\n12 dict begin\nbegincmap\n/CIDSystemInfo << /Registry (Adobe) /Ordering (UCS) /Supplement 0 >> def\n/CMapName /Adobe-Identity-UCS def\n/CMapType 2 def\n1 begincodespacerange\n" + space + "\nendcodespacerange\n")
	section := func(kw string, es []string) {
		for i := 0; i < len(es); i += 100 {
			j := min(i+100, len(es))
			fmt.Fprintf(&b, "%d begin%s\n%s\nend%s\n", j-i, kw, strings.Join(es[i:j], "\n"), kw)
			st.sections++
		}
	}
	for _, e := range t.list {
		if len([]rune(e.glyph)) > 1 {
			st.ligatures++
		} else if len(e.units) > 1 {
			st.pairs++
		}
	}
	if fs.ToUni == "mixed" && r.Bool() {
		section("bfrange", ranges)
		section("bfchar", chars)
	} else {
		section("bfchar", chars)
		section("bfrange", ranges)
	}
	b.WriteString("endcmap\nCMapName currentdict /CMap defineresource pop\nend\nend\n")
	return []byte(b.String())
}

// staleCMap is what a superseded ToUnicode stream says: every code shows "X".
func staleCMap(t *glyphTable) []byte {
	var es []string
	for _, e := range t.list {
		es = append(es, fmt.Sprintf("<%0*X> <0058>", 2*t.width, e.code))
	}
	space := "<00> <FF>"
	if t.width == 2 {
		space = "<0000> <FFFF>"
	}
	var b strings.Builder
	b.WriteString("/CIDInit /ProcSet findresource begin\n12 dict begin\nbegincmap\n/CMapName /Stale def\n/CMapType 2 def\n1 begincodespacerange\n" + space + "\nendcodespacerange\n")
	for i := 0; i < len(es); i += 100 {
		j := min(i+100, len(es))
		fmt.Fprintf(&b, "%d beginbfchar\n%s\nendbfchar\n", j-i, strings.Join(es[i:j], "\n"))
	}
	b.WriteString("endcmap\nend\nend\n")
	return []byte(b.String())
}

// ---------------------------------------------------------------------------------------
// the physical side
// ---------------------------------------------------------------------------------------

func pdfLiteral(s []byte) string {
	var b strings.Builder
	b.WriteByte('(')
	for _, c := range s {
		switch {
		case c == '(' || c == ')' || c == '\\':
			b.WriteByte('\\')
			b.WriteByte(c)
		case c == '\n':
			b.WriteString("\\n")
		case c == '\r':
			b.WriteString("\\r")
		case c < 0x20 || c > 0x7E:
			fmt.Fprintf(&b, "\\%03o", c)
		default:
			b.WriteByte(c)
		}
	}
	b.WriteByte(')')
	return b.String()
}

func pickFChain(r *hx.Rng, mode int) []writers.FilterSpec {
	if mode == 0 {
		return nil
	}
	names := [][2]string{{"FlateDecode", "Fl"}, {"ASCIIHexDecode", "AHx"}, {"ASCII85Decode", "A85"}}
	n := 1
	if mode >= 2 {
		n = r.Range(1, 3)
	}
	var chain []writers.FilterSpec
	for i := 0; i < n; i++ {
		nm := hx.Pick(r, names[:])
		chain = append(chain, writers.FilterSpec{Name: nm[r.Intn(2)]})
	}
	return chain
}

type fobj struct {
	num       int
	stream    bool
	body      string // plain object
	staleBody string
	data      []byte // stream: plain data
	staleData []byte
	hasStale  bool
}

func fontName(scheme, i int) string {
	switch scheme {
	case 1:
		return fmt.Sprintf("TT%d", i+2)
	case 2:
		return fmt.Sprintf("C0_%d", i)
	case 3:
		return fmt.Sprintf("R%d", 7+3*i)
	}
	return fmt.Sprintf("F%d", i+1)
}

// renderFontPDF writes the document; all physical choices come from lay.Seed.
func renderFontPDF(k fcase, tr *writers.Trace) ([]byte, fstats) {
	var st fstats
	doc, lay := k.Doc, k.Layout
	r := hx.NewRng(lay.Seed)
	tabs := make([]*glyphTable, len(doc.Fonts))
	for i, fs := range doc.Fonts {
		var texts []string
		for _, pg := range doc.Pages {
			for _, l := range pg.Lines {
				if l.Font == i {
					texts = append(texts, l.Text)
				}
			}
		}
		tabs[i] = buildGlyphTable(fs, texts)
	}

	// ---- allocate the objects ------------------------------------------------
	var objs []*fobj
	alloc := func(stream bool) *fobj {
		o := &fobj{stream: stream}
		objs = append(objs, o)
		return o
	}
	type fontObjs struct{ font, cid, tou *fobj }
	fo := make([]fontObjs, len(doc.Fonts))
	for i, fs := range doc.Fonts {
		fo[i].font = alloc(false)
		if fs.Kind == "Type0" {
			fo[i].cid = alloc(false)
		}
		if fs.ToUni != "none" {
			fo[i].tou = alloc(true)
		}
	}
	var resObj, fontDictObj, mid *fobj
	if lay.ResRef {
		resObj = alloc(false)
	}
	if lay.FontDictRef {
		fontDictObj = alloc(false)
	}
	root := alloc(false)
	if lay.ResAt == "mid" {
		mid = alloc(false)
	}
	nsplit := min(max(lay.Split, 1), 3)
	leaves := make([]*fobj, len(doc.Pages))
	contents := make([][]*fobj, len(doc.Pages))
	for i := range doc.Pages {
		leaves[i] = alloc(false)
		for j := 0; j < nsplit; j++ {
			contents[i] = append(contents[i], alloc(true))
		}
	}
	cat := alloc(false)
	nums := make([]int, len(objs))
	for i := range nums {
		nums[i] = i + 1
	}
	if lay.Shuffle {
		hx.Shuffle(r, nums)
	}
	for i, o := range objs {
		o.num = nums[i]
	}
	ref := func(o *fobj) string { return fmt.Sprintf("%d 0 R", o.num) }
	stale := func() bool { return lay.Revisions > 0 && r.Chance(1, 2) }

	// ---- fonts ---------------------------------------------------------------
	for i, fs := range doc.Fonts {
		t := tabs[i]
		var parts []string
		if fs.Kind == "Type0" {
			base := fmt.Sprintf("/AAAAA%c+VerifSans", 'A'+i)
			cidType := "CIDFontType2"
			extra := " /CIDToGIDMap /Identity"
			if fs.CIDKind == 0 {
				cidType, extra = "CIDFontType0", ""
			}
			fo[i].cid.body = fmt.Sprintf("<< /Type /Font /Subtype /%s /BaseFont %s /CIDSystemInfo << /Registry (Adobe) /Ordering (Identity) /Supplement 0 >> /DW 1000%s >>", cidType, base, extra)
			parts = []string{"/Type /Font", "/Subtype /Type0", "/BaseFont " + base, "/Encoding /Identity-H", fmt.Sprintf("/DescendantFonts [%s]", ref(fo[i].cid))}
		} else {
			base := "/Helvetica"
			switch {
			case fs.Codes != "enc" && fs.Codes != "diff":
				base = fmt.Sprintf("/BCDEF%c+VerifSerif", 'A'+i)
			case fs.Kind == "TrueType":
				base = "/Arial"
			default:
				base = hx.Pick(r, []string{"/Helvetica", "/Times-Roman", "/Courier"})
			}
			parts = []string{"/Type /Font", "/Subtype /" + fs.Kind, "/BaseFont " + base}
			if fs.Widths && len(t.list) > 0 {
				lo, hi := t.list[0].code, t.list[len(t.list)-1].code
				ws := make([]string, hi-lo+1)
				for j := range ws {
					ws[j] = "0"
				}
				for _, e := range t.list {
					ws[e.code-lo] = hx.Pick(r, []string{"500", "600", "722.5"})
				}
				parts = append(parts, fmt.Sprintf("/FirstChar %d", lo), fmt.Sprintf("/LastChar %d", hi), "/Widths ["+strings.Join(ws, " ")+"]")
			}
			if fs.Codes == "diff" {
				var ds []string
				if fs.Extra&1 != 0 && len(t.list) > 0 {
					// superseded by the runs below: the codes get their real names after this
					ds = append(ds, fmt.Sprint(t.list[0].code), "/bullet", "/g17", "/Euro")
				}
				last := -2
				for _, e := range t.list {
					if e.code != last+1 || r.Chance(1, 5) {
						ds = append(ds, fmt.Sprint(e.code))
					}
					n, _ := aglName([]rune(e.glyph)[0])
					ds = append(ds, "/"+n)
					last = e.code
				}
				if fs.Extra&2 != 0 {
					// codes the text does not use (the text's codes end at 0x7E at the latest)
					ds = append(ds, "200", "/.notdef", "/g201", "/uni20AC", "255", "/cid255", "/beyond.byte")
				}
				be := ""
				if fs.Enc != "" {
					be = " /BaseEncoding /" + fs.Enc
				}
				parts = append(parts, "/Encoding << /Type /Encoding"+be+" /Differences ["+strings.Join(ds, " ")+"] >>")
			} else if fs.Enc != "" {
				if fs.EncDict {
					parts = append(parts, "/Encoding << /Type /Encoding /BaseEncoding /"+fs.Enc+" >>")
				} else {
					parts = append(parts, "/Encoding /"+fs.Enc)
				}
			}
		}
		if fo[i].tou != nil {
			parts = append(parts, "/ToUnicode "+ref(fo[i].tou))
			fo[i].tou.data = toUnicodeCMap(r, t, fs, &st)
			if stale() {
				fo[i].tou.hasStale, fo[i].tou.staleData = true, staleCMap(t)
			}
		}
		// the keys after /Type in any order
		rest := parts[1:]
		hx.Shuffle(r, rest)
		fo[i].font.body = "<< " + strings.Join(parts, " ") + " >>"
		if lay.Revisions > 0 && r.Chance(1, 3) {
			fo[i].font.hasStale, fo[i].font.staleBody = true, "<< /Type /Font /Subtype /Type1 /BaseFont /Courier /Encoding /WinAnsiEncoding >>"
		}
	}
	var fds []string
	for i := range doc.Fonts {
		fds = append(fds, "/"+fontName(lay.Names, i)+" "+ref(fo[i].font))
	}
	fontDict := "<< " + strings.Join(fds, " ") + " >>"
	if fontDictObj != nil {
		fontDictObj.body = fontDict
		fontDict = ref(fontDictObj)
	}
	res := "<< /Font " + fontDict + " >>"
	if resObj != nil {
		resObj.body = res
		res = ref(resObj)
	}

	// ---- pages ---------------------------------------------------------------
	parent := root
	if mid != nil {
		parent = mid
	}
	var kids []string
	for pi, pg := range doc.Pages {
		toks := []string{"BT"}
		cur := -1
		for li, l := range pg.Lines {
			if l.Font != cur {
				toks = append(toks, "/"+fontName(lay.Names, l.Font), "12", "Tf")
				cur = l.Font
			}
			if li == 0 {
				toks = append(toks, "72", "720", "Td")
			} else {
				toks = append(toks, "0", "-14", "Td")
			}
			codes := tabs[l.Font].encode(l.Text, doc.Fonts[l.Font].Ligs)
			asHex := lay.Strings == 1 || (lay.Strings == 2 && r.Bool())
			if asHex {
				f := "<%x>"
				if r.Bool() {
					f = "<%X>"
				}
				toks = append(toks, fmt.Sprintf(f, codes), "Tj")
			} else {
				toks = append(toks, pdfLiteral(codes), "Tj")
			}
		}
		toks = append(toks, "ET")
		cuts := map[int]bool{}
		for len(cuts) < nsplit-1 {
			cuts[r.Range(1, len(toks)-1)] = true
		}
		var parts []string
		var b strings.Builder
		for i, t := range toks {
			if cuts[i] {
				parts = append(parts, b.String())
				b.Reset()
			}
			b.WriteString(t)
			if r.Chance(1, 4) {
				b.WriteString("\n")
			} else {
				b.WriteString(" ")
			}
		}
		parts = append(parts, b.String())
		var crefs []string
		for j, o := range contents[pi] {
			o.data = []byte(parts[j])
			if lay.Revisions > 0 && r.Chance(1, 4) {
				o.hasStale, o.staleData = true, []byte("BT /"+fontName(lay.Names, 0)+" 12 Tf 72 720 Td (STALE-CONTENT) Tj ET ")
			}
			crefs = append(crefs, ref(o))
		}
		c := "[" + strings.Join(crefs, " ") + "]"
		if len(crefs) == 1 && r.Bool() {
			c = crefs[0]
		}
		own := ""
		if lay.ResAt == "leaf" {
			own = " /Resources " + res
		}
		leaves[pi].body = fmt.Sprintf("<< /Type /Page /Parent %s /MediaBox [0 0 612 792]%s /Contents %s >>", ref(parent), own, c)
		kids = append(kids, ref(leaves[pi]))
	}
	inh := ""
	if lay.ResAt != "leaf" {
		inh = " /Resources " + res
	}
	if mid != nil {
		mid.body = fmt.Sprintf("<< /Type /Pages /Parent %s /Kids [%s] /Count %d%s >>", ref(root), strings.Join(kids, " "), len(kids), inh)
		root.body = fmt.Sprintf("<< /Type /Pages /Kids [%s] /Count %d >>", ref(mid), len(kids))
	} else {
		root.body = fmt.Sprintf("<< /Type /Pages /Kids [%s] /Count %d%s >>", strings.Join(kids, " "), len(kids), inh)
	}
	cat.body = fmt.Sprintf("<< /Type /Catalog /Pages %s >>", ref(root))

	// ---- the file ------------------------------------------------------------
	p := writers.NewPDF(lay.EOL)
	p.Tr = tr
	nextNum := len(objs) + 1
	prev := int64(-1)
	useStm := lay.ObjStm
	xrefStream := lay.XrefStream || useStm
	for rev := 0; rev <= lay.Revisions; rev++ {
		entries := map[int]writers.XEntry{}
		if rev == 0 {
			entries[0] = writers.XEntry{Type: 0, F1: 0, F2: 65535}
		}
		var todo []*fobj
		for _, o := range objs {
			if rev == 0 || o.hasStale || r.Chance(1, 6) {
				todo = append(todo, o)
			}
		}
		if len(todo) == 0 {
			todo = append(todo, cat)
		}
		if lay.Shuffle {
			hx.Shuffle(r, todo)
		}
		var packed []writers.ObjStmMember
		for _, o := range todo {
			staleNow := rev < lay.Revisions && o.hasStale
			if !o.stream {
				body := o.body
				if staleNow {
					body = o.staleBody
				}
				if useStm && r.Chance(3, 4) {
					entries[o.num] = writers.XEntry{Type: 2}
					packed = append(packed, writers.ObjStmMember{Num: o.num, Body: body})
				} else {
					entries[o.num] = writers.XEntry{Type: 1, F1: p.Obj(o.num, 0, body)}
				}
				continue
			}
			data := o.data
			if staleNow {
				data = o.staleData
			}
			chain := pickFChain(r, lay.Filters)
			enc := writers.EncodeChainTrace(append([]byte(nil), data...), chain, r.Intn(6), tr)
			dict := writers.FilterDict(chain, r.Intn(2))
			lenRef := 0
			if lay.LengthMode > 0 {
				lenRef = nextNum
				nextNum++
				if lay.LengthMode == 1 {
					entries[lenRef] = writers.XEntry{Type: 1, F1: p.Obj(lenRef, 0, fmt.Sprint(len(enc)))}
				}
			}
			entries[o.num] = writers.XEntry{Type: 1, F1: p.Stream(o.num, dict, enc, lenRef)}
			if lay.LengthMode == 2 {
				if useStm && r.Bool() {
					entries[lenRef] = writers.XEntry{Type: 2}
					packed = append(packed, writers.ObjStmMember{Num: lenRef, Body: fmt.Sprint(len(enc))})
				} else {
					entries[lenRef] = writers.XEntry{Type: 1, F1: p.Obj(lenRef, 0, fmt.Sprint(len(enc)))}
				}
			}
		}
		if len(packed) > 0 {
			stm := nextNum
			nextNum++
			for i, m := range packed {
				entries[m.Num] = writers.XEntry{Type: 2, F1: int64(stm), F2: i}
			}
			entries[stm] = writers.XEntry{Type: 1, F1: p.ObjStm(stm, packed, r.Bool(), 0)}
		}
		trailer := fmt.Sprintf("/Root %s", ref(cat))
		if xrefStream {
			xn := nextNum
			nextNum++
			prev = p.XrefStream(xn, entries, trailer, prev, [3]int{1, 4, 2}, lay.Filters > 0, 0, nextNum)
		} else {
			prev = p.XrefTable(entries, trailer+fmt.Sprintf(" /Size %d", nextNum), prev, hx.Pick(r, []string{" \n", "\r\n", " \r"}))
		}
	}
	return p.Buf.Bytes(), st
}

// ---------------------------------------------------------------------------------------
// generation, oracles
// ---------------------------------------------------------------------------------------

func genFontSpec(r *hx.Rng) fontSpec {
	fs := fontSpec{
		Blocks: r.Bool(),
		MaxRun: hx.Pick(r, []int{0, 0, 2, 5, 16}),
		Widths: r.Bool(),
		Upper:  r.Bool(),
		ToUni:  hx.Pick(r, []string{"bfchar", "bfrange", "bfrange", "array", "mixed"}),
	}
	if r.Chance(2, 5) {
		fs.Kind = "Type0"
		fs.CIDKind = hx.Pick(r, []int{0, 2, 2})
		fs.Enc = "Identity-H"
		fs.Codes = hx.Pick(r, []string{"first", "sorted", "sorted", "identity", "scatter"})
		fs.Base = hx.Pick(r, []int{1, 3, 0x20, 0xF0, 0x1F8, 0x3FF0})
		if fs.Codes == "scatter" {
			fs.Base = r.Intn(1 << 30)
		}
		fs.Ligs = fs.Codes != "identity" && r.Chance(1, 3)
		return fs
	}
	fs.Kind = hx.Pick(r, []string{"Type1", "TrueType"})
	fs.Enc = hx.Pick(r, []string{"WinAnsiEncoding", "MacRomanEncoding", ""})
	fs.Base = hx.Pick(r, []int{1, 0x20, 0x21, 0x41})
	switch r.Intn(5) {
	case 0: // the /Encoding gives the text
		fs.Codes, fs.ToUni = "enc", "none"
	case 1: // ... and a ToUnicode CMap says the same
		fs.Codes = "enc"
	case 2: // the /Differences of the /Encoding dictionary give the text, with or without a CMap
		fs.Codes = "diff"
		fs.Extra = r.Intn(4)
		fs.Base = hx.Pick(r, []int{0x21, 0x30, 0x41})
		fs.ToUni = hx.Pick(r, []string{"none", "none", "bfchar", "bfrange", "mixed"})
	default: // a subset font: only the ToUnicode CMap gives the text
		fs.Codes = hx.Pick(r, []string{"first", "sorted", "sorted", "scatter"})
		if fs.Codes == "scatter" {
			fs.Base = r.Intn(1 << 30)
		}
		fs.Ligs = r.Chance(1, 3)
	}
	if fs.Codes == "enc" && fs.Kind == "TrueType" && fs.Enc == "" {
		// a TrueType font without /Encoding shows its built-in encoding: not a defined text
		fs.Enc = "WinAnsiEncoding"
	}
	fs.EncDict = fs.Codes == "diff" || (fs.Enc != "" && r.Chance(1, 4))
	return fs
}

func genFontDoc(r *hx.Rng, tag string) fdoc {
	var d fdoc
	for n := r.Range(1, 3); n > 0; n-- {
		d.Fonts = append(d.Fonts, genFontSpec(r))
	}
	np := r.Range(1, 4)
	for p := 0; p < np; p++ {
		var pg fpage
		nl := r.Range(1, 4)
		for l := 0; l < nl; l++ {
			f := r.Intn(len(d.Fonts))
			var w []string
			for k := r.Range(1, 3); k > 0; k-- {
				w = append(w, hx.Pick(r, wordsFor(d.Fonts[f])))
			}
			// a unique token per line: order and page membership are decidable
			pg.Lines = append(pg.Lines, fline{Font: f, Text: fmt.Sprintf("%s p%dl%d %s", tag, p+1, l+1, strings.Join(w, " "))})
		}
		d.Pages = append(d.Pages, pg)
	}
	// the lead: how the producer happened to number the glyphs the lines begin with
	for i := range d.Fonts {
		fs := &d.Fonts[i]
		subset := fs.Codes == "first" || fs.Codes == "sorted" || fs.Codes == "scatter"
		if !subset || fs.ToUni == "none" || !r.Chance(2, 5) {
			continue
		}
		var texts []string
		for _, pg := range d.Pages {
			for _, l := range pg.Lines {
				if l.Font == i {
					texts = append(texts, l.Text)
				}
			}
		}
		width := 1
		if fs.Kind == "Type0" {
			width = 2
		}
		var fit []string
		for _, ld := range leads {
			probe := *fs
			probe.Lead = ld
			if _, _, ok := leadFor(probe, width, texts); ok {
				fit = append(fit, ld)
			}
		}
		if len(fit) > 0 {
			fs.Lead = hx.Pick(r, fit)
		}
	}
	return d
}

func genFontLayout(r *hx.Rng) flayout {
	return flayout{
		EOL:         hx.Pick(r, []string{"\n", "\n", "\r\n", "\r"}),
		XrefStream:  r.Bool(),
		ObjStm:      r.Chance(1, 3),
		LengthMode:  r.Intn(3),
		Filters:     r.Intn(3),
		Revisions:   r.Intn(2),
		Shuffle:     r.Bool(),
		ResAt:       hx.Pick(r, []string{"leaf", "root", "mid"}),
		ResRef:      r.Bool(),
		FontDictRef: r.Bool(),
		Strings:     r.Intn(3),
		Split:       r.Range(1, 3),
		Names:       r.Intn(4),
		Seed:        r.U64(),
	}
}

// fontClass names what defines the Unicode of the font (the oracle key; kept coarse - the
// run report stores a bounded number of failing cases, three per key - the detail line
// carries kind, codes and encoding).
func fontClass(fs fontSpec) string {
	switch {
	case fs.ToUni != "none" && fs.Lead != "":
		// the shown strings begin with bytes that would mark a text string's encoding
		return "tounicode-lead-" + fs.Lead
	case fs.ToUni != "none":
		return "tounicode-" + fs.ToUni
	case fs.Codes == "diff":
		return "differences"
	}
	return "encoding"
}

func fontNfcTable(doc fdoc) string {
	seen := map[string]bool{}
	var parts []string
	add := func(s string) {
		if !seen[s] {
			seen[s] = true
			parts = append(parts, scalars(s, ",")+">"+scalars(norm.NFC.String(s), ","))
		}
	}
	for _, p := range doc.Pages {
		for _, l := range p.Lines {
			add(l.Text)
		}
	}
	add("STALE-CONTENT")
	return strings.Join(parts, ";")
}

func runFontCase(c *hx.Ctx, k fcase, tag string) {
	tr := &writers.Trace{}
	data, st := renderFontPDF(k, tr)
	if tag != "replay" {
		c.Count(fmt.Sprintf("font:file has <lo> <hi> <dst> entries with lo < hi=%v", st.multiScalar > 0))
		c.Count(fmt.Sprintf("font:file has array entries of several codes=%v", st.multiArray > 0))
		c.Count(fmt.Sprintf("font:file has more than one section per font=%v", st.sections > len(k.Doc.Fonts)))
		c.Count(fmt.Sprintf("font:file has surrogate-pair destinations=%v", st.pairs > 0))
		c.Count(fmt.Sprintf("font:file has ligature destinations=%v", st.ligatures > 0))
	}
	path := writeTmp(c, "c01-font-"+tag+".pdf", data)
	defer os.Remove(path)
	var n int
	var pages [][]string
	var firstErr error
	if !c.Guard("C01", k, 30, func() {
		ext := tabula.Open(path)
		cnt, err := ext.PageCount()
		ext.Close()
		if err != nil {
			firstErr = err
			return
		}
		n = cnt
		for i := 1; i <= cnt; i++ {
			frs, _, err := tabula.Open(path).Pages(i).Fragments()
			if err != nil {
				firstErr = fmt.Errorf("page %d: %w", i, err)
				return
			}
			var ss []string
			for _, f := range frs {
				ss = append(ss, f.Text)
			}
			pages = append(pages, ss)
		}
	}) {
		c.Case(fmt.Sprint(k), false)
		return
	}
	got := "err"
	if firstErr == nil {
		var pgs []string
		for _, ss := range pages {
			var xs []string
			for _, s := range ss {
				xs = append(xs, scalars(s, "."))
			}
			if len(xs) == 0 {
				pgs = append(pgs, "~")
			} else {
				pgs = append(pgs, strings.Join(xs, ","))
			}
		}
		body := "-"
		if len(pgs) > 0 {
			body = strings.Join(pgs, "|")
		}
		got = fmt.Sprintf("ok n=%d %s", n, body)
	}
	c.Op("c01.read "+absFileFields(tr)+" "+inflateTable(tr)+" "+fontNfcTable(k.Doc), got)
	bytesOps(c, k, path, inflateTable(tr), fontNfcTable(k.Doc), got)

	// statement level: the logical document decides
	if !c.Check("C01/font-read", firstErr == nil, k, func() string {
		return fmt.Sprintf("a well-formed file is refused: %v", firstErr)
	}) {
		c.Case(fmt.Sprint(k), false)
		return
	}
	c.Check("C01/font-page-count", n == len(k.Doc.Pages), k, func() string {
		return fmt.Sprintf("PageCount=%d, the document has %d page leaves", n, len(k.Doc.Pages))
	})
	for i, pg := range k.Doc.Pages {
		var frs []string
		if i < len(pages) {
			frs = pages[i]
		}
		c.Check("C01/font-fragment-count", len(frs) == len(pg.Lines), k, func() string {
			return fmt.Sprintf("page %d: %d strings are shown, %d fragments reported: %q", i+1, len(pg.Lines), len(frs), frs)
		})
		for j, l := range pg.Lines {
			g := ""
			if j < len(frs) {
				g = frs[j]
			}
			fs := k.Doc.Fonts[l.Font]
			c.Check("C01/font-text-"+fontClass(fs), g == l.Text, k, func() string {
				return fmt.Sprintf("page %d line %d, font /%s (%s, /Encoding %q, codes %s, ToUnicode %s): the font defines %q, reported %q",
					i+1, j+1, fontName(k.Layout.Names, l.Font), fs.Kind, fs.Enc, fs.Codes, fs.ToUni, l.Text, g)
			})
		}
	}
	c.Case(fmt.Sprint(k), true)
}

func countFontCase(c *hx.Ctx, k fcase) {
	for _, fs := range k.Doc.Fonts {
		c.Count("font:kind=" + fs.Kind)
		c.Count("font:codes=" + fs.Codes)
		c.Count("font:tounicode=" + fs.ToUni)
		if fs.Kind != "Type0" {
			e := fs.Enc
			if e == "" {
				e = "absent"
			}
			if fs.EncDict {
				e += "(dict)"
			}
			c.Count("font:encoding=" + e)
		}
		if fs.Codes == "diff" {
			c.Count(fmt.Sprintf("font:differences kind=%s superseded-run=%v unknown-names=%v", fs.Kind, fs.Extra&1 != 0, fs.Extra&2 != 0))
		}
		c.Count(fmt.Sprintf("font:ligatures=%v", fs.Ligs))
		if fs.ToUni != "none" && fs.Codes != "enc" && fs.Codes != "diff" && fs.Codes != "identity" {
			ld := fs.Lead
			if ld == "" {
				ld = "none"
			}
			c.Count(fmt.Sprintf("font:lead (bytes every shown string of a subset font begins with) width=%d %s", map[bool]int{false: 1, true: 2}[fs.Kind == "Type0"], ld))
		}
	}
	lay := k.Layout
	c.Count(fmt.Sprintf("font:fonts-per-doc=%d", len(k.Doc.Fonts)))
	c.Count(fmt.Sprintf("font:layout xrefstream=%v", lay.XrefStream || lay.ObjStm))
	c.Count(fmt.Sprintf("font:layout objstm=%v", lay.ObjStm))
	c.Count(fmt.Sprintf("font:layout filters=%d", lay.Filters))
	c.Count(fmt.Sprintf("font:layout lengthmode=%d", lay.LengthMode))
	c.Count(fmt.Sprintf("font:layout revisions=%d", lay.Revisions))
	c.Count("font:layout resources=" + lay.ResAt)
}

func runFonts(c *hx.Ctx) {
	ndocs := c.N(40, 400)
	per := c.N(3, 10)
	for d := 0; d < ndocs; d++ {
		r := c.Rng.Fork(uint64(1_000_000 + d))
		doc := genFontDoc(r, fmt.Sprintf("T%d", d))
		for l := 0; l < per; l++ {
			k := fcase{Fontcase: 1, Doc: doc, Layout: genFontLayout(r)}
			runFontCase(c, k, "r")
			countFontCase(c, k)
		}
	}
}
