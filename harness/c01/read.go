package c01

// The `c01.read` op: the abstract file the writer recorded (objects and cross-reference
// sections, see writers/trace.go) goes to the Lean reader model together with zlib's and
// NFC's answers; tabula's side is what its public API reports for the bytes of that file.

import (
	"fmt"
	"strings"

	"github.com/tsawler/tabula"
	"golang.org/x/text/unicode/norm"

	"verifharness/hx"
	"verifharness/writers"
)

func optInt(v int64) string {
	if v < 0 {
		return "~"
	}
	return fmt.Sprint(v)
}

// absFileFields renders the trace as the <start> <sections> <objects> fields of the op.
func absFileFields(tr *writers.Trace) string {
	var secs []string
	for _, s := range tr.Secs {
		var es []string
		for _, e := range s.Entries {
			switch e.E.Type {
			case 0:
				es = append(es, fmt.Sprintf("%df%d", e.Num, e.E.F1))
			case 1:
				es = append(es, fmt.Sprintf("%dn%d", e.Num, e.E.F1))
			default:
				es = append(es, fmt.Sprintf("%dc%d.%d", e.Num, e.E.F1, e.E.F2))
			}
		}
		el := "-"
		if len(es) > 0 {
			el = strings.Join(es, ",")
		}
		secs = append(secs, fmt.Sprintf("%d/%s/%s/%s", s.Offset, optInt(s.Prev), optInt(int64(s.Root())), el))
	}
	var objs []string
	for _, o := range tr.Objs {
		if o.Stream {
			objs = append(objs, fmt.Sprintf("%d/%d/s/%s/%s", o.Offset, o.Num, hx.Hex(o.Dict), hx.Hex(o.Data)))
		} else {
			objs = append(objs, fmt.Sprintf("%d/%d/p/%s", o.Offset, o.Num, hx.Hex(o.Body)))
		}
	}
	sl, ol := "-", "-"
	if len(secs) > 0 {
		sl = strings.Join(secs, ";")
	}
	if len(objs) > 0 {
		ol = strings.Join(objs, ";")
	}
	return fmt.Sprintf("%d %s %s", tr.Start, sl, ol)
}

// inflateTable: zlib's own answer for every zlib stream the writer put into the file.
func inflateTable(tr *writers.Trace) string {
	seen := map[string]bool{}
	var parts []string
	for _, p := range tr.Inflate {
		if seen[string(p.In)] {
			continue
		}
		seen[string(p.In)] = true
		out, ok := writers.Inflate(p.In)
		o := "!"
		if ok {
			o = hx.Hex(out)
		}
		parts = append(parts, hx.Hex(p.In)+">"+o)
	}
	if len(parts) == 0 {
		return "_"
	}
	return strings.Join(parts, ";")
}

func scalars(s string, sep string) string {
	rs := []rune(s)
	if len(rs) == 0 {
		return "-"
	}
	xs := make([]string, len(rs))
	for i, r := range rs {
		xs[i] = fmt.Sprintf("%x", r)
	}
	return strings.Join(xs, sep)
}

// nfcTable: x/text's NFC of every string the document can show (the line texts as the two
// fonts encode them, and the two stale markers).
func nfcTable(doc writers.LDoc) string {
	seen := map[string]bool{}
	var parts []string
	add := func(s string) {
		if !seen[s] {
			seen[s] = true
			parts = append(parts, scalars(s, ",")+">"+scalars(norm.NFC.String(s), ","))
		}
	}
	for _, p := range doc.Pages {
		for _, l := range p.Lines {
			if l.Font == 0 {
				var b strings.Builder
				for _, r := range l.Text {
					if r > 0xFF {
						r = '?'
					}
					b.WriteRune(r)
				}
				add(b.String())
			} else {
				add(l.Text)
			}
		}
	}
	add("STALE-CONTENT")
	add("STALE-PAGE-LEAF")
	if len(parts) == 0 {
		return "~"
	}
	return strings.Join(parts, ";")
}

// implRead is tabula's answer through the public API: the page count, then the fragment
// texts of every page in the order the content shows them.
func implRead(c *hx.Ctx, k interface{}, path string) (string, bool) {
	out := "err"
	ok := c.Guard("C01", k, 30, func() {
		ext := tabula.Open(path)
		n, err := ext.PageCount()
		ext.Close()
		if err != nil {
			return
		}
		var pages []string
		for i := 1; i <= n; i++ {
			frs, _, err := tabula.Open(path).Pages(i).Fragments()
			if err != nil {
				return
			}
			var ss []string
			for _, f := range frs {
				ss = append(ss, scalars(f.Text, "."))
			}
			if len(ss) == 0 {
				pages = append(pages, "~")
			} else {
				pages = append(pages, strings.Join(ss, ","))
			}
		}
		body := "-"
		if len(pages) > 0 {
			body = strings.Join(pages, "|")
		}
		out = fmt.Sprintf("ok n=%d %s", n, body)
	})
	return out, ok
}

// readOp emits the correspondence op for one rendered file.
func readOp(c *hx.Ctx, k kase, tr *writers.Trace, path string) {
	got, ok := implRead(c, k, path)
	if !ok {
		return
	}
	c.Op("c01.read "+absFileFields(tr)+" "+inflateTable(tr)+" "+nfcTable(k.Doc), got)
	bytesOps(c, k, path, inflateTable(tr), nfcTable(k.Doc), got)
}

func countLayout(c *hx.Ctx, lay writers.Layout) {
	eol := map[string]string{"\n": "lf", "\r\n": "crlf", "\r": "cr"}[lay.EOL]
	c.Count("read:eol=" + eol)
	c.Count(fmt.Sprintf("read:xrefstream=%v", lay.XrefStream || lay.ObjStm))
	c.Count(fmt.Sprintf("read:objstm=%v", lay.ObjStm))
	c.Count(fmt.Sprintf("read:lengthmode=%d", lay.LengthMode))
	c.Count(fmt.Sprintf("read:split=%d", lay.Split))
	c.Count(fmt.Sprintf("read:splitws=%v", lay.SplitWS))
	c.Count(fmt.Sprintf("read:depth=%d", lay.Depth))
	c.Count(fmt.Sprintf("read:revisions=%d", lay.Revisions))
	c.Count(fmt.Sprintf("read:shuffle=%v", lay.Shuffle))
	c.Count(fmt.Sprintf("read:filters=%d", lay.Filters))
	c.Count(fmt.Sprintf("read:bigpad=%d", lay.BigPad))
	c.Count(fmt.Sprintf("read:parmsshape=%d", lay.ParmsShape))
}
