package c20

// Correspondence ops for the public API around the C20 mechanisms
// (Model/Admit.lean; wire format parsed in Handlers/C20.lean):
//
//	c20.fmt       <n> <stem>            -> Format(n).String() Extension() Detect(stem+Extension()).String()
//	c20.mimecheck <zip>                 -> ok | invalid | readerr      (*Reader).validateMimetype
//	c20.zipdrm    <zip>                 -> <FORMAT> <drm|ok>           DetectFromReader + checkForDRM on ONE archive
//	c20.epubopen  <zip> <rest>          -> ok | drm | invalid | structure   epubdoc.OpenReader
//	c20.open      <name> <fs> <kind>    -> outcome class of tabula.Open(name).<op of kind>()
//	c20.hist      <fs|fs|...> <calls>   -> one token per call of a history on the public API
//
// <zip>  = `err` (archive/zip rejects the bytes), `-` (no members) or members in
//          archive order joined by `,`; a member is `namehex`, followed by
//          `:d=<contenthex>` for a member named "mimetype" that could be read and by
//          `:e=B` (encoding/xml rejects it) or `:e=<algohex.urihex;...>` for a member
//          named META-INF/encryption.xml.
// <fs>   = `M` (no such file), `D` (a directory) or `F/<first512hex>/<accepts>/<zip>`;
//          <accepts> = seven 0/1 flags (PDF DOCX ODT XLSX PPTX HTML EPUB): does that
//          format's reader, past tabula's own gates, open these bytes.
// <kind> = t Text | d Document/Chunks/ChunksWithConfig | m ToMarkdown(WithOptions) |
//          f Fragments/Lines/Paragraphs/ReadingOrder/Analyze/Elements/Headings/Lists/Blocks |
//          p PageCount | q IsCharacterLevel/IsMultiColumn
// <calls>= `O<namehex>` Open, `P` FromReader (a PDF reader the harness opened itself),
//          `H1`/`H0` FromHTMLString / failing FromHTMLReader,
//          `V<i>`/`W<i>` a configuration method on extractor i (valid / PageRange with
//          start > end), `T<kind><i>`, `C<i>` Close, `R<j>` the bytes under every name
//          become version j of the table; extractors are numbered by creation.

import (
	"archive/zip"
	"bytes"
	"errors"
	"fmt"
	"io"
	"os"
	"path/filepath"
	"strings"

	"github.com/tsawler/tabula"
	"github.com/tsawler/tabula/epubdoc"
	"github.com/tsawler/tabula/format"
	"github.com/tsawler/tabula/rag"
	"github.com/tsawler/tabula/reader"

	"verifharness/hx"
	"verifharness/writers"
)

// ---- what the external libraries say of some bytes ----------------------------------

// encField: what tabula's own xml.Unmarshal makes of an encryption.xml (the
// entries are a parameter of Model/Admit.lean; Model/EncXml.lean models the
// unmarshalling itself and c20.encxml ties it, see bytes.go).
func encField(data []byte) string {
	es, err := epubdoc.VerifEncryptionEntries(data)
	if err != nil {
		return "e=B"
	}
	xs := make([]string, len(es))
	for i, it := range es {
		xs[i] = hx.HexS(it[0]) + "." + hx.HexS(it[1])
	}
	return "e=" + strings.Join(xs, ";")
}

// azipField: what archive/zip makes of the bytes.
func azipField(data []byte) string {
	zr, err := zip.NewReader(bytes.NewReader(data), int64(len(data)))
	if err != nil {
		return "err"
	}
	if len(zr.File) == 0 {
		return "-"
	}
	xs := make([]string, len(zr.File))
	for i, f := range zr.File {
		xs[i] = hx.HexS(f.Name)
		if f.Name != "mimetype" && f.Name != "META-INF/encryption.xml" {
			continue
		}
		var content []byte
		rc, err := f.Open()
		if err == nil {
			content, err = io.ReadAll(rc)
			rc.Close()
		}
		switch {
		case f.Name == "mimetype" && err == nil:
			xs[i] += ":d=" + hx.Hex(content)
		case f.Name == "META-INF/encryption.xml" && err != nil:
			xs[i] += ":e=B"
		case f.Name == "META-INF/encryption.xml":
			xs[i] += ":" + encField(content)
		}
	}
	return strings.Join(xs, ",")
}

// world is one version of the bytes stored under the names of a case.
type world struct {
	Kind   string // "file", "missing", "dir"
	Data   []byte
	T      string // the format the bytes are a valid document of ("none")
	Token  string
	What   string
	DRM    bool // an EPUB that the property says must be refused as DRM-protected
	NoDRM  bool // an EPUB that the property says must open
	Struct bool // EPUB: container / OPF / spine are intact
	Valid  bool // a valid document of format T (the oracles of the property apply)
}

func (w world) accepts() string {
	var b strings.Builder
	for _, f := range sevenFormats {
		ok := f == FHTML || (f == w.T && (f != FEPUB || w.Struct))
		if ok {
			b.WriteByte('1')
		} else {
			b.WriteByte('0')
		}
	}
	return b.String()
}

func (w world) field() string {
	switch w.Kind {
	case "missing":
		return "M"
	case "dir":
		return "D"
	}
	return "F/" + hx.Hex(first512(w.Data)) + "/" + w.accepts() + "/" + azipField(w.Data)
}

// put stores the world under path (atomically for files, so that readers
// opened on the previous bytes keep them).
func (w world) put(path string) {
	switch w.Kind {
	case "missing":
		os.RemoveAll(path)
	case "dir":
		os.RemoveAll(path)
		os.MkdirAll(path, 0o755)
	default:
		if st, err := os.Stat(path); err == nil && st.IsDir() {
			os.RemoveAll(path)
		}
		tmp := path + ".tmp~"
		if err := os.WriteFile(tmp, w.Data, 0o644); err != nil {
			panic(err)
		}
		if err := os.Rename(tmp, path); err != nil {
			panic(err)
		}
	}
}

func docWorld(d *Doc) world {
	t := d.Format
	return world{Kind: "file", Data: d.Bytes(), T: t, Token: d.Token, What: d.Format + ":" + d.Variant, Struct: true, NoDRM: d.Format == FEPUB, Valid: true}
}

// epubWorld: an EPUB with the given DRM state; breakage removes / damages part
// of the structure the reader needs AFTER the DRM gate.
func epubWorld(r *hx.Rng, token string, s drmSpec, breakage string) world {
	e := genEpub(r, token)
	for i := range s.Entries {
		if s.Entries[i].URI == "" {
			s.Entries[i].URI = uriForm(r, e, s.Entries[i].Item%len(e.Items), r.Intn(nURIForms))
		}
		s.Entries[i].Item %= len(e.Items)
	}
	var extra []writers.Member
	if s.Enc == "bad" {
		extra = append(extra, writers.Member{Name: "META-INF/encryption.xml", Data: brokenEncryptionXML(r)})
	} else if s.Enc == "entries" {
		extra = append(extra, writers.Member{Name: "META-INF/encryption.xml", Data: encryptionXML(r, s.Entries, r.Intn(60))})
	}
	if s.Rights {
		extra = append(extra, writers.Member{Name: "META-INF/rights.xml", Data: []byte(rightsXML)})
	}
	hx.Shuffle(r, extra)
	ms := e.Members(extra)
	drop := func(name string) {
		var out []writers.Member
		for _, m := range ms {
			if m.Name != name {
				out = append(out, m)
			}
		}
		ms = out
	}
	structOK := true
	switch breakage {
	case "no-container":
		drop("META-INF/container.xml")
		structOK = false
	case "no-opf":
		drop(e.Base + "content.opf")
		structOK = false
	case "bad-container":
		for i := range ms {
			if ms[i].Name == "META-INF/container.xml" {
				ms[i].Data = []byte("<container><rootfiles>")
			}
		}
		structOK = false
	case "no-mimetype":
		drop("mimetype")
	case "wrong-mimetype":
		ms[0].Data = []byte("application/zip")
	case "no-markers":
		drop("mimetype")
		drop("META-INF/container.xml")
		structOK = false
	case "shuffled":
		hx.Shuffle(r, ms)
	}
	must, _ := s.mustRefuse(e)
	valid := breakage == "" || breakage == "shuffled"
	return world{Kind: "file", Data: writers.Zip(ms), T: FEPUB, Token: token, Struct: structOK, Valid: valid,
		What: fmt.Sprintf("EPUB:%d:%s:%s", e.Version, breakage, s.describe(e)), DRM: must, NoDRM: s.mustOpen() && valid}
}

// randomDRMSpec: a DRM state over item indices (resolved against the EPUB by epubWorld).
func randomDRMSpec(r *hx.Rng) drmSpec {
	switch r.Intn(8) {
	case 0:
		return drmSpec{Enc: "none"}
	case 1:
		return drmSpec{Rights: true, Enc: "none"}
	case 2:
		return drmSpec{Enc: "bad"}
	case 3:
		return drmSpec{Enc: "entries"}
	}
	var es []encEntry
	for k := r.Range(1, 4); k > 0; k-- {
		es = append(es, encEntry{Algo: pickAlgo(r, r.Intn(3)), Item: r.Intn(64)})
	}
	return drmSpec{Enc: "entries", Entries: es, Rights: r.Chance(1, 8)}
}

var epubBreakages = []string{"", "", "", "shuffled", "no-container", "no-opf", "bad-container", "no-mimetype", "wrong-mimetype", "no-markers"}

// junkWorld: bytes that are a valid document of no format.
func junkWorld(r *hx.Rng, i int) world {
	w := world{Kind: "file", T: "none", Token: "-"}
	switch i % 9 {
	case 0:
		w.Data, w.What = r.Bytes(r.Range(0, 64)), "random"
		if len(w.Data) >= 2 && w.Data[0] == 'P' && w.Data[1] == 'K' {
			w.Data[0] = 'Q'
		}
	case 1:
		w.Data, w.What = []byte{}, "empty"
	case 2:
		w.Data, w.What = []byte("%PDF-1.4\nnot really\n"), "pdf-header-only"
	case 3:
		w.Data, w.What = append([]byte("PK\x03\x04"), r.Bytes(r.Range(0, 80))...), "pk-garbage"
	case 4:
		w.Data, w.What = writers.Zip(nil), "zip-empty"
	case 5:
		w.Data, w.What = writers.Zip([]writers.Member{{Name: "readme.txt", Data: []byte("hello")}, {Name: "data/x.bin", Data: r.Bytes(8)}}), "zip-no-marker"
	case 6:
		d := genDoc(r, hx.Pick(r, []string{FDOCX, FXLSX, FPPTX, FODT, FEPUB}), "tokj")
		b := d.Bytes()
		w.Data, w.What = b[:r.Range(4, len(b)-1)], "zip-truncated"
	case 7:
		w.Kind, w.What = "missing", "missing"
	case 8:
		w.Kind, w.What = "dir", "directory"
	}
	return w
}

// genWorld: one version of the bytes: mostly valid documents of the seven
// formats (EPUBs with every DRM state and damaged structure), HTML the sniffer
// cannot classify, plus a malformed stream.
func genWorld(r *hx.Rng, i int, token string) world {
	plan := []string{FPDF, FDOCX, FODT, FXLSX, FPPTX, FHTML, FEPUB, "unsniffable", "drm", "drm", "junk", "drm-broken", "prefixed", "prefixed-drm"}
	switch k := plan[i%len(plan)]; k {
	case "unsniffable":
		return docWorld(htmlUnsniffable(r, token))
	case "drm":
		return epubWorld(r, token, randomDRMSpec(r), hx.Pick(r, epubBreakages[:4]))
	case "drm-broken":
		return epubWorld(r, token, randomDRMSpec(r), hx.Pick(r, epubBreakages[4:]))
	case "prefixed", "prefixed-drm":
		// a readable archive behind a few bytes of junk (as in a self-extracting
		// archive): archive/zip still reads it, the sniffer sees no local header
		// at offset 0 and cannot classify it, so it is admitted by extension
		var w world
		if k == "prefixed" {
			w = docWorld(genDoc(r, hx.Pick(r, []string{FDOCX, FODT, FXLSX, FPPTX, FEPUB}), token))
		} else {
			w = epubWorld(r, token, randomDRMSpec(r), hx.Pick(r, epubBreakages[:4]))
		}
		junk := hx.Pick(r, []string{"MZ\x90\x00", "#!/bin/sh\n", "\x00\x00\x00\x00", "junk junk "})
		w.Data = append([]byte(junk), w.Data...)
		w.What = "prefixed:" + w.What
		w.Valid = false
		return w
	case "junk":
		return junkWorld(r, i/len(plan)+7) // missing, directory, then the byte junk
	default:
		d := genDoc(r, k, token)
		if d.IsZip() && r.Bool() {
			ms := append([]writers.Member(nil), d.Members...)
			hx.Shuffle(r, ms)
			ms, _ = addDecoys(r, ms, r.Range(0, 3))
			d.Members = ms
			d.Variant += "-shuffled"
		}
		return docWorld(d)
	}
}

// ---- running the public API ---------------------------------------------------------------

type failingReader struct{}

func (failingReader) Read([]byte) (int, error) { return 0, errors.New("c20 read failure") }

// apiClass: the admission class of an operation's error.
func apiClass(err error) string {
	if err == nil {
		return "reached"
	}
	msg := err.Error()
	switch {
	case errors.Is(err, epubdoc.ErrDRMProtected):
		return "drm"
	case strings.Contains(msg, "c20 read failure"), strings.HasPrefix(msg, "invalid page range"):
		return "errset"
	case strings.HasPrefix(msg, "file format mismatch"):
		return "mismatch"
	case strings.HasPrefix(msg, "failed to detect file format"):
		return "detectfailed"
	case strings.HasPrefix(msg, "unsupported file format"):
		return "unsupported"
	case strings.HasPrefix(msg, "failed to open file"):
		return "openfailed"
	case strings.HasPrefix(msg, "no filename specified"):
		return "nofilename"
	case strings.HasPrefix(msg, "operation is only supported for PDF"):
		return "notpdf"
	case strings.HasPrefix(msg, "failed to open "):
		return "readerfailed"
	}
	return "body-error(" + strings.ReplaceAll(clip(msg, 60), " ", "_") + ")"
}

var apiKinds = []byte{'t', 'd', 'm', 'f', 'p', 'q'}

// runKind calls one operation of the kind on e; text is the extracted text for
// the kinds that produce one.
func runKind(r *hx.Rng, e *tabula.Extractor, kind byte) (method string, text string, err error, panicked string) {
	call := func(name string, f func()) {
		method = name
		panicked = hx.Safe(f)
	}
	switch kind {
	case 't':
		call("Text", func() { text, _, err = e.Text() })
	case 'd':
		switch r.Intn(3) {
		case 0:
			call("Document", func() { _, _, err = e.Document() })
		case 1:
			call("Chunks", func() { _, _, err = e.Chunks() })
		default:
			call("ChunksWithConfig", func() { _, _, err = e.ChunksWithConfig(rag.DefaultChunkerConfig(), rag.DefaultSizeConfig()) })
		}
	case 'm':
		if r.Bool() {
			call("ToMarkdown", func() { text, _, err = e.ToMarkdown() })
		} else {
			call("ToMarkdownWithOptions", func() { text, _, err = e.ToMarkdownWithOptions(rag.DefaultMarkdownOptions()) })
		}
	case 'f':
		switch r.Intn(9) {
		case 0:
			call("Fragments", func() { _, _, err = e.Fragments() })
		case 1:
			call("Lines", func() { _, err = e.Lines() })
		case 2:
			call("Paragraphs", func() { _, err = e.Paragraphs() })
		case 3:
			call("ReadingOrder", func() { _, err = e.ReadingOrder() })
		case 4:
			call("Analyze", func() { _, err = e.Analyze() })
		case 5:
			call("Elements", func() { _, err = e.Elements() })
		case 6:
			call("Headings", func() { _, err = e.Headings() })
		case 7:
			call("Lists", func() { _, err = e.Lists() })
		default:
			call("Blocks", func() { _, err = e.Blocks() })
		}
	case 'p':
		call("PageCount", func() { _, err = e.PageCount() })
	case 'q':
		if r.Bool() {
			call("IsCharacterLevel", func() { _, err = e.IsCharacterLevel() })
		} else {
			call("IsMultiColumn", func() { _, err = e.IsMultiColumn() })
		}
	}
	return
}

// configure applies one valid configuration method.
func configure(r *hx.Rng, e *tabula.Extractor) (*tabula.Extractor, string) {
	switch r.Intn(8) {
	case 0:
		return e.Pages(1), "Pages(1)"
	case 1:
		return e.PageRange(1, 1), "PageRange(1,1)"
	case 2:
		return e.ExcludeHeaders(), "ExcludeHeaders"
	case 3:
		return e.ExcludeFooters(), "ExcludeFooters"
	case 4:
		return e.ExcludeHeadersAndFooters(), "ExcludeHeadersAndFooters"
	case 5:
		return e.JoinParagraphs(), "JoinParagraphs"
	case 6:
		return e.ByColumn(), "ByColumn"
	default:
		return e.PreserveLayout(), "PreserveLayout"
	}
}

// apiNames: file names for one case: every extension, a case variant of the
// document's own, none, an unsupported one.
func apiNames(r *hx.Rng, t string) []string {
	names := []string{}
	for _, e := range allExts {
		names = append(names, "doc"+e)
	}
	for _, e := range extOf[t] {
		names = append(names, "doc"+mixCase(r, strings.ToUpper(e)))
	}
	names = append(names, "doc", "doc.txt", "doc"+strings.ToUpper(hx.Pick(r, allExts)), "a.pdf.d/doc"+hx.Pick(r, allExts), "doc.v2"+hx.Pick(r, allExts))
	return names
}

type apiCase struct {
	Kind   string `json:"kind"`
	Seed   uint64 `json:"seed"`
	Index  int    `json:"index"`
	Name   string `json:"name,omitempty"`
	Op     string `json:"op,omitempty"`
	What   string `json:"what,omitempty"`
	Calls  string `json:"calls,omitempty"`
	Detail string `json:"detail,omitempty"`
}

// RunAPIOpen: world #idx under every name × every kind of operation, each on a
// fresh tabula.Open(name).
func RunAPIOpen(c *hx.Ctx, idx int, verbose bool) {
	r := hx.NewRng(c.Seed).Fork(0xA910).Fork(uint64(idx))
	token := fmt.Sprintf("tokA%dq%04x", idx, r.Intn(1<<16))
	w := genWorld(r, idx, token)
	dir := filepath.Join(c.OutDir, fmt.Sprintf("api-%d", idx))
	os.MkdirAll(dir, 0o755)
	if !verbose {
		defer os.RemoveAll(dir)
	}
	fs := w.field()
	c.Count("api-world:" + strings.SplitN(w.What, ":", 2)[0])
	reachedAny := false
	for _, name := range apiNames(r, w.T) {
		path := filepath.Join(dir, name)
		os.MkdirAll(filepath.Dir(path), 0o755)
		w.put(path)
		want := wantExtFormat(name)
		for _, kind := range apiKinds {
			if !c.Thorough() && kind != 't' && r.Chance(1, 2) {
				continue
			}
			e := tabula.Open(path)
			method, text, err, pan := runKind(r, e, kind)
			e.Close()
			kase := apiCase{Kind: "api-open", Seed: c.Seed, Index: idx, Name: name, Op: method, What: w.What}
			if !c.Check("C20/panic-open", pan == "", kase, func() string { return "panic: " + pan }) {
				continue
			}
			cls := apiClass(err)
			c.Op(fmt.Sprintf("c20.open %s %s %c", hx.HexS(name), fs, kind), cls)
			c.Count("api-open:" + cls)
			reachedAny = reachedAny || cls == "reached"
			// statement-level oracles, over every operation of the public API
			switch {
			case want == FUnknown:
				c.Check("C20/api-no-extension-refused", err != nil, kase, func() string {
					return fmt.Sprintf("%s named %q: %s() succeeded", w.What, name, method)
				})
			case w.Kind != "file" || w.T == "none":
			case want == w.T && w.DRM:
				c.Check("C20/api-drm-refused", cls == "drm", kase, func() string {
					return fmt.Sprintf("%s named %q: %s() = %v, want ErrDRMProtected", w.What, name, method, err)
				})
			case want == w.T && (w.T != FEPUB || w.NoDRM):
				pdfOnly := kind == 'f' || kind == 'q'
				ok := err == nil || (pdfOnly && w.T != FPDF && cls == "notpdf")
				if kind == 't' || (kind == 'm' && w.T != FPDF) {
					ok = ok && strings.Contains(text, w.Token)
				}
				c.Check("C20/api-opens-under-own-ext", ok, kase, func() string {
					return fmt.Sprintf("%s named %q: %s() = %v (token in text: %v)", w.What, name, method, err, strings.Contains(text, w.Token))
				})
			case want != w.T && w.Valid:
				c.Check("C20/api-mismatch-refused", err != nil, kase, func() string {
					return fmt.Sprintf("%s named %q (asks for %s): %s() succeeded", w.What, name, want, method)
				})
			}
		}
		if !verbose {
			os.RemoveAll(path)
		}
	}
	c.Case("api-open:"+w.What+fmt.Sprintf(":%x", len(w.Data)), reachedAny)
}

// RunAPIHist: one history of calls on the public API over a few versions of
// the bytes, all names of the case holding the same bytes at any moment.
func RunAPIHist(c *hx.Ctx, idx int, verbose bool) {
	r := hx.NewRng(c.Seed).Fork(0x4157).Fork(uint64(idx))
	dir := filepath.Join(c.OutDir, fmt.Sprintf("hist-%d", idx))
	os.MkdirAll(dir, 0o755)
	if !verbose {
		defer os.RemoveAll(dir)
	}
	nv := r.Range(1, 3)
	ws := make([]world, nv)
	fields := make([]string, nv)
	for j := range ws {
		ws[j] = genWorld(r, r.Intn(14*9), fmt.Sprintf("tokH%dv%dq%04x", idx, j, r.Intn(1<<16)))
		fields[j] = ws[j].field()
	}
	// names: the first version's own extension, and one or two others
	var names []string
	if xs := extOf[ws[0].T]; len(xs) > 0 {
		names = append(names, "doc"+mixCase(r, hx.Pick(r, xs)))
	}
	for len(names) < 3 {
		n := "doc" + hx.Pick(r, append([]string{"", ".txt"}, allExts...))
		dup := false
		for _, x := range names {
			dup = dup || strings.EqualFold(x, n)
		}
		if !dup {
			names = append(names, n)
		}
	}
	cur := 0
	putAll := func() {
		for _, n := range names {
			ws[cur].put(filepath.Join(dir, n))
		}
	}
	putAll()
	type live struct {
		e    *tabula.Extractor
		name string // "" for extractors without a file
		ver  int    // version the open reader was opened on (-1: none)
	}
	var exts []*live
	var calls, got, story []string
	flags := func(e *tabula.Extractor) string {
		st := e.VerifState()
		b := func(x bool) int {
			if x {
				return 1
			}
			return 0
		}
		return fmt.Sprintf("/o%dw%d", b(st.ReaderOpened), b(st.OwnsReader))
	}
	kase := apiCase{Kind: "api-hist", Seed: c.Seed, Index: idx}
	// a PDF reader of the caller's own, for FromReader (opened on first use)
	var own *reader.Reader
	defer func() {
		if own != nil {
			own.Close()
		}
	}()
	n := r.Range(4, 14)
	reached := false
	for step := 0; step < n; step++ {
		p := r.Intn(100)
		switch {
		case len(exts) == 0 || p < 14:
			name := hx.Pick(r, names)
			if r.Bool() {
				name = names[0]
			}
			wire := name
			path := filepath.Join(dir, name)
			if r.Chance(1, 25) {
				wire, path, name = "", "", ""
			}
			e := tabula.Open(path)
			exts = append(exts, &live{e: e, name: name, ver: -1})
			calls = append(calls, "O"+hx.HexS(wire))
			got = append(got, fmt.Sprintf("#%d%s", len(exts)-1, flags(e)))
			story = append(story, fmt.Sprintf("Open(%q)", name))
		case p < 17:
			if own == nil {
				path := filepath.Join(dir, "own-reader.pdf")
				os.WriteFile(path, pdfDoc(r, "tokOwn").Raw, 0o644)
				rd, err := reader.Open(path)
				if err != nil {
					panic("harness PDF does not open: " + err.Error())
				}
				own = rd
			}
			e := tabula.FromReader(own)
			exts = append(exts, &live{e: e, ver: -1})
			calls = append(calls, "P")
			got = append(got, fmt.Sprintf("#%d%s", len(exts)-1, flags(e)))
			story = append(story, "FromReader")
		case p < 20:
			var e *tabula.Extractor
			if r.Bool() {
				e = tabula.FromHTMLString("<html><body><p>inline " + ws[0].Token + "</p></body></html>")
				calls = append(calls, "H1")
			} else {
				e = tabula.FromHTMLReader(failingReader{})
				calls = append(calls, "H0")
			}
			exts = append(exts, &live{e: e, ver: -1})
			got = append(got, fmt.Sprintf("#%d%s", len(exts)-1, flags(e)))
			story = append(story, "FromHTML")
		case p < 34:
			i := r.Intn(len(exts))
			var e *tabula.Extractor
			var what string
			if r.Chance(1, 6) {
				e, what = exts[i].e.PageRange(3, 1), "PageRange(3,1)"
				calls = append(calls, fmt.Sprintf("W%d", i))
			} else {
				e, what = configure(r, exts[i].e)
				calls = append(calls, fmt.Sprintf("V%d", i))
			}
			exts = append(exts, &live{e: e, name: exts[i].name, ver: -1})
			got = append(got, fmt.Sprintf("#%d%s", len(exts)-1, flags(e)))
			story = append(story, fmt.Sprintf("#%d.%s", i, what))
		case p < 44:
			i := r.Intn(len(exts))
			pan := hx.Safe(func() { exts[i].e.Close() })
			c.Check("C20/panic-open", pan == "", kase, func() string { return "panic in Close: " + pan })
			exts[i].ver = -1
			calls = append(calls, fmt.Sprintf("C%d", i))
			got = append(got, "closed"+flags(exts[i].e))
			story = append(story, fmt.Sprintf("#%d.Close", i))
		case p < 58 && nv > 1:
			cur = (cur + 1 + r.Intn(nv-1)) % nv
			putAll()
			calls = append(calls, fmt.Sprintf("R%d", cur))
			got = append(got, "rw")
			story = append(story, fmt.Sprintf("bytes:=v%d(%s)", cur, ws[cur].What))
		default:
			i := r.Intn(len(exts))
			kind := hx.Pick(r, []byte{'t', 't', 'd', 'm', 'f', 'p', 'p', 'q'})
			x := exts[i]
			before := x.e.VerifState().ReaderOpened
			method, text, err, pan := runKind(r, x.e, kind)
			story = append(story, fmt.Sprintf("#%d.%s", i, method))
			k2 := kase
			k2.Calls, k2.Op = strings.Join(story, "; "), method
			if !c.Check("C20/panic-open", pan == "", k2, func() string { return "panic: " + pan }) {
				return
			}
			cls := apiClass(err)
			calls = append(calls, fmt.Sprintf("T%c%d", kind, i))
			got = append(got, cls+flags(x.e))
			c.Count("api-hist-op:" + cls)
			on := x.ver
			if !before {
				on = cur // a reader opened by this call was opened on the current bytes
			}
			if x.e.VerifState().ReaderOpened {
				x.ver = on
			} else {
				x.ver = -1
			}
			if x.name == "" {
				continue
			}
			// a PDF-only operation refused on a file of another format leaves no
			// reader (no descriptor) behind, whatever was called before
			// (history_refused_pdf_op_releases_reader)
			if cls == "notpdf" {
				st := x.e.VerifState()
				c.Check("C20/api-hist-refused-pdf-op-releases-reader", !st.ReaderOpened && !st.OwnsReader, k2, func() string {
					return fmt.Sprintf("%s() on extractor #%d (name %q) was refused as not a PDF but the extractor keeps a reader (opened=%v owns=%v); history: %s",
						method, i, x.name, st.ReaderOpened, st.OwnsReader, k2.Calls)
				})
			}
			// statement-level oracles over histories: whatever was called before, an
			// operation on an extractor with a file name succeeds only on bytes of
			// the format the name asks for, and never on a DRM-protected EPUB
			if err == nil {
				reached = true
				w := ws[on]
				want := wantExtFormat(x.name)
				okFmt := w.Kind == "file" && (w.T == want || !w.Valid)
				c.Check("C20/api-hist-success-only-on-own-format", okFmt, k2, func() string {
					return fmt.Sprintf("%s() on extractor #%d (name %q) succeeded on bytes %s; history: %s", method, i, x.name, w.What, k2.Calls)
				})
				// (a damaged archive that no longer is an EPUB for the sniffer is, under
				// another name, unclassifiable content admitted by extension)
				c.Check("C20/api-hist-drm-never-read", !(w.T == FEPUB && w.DRM && (want == FEPUB || w.Valid)), k2, func() string {
					return fmt.Sprintf("%s() on extractor #%d (name %q) succeeded on DRM-protected %s; history: %s", method, i, x.name, w.What, k2.Calls)
				})
				if kind == 't' && w.T == want && w.T != "none" {
					c.Check("C20/api-hist-text-of-opened-bytes", strings.Contains(text, w.Token), k2, func() string {
						return fmt.Sprintf("Text() on extractor #%d (name %q): token %q of %s missing; history: %s", i, x.name, w.Token, w.What, k2.Calls)
					})
				}
			}
		}
	}
	for _, x := range exts {
		x.e.Close()
	}
	c.Op("c20.hist "+strings.Join(fields, "|")+" "+strings.Join(calls, ","), strings.Join(got, ","))
	c.Count(fmt.Sprintf("api-hist-len:%d", (len(calls)+4)/5*5))
	c.Case("api-hist:"+strings.Join(calls, ",")+":"+ws[0].What, reached)
}

// ---- archives through the EPUB gate ---------------------------------------------------------

func epubClass(err error) string {
	switch {
	case err == nil:
		return "ok"
	case errors.Is(err, epubdoc.ErrDRMProtected):
		return "drm"
	case errors.Is(err, epubdoc.ErrInvalidArchive):
		return "invalid"
	}
	return "structure"
}

// gateOps: archives (EPUBs in every DRM state and state of damage, documents
// of the other ZIP formats, random member lists over the names the three
// mechanisms key on, non-archives) through validateMimetype, through the
// sniffer and the DRM gate side by side, and through epubdoc.OpenReader.
func gateOps(c *hx.Ctx) {
	r := hx.NewRng(c.Seed).Fork(0x6A7E)
	emit := func(data []byte, rest bool, what string) {
		zf := azipField(data)
		ra := bytes.NewReader(data)
		kase := apiCase{Kind: "api-gate", Seed: c.Seed, What: what}
		if zf != "err" {
			var mc string
			pan := hx.Safe(func() { mc = epubdoc.VerifValidateMimetype(ra, int64(len(data))) })
			if c.Check("C20/panic-open", pan == "", kase, func() string { return "panic: " + pan }) {
				c.Op("c20.mimecheck "+zf, mc)
				c.Count("gate-mimecheck:" + mc)
			}
			if zf == "-" || bytes.HasPrefix(data, []byte("PK\x03\x04")) {
				drm, _ := epubdoc.VerifCheckForDRM(ra, int64(len(data)))
				d := "ok"
				if drm {
					d = "drm"
				}
				c.Op("c20.zipdrm "+zf, detectZipOnly(data)+" "+d)
				c.Count("gate-zipdrm:" + d)
			}
		}
		var oerr error
		pan := hx.Safe(func() {
			rd, err := epubdoc.OpenReader(ra, int64(len(data)))
			oerr = err
			if rd != nil {
				rd.Close()
			}
		})
		if !c.Check("C20/panic-open", pan == "", kase, func() string { return "panic: " + pan }) {
			return
		}
		cls := epubClass(oerr)
		rb := "0"
		if rest {
			rb = "1"
		}
		c.Op("c20.epubopen "+zf+" "+rb, cls)
		c.Count("gate-epubopen:" + cls)
		c.Case("gate:"+what+":"+zf, cls == "ok")
	}
	n := c.N(60, 900)
	for i := 0; i < n; i++ {
		s := randomDRMSpec(r)
		br := hx.Pick(r, epubBreakages)
		w := epubWorld(r, fmt.Sprintf("tokG%d", i), s, br)
		emit(w.Data, w.Struct, w.What)
		// the DRM gate comes before the structure is looked at
		if w.DRM {
			var oerr error
			hx.Safe(func() { _, oerr = epubdoc.OpenReader(bytes.NewReader(w.Data), int64(len(w.Data))) })
			c.Check("C20/drm-gate-before-structure", errors.Is(oerr, epubdoc.ErrDRMProtected), apiCase{Kind: "api-gate", Seed: c.Seed, Index: i, What: w.What}, func() string {
				return fmt.Sprintf("%s: epubdoc.OpenReader = %v, want ErrDRMProtected", w.What, oerr)
			})
		}
	}
	for i := 0; i < c.N(14, 140); i++ {
		d := genDoc(r, sevenFormats[i%7], "tokg")
		emit(d.Bytes(), d.Format == FEPUB, "doc:"+d.Format)
	}
	for i := 0; i < c.N(18, 180); i++ {
		w := junkWorld(r, i)
		if w.Kind == "file" {
			emit(w.Data, false, "junk:"+w.What)
		}
	}
	// random member lists over the names the sniffer, the mimetype check and the
	// DRM gate key on (and near misses of them)
	names := []string{"mimetype", "mimetype", "META-INF/container.xml", "META-INF/rights.xml", "META-INF/encryption.xml", "META-INF/encryption.xml",
		"META-INF/Rights.xml", "meta-inf/rights.xml", "META-INF/rights.xml.bak", "OEBPS/META-INF/rights.xml", "rights.xml", "META-INF/ENCRYPTION.XML",
		"META-INF/encryption.xml/", "encryption.xml", "word/document.xml", "xl/workbook.xml", "ppt/presentation.xml", "Mimetype", "content.opf", "ch1.xhtml"}
	mimes := []string{epubMime, epubMime + "\n", " " + epubMime + "\r\n", epubMime + strings.Repeat(" ", 300), strings.Repeat(" ", 250) + epubMime, epubMime + strings.Repeat("x", 300),
		odtMime, "application/zip", "", "APPLICATION/EPUB+ZIP", epubMime + ";v=3", "\t" + odtMime + "  "}
	for i := 0; i < c.N(250, 5000); i++ {
		k := r.Range(1, 6)
		ms := make([]writers.Member, k)
		for j := range ms {
			ms[j] = writers.Member{Name: hx.Pick(r, names), Data: []byte("x")}
			switch ms[j].Name {
			case "mimetype":
				ms[j].Data = []byte(hx.Pick(r, mimes))
				ms[j].Store = true
			case "META-INF/encryption.xml":
				switch r.Intn(4) {
				case 0:
					ms[j].Data = brokenEncryptionXML(r)
				default:
					var es []encEntry
					for q := r.Range(0, 3); q > 0; q-- {
						es = append(es, encEntry{Algo: pickAlgo(r, r.Intn(3)),
							URI: hx.Pick(r, []string{"OEBPS/ch1.xhtml", "OEBPS/CH1.XHTML", "fonts/f.otf", "a.css", "toc.ncx", "x.xml", "OEBPS/100%25.html", "img.png", ""})})
					}
					ms[j].Data = encryptionXML(r, es, r.Intn(60))
				}
			}
		}
		if r.Chance(1, 6) {
			// one member (often the mimetype / the encryption metadata) cannot be opened
			u := r.Intn(len(ms))
			for j := range ms {
				if (ms[j].Name == "mimetype" || ms[j].Name == "META-INF/encryption.xml") && r.Bool() {
					u = j
				}
			}
			emit(zipUnreadable(ms, u), false, "random-members-unreadable")
			continue
		}
		emit(writers.Zip(ms), false, "random-members")
	}
	// valid EPUBs whose mimetype member cannot be opened: the sniffer falls back to
	// the container, the mimetype check fails and is ignored, the gate still decides
	for i := 0; i < c.N(6, 60); i++ {
		s := randomDRMSpec(r)
		w := epubWorld(r, fmt.Sprintf("tokU%d", i), s, "")
		zr, err := zip.NewReader(bytes.NewReader(w.Data), int64(len(w.Data)))
		if err != nil {
			panic(err)
		}
		var ms []writers.Member
		for _, f := range zr.File {
			rc, _ := f.Open()
			b, _ := io.ReadAll(rc)
			rc.Close()
			ms = append(ms, writers.Member{Name: f.Name, Data: b})
		}
		emit(zipUnreadable(ms, 0), true, "epub-unreadable-mimetype:"+w.What)
	}
}

// zipUnreadable writes the members with the named one under a compression
// method archive/zip cannot read (f.Open fails with zip.ErrAlgorithm).
func zipUnreadable(ms []writers.Member, unreadable int) []byte {
	var buf bytes.Buffer
	zw := zip.NewWriter(&buf)
	for i, m := range ms {
		if i == unreadable {
			w, err := zw.CreateRaw(&zip.FileHeader{Name: m.Name, Method: 99, CompressedSize64: uint64(len(m.Data)), UncompressedSize64: uint64(len(m.Data))})
			if err != nil {
				panic(err)
			}
			w.Write(m.Data)
			continue
		}
		method := zip.Deflate
		if m.Store {
			method = zip.Store
		}
		w, err := zw.CreateHeader(&zip.FileHeader{Name: m.Name, Method: method})
		if err != nil {
			panic(err)
		}
		w.Write(m.Data)
	}
	zw.Close()
	return buf.Bytes()
}

// detectZipOnly: detectZIPFormat on the archive (the bytes start with a local
// header for every archive with members; an empty archive is not sniffed as ZIP).
func detectZipOnly(data []byte) string {
	if !bytes.HasPrefix(data, []byte("PK\x03\x04")) {
		// no member: what detectZIPFormat would say of an empty member list
		return FUnknown
	}
	return detectBytes(data)
}

// spellOps: the three ways the harness spells a container path in a
// CipherReference (relative URI reference, component-escaped, verbatim), for
// the paths of generated EPUBs (conventional and awkward names) and a malformed
// stream of random byte strings: the model's pctEsc must write the same URI,
// and isContentFile must classify it alike.
func spellOps(c *hx.Ctx) {
	r := hx.NewRng(c.Seed).Fork(0x5BE11)
	emit := func(raw string) {
		for _, k := range []string{"ref", "comp", "verbatim"} {
			var u string
			switch k {
			case "ref":
				u = hrefEsc(raw)
			case "comp":
				u = hrefEscAll(raw)
			default:
				u = raw
			}
			got := epubdoc.VerifIsContentFile(u)
			c.Op("c20.spell "+k+" "+hx.HexS(raw), hx.HexS(u)+" "+fmt.Sprint(got))
			c.Count(fmt.Sprintf("spell:%s:content=%v", k, got))
			c.Case("spell:"+k+":"+raw, got)
		}
	}
	for i := 0; i < c.N(30, 400); i++ {
		e := genEpubNames(r, "tokS", []int{0, 1, 4}[i%3])
		for _, it := range e.Items {
			emit(e.Base + it.Path)
		}
	}
	for i := 0; i < c.N(60, 1500); i++ {
		b := r.Bytes(r.Range(0, 12))
		if r.Bool() {
			b = append(b, hx.Pick(r, []string{".xhtml", ".HTML", ".htm", ".css", ".xml", ".otf", ".x html", "%2Ehtml"})...)
		}
		emit(string(b))
	}
}

// fmtOps: the methods of format.Format (String, Extension) for every value,
// including numbers beyond the last constant, and the round trip through Detect.
func fmtOps(c *hx.Ctx) {
	stems := []string{"doc", "", "a.b/c", "x.pdf", "dir.epub/y", "Ünï"}
	for n := 0; n < 12; n++ {
		f := format.Format(n)
		for _, st := range stems {
			got := format.Detect(st + f.Extension()).String()
			c.Op(fmt.Sprintf("c20.fmt %d %s", n, hx.HexS(st)), f.String()+" "+hx.HexS(f.Extension())+" "+got)
			if f.Extension() != "" {
				c.Check("C20/extension-roundtrip", got == f.String(), map[string]interface{}{"kind": "api-fmt", "n": n, "stem": st}, func() string {
					return fmt.Sprintf("format.Detect(%q + %s.Extension()) = %s", st, f, got)
				})
			}
			c.Case(fmt.Sprintf("fmt:%d:%s", n, st), f.Extension() != "")
		}
	}
}

func apiOps(c *hx.Ctx) {
	fmtOps(c)
	gateOps(c)
	spellOps(c)
	for i, n := 0, c.N(42, 700); i < n; i++ {
		RunAPIOpen(c, i, false)
	}
	for i, n := 0, c.N(250, 6000); i < n; i++ {
		RunAPIHist(c, i, false)
	}
}
