package c20

// Independent minimal writers for valid documents of the seven formats.  They
// are written from the formats' specifications (PDF 32000-1 §7.5, ECMA-376 OPC,
// ODF 1.2 part 3, OCF 3.x / OPF 2 and 3, HTML), not from tabula's readers.

import (
	"bytes"
	"fmt"
	"strings"

	"verifharness/hx"
	"verifharness/writers"
)

// Format names as tabula's format.Format.String() prints them.
const (
	FUnknown = "Unknown"
	FPDF     = "PDF"
	FDOCX    = "DOCX"
	FODT     = "ODT"
	FXLSX    = "XLSX"
	FPPTX    = "PPTX"
	FHTML    = "HTML"
	FEPUB    = "EPUB"
)

var sevenFormats = []string{FPDF, FDOCX, FODT, FXLSX, FPPTX, FHTML, FEPUB}

// Doc is one generated document: raw bytes (PDF, HTML) or ZIP members.
type Doc struct {
	Format  string           // the format the document IS (by construction)
	Raw     []byte           // PDF / HTML
	Members []writers.Member // ZIP formats, canonical order
	Token   string           // a word that must appear in the extracted text
	// Sniffable is false for content the sniffers are documented not to
	// classify (HTML without doctype / <html>): admitted by extension only.
	Sniffable bool
	Variant   string
	// Mentions: further members (never a marker) whose names / stored data
	// quote other formats' signatures; layouts place them first, last and
	// in between (mention.go).
	Mentions []writers.Member
	// KeySuffix names the class of spelling the document belongs to
	// (opening.go); it is appended to the keys of the recognition oracles so
	// that a failure names the class.
	KeySuffix string
}

func (d *Doc) IsZip() bool { return d.Members != nil }

func (d *Doc) Bytes() []byte {
	if d.IsZip() {
		return writers.Zip(d.Members)
	}
	return d.Raw
}

const xmlDecl = `<?xml version="1.0" encoding="UTF-8" standalone="yes"?>` + "\n"

// ---- PDF ---------------------------------------------------------------------

// pdfExtra: content that a valid PDF may carry beside its page text.
type pdfExtra struct {
	// Mark is placed so that it starts At bytes into the file (filler comment
	// lines bring the file up to that length; if the file is already longer
	// the mark comes as early as possible).  Where selects the carrier:
	//   "comment"  a comment line between the header and the first object
	//   "stream"   the data of an unreferenced stream object written first
	//   "text"     a second text-showing operation of the page content,
	//              the content stream being written first
	//   "title"    /Title of the document information dictionary, written first
	Mark  []byte
	Where string
	At    int
}

// pdfLit writes a PDF literal string (7.3.4.2).
func pdfLit(s []byte) string {
	var b strings.Builder
	b.WriteByte('(')
	for _, c := range s {
		switch c {
		case '(', ')', '\\':
			b.WriteByte('\\')
			b.WriteByte(c)
		case '\n':
			b.WriteString("\\n")
		case '\r':
			b.WriteString("\\r")
		default:
			b.WriteByte(c)
		}
	}
	b.WriteByte(')')
	return b.String()
}

// pdfDoc writes a one-page PDF with a classic cross-reference table.
func pdfDoc(r *hx.Rng, token string) *Doc { return pdfDocExtra(r, token, nil) }

func pdfDocExtra(r *hx.Rng, token string, x *pdfExtra) *Doc {
	var b bytes.Buffer
	ver := hx.Pick(r, []string{"1.4", "1.7", "1.3", "2.0"})
	fmt.Fprintf(&b, "%%PDF-%s\n", ver)
	variant := "pdf-" + ver
	if r.Bool() {
		b.WriteString("%\xe2\xe3\xcf\xd3\n") // the customary binary marker comment
		variant += "-bin"
	}
	content := fmt.Sprintf("BT /F1 12 Tf 72 720 Td (%s) Tj ET", token)
	objs := []string{
		"<< /Type /Catalog /Pages 2 0 R >>",
		"<< /Type /Pages /Kids [3 0 R] /Count 1 >>",
		"<< /Type /Page /Parent 2 0 R /MediaBox [0 0 612 792] /Contents 4 0 R /Resources << /Font << /F1 5 0 R >> >> >>",
		"", // content stream, below
		"<< /Type /Font /Subtype /Type1 /BaseFont /Helvetica /Encoding /WinAnsiEncoding >>",
	}
	first := -1 // object written first (index into objs)
	info := 0
	prefix := 0 // bytes between the start of the first object and the mark
	if x != nil {
		switch x.Where {
		case "stream":
			objs = append(objs, fmt.Sprintf("<< /Length %d >>\nstream\n%s\nendstream", len(x.Mark), x.Mark))
			first = len(objs) - 1
			prefix = len(fmt.Sprintf("%d 0 obj\n<< /Length %d >>\nstream\n", first+1, len(x.Mark)))
		case "text":
			lead := "BT /F1 12 Tf 72 690 Td "
			content = lead + pdfLit(x.Mark) + " Tj ET\n" + content
			first = 3
			prefix = len(fmt.Sprintf("4 0 obj\n<< /Length %d >>\nstream\n", len(content))) + len(lead) + 1
		case "title":
			objs = append(objs, "<< /Title "+pdfLit(x.Mark)+" /Producer (c20 harness) >>")
			first = len(objs) - 1
			info = first + 1
			prefix = len(fmt.Sprintf("%d 0 obj\n<< /Title (", first+1))
		case "comment":
			prefix = 1
		default:
			panic("pdfExtra.Where: " + x.Where)
		}
		// filler comment lines of at most 72 bytes, each at least "%\n"
		for pad := x.At - prefix - b.Len(); pad >= 2; {
			n := pad
			if n > 72 {
				n = 72
			}
			if pad-n == 1 {
				n--
			}
			b.WriteString("%" + strings.Repeat("-", n-2) + "\n")
			pad -= n
		}
		if x.Where == "comment" {
			b.WriteString("%")
			b.Write(x.Mark)
			b.WriteString("\n")
		}
	}
	objs[3] = fmt.Sprintf("<< /Length %d >>\nstream\n%s\nendstream", len(content), content)
	offs := make([]int, len(objs))
	order := make([]int, 0, len(objs))
	if first >= 0 {
		order = append(order, first)
	}
	for i := range objs {
		if i != first {
			order = append(order, i)
		}
	}
	for _, i := range order {
		offs[i] = b.Len()
		fmt.Fprintf(&b, "%d 0 obj\n%s\nendobj\n", i+1, objs[i])
	}
	xref := b.Len()
	fmt.Fprintf(&b, "xref\n0 %d\n", len(objs)+1)
	b.WriteString("0000000000 65535 f \n")
	for _, o := range offs {
		fmt.Fprintf(&b, "%010d 00000 n \n", o)
	}
	infoRef := ""
	if info > 0 {
		infoRef = fmt.Sprintf(" /Info %d 0 R", info)
	}
	fmt.Fprintf(&b, "trailer\n<< /Size %d /Root 1 0 R%s >>\nstartxref\n%d\n%%%%EOF\n", len(objs)+1, infoRef, xref)
	if x != nil {
		variant += fmt.Sprintf("-%s@%d", x.Where, bytes.Index(b.Bytes()[1:], x.Mark)+1)
	}
	return &Doc{Format: FPDF, Raw: b.Bytes(), Token: token, Sniffable: true, Variant: variant}
}

// ---- HTML --------------------------------------------------------------------

type htmlHead struct{ name, head string }

// htmlHeads: the openings a sniffer is documented to recognise.
func htmlHeads() []htmlHead {
	return []htmlHead{
		{"html5", "<!DOCTYPE html>\n<html lang=\"en\">\n"},
		{"html5-lower", "<!doctype html>\n<html>\n"},
		{"html5-mixed", "<!DocType Html>\n<HTML>\n"},
		{"html401", "<!DOCTYPE HTML PUBLIC \"-//W3C//DTD HTML 4.01//EN\" \"http://www.w3.org/TR/html4/strict.dtd\">\n<html>\n"},
		{"xhtml-doctype", "<!DOCTYPE html PUBLIC \"-//W3C//DTD XHTML 1.0 Strict//EN\" \"http://www.w3.org/TR/xhtml1/DTD/xhtml1-strict.dtd\">\n<html xmlns=\"http://www.w3.org/1999/xhtml\">\n"},
		{"xhtml-xmldecl", "<?xml version=\"1.0\" encoding=\"UTF-8\"?>\n<!DOCTYPE html PUBLIC \"-//W3C//DTD XHTML 1.0 Strict//EN\" \"http://www.w3.org/TR/xhtml1/DTD/xhtml1-strict.dtd\">\n<html xmlns=\"http://www.w3.org/1999/xhtml\">\n"},
		{"leading-ws", "\r\n \t\n<!DOCTYPE html>\n<html>\n"},
		{"html-tag-only", "<html>\n"},
		{"html-tag-upper", "  <HTML LANG=\"en\">\n"},
	}
}

func htmlDoc(r *hx.Rng, token string) *Doc {
	body := fmt.Sprintf("<head><title>T %s</title></head>\n<body>\n<h1>Heading</h1>\n<p>%s paragraph text.</p>\n</body>\n</html>\n", token, token)
	c := hx.Pick(r, htmlHeads())
	return &Doc{Format: FHTML, Raw: []byte(c.head + body), Token: token, Sniffable: true, Variant: c.name}
}

// htmlUnsniffable: HTML a browser renders but that carries neither doctype nor
// an <html> start tag at the front (DESIGN Appendix C: admitted by extension).
func htmlUnsniffable(r *hx.Rng, token string) *Doc {
	type v struct{ name, text string }
	vs := []v{
		{"fragment", fmt.Sprintf("<p>%s fragment</p>\n", token)},
		{"comment-first", fmt.Sprintf("<!-- generated -->\n<!DOCTYPE html>\n<html><body><p>%s</p></body></html>\n", token)},
		{"bom", "\xef\xbb\xbf" + fmt.Sprintf("<!DOCTYPE html>\n<html><body><p>%s</p></body></html>\n", token)},
		{"head-first", fmt.Sprintf("<head><title>x</title></head><body><p>%s</p></body>\n", token)},
		{"div-only", fmt.Sprintf("<div>%s in a div</div>\n", token)},
	}
	c := hx.Pick(r, vs)
	return &Doc{Format: FHTML, Raw: []byte(c.text), Token: token, Sniffable: false, Variant: "unsniffable-" + c.name}
}

// ---- OPC helpers -------------------------------------------------------------

func contentTypes(overrides [][2]string) []byte {
	var b strings.Builder
	b.WriteString(xmlDecl)
	b.WriteString(`<Types xmlns="http://schemas.openxmlformats.org/package/2006/content-types"><Default Extension="rels" ContentType="application/vnd.openxmlformats-package.relationships+xml"/><Default Extension="xml" ContentType="application/xml"/>`)
	for _, o := range overrides {
		fmt.Fprintf(&b, `<Override PartName="%s" ContentType="%s"/>`, o[0], o[1])
	}
	b.WriteString(`</Types>`)
	return []byte(b.String())
}

func rels(rs [][3]string) []byte {
	var b strings.Builder
	b.WriteString(xmlDecl)
	b.WriteString(`<Relationships xmlns="http://schemas.openxmlformats.org/package/2006/relationships">`)
	for _, r := range rs {
		fmt.Fprintf(&b, `<Relationship Id="%s" Type="%s" Target="%s"/>`, r[0], r[1], r[2])
	}
	b.WriteString(`</Relationships>`)
	return []byte(b.String())
}

const relOfficeDoc = "http://schemas.openxmlformats.org/officeDocument/2006/relationships/officeDocument"

// ---- DOCX --------------------------------------------------------------------

func docxDoc(r *hx.Rng, token string) *Doc { return docxDocParas(r, token, nil, nil) }

// docxDocParas: pre/post are further plain-text paragraphs (escaped here)
// before and after the generated ones.
func docxDocParas(r *hx.Rng, token string, pre, post []string) *Doc {
	var b strings.Builder
	b.WriteString(xmlDecl)
	b.WriteString(`<w:document xmlns:w="http://schemas.openxmlformats.org/wordprocessingml/2006/main"><w:body>`)
	for _, t := range pre {
		fmt.Fprintf(&b, `<w:p><w:r><w:t xml:space="preserve">%s</w:t></w:r></w:p>`, writers.XMLEsc(t))
	}
	n := r.Range(1, 3)
	for i := 0; i < n; i++ {
		t := "filler paragraph"
		if i == 0 {
			t = token + " word text"
		}
		fmt.Fprintf(&b, `<w:p><w:r><w:t xml:space="preserve">%s</w:t></w:r></w:p>`, t)
	}
	for _, t := range post {
		fmt.Fprintf(&b, `<w:p><w:r><w:t xml:space="preserve">%s</w:t></w:r></w:p>`, writers.XMLEsc(t))
	}
	b.WriteString(`<w:sectPr/></w:body></w:document>`)
	ms := []writers.Member{
		{Name: "[Content_Types].xml", Data: contentTypes([][2]string{
			{"/word/document.xml", "application/vnd.openxmlformats-officedocument.wordprocessingml.document.main+xml"},
			{"/word/styles.xml", "application/vnd.openxmlformats-officedocument.wordprocessingml.styles+xml"}})},
		{Name: "_rels/.rels", Data: rels([][3]string{{"rId1", relOfficeDoc, "word/document.xml"}})},
		{Name: "word/document.xml", Data: []byte(b.String())},
		{Name: "word/_rels/document.xml.rels", Data: rels([][3]string{{"rId1", "http://schemas.openxmlformats.org/officeDocument/2006/relationships/styles", "styles.xml"}})},
		{Name: "word/styles.xml", Data: []byte(xmlDecl + `<w:styles xmlns:w="http://schemas.openxmlformats.org/wordprocessingml/2006/main"/>`)},
	}
	return &Doc{Format: FDOCX, Members: ms, Token: token, Sniffable: true, Variant: fmt.Sprintf("docx-%dp", n)}
}

// ---- XLSX (shared writer of the harness) -------------------------------------

func xlsxDoc(r *hx.Rng, token string) *Doc { return xlsxDocCells(r, token, nil) }

// xlsxDocCells: extra are further plain-text shared strings, one per row in
// column A below the generated row.
func xlsxDocCells(r *hx.Rng, token string, extra []string) *Doc {
	is := token
	wb := writers.XWorkbook{
		Shared: []writers.XSI{{Plain: token + " cell"}},
		Sheets: []writers.XSheet{{Name: "Sheet1", Path: "worksheets/sheet1.xml", RID: "rId1",
			Rows: []writers.XRow{{R: 1, Cells: []writers.XCell{
				{Ref: "A1", T: "s", V: "0", HasV: true},
				{Ref: "B1", V: "42", HasV: true},
				{Ref: "C1", T: "inlineStr", Is: &is},
			}}}}},
	}
	for i, t := range extra {
		wb.Shared = append(wb.Shared, writers.XSI{Plain: t})
		wb.Sheets[0].Rows = append(wb.Sheets[0].Rows, writers.XRow{R: i + 2, Cells: []writers.XCell{
			{Ref: fmt.Sprintf("A%d", i+2), T: "s", V: fmt.Sprint(i + 1), HasV: true}}})
	}
	return &Doc{Format: FXLSX, Members: writers.XLSXMembers(wb), Token: token, Sniffable: true, Variant: "xlsx"}
}

// ---- PPTX --------------------------------------------------------------------

func pptxDoc(r *hx.Rng, token string) *Doc { return pptxDocParas(r, token, nil, nil) }

// pptxDocParas: pre/post are further plain-text paragraphs of the first
// slide's body placeholder.
func pptxDocParas(r *hx.Rng, token string, pre, post []string) *Doc {
	paras := func(ts []string) string {
		var b strings.Builder
		for _, t := range ts {
			b.WriteString(`<a:p><a:r><a:t>` + writers.XMLEsc(t) + `</a:t></a:r></a:p>`)
		}
		return b.String()
	}
	n := r.Range(1, 2)
	pres := xmlDecl + `<p:presentation xmlns:a="http://schemas.openxmlformats.org/drawingml/2006/main" xmlns:r="http://schemas.openxmlformats.org/officeDocument/2006/relationships" xmlns:p="http://schemas.openxmlformats.org/presentationml/2006/main"><p:sldIdLst>`
	var prels [][3]string
	ct := [][2]string{{"/ppt/presentation.xml", "application/vnd.openxmlformats-officedocument.presentationml.presentation.main+xml"}}
	var slides []writers.Member
	for i := 1; i <= n; i++ {
		pres += fmt.Sprintf(`<p:sldId id="%d" r:id="rId%d"/>`, 255+i, i)
		prels = append(prels, [3]string{fmt.Sprintf("rId%d", i), "http://schemas.openxmlformats.org/officeDocument/2006/relationships/slide", fmt.Sprintf("slides/slide%d.xml", i)})
		ct = append(ct, [2]string{fmt.Sprintf("/ppt/slides/slide%d.xml", i), "application/vnd.openxmlformats-officedocument.presentationml.slide+xml"})
		t := "other slide"
		before, after := "", ""
		if i == 1 {
			t = token + " slide text"
			before, after = paras(pre), paras(post)
		}
		s := xmlDecl + `<p:sld xmlns:a="http://schemas.openxmlformats.org/drawingml/2006/main" xmlns:r="http://schemas.openxmlformats.org/officeDocument/2006/relationships" xmlns:p="http://schemas.openxmlformats.org/presentationml/2006/main"><p:cSld><p:spTree><p:nvGrpSpPr><p:cNvPr id="1" name=""/><p:cNvGrpSpPr/><p:nvPr/></p:nvGrpSpPr><p:grpSpPr/>` +
			`<p:sp><p:nvSpPr><p:cNvPr id="2" name="Content 1"/><p:cNvSpPr/><p:nvPr><p:ph type="body" idx="1"/></p:nvPr></p:nvSpPr><p:spPr/><p:txBody><a:bodyPr/>` + before + `<a:p><a:r><a:t>` + t + `</a:t></a:r></a:p>` + after + `</p:txBody></p:sp></p:spTree></p:cSld></p:sld>`
		slides = append(slides, writers.Member{Name: fmt.Sprintf("ppt/slides/slide%d.xml", i), Data: []byte(s)})
		slides = append(slides, writers.Member{Name: fmt.Sprintf("ppt/slides/_rels/slide%d.xml.rels", i), Data: rels(nil)})
	}
	pres += `</p:sldIdLst><p:sldSz cx="9144000" cy="6858000"/></p:presentation>`
	ms := []writers.Member{
		{Name: "[Content_Types].xml", Data: contentTypes(ct)},
		{Name: "_rels/.rels", Data: rels([][3]string{{"rId1", relOfficeDoc, "ppt/presentation.xml"}})},
		{Name: "ppt/presentation.xml", Data: []byte(pres)},
		{Name: "ppt/_rels/presentation.xml.rels", Data: rels(prels)},
	}
	ms = append(ms, slides...)
	return &Doc{Format: FPPTX, Members: ms, Token: token, Sniffable: true, Variant: fmt.Sprintf("pptx-%ds", n)}
}

// ---- ODT ---------------------------------------------------------------------

const odtMime = "application/vnd.oasis.opendocument.text"

func odtContent(text string) []byte { return odtContentParas(text, nil, nil) }

// odtContentParas: text is inserted as is (XML), pre/post are plain-text
// paragraphs (escaped here) before and after it.
func odtContentParas(text string, pre, post []string) []byte {
	paras := func(ts []string) string {
		var b strings.Builder
		for _, t := range ts {
			b.WriteString(`<text:p text:style-name="Standard">` + writers.XMLEsc(t) + `</text:p>`)
		}
		return b.String()
	}
	return []byte(`<?xml version="1.0" encoding="UTF-8"?>` + "\n" +
		`<office:document-content xmlns:office="urn:oasis:names:tc:opendocument:xmlns:office:1.0" xmlns:style="urn:oasis:names:tc:opendocument:xmlns:style:1.0" xmlns:text="urn:oasis:names:tc:opendocument:xmlns:text:1.0" xmlns:table="urn:oasis:names:tc:opendocument:xmlns:table:1.0" office:version="1.2"><office:automatic-styles/><office:body><office:text>` + paras(pre) + `<text:p text:style-name="Standard">` +
		text + `</text:p>` + paras(post) + `</office:text></office:body></office:document-content>`)
}

func odtDoc(r *hx.Rng, token string) *Doc { return odtDocParas(r, token, nil, nil) }

func odtDocParas(r *hx.Rng, token string, pre, post []string) *Doc {
	ms := []writers.Member{
		{Name: "mimetype", Data: []byte(odtMime), Store: true},
		{Name: "content.xml", Data: odtContentParas(token+" odt text", pre, post)},
		{Name: "styles.xml", Data: []byte(`<?xml version="1.0" encoding="UTF-8"?>` + "\n" + `<office:document-styles xmlns:office="urn:oasis:names:tc:opendocument:xmlns:office:1.0" office:version="1.2"/>`)},
		{Name: "meta.xml", Data: []byte(`<?xml version="1.0" encoding="UTF-8"?>` + "\n" + `<office:document-meta xmlns:office="urn:oasis:names:tc:opendocument:xmlns:office:1.0" office:version="1.2"><office:meta/></office:document-meta>`)},
		{Name: "META-INF/manifest.xml", Data: []byte(`<?xml version="1.0" encoding="UTF-8"?>` + "\n" +
			`<manifest:manifest xmlns:manifest="urn:oasis:names:tc:opendocument:xmlns:manifest:1.0" manifest:version="1.2"><manifest:file-entry manifest:full-path="/" manifest:version="1.2" manifest:media-type="` + odtMime + `"/><manifest:file-entry manifest:full-path="content.xml" manifest:media-type="text/xml"/><manifest:file-entry manifest:full-path="styles.xml" manifest:media-type="text/xml"/><manifest:file-entry manifest:full-path="meta.xml" manifest:media-type="text/xml"/></manifest:manifest>`)},
	}
	return &Doc{Format: FODT, Members: ms, Token: token, Sniffable: true, Variant: "odt"}
}

// ---- EPUB --------------------------------------------------------------------

const epubMime = "application/epub+zip"

// EItem is one manifest item of a generated EPUB.
type EItem struct {
	ID        string
	Path      string // path relative to the OPF directory (decoded form)
	MediaType string
	Data      []byte
	Spine     bool
	Props     string
}

// IsContentDoc: an (X)HTML content document with a conventional extension
// (what the property calls a content document; DESIGN Appendix C).
func (it EItem) IsContentDoc() bool {
	return it.MediaType == "application/xhtml+xml" || it.MediaType == "text/html"
}

func (it EItem) IsFont() bool {
	return strings.HasPrefix(it.MediaType, "font/") || strings.Contains(it.MediaType, "font") || strings.Contains(it.MediaType, "opentype")
}

type Epub struct {
	Version int    // 2 or 3
	Base    string // OPF directory inside the container ("" or "OEBPS/")
	Items   []EItem
	Token   string
}

// hrefEsc writes a container path as a relative URI reference (RFC 3986 §3.3):
// unreserved characters, '/', '@' and the sub-delimiters stay as they are,
// everything else (space, '%', '#', '?', ':', brackets, '^', '`', braces, ...,
// non-ASCII) is percent-encoded.  '+' is never generated.  The result may hold
// '&' and '\'': XML-escape it when it goes into an attribute.
func hrefEsc(p string) string { return pctEsc(p, "!$&'()*,;=@") }

// hrefEscAll is the spelling of a producer that escapes each path segment like
// a URI component: the sub-delimiters and '@' are percent-encoded as well.
func hrefEscAll(p string) string { return pctEsc(p, "") }

func pctEsc(p string, keep string) string {
	var b strings.Builder
	for i := 0; i < len(p); i++ {
		c := p[i]
		switch {
		case c >= 'a' && c <= 'z', c >= 'A' && c <= 'Z', c >= '0' && c <= '9',
			c == '-', c == '.', c == '_', c == '~', c == '/',
			strings.IndexByte(keep, c) >= 0:
			b.WriteByte(c)
		default:
			fmt.Fprintf(&b, "%%%02X", c)
		}
	}
	return b.String()
}

// awkwardPieces: parts of file names that OCF allows (OCF 3.x "File Names":
// anything but / " * : < > ? \ | DEL, controls and a trailing full stop) but
// that are delimiters or escapes in a URI: a stray '%' (alone, before non-hex,
// before hex), '#', brackets, the sub-delimiters, blanks, '^', '`', braces.
// Written verbatim such a name is not a well-formed URI reference, or reads as
// one with a fragment; percent-encoded it is an ordinary one.
var awkwardPieces = []string{"100%", "50% off", "%", "%zz", "%41", "a%2", "%20", "#1", "No. #2", "a#b", "ch[1]", "[draft]", "Q&A", "it's",
	"(final)", "v1,2", "x;y", "a=b", "@home", "wow!", "$5", "~tmp", "{x}", "^up", "`q`", "Chapter One", "part 2", "%#", "#%"}

var awkwardDirs = []string{"", "", "", "Text/", "Text #2/", "50%/", "[1]/", "a&b/", "x y/", "%2F/"}

// awkwardName: a path (relative to the OPF directory) built from awkwardPieces,
// ending in ext, different (in any letter case) from every path in used.
func awkwardName(r *hx.Rng, dirs []string, ext string, used map[string]bool) string {
	for {
		var b strings.Builder
		b.WriteString(hx.Pick(r, dirs))
		for j, k := 0, r.Range(1, 2); j < k; j++ {
			if j > 0 {
				b.WriteString(hx.Pick(r, []string{"", " ", "-", "_"}))
			}
			b.WriteString(hx.Pick(r, awkwardPieces))
		}
		b.WriteString(ext)
		if p := b.String(); !used[strings.ToLower(p)] {
			return p
		}
	}
}

func xhtmlChapter(title, text string) []byte { return xhtmlChapterParas(title, text, nil, nil) }

// xhtmlChapterParas: title and text are inserted as is, pre/post are
// plain-text paragraphs (escaped here) before and after the text.
func xhtmlChapterParas(title, text string, pre, post []string) []byte {
	paras := func(ts []string) string {
		var b strings.Builder
		for _, t := range ts {
			b.WriteString(`<p>` + writers.XMLEsc(t) + `</p>`)
		}
		return b.String()
	}
	return []byte(`<?xml version="1.0" encoding="UTF-8"?>` + "\n" + `<!DOCTYPE html>` + "\n" +
		`<html xmlns="http://www.w3.org/1999/xhtml"><head><title>` + title + `</title><link rel="stylesheet" type="text/css" href="style.css"/></head><body><h1>` + title + `</h1>` + paras(pre) + `<p>` + text + `</p>` + paras(post) + `</body></html>`)
}

// genEpub: one in four chapter / font names is an awkward one.
func genEpub(r *hx.Rng, token string) *Epub { return genEpubNames(r, token, 1) }

// genEpubNames: awk of every four chapter and font file names are awkward ones
// (awkwardName); the others come from the conventional lists.
func genEpubNames(r *hx.Rng, token string, awk int) *Epub {
	used := map[string]bool{"nav.xhtml": true, "toc.ncx": true, "content.opf": true}
	e := &Epub{Version: hx.Pick(r, []int{2, 3}), Base: hx.Pick(r, []string{"OEBPS/", "", "EPUB/", "OPS/"}), Token: token}
	chapNames := [][]string{
		{"ch1.xhtml", "chapter1.xhtml", "Text/ch1.xhtml", "text/Chapter One.xhtml"},
		{"ch2.html", "Text/ch2.xhtml", "part 2.html", "c2.htm"},
		{"ch3.htm", "Text/ch3.html", "appendix.xhtml"},
	}
	n := r.Range(1, 3)
	for i := 0; i < n; i++ {
		p := hx.Pick(r, chapNames[i])
		if r.Chance(awk, 4) {
			p = awkwardName(r, awkwardDirs, p[strings.LastIndexByte(p, '.'):], used)
		}
		used[strings.ToLower(p)] = true
		mt := "application/xhtml+xml"
		text := "chapter body"
		if i == 0 {
			text = token + " epub chapter text"
		}
		e.Items = append(e.Items, EItem{ID: fmt.Sprintf("c%d", i+1), Path: p, MediaType: mt, Spine: true,
			Data: xhtmlChapter(fmt.Sprintf("Chapter %d", i+1), text)})
	}
	if e.Version == 3 {
		e.Items = append(e.Items, EItem{ID: "nav", Path: "nav.xhtml", MediaType: "application/xhtml+xml", Props: "nav",
			Data: []byte(`<?xml version="1.0" encoding="UTF-8"?>` + "\n" + `<html xmlns="http://www.w3.org/1999/xhtml" xmlns:epub="http://www.idpf.org/2007/ops"><head><title>Nav</title></head><body><nav epub:type="toc"><ol><li><a href="` + writers.XMLEsc(hrefEsc(e.Items[0].Path)) + `">Start</a></li></ol></nav></body></html>`)})
	}
	e.Items = append(e.Items, EItem{ID: "ncx", Path: "toc.ncx", MediaType: "application/x-dtbncx+xml",
		Data: []byte(`<?xml version="1.0" encoding="UTF-8"?>` + "\n" + `<ncx xmlns="http://www.daisy.org/z3986/2005/ncx/" version="2005-1"><head><meta name="dtb:uid" content="urn:uuid:c20"/></head><docTitle><text>T</text></docTitle><navMap><navPoint id="n1" playOrder="1"><navLabel><text>Start</text></navLabel><content src="` + writers.XMLEsc(hrefEsc(e.Items[0].Path)) + `"/></navPoint></navMap></ncx>`)})
	e.Items = append(e.Items, EItem{ID: "css", Path: hx.Pick(r, []string{"style.css", "Styles/main.css"}), MediaType: "text/css", Data: []byte("body { font-family: \"Emb\"; }\n")})
	nf := r.Range(1, 2)
	fonts := []struct{ p, mt string }{{"fonts/Emb-Regular.otf", "application/vnd.ms-opentype"}, {"Fonts/emb bold.ttf", "application/x-font-ttf"}, {"fonts/emb.woff", "application/font-woff"}, {"fonts/e.woff2", "font/woff2"}}
	off := r.Intn(len(fonts))
	for i := 0; i < nf; i++ {
		f := fonts[(off+i)%len(fonts)]
		if r.Chance(awk, 4) {
			f.p = awkwardName(r, []string{"fonts/", "Fonts/", "", "fonts #1/", "100% fonts/"}, f.p[strings.LastIndexByte(f.p, '.'):], used)
		}
		used[strings.ToLower(f.p)] = true
		e.Items = append(e.Items, EItem{ID: fmt.Sprintf("font%d", i+1), Path: f.p, MediaType: f.mt, Data: append([]byte("OTTO\x00\x01"), r.Bytes(40)...)})
	}
	img := hx.Pick(r, []struct{ p, mt string }{{"images/cover.png", "image/png"}, {"Images/cover.jpg", "image/jpeg"}, {"cover.svg", "image/svg+xml"}})
	e.Items = append(e.Items, EItem{ID: "img", Path: img.p, MediaType: img.mt, Data: append([]byte("\x89PNG\r\n\x1a\n"), r.Bytes(24)...)})
	return e
}

func (e *Epub) opf() []byte {
	var b strings.Builder
	b.WriteString(`<?xml version="1.0" encoding="UTF-8"?>` + "\n")
	if e.Version == 3 {
		b.WriteString(`<package xmlns="http://www.idpf.org/2007/opf" version="3.0" unique-identifier="uid">`)
	} else {
		b.WriteString(`<package xmlns="http://www.idpf.org/2007/opf" version="2.0" unique-identifier="uid">`)
	}
	b.WriteString(`<metadata xmlns:dc="http://purl.org/dc/elements/1.1/"><dc:identifier id="uid">urn:uuid:c20-` + e.Token + `</dc:identifier><dc:title>Title ` + e.Token + `</dc:title><dc:language>en</dc:language>`)
	if e.Version == 3 {
		b.WriteString(`<meta property="dcterms:modified">2024-01-01T00:00:00Z</meta>`)
	}
	b.WriteString(`</metadata><manifest>`)
	for _, it := range e.Items {
		fmt.Fprintf(&b, `<item id="%s" href="%s" media-type="%s"`, it.ID, writers.XMLEsc(hrefEsc(it.Path)), it.MediaType)
		if it.Props != "" && e.Version == 3 {
			fmt.Fprintf(&b, ` properties="%s"`, it.Props)
		}
		b.WriteString(`/>`)
	}
	b.WriteString(`</manifest><spine toc="ncx">`)
	for _, it := range e.Items {
		if it.Spine {
			fmt.Fprintf(&b, `<itemref idref="%s"/>`, it.ID)
		}
	}
	b.WriteString(`</spine></package>`)
	return []byte(b.String())
}

// Members returns the container in canonical order (mimetype first, stored);
// extra are META-INF members (encryption.xml, rights.xml) placed after
// container.xml.
func (e *Epub) Members(extra []writers.Member) []writers.Member {
	ms := []writers.Member{
		{Name: "mimetype", Data: []byte(epubMime), Store: true},
		{Name: "META-INF/container.xml", Data: []byte(`<?xml version="1.0" encoding="UTF-8"?>` + "\n" +
			`<container version="1.0" xmlns="urn:oasis:names:tc:opendocument:xmlns:container"><rootfiles><rootfile full-path="` + e.Base + `content.opf" media-type="application/oebps-package+xml"/></rootfiles></container>`)},
	}
	ms = append(ms, extra...)
	ms = append(ms, writers.Member{Name: e.Base + "content.opf", Data: e.opf()})
	for _, it := range e.Items {
		ms = append(ms, writers.Member{Name: e.Base + it.Path, Data: it.Data})
	}
	return ms
}

func epubDoc(r *hx.Rng, token string) *Doc {
	e := genEpub(r, token)
	return &Doc{Format: FEPUB, Members: e.Members(nil), Token: token, Sniffable: true, Variant: fmt.Sprintf("epub%d", e.Version)}
}

// ---- all formats ---------------------------------------------------------------

func genDoc(r *hx.Rng, format string, token string) *Doc {
	switch format {
	case FPDF:
		return pdfDoc(r, token)
	case FDOCX:
		return docxDoc(r, token)
	case FODT:
		return odtDoc(r, token)
	case FXLSX:
		return xlsxDoc(r, token)
	case FPPTX:
		return pptxDoc(r, token)
	case FHTML:
		return htmlDoc(r, token)
	case FEPUB:
		return epubDoc(r, token)
	}
	panic("genDoc: " + format)
}

// ---- decoys --------------------------------------------------------------------

// markerNames are the members that identify a format for a content sniffer
// (a format's mimetype / container / main part).  Decoys never use them.
var markerNames = map[string]bool{
	"mimetype": true, "META-INF/container.xml": true,
	"word/document.xml": true, "xl/workbook.xml": true, "ppt/presentation.xml": true,
}

// decoyPool: members as they occur in packages of OTHER formats (embedded
// objects, stray parts, auxiliary files), none of them a marker.
func decoyPool(r *hx.Rng) []writers.Member {
	small := []byte(xmlDecl + "<stray/>")
	return []writers.Member{
		{Name: "word/stray.xml", Data: small},
		{Name: "word/embeddings/Microsoft_Excel_Sheet1.xlsx", Data: append([]byte("PK\x03\x04"), r.Bytes(20)...)},
		{Name: "word/media/image1.png", Data: r.Bytes(16)},
		{Name: "word/_rels/document.xml.rels", Data: rels(nil)},
		{Name: "word/document.xml.bak", Data: small},
		{Name: "xl/stray.xml", Data: small},
		{Name: "xl/embeddings/oleObject1.bin", Data: r.Bytes(16)},
		{Name: "xl/worksheets/sheet9.xml", Data: small},
		{Name: "xl/media/image1.png", Data: r.Bytes(16)},
		{Name: "ppt/stray.xml", Data: small},
		{Name: "ppt/media/image1.png", Data: r.Bytes(16)},
		{Name: "ppt/embeddings/Microsoft_Word_Document1.docx", Data: append([]byte("PK\x03\x04"), r.Bytes(20)...)},
		{Name: "ppt/slides/slide77.xml.bak", Data: small},
		{Name: "content.xml", Data: odtContent("decoy-odt-text")},
		{Name: "META-INF/manifest.xml", Data: small},
		{Name: "OEBPS/content.opf", Data: small},
		{Name: "OEBPS/ch1.xhtml", Data: xhtmlChapter("decoy", "decoy-epub-text")},
		{Name: "META-INF/Container.XML", Data: small},
		{Name: "Mimetype", Data: []byte(epubMime)},
		{Name: "mimetype.txt", Data: []byte(odtMime)},
		{Name: "index.html", Data: []byte("<!DOCTYPE html><html><body>decoy-html-text</body></html>")},
		{Name: "doc.pdf", Data: []byte("%PDF-1.4\n%%EOF\n")},
		{Name: "docProps/app.xml", Data: small},
		{Name: "Word/document.xml", Data: small},
		{Name: "XL/workbook.xml", Data: small},
	}
}

func hasMember(ms []writers.Member, name string) bool {
	for _, m := range ms {
		if m.Name == name {
			return true
		}
	}
	return false
}

func namesOf(ms []writers.Member) []string {
	xs := make([]string, len(ms))
	for i, m := range ms {
		xs[i] = m.Name
	}
	return xs
}

// pickDecoys returns k decoys that are no marker and do not collide with host.
func pickDecoys(r *hx.Rng, host []writers.Member, k int) []writers.Member {
	pool := decoyPool(r)
	hx.Shuffle(r, pool)
	var out []writers.Member
	for _, d := range pool {
		if len(out) == k {
			break
		}
		if markerNames[d.Name] || hasMember(host, d.Name) {
			continue
		}
		out = append(out, d)
	}
	return out
}

// addDecoys inserts k decoys (not already present, never a marker) at random
// positions, returning a new slice.
func addDecoys(r *hx.Rng, ms []writers.Member, k int) ([]writers.Member, []string) {
	pool := decoyPool(r)
	hx.Shuffle(r, pool)
	out := append([]writers.Member(nil), ms...)
	var names []string
	for _, d := range pool {
		if k == 0 {
			break
		}
		if markerNames[d.Name] || hasMember(out, d.Name) {
			continue
		}
		pos := r.Intn(len(out) + 1)
		out = append(out, writers.Member{})
		copy(out[pos+1:], out[pos:])
		out[pos] = d
		names = append(names, d.Name)
		k--
	}
	return out, names
}
