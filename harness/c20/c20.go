// Package c20: files are admitted by content; mismatches and DRM are refused.
//
// Correspondence ops (wire format, see Handlers/C20.lean):
//
//	c20.ext    <name>                       -> format.Detect(name)
//	c20.magic  <bytes>                      -> format.DetectFromMagic(bytes)
//	c20.zipfmt <members>                    -> format.DetectFromReader(zip(members))
//	c20.detect <first512> <zip>             -> format.DetectFromReader(file)            | err
//	c20.admission <name> <first512> <zip> <T>  -> v=<ok|err> open=<ok|err>
//	c20.obf    <algorithm>                  -> epubdoc.isFontObfuscation
//	c20.content <uri>                       -> epubdoc.isContentFile
//	c20.drm    <drm-members>                -> drm | ok   (errors.Is(err, ErrDRMProtected))
//
// <name>,<bytes>,<algorithm>,<uri> are hex ("-" = empty). <members> is a
// comma-separated list in archive order of `namehex` or `namehex:contenthex`
// (content is given for members named "mimetype").  <zip> is `-` (the file is
// not a ZIP), `err` (archive/zip rejects it) or <members>.  <T> is the format
// the document was written as (or `none`).  <drm-members> is the comma-separated
// sequence, in archive order, of `R` (META-INF/rights.xml), `B`
// (META-INF/encryption.xml that encoding/xml rejects) and `E<entries>` (parsable
// encryption.xml; entries `algohex:urihex` joined by `;`), or `-` if none.
package c20

import (
	"bytes"
	"errors"
	"fmt"
	"os"
	"path/filepath"
	"strings"

	"github.com/tsawler/tabula"
	"github.com/tsawler/tabula/epubdoc"
	"github.com/tsawler/tabula/format"

	"verifharness/hx"
	"verifharness/writers"
)

func init() { hx.Register("C20", Run, Replay) }

// ---- the extension table, written from the property text -----------------------

var extOf = map[string][]string{
	FPDF: {".pdf"}, FDOCX: {".docx"}, FODT: {".odt"}, FXLSX: {".xlsx"}, FPPTX: {".pptx"},
	FHTML: {".html", ".htm"}, FEPUB: {".epub"},
}

var allExts = []string{".pdf", ".docx", ".odt", ".xlsx", ".pptx", ".html", ".htm", ".epub"}

func asciiLower(s string) string {
	b := []byte(s)
	for i, c := range b {
		if c >= 'A' && c <= 'Z' {
			b[i] = c + 32
		}
	}
	return string(b)
}

// wantExtFormat: the format a file NAME asks for (text after the last dot of
// the last path element, ASCII case-insensitive).
func wantExtFormat(name string) string {
	base := name
	if i := strings.LastIndexByte(base, '/'); i >= 0 {
		base = base[i+1:]
	}
	i := strings.LastIndexByte(base, '.')
	if i < 0 {
		return FUnknown
	}
	e := asciiLower(base[i:])
	for f, xs := range extOf {
		for _, x := range xs {
			if x == e {
				return f
			}
		}
	}
	return FUnknown
}

func mixCase(r *hx.Rng, s string) string {
	b := []byte(s)
	for i, c := range b {
		if c >= 'a' && c <= 'z' && r.Bool() {
			b[i] = c - 32
		} else if c >= 'A' && c <= 'Z' && r.Bool() {
			b[i] = c + 32
		}
	}
	return string(b)
}

// ---- c20.ext ---------------------------------------------------------------------

func extOps(c *hx.Ctx) {
	emit := func(name string) string {
		got := format.Detect(name).String()
		c.Op("c20.ext "+hx.HexS(name), got)
		return got
	}
	stems := []string{"doc", "my.file", "dir.v2/doc", "/abs/path/report", "a.b/c", ".hidden", "", "x.pdf", "y.DOCX", "dir.html/z", "sp ace", "ünï", "a/b.c/d.e"}
	tails := []string{"", ".", ".txt", ".zip", ".doc", ".xls", ".xml", ".pdf.", ".pdf/", ".pdf/x", ".pdfx", ".xpdf", ".htmlx", ".ht", ".epub3", ".docx ", ". docx", ".d.ocx"}
	for _, st := range stems {
		for f, xs := range extOf {
			for _, x := range xs {
				for _, v := range []string{x, strings.ToUpper(x), mixCase(c.Rng, x), mixCase(c.Rng, x)} {
					name := st + v
					got := emit(name)
					c.Check("C20/ext-table-case-insensitive", got == f, map[string]interface{}{"kind": "ext", "name": name}, func() string {
						return fmt.Sprintf("format.Detect(%q)=%s want %s", name, got, f)
					})
					c.Case("ext:"+name, true)
				}
			}
		}
		for _, t := range tails {
			name := st + t
			got := emit(name)
			want := wantExtFormat(name)
			c.Check("C20/ext-table-exact", got == want, map[string]interface{}{"kind": "ext", "name": name}, func() string {
				return fmt.Sprintf("format.Detect(%q)=%s want %s", name, got, want)
			})
			c.Case("ext:"+name, got != FUnknown)
		}
	}
	pieces := []string{".", "/", "a", "B", "pdf", "PDF", "docx", "Odt", "xlsx", "pptx", "html", "htm", "HTM", "epub", "ePub", " ", "x", ".."}
	for i := 0; i < c.N(1500, 30000); i++ {
		var sb strings.Builder
		for j := c.Rng.Range(0, 6); j > 0; j-- {
			sb.WriteString(hx.Pick(c.Rng, pieces))
		}
		name := sb.String()
		got := emit(name)
		want := wantExtFormat(name)
		c.Check("C20/ext-table-exact", got == want, map[string]interface{}{"kind": "ext", "name": name}, func() string {
			return fmt.Sprintf("format.Detect(%q)=%s want %s", name, got, want)
		})
		c.Count("ext-random:" + got)
		c.Case("ext:"+name, got != FUnknown)
	}
}

// ---- c20.magic -------------------------------------------------------------------

func magicOps(c *hx.Ctx) {
	emit := func(b []byte) {
		got := format.DetectFromMagic(b).String()
		c.Op("c20.magic "+hx.Hex(b), got)
		c.Count("magic:" + got)
		c.Case("magic:"+string(b), got != FUnknown)
	}
	fixed := []string{"", "%", "%PD", "%PDF", "%PDF-1.7\n", " %PDF-1.4", "PK\x03\x04", "PK\x03\x04\x14\x00", "PK\x05\x06", "PK\x03",
		"<!DOCTYPE html>", "<!doctype html>", "<!DOCTYPE HTML PUBLIC \"x\">", "<!DOCTYPE htm", "<!DOCTYPE  html>", "<!DOCTYPE svg>", "<!DOCTYPEHTML",
		"<html>", "<HTML lang=en>", "<htm", "<htmlx>", "  \t\r\n<html>", "\x0b<html>", "\x0c<html>", "\xef\xbb\xbf<html>", "x<html>",
		"<?xml version=\"1.0\"?><html>", "<?xml version=\"1.0\"?>\n<!DOCTYPE html>\n<html>", "<?xml version=\"1.0\"?><svg>", "<?XML?><HTML", "<?xml", "<?xm<html",
		"    ", " \n\t\r", " \n\t", "<!--c--><html>", "<body>", "<p>x</p>", "hello world", "\x00\x00\x00\x00", "<!DOCTYPE html", "<!DOCTYPE HTM"}
	for _, s := range fixed {
		emit([]byte(s))
	}
	// the 500-byte window of the XML-declaration branch (ASCII only: the code
	// upper-cases as UTF-8 text before cutting the window)
	for _, n := range []int{480, 488, 489, 490, 491, 492, 493, 494, 495, 496, 500, 507, 600} {
		head := "<?xml version=\"1.0\"?>"
		pad := n - len(head)
		emit([]byte(head + strings.Repeat(" ", pad) + "<html>"))
		emit([]byte(head + strings.Repeat("x", pad) + "<HtMl"))
		emit([]byte("\n \n" + head + strings.Repeat("-", pad) + "<html>"))
	}
	starts := []string{"%PDF", "PK\x03\x04", "<!DOCTYPE html", "<!doctype HTML", "<html", "<HTML", "<?xml", "<?XML ", " ", "\n", "\t\r", "<", "<!", "<h", "%P", "x"}
	for i := 0; i < c.N(800, 20000); i++ {
		var b []byte
		for j := c.Rng.Range(0, 4); j > 0; j-- {
			b = append(b, hx.Pick(c.Rng, starts)...)
		}
		if bytes.Contains(asciiUpperB(b), []byte("<?XML")) {
			// keep the XML-window cases ASCII
			for j := c.Rng.Range(0, 12); j > 0; j-- {
				b = append(b, byte(c.Rng.Range(32, 126)))
			}
		} else {
			b = append(b, c.Rng.Bytes(c.Rng.Range(0, 8))...)
		}
		emit(b)
	}
}

func asciiUpperB(b []byte) []byte {
	o := append([]byte(nil), b...)
	for i, c := range o {
		if c >= 'a' && c <= 'z' {
			o[i] = c - 32
		}
	}
	return o
}

// ---- ZIP member lists --------------------------------------------------------------

func membersField(ms []writers.Member) string {
	if len(ms) == 0 {
		return "-"
	}
	xs := make([]string, len(ms))
	for i, m := range ms {
		xs[i] = hx.HexS(m.Name)
		if m.Name == "mimetype" {
			xs[i] += ":" + hx.Hex(m.Data)
		}
	}
	return strings.Join(xs, ",")
}

func first512(b []byte) []byte {
	if len(b) > 512 {
		return b[:512]
	}
	return b
}

func detectBytes(b []byte) string {
	f, err := format.DetectFromReader(bytes.NewReader(b), int64(len(b)))
	if err != nil {
		return "err"
	}
	return f.String()
}

// zipfmtOps: arbitrary member lists (several markers, duplicates, prefix-only
// archives, odd mimetype contents) straight through detectZIPFormat.
func zipfmtOps(c *hx.Ctx) {
	mimes := []string{odtMime, epubMime, odtMime + "\n", " " + epubMime + "\r\n", "\t" + odtMime + "-template  ", "application/vnd.oasis.opendocument.spreadsheet",
		"application/vnd.oasis.opendocument.text-master", epubMime + ";v=3", "x" + epubMime, "", " ", "text/plain", "APPLICATION/EPUB+ZIP", "xx" + odtMime + "yy"}
	names := []string{"mimetype", "mimetype", "META-INF/container.xml", "word/document.xml", "xl/workbook.xml", "ppt/presentation.xml",
		"[Content_Types].xml", "_rels/.rels", "word/", "word/x.xml", "xl/y.xml", "ppt/z.xml", "wordy/a", "xlx", "ppt", "xl", "word",
		"content.xml", "META-INF/manifest.xml", "OEBPS/content.opf", "Mimetype", "META-INF/Container.xml", "word/Document.xml", "a/word/document.xml",
		"xl/workbook.xml.rels", "ppt/presentation.xmlx", "docProps/core.xml"}
	emit := func(ms []writers.Member) {
		got := detectBytes(writers.Zip(ms))
		c.Op("c20.zipfmt "+membersField(ms), got)
		c.Count("zipfmt:" + got)
		c.Case("zipfmt:"+membersField(ms), got != FUnknown && got != "err")
	}
	// every single member, every ordered pair of distinct names
	uniq := names[1:]
	for _, a := range uniq {
		if a == "mimetype" {
			for _, mt := range mimes {
				emit([]writers.Member{{Name: a, Data: []byte(mt)}})
			}
			continue
		}
		emit([]writers.Member{{Name: a, Data: []byte("x")}})
	}
	for _, a := range uniq[:16] {
		for _, b := range uniq[:16] {
			if a == b {
				continue
			}
			ms := []writers.Member{{Name: a, Data: []byte("x")}, {Name: b, Data: []byte("x")}}
			for i := range ms {
				if ms[i].Name == "mimetype" {
					ms[i].Data = []byte(hx.Pick(c.Rng, mimes))
				}
			}
			emit(ms)
		}
	}
	for i := 0; i < c.N(600, 12000); i++ {
		n := c.Rng.Range(1, 7)
		ms := make([]writers.Member, n)
		for j := range ms {
			ms[j] = writers.Member{Name: hx.Pick(c.Rng, names), Data: []byte("x")}
			if ms[j].Name == "mimetype" {
				ms[j].Data = []byte(hx.Pick(c.Rng, mimes))
				ms[j].Store = c.Rng.Bool()
			}
		}
		emit(ms)
	}
}

// ---- documents × names × layouts -----------------------------------------------------

type layout struct {
	Name    string
	Members []writers.Member // nil for PDF/HTML
	Decoys  []string
}

func isMarkerMember(m writers.Member) bool { return markerNames[m.Name] }

// layouts enumerates archive orders and decoy placements for a ZIP document.
// The first layout is always the canonical one without decoys.
func layouts(r *hx.Rng, d *Doc, shuffles int) []layout {
	if !d.IsZip() {
		return []layout{{Name: "raw"}}
	}
	canon := append([]writers.Member(nil), d.Members...)
	ls := []layout{{Name: "canon", Members: canon}}
	rev := make([]writers.Member, len(canon))
	for i, m := range canon {
		rev[len(canon)-1-i] = m
	}
	ls = append(ls, layout{Name: "reversed", Members: rev})
	var markers, rest []writers.Member
	for _, m := range canon {
		if isMarkerMember(m) {
			markers = append(markers, m)
		} else {
			rest = append(rest, m)
		}
	}
	ls = append(ls, layout{Name: "markers-last", Members: append(append([]writers.Member(nil), rest...), markers...)})
	for i := 0; i < shuffles; i++ {
		s := append([]writers.Member(nil), canon...)
		hx.Shuffle(r, s)
		ls = append(ls, layout{Name: fmt.Sprintf("shuffle%d", i), Members: s})
	}
	// decoys: all in front, all behind, random places in a shuffled archive
	d1 := pickDecoys(r, canon, r.Range(1, 4))
	ls = append(ls, layout{Name: "decoys-first", Members: append(append([]writers.Member(nil), d1...), canon...), Decoys: namesOf(d1)})
	d2 := pickDecoys(r, canon, r.Range(1, 4))
	ls = append(ls, layout{Name: "decoys-last", Members: append(append([]writers.Member(nil), canon...), d2...), Decoys: namesOf(d2)})
	for i := 0; i < shuffles; i++ {
		s := append([]writers.Member(nil), canon...)
		hx.Shuffle(r, s)
		s2, names := addDecoys(r, s, r.Range(1, 5))
		ls = append(ls, layout{Name: fmt.Sprintf("decoys-shuffle%d", i), Members: s2, Decoys: names})
	}
	if len(d.Mentions) > 0 {
		// members quoting other formats' signatures: in front (their bytes are
		// the first of the file after the local header), behind, in between
		mn := namesOf(d.Mentions)
		ls = append(ls, layout{Name: "mentions-first", Members: append(append([]writers.Member(nil), d.Mentions...), canon...), Decoys: mn})
		ls = append(ls, layout{Name: "mentions-last", Members: append(append([]writers.Member(nil), canon...), d.Mentions...), Decoys: mn})
		for i := 0; i < shuffles; i++ {
			s := append([]writers.Member(nil), canon...)
			hx.Shuffle(r, s)
			for _, m := range d.Mentions {
				pos := r.Intn(len(s) + 1)
				s = append(s, writers.Member{})
				copy(s[pos+1:], s[pos:])
				s[pos] = m
			}
			ls = append(ls, layout{Name: fmt.Sprintf("mentions-shuffle%d", i), Members: s, Decoys: mn})
		}
	}
	return ls
}

func (l layout) bytes(d *Doc) []byte {
	if l.Members == nil {
		return d.Raw
	}
	return writers.Zip(l.Members)
}

type docCase struct {
	Kind    string `json:"kind"`
	Seed    uint64 `json:"seed"`
	Index   int    `json:"index"`
	Layout  string `json:"layout,omitempty"`
	Name    string `json:"name,omitempty"`
	Format  string `json:"format,omitempty"`
	Variant string `json:"variant,omitempty"`
	Order   string `json:"member_order,omitempty"`
}

func memberNames(ms []writers.Member) string {
	xs := make([]string, len(ms))
	for i, m := range ms {
		xs[i] = m.Name
	}
	return strings.Join(xs, " | ")
}

// openText runs tabula.Open(path).Text() under a panic guard.
func openText(path string) (text string, err error, panicked string) {
	panicked = hx.Safe(func() {
		text, _, err = tabula.Open(path).Text()
	})
	return
}

func okErr(err error) string {
	if err == nil {
		return "ok"
	}
	return "err"
}

// namesFor: the file names one layout is stored under.
func namesFor(c *hx.Ctx, r *hx.Rng, d *Doc) []string {
	stem := "doc"
	var names []string
	for _, e := range allExts {
		names = append(names, stem+e)
	}
	var extra []string
	for _, e := range allExts {
		extra = append(extra, stem+strings.ToUpper(e), stem+mixCase(r, e))
	}
	extra = append(extra, stem, stem+".", stem+".txt", stem+".zip", stem+".doc", stem+".bin")
	for _, e := range allExts { // a second, misleading extension in the stem
		extra = append(extra, stem+hx.Pick(r, allExts)+e)
	}
	if c.Thorough() {
		return append(names, extra...)
	}
	// quick: own extension in upper and mixed case always, plus a sample
	for _, e := range extOf[d.Format] {
		names = append(names, stem+strings.ToUpper(e), stem+mixCase(r, e))
	}
	names = append(names, stem)
	for i := 0; i < 5; i++ {
		names = append(names, hx.Pick(r, extra))
	}
	return names
}

// RunDoc generates document #idx of the seed's stream and checks every layout
// under every name.
func RunDoc(c *hx.Ctx, idx int, verbose bool) { runDoc(c, "doc", idx, verbose) }

// RunMention does the same for document #idx of the stream of documents whose
// content quotes other formats' signatures (mention.go).
func RunMention(c *hx.Ctx, idx int, verbose bool) { runDoc(c, "mention", idx, verbose) }

// RunOpening does the same for document #idx of the stream of HTML documents
// that differ in how the front of the file is spelled (opening.go).
func RunOpening(c *hx.Ctx, idx int, verbose bool) { runDoc(c, "opening", idx, verbose) }

// RunEmbed does the same for document #idx of the stream of packages that embed
// a file of another format and declare its type (embed.go).
func RunEmbed(c *hx.Ctx, idx int, verbose bool) { runDoc(c, "embed", idx, verbose) }

func runDoc(c *hx.Ctx, kind string, idx int, verbose bool) {
	r := hx.NewRng(c.Seed).Fork(uint64(idx)) // independent of how much of c.Rng earlier stages used: replays from (seed, index)
	var d *Doc
	if kind == "mention" {
		r = hx.NewRng(c.Seed).Fork(0x4D454E54).Fork(uint64(idx))
		d = genMentionDoc(r, idx, fmt.Sprintf("tok%dm%04x", idx, r.Intn(1<<16)))
	} else if kind == "embed" {
		r = hx.NewRng(c.Seed).Fork(0x454D4244).Fork(uint64(idx))
		d = genEmbedDoc(r, idx, fmt.Sprintf("tok%de%04x", idx, r.Intn(1<<16)))
	} else if kind == "opening" {
		r = hx.NewRng(c.Seed).Fork(0x4F50454E).Fork(uint64(idx))
		d = htmlOpeningDoc(r, idx, fmt.Sprintf("tok%do%04x", idx, r.Intn(1<<16)))
	} else {
		token := fmt.Sprintf("tok%dq%04x", idx, r.Intn(1<<16))
		// ZIP formats have many layouts per document, PDF and HTML one: more of those
		plan := []string{FPDF, FDOCX, FODT, FXLSX, FPPTX, FHTML, FEPUB, "unsniffable", FPDF, FHTML, FPDF, FHTML}
		if f := plan[idx%len(plan)]; f == "unsniffable" {
			d = htmlUnsniffable(r, token)
		} else {
			d = genDoc(r, f, token)
		}
	}
	dir := filepath.Join(c.OutDir, fmt.Sprintf("%s-%d", kind, idx))
	os.MkdirAll(dir, 0o755)
	if !verbose {
		defer os.RemoveAll(dir)
	}
	ls := layouts(r, d, c.N(1, 3))
	canonDet := ""
	for li, l := range ls {
		data := l.bytes(d)
		kase := docCase{Kind: kind, Seed: c.Seed, Index: idx, Layout: l.Name, Format: d.Format, Variant: d.Variant, Order: memberNames(l.Members)}
		zipField := "-"
		if l.Members != nil {
			zipField = membersField(l.Members)
		}
		det := detectBytes(data)
		c.Op("c20.detect "+hx.Hex(first512(data))+" "+zipField, det)
		c.Count("detect:" + d.Format + "->" + det)
		if li == 0 {
			canonDet = det
			if d.Sniffable {
				c.Check("C20/detect-own-format"+d.KeySuffix, det == d.Format, kase, func() string {
					return fmt.Sprintf("%s document (%s) detected as %s; the file starts %q", d.Format, d.Variant, det, clip(string(data), 120))
				})
			} else {
				c.Check("C20/detect-unsniffable-not-misdetected", det == FUnknown || det == d.Format, kase, func() string {
					return fmt.Sprintf("%s document (%s) detected as %s", d.Format, d.Variant, det)
				})
			}
		} else {
			c.Check("C20/detect-order-independent", det == canonDet, kase, func() string {
				return fmt.Sprintf("%s document: canonical member order detected as %s, layout %s (decoys %v) as %s; members: %s",
					d.Format, canonDet, l.Name, l.Decoys, det, memberNames(l.Members))
			})
		}
		ldir := filepath.Join(dir, fmt.Sprintf("l%d", li))
		os.MkdirAll(ldir, 0o755)
		nontrivial := false
		for _, name := range namesFor(c, r, d) {
			path := filepath.Join(ldir, name)
			if err := os.WriteFile(path, data, 0o644); err != nil {
				panic(err)
			}
			k2 := kase
			k2.Name = name
			text, err, pan := openText(path)
			if !c.Check("C20/panic-open", pan == "", k2, func() string { return "panic: " + pan }) {
				continue
			}
			verr := tabula.Open(path).VerifValidateFormat()
			c.Op(fmt.Sprintf("c20.admission %s %s %s %s", hx.HexS(name), hx.Hex(first512(data)), zipField, d.Format),
				"v="+okErr(verr)+" open="+okErr(err))
			want := wantExtFormat(name)
			switch {
			case want == d.Format:
				ok := err == nil && strings.Contains(text, d.Token)
				nontrivial = nontrivial || ok
				c.Check("C20/opens-under-own-ext", ok, k2, func() string {
					return fmt.Sprintf("%s document (%s, layout %s, decoys %v) named %q: err=%v, token %q in text: %v",
						d.Format, d.Variant, l.Name, l.Decoys, name, err, d.Token, strings.Contains(text, d.Token))
				})
				c.Count("own-ext:" + d.Format)
			case want != FUnknown:
				c.Check("C20/mismatch-refused", err != nil, k2, func() string {
					return fmt.Sprintf("%s document (%s, layout %s, decoys %v) named %q (asks for %s) opened without error; text=%q",
						d.Format, d.Variant, l.Name, l.Decoys, name, want, clip(text, 80))
				})
				if d.Sniffable {
					c.Check("C20/mismatch-cross-check"+d.KeySuffix, verr != nil, k2, func() string {
						return fmt.Sprintf("%s document (%s) named %q (asks for %s): the content-vs-extension check passed it; the file starts %q", d.Format, d.Variant, name, want, clip(string(data), 120))
					})
				}
				c.Count("mismatch:" + d.Format + " as " + want)
			default:
				// no / unsupported extension: never mis-parsed
				c.Check("C20/no-extension-never-misparsed", err != nil || strings.Contains(text, d.Token), k2, func() string {
					return fmt.Sprintf("%s document named %q produced text %q", d.Format, name, clip(text, 80))
				})
				c.Count("no-ext:" + okErr(err))
			}
			if !verbose {
				os.Remove(path)
			}
		}
		c.Case(fmt.Sprintf("%s:%s:%s:%s:%x", kind, d.Format, d.Variant, memberNames(l.Members), len(data)), nontrivial)
	}
}

func clip(s string, n int) string {
	if len(s) > n {
		return s[:n] + "…"
	}
	return s
}

// ---- malformed stream ------------------------------------------------------------------

func malformed(c *hx.Ctx) {
	r := hx.NewRng(c.Seed).Fork(0xBAD)
	dir := filepath.Join(c.OutDir, "malformed")
	os.MkdirAll(dir, 0o755)
	defer os.RemoveAll(dir)
	n := c.N(40, 400)
	for i := 0; i < n; i++ {
		var data []byte
		var zipField, kind string
		switch i % 8 {
		case 0: // truncated ZIP of a valid document
			d := genDoc(r, hx.Pick(r, []string{FDOCX, FXLSX, FPPTX, FODT, FEPUB}), "tokm")
			b := d.Bytes()
			data, zipField, kind = b[:r.Range(4, len(b)-1)], "err", "zip-truncated"
		case 1: // ZIP without any marker
			ms := []writers.Member{{Name: "readme.txt", Data: []byte("hello")}, {Name: "data/x.bin", Data: r.Bytes(8)}}
			data, zipField, kind = writers.Zip(ms), membersField(ms), "zip-no-marker"
		case 2:
			data, zipField, kind = r.Bytes(r.Range(0, 64)), "-", "random"
			if len(data) >= 4 && data[0] == 'P' && data[1] == 'K' {
				data[0] = 'Q'
			}
		case 3:
			data, zipField, kind = []byte{}, "-", "empty"
		case 4: // PDF header only
			data, zipField, kind = []byte("%PDF-1.4\nnot really\n"), "-", "pdf-header-only"
		case 5: // PK header, garbage behind
			data, zipField, kind = append([]byte("PK\x03\x04"), r.Bytes(r.Range(0, 80))...), "err", "pk-garbage"
		case 6: // empty ZIP (end-of-central-directory record only)
			data, zipField, kind = writers.Zip(nil), "-", "zip-empty"
		case 7: // truncated PDF
			d := pdfDoc(r, "tokm")
			data, zipField, kind = d.Raw[:r.Range(5, len(d.Raw)-20)], "-", "pdf-truncated"
		}
		det := detectBytes(data)
		if zipField == "err" && det != "err" {
			// a truncation that archive/zip still reads: not a case for this stream
			continue
		}
		c.Op("c20.detect "+hx.Hex(first512(data))+" "+zipField, det)
		c.Count("malformed:" + kind + "->" + det)
		for _, e := range append([]string{"", ".txt"}, allExts...) {
			path := filepath.Join(dir, fmt.Sprintf("m%d%s", i, e))
			os.WriteFile(path, data, 0o644)
			_, err, pan := openText(path)
			kase := map[string]interface{}{"kind": "malformed", "seed": c.Seed, "index": i, "name": "m" + e}
			if c.Check("C20/panic-open", pan == "", kase, func() string { return "panic: " + pan }) {
				verr := tabula.Open(path).VerifValidateFormat()
				c.Op(fmt.Sprintf("c20.admission %s %s %s none", hx.HexS("m"+e), hx.Hex(first512(data)), zipField), "v="+okErr(verr)+" open="+okErr(err))
			}
			os.Remove(path)
		}
		c.Case(fmt.Sprintf("malformed:%s:%x", kind, data), false)
	}
}

func Run(c *hx.Ctx) {
	c.Rep.Rule = "names: every stem × extension × case variant + random names; magic: crafted prefixes, the 500-byte XML window, random prefixes; zipfmt: all single members, ordered pairs and random member lists over markers/prefixes/decoys/mimetype contents; documents: the harness's own writers for PDF, DOCX, ODT, XLSX, PPTX, HTML, EPUB 2/3 (+ HTML the sniffer cannot classify), each in canonical/reversed/markers-last/shuffled member orders and with decoy members of other formats in front/behind/between, each stored under all eight extensions, case variants, no and unsupported extensions and opened with tabula.Open(name).Text(); mentions: the same for documents of every format whose content quotes the signatures of the OTHER formats (%PDF-x.y, PK\\x03\\x04, doctype / <html>, mimetype strings, main part names) in title, meta, comments, attributes, body text, PDF comments / streams / page text / Info, ZIP member names and stored member data - marks × offsets (front, inside / across / beyond 512, 1024, 4096 bytes) swept for HTML and PDF, sampled for the ZIP formats and unclassifiable HTML; openings: HTML documents sweeping how the front of the file may be spelled under the HTML/XML grammar - root start tag alone / after a DOCTYPE / omitted after one / after an XML declaration (XHTML) x the whitespace after the first keyword (one blank, LF, CRLF, CR, TAB, FF, runs and indentation) x letter case of tag name and DOCTYPE keywords x 0-3 attributes in quoted/unquoted/empty form spread over lines x legacy DOCTYPE strings x leading whitespace; embeddings: DOCX / XLSX / PPTX / ODT / EPUB packages that embed a file of another kind (docx docm dotx xlsx xlsm xltx pptx pptm sldx ppsx odt ods odp pdf html epub, OLE object; real documents from the harness's writers) as a proper part and declare its media type the host's own way - OOXML: part under <main dir>/embeddings, relationship from sheet / document / slide, Default-by-extension or Override content type at the front or back of [Content_Types].xml; ODT: sub-document directory or plain member listed in META-INF/manifest.xml; EPUB: non-spine manifest item - host x payload kind swept, a second payload on one in three, each through the same layouts x names; EPUB DRM matrix: rights file, unparsable metadata, all subsets of manifest items × algorithm, random subset×algorithm mixes, entry permutations and URI case/path forms (percent-encoded URI reference, per-segment component escaping, and the archive member name copied verbatim), over EPUBs whose chapter and font file names are conventional, or built from OCF-legal characters that are delimiters/escapes in a URI (stray '%', '#', brackets, sub-delimiters, blanks, '^', '`', braces; in file and directory names) - none / one in four / all of them per block of ten EPUBs; malformed: truncated/empty/markerless archives, random bytes; public API: every Format value through String/Extension/Detect; archives through validateMimetype, sniffer + checkForDRM and epubdoc.OpenReader (EPUBs in every DRM state x intact/shuffled/no container/no OPF/broken container/no or wrong mimetype/no markers, other formats' documents, junk, random member lists over the names the three mechanisms key on and near misses of them with good/broken encryption.xml, members that cannot be opened); the three URI spellings of EPUB item paths and of random byte strings; worlds (valid documents of the seven formats, shuffled with decoys, unclassifiable HTML, DRM / damaged EPUBs, junk bytes, missing file, directory) under every extension + case variants + none + nested/misleading names x every kind of operation of the public API on a fresh Open; random call histories of 4-14 calls (Open under 3 names holding the same bytes, FromReader, FromHTMLString / failing FromHTMLReader, configuration methods incl. an invalid PageRange, operations of every kind, Close, rewrites among 1-3 versions of the bytes); bytes: names, file fronts, mimetype contents and cipher references as BYTES - non-ASCII letters (incl. the four runes whose case image is an ASCII letter: U+0130, U+0131, U+017F, U+212A), ill-formed UTF-8, every white-space rune of unicode.IsSpace and near misses (U+FEFF, U+200B, lone continuation bytes) around the media types, the XML-declaration window with fillers that change their length in upper case (ill-formed bytes x3, U+0250 2->3, U+017F 2->1) landing the root tag around position 500 of the bytes and of the upper-cased text, the case tables of package unicode sent with each op and checked on every rune; encryption.xml files from a writer of its own (default namespace / prefixes, XML declaration, BOM, comments and processing instructions between elements, KeyInfo, EncryptedKey siblings, EncryptionProperties, single quotes, character references) with 0-3 declared entries over ASCII and non-ASCII references - schema-valid, schema-valid with a namespace declaration named like the attribute (xmlns:Algorithm / xmlns:URI, in front of or behind it), eleven kinds of file outside the schema (EncryptedData / EncryptionMethod one level too deep, qualified attributes, repeated EncryptionMethod / CipherData / CipherReference, other letter case, child content), and a malformed stream (truncated, wrong root, bad end tag, other charset, bad entity, leading text, trailing garbage, no element) - through tabula's own xml.Unmarshal and hasEncryptedContent; byte-level worlds (HTML with non-ASCII and ill-formed text behind DOCTYPE / root tag, byte-order mark or comment in front, XHTML prologs whose upper-cased length differs from their byte length, EPUBs with Unicode white space around the media type with and without container, EPUBs carrying the encryption files above over their own manifest items, and the worlds of the API stream) under names of arbitrary bytes x every extension x kinds of operation. non-trivial = a document opened with its token in the text / an op with a definite format"
	extOps(c)
	magicOps(c)
	zipfmtOps(c)
	drmUnitOps(c)
	n := c.N(96, 1200)
	for i := 0; i < n; i++ {
		RunDoc(c, i, false)
	}
	for i, k := 0, c.N(1, 6)*mentionRound(); i < k; i++ {
		RunMention(c, i, false)
	}
	for i, k := 0, c.N(2, 12)*openingRound(); i < k; i++ {
		RunOpening(c, i, false)
	}
	for i, k := 0, c.N(1, 4)*embedRound(); i < k; i++ {
		RunEmbed(c, i, false)
	}
	m := c.N(60, 600)
	for i := 0; i < m; i++ {
		RunDRM(c, i, false)
	}
	malformed(c)
	apiOps(c)
	bytesOps(c)
}

// Replay re-runs one recorded failing case on the implementation.
func Replay(c *hx.Ctx, kase map[string]interface{}) {
	kind, _ := kase["kind"].(string)
	idx := 0
	if f, ok := kase["index"].(float64); ok {
		idx = int(f)
	}
	switch kind {
	case "doc":
		RunDoc(c, idx, true)
	case "mention":
		RunMention(c, idx, true)
	case "opening":
		RunOpening(c, idx, true)
	case "embed":
		RunEmbed(c, idx, true)
	case "drm":
		RunDRM(c, idx, true)
	case "api-open":
		RunAPIOpen(c, idx, true)
	case "api-hist":
		RunAPIHist(c, idx, true)
	case "api-gate":
		gateOps(c)
	case "bytes-open":
		RunBytesOpen(c, idx, true)
	case "bytes-enc":
		encOps(c)
	case "bytes-units":
		byteUnitOps(c)
	case "ext":
		extOps(c)
	case "malformed":
		malformed(c)
	default:
		drmUnitOps(c)
	}
}

var _ = errors.Is
var _ = epubdoc.ErrDRMProtected
