// Package c20 is the correspondence/oracle harness for property C20.
package c20

import "verifharness/hx"

func init() { hx.Register("C20", Run, Replay) }

// Run is not built yet for this property.
func Run(c *hx.Ctx) { c.Note("C20: harness not built") }

func Replay(c *hx.Ctx, kase map[string]interface{}) {}
