package c20

// Correspondence ops for the BYTE-EXACT model (Model/DetectBytes.lean) and for the
// encryption metadata as an XML tree (Model/EncXml.lean); wire format parsed in
// Handlers/C20.lean:
//
//	c20.extb     <name> <pairs>          -> format.Detect(name)                       any bytes
//	c20.magicb   <bytes> <pairs>         -> format.DetectFromMagic(bytes)             any bytes
//	c20.contentb <uri> <pairs>           -> epubdoc.isContentFile(uri)                any bytes
//	c20.mimeb    <content>               -> <FORMAT> <ok|invalid>   DetectFromReader and validateMimetype on the
//	                                        archive [mimetype: content]
//	c20.encxml   <doc> <pairs>           -> <entries|err> <true|false|err>   xml.Unmarshal into tabula's
//	                                        encryptionXML; hasEncryptedContent on the member
//	c20.admitb   <name> <fsb> <pairs>    -> ok:<FORMAT> | err:<class>   Open(name).Text() reaches a reader of
//	                                        which format, or how it is refused
//	c20.openb    <name> <fsb> <kind> <pairs> -> outcome class of tabula.Open(name).<op of kind>()
//
// <pairs> = the case tables of package unicode for the non-ASCII runes that occur
//           (and their images): `r:upper:lower` in hex joined by `,`; `-` = none.
// <doc>   = `B` (the member cannot be read, holds no element, or encoding/xml's
//           tokeniser reports an error before the first element is closed) or that
//           element as a tree: node = `(` localhex { `@` spacehex `~` localhex `~`
//           valuehex } node* `)` | `.` (text, comment, processing instruction,
//           directive); spacehex is the attribute's Name.Space as Decoder.Token
//           delivers it (`-` unqualified, "xmlns" for a namespace declaration).
// <fsb>   = `M` | `D` | `F/<first512hex>/<accepts>/<xzip>`; <xzip> = `err`, `-` or members
//           joined by `,`: `namehex[:d=<contenthex>][:x=<doc>]` (content for members named
//           "mimetype" that could be read, <doc> for members named META-INF/encryption.xml).

import (
	"archive/zip"
	"bytes"
	"encoding/xml"
	"fmt"
	"io"
	"os"
	"path/filepath"
	"sort"
	"strings"
	"unicode"
	"unicode/utf8"

	"github.com/tsawler/tabula"
	"github.com/tsawler/tabula/epubdoc"
	"github.com/tsawler/tabula/format"

	"verifharness/hx"
	"verifharness/writers"
)

// ---- the case tables ----------------------------------------------------------------

// casePairs: the rows of unicode.ToUpper / ToLower for every non-ASCII rune the
// strings hold (decoded as Go decodes them) and for the images of those runes.
func casePairs(strs ...[]byte) string {
	seen := map[rune]bool{}
	var add func(r rune, depth int)
	add = func(r rune, depth int) {
		if r < 0x80 || seen[r] {
			return
		}
		seen[r] = true
		if depth > 0 {
			add(unicode.ToUpper(r), depth-1)
			add(unicode.ToLower(r), depth-1)
		}
	}
	for _, s := range strs {
		for len(s) > 0 {
			r, w := utf8.DecodeRune(s)
			s = s[w:]
			add(r, 2)
		}
	}
	if len(seen) == 0 {
		return "-"
	}
	rs := make([]int, 0, len(seen))
	for r := range seen {
		rs = append(rs, int(r))
	}
	sort.Ints(rs)
	xs := make([]string, len(rs))
	for i, r := range rs {
		xs[i] = fmt.Sprintf("%x:%x:%x", r, unicode.ToUpper(rune(r)), unicode.ToLower(rune(r)))
	}
	return strings.Join(xs, ",")
}

// caseTableFacts: the one property of the tables the theorems of Props/C20Bytes.lean
// assume (UpperOK / LowerOK), checked on every rune of package unicode.
func caseTableFacts(c *hx.Ctx) {
	var bad []string
	for r := rune(0x80); r <= unicode.MaxRune; r++ {
		if u := unicode.ToUpper(r); u < 0x80 && u != 'I' && u != 'S' {
			bad = append(bad, fmt.Sprintf("ToUpper(%U)=%q", r, u))
		}
		if l := unicode.ToLower(r); l < 0x80 && l != 'i' && l != 'k' {
			bad = append(bad, fmt.Sprintf("ToLower(%U)=%q", r, l))
		}
	}
	c.Check("C20/case-table-ascii-images", len(bad) == 0, map[string]interface{}{"kind": "bytes-units"}, func() string {
		return "a non-ASCII rune is mapped to an ASCII letter other than I, S, i, k: " + strings.Join(bad, " ")
	})
}

// ---- encryption.xml as the tokeniser sees it --------------------------------------------

type xnode struct {
	local string
	attrs []xml.Attr
	kids  []*xnode
	other bool
}

// encDoc: the first element of the data as encoding/xml's Decoder.Token delivers
// it (what xml.Unmarshal walks), or nil.
func encDoc(data []byte) *xnode {
	d := xml.NewDecoder(bytes.NewReader(data))
	for {
		tok, err := d.Token()
		if err != nil {
			return nil
		}
		if se, ok := tok.(xml.StartElement); ok {
			n, ok := buildNode(d, se)
			if !ok {
				return nil
			}
			return n
		}
	}
}

func buildNode(d *xml.Decoder, se xml.StartElement) (*xnode, bool) {
	n := &xnode{local: se.Name.Local, attrs: append([]xml.Attr(nil), se.Attr...)}
	for {
		tok, err := d.Token()
		if err != nil {
			return nil, false
		}
		switch t := tok.(type) {
		case xml.StartElement:
			k, ok := buildNode(d, t)
			if !ok {
				return nil, false
			}
			n.kids = append(n.kids, k)
		case xml.EndElement:
			return n, true
		default:
			if len(n.kids) == 0 || !n.kids[len(n.kids)-1].other {
				n.kids = append(n.kids, &xnode{other: true})
			}
		}
	}
}

func (n *xnode) wire(b *strings.Builder) {
	if n.other {
		b.WriteByte('.')
		return
	}
	b.WriteByte('(')
	b.WriteString(hx.HexS(n.local))
	for _, a := range n.attrs {
		b.WriteByte('@')
		b.WriteString(hx.HexS(a.Name.Space))
		b.WriteByte('~')
		b.WriteString(hx.HexS(a.Name.Local))
		b.WriteByte('~')
		b.WriteString(hx.HexS(a.Value))
	}
	for _, k := range n.kids {
		k.wire(b)
	}
	b.WriteByte(')')
}

func docField(data []byte, readable bool) string {
	if !readable {
		return "B"
	}
	n := encDoc(data)
	if n == nil {
		return "B"
	}
	var b strings.Builder
	n.wire(&b)
	return b.String()
}

// attribute values and names of the tree, for the case tables
func (n *xnode) values(out *[][]byte) {
	if n == nil || n.other {
		return
	}
	for _, a := range n.attrs {
		*out = append(*out, []byte(a.Value))
	}
	for _, k := range n.kids {
		k.values(out)
	}
}

// ---- a writer for encryption.xml ------------------------------------------------------------

// xEntry is one EncryptedData as declared.
type xEntry struct{ Algo, URI string }

// xStyle: how the file is spelled; every knob keeps the file a schema-valid
// OCF encryption.xml with the declared entries, unless Odd / Broken is set.
type xStyle struct {
	Prefix   string // "" (default namespace on each EncryptedData), "enc", "e", "xenc"
	Decl     bool   // XML declaration
	BOM      bool
	Comments bool // comments / processing instructions / white space between elements
	KeyInfo  bool
	Keys     bool // EncryptedKey siblings (with CipherData/CipherValue inside)
	Props    bool // EncryptionProperties behind CipherData
	Single   bool // single quotes
	Entities bool // attribute values through character references
	Shadow   int  // 0 none; 1 xmlns:Algorithm="<obfuscation>" behind Algorithm; 2 in front; 3 xmlns:URI="x.otf" behind URI; 4 in front; 5 both behind
	Odd      int  // 0 none; structural oddities outside the schema (see writeEnc)
}

func xmlAttr(st xStyle, name, val string) string {
	q := `"`
	if st.Single {
		q = `'`
	}
	v := writers.XMLEsc(val)
	if st.Entities && len(val) > 0 {
		// the first character as a character reference
		r, w := utf8.DecodeRuneInString(val)
		if r != utf8.RuneError && r >= 0x20 {
			v = fmt.Sprintf("&#x%X;", r) + writers.XMLEsc(val[w:])
		}
	}
	if st.Single {
		v = strings.ReplaceAll(v, "'", "&apos;")
	}
	return " " + name + "=" + q + v + q
}

func writeEnc(r *hx.Rng, es []xEntry, st xStyle) []byte {
	var b strings.Builder
	if st.BOM {
		b.WriteString("\xef\xbb\xbf")
	}
	if st.Decl {
		b.WriteString(`<?xml version="1.0" encoding="UTF-8"?>` + "\n")
	}
	gap := func() {
		if st.Comments {
			b.WriteString(hx.Pick(r, []string{"\n  ", "<!-- EncryptedData -->", "<?proc x?>", " \t", "<!--<EncryptedData/>-->", ""}))
		}
	}
	p := ""
	if st.Prefix != "" {
		p = st.Prefix + ":"
		fmt.Fprintf(&b, `<encryption xmlns="urn:oasis:names:tc:opendocument:xmlns:container" xmlns:%s="http://www.w3.org/2001/04/xmlenc#" xmlns:ds="http://www.w3.org/2000/09/xmldsig#">`, st.Prefix)
	} else {
		b.WriteString(`<encryption xmlns="urn:oasis:names:tc:opendocument:xmlns:container">`)
	}
	decl := ""
	if st.Prefix == "" {
		decl = ` xmlns="http://www.w3.org/2001/04/xmlenc#"`
	}
	obf := hx.Pick(r, obfAlgos)
	for i, en := range es {
		gap()
		if st.Keys && r.Bool() {
			fmt.Fprintf(&b, `<%sEncryptedKey%s Id="EK%d"><%sEncryptionMethod Algorithm="http://www.w3.org/2001/04/xmlenc#rsa-oaep-mgf1p"/><%sCipherData><%sCipherValue>AAAA</%sCipherValue></%sCipherData></%sEncryptedKey>`, p, decl, i, p, p, p, p, p, p)
			gap()
		}
		if st.Odd == 1 {
			// an EncryptedData one level too deep: not an entry of the file
			fmt.Fprintf(&b, `<%sEncryptedKey%s><%sEncryptedData><%sEncryptionMethod Algorithm="%s"/><%sCipherData><%sCipherReference URI="deep/ch9.xhtml"/></%sCipherData></%sEncryptedData></%sEncryptedKey>`, p, decl, p, p, aesAlgos[0], p, p, p, p, p)
		}
		fmt.Fprintf(&b, `<%sEncryptedData%s%s>`, p, decl, xmlAttr(st, "Id", fmt.Sprintf("ED%d", i+1)))
		gap()
		method := func(algo string) {
			b.WriteString("<" + p + "EncryptionMethod")
			if st.Shadow == 2 {
				b.WriteString(xmlAttr(st, "xmlns:Algorithm", obf))
			}
			if !(algo == "" && st.Odd == 2) {
				an := "Algorithm"
				if st.Odd == 3 {
					an = p + "Algorithm" // a QUALIFIED attribute: not the XML-Encryption attribute (or, without a prefix, the plain one)
				}
				b.WriteString(xmlAttr(st, an, algo))
			}
			if st.Shadow == 1 || st.Shadow == 5 {
				b.WriteString(xmlAttr(st, "xmlns:Algorithm", obf))
			}
			if st.Odd == 4 {
				b.WriteString("><" + p + "KeySize>128</" + p + "KeySize></" + p + "EncryptionMethod>")
			} else {
				b.WriteString("/>")
			}
		}
		cipher := func(uri string) {
			b.WriteString("<" + p + "CipherData>")
			gap()
			b.WriteString("<" + p + "CipherReference")
			if st.Shadow == 4 {
				b.WriteString(xmlAttr(st, "xmlns:URI", "fonts/x.otf"))
			}
			b.WriteString(xmlAttr(st, "URI", uri))
			if st.Shadow == 3 || st.Shadow == 5 {
				b.WriteString(xmlAttr(st, "xmlns:URI", "fonts/x.otf"))
			}
			if st.Odd == 5 {
				b.WriteString("><" + p + "Transforms/></" + p + "CipherReference>")
			} else {
				b.WriteString("/>")
			}
			gap()
			b.WriteString("</" + p + "CipherData>")
		}
		switch st.Odd {
		case 6: // CipherData in front of EncryptionMethod
			cipher(en.URI)
			gap()
			method(en.Algo)
		case 7: // two EncryptionMethod elements: the later Algorithm wins
			method(hx.Pick(r, obfAlgos))
			method(en.Algo)
			gap()
			cipher(en.URI)
		case 8: // two CipherData elements, the second without a reference
			method(en.Algo)
			cipher(en.URI)
			b.WriteString("<" + p + "CipherData/>")
		case 9: // two CipherReference elements in two CipherData
			method(en.Algo)
			cipher("fonts/first.otf")
			cipher(en.URI)
		case 10: // EncryptionMethod one level too deep
			b.WriteString("<wrap>")
			method(en.Algo)
			b.WriteString("</wrap>")
			cipher(en.URI)
		case 11: // element names in another letter case
			b.WriteString("<encryptionmethod" + xmlAttr(st, "Algorithm", en.Algo) + "/>")
			cipher(en.URI)
		default:
			method(en.Algo)
			gap()
			if st.KeyInfo {
				if st.Prefix != "" {
					b.WriteString(`<ds:KeyInfo><ds:RetrievalMethod URI="#EK" Type="http://www.w3.org/2001/04/xmlenc#EncryptedKey"/></ds:KeyInfo>`)
				} else {
					b.WriteString(`<KeyInfo xmlns="http://www.w3.org/2000/09/xmldsig#"><KeyName>k</KeyName></KeyInfo>`)
				}
				gap()
			}
			cipher(en.URI)
		}
		gap()
		if st.Props {
			fmt.Fprintf(&b, `<%sEncryptionProperties><%sEncryptionProperty><Compression xmlns="http://www.idpf.org/2016/encryption#compression" Method="8" OriginalLength="100"/></%sEncryptionProperty></%sEncryptionProperties>`, p, p, p, p)
		}
		fmt.Fprintf(&b, `</%sEncryptedData>`, p)
	}
	gap()
	b.WriteString("</encryption>")
	if st.Comments {
		b.WriteString("\n<!-- end -->\n")
	}
	return []byte(b.String())
}

// breakEnc: the malformed stream.
func breakEnc(r *hx.Rng, good []byte) ([]byte, string) {
	s := string(good)
	switch r.Intn(12) {
	case 0:
		return good[:r.Range(0, len(good)-1)], "truncated"
	case 1:
		return []byte{}, "empty"
	case 2:
		return []byte(strings.Replace(strings.Replace(s, "<encryption ", "<Encryption ", 1), "</encryption>", "</Encryption>", 1)), "root-case"
	case 3:
		return r.Bytes(r.Range(1, 40)), "random"
	case 4:
		return []byte(strings.Replace(s, "</encryption>", "</encryptio>", 1)), "end-tag"
	case 5:
		return []byte(strings.Replace(s, `encoding="UTF-8"`, `encoding="ISO-8859-1"`, 1)), "charset"
	case 6:
		return []byte(strings.Replace(s, "<encryption ", "<x:encryption xmlns:x=\"urn:x\" ", 1) + ""), "root-prefixed-unclosed"
	case 7:
		return []byte(strings.Replace(s, "URI=", "URI=&bad;", 1)), "bad-attr"
	case 8:
		return []byte(s + "<<<< trailing garbage"), "trailing-garbage"
	case 9:
		return []byte("leading text " + s), "leading-text"
	case 10:
		return []byte("<!-- only a comment -->"), "no-element"
	default:
		return []byte(strings.Replace(s, "<encryption ", "<container ", 1)), "root-other"
	}
}

var xURIs = []string{"OEBPS/ch1.xhtml", "OEBPS/CH1.XHTML", "Text/ch2.html", "c2.htm", "fonts/f.otf", "Fonts/emb bold.ttf", "style.css",
	"toc.ncx", "x.xml", "OEBPS/100%25.html", "img.png", "", "OEBPS/Kapitel-\u00fc.xhtml", "OEBPS/\u7ae0.html", "ch1.xhtm\u0130", "ch1.\u212aml", "ch1.XHTM\u0131",
	" ch1.xhtml", "ch1.xhtml ", "a&b<c>.html", "ch'1\".xhtml", "\u00dcBER.HTML", "ch1.xht", "ch1.xhtml#frag"}

func randStyle(r *hx.Rng) xStyle {
	return xStyle{Prefix: hx.Pick(r, []string{"", "enc", "enc", "e", "xenc"}), Decl: r.Bool(), BOM: r.Chance(1, 10), Comments: r.Bool(),
		KeyInfo: r.Bool(), Keys: r.Chance(1, 3), Props: r.Chance(1, 4), Single: r.Chance(1, 5), Entities: r.Chance(1, 5)}
}

type bytesCase struct {
	Kind  string `json:"kind"`
	Seed  uint64 `json:"seed"`
	Index int    `json:"index"`
	What  string `json:"what,omitempty"`
	Name  string `json:"name,omitempty"`
	Op    string `json:"op,omitempty"`
}

// encOps: encryption.xml files through tabula's own xml.Unmarshal (entries) and
// hasEncryptedContent (decision): schema-valid files in many spellings, the same
// with a namespace declaration named like the attribute, files outside the schema,
// and a malformed stream.
func encOps(c *hx.Ctx) {
	r := hx.NewRng(c.Seed).Fork(0xE4C)
	n := c.N(420, 9000)
	for i := 0; i < n; i++ {
		var es []xEntry
		for k := r.Range(0, 3); k > 0; k-- {
			es = append(es, xEntry{Algo: pickAlgo(r, r.Intn(3)), URI: hx.Pick(r, xURIs)})
		}
		st := randStyle(r)
		class := "clean"
		switch i % 6 {
		case 1, 2:
			st.Shadow = r.Range(1, 5)
			class = "nsdecl"
		case 3:
			st.Odd = r.Range(1, 11)
			class = fmt.Sprintf("odd%d", st.Odd)
		}
		data := writeEnc(r, es, st)
		if i%6 == 5 {
			var how string
			data, how = breakEnc(r, data)
			class = "broken-" + how
		}
		encCase(c, i, class, data, es)
	}
}

func entriesField(es [][2]string) string {
	if len(es) == 0 {
		return "none"
	}
	xs := make([]string, len(es))
	for i, e := range es {
		xs[i] = hx.HexS(e[0]) + "." + hx.HexS(e[1])
	}
	return strings.Join(xs, ";")
}

func encCase(c *hx.Ctx, i int, class string, data []byte, declared []xEntry) {
	kase := bytesCase{Kind: "bytes-enc", Seed: c.Seed, Index: i, What: class + ": " + clip(string(data), 300)}
	var got [][2]string
	var gerr error
	pan := hx.Safe(func() { got, gerr = epubdoc.VerifEncryptionEntries(data) })
	if !c.Check("C20/panic-open", pan == "", kase, func() string { return "panic: " + pan }) {
		return
	}
	ent := "err"
	if gerr == nil {
		ent = entriesField(got)
	}
	arch := writers.Zip([]writers.Member{{Name: "mimetype", Data: []byte(epubMime), Store: true}, {Name: "META-INF/encryption.xml", Data: data}})
	dec := epubdoc.VerifHasEncryptedContent(bytes.NewReader(arch), int64(len(arch)))
	doc := encDoc(data)
	var vals [][]byte
	doc.values(&vals)
	c.Op("c20.encxml "+docField(data, true)+" "+casePairs(vals...), ent+" "+dec)
	c.Count("encxml:" + strings.SplitN(class, "-", 2)[0] + ":" + dec)
	c.Case("encxml:"+string(data), gerr == nil && len(got) > 0)
	// statement-level: a schema-valid file is read as the entries it declares — a
	// namespace declaration is not an attribute — and refused iff one of them puts
	// a non-obfuscation algorithm on a content reference
	if class == "clean" || class == "nsdecl" {
		want := make([][2]string, len(declared))
		for k, e := range declared {
			want[k] = [2]string{e.Algo, e.URI}
		}
		key := "C20/drm-xml-declared-entries-read"
		if class == "nsdecl" {
			key = "C20/drm-xml-namespace-declaration-is-not-the-attribute"
		}
		c.Check(key, gerr == nil && entriesField(got) == entriesField(want), kase, func() string {
			return fmt.Sprintf("encryption.xml declares %q but xml.Unmarshal gave %q (err=%v)", want, got, gerr)
		})
		must := false
		for _, e := range declared {
			if !isObfAlgo(e.Algo) && conventionalContent(e.URI) {
				must = true
			}
		}
		if must {
			c.Check(key+"-refused", dec == "true", kase, func() string {
				return fmt.Sprintf("a content document is covered by a cipher (%q) but hasEncryptedContent = %s", declared, dec)
			})
		}
	}
}

// conventionalContent: the reference ends in one of the conventional extensions
// of a content document (ASCII case-insensitive), written from the property text.
func conventionalContent(uri string) bool {
	l := asciiLower(uri)
	return strings.HasSuffix(l, ".xhtml") || strings.HasSuffix(l, ".html") || strings.HasSuffix(l, ".htm")
}

// ---- names, fronts, mimetype contents, references as bytes --------------------------------------

var nonASCIIBits = []string{"\u00fc", "\xff", "\xc3", "\u212a", "\u0130", "\u0131", "\u017f", "\u7ae0", "\xe2\x82", "\xf0\x9f\x98\x80", "\u0250", "\u00df", "\u1e9e", "\xed\xa0\x80", "\xc0\xaf", "\ufeff", "\u00a0"}

func byteUnitOps(c *hx.Ctx) {
	r := hx.NewRng(c.Seed).Fork(0xB17E5)
	caseTableFacts(c)
	// names
	exts := []string{".pdf", ".PDF", ".Docx", ".odt", ".xlsx", ".PPTX", ".html", ".HTM", ".epub", ".pd\u017f", ".\u212adf", ".htm\u0131", ".ep\u00fcb", ".pdf\xff", ".\xffpdf", ".txt", "", ".", ".HTM\u0130", ".d\u00f6cx"}
	for i := 0; i < c.N(300, 6000); i++ {
		var sb strings.Builder
		for j := r.Range(0, 3); j > 0; j-- {
			if r.Bool() {
				sb.WriteString(hx.Pick(r, nonASCIIBits))
			} else {
				sb.WriteString(hx.Pick(r, []string{"doc", "a.b", "dir/", ".", "x", "\u00dc/"}))
			}
		}
		name := sb.String() + hx.Pick(r, exts)
		if r.Chance(1, 8) {
			name += hx.Pick(r, nonASCIIBits)
		}
		got := format.Detect(name).String()
		c.Op("c20.extb "+hx.HexS(name)+" "+casePairs([]byte(name)), got)
		want := wantExtFormat(name)
		c.Check("C20/ext-table-exact-bytes", got == want, bytesCase{Kind: "bytes-units", Seed: c.Seed, Name: name}, func() string {
			return fmt.Sprintf("format.Detect(%q)=%s want %s", name, got, want)
		})
		c.Count("extb:" + got)
		c.Case("extb:"+name, got != FUnknown)
	}
	// fronts: the patterns, then anything; the XML window with characters that
	// change their length in upper case and ill-formed bytes
	emitMagic := func(b []byte) {
		got := format.DetectFromMagic(b).String()
		c.Op("c20.magicb "+hx.Hex(b)+" "+casePairs(b), got)
		c.Count("magicb:" + got)
		c.Case("magicb:"+string(b), got != FUnknown)
	}
	fronts := []string{"<!DOCTYPE html>", "<!doctype\nHTML ", "<html lang=\"de\">", "<HTML>", "<?xml version=\"1.0\"?>", "<?XML?>", "\xef\xbb\xbf<!DOCTYPE html>", "\xef\xbb\xbf<html>",
		"<!-- c --><!DOCTYPE html>", "<!DOCTYPE \u0131html>", "<\u0131html>", "<!DOCTYPE HTM\u0131", "<htm\u0131", "<H\u0131TML>", "<HTM\u017f", "<?XM\u0131", "%PDF-1.7", "PK\x03\x04", "\u00a0<html>", "\x0c <html>", " \n", ""}
	for _, f := range fronts {
		emitMagic([]byte(f))
		for k := 0; k < c.N(3, 40); k++ {
			var sb strings.Builder
			if r.Chance(1, 3) {
				sb.WriteString(hx.Pick(r, []string{" ", "\n\t", "\r\n", "\x0c"}))
			}
			sb.WriteString(f)
			for j := r.Range(0, 4); j > 0; j-- {
				if r.Bool() {
					sb.WriteString(hx.Pick(r, nonASCIIBits))
				} else {
					sb.WriteString(hx.Pick(r, []string{"<title>", "x", " ", "<html", "<HTML>", "\n"}))
				}
			}
			emitMagic([]byte(sb.String()))
		}
	}
	pads := []struct {
		unit string
		grow int // bytes of the unit after strings.ToUpper
	}{{"\xff", 3}, {"\u0250", 3}, {"\u017f", 1}, {"\u0131", 1}, {"\u00fc", 2}, {"\u7ae0", 3}, {"x", 1}, {"\xc3", 3}, {"\xe2\x82", 6}}
	for _, p := range pads {
		head := "<?xml version=\"1.0\"?>"
		// the tag lands around position 500 of the upper-cased text, or of the bytes
		for _, target := range []int{480, 494, 495, 496, 497, 500} {
			for _, measure := range []string{"upper", "bytes"} {
				per := p.grow
				if measure == "bytes" {
					per = len(p.unit)
				}
				n := (target - len(head)) / per
				fill := (target - len(head)) - n*per
				emitMagic([]byte(head + strings.Repeat(p.unit, n) + strings.Repeat(" ", fill) + "<html>"))
			}
		}
	}
	// mimetype contents
	spaces := []string{" ", "\n", "\r\n", "\t", "\x0b", "\x0c", "\u0085", "\u00a0", "\u1680", "\u2000", "\u2003", "\u200a", "\u2028", "\u2029", "\u202f", "\u205f", "\u3000", "\ufeff", "\u200b", "\xa0", "\xc2", "\x85", "\xe2\x80"}
	cores := []string{epubMime, odtMime, odtMime + "-template", "x" + epubMime, epubMime + ";v=3", "application/zip", "", "APPLICATION/EPUB+ZIP", epubMime + "\u00a0x", "application/epub\u00a0+zip"}
	for i := 0; i < c.N(260, 5000); i++ {
		var sb strings.Builder
		for j := r.Range(0, 2); j > 0; j-- {
			sb.WriteString(hx.Pick(r, spaces))
		}
		sb.WriteString(hx.Pick(r, cores))
		for j := r.Range(0, 2); j > 0; j-- {
			sb.WriteString(hx.Pick(r, spaces))
		}
		content := sb.String()
		if r.Chance(1, 12) {
			// a multi-byte white space across the 256-byte read
			content = strings.Repeat(" ", 255-len(epubMime)) + epubMime + hx.Pick(r, []string{"\u00a0", "\u3000", "\u2003 ", " \u0085"})
		}
		arch := writers.Zip([]writers.Member{{Name: "mimetype", Data: []byte(content), Store: true}})
		det := detectBytes(arch)
		mc := epubdoc.VerifValidateMimetype(bytes.NewReader(arch), int64(len(arch)))
		c.Op("c20.mimeb "+hx.HexS(content), det+" "+mc)
		c.Count("mimeb:" + det + ":" + mc)
		c.Case("mimeb:"+content, det != FUnknown)
	}
	// references
	for i := 0; i < c.N(200, 4000); i++ {
		var sb strings.Builder
		for j := r.Range(0, 3); j > 0; j-- {
			if r.Bool() {
				sb.WriteString(hx.Pick(r, nonASCIIBits))
			} else {
				sb.WriteString(hx.Pick(r, []string{"OEBPS/", "ch1", "Kapitel", ".", "x"}))
			}
		}
		sb.WriteString(hx.Pick(r, []string{".xhtml", ".XHTML", ".html", ".HTM", ".css", ".xml", ".otf", ".xhtm\u0130", ".htm\u0131", ".\u212aml", ".xhtml\xff", ".xht\xffml", ".XHTM\u0131", "", ".c\u017f\u017f", ".C\u017fS"}))
		uri := sb.String()
		got := epubdoc.VerifIsContentFile(uri)
		c.Op("c20.contentb "+hx.HexS(uri)+" "+casePairs([]byte(uri)), fmt.Sprint(got))
		c.Count(fmt.Sprintf("contentb:%v", got))
		c.Case("contentb:"+uri, got)
	}
}

// ---- worlds as bytes ---------------------------------------------------------------------------

// xzipField: what archive/zip makes of the bytes, the encryption metadata as a tree.
func xzipField(data []byte) (string, [][]byte) {
	var vals [][]byte
	zr, err := zip.NewReader(bytes.NewReader(data), int64(len(data)))
	if err != nil {
		return "err", nil
	}
	if len(zr.File) == 0 {
		return "-", nil
	}
	xs := make([]string, len(zr.File))
	for i, f := range zr.File {
		xs[i] = hx.HexS(f.Name)
		if f.Name != "mimetype" && f.Name != "META-INF/encryption.xml" {
			continue
		}
		var content []byte
		rc, err := f.Open()
		if err == nil {
			content, err = io.ReadAll(rc)
			rc.Close()
		}
		switch {
		case f.Name == "mimetype" && err == nil:
			xs[i] += ":d=" + hx.Hex(content)
		case f.Name == "META-INF/encryption.xml":
			xs[i] += ":x=" + docField(content, err == nil)
			if err == nil {
				encDoc(content).values(&vals)
			}
		}
	}
	return strings.Join(xs, ","), vals
}

func (w world) fieldB() (string, [][]byte) {
	switch w.Kind {
	case "missing":
		return "M", nil
	case "dir":
		return "D", nil
	}
	z, vals := xzipField(w.Data)
	return "F/" + hx.Hex(first512(w.Data)) + "/" + w.accepts() + "/" + z, append(vals, first512(w.Data))
}

// genWorldB: worlds that differ from those of genWorld in BYTES the ASCII model
// does not follow: non-ASCII text and ill-formed bytes behind (and, for XHTML,
// inside) the recognised front, a byte-order mark, Unicode white space around
// the media type, encryption metadata in every spelling of writeEnc.
func genWorldB(r *hx.Rng, i int, token string) world {
	body := fmt.Sprintf("<head><title>T\u00fctel %s \xff</title></head>\n<body><p>%s Absatz \u7ae0</p></body>\n</html>\n", token, token)
	switch i % 10 {
	case 0: // HTML 5 with non-ASCII text right behind the DOCTYPE
		head := hx.Pick(r, []string{"<!DOCTYPE html>", "<!doctype html>\n", "<!DOCTYPE\thtml>", "\r\n<!DOCTYPE HTML PUBLIC \"-//W3C//DTD HTML 4.01//EN\">\n"})
		return world{Kind: "file", Data: []byte(head + "<!-- \u00fc\xff\u0250 --><html lang=\"de\">" + body), T: FHTML, Token: token, What: "html-doctype-nonascii", Valid: true}
	case 1: // root tag only
		return world{Kind: "file", Data: []byte("  <html lang=\"\u4e2d\">" + body), T: FHTML, Token: token, What: "html-root-nonascii", Valid: true}
	case 2: // byte-order mark / comment in front: admitted by extension only
		front := hx.Pick(r, []string{"\xef\xbb\xbf<!DOCTYPE html>\n<html>", "<!-- \u00fc --><!DOCTYPE html><html>", "\xef\xbb\xbf<html>"})
		return world{Kind: "file", Data: []byte(front + body), T: FHTML, Token: token, What: "html-bom-or-comment-first", Valid: false}
	case 3: // XHTML: a prolog comment whose upper-cased length differs from its byte length
		unit := hx.Pick(r, []string{"\u0250", "\u017f", "\u0131", "\u00fc", "\xff"})
		n := r.Range(100, 260)
		data := "<?xml version=\"1.0\" encoding=\"UTF-8\"?>\n<!-- " + strings.Repeat(unit, n) + " -->\n<html xmlns=\"http://www.w3.org/1999/xhtml\">" + body
		return world{Kind: "file", Data: []byte(data), T: FHTML, Token: token, What: fmt.Sprintf("xhtml-window-%q-x%d", unit, n), Valid: false}
	case 4, 5: // EPUB: the media type surrounded by white space of every kind
		e := genEpub(r, token)
		ms := e.Members(nil)
		sp := []string{"", "\n", "\r\n", " ", "\u00a0", "\u3000", "\u2003", "\u0085", "\ufeff", "\xa0"}
		ms[0].Data = []byte(hx.Pick(r, sp) + epubMime + hx.Pick(r, sp))
		if i%10 == 5 {
			// no container: the mimetype member alone decides
			var out []writers.Member
			for _, m := range ms {
				if m.Name != "META-INF/container.xml" {
					out = append(out, m)
				}
			}
			ms = out
			return world{Kind: "file", Data: writers.Zip(ms), T: FEPUB, Token: token, What: fmt.Sprintf("epub-mimetype-%q-no-container", ms[0].Data), Valid: false}
		}
		return world{Kind: "file", Data: writers.Zip(ms), T: FEPUB, Token: token, Struct: true, NoDRM: true, What: fmt.Sprintf("epub-mimetype-%q", ms[0].Data), Valid: false}
	case 6, 7, 8: // EPUB with encryption metadata in every spelling
		e := genEpub(r, token)
		var es []xEntry
		must := false
		open := true
		for k := r.Range(1, 3); k > 0; k-- {
			it := r.Intn(len(e.Items))
			algo := pickAlgo(r, r.Intn(3))
			es = append(es, xEntry{Algo: algo, URI: uriForm(r, e, it, r.Intn(nURIForms))})
			if e.Items[it].IsContentDoc() && !isObfAlgo(algo) {
				must = true
			}
			if !isObfAlgo(algo) {
				open = false
			}
		}
		st := randStyle(r)
		what := "clean"
		switch i % 10 {
		case 7:
			st.Shadow = r.Range(1, 5)
			what = fmt.Sprintf("nsdecl%d", st.Shadow)
		case 8:
			st.Odd = r.Range(1, 11)
			what = fmt.Sprintf("odd%d", st.Odd)
			must, open = false, false // outside the schema: compared, not demanded
		}
		ms := e.Members([]writers.Member{{Name: "META-INF/encryption.xml", Data: writeEnc(r, es, st)}})
		return world{Kind: "file", Data: writers.Zip(ms), T: FEPUB, Token: token, Struct: true, DRM: must, NoDRM: open, Valid: true,
			What: fmt.Sprintf("epub-enc-%s:%q", what, es)}
	default: // any world of the API stream (stored under names of arbitrary bytes)
		return genWorld(r, r.Intn(14*9), token)
	}
}

// worldClass: the world's description up to its parameters.
func worldClass(what string) string {
	what = strings.SplitN(what, ":", 2)[0]
	if i := strings.Index(what, "-\""); i >= 0 {
		what = what[:i]
	}
	return what
}

// bytesNames: names whose stems (and sometimes extensions) hold non-ASCII text and
// ill-formed bytes; every extension, the world's own in another letter case.
func bytesNames(r *hx.Rng, t string) []string {
	stems := []string{"d\u00f6k", "\xff\xfe", "\u212a", "\u7ae0.v2", "a\u0130b", "doc"}
	var names []string
	for _, e := range allExts {
		names = append(names, hx.Pick(r, stems)+e)
	}
	for _, e := range extOf[t] {
		names = append(names, hx.Pick(r, stems)+mixCase(r, strings.ToUpper(e)))
	}
	names = append(names, hx.Pick(r, stems), "doc.pd\u017f", "doc.\u212adf", "doc.htm\u0131", hx.Pick(r, stems)+".txt")
	return names
}

// RunBytesOpen: world #idx of the byte-level stream under every name x kinds of
// operation, each on a fresh tabula.Open(name).
func RunBytesOpen(c *hx.Ctx, idx int, verbose bool) {
	r := hx.NewRng(c.Seed).Fork(0xB0B0).Fork(uint64(idx))
	token := fmt.Sprintf("tokB%dq%04x", idx, r.Intn(1<<16))
	w := genWorldB(r, idx, token)
	dir := filepath.Join(c.OutDir, fmt.Sprintf("bytes-%d", idx))
	os.MkdirAll(dir, 0o755)
	if !verbose {
		defer os.RemoveAll(dir)
	}
	fs, strs := w.fieldB()
	c.Count("bytes-world:" + worldClass(w.What))
	reachedAny := false
	for _, name := range bytesNames(r, w.T) {
		path := filepath.Join(dir, name)
		w.put(path)
		want := wantExtFormat(name)
		pairs := casePairs(append(strs, []byte(name))...)
		for ki, kind := range apiKinds {
			if kind != 't' && !(c.Thorough() || r.Chance(1, 4)) {
				continue
			}
			e := tabula.Open(path)
			method, text, err, pan := runKind(r, e, kind)
			e.Close()
			kase := bytesCase{Kind: "bytes-open", Seed: c.Seed, Index: idx, Name: name, Op: method, What: w.What}
			if !c.Check("C20/panic-open", pan == "", kase, func() string { return "panic: " + pan }) {
				continue
			}
			cls := apiClass(err)
			c.Op(fmt.Sprintf("c20.openb %s %s %c %s", hx.HexS(name), fs, kind, pairs), cls)
			if ki == 0 {
				adm := "err:" + cls
				if cls == "reached" {
					adm = "ok:" + format.Detect(name).String()
				}
				c.Op(fmt.Sprintf("c20.admitb %s %s %s", hx.HexS(name), fs, pairs), adm)
			}
			c.Count("bytes-open:" + cls)
			reachedAny = reachedAny || cls == "reached"
			switch {
			case want == FUnknown:
				c.Check("C20/api-no-extension-refused", err != nil, kase, func() string {
					return fmt.Sprintf("%s named %q: %s() succeeded", w.What, name, method)
				})
			case w.Kind != "file" || w.T == "none":
			case want == w.T && w.DRM:
				c.Check("C20/api-drm-refused", cls == "drm", kase, func() string {
					return fmt.Sprintf("%s named %q: %s() = %v, want ErrDRMProtected", w.What, name, method, err)
				})
			case want == w.T && (w.T != FEPUB || w.NoDRM):
				pdfOnly := kind == 'f' || kind == 'q'
				ok := err == nil || (pdfOnly && w.T != FPDF && cls == "notpdf")
				if kind == 't' || (kind == 'm' && w.T != FPDF) {
					ok = ok && strings.Contains(text, w.Token)
				}
				c.Check("C20/api-opens-under-own-ext", ok, kase, func() string {
					return fmt.Sprintf("%s named %q: %s() = %v (token in text: %v)", w.What, name, method, err, strings.Contains(text, w.Token))
				})
			case want != w.T && w.Valid:
				c.Check("C20/api-mismatch-refused", err != nil, kase, func() string {
					return fmt.Sprintf("%s named %q (asks for %s): %s() succeeded", w.What, name, want, method)
				})
				if strings.HasPrefix(w.What, "html-doctype-nonascii") || strings.HasPrefix(w.What, "html-root-nonascii") {
					// a recognisable front decides whatever bytes follow it
					c.Check("C20/mismatch-cross-check-nonascii-behind-front", cls == "mismatch", kase, func() string {
						return fmt.Sprintf("%s named %q (asks for %s): %s() = %v, want the content-vs-extension mismatch", w.What, name, want, method, err)
					})
				}
			}
		}
		if !verbose {
			os.RemoveAll(path)
		}
	}
	c.Case("bytes-open:"+w.What+fmt.Sprintf(":%x", len(w.Data)), reachedAny)
}

func bytesOps(c *hx.Ctx) {
	byteUnitOps(c)
	encOps(c)
	for i, n := 0, c.N(40, 800); i < n; i++ {
		RunBytesOpen(c, i, false)
	}
}
