package c20

import "verifharness/hx"

// SevenFormats lists the formats GenDocument can produce.
var SevenFormats = sevenFormats

// ExtOf returns the canonical file extension of a format.
func ExtOf(format string) string {
	switch format {
	case FPDF:
		return ".pdf"
	case FDOCX:
		return ".docx"
	case FODT:
		return ".odt"
	case FXLSX:
		return ".xlsx"
	case FPPTX:
		return ".pptx"
	case FHTML:
		return ".html"
	case FEPUB:
		return ".epub"
	}
	return ""
}

// GenDocument returns the bytes of a small valid document of the given format whose
// text contains token (used by other properties' harnesses: C02, C03).
func GenDocument(r *hx.Rng, format, token string) []byte {
	return genDoc(r, format, token).Bytes()
}
