package c20

// Valid documents of each format whose CONTENT (title, body text, comments,
// attribute values, member names, member data) mentions the signatures of the
// OTHER formats: the PDF header line, the ZIP local-header magic, HTML
// doctype / start tags, the OCF/ODF mimetype strings and the OOXML / OCF main
// part names.  The property decides the format from what the file IS, so each
// such document must still be recognised as its own format, open under its own
// extension and be refused under the others - wherever in the file the mention
// falls (at the front, inside, across the end of and beyond any sniffing
// window).

import (
	"bytes"
	"fmt"
	"strings"

	"verifharness/hx"
	"verifharness/writers"
)

// mark is a byte string that identifies some format when it stands where that
// format's specification puts it.
type mark struct {
	Name  string
	Bytes string
	Text  bool // printable: may be quoted in markup text
}

func marks() []mark {
	return []mark{
		{"pdf17", "%PDF-1.7", true},
		{"pdf14", "%PDF-1.4", true},
		{"pdf20", "%PDF-2.0", true},
		{"pdf-dash", "%PDF-", true},
		{"pdf-bare", "%PDF", true},
		{"zip-magic", "PK\x03\x04", false},
		{"zip-magic-text", "PK\\x03\\x04", true},
		{"zip-eocd", "PK\x05\x06", false},
		{"doctype", "<!DOCTYPE html>", true},
		{"doctype-lower", "<!doctype html", true},
		{"html-tag", "<html>", true},
		{"html-tag-upper", "<HTML lang=\"en\">", true},
		{"xml-html", "<?xml version=\"1.0\"?><html", true},
		{"mimetype", "mimetype", true},
		{"epub-mime", epubMime, true},
		{"odt-mime", odtMime, true},
		{"mimetype-epub", "mimetype" + epubMime, true}, // name and content as they follow each other in an OCF container
		{"docx-main", "word/document.xml", true},
		{"xlsx-main", "xl/workbook.xml", true},
		{"pptx-main", "ppt/presentation.xml", true},
		{"ocf-container", "META-INF/container.xml", true},
		{"opc-types", "[Content_Types].xml", true},
	}
}

func textMarks() []mark {
	var out []mark
	for _, m := range marks() {
		if m.Text {
			out = append(out, m)
		}
	}
	return out
}

// The windows a content sniffer may look at are not part of the property; the
// offsets are spread around the customary sizes (512, 1024, 4096) and beyond.
const nOffsetBuckets = 9

// markOffset picks the offset the mark should start at. 0 = as early as the
// carrier allows.
func markOffset(r *hx.Rng, bucket, n int) int {
	in := func(lo, hi int) int {
		if hi < lo {
			hi = lo
		}
		return r.Range(lo, hi)
	}
	switch bucket {
	case 0:
		return 0
	case 1:
		return in(40, 200)
	case 2:
		return in(380, 512-n) // ends inside the first 512 bytes
	case 3:
		return in(512-n+1, 511) // straddles byte 512
	case 4:
		return in(512, 1024-n)
	case 5:
		return in(1024-n+1, 1023) // straddles byte 1024
	case 6:
		return in(1024, 2100)
	case 7:
		return in(4096-n+1, 4095)
	default:
		return in(4096, 9000)
	}
}

func htmlEsc(s string) string {
	return strings.NewReplacer("&", "&amp;", "<", "&lt;", ">", "&gt;", `"`, "&quot;").Replace(s)
}

// fillerText: n bytes of words and line breaks without markup characters.
func fillerText(n int) string {
	var b strings.Builder
	for b.Len() < n {
		if b.Len()%72 == 71 {
			b.WriteByte('\n')
		} else if b.Len()%8 == 7 {
			b.WriteByte(' ')
		} else {
			b.WriteByte("filler"[b.Len()%6])
		}
	}
	return b.String()
}

// htmlPad brings b up to the given length with a comment (or white space when
// the gap is too small for one).
func htmlPad(b *bytes.Buffer, upTo int) {
	pad := upTo - b.Len()
	switch {
	case pad >= 8:
		b.WriteString("<!--" + fillerText(pad-8) + "-->\n")
	case pad > 0:
		b.WriteString(strings.Repeat("\n", pad))
	}
}

type htmlPlace struct {
	name           string
	inHead         bool
	prefix, suffix string
	raw            bool // the mark is written as is (comments), else escaped
}

func htmlPlaces() []htmlPlace {
	return []htmlPlace{
		{"title", true, "<title>What ", " at the top of a file means</title>\n", false},
		{"meta", true, `<meta name="description" content="Explains `, ` in detail" />` + "\n", false},
		{"head-comment", true, "<!-- see also: ", " -->\n", true},
		{"para", false, "<p>Such files begin with ", " and nothing else.</p>\n", false},
		{"para-start", false, "<p>", " is the usual signature.</p>\n", false},
		{"pre", false, "<pre>", "\n</pre>\n", false},
		{"attr", false, `<p title="`, `">hover for the signature</p>` + "\n", false},
		{"body-comment", false, "<!-- ", " -->\n", true},
	}
}

func placeMark(p htmlPlace, mk mark) string {
	if p.raw {
		return mk.Bytes
	}
	return htmlEsc(mk.Bytes)
}

// htmlMentionDoc: a sniffable HTML page that quotes a mark.
func htmlMentionDoc(r *hx.Rng, token string, mk mark, bucket int) *Doc {
	h := hx.Pick(r, htmlHeads())
	p := hx.Pick(r, htmlPlaces())
	quoted := placeMark(p, mk)
	at := markOffset(r, bucket, len(quoted))
	var b bytes.Buffer
	b.WriteString(h.head)
	b.WriteString("<head>")
	if p.inHead {
		htmlPad(&b, at-len(p.prefix))
		b.WriteString(p.prefix + quoted + p.suffix)
		if p.name != "title" {
			fmt.Fprintf(&b, "<title>T %s</title>", token)
		}
		b.WriteString("</head>\n<body>\n<h1>Heading</h1>\n")
	} else {
		fmt.Fprintf(&b, "<title>T %s</title></head>\n<body>\n", token)
		htmlPad(&b, at-len(p.prefix))
		b.WriteString(p.prefix + quoted + p.suffix)
	}
	fmt.Fprintf(&b, "<p>%s paragraph text.</p>\n</body>\n</html>\n", token)
	off := bytes.Index(b.Bytes(), []byte(quoted))
	return &Doc{Format: FHTML, Raw: b.Bytes(), Token: token, Sniffable: true,
		Variant: fmt.Sprintf("mention-%s-%s-%s@%d", h.name, p.name, mk.Name, off)}
}

// htmlUnsniffableMention: HTML without doctype / <html> at the front (admitted
// by extension only) that quotes a mark; never at offset 0.
func htmlUnsniffableMention(r *hx.Rng, token string, mk mark, bucket int) *Doc {
	type v struct{ name, open, close string }
	vs := []v{
		{"fragment", "<p>intro fragment</p>\n", ""},
		{"comment-first", "<!-- generated -->\n<!DOCTYPE html>\n<html><body>\n", "</body></html>\n"},
		{"bom", "\xef\xbb\xbf<!DOCTYPE html>\n<html><body>\n", "</body></html>\n"},
		{"head-first", "<head><title>x</title></head><body>\n", "</body>\n"},
		{"div-only", "<div>\n", "</div>\n"},
		{"text-first", "Notes on file signatures\n", ""},
	}
	c := hx.Pick(r, vs)
	var places []htmlPlace
	for _, p := range htmlPlaces() {
		if !p.inHead {
			places = append(places, p)
		}
	}
	p := hx.Pick(r, places)
	quoted := placeMark(p, mk)
	at := markOffset(r, bucket, len(quoted))
	var b bytes.Buffer
	b.WriteString(c.open)
	htmlPad(&b, at-len(p.prefix))
	b.WriteString(p.prefix + quoted + p.suffix)
	fmt.Fprintf(&b, "<p>%s paragraph</p>\n%s", token, c.close)
	off := bytes.Index(b.Bytes(), []byte(quoted))
	return &Doc{Format: FHTML, Raw: b.Bytes(), Token: token, Sniffable: false,
		Variant: fmt.Sprintf("mention-unsniffable-%s-%s-%s@%d", c.name, p.name, mk.Name, off)}
}

// pdfMentionDoc: a PDF carrying a mark in a comment, an unreferenced stream,
// the page text or the document title.
func pdfMentionDoc(r *hx.Rng, token string, mk mark, bucket int) *Doc {
	where := []string{"comment", "stream"}
	if mk.Text {
		where = append(where, "text", "title")
	}
	x := &pdfExtra{Mark: []byte(mk.Bytes), Where: hx.Pick(r, where)}
	x.At = markOffset(r, bucket, len(mk.Bytes))
	d := pdfDocExtra(r, token, x)
	d.Variant = "mention-" + mk.Name + "-" + d.Variant
	return d
}

// contentMember: the member holding a ZIP document's body text.
func contentMember(d *Doc) string {
	switch d.Format {
	case FDOCX:
		return "word/document.xml"
	case FODT:
		return "content.xml"
	case FXLSX:
		return "xl/sharedStrings.xml"
	case FPPTX:
		return "ppt/slides/slide1.xml"
	}
	return ""
}

// zipMentionDoc: a ZIP-based document whose body text quotes the mark and
// which carries further members (never a marker member) with the mark in
// their names and data.
func zipMentionDoc(r *hx.Rng, format, token string, mk mark, bucket int) *Doc {
	tm := mk
	if !tm.Text {
		tm = hx.Pick(r, textMarks())
	}
	sentence := "Such files begin with " + tm.Bytes + " and nothing else."
	var pre, post []string
	switch r.Intn(3) {
	case 0:
		pre = []string{tm.Bytes, sentence}
	case 1:
		post = []string{sentence}
	default:
		pre, post = []string{tm.Bytes}, []string{sentence, tm.Bytes}
	}
	var d *Doc
	content := ""
	switch format {
	case FDOCX:
		d = docxDocParas(r, token, pre, post)
	case FODT:
		d = odtDocParas(r, token, pre, post)
	case FXLSX:
		d = xlsxDocCells(r, token, append(append([]string(nil), pre...), post...))
	case FPPTX:
		d = pptxDocParas(r, token, pre, post)
	case FEPUB:
		e := genEpub(r, token)
		e.Items[0].Data = xhtmlChapterParas(writers.XMLEsc("Chapter 1: "+tm.Bytes), token+" epub chapter text", pre, post)
		d = &Doc{Format: FEPUB, Members: e.Members(nil), Token: token, Sniffable: true, Variant: fmt.Sprintf("epub%d", e.Version)}
		content = e.Base + e.Items[0].Path
	default:
		panic("zipMentionDoc: " + format)
	}
	if content == "" {
		content = contentMember(d)
	}
	stored := r.Bool()
	found := false
	for i := range d.Members {
		if d.Members[i].Name == content {
			found = true
			d.Members[i].Store = d.Members[i].Store || stored // the quoted mark is then readable in the archive bytes
		}
	}
	if !found {
		panic("zipMentionDoc: no member " + content)
	}
	d.Mentions = mentionMembers(r, d, mk, bucket)
	d.Variant = fmt.Sprintf("mention-%s-%s-stored=%v", d.Variant, mk.Name, stored)
	return d
}

// mentionMembers: stored members (their bytes are readable in the archive) that
// are not a marker of any format and do not collide with the host's members.
// The first carries the mark in its name or at the start of its data; a
// filler member in front brings it to the bucket's offset when the members
// are written first.
func mentionMembers(r *hx.Rng, d *Doc, mk mark, bucket int) []writers.Member {
	ok := func(name string) bool { return !markerNames[name] && !hasMember(d.Members, name) }
	var lead writers.Member
	inName := mk.Text && !strings.Contains(mk.Bytes, "\\") && r.Bool()
	if inName {
		name := mk.Bytes
		if !ok(name) || r.Bool() {
			name = hx.Pick(r, []string{"notes/", "backup/", "a/b/", "old-"}) + mk.Bytes + hx.Pick(r, []string{"", ".txt", ".bak"})
		}
		lead = writers.Member{Name: name, Data: []byte("about this signature\n"), Store: true}
	} else {
		lead = writers.Member{Name: hx.Pick(r, []string{"attachments/sample.bin", "notes/signature.txt", "thumbnail.dat"}),
			Data: []byte(mk.Bytes + "\n" + fillerText(r.Range(0, 60))), Store: true}
	}
	if !ok(lead.Name) {
		lead.Name = "notes/" + lead.Name
	}
	var out []writers.Member
	// local header: 30 bytes + name; stored data is followed by a 16-byte data descriptor
	const padName = "notes/padding.txt"
	at := markOffset(r, bucket, len(mk.Bytes))
	before := 30
	if !inName {
		before += len(lead.Name)
	}
	if n := at - before - (30 + len(padName) + 16); n >= 0 && ok(padName) {
		out = append(out, writers.Member{Name: padName, Data: []byte(fillerText(n)), Store: true})
	}
	out = append(out, lead)
	// further look-alikes from other formats
	small := []byte(xmlDecl + "<stray/>")
	inner := writers.Zip([]writers.Member{
		{Name: "mimetype", Data: []byte(epubMime), Store: true},
		{Name: "META-INF/container.xml", Data: small, Store: true},
		{Name: "word/document.xml", Data: small, Store: true},
		{Name: "xl/workbook.xml", Data: small, Store: true},
	})
	pool := []writers.Member{
		{Name: "attachments/spec.pdf", Data: pdfDoc(r, "decoypdftext").Raw},
		{Name: "attachments/page.html", Data: htmlDoc(r, "decoyhtmltext").Raw},
		{Name: "attachments/inner.zip", Data: inner},
		{Name: "attachments/book.epub", Data: inner},
		{Name: "docs/mimetype", Data: []byte(epubMime)},
		{Name: "backup/mimetype", Data: []byte(odtMime)},
		{Name: "backup/word/document.xml", Data: small},
		{Name: "old/xl/workbook.xml", Data: small},
		{Name: "x/ppt/presentation.xml", Data: small},
		{Name: "OEBPS/META-INF/container.xml", Data: small},
		{Name: "notes/" + mk.Name + "-late.txt", Data: []byte(fillerText(r.Range(100, 1200)) + "\n" + mk.Bytes + "\n")},
	}
	hx.Shuffle(r, pool)
	for _, m := range pool[:r.Range(0, 3)] {
		m.Store = true
		if ok(m.Name) && !hasMember(out, m.Name) {
			out = append(out, m)
		}
	}
	return out
}

// ---- the stream ------------------------------------------------------------------

var mentionZipPlan = []string{FDOCX, FODT, "unsniffable", FXLSX, FPPTX, FEPUB, "unsniffable"}

const mentionZipPerRound = 70

// mentionRound: one round sweeps marks x offset buckets for HTML and for PDF
// (one file each, cheap) and samples the ZIP formats and unclassifiable HTML.
func mentionRound() int {
	return len(textMarks())*nOffsetBuckets + len(marks())*nOffsetBuckets + mentionZipPerRound
}

// genMentionDoc returns document #idx of the mention stream.
func genMentionDoc(r *hx.Rng, idx int, token string) *Doc {
	j := idx % mentionRound()
	tms, ms := textMarks(), marks()
	if j < len(tms)*nOffsetBuckets {
		return htmlMentionDoc(r, token, tms[j%len(tms)], j/len(tms))
	}
	j -= len(tms) * nOffsetBuckets
	if j < len(ms)*nOffsetBuckets {
		return pdfMentionDoc(r, token, ms[j%len(ms)], j/len(ms))
	}
	j -= len(ms) * nOffsetBuckets
	k := r.Intn(1 << 20) // mark and bucket at random
	f := mentionZipPlan[j%len(mentionZipPlan)]
	if f == "unsniffable" {
		return htmlUnsniffableMention(r, token, tms[k%len(tms)], (k/len(tms))%nOffsetBuckets)
	}
	return zipMentionDoc(r, f, token, ms[k%len(ms)], (k/len(ms))%nOffsetBuckets)
}
