package c20

// Valid packages that EMBED a file of another format as a proper part and
// DECLARE it in the host's own registry of parts:
//
//	OOXML host (ECMA-376 part 2, OPC): the embedded file is a part under
//	  <main dir>/embeddings/, the target of a relationship of the part that
//	  shows it (worksheet / document / slide), and - as OPC demands for every
//	  part - it has a content type in [Content_Types].xml, either through a
//	  <Default Extension="docx" ContentType="...wordprocessingml.document"/>
//	  (what the office suites write) or through an <Override PartName=.../>;
//	ODT host (ODF 1.2 part 3): an embedded ODF sub-document lives in a
//	  directory "Object N/" with its own content.xml, any other embedded file
//	  is a plain member; META-INF/manifest.xml lists each with its media type;
//	EPUB host (OCF / OPF): the attachment is a manifest item (not in the
//	  spine) with its media type.
//
// These are the property's "decoy members from other formats" in the form the
// formats themselves prescribe: the decoy is not only a member NAME from
// another format's world but a declared TYPE from it.  The host stays what it
// is - a workbook with an embedded Word document is a workbook - so it must be
// detected as its own format, open under its own extension and be refused
// under the others, in every member order.  The stream sweeps host x payload
// kind; each document then runs through the same layouts x names as the plain
// ones (runDoc).

import (
	"fmt"
	"strings"

	"verifharness/hx"
	"verifharness/writers"
)

// payload: one kind of embedded file with its registered media type.
type payload struct {
	Ext  string // file extension, without dot
	Type string // media type (IANA registration / ECMA-376 part 1 §15.2)
	Stem string // file name stem as office suites write it
	Kind string // what the bytes are: docx xlsx pptx odt ods odp pdf html epub bin
}

func payloads() []payload {
	const ox = "application/vnd.openxmlformats-officedocument."
	return []payload{
		{"docx", ox + "wordprocessingml.document", "Microsoft_Word_Document", "docx"},
		{"pptx", ox + "presentationml.presentation", "Microsoft_PowerPoint_Presentation", "pptx"},
		{"xlsx", ox + "spreadsheetml.sheet", "Microsoft_Excel_Worksheet", "xlsx"},
		{"docm", "application/vnd.ms-word.document.macroEnabled.12", "Microsoft_Word_Macro-Enabled_Document", "docx"},
		{"dotx", ox + "wordprocessingml.template", "Microsoft_Word_Template", "docx"},
		{"xlsm", "application/vnd.ms-excel.sheet.macroEnabled.12", "Microsoft_Excel_Macro-Enabled_Worksheet", "xlsx"},
		{"xltx", ox + "spreadsheetml.template", "Microsoft_Excel_Template", "xlsx"},
		{"pptm", "application/vnd.ms-powerpoint.presentation.macroEnabled.12", "Microsoft_PowerPoint_Macro-Enabled_Presentation", "pptx"},
		{"sldx", ox + "presentationml.slide", "Microsoft_PowerPoint_Slide", "pptx"},
		{"ppsx", ox + "presentationml.slideshow", "Microsoft_PowerPoint_Slide_Show", "pptx"},
		{"odt", odtMime, "OpenDocument_Text", "odt"},
		{"ods", "application/vnd.oasis.opendocument.spreadsheet", "OpenDocument_Spreadsheet", "ods"},
		{"odp", "application/vnd.oasis.opendocument.presentation", "OpenDocument_Presentation", "odp"},
		{"pdf", "application/pdf", "Acrobat_Document", "pdf"},
		{"html", "text/html", "Web_Page", "html"},
		{"epub", epubMime, "Book", "epub"},
		{"bin", ox + "oleObject", "oleObject", "bin"},
	}
}

var embedHosts = []string{FXLSX, FDOCX, FPPTX, FODT, FEPUB}

// embedRound: one round of the stream is every host x every payload kind.
func embedRound() int { return len(embedHosts) * len(payloads()) }

// odfSubdoc: content.xml of an ODF spreadsheet / presentation sub-document.
func odfSubdoc(kind, text string) []byte {
	body := ""
	switch kind {
	case "ods":
		body = `<office:spreadsheet><table:table table:name="Sheet1"><table:table-row><table:table-cell office:value-type="string"><text:p>` + text + `</text:p></table:table-cell></table:table-row></table:table></office:spreadsheet>`
	case "odp":
		body = `<office:presentation><draw:page draw:name="page1"><draw:frame><draw:text-box><text:p>` + text + `</text:p></draw:text-box></draw:frame></draw:page></office:presentation>`
	default:
		return odtContent(text)
	}
	return []byte(`<?xml version="1.0" encoding="UTF-8"?>` + "\n" +
		`<office:document-content xmlns:office="urn:oasis:names:tc:opendocument:xmlns:office:1.0" xmlns:text="urn:oasis:names:tc:opendocument:xmlns:text:1.0" xmlns:table="urn:oasis:names:tc:opendocument:xmlns:table:1.0" xmlns:draw="urn:oasis:names:tc:opendocument:xmlns:drawing:1.0" office:version="1.2"><office:body>` + body + `</office:body></office:document-content>`)
}

// odfPackage: a whole ODF package of the given kind (for embedding as one file).
func odfPackage(r *hx.Rng, p payload, token string) []byte {
	if p.Kind == "odt" {
		return odtDoc(r, token).Bytes()
	}
	return writers.Zip([]writers.Member{
		{Name: "mimetype", Data: []byte(p.Type), Store: true},
		{Name: "content.xml", Data: odfSubdoc(p.Kind, token+" embedded")},
		{Name: "META-INF/manifest.xml", Data: []byte(`<?xml version="1.0" encoding="UTF-8"?>` + "\n" +
			`<manifest:manifest xmlns:manifest="urn:oasis:names:tc:opendocument:xmlns:manifest:1.0" manifest:version="1.2"><manifest:file-entry manifest:full-path="/" manifest:version="1.2" manifest:media-type="` + p.Type + `"/><manifest:file-entry manifest:full-path="content.xml" manifest:media-type="text/xml"/></manifest:manifest>`)},
	})
}

// payloadBytes: a real file of the payload's kind, written by the harness's
// own writers, with its own token.
func payloadBytes(r *hx.Rng, p payload, token string) []byte {
	switch p.Kind {
	case "docx":
		return docxDoc(r, token).Bytes()
	case "xlsx":
		return xlsxDoc(r, token).Bytes()
	case "pptx":
		return pptxDoc(r, token).Bytes()
	case "odt", "ods", "odp":
		return odfPackage(r, p, token)
	case "pdf":
		return pdfDoc(r, token).Raw
	case "html":
		return htmlDoc(r, token).Raw
	case "epub":
		return epubDoc(r, token).Bytes()
	}
	return append([]byte("\xd0\xcf\x11\xe0\xa1\xb1\x1a\xe1"), r.Bytes(48)...) // OLE compound file header
}

// insertXML puts frag into the member called name: right behind the start tag
// of the root element <root ...> (front) or right before its end tag.
func insertXML(ms []writers.Member, name, root, frag string, front bool) {
	for i := range ms {
		if ms[i].Name != name {
			continue
		}
		s := string(ms[i].Data)
		at := strings.LastIndex(s, "</"+root+">")
		if front {
			open := strings.Index(s, "<"+root)
			at = open + strings.IndexByte(s[open:], '>') + 1
		}
		if at < 0 {
			panic("insertXML: no <" + root + "> in " + name)
		}
		ms[i].Data = []byte(s[:at] + frag + s[at:])
		return
	}
	panic("insertXML: no member " + name)
}

// addRelationship adds a relationship to the part's .rels member, creating
// the member when the part has none yet.
func addRelationship(ms []writers.Member, relsName string, rel [3]string) []writers.Member {
	if !hasMember(ms, relsName) {
		return append(ms, writers.Member{Name: relsName, Data: rels([][3]string{rel})})
	}
	insertXML(ms, relsName, "Relationships", fmt.Sprintf(`<Relationship Id="%s" Type="%s" Target="%s"/>`, rel[0], rel[1], rel[2]), false)
	return ms
}

// ooxmlOwner: the part of an OOXML host that shows embedded objects: its
// relationships member and the path from it to <main dir>/embeddings/.
func ooxmlOwner(format string) (dir, relsName, up string) {
	switch format {
	case FDOCX:
		return "word/", "word/_rels/document.xml.rels", ""
	case FXLSX:
		return "xl/", "xl/worksheets/_rels/sheet1.xml.rels", "../"
	case FPPTX:
		return "ppt/", "ppt/slides/_rels/slide1.xml.rels", "../"
	}
	panic("ooxmlOwner: " + format)
}

const relPackage = "http://schemas.openxmlformats.org/officeDocument/2006/relationships/package"
const relOleObject = "http://schemas.openxmlformats.org/officeDocument/2006/relationships/oleObject"

// embedInto embeds file #n of kind p (bytes data) into the host and declares
// it the host format's way; it returns a word describing the declaration.
func embedInto(r *hx.Rng, d *Doc, e *Epub, p payload, n int, data []byte) string {
	switch d.Format {
	case FDOCX, FXLSX, FPPTX:
		dir, relsName, up := ooxmlOwner(d.Format)
		file := fmt.Sprintf("embeddings/%s%d.%s", p.Stem, n, p.Ext)
		d.Members = append(d.Members, writers.Member{Name: dir + file, Data: data})
		relType := relPackage
		if p.Kind != "docx" && p.Kind != "xlsx" && p.Kind != "pptx" {
			relType = relOleObject
		}
		d.Members = addRelationship(d.Members, relsName, [3]string{fmt.Sprintf("rIdEmb%d", n), relType, up + file})
		front := r.Bool()
		how := "default"
		frag := fmt.Sprintf(`<Default Extension="%s" ContentType="%s"/>`, p.Ext, p.Type)
		if r.Chance(1, 3) {
			how = "override"
			frag = fmt.Sprintf(`<Override PartName="/%s" ContentType="%s"/>`, dir+file, p.Type)
		}
		insertXML(d.Members, "[Content_Types].xml", "Types", frag, front)
		if front {
			how += "-front"
		}
		return how
	case FODT:
		if p.Kind == "odt" || p.Kind == "ods" || p.Kind == "odp" {
			// sub-document: a directory with its own content.xml
			obj := fmt.Sprintf("Object %d/", n)
			d.Members = append(d.Members, writers.Member{Name: obj + "content.xml", Data: odfSubdoc(p.Kind, "embedded object text")})
			insertXML(d.Members, "META-INF/manifest.xml", "manifest:manifest",
				fmt.Sprintf(`<manifest:file-entry manifest:full-path="%s" manifest:version="1.2" manifest:media-type="%s"/><manifest:file-entry manifest:full-path="%scontent.xml" manifest:media-type="text/xml"/>`, obj, p.Type, obj), false)
			return "subdoc"
		}
		file := fmt.Sprintf("Object %d", n)
		how := "object"
		if r.Bool() {
			file, how = fmt.Sprintf("Embedded/%s%d.%s", p.Stem, n, p.Ext), "file"
		}
		d.Members = append(d.Members, writers.Member{Name: file, Data: data})
		insertXML(d.Members, "META-INF/manifest.xml", "manifest:manifest",
			fmt.Sprintf(`<manifest:file-entry manifest:full-path="%s" manifest:media-type="%s"/>`, writers.XMLEsc(file), p.Type), r.Bool())
		return how
	case FEPUB:
		e.Items = append(e.Items, EItem{ID: fmt.Sprintf("att%d", n), Path: fmt.Sprintf("attachments/%s%d.%s", p.Stem, n, p.Ext), MediaType: p.Type, Data: data})
		return "item"
	}
	panic("embedInto: " + d.Format)
}

// genEmbedDoc returns document #idx of the embedding stream: host and first
// payload kind are swept, a second payload of another kind is added to one
// document in three.
func genEmbedDoc(r *hx.Rng, idx int, token string) *Doc {
	ps := payloads()
	j := idx % embedRound()
	host, p := embedHosts[j%len(embedHosts)], ps[j/len(embedHosts)]
	var d *Doc
	var e *Epub
	if host == FEPUB {
		e = genEpub(r, token)
		d = &Doc{Format: FEPUB, Token: token, Sniffable: true, Variant: fmt.Sprintf("epub%d", e.Version)}
	} else {
		d = genDoc(r, host, token)
	}
	d.Variant = "embed-" + d.Variant
	kinds := []payload{p}
	if r.Chance(1, 3) {
		if q := hx.Pick(r, ps); q.Ext != p.Ext {
			kinds = append(kinds, q)
		}
	}
	for n, q := range kinds {
		data := payloadBytes(r, q, fmt.Sprintf("emb%dz%04x", n, r.Intn(1<<16)))
		d.Variant += "+" + q.Ext + ":" + embedInto(r, d, e, q, n+1, data)
	}
	if e != nil {
		d.Members = e.Members(nil)
	}
	d.KeySuffix = "-embedded-file"
	return d
}
