package c20

// EPUB DRM matrix: rights file, encryption metadata (OCF 3 §4.2.4: META-INF/
// encryption.xml holds XML-Encryption EncryptedData elements whose
// CipherReference URIs are relative to the container root), font obfuscation
// (EPUB OCF "http://www.idpf.org/2008/embedding"; Adobe
// "http://ns.adobe.com/pdf/enc#RC").

import (
	"errors"
	"fmt"
	"os"
	"path/filepath"
	"strings"

	"github.com/tsawler/tabula/epubdoc"

	"verifharness/hx"
	"verifharness/writers"
)

const (
	algoIDPF  = "http://www.idpf.org/2008/embedding"
	algoAdobe = "http://ns.adobe.com/pdf/enc#RC"
)

var obfAlgos = []string{algoIDPF, algoAdobe}

var aesAlgos = []string{
	"http://www.w3.org/2001/04/xmlenc#aes128-cbc",
	"http://www.w3.org/2001/04/xmlenc#aes192-cbc",
	"http://www.w3.org/2001/04/xmlenc#aes256-cbc",
	"http://www.w3.org/2009/xmlenc11#aes128-gcm",
	"http://www.w3.org/2009/xmlenc11#aes256-gcm",
	"http://www.w3.org/2001/04/xmlenc#tripledes-cbc",
	"HTTP://WWW.W3.ORG/2001/04/XMLENC#AES256-CBC",
}

// unknown algorithms: not one of the two obfuscation schemes, whatever they
// mention.
var unknownAlgos = []string{
	"http://www.idpf.org/2016/encryption#custom-cipher",
	"http://www.idpf.org/2008/embedding/v2",
	"http://ns.adobe.com/adept/enc#v1",
	"http://ns.adobe.com/pdf/enc#AES",
	"urn:example:cipher",
	"http://example.com/idpf-style",
	"",
}

// isObfAlgo: the harness's own notion, from the specifications.
func isObfAlgo(a string) bool { return a == algoIDPF || a == algoAdobe }

type encEntry struct {
	Algo string
	Item int    // index into Epub.Items
	URI  string // as written into the XML attribute
}

// nURIForms: the spellings uriForm knows.
const nURIForms = 13

// uriForm renders the container-root-relative URI of an item in one of the
// spellings a producer may use (never touching which resource it names):
// percent-encoded as a URI reference (forms 0-7: as is, letter case, "./", "/",
// dot segments), the archive member name copied verbatim (8-10, 12: what
// producers that treat CipherReference as a file name write; for names with
// '%', '#', '[' ... this is not a well-formed URI reference), and escaped like
// a URI component per segment (11).
func uriForm(r *hx.Rng, e *Epub, item int, form int) string {
	raw := e.Base + e.Items[item].Path
	u := hrefEsc(raw)
	switch form % nURIForms {
	case 8:
		return raw
	case 9:
		return "./" + raw
	case 10:
		return "/" + raw
	case 11:
		return hrefEscAll(raw)
	case 12:
		return mixCase(r, raw)
	case 6:
		return "/" + u
	case 7:
		return "META-INF/../" + mixCase(r, u)
	case 0:
		return u
	case 1:
		return strings.ToUpper(u)
	case 2:
		return mixCase(r, u)
	case 3:
		return "./" + u
	case 4:
		return "./" + mixCase(r, u)
	default:
		return strings.ToLower(u)
	}
}

func encryptionXML(r *hx.Rng, entries []encEntry, style int) []byte {
	var b strings.Builder
	b.WriteString(`<?xml version="1.0" encoding="UTF-8"?>` + "\n")
	prefixed := style%2 == 0
	if prefixed {
		b.WriteString(`<encryption xmlns="urn:oasis:names:tc:opendocument:xmlns:container" xmlns:enc="http://www.w3.org/2001/04/xmlenc#" xmlns:ds="http://www.w3.org/2000/09/xmldsig#">` + "\n")
	} else {
		b.WriteString(`<encryption xmlns="urn:oasis:names:tc:opendocument:xmlns:container">` + "\n")
	}
	for i, en := range entries {
		p, decl := "", ` xmlns="http://www.w3.org/2001/04/xmlenc#"`
		if prefixed {
			p, decl = "enc:", ""
		}
		fmt.Fprintf(&b, `  <%sEncryptedData%s Id="ED%d">`+"\n", p, decl, i+1)
		if en.Algo == "" && style%3 == 0 {
			fmt.Fprintf(&b, `    <%sEncryptionMethod/>`+"\n", p)
		} else {
			fmt.Fprintf(&b, `    <%sEncryptionMethod Algorithm="%s"/>`+"\n", p, writers.XMLEsc(en.Algo))
		}
		if style%4 < 2 {
			if prefixed {
				b.WriteString(`    <ds:KeyInfo><ds:RetrievalMethod URI="#EK" Type="http://www.w3.org/2001/04/xmlenc#EncryptedKey"/></ds:KeyInfo>` + "\n")
			} else {
				b.WriteString(`    <KeyInfo xmlns="http://www.w3.org/2000/09/xmldsig#"><KeyName>k</KeyName></KeyInfo>` + "\n")
			}
		}
		fmt.Fprintf(&b, `    <%sCipherData><%sCipherReference URI="%s"/></%sCipherData>`+"\n", p, p, writers.XMLEsc(en.URI), p)
		if style%5 == 0 {
			fmt.Fprintf(&b, `    <%sEncryptionProperties><%sEncryptionProperty><Compression xmlns="http://www.idpf.org/2016/encryption#compression" Method="8" OriginalLength="100"/></%sEncryptionProperty></%sEncryptionProperties>`+"\n", p, p, p, p)
		}
		fmt.Fprintf(&b, `  </%sEncryptedData>`+"\n", p)
	}
	b.WriteString(`</encryption>` + "\n")
	return []byte(b.String())
}

func brokenEncryptionXML(r *hx.Rng) []byte {
	good := encryptionXML(r, []encEntry{{Algo: algoIDPF, URI: "OEBPS/fonts/f.otf"}}, 1)
	switch r.Intn(5) {
	case 0:
		return good[:len(good)/2]
	case 1:
		return []byte{}
	case 2:
		return []byte(strings.Replace(strings.Replace(string(good), "<encryption ", "<Encryption ", 1), "</encryption>", "</Encryption>", 1))
	case 3:
		return r.Bytes(40)
	default:
		return []byte(`<?xml version="1.0"?><encryption><EncryptedData><CipherData></EncryptedData></encryption>`)
	}
}

const rightsXML = `<?xml version="1.0"?>
<adept:rights xmlns:adept="http://ns.adobe.com/adept"><adept:licenseToken><adept:user>urn:uuid:0</adept:user></adept:licenseToken></adept:rights>`

// drmSpec is the logical DRM state of one generated EPUB.
type drmSpec struct {
	Rights  bool
	Enc     string // "none", "bad", "entries"
	Entries []encEntry
}

func (s drmSpec) field(order []string) string {
	var xs []string
	for _, o := range order {
		switch o {
		case "rights":
			xs = append(xs, "R")
		case "enc":
			if s.Enc == "bad" {
				xs = append(xs, "B")
			} else {
				es := make([]string, len(s.Entries))
				for i, e := range s.Entries {
					es[i] = hx.HexS(e.Algo) + ":" + hx.HexS(e.URI)
				}
				xs = append(xs, "E"+strings.Join(es, ";"))
			}
		}
	}
	if len(xs) == 0 {
		return "-"
	}
	return strings.Join(xs, ",")
}

// build writes the EPUB; the META-INF extras go in a random relative order at a
// random place behind the mimetype member.  It returns the archive order of the
// DRM-relevant members.
func (s drmSpec) build(r *hx.Rng, e *Epub, style int) ([]byte, []string) {
	var extra []writers.Member
	if s.Enc == "bad" {
		extra = append(extra, writers.Member{Name: "META-INF/encryption.xml", Data: brokenEncryptionXML(r)})
	} else if s.Enc == "entries" {
		extra = append(extra, writers.Member{Name: "META-INF/encryption.xml", Data: encryptionXML(r, s.Entries, style)})
	}
	if s.Rights {
		extra = append(extra, writers.Member{Name: "META-INF/rights.xml", Data: []byte(rightsXML)})
	}
	hx.Shuffle(r, extra)
	ms := e.Members(nil)
	for _, x := range extra {
		pos := r.Range(1, len(ms))
		ms = append(ms, writers.Member{})
		copy(ms[pos+1:], ms[pos:])
		ms[pos] = x
	}
	var order []string
	for _, m := range ms {
		switch m.Name {
		case "META-INF/rights.xml":
			order = append(order, "rights")
		case "META-INF/encryption.xml":
			order = append(order, "enc")
		}
	}
	return writers.Zip(ms), order
}

// expectations from the property text
func (s drmSpec) mustRefuse(e *Epub) (bool, string) {
	if s.Rights {
		return true, "rights file present"
	}
	if s.Enc == "entries" {
		for _, en := range s.Entries {
			if e.Items[en.Item].IsContentDoc() && !isObfAlgo(en.Algo) {
				return true, fmt.Sprintf("content document %s covered by %q", e.Items[en.Item].Path, en.Algo)
			}
		}
	}
	return false, ""
}

func (s drmSpec) mustOpen() bool {
	if s.Rights || s.Enc == "bad" {
		return false
	}
	for _, en := range s.Entries {
		if !isObfAlgo(en.Algo) {
			return false
		}
	}
	return true
}

func (s drmSpec) describe(e *Epub) string {
	var xs []string
	for _, en := range s.Entries {
		xs = append(xs, fmt.Sprintf("{%s (%s) algo=%q uri=%q}", e.Items[en.Item].Path, e.Items[en.Item].MediaType, en.Algo, en.URI))
	}
	return fmt.Sprintf("rights=%v enc=%s entries=[%s]", s.Rights, s.Enc, strings.Join(xs, " "))
}

type drmCase struct {
	Kind  string `json:"kind"`
	Seed  uint64 `json:"seed"`
	Index int    `json:"index"`
	Sub   int    `json:"sub"`
	What  string `json:"what,omitempty"`
}

func drmClass(err error) string {
	switch {
	case err == nil:
		return "ok"
	case errors.Is(err, epubdoc.ErrDRMProtected):
		return "drm"
	default:
		return "other"
	}
}

// evalDRM writes one EPUB, opens it both ways and runs the oracles; returns the
// decision class.
func evalDRM(c *hx.Ctx, r *hx.Rng, e *Epub, s drmSpec, kase drmCase, dir string, style int) string {
	data, order := s.build(r, e, style)
	path := filepath.Join(dir, fmt.Sprintf("e%d-%d.epub", kase.Index, kase.Sub))
	os.WriteFile(path, data, 0o644)
	defer os.Remove(path)
	kase.What = s.describe(e)
	var rd *epubdoc.Reader
	var oerr error
	pan := hx.Safe(func() { rd, oerr = epubdoc.Open(path) })
	if !c.Check("C20/panic-open", pan == "", kase, func() string { return "panic: " + pan }) {
		return "panic"
	}
	if rd != nil {
		rd.Close()
	}
	text, terr, pan2 := openText(path)
	if !c.Check("C20/panic-open", pan2 == "", kase, func() string { return "panic: " + pan2 }) {
		return "panic"
	}
	cls := drmClass(oerr)
	c.Op("c20.drm "+s.field(order), cls)
	c.Count("drm:" + cls)
	c.Check("C20/drm-error-identity", drmClass(terr) == cls, kase, func() string {
		return fmt.Sprintf("epubdoc.Open: %v; tabula.Open(.epub).Text(): %v (errors.Is ErrDRMProtected must agree)", oerr, terr)
	})
	if must, why := s.mustRefuse(e); must {
		c.Check("C20/drm-refused", cls == "drm", kase, func() string {
			return fmt.Sprintf("%s, but epubdoc.Open returned %v; %s", why, oerr, s.describe(e))
		})
	}
	if s.mustOpen() {
		ok := cls == "ok" && terr == nil && strings.Contains(text, e.Token)
		key := "C20/obfuscation-opens"
		if len(s.Entries) == 0 {
			key = "C20/opens-under-own-ext"
		}
		c.Check(key, ok, kase, func() string {
			return fmt.Sprintf("no rights file and only font-obfuscation entries, but epubdoc.Open: %v, Text(): err=%v token present=%v; %s",
				oerr, terr, strings.Contains(text, e.Token), s.describe(e))
		})
	}
	return cls
}

// variant: same logical EPUB, entries permuted, URIs respelled (case, "./").
func (s drmSpec) variant(r *hx.Rng, e *Epub) drmSpec {
	v := drmSpec{Rights: s.Rights, Enc: s.Enc}
	v.Entries = append([]encEntry(nil), s.Entries...)
	hx.Shuffle(r, v.Entries)
	for i := range v.Entries {
		v.Entries[i].URI = uriForm(r, e, v.Entries[i].Item, r.Intn(nURIForms))
	}
	return v
}

func pickAlgo(r *hx.Rng, class int) string {
	switch class {
	case 0:
		return hx.Pick(r, obfAlgos)
	case 1:
		return hx.Pick(r, aesAlgos)
	default:
		return hx.Pick(r, unknownAlgos)
	}
}

// RunDRM generates EPUB #idx and walks its scenario.
func RunDRM(c *hx.Ctx, idx int, verbose bool) {
	r := hx.NewRng(c.Seed).Fork(0xD000 + uint64(idx))
	token := fmt.Sprintf("tokE%dq%04x", idx, r.Intn(1<<16))
	// file names: per block of ten EPUBs (one per scenario) conventional only,
	// all awkward (URI delimiters / stray escapes in chapter and font names),
	// one in four awkward
	awk := []int{0, 4, 1}[(idx/10)%3]
	e := genEpubNames(r, token, awk)
	c.Count(fmt.Sprintf("drm-names:awkward=%d/4", awk))
	dir := filepath.Join(c.OutDir, "drm")
	os.MkdirAll(dir, 0o755)
	sub := 0
	run := func(s drmSpec, withVariant bool) {
		k := drmCase{Kind: "drm", Seed: c.Seed, Index: idx, Sub: sub}
		sub++
		cls := evalDRM(c, r, e, s, k, dir, r.Intn(60))
		if withVariant && s.Enc == "entries" && len(s.Entries) > 0 {
			v := s.variant(r, e)
			k2 := drmCase{Kind: "drm", Seed: c.Seed, Index: idx, Sub: sub}
			sub++
			cls2 := evalDRM(c, r, e, v, k2, dir, r.Intn(60))
			c.Check("C20/drm-order-case", cls == cls2, k2, func() string {
				return fmt.Sprintf("decision %s for %s, but %s after permuting entries and respelling URIs: %s", cls, s.describe(e), cls2, v.describe(e))
			})
		}
		nontrivial := cls == "ok"
		c.Case(fmt.Sprintf("drm:%d:%s", e.Version, s.describe(e)), nontrivial)
	}
	var contentIdx, fontIdx, otherIdx []int
	for i, it := range e.Items {
		switch {
		case it.IsContentDoc():
			contentIdx = append(contentIdx, i)
		case it.IsFont():
			fontIdx = append(fontIdx, i)
		default:
			otherIdx = append(otherIdx, i)
		}
	}
	entry := func(item int, algo string) encEntry {
		return encEntry{Algo: algo, Item: item, URI: uriForm(r, e, item, r.Intn(nURIForms))}
	}
	scenario := idx % 10
	c.Count(fmt.Sprintf("drm-scenario:%d", scenario))
	switch scenario {
	case 0: // nothing
		run(drmSpec{Enc: "none"}, false)
		run(drmSpec{Enc: "entries"}, false) // encryption.xml without entries
	case 1: // rights file, alone and with obfuscated fonts
		run(drmSpec{Rights: true, Enc: "none"}, false)
		var es []encEntry
		for _, f := range fontIdx {
			es = append(es, entry(f, hx.Pick(r, obfAlgos)))
		}
		run(drmSpec{Rights: true, Enc: "entries", Entries: es}, true)
	case 2: // obfuscated fonts only, each scheme
		for _, a := range obfAlgos {
			var es []encEntry
			for _, f := range fontIdx {
				es = append(es, entry(f, a))
			}
			run(drmSpec{Enc: "entries", Entries: es}, true)
		}
	case 3: // obfuscation algorithm on a random subset of all items
		for k := 0; k < 3; k++ {
			var es []encEntry
			for i := range e.Items {
				if r.Bool() {
					es = append(es, entry(i, hx.Pick(r, obfAlgos)))
				}
			}
			run(drmSpec{Enc: "entries", Entries: es}, true)
		}
	case 4: // a real cipher on a subset containing a content document
		for k := 0; k < 3; k++ {
			es := []encEntry{entry(hx.Pick(r, contentIdx), pickAlgo(r, 1+r.Intn(2)))}
			for i := range e.Items {
				if r.Chance(1, 3) {
					es = append(es, entry(i, pickAlgo(r, r.Intn(3))))
				}
			}
			hx.Shuffle(r, es)
			run(drmSpec{Enc: "entries", Entries: es}, true)
		}
	case 5: // ciphers on fonts / images / ncx only
		for k := 0; k < 3; k++ {
			var es []encEntry
			for _, i := range append(append([]int(nil), fontIdx...), otherIdx...) {
				if r.Bool() {
					es = append(es, entry(i, pickAlgo(r, r.Intn(3))))
				}
			}
			run(drmSpec{Enc: "entries", Entries: es}, true)
		}
	case 6: // free mixture
		for k := 0; k < 4; k++ {
			var es []encEntry
			for i := range e.Items {
				if r.Chance(2, 5) {
					es = append(es, entry(i, pickAlgo(r, r.Intn(3))))
				}
			}
			run(drmSpec{Enc: "entries", Entries: es}, true)
		}
	case 7: // metadata that does not parse
		run(drmSpec{Enc: "bad"}, false)
		run(drmSpec{Enc: "bad", Rights: true}, false)
	case 8: // exhaustive: every subset of the manifest items × one algorithm
		items := len(e.Items)
		if items > 8 {
			items = 8
		}
		for _, cl := range []int{0, 1, 2} {
			a := pickAlgo(r, cl)
			for mask := 1; mask < 1<<uint(items); mask++ {
				if !c.Thorough() && cl == 2 && mask%3 != 0 {
					continue
				}
				var es []encEntry
				for i := 0; i < items; i++ {
					if mask&(1<<uint(i)) != 0 {
						es = append(es, entry(i, a))
					}
				}
				run(drmSpec{Enc: "entries", Entries: es}, false)
			}
		}
	case 9: // one content document, every algorithm, every URI form
		item := hx.Pick(r, contentIdx)
		for _, a := range append(append(append([]string(nil), obfAlgos...), aesAlgos...), unknownAlgos...) {
			for form := 0; form < nURIForms; form++ {
				if !c.Thorough() && form%2 == 1 && !isObfAlgo(a) {
					continue
				}
				run(drmSpec{Enc: "entries", Entries: []encEntry{{Algo: a, Item: item, URI: uriForm(r, e, item, form)}}}, false)
			}
		}
	}
}

// drmUnitOps ties isFontObfuscation / isContentFile directly.
func drmUnitOps(c *hx.Ctx) {
	algos := append(append(append([]string(nil), obfAlgos...), aesAlgos...), unknownAlgos...)
	algos = append(algos, "http://ns.adobe.com/obfuscation", "adobe.com obfuscation", "obfuscation adobe.com", "http://www.idpf.org/2008/obfuscation",
		"idpf.orgobfuscation", "IDPF.ORG/obfuscation", "http://www.idpf.org/2008/Obfuscation", "obfuscation", "adobe.com", "idpf.org",
		strings.ToUpper(algoIDPF), strings.ToUpper(algoAdobe), algoIDPF+" ", " "+algoAdobe, algoIDPF[:len(algoIDPF)-1], algoAdobe+"4", "http://ns.adobe.com/pdf/enc#rc")
	for _, a := range algos {
		got := epubdoc.VerifIsFontObfuscation(a)
		c.Op("c20.obf "+hx.HexS(a), fmt.Sprint(got))
		if isObfAlgo(a) {
			c.Check("C20/obfuscation-scheme-recognised", got, map[string]interface{}{"kind": "unit", "algorithm": a}, func() string {
				return fmt.Sprintf("isFontObfuscation(%q)=false for a standard font obfuscation algorithm", a)
			})
		}
		c.Case("obf:"+a, got)
	}
	pieces := []string{"adobe.com", "idpf.org", "obfuscation", "http://", "www.", "ns.", "/2008/", "embedding", "pdf/enc#RC", "x", "/", "#", "Obfuscation", "ADOBE.COM"}
	for i := 0; i < c.N(300, 5000); i++ {
		var sb strings.Builder
		for j := c.Rng.Range(0, 5); j > 0; j-- {
			sb.WriteString(hx.Pick(c.Rng, pieces))
		}
		a := sb.String()
		c.Op("c20.obf "+hx.HexS(a), fmt.Sprint(epubdoc.VerifIsFontObfuscation(a)))
	}
	uris := []string{"OEBPS/ch1.xhtml", "OEBPS/CH1.XHTML", "ch.html", "ch.htm", "a.xml", "toc.ncx", "content.opf", "s.css", "S.CSS", "f.otf", "f.ttf", "img.png", "", ".xhtml", "xhtml", "a.xhtml.bak", "a.xhtml/", "a.xhtml#f", "a%2Exhtml", "./OEBPS/ch%201.xhtml", "a.HtMl", "a.xht", "a.svg", "a.js", "a.htmlx", "a.xhtm", "xml", ".css",
		"OEBPS/100%.xhtml", "OEBPS/50% off/ch1.html", "%zz.htm", "ch#1.xhtml", "No. #2.html", "part:1/ch.xhtml", "a:b.xhtml", "why?.xhtml", "ch[1].htm", "[1]/c.xhtml", "Q&A.xhtml",
		"OEBPS/100%25.xhtml", "ch%231.xhtml", "%.css", "a b.xhtml", "{x}^`q`.html", "fonts/100% bold.otf", "f#1.ttf"}
	for _, u := range uris {
		c.Op("c20.content "+hx.HexS(u), fmt.Sprint(epubdoc.VerifIsContentFile(u)))
		c.Case("content:"+u, epubdoc.VerifIsContentFile(u))
	}
	sfx := []string{".xhtml", ".html", ".htm", ".xml", ".css", ".XHTML", ".Css", ".otf", ".png", "", ".", "x", "/", "a", "ml", "htm", "%2E"}
	for i := 0; i < c.N(300, 5000); i++ {
		var sb strings.Builder
		for j := c.Rng.Range(0, 4); j > 0; j-- {
			sb.WriteString(hx.Pick(c.Rng, sfx))
		}
		u := sb.String()
		c.Op("c20.content "+hx.HexS(u), fmt.Sprint(epubdoc.VerifIsContentFile(u)))
	}
}
