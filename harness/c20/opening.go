package c20

// The ways a valid HTML document may SPELL its opening.  The property demands
// that every valid HTML document is recognised as HTML by content; what a
// sniffer can go by is the front of the file: an optional XML declaration, an
// optional DOCTYPE and the start tag of the root element.  HTML (WHATWG
// 13.1.1, 13.1.2.1, 13.1.2.3) leaves the author a lot of room there:
//
//	document  := ws* [ xmldecl ws* ] [ doctype ws* ] [ root-start-tag ] ...
//	doctype   := "<!DOCTYPE" ws+ "html" [ legacy string ] ws* ">"     (keywords in any letter case)
//	start tag := "<html" ( ws+ attribute )* ws* ">"                   (tag name in any letter case)
//	attribute := name | name=unquoted | name="..." | name='...'        (ws allowed around "=")
//	ws        := TAB | LF | FF | CR | SPACE        (XML: the same without FF)
//
// so the tag name / the DOCTYPE keyword may be followed by a line break, a
// tab, a form feed or several blanks just as well as by one space or ">", and
// the root start tag may stand alone (no DOCTYPE), follow a DOCTYPE, or be
// omitted after one.  This file sweeps those spellings; everything here is
// written from the HTML / XML grammar, never from what tabula accepts.

import (
	"fmt"
	"strings"

	"verifharness/hx"
)

// htmlSpaces: non-empty runs of HTML's ASCII whitespace as authors and
// pretty-printers produce them (one blank, line breaks of the three
// conventions, tab, form feed, indentation after a line break).
var htmlSpaces = []string{" ", "\n", "\r\n", "\t", "\f", "\r", "  ", "\n  ", "\r\n\t", " \n", "\n\n", "\t\t", "\f\n"}

func wsName(ws string) string {
	if ws == "" {
		return "none"
	}
	return strings.NewReplacer(" ", "sp", "\n", "lf", "\r", "cr", "\t", "tab", "\f", "ff").Replace(ws)
}

func xmlSpaceOnly(ws string) string { return strings.ReplaceAll(ws, "\f", "\n") }

// respell writes an ASCII keyword in one of the letter cases HTML allows.
func respell(r *hx.Rng, s string) string {
	switch r.Intn(4) {
	case 0:
		return strings.ToUpper(s)
	case 1:
		return mixCase(r, s)
	}
	return s // as customarily written, twice as likely
}

// openingKinds: which of the optional parts the front of the document has.
var openingKinds = []string{"root-tag", "doctype+root-tag", "doctype-only", "xmldecl+root-tag", "xmldecl+doctype+root-tag"}

// openingRound: one round of the stream sweeps kinds x the whitespace that
// follows the FIRST keyword of the file (tag name or DOCTYPE).
func openingRound() int { return len(openingKinds) * len(htmlSpaces) }

// rootStartTag: "<html" attributes ">" with first as the whitespace after the
// tag name (used before ">" when there is no attribute).
func rootStartTag(r *hx.Rng, first string, xml bool) (tag string, nattr int) {
	sp := func() string {
		s := hx.Pick(r, htmlSpaces)
		if xml {
			s = xmlSpaceOnly(s)
		}
		return s
	}
	// one spelling per attribute name (a start tag never repeats a name)
	byName := [][]string{
		{`lang="en"`, `lang='en-GB'`, `lang = "en"`},
		{`dir="ltr"`, `dir='ltr'`},
		{`class="no-js"`, `class="a b"`},
		{`id="top"`, `id = "top"`},
		{`prefix="og: http://ogp.me/ns#"`},
		{`data-theme="dark"`, `data-theme=''`},
	}
	if xml {
		byName = append(byName, []string{`xml:lang="en"`})
	} else {
		byName[0] = append(byName[0], `lang=en`, `LANG="en"`, `Lang=en-US`)
		byName[1] = append(byName[1], `dir=ltr`)
		byName[2] = append(byName[2], `class=no-js`)
		byName = append(byName, []string{`data-js`, `data-js=""`}, []string{`hidden`})
	}
	attrs := make([]string, len(byName))
	for i, xs := range byName {
		attrs[i] = hx.Pick(r, xs)
	}
	hx.Shuffle(r, attrs)
	nattr = r.Range(0, 3)
	var b strings.Builder
	if xml {
		b.WriteString("<html") // XML is case sensitive
		// the namespace declaration is what makes it XHTML; anywhere among the attributes
		attrs = append([]string{`xmlns="http://www.w3.org/1999/xhtml"`}, attrs[:nattr]...)
		nattr++
		hx.Shuffle(r, attrs)
	} else {
		b.WriteString(respell(r, "<html"))
		attrs = attrs[:nattr]
	}
	ws := first
	for _, a := range attrs {
		b.WriteString(ws)
		b.WriteString(a)
		ws = sp()
	}
	switch {
	case len(attrs) == 0:
		b.WriteString(first) // "<html" ws ">"
	case r.Intn(3) == 0:
		b.WriteString(sp())
	}
	b.WriteString(">")
	return b.String(), nattr
}

// doctypeDecl: first is the whitespace between the keyword and the name.
func doctypeDecl(r *hx.Rng, first string, xml bool) string {
	sp := func() string {
		s := hx.Pick(r, htmlSpaces)
		if xml {
			s = xmlSpaceOnly(s)
		}
		return s
	}
	if xml {
		return "<!DOCTYPE" + first + "html" + sp() + `PUBLIC` + sp() + `"-//W3C//DTD XHTML 1.0 Strict//EN"` + sp() + `"http://www.w3.org/TR/xhtml1/DTD/xhtml1-strict.dtd"` + hx.Pick(r, []string{"", " ", "\n"}) + ">"
	}
	kw, name := respell(r, "<!DOCTYPE"), respell(r, "html")
	legacy := ""
	switch r.Intn(5) {
	case 0:
		legacy = sp() + respell(r, "PUBLIC") + sp() + `"-//W3C//DTD HTML 4.01//EN"` + sp() + `"http://www.w3.org/TR/html4/strict.dtd"`
	case 1:
		legacy = sp() + respell(r, "SYSTEM") + sp() + hx.Pick(r, []string{`"about:legacy-compat"`, `'about:legacy-compat'`})
	case 2:
		legacy = sp() + respell(r, "PUBLIC") + sp() + `"-//W3C//DTD XHTML 1.0 Transitional//EN"` + sp() + `"http://www.w3.org/TR/xhtml1/DTD/xhtml1-transitional.dtd"`
	}
	tail := ""
	if r.Intn(4) == 0 {
		tail = sp()
	}
	return kw + first + name + legacy + tail + ">"
}

// htmlOpeningDoc returns document #idx of the stream of HTML documents that
// differ in how the front of the file is spelled.
func htmlOpeningDoc(r *hx.Rng, idx int, token string) *Doc {
	j := idx % openingRound()
	kind := openingKinds[j%len(openingKinds)]
	first := htmlSpaces[(j/len(openingKinds))%len(htmlSpaces)]
	xml := strings.HasPrefix(kind, "xmldecl")
	if xml {
		first = xmlSpaceOnly(first)
	}
	sep := func() string { // between the parts: nothing, or whitespace
		if r.Intn(4) == 0 {
			return ""
		}
		s := hx.Pick(r, []string{"\n", "\n", "\r\n", " ", "\n\n", "\n\t", "\f"})
		if xml {
			s = xmlSpaceOnly(s)
		}
		return s
	}
	// leading whitespace (XML: none - the declaration must be the first thing)
	lead := ""
	if !xml {
		lead = hx.Pick(r, []string{"", "", "", "", "\n", "\r\n", " \t\n", "  ", "\r\n\r\n", "\f", "\n\f\n"})
	}
	var b strings.Builder
	b.WriteString(lead)
	class := ""
	nattr := -1
	root := func(ws string) {
		var t string
		t, nattr = rootStartTag(r, ws, xml)
		b.WriteString(t)
	}
	other := func() string {
		s := hx.Pick(r, htmlSpaces)
		if xml {
			s = xmlSpaceOnly(s)
		}
		return s
	}
	closeRoot := "</html>\n"
	switch kind {
	case "root-tag":
		root(first)
		class = "-html-root-tag"
	case "doctype+root-tag":
		b.WriteString(doctypeDecl(r, first, false))
		b.WriteString(sep())
		root(other())
		class = "-html-doctype"
	case "doctype-only": // the root element's start tag may be omitted (13.1.2.4)
		b.WriteString(doctypeDecl(r, first, false))
		class = "-html-doctype"
		if r.Bool() {
			closeRoot = ""
		}
	case "xmldecl+root-tag":
		b.WriteString(hx.Pick(r, []string{`<?xml version="1.0" encoding="UTF-8"?>`, `<?xml version="1.0"?>`, `<?xml version='1.0' encoding='utf-8' standalone='yes'?>`, "<?xml version=\"1.0\"\n  encoding=\"UTF-8\" ?>"}))
		b.WriteString(sep())
		root(first)
		class = "-xhtml-xmldecl"
	case "xmldecl+doctype+root-tag":
		b.WriteString(hx.Pick(r, []string{`<?xml version="1.0" encoding="UTF-8"?>`, `<?xml version="1.0"?>`, "<?xml\tversion=\"1.0\" encoding=\"UTF-8\"?>"}))
		b.WriteString(sep())
		b.WriteString(doctypeDecl(r, first, true))
		b.WriteString(sep())
		root(other())
		class = "-xhtml-xmldecl"
	default:
		panic("htmlOpeningDoc: " + kind)
	}
	if class == "-html-doctype" && first != " " {
		class = "-html-doctype-ws" // keyword and name separated by something other than one blank
	}
	b.WriteString(sep())
	fmt.Fprintf(&b, "<head><title>T %s</title></head>\n<body>\n<h1>Heading</h1>\n<p>%s paragraph text.</p>\n</body>\n%s", token, token, closeRoot)
	return &Doc{Format: FHTML, Raw: []byte(b.String()), Token: token, Sniffable: true, KeySuffix: class,
		Variant: fmt.Sprintf("opening-%s-lead=%s-first-ws=%s-attrs=%d", kind, wsName(lead), wsName(first), nattr)}
}
