package c07

import (
	"bytes"
	"fmt"
	"sort"
	"strings"

	"github.com/tsawler/tabula/core"
	"github.com/tsawler/tabula/font"
	"github.com/tsawler/tabula/text"
	"golang.org/x/text/unicode/norm"

	"verifharness/hx"
)

// Which font decodes a shown string, over whole content-stream histories (op c07.ext).
//
// A generated document is a table of indirect objects (font dictionaries, ToUnicode streams,
// /Encoding dictionaries, Form XObjects), the page's resource dictionary and the page's
// content. It is handed to text.Extractor the way reader.extractTextWithFragments does
// (RegisterFontsFromResources, SetResourceContext, ExtractFromBytes); the text of every
// fragment before position-based de-duplication (hook VerifShownTexts) is compared with
// Model/FormFonts.lean `extract`, which is given the same objects as PDF text.
//
// Clean documents (about half): every font dictionary is well formed, every show is
// `BT /F Tf … ET`-framed with a name its own scope binds, forms are drawn through names the
// drawing scope lists. For those the property states the result: every string decodes by the
// font dictionary its Tf selects (oracle C07/ext-show-by-selected-font, written from the
// authored maps and the reference tables; documents with a font whose text comes from the
// /Differences of its /Encoding dictionary under C07/ext-differences-font). Quirky documents
// add what real files contain and the property does not speak about: missing/odd /Subtype,
// /Encoding of the wrong type, /Differences that are no array or hold odd entries (names
// before any code, codes outside a byte, reals, references), ToUnicode that is no stream or
// does not decode,
// bad /Widths, Type0 without descendants, Tf of unbound names or without a size, shows
// without a Tf (font inherited from the caller), q/Q, stray Q, TJ arrays, ' and ", forms
// without /Resources, forms drawing themselves, unknown XObject names, image XObjects.

type xObj struct {
	body   string // object text, or the stream dictionary text
	data   []byte // stream data
	stream bool
	broken bool // the stream's Decode() fails (FlateDecode over junk)
}

type xDoc struct {
	objs      map[int]*xObj
	pageRes   string // dictionary text; "" = the page has no resources
	content   []byte
	datas     [][]byte // every shown string
	progs     [][]byte // every ToUnicode program
	diffTexts []string // every /Differences array text (for the NFC candidates)
	clean     bool
	key       string   // oracle key of a clean document ("" = C07/ext-show-by-selected-font)
	want      []string // clean documents: the specified fragment texts in show order
	hasDiffs  bool     // some font's text comes from /Differences
}

func (d *xDoc) add(o *xObj) int {
	n := len(d.objs) + 1
	d.objs[n] = o
	return n
}

// opLine: the document as PDF text for the model.
func (d *xDoc) opFields() (objs, pres, content string) {
	var ns []int
	for n := range d.objs {
		ns = append(ns, n)
	}
	sort.Ints(ns)
	parts := make([]string, 0, len(ns))
	for _, n := range ns {
		o := d.objs[n]
		switch {
		case !o.stream:
			parts = append(parts, fmt.Sprintf("%d:%s", n, hx.HexS(o.body)))
		case o.broken:
			parts = append(parts, fmt.Sprintf("%d:%s/!", n, hx.HexS(o.body)))
		default:
			parts = append(parts, fmt.Sprintf("%d:%s/%s", n, hx.HexS(o.body), hx.Hex(o.data)))
		}
	}
	objs = "~"
	if len(parts) > 0 {
		objs = strings.Join(parts, ",")
	}
	pres = "~"
	if d.pageRes != "" {
		pres = hx.HexS(d.pageRes)
	}
	return objs, pres, hx.Hex(d.content)
}

func parseObj(s string) (core.Object, error) {
	return core.NewParser(bytes.NewReader([]byte(s))).ParseObject()
}

// build: the objects in memory, as the reader would hand them to the extractor.
func (d *xDoc) build() (resolver func(core.IndirectRef) (core.Object, error), pageRes core.Dict, err error) {
	mem := map[int]core.Object{}
	for n, o := range d.objs {
		obj, e := parseObj(o.body)
		if e != nil {
			return nil, nil, fmt.Errorf("object %d: %v", n, e)
		}
		if o.stream {
			dict, ok := obj.(core.Dict)
			if !ok {
				return nil, nil, fmt.Errorf("object %d: stream dictionary is %T", n, obj)
			}
			mem[n] = &core.Stream{Dict: dict, Data: append([]byte(nil), o.data...)}
		} else {
			mem[n] = obj
		}
	}
	resolver = func(ref core.IndirectRef) (core.Object, error) {
		if o, ok := mem[ref.Number]; ok {
			return o, nil
		}
		return nil, fmt.Errorf("object %d not found", ref.Number)
	}
	if d.pageRes != "" {
		obj, e := parseObj(d.pageRes)
		if e != nil {
			return nil, nil, e
		}
		dict, ok := obj.(core.Dict)
		if !ok {
			return nil, nil, fmt.Errorf("page resources are %T", obj)
		}
		pageRes = dict
	}
	return resolver, pageRes, nil
}

// nfcCandidates: NFC is a parameter of the model; x/text's answer for every string any font
// of the document could produce from any shown string.
func (d *xDoc) nfcCandidates() string {
	seen := map[string]bool{}
	var parts []string
	add := func(s string) {
		if seen[s] || strings.Contains(out(s), "invalid") {
			return
		}
		seen[s] = true
		parts = append(parts, scalarsSep(s, ",")+">"+scalarsSep(norm.NFC.String(s), ","))
	}
	var cms []*font.CMap
	for _, p := range d.progs {
		if cm, pan := parseCMap(p); pan == "" && cm != nil {
			cms = append(cms, cm)
		}
	}
	encs := []string{"WinAnsiEncoding", "MacRomanEncoding", "PDFDocEncoding", "StandardEncoding", "SymbolEncoding", "ZapfDingbatsEncoding"}
	// the /Differences of the document, read as 9.6.6.1 says, over every base encoding
	var customs []font.Encoding
	for _, t := range d.diffTexts {
		if runs, ok := parseDiffText(t); ok {
			for _, e := range encs {
				customs = append(customs, font.NewCustomEncodingFromGlyphs(font.GetEncoding(e), diffNames(runs)))
			}
		}
	}
	for _, data := range d.datas {
		hx.Safe(func() {
			for _, ce := range customs {
				add(ce.DecodeString(data))
			}
			for _, cm := range cms {
				add(cm.LookupString(data))
			}
			if len(data) >= 2 {
				add(font.DecodeUTF16BE(append([]byte(nil), data[2:]...)))
				add(font.DecodeUTF16LE(append([]byte(nil), data[2:]...)))
			}
			for _, e := range encs {
				add(font.GetEncoding(e).DecodeString(data))
			}
			add(strings.ToValidUTF8(string(data), "�"))
		})
	}
	if len(parts) == 0 {
		return "~"
	}
	return strings.Join(parts, ";")
}

func textsField(ts []string) string {
	if len(ts) == 0 {
		return "-"
	}
	p := make([]string, len(ts))
	for i, t := range ts {
		if !strings.Contains(out(t), "invalid") {
			p[i] = scalarsSep(t, ",")
		} else {
			p[i] = "invalid-utf8:" + hx.HexS(t)
		}
	}
	return strings.Join(p, "|")
}

func extCase(c *hx.Ctx, d *xDoc, ops bool) {
	objs, pres, content := d.opFields()
	k := kase("ext", "objs", objs, "res", pres, "content", content, "clean", d.clean, "key", d.key, "want", func() []string {
		w := make([]string, len(d.want))
		for i, s := range d.want {
			w[i] = hx.HexS(s)
		}
		return w
	}())
	resolver, pageRes, err := d.build()
	if err != nil {
		c.Note("C07 ext: generated document does not parse: %v", err)
		c.Count("ext-unbuildable")
		return
	}
	var texts []string
	var xerr error
	if p := hx.Safe(func() {
		e := text.NewExtractor()
		if pageRes != nil {
			_ = e.RegisterFontsFromResources(pageRes, resolver)
			e.SetResourceContext(pageRes, resolver)
		}
		_, xerr = e.ExtractFromBytes(d.content)
		if xerr == nil {
			texts = text.VerifShownTexts(e)
		}
	}); p != "" {
		c.Check("C07/panic", false, k, func() string { return "text.Extractor panicked: " + p })
		return
	}
	for _, t := range texts {
		checkOutput(c, "fragment text (text.Extractor with Form XObjects)", t, k, true)
	}
	if d.clean {
		ok := xerr == nil && len(texts) == len(d.want)
		for i := 0; ok && i < len(texts); i++ {
			ok = texts[i] == d.want[i]
		}
		key := d.key
		if key == "" {
			key = "C07/ext-show-by-selected-font"
		}
		c.Check(key, ok, k, func() string {
			return fmt.Sprintf("every string decodes by the font dictionary its Tf selects in the scope in force: got %q (err %v), specified %q; content %q", texts, xerr, d.want, firstNs(string(d.content), 300))
		})
	}
	if ops && pageRes != nil {
		// RegisterFontsFromResources alone: the table of names it leaves (GetFonts), against
		// the model's loop run over the dictionary in two orders
		var line string
		if p := hx.Safe(func() {
			e := text.NewExtractor()
			_ = e.RegisterFontsFromResources(pageRes, resolver)
			fonts := e.GetFonts()
			names := make([]string, 0, len(fonts))
			for n := range fonts {
				names = append(names, n)
			}
			sort.Strings(names)
			parts := make([]string, len(names))
			for i, n := range names {
				tu := "F"
				if fonts[n].ToUnicodeCMap != nil {
					tu = "T"
				}
				parts[i] = fmt.Sprintf("%s=%s:%s:%s", hx.HexS(n), hx.HexS(fonts[n].Encoding), tu, diffsField(getDifferences(fonts[n])))
			}
			line = strings.Join(parts, ",")
			if len(parts) == 0 {
				line = "-"
				if f := pageRes.Get("Font"); f == nil {
					line = "none"
				} else if r, ok := f.(core.IndirectRef); ok {
					if o, err := resolver(r); err != nil {
						line = "none"
					} else if _, ok := o.(core.Dict); !ok {
						line = "none"
					}
				} else if _, ok := f.(core.Dict); !ok {
					line = "none"
				}
			}
		}); p == "" {
			c.Op(fmt.Sprintf("c07.reg %s %s", objs, pres), line)
		}
	}
	if ops {
		res := "err"
		if xerr == nil {
			res = "ok " + textsField(texts)
		}
		c.Op(fmt.Sprintf("c07.ext %s %s %s %s", objs, pres, content, d.nfcCandidates()), res)
	}
}

func replayExt(c *hx.Ctx, k map[string]interface{}) {
	d := &xDoc{objs: map[int]*xObj{}}
	objs, _ := k["objs"].(string)
	if objs != "~" && objs != "" {
		for _, part := range strings.Split(objs, ",") {
			var n int
			var rest string
			if i := strings.IndexByte(part, ':'); i > 0 {
				fmt.Sscanf(part[:i], "%d", &n)
				rest = part[i+1:]
			} else {
				return
			}
			o := &xObj{}
			if j := strings.IndexByte(rest, '/'); j >= 0 {
				o.stream = true
				o.body = string(unhex(rest[:j]))
				if rest[j+1:] == "!" {
					o.broken = true
					o.data = []byte("not zlib")
				} else {
					o.data = unhex(rest[j+1:])
				}
			} else {
				o.body = string(unhex(rest))
			}
			d.objs[n] = o
		}
	}
	if r, _ := k["res"].(string); r != "~" {
		d.pageRes = string(unhex(r))
	}
	d.content = unhex(k["content"])
	d.clean, _ = k["clean"].(bool)
	d.key, _ = k["key"].(string)
	if ws, ok := k["want"].([]interface{}); ok {
		for _, w := range ws {
			d.want = append(d.want, string(unhex(w)))
		}
	}
	extCase(c, d, false)
}

// ---- generator ---------------------------------------------------------------------

type xFont struct {
	gen   *mfGen // what the dictionary specifies (clean fonts)
	ref   string // "N 0 R" or the dictionary text (direct)
	quirk string
}

type xScope struct {
	names   []string // resource names, parallel to fonts
	fonts   []int    // index into the document's fonts
	res     string   // resources dictionary text ("" = none)
	draws   []int    // scopes this scope may draw (listed in its /XObject)
	formObj int      // object number of the form (scopes > 0)
}

func pdfName(s string) string {
	var sb strings.Builder
	sb.WriteByte('/')
	for i := 0; i < len(s); i++ {
		ch := s[i]
		if ch == '/' || ch == '#' || ch <= ' ' || ch >= 0x7F {
			fmt.Fprintf(&sb, "#%02X", ch)
		} else {
			sb.WriteByte(ch)
		}
	}
	return sb.String()
}

func genExtDoc(r *hx.Rng) *xDoc {
	d := &xDoc{objs: map[int]*xObj{}, clean: r.Bool()}
	quirky := !d.clean
	// ---- fonts
	nf := r.Range(1, 4)
	fonts := make([]*xFont, nf)
	encOrder := append([]struct{ name, table string }(nil), mfLatinEncodings...)
	hx.Shuffle(r, encOrder)
	var gens []*mfGen
	for i := 0; i < nf; i++ {
		g := &mfGen{}
		g.Subtype = hx.Pick(r, []string{"TrueType", "Type1", "Type0"})
		g.Base = hx.Pick(r, []string{"ABCDEF+Verif", "Helvetica", "Times-Roman"})
		g.Enc = encOrder[i%len(encOrder)].name
		if g.Subtype == "Type0" || r.Chance(1, 2) {
			w := 1
			if g.Subtype == "Type0" {
				w, g.Enc = 2, "Identity-H"
			}
			var prev *mfGen
			for _, p := range gens {
				if p.m != nil && p.m.width == w {
					prev = p
				}
			}
			if prev != nil && r.Bool() {
				g.m = relabel(r, prev.m)
			} else {
				g.m = smallMapW(r, w)
			}
			p := hx.Pick(r, policyForms)
			p.crlf, p.upper = r.Bool(), r.Bool()
			prog := render(g.m, p)
			d.progs = append(d.progs, prog)
			g.TU = hx.Hex(prog)
			g.es = g.m.entriesFor(p)
		}
		gens = append(gens, g)
		xf := &xFont{gen: g}
		var sb strings.Builder
		subtype := g.Subtype
		if quirky && r.Chance(1, 10) {
			xf.quirk = "subtype"
			subtype = hx.Pick(r, []string{"Type3", "MMType1", ""})
		}
		sb.WriteString("<< /Type /Font")
		if subtype != "" {
			sb.WriteString(" /Subtype /" + subtype)
		}
		sb.WriteString(" /BaseFont /" + g.Base)
		// /Encoding
		encQuirk := ""
		if quirky && r.Chance(1, 3) {
			encQuirk = hx.Pick(r, []string{"none", "int", "dict-base", "dict-nobase", "dict-baseint", "dict-diffs", "dict-baddiffs", "dict-odddiffs", "dict-odddiffs", "indirect", "custom", "string"})
		}
		// the /Differences of an /Encoding dictionary decide (clean and quirky documents)
		if g.Subtype != "Type0" && g.m == nil && encQuirk == "" && r.Chance(1, 2) {
			g.withDifferences(r)
			encQuirk = "differences"
			d.hasDiffs = true
		}
		// a Type0 font whose /Encoding is the name of a simple-font encoding and whose ToUnicode
		// is unusable: NewType0Font keeps the name in Type0Font.Encoding, not in Font.Encoding
		type0Simple := quirky && g.Subtype == "Type0" && r.Chance(1, 5)
		if g.Subtype == "Type0" {
			switch {
			case type0Simple:
				sb.WriteString(" /Encoding /MacRomanEncoding")
				xf.quirk = "enc-type0-simple"
			case encQuirk == "none":
				xf.quirk = "enc-" + encQuirk
			case encQuirk == "string":
				sb.WriteString(" /Encoding (Identity-V)")
				xf.quirk = "enc-" + encQuirk
			default:
				sb.WriteString(" /Encoding /Identity-H")
			}
		} else {
			switch encQuirk {
			case "":
				sb.WriteString(" /Encoding /" + g.Enc)
			case "none":
			case "int":
				sb.WriteString(" /Encoding 7")
			case "dict-base":
				sb.WriteString(" /Encoding << /Type /Encoding /BaseEncoding /" + g.Enc + " >>")
			case "dict-nobase":
				sb.WriteString(" /Encoding << /Type /Encoding >>")
			case "dict-baseint":
				sb.WriteString(" /Encoding << /BaseEncoding 3 >>")
			case "differences":
				var eb strings.Builder
				eb.WriteString("<< /Type /Encoding")
				if !g.NoBase {
					eb.WriteString(" /BaseEncoding /" + g.Enc)
				}
				if r.Chance(1, 5) { // the array as an indirect object
					fmt.Fprintf(&eb, " /Differences %d 0 R >>", d.add(&xObj{body: g.Diffs}))
				} else {
					eb.WriteString(" /Differences " + g.Diffs + " >>")
				}
				if r.Chance(1, 5) { // the dictionary as an indirect object
					fmt.Fprintf(&sb, " /Encoding %d 0 R", d.add(&xObj{body: eb.String()}))
				} else {
					sb.WriteString(" /Encoding " + eb.String())
				}
				d.diffTexts = append(d.diffTexts, g.Diffs)
			case "dict-diffs":
				sb.WriteString(" /Encoding << /BaseEncoding /" + g.Enc + " /Differences [65 /B /C 200 /eacute] >>")
				d.diffTexts = append(d.diffTexts, "[65 /B /C 200 /eacute]")
			case "dict-baddiffs":
				sb.WriteString(" /Encoding << /BaseEncoding /" + g.Enc + " /Differences [65 (B)] >>")
			case "dict-odddiffs":
				// arrays the property does not speak about: names before any code, codes outside a
				// byte, a run crossing 255, something that is neither integer nor name after valid
				// entries, references, no array at all
				t := hx.Pick(r, []string{"[/Euro /eacute 66 /bullet]", "[-1 /Euro /eacute /bullet]", "[254 /Euro /eacute /bullet /dagger]",
					"[300 /Euro 65 /eacute]", "[65 /Euro 66.0 /eacute]", "[65 /Euro [66 /eacute]]", "[65 /Euro null]", "[65 /Euro 7 0 R]",
					"[65 /Euro 65 /g17 66 /eacute 66 /Eacute]", "[]", "[65]", "[9223372036854775807 /Euro /eacute]", "[65 /Eur#6F /#65acute]",
					"999 0 R", "null", "(x)", "<< >>", "[65 / /Euro]"})
				if t == "999 0 R" && r.Bool() {
					t = fmt.Sprintf("%d 0 R", d.add(&xObj{body: hx.Pick(r, []string{"[65 /Euro /eacute]", "[65 (B)]", "7"})}))
					d.diffTexts = append(d.diffTexts, "[65 /Euro /eacute]")
				}
				sb.WriteString(" /Encoding << /BaseEncoding /" + g.Enc + " /Differences " + t + " >>")
				if runs, ok := parseDiffText(t); ok && len(runs) > 0 {
					d.diffTexts = append(d.diffTexts, t)
				}
			case "indirect":
				n := d.add(&xObj{body: "/" + g.Enc})
				fmt.Fprintf(&sb, " /Encoding %d 0 R", n)
			case "custom":
				sb.WriteString(" /Encoding /CustomEncoding")
			case "string":
				sb.WriteString(" /Encoding (" + g.Enc + ")")
			}
			if encQuirk != "" {
				xf.quirk = "enc-" + encQuirk
			}
		}
		// /ToUnicode
		if g.TU != "" {
			prog := d.progs[len(d.progs)-1]
			tuQuirk := ""
			if quirky && r.Chance(1, 8) {
				tuQuirk = hx.Pick(r, []string{"nonstream", "broken", "missing", "direct-int"})
				xf.quirk = "tu-" + tuQuirk
			}
			if type0Simple && r.Chance(2, 3) {
				tuQuirk = "nonstream"
			}
			switch tuQuirk {
			case "":
				fmt.Fprintf(&sb, " /ToUnicode %d 0 R", d.add(&xObj{body: "<< >>", data: prog, stream: true}))
			case "nonstream":
				fmt.Fprintf(&sb, " /ToUnicode %d 0 R", d.add(&xObj{body: "<< /Length 3 >>"}))
			case "broken":
				fmt.Fprintf(&sb, " /ToUnicode %d 0 R", d.add(&xObj{body: "<< /Filter /FlateDecode >>", data: []byte("not zlib"), stream: true, broken: true}))
			case "missing":
				sb.WriteString(" /ToUnicode 999 0 R")
			case "direct-int":
				sb.WriteString(" /ToUnicode 12")
			}
		}
		if quirky && r.Chance(1, 10) {
			sb.WriteString(hx.Pick(r, []string{" /Widths [500 600.5 700]", " /Widths [500 (x)]", " /Widths 5", " /FirstChar 65 /Widths [1 2 3]"}))
			xf.quirk += "+widths"
		}
		if g.Subtype == "Type0" {
			if quirky && r.Chance(1, 8) {
				xf.quirk += "+nodesc"
				if r.Bool() {
					sb.WriteString(" /DescendantFonts []")
				}
			} else {
				desc := d.add(&xObj{body: fmt.Sprintf("<< /Type /Font /Subtype /CIDFontType2 /BaseFont /%s /CIDSystemInfo << /Registry (Adobe) /Ordering (Identity) /Supplement 0 >> /DW 1000 >>", g.Base)})
				fmt.Fprintf(&sb, " /DescendantFonts [%d 0 R]", desc)
			}
		}
		sb.WriteString(" >>")
		if r.Chance(1, 6) {
			xf.ref = sb.String()
		} else {
			xf.ref = fmt.Sprintf("%d 0 R", d.add(&xObj{body: sb.String()}))
		}
		fonts[i] = xf
	}
	// ---- scopes
	nforms := hx.Pick(r, []int{0, 1, 1, 2, 3})
	ns := 1 + nforms
	scopes := make([]*xScope, ns)
	restart := r.Chance(1, 2)
	counter := 0
	for s := range scopes {
		sc := &xScope{}
		if restart {
			counter = 0
		}
		nb := r.Range(1, 3)
		if s > 0 && quirky && r.Chance(1, 5) {
			nb = 0
		}
		for b := 0; b < nb; b++ {
			counter++
			name := fmt.Sprintf("F%d", counter)
			if quirky && r.Chance(1, 25) {
				name = "/" + name // a key that itself starts with a slash
			}
			sc.names = append(sc.names, name)
			sc.fonts = append(sc.fonts, r.Intn(nf))
		}
		if s > 0 {
			sc.formObj = d.add(&xObj{}) // reserved
		}
		scopes[s] = sc
	}
	// who draws whom: the page draws forms 1..; form k may draw k+1 (and, quirky, itself)
	for s := range scopes {
		if s == 0 {
			for k := 1; k < ns; k++ {
				if k == 1 || r.Bool() {
					scopes[0].draws = append(scopes[0].draws, k)
				}
			}
		} else {
			if s+1 < ns && r.Bool() {
				scopes[s].draws = append(scopes[s].draws, s+1)
			}
			if quirky && r.Chance(1, 8) {
				scopes[s].draws = append(scopes[s].draws, s)
			}
		}
	}
	// a form that draws itself is executed to the nesting limit; keep the number of form
	// executions small (the model re-reads a font dictionary at every show)
	var execs func(s, depth int) int
	execs = func(s, depth int) int {
		if depth > 10 {
			return 0
		}
		n := 1
		for _, k := range scopes[s].draws {
			n += execs(k, depth+1)
		}
		return n
	}
	if execs(0, 0) > 24 {
		for s := 1; s < ns; s++ {
			var keep []int
			for _, k := range scopes[s].draws {
				if k != s {
					keep = append(keep, k)
				}
			}
			scopes[s].draws = keep
		}
	}
	imageObj := 0
	resources := func(s int) string {
		sc := scopes[s]
		if s > 0 && quirky && r.Chance(1, 6) {
			return "" // a form without /Resources: it uses the caller's
		}
		var sb strings.Builder
		sb.WriteString("<<")
		if len(sc.names) > 0 || r.Bool() {
			var fd strings.Builder
			fd.WriteString("<<")
			for i, n := range sc.names {
				fmt.Fprintf(&fd, " %s %s", pdfName(n), fonts[sc.fonts[i]].ref)
			}
			fd.WriteString(" >>")
			if quirky && r.Chance(1, 8) {
				fmt.Fprintf(&sb, " /Font %d 0 R", d.add(&xObj{body: fd.String()}))
			} else {
				sb.WriteString(" /Font " + fd.String())
			}
		}
		if len(sc.draws) > 0 || (quirky && r.Chance(1, 6)) {
			var xo strings.Builder
			xo.WriteString("<<")
			for _, k := range sc.draws {
				fmt.Fprintf(&xo, " /X%d %d 0 R", k, scopes[k].formObj)
			}
			if quirky && r.Chance(1, 4) {
				if imageObj == 0 {
					imageObj = d.add(&xObj{body: "<< /Type /XObject /Subtype /Image /Width 1 /Height 1 >>", data: []byte{0}, stream: true})
				}
				fmt.Fprintf(&xo, " /Im1 %d 0 R", imageObj)
			}
			xo.WriteString(" >>")
			if quirky && r.Chance(1, 8) {
				fmt.Fprintf(&sb, " /XObject %d 0 R", d.add(&xObj{body: xo.String()}))
			} else {
				sb.WriteString(" /XObject " + xo.String())
			}
		}
		sb.WriteString(" >>")
		return sb.String()
	}
	// ---- contents; wants of clean documents are computed by a second, independent walk
	y := 780
	type item struct {
		form int
		data []byte
		want string
	}
	items := make([][]item, ns)
	contents := make([][]byte, ns)
	for s := ns - 1; s >= 0; s-- {
		sc := scopes[s]
		var sb strings.Builder
		nitems := r.Range(1, 5)
		var its []item
		showFont := func() (name string, g *mfGen) {
			if len(sc.names) == 0 {
				return "", nil
			}
			i := r.Intn(len(sc.names))
			return sc.names[i], fonts[sc.fonts[i]].gen
		}
		drawAt := map[int][]int{}
		for _, k := range sc.draws {
			at := r.Intn(nitems + 1)
			drawAt[at] = append(drawAt[at], k)
		}
		emitDraws := func(at int) {
			for _, k := range drawAt[at] {
				if d.clean || r.Chance(3, 4) {
					fmt.Fprintf(&sb, "q /X%d Do Q\n", k)
				} else {
					fmt.Fprintf(&sb, "/X%d Do\n", k)
				}
				its = append(its, item{form: k})
			}
		}
		for i := 0; i < nitems; i++ {
			emitDraws(i)
			name, g := showFont()
			var data []byte
			var want string
			if g != nil {
				data, want = g.show(r)
			} else {
				data = randData(r)
			}
			if quirky && r.Chance(1, 6) {
				data = randData(r)
			}
			d.datas = append(d.datas, data)
			y -= 14
			if d.clean {
				switch r.Intn(4) {
				case 0:
					fmt.Fprintf(&sb, "BT %s 12 Tf 1 0 0 1 40 %d Tm <%x> Tj ET\n", pdfName(name), y, data)
				case 1:
					fmt.Fprintf(&sb, "q BT %s 9 Tf 1 0 0 1 40 %d Tm [<%x>] TJ ET Q\n", pdfName(name), y, data)
				case 2:
					fmt.Fprintf(&sb, "BT %s 10.5 Tf 14 TL 1 0 0 1 40 %d Tm <%x> ' ET\n", pdfName(name), y, data)
				default:
					fmt.Fprintf(&sb, "BT %s 12 Tf 1 0 0 1 40 %d Tm 0 0 <%x> \" ET\n", pdfName(name), y, data)
				}
				its = append(its, item{data: data, want: want})
				continue
			}
			// quirky shows
			switch r.Intn(12) {
			case 0: // no Tf: the font in the graphics state (selected by an earlier Tf, maybe the caller's) decides
				fmt.Fprintf(&sb, "BT 1 0 0 1 40 %d Tm <%x> Tj ET\n", y, data)
			case 1: // unbound name
				fmt.Fprintf(&sb, "BT /Zz%d 12 Tf 1 0 0 1 40 %d Tm <%x> Tj ET\n", r.Intn(3), y, data)
			case 2: // Tf without a numeric size: ignored
				fmt.Fprintf(&sb, "BT %s /big Tf 1 0 0 1 40 %d Tm <%x> Tj ET\n", pdfName(name), y, data)
			case 3: // Tf inside q..Q does not survive the Q
				fmt.Fprintf(&sb, "q BT %s 12 Tf ET Q BT 1 0 0 1 40 %d Tm <%x> Tj ET\n", pdfName(name), y, data)
			case 4: // TJ with several strings and numbers
				d2 := randData(r)
				d.datas = append(d.datas, d2)
				fmt.Fprintf(&sb, "BT %s 12 Tf 1 0 0 1 40 %d Tm [<%x> -250 <%x> 3.5 /n <%x>] TJ ET\n", pdfName(name), y, data, d2, data)
			case 5: // stray Q
				if s == 0 && !r.Chance(1, 3) {
					fmt.Fprintf(&sb, "BT %s 12 Tf 1 0 0 1 40 %d Tm <%x> Tj ET\n", pdfName(name), y, data)
				} else {
					fmt.Fprintf(&sb, "Q BT %s 12 Tf 1 0 0 1 40 %d Tm <%x> Tj ET\n", pdfName(name), y, data)
				}
			case 6: // unbalanced q
				fmt.Fprintf(&sb, "q BT %s 12 Tf 1 0 0 1 40 %d Tm <%x> Tj ET\n", pdfName(name), y, data)
			case 7: // unknown / image XObject
				fmt.Fprintf(&sb, "/Im1 Do /Nope Do BT %s 12 Tf 1 0 0 1 40 %d Tm <%x> Tj ET\n", pdfName(name), y, data)
			case 8: // literal string, ' operator
				fmt.Fprintf(&sb, "BT %s 12 Tf 1 0 0 1 40 %d Tm (A\\351B) ' ET\n", pdfName(name), y)
				d.datas = append(d.datas, []byte{'A', 0xE9, 'B'})
			case 9: // operand count wrong
				fmt.Fprintf(&sb, "BT %s 12 Tf 1 0 0 1 40 %d Tm 1 <%x> \" <%x> <%x> Tj ET\n", pdfName(name), y, data, data, data)
			default:
				fmt.Fprintf(&sb, "BT %s 12 Tf 1 0 0 1 40 %d Tm <%x> Tj ET\n", pdfName(name), y, data)
			}
		}
		emitDraws(nitems)
		if quirky && r.Chance(1, 30) {
			sb.WriteString("[ (unterminated") // the content does not parse
		}
		items[s] = its
		contents[s] = []byte(sb.String())
	}
	for s := ns - 1; s >= 1; s-- {
		dict := "<< /Type /XObject /Subtype /Form /BBox [0 0 612 792]"
		if res := resources(s); res != "" {
			if quirky && r.Chance(1, 8) {
				dict += fmt.Sprintf(" /Resources %d 0 R", d.add(&xObj{body: res}))
			} else {
				dict += " /Resources " + res
			}
		}
		if r.Chance(1, 4) {
			dict += " /Matrix [1 0 0 1 0 -300]"
		}
		dict += " >>"
		o := d.objs[scopes[s].formObj]
		o.body, o.data, o.stream = dict, contents[s], true
		if quirky && r.Chance(1, 25) {
			o.body = strings.Replace(o.body, "<<", "<< /Filter /FlateDecode", 1)
			o.broken, o.data = true, []byte("not zlib")
		}
	}
	d.pageRes = resources(0)
	if quirky && r.Chance(1, 12) {
		d.pageRes = ""
	}
	d.content = contents[0]
	if d.clean {
		var walk func(s, depth int) []string
		walk = func(s, depth int) []string {
			var w []string
			for _, it := range items[s] {
				if it.form > 0 {
					w = append(w, walk(it.form, depth+1)...)
				} else {
					w = append(w, it.want)
				}
			}
			return w
		}
		d.want = walk(0, 0)
		if d.hasDiffs {
			d.key = "C07/ext-differences-font"
		}
	}
	return d
}

// genInheritDoc: the page selects a font and draws a form that shows a string WITHOUT a Tf of
// its own. The text state is part of the graphics state a form inherits (ISO 32000-1 8.10.1,
// 9.3.1): the string is text in the font the page selected. rebound = the form's own
// resources bind the page's font name to a different font dictionary (before fix fa0c44f the
// extractor looked the name up again at the show and decoded by the form's font).
func genInheritDoc(r *hx.Rng) (d *xDoc, rebound bool) {
	d = &xDoc{objs: map[int]*xObj{}, clean: true}
	mk := func(enc string, m *lmap) (*mfGen, int) {
		g := &mfGen{}
		g.Subtype, g.Base, g.Enc = hx.Pick(r, []string{"TrueType", "Type1"}), "ABCDEF+Verif", enc
		body := fmt.Sprintf("<< /Type /Font /Subtype /%s /BaseFont /%s /Encoding /%s", g.Subtype, g.Base, enc)
		if m != nil {
			p := hx.Pick(r, policyForms)
			p.crlf, p.upper = r.Bool(), r.Bool()
			prog := render(m, p)
			d.progs = append(d.progs, prog)
			g.m, g.es = m, m.entriesFor(p)
			body += fmt.Sprintf(" /ToUnicode %d 0 R", d.add(&xObj{body: "<< >>", data: prog, stream: true}))
		}
		return g, d.add(&xObj{body: body + " >>"})
	}
	encs := append([]struct{ name, table string }(nil), mfLatinEncodings...)
	hx.Shuffle(r, encs)
	var ma, mb *lmap
	if r.Bool() {
		ma = smallMapW(r, 1)
		mb = relabel(r, ma)
	}
	ga, fa := mk(encs[0].name, ma)
	_, fb := mk(encs[1].name, mb)
	rebound = r.Chance(2, 3)
	formFonts := fmt.Sprintf("/G1 %d 0 R", fb)
	if rebound {
		formFonts = fmt.Sprintf("/F1 %d 0 R", fb)
	}
	d1, w1 := ga.show(r)
	d2, w2 := ga.show(r)
	d3, w3 := ga.show(r)
	d.datas = [][]byte{d1, d2, d3}
	form := d.add(&xObj{body: fmt.Sprintf("<< /Type /XObject /Subtype /Form /BBox [0 0 612 792] /Resources << /Font << %s >> >> >>", formFonts),
		data: []byte(fmt.Sprintf("BT 1 0 0 1 40 600 Tm <%x> Tj ET\n", d2)), stream: true})
	d.pageRes = fmt.Sprintf("<< /Font << /F1 %d 0 R >> /XObject << /X1 %d 0 R >> >>", fa, form)
	d.content = []byte(fmt.Sprintf("BT /F1 12 Tf 1 0 0 1 40 700 Tm <%x> Tj ET\n/X1 Do\nBT 1 0 0 1 40 500 Tm <%x> Tj ET\n", d1, d3))
	d.want = []string{w1, w2, w3}
	return d, rebound
}

func runExtract(c *hx.Ctx) {
	for i := 0; i < c.N(400, 12000); i++ {
		r := c.Rng.Fork(uint64(9700000 + i))
		d := genExtDoc(r)
		extCase(c, d, true)
		c.Case(fmt.Sprintf("ext%d/%s", i, firstNs(string(d.content), 60)), true)
		if d.clean {
			c.Count("ext-clean")
		} else {
			c.Count("ext-quirky")
		}
		if d.hasDiffs {
			c.Count("ext-with-differences-font")
		}
		if len(d.objs) > 0 && bytes.Contains(d.content, []byte(" Do")) {
			c.Count("ext-with-forms")
		}
	}
	// a form that inherits the font its caller selected
	for i := 0; i < c.N(60, 1500); i++ {
		r := c.Rng.Fork(uint64(9800000 + i))
		d, rebound := genInheritDoc(r)
		d.key = "C07/ext-inherited-font"
		if rebound {
			d.key = "C07/ext-inherited-font-name-rebound"
			c.Count("ext-inherit-name-rebound")
		} else {
			c.Count("ext-inherit")
		}
		extCase(c, d, true)
		c.Case(fmt.Sprintf("extinh%d", i), true)
	}
}
