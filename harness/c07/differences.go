package c07

import (
	"fmt"
	"sort"
	"strconv"
	"strings"

	"github.com/tsawler/tabula/font"
	"golang.org/x/text/unicode/norm"

	"verifharness/hx"
)

// /Differences of a simple font's /Encoding dictionary (ISO 32000-1 9.6.6.1; tabula fix
// b3a0e07, was finding C01/font-text-differences).
//
// "The font specifies" for a simple font without /ToUnicode: code b shows the glyph the
// /Differences array names for b - the array is a list of runs `code /name /name ...`,
// consecutive names take consecutive codes, a later run naming a code again decides - and
// that glyph's character by the Adobe Glyph List; codes the array does not name show what the
// base encoding says. A /ToUnicode CMap, where present, decides alone.
//
// The package carries part of the Adobe Glyph List. What it does with a name it does not
// know is part of the repaired behaviour, not of the PDF specification: the code keeps the
// base encoding's character (no text is invented). The oracles below demand: a name the
// package knows gives the Adobe Glyph List's character (aglRef, typed from glyphlist.txt
// independently of the package); a name it does not know leaves the base encoding's character.

// aglRef: an excerpt of the Adobe Glyph List (glyphlist.txt 2.0), name -> allowed values.
// Omega/Delta/mu: glyphlist.txt gives the symbol (U+2126, U+2206, U+00B5), the Adobe Glyph
// List For New Fonts the Greek letter; both are accepted where they differ (NFC maps U+2126
// to U+03A9 anyway).
var aglRef = map[string][]rune{
	"space": {0x20}, "exclam": {0x21}, "quotedbl": {0x22}, "numbersign": {0x23}, "dollar": {0x24}, "percent": {0x25},
	"ampersand": {0x26}, "quotesingle": {0x27}, "parenleft": {0x28}, "parenright": {0x29}, "asterisk": {0x2A}, "plus": {0x2B},
	"comma": {0x2C}, "hyphen": {0x2D}, "period": {0x2E}, "slash": {0x2F},
	"zero": {0x30}, "one": {0x31}, "two": {0x32}, "three": {0x33}, "four": {0x34}, "five": {0x35}, "six": {0x36}, "seven": {0x37},
	"eight": {0x38}, "nine": {0x39}, "colon": {0x3A}, "semicolon": {0x3B}, "less": {0x3C}, "equal": {0x3D}, "greater": {0x3E},
	"question": {0x3F}, "at": {0x40}, "bracketleft": {0x5B}, "backslash": {0x5C}, "bracketright": {0x5D}, "asciicircum": {0x5E},
	"underscore": {0x5F}, "grave": {0x60}, "braceleft": {0x7B}, "bar": {0x7C}, "braceright": {0x7D}, "asciitilde": {0x7E},
	"exclamdown": {0xA1}, "cent": {0xA2}, "sterling": {0xA3}, "currency": {0xA4}, "yen": {0xA5}, "brokenbar": {0xA6},
	"section": {0xA7}, "dieresis": {0xA8}, "copyright": {0xA9}, "ordfeminine": {0xAA}, "guillemotleft": {0xAB},
	"logicalnot": {0xAC}, "registered": {0xAE}, "macron": {0xAF}, "degree": {0xB0}, "plusminus": {0xB1},
	"twosuperior": {0xB2}, "threesuperior": {0xB3}, "acute": {0xB4}, "mu": {0xB5, 0x3BC}, "paragraph": {0xB6},
	"periodcentered": {0xB7}, "cedilla": {0xB8}, "onesuperior": {0xB9}, "ordmasculine": {0xBA}, "guillemotright": {0xBB},
	"onequarter": {0xBC}, "onehalf": {0xBD}, "threequarters": {0xBE}, "questiondown": {0xBF},
	"Agrave": {0xC0}, "Aacute": {0xC1}, "Acircumflex": {0xC2}, "Atilde": {0xC3}, "Adieresis": {0xC4}, "Aring": {0xC5},
	"AE": {0xC6}, "Ccedilla": {0xC7}, "Egrave": {0xC8}, "Eacute": {0xC9}, "Ecircumflex": {0xCA}, "Edieresis": {0xCB},
	"Igrave": {0xCC}, "Iacute": {0xCD}, "Icircumflex": {0xCE}, "Idieresis": {0xCF}, "Eth": {0xD0}, "Ntilde": {0xD1},
	"Ograve": {0xD2}, "Oacute": {0xD3}, "Ocircumflex": {0xD4}, "Otilde": {0xD5}, "Odieresis": {0xD6}, "multiply": {0xD7},
	"Oslash": {0xD8}, "Ugrave": {0xD9}, "Uacute": {0xDA}, "Ucircumflex": {0xDB}, "Udieresis": {0xDC}, "Yacute": {0xDD},
	"Thorn": {0xDE}, "germandbls": {0xDF},
	"agrave": {0xE0}, "aacute": {0xE1}, "acircumflex": {0xE2}, "atilde": {0xE3}, "adieresis": {0xE4}, "aring": {0xE5},
	"ae": {0xE6}, "ccedilla": {0xE7}, "egrave": {0xE8}, "eacute": {0xE9}, "ecircumflex": {0xEA}, "edieresis": {0xEB},
	"igrave": {0xEC}, "iacute": {0xED}, "icircumflex": {0xEE}, "idieresis": {0xEF}, "eth": {0xF0}, "ntilde": {0xF1},
	"ograve": {0xF2}, "oacute": {0xF3}, "ocircumflex": {0xF4}, "otilde": {0xF5}, "odieresis": {0xF6}, "divide": {0xF7},
	"oslash": {0xF8}, "ugrave": {0xF9}, "uacute": {0xFA}, "ucircumflex": {0xFB}, "udieresis": {0xFC}, "yacute": {0xFD},
	"thorn": {0xFE}, "ydieresis": {0xFF},
	"dotlessi": {0x131}, "Lslash": {0x141}, "lslash": {0x142}, "OE": {0x152}, "oe": {0x153}, "Scaron": {0x160},
	"scaron": {0x161}, "Ydieresis": {0x178}, "Zcaron": {0x17D}, "zcaron": {0x17E}, "florin": {0x192},
	"circumflex": {0x2C6}, "caron": {0x2C7}, "breve": {0x2D8}, "dotaccent": {0x2D9}, "ring": {0x2DA}, "ogonek": {0x2DB},
	"tilde": {0x2DC}, "hungarumlaut": {0x2DD},
	"alpha": {0x3B1}, "beta": {0x3B2}, "gamma": {0x3B3}, "pi": {0x3C0}, "Omega": {0x2126, 0x3A9}, "Delta": {0x2206, 0x394},
	"endash": {0x2013}, "emdash": {0x2014}, "quoteleft": {0x2018}, "quoteright": {0x2019}, "quotesinglbase": {0x201A},
	"quotedblleft": {0x201C}, "quotedblright": {0x201D}, "quotedblbase": {0x201E}, "dagger": {0x2020}, "daggerdbl": {0x2021},
	"bullet": {0x2022}, "ellipsis": {0x2026}, "perthousand": {0x2030}, "guilsinglleft": {0x2039}, "guilsinglright": {0x203A},
	"fraction": {0x2044}, "Euro": {0x20AC}, "trademark": {0x2122}, "partialdiff": {0x2202}, "product": {0x220F},
	"summation": {0x2211}, "minus": {0x2212}, "radical": {0x221A}, "infinity": {0x221E}, "integral": {0x222B},
	"approxequal": {0x2248}, "notequal": {0x2260}, "lessequal": {0x2264}, "greaterequal": {0x2265}, "lozenge": {0x25CA},
	"fi": {0xFB01}, "fl": {0xFB02},
}

func init() {
	for c := 'A'; c <= 'Z'; c++ {
		aglRef[string(c)] = []rune{c}
		aglRef[string(c+32)] = []rune{c + 32}
	}
}

// names the Adobe Glyph List does not have (no Unicode is specified for them by name)
var notAGL = []string{".notdef", "g17", "G205", "glyph42", "cid00031", "euro", "EURO", "Eacut", "eacutee", "a1b", "uni20AC", "u20AC", "u1F600", "space.alt", "A_B", "", "Euro#", "afii", "index12"}

func sortedAGL() []string {
	ns := make([]string, 0, len(aglRef))
	for n := range aglRef {
		ns = append(ns, n)
	}
	sort.Strings(ns)
	return ns
}

// glyphOf asks the package's glyph list for a name through its public constructor: code 0 of
// WinAnsiEncoding is unmapped (0), so a non-zero answer is the glyph list's.
func glyphOf(name string) (r rune, panicked string) {
	panicked = hx.Safe(func() {
		r = font.NewCustomEncodingFromGlyphs(font.WinAnsiEncoding, map[byte]string{0: name}).Decode(0)
	})
	return
}

// runGlyphs: every name of the excerpt, and names outside the list, through the glyph list.
func runGlyphs(c *hx.Ctx) {
	names := append(sortedAGL(), notAGL...)
	for _, n := range names {
		k := kase("glyph", "name", hx.HexS(n))
		r, p := glyphOf(n)
		if p != "" {
			c.Check("C07/panic", false, k, func() string { return "NewCustomEncodingFromGlyphs panicked: " + p })
			continue
		}
		res := "-"
		if r != 0 {
			res = strconv.FormatInt(int64(r), 16)
		}
		c.Op("c07.glyph "+hx.HexS(n), res)
		allowed, listed := aglRef[n]
		switch {
		case listed && r != 0:
			ok := false
			for _, a := range allowed {
				ok = ok || a == r
			}
			c.Check("C07/glyph-name-vs-agl", ok, k, func() string {
				return fmt.Sprintf("glyph name /%s: the package's list gives U+%04X, the Adobe Glyph List %s", n, r, runesC(allowed))
			})
			c.Count("glyph-known")
		case listed:
			c.Count("glyph-agl-name-not-in-package-list")
		default:
			c.Check("C07/glyph-name-invented", r == 0, k, func() string {
				return fmt.Sprintf("/%s is not a name of the Adobe Glyph List; the package maps it to U+%04X", n, r)
			})
			c.Count("glyph-unknown")
		}
		c.Case("glyph"+n, r != 0)
	}
}

func replayGlyph(c *hx.Ctx, k map[string]interface{}) {
	n := string(unhex(k["name"]))
	r, p := glyphOf(n)
	if p != "" {
		c.Check("C07/panic", false, k, func() string { return "NewCustomEncodingFromGlyphs panicked: " + p })
		return
	}
	if allowed, listed := aglRef[n]; listed && r != 0 {
		ok := false
		for _, a := range allowed {
			ok = ok || a == r
		}
		c.Check("C07/glyph-name-vs-agl", ok, k, func() string { return fmt.Sprintf("/%s -> U+%04X", n, r) })
	} else if !listed {
		c.Check("C07/glyph-name-invented", r == 0, k, func() string { return fmt.Sprintf("/%s -> U+%04X", n, r) })
	}
}

// ---- Differences arrays as authored ------------------------------------------------------

type diffRun struct {
	code  int
	names []string
}

// renderDiffs: the array text.
func renderDiffs(runs []diffRun) string {
	var parts []string
	for _, rn := range runs {
		parts = append(parts, strconv.Itoa(rn.code))
		for _, n := range rn.names {
			parts = append(parts, pdfName(n))
		}
	}
	return "[" + strings.Join(parts, " ") + "]"
}

// parseDiffText reads an array text of integers and names back into runs (names before any
// integer form a run at code 0); ok = false when the text holds anything else.
func parseDiffText(s string) (runs []diffRun, ok bool) {
	s = strings.TrimSpace(s)
	if !strings.HasPrefix(s, "[") || !strings.HasSuffix(s, "]") {
		return nil, false
	}
	cur := -1
	for _, tok := range strings.Fields(s[1 : len(s)-1]) {
		if strings.HasPrefix(tok, "/") {
			name := tok[1:]
			var sb strings.Builder
			for i := 0; i < len(name); i++ {
				if name[i] == '#' && i+3 <= len(name) {
					if v, err := strconv.ParseUint(name[i+1:i+3], 16, 8); err == nil {
						sb.WriteByte(byte(v))
						i += 2
						continue
					}
				}
				sb.WriteByte(name[i])
			}
			if cur < 0 {
				runs = append(runs, diffRun{code: 0})
				cur = len(runs) - 1
			}
			runs[cur].names = append(runs[cur].names, sb.String())
			continue
		}
		v, err := strconv.Atoi(tok)
		if err != nil {
			return nil, false
		}
		runs = append(runs, diffRun{code: v})
		cur = len(runs) - 1
	}
	return runs, true
}

// diffNames: code -> glyph name as 9.6.6.1 reads the runs (consecutive codes, the last run
// naming a code decides, codes outside a byte name nothing).
func diffNames(runs []diffRun) map[byte]string {
	m := map[byte]string{}
	for _, rn := range runs {
		for i, n := range rn.names {
			if c := rn.code + i; c >= 0 && c <= 255 {
				m[byte(c)] = n
			}
		}
	}
	return m
}

// specified character of a glyph name: the Adobe Glyph List's, if the package knows the name;
// ok = false: the base encoding decides (name not in the package's list).
func glyphSpec(name string) (rune, bool) {
	r, p := glyphOf(name)
	if p != "" || r == 0 {
		return 0, false
	}
	if allowed, listed := aglRef[name]; listed {
		return allowed[0], true
	}
	return r, true // a name outside the excerpt that the package maps: reported by C07/glyph-name-invented
}

// genDiffRuns: 1-4 runs over the byte range. Names: Adobe Glyph List names (mostly ones the
// package knows), sometimes names outside the list; sometimes a later run names a code again.
func genDiffRuns(r *hx.Rng, showable []byte) []diffRun {
	agl := sortedAGL()
	var runs []diffRun
	for n := r.Range(1, 4); n > 0; n-- {
		rn := diffRun{code: int(hx.Pick(r, showable))}
		if len(runs) > 0 && r.Chance(1, 4) { // name codes of an earlier run again
			rn.code = runs[r.Intn(len(runs))].code + r.Intn(2)
		}
		for k := r.Range(1, 6); k > 0; k-- {
			switch {
			case r.Chance(1, 6):
				rn.names = append(rn.names, hx.Pick(r, notAGL[:15]))
			default:
				rn.names = append(rn.names, hx.Pick(r, agl))
			}
		}
		runs = append(runs, rn)
	}
	return runs
}

// ---- Font.DecodeString with Differences --------------------------------------------------

func runDifferences(c *hx.Ctx) {
	runGlyphs(c)
	encNames := []string{"WinAnsiEncoding", "MacRomanEncoding", "PDFDocEncoding", "StandardEncoding", "SymbolEncoding", "ZapfDingbatsEncoding", "", "Identity-H", "Custom"}
	agl := sortedAGL()
	for i := 0; i < c.N(500, 12000); i++ {
		r := c.Rng.Fork(uint64(9600000 + i))
		enc := hx.Pick(r, encNames)
		diffs := map[byte]rune{}
		for n := r.Range(1, 12); n > 0; n-- {
			code := byte(r.Range(0, 255))
			if r.Chance(1, 2) {
				code = byte(r.Range(0x20, 0x7E))
			}
			switch r.Intn(8) {
			case 0:
				diffs[code] = randScalar(r)
			case 1:
				diffs[code] = rune(r.Range(0x300, 0x36F)) // a combining mark: NFC may compose it
			case 2:
				diffs[code] = hx.Pick(r, []rune{0, 0xD800, 0xDFFF, 0x110000, 0xFFFD, 0xFEFF})
			default:
				diffs[code] = aglRef[hx.Pick(r, agl)][0]
			}
		}
		var codes []byte
		for b := range diffs {
			codes = append(codes, b)
		}
		sort.Slice(codes, func(i, j int) bool { return codes[i] < codes[j] })
		var data []byte
		for n := r.Range(0, 14); n > 0; n-- {
			if r.Chance(2, 3) {
				data = append(data, hx.Pick(r, codes))
			} else {
				data = append(data, byte(r.U64()))
			}
		}
		if r.Chance(1, 12) {
			data = append(hx.Pick(r, [][]byte{{0xFE, 0xFF}, {0xFF, 0xFE}}), data...)
		}
		isBOM := len(data) >= 2 && ((data[0] == 0xFE && data[1] == 0xFF) || (data[0] == 0xFF && data[1] == 0xFE))
		if r.Chance(1, 5) { // a ToUnicode CMap beside the differences decides alone
			m := genMapSmall(r)
			p := hx.Pick(r, policyForms)
			prog := render(m, p)
			var d2 []byte
			var sb strings.Builder
			for _, e := range sampleEntries(r, m.entriesFor(p), 6) {
				d2 = append(d2, codeBytes(e.code, m.width)...)
				sb.WriteString(string(e.text))
			}
			want := norm.NFC.String(sb.String())
			fontCase(c, prog, true, enc, diffs, d2, "C07/differences-tounicode-precedence", &want, len(m.entries()) <= 40)
			c.Case("diffcm"+string(d2)+string(prog[:min(len(prog), 40)]), true)
			c.Count("font-differences-with-tounicode")
			continue
		}
		var want *string
		key := ""
		if enc != "" && !isBOM {
			// code by code: the difference where the map has the code, else the base encoding
			// (tables checked against Annex D by C07/encoding-vs-ref-*); rune 0 = unmapped
			base := font.GetEncoding(enc)
			var rs []rune
			for _, b := range data {
				rn, ok := diffs[b]
				if !ok {
					rn = base.Decode(b)
				}
				if rn != 0 {
					rs = append(rs, rn)
				}
			}
			w := norm.NFC.String(string(rs))
			want, key = &w, "C07/differences-override"
		}
		fontCase(c, nil, false, enc, diffs, data, key, want, true)
		c.Case("diff"+enc+diffsField(diffs)+string(data), len(data) > 0)
		c.Count("font-differences")
	}
}
