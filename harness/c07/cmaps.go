package c07

import (
	"fmt"
	"sort"
	"strings"
	"unicode/utf16"

	"github.com/tsawler/tabula/core"
	"github.com/tsawler/tabula/font"

	"verifharness/hx"
)

// ---- logical code -> text maps ---------------------------------------------------

type entry struct {
	code uint32
	text []rune
}

// run = consecutive codes whose texts differ only by an increment of the last UTF-16 unit
type run struct {
	lo    uint32
	texts [][]rune
}

type lmap struct {
	width int
	runs  []run
}

// overridden returns the code in the middle of a run of at least two codes and the text a
// later bfchar entry gives it (policy "override": the range is written first with its natural
// progression, then a bfchar redefines that one code; the later, direct definition is the
// specified text).
func overridden(r run) (uint32, []rune, bool) {
	if len(r.texts) < 2 {
		return 0, nil, false
	}
	k := len(r.texts) / 2
	return r.lo + uint32(k), append([]rune{'#'}, r.texts[k]...), true
}

// entriesFor is the specified code->text map of the program render(m, p).
func (m *lmap) entriesFor(p policy) []entry {
	es := m.entries()
	if p.form != "override" {
		return es
	}
	alt := map[uint32][]rune{}
	for _, r := range m.runs {
		if c, t, ok := overridden(r); ok {
			alt[c] = t
		}
	}
	for i := range es {
		if t, ok := alt[es[i].code]; ok {
			es[i].text = t
		}
	}
	return es
}

func (m *lmap) entries() []entry {
	var es []entry
	for _, r := range m.runs {
		for i, t := range r.texts {
			es = append(es, entry{r.lo + uint32(i), t})
		}
	}
	return es
}

// startText returns a text whose last UTF-16 unit can be incremented n-1 times and stay a
// well-formed string.
func startText(r *hx.Rng, n int) []rune {
	lastBMP := func() rune {
		if r.Bool() {
			return rune(r.Range(0x21, 0xD7FF-n))
		}
		return rune(r.Range(0xE000, 0xFDFF-n))
	}
	lastAstral := func() rune {
		return rune(0x10000 + r.Intn(0x400)*0x400 + r.Intn(0x400-n))
	}
	any := func() rune {
		for {
			x := randScalar(r)
			if x != 0xFEFF && x >= 0x20 {
				return x
			}
		}
	}
	switch r.Intn(8) {
	case 0: // plain ASCII/Latin
		return []rune{rune(r.Range(0x21, 0x7E-min(n, 0x40)))}
	case 1:
		return []rune{lastBMP()}
	case 2: // supplementary plane
		return []rune{lastAstral()}
	case 3: // ligature expansion: f f, f f i
		return [][]rune{{'f', rune(r.Range(0x61, 0x7A-min(n, 20)))}, {'f', 'f', rune(r.Range(0x61, 0x7A-min(n, 20)))}}[r.Intn(2)]
	case 4: // base + combining mark (not NFC as written)
		return []rune{rune(r.Range('a', 'z')), rune(r.Range(0x300, 0x36F-min(n, 0x60)))}
	case 5: // multi-character, ends in astral
		return []rune{any(), lastAstral()}
	case 6: // precomposed + several characters
		return []rune{0xE9, any(), any(), lastBMP()}
	default:
		return []rune{any(), lastBMP()}
	}
}

func bumpLastUnit(t []rune, k int) []rune {
	us := utf16.Encode(t)
	us[len(us)-1] += uint16(k)
	return utf16.Decode(us)
}

func genMap(r *hx.Rng) *lmap { return genMapW(r, r.Range(1, 4)) }

// genMapW: a generated code->text map whose codes are w bytes wide.
func genMapW(r *hx.Rng, w int) *lmap {
	var target int
	switch r.Intn(10) {
	case 0, 1, 2, 3, 4:
		target = r.Range(1, 8)
	case 5, 6, 7:
		target = r.Range(9, 40)
	case 8:
		target = r.Range(41, 120)
	default:
		target = r.Range(121, 300)
	}
	if w == 1 && target > 200 {
		target = 200
	}
	m := &lmap{width: w}
	used := map[uint32]bool{}
	var space uint64 = 1 << (8 * uint(w))
	n := 0
	for tries := 0; n < target && tries < 20*target+100; tries++ {
		l := 1
		if r.Chance(1, 2) {
			l = r.Range(2, 24)
		}
		if l > target-n {
			l = target - n
		}
		var lo uint32
		switch {
		case w == 1:
			lo = uint32(r.Intn(256))
		case r.Chance(1, 4): // extremes of the code space
			lo = uint32(space - 1 - uint64(r.Intn(300)))
		case r.Chance(1, 3):
			lo = uint32(r.Intn(600))
		default:
			lo = uint32(r.U64() % space)
		}
		if int(lo&0xFF)+l-1 > 0xFF { // a range may only vary in its last byte
			l = 0x100 - int(lo&0xFF)
		}
		ok := true
		for i := 0; i < l; i++ {
			if used[lo+uint32(i)] {
				ok = false
			}
		}
		if !ok {
			continue
		}
		st := startText(r, l)
		rn := run{lo: lo}
		for i := 0; i < l; i++ {
			used[lo+uint32(i)] = true
			rn.texts = append(rn.texts, bumpLastUnit(st, i))
		}
		m.runs = append(m.runs, rn)
		n += l
	}
	sort.Slice(m.runs, func(i, j int) bool { return m.runs[i].lo < m.runs[j].lo })
	return m
}

// ---- independent CMap writer (ISO 32000-1 9.10.3, Adobe TN 5014) --------------------

type policy struct {
	name    string
	form    string // bfchar | offset | array | mixed
	oneLine bool   // no line breaks at all
	tight   bool   // no white space between tokens either
	wrapArr int    // break arrays after this many elements (0 = never)
	crlf    bool
	upper   bool
}

var policyForms = []policy{
	{name: "bfchar-lines", form: "bfchar"},
	{name: "bfchar-oneline", form: "bfchar", oneLine: true},
	{name: "bfchar-tight", form: "bfchar", oneLine: true, tight: true},
	{name: "bfrange-offset-lines", form: "offset"},
	{name: "bfrange-offset-oneline", form: "offset", oneLine: true},
	{name: "bfrange-array-lines", form: "array"},
	{name: "bfrange-array-multiline", form: "array", wrapArr: 3},
	{name: "bfrange-array-oneline", form: "array", oneLine: true},
	{name: "mixed-lines", form: "mixed"},
	{name: "mixed-multiline", form: "mixed", wrapArr: 2},
	{name: "bfrange-then-bfchar-override", form: "override"},
}

type writer struct {
	sb  strings.Builder
	p   policy
	eol string
	sep string
}

func (w *writer) hex(b []byte) string {
	const lo, up = "0123456789abcdef", "0123456789ABCDEF"
	d := lo
	if w.p.upper {
		d = up
	}
	out := make([]byte, 0, 2*len(b)+2)
	out = append(out, '<')
	for _, x := range b {
		out = append(out, d[x>>4], d[x&15])
	}
	return string(append(out, '>'))
}

func (w *writer) code(c uint32, width int) string {
	b := make([]byte, width)
	for i := width - 1; i >= 0; i-- {
		b[i] = byte(c)
		c >>= 8
	}
	return w.hex(b)
}

func (w *writer) text(t []rune) string { return w.hex(utf16Bytes(t, true)) }

// line writes tokens separated by sep and ends the line.
func (w *writer) line(tokens ...string) {
	w.sb.WriteString(strings.Join(tokens, w.sep))
	w.sb.WriteString(w.eol)
}

func render(m *lmap, p policy) []byte {
	w := &writer{p: p, eol: "\n", sep: " "}
	if p.crlf {
		w.eol = "\r\n"
	}
	if p.oneLine {
		w.eol = " "
	}
	if p.tight {
		w.sep = ""
	}
	w.line("/CIDInit /ProcSet findresource begin")
	w.line("12 dict begin")
	w.line("begincmap")
	w.line("/CIDSystemInfo << /Registry (Adobe) /Ordering (UCS) /Supplement 0 >> def")
	w.line("/CMapName /Adobe-Identity-UCS def")
	w.line("/CMapType 2 def")
	w.line("1 begincodespacerange")
	w.line(w.code(0, m.width), w.code(0xFFFFFFFF, m.width))
	w.line("endcodespacerange")

	// a section of at most 100 items, as the CMap rules require
	section := func(kind string, items []func()) {
		for len(items) > 0 {
			n := min(len(items), 100)
			w.line(fmt.Sprintf("%d begin%s", n, kind))
			for _, it := range items[:n] {
				it()
			}
			w.line("end" + kind)
			items = items[n:]
		}
	}
	bfcharItem := func(e entry) func() {
		return func() { w.line(w.code(e.code, m.width), w.text(e.text)) }
	}
	offsetItem := func(r run) func() {
		return func() {
			w.line(w.code(r.lo, m.width), w.code(r.lo+uint32(len(r.texts))-1, m.width), w.text(r.texts[0]))
		}
	}
	arrayItem := func(r run) func() {
		return func() {
			toks := []string{w.code(r.lo, m.width), w.code(r.lo+uint32(len(r.texts))-1, m.width), "["}
			for i, t := range r.texts {
				toks = append(toks, w.text(t))
				if p.wrapArr > 0 && (i+1)%p.wrapArr == 0 && i+1 < len(r.texts) {
					w.line(toks...)
					toks = nil
				}
			}
			toks = append(toks, "]")
			w.line(toks...)
		}
	}
	switch p.form {
	case "bfchar":
		var items []func()
		for _, e := range m.entries() {
			items = append(items, bfcharItem(e))
		}
		section("bfchar", items)
	case "offset":
		var items []func()
		for _, r := range m.runs {
			items = append(items, offsetItem(r))
		}
		section("bfrange", items)
	case "array":
		var items []func()
		for _, r := range m.runs {
			items = append(items, arrayItem(r))
		}
		section("bfrange", items)
	case "override":
		var ranges, chars []func()
		for _, r := range m.runs {
			ranges = append(ranges, offsetItem(r))
			if c, t, ok := overridden(r); ok {
				chars = append(chars, bfcharItem(entry{c, t}))
			}
		}
		section("bfrange", ranges)
		section("bfchar", chars)
	case "mixed":
		var chars, ranges []func()
		for i, r := range m.runs {
			switch {
			case len(r.texts) == 1 && i%2 == 0:
				chars = append(chars, bfcharItem(entry{r.lo, r.texts[0]}))
			case i%3 == 0:
				ranges = append(ranges, arrayItem(r))
			default:
				ranges = append(ranges, offsetItem(r))
			}
		}
		section("bfchar", chars)
		section("bfrange", ranges)
	}
	w.line("endcmap")
	w.line("CMapName currentdict /CMap defineresource pop")
	w.line("end")
	w.line("end")
	return []byte(w.sb.String())
}

// polFlags / runsField: the writer's inputs on the op line of c07.render (the Lean copy of
// the writer must produce the same program byte for byte).
func polFlags(p policy) string {
	s := ""
	if p.oneLine {
		s += "o"
	}
	if p.tight {
		s += "t"
	}
	if p.crlf {
		s += "c"
	}
	if p.upper {
		s += "u"
	}
	if s == "" {
		s = "-"
	}
	return fmt.Sprintf("%s/%d", s, p.wrapArr)
}

func runsField(m *lmap) string {
	if len(m.runs) == 0 {
		return "~"
	}
	rs := make([]string, len(m.runs))
	for i, r := range m.runs {
		ts := make([]string, len(r.texts))
		for j, t := range r.texts {
			ts[j] = runesC(t)
		}
		rs[i] = fmt.Sprintf("%x:%s", r.lo, strings.Join(ts, "/"))
	}
	return strings.Join(rs, ";")
}

func entriesField(es []entry) string {
	parts := make([]string, len(es))
	for i, e := range es {
		parts[i] = fmt.Sprintf("%x:%s", e.code, runesC(e.text))
	}
	return strings.Join(parts, ";")
}

func codeBytes(c uint32, width int) []byte {
	b := make([]byte, width)
	for i := width - 1; i >= 0; i-- {
		b[i] = byte(c)
		c >>= 8
	}
	return b
}

// ---- implementation adapters ---------------------------------------------------------

func parseCMap(prog []byte) (cm *font.CMap, panicked string) {
	panicked = hx.Safe(func() {
		cm, _ = font.ParseToUnicodeCMap(&core.Stream{Dict: core.Dict{}, Data: prog})
	})
	return
}

func stateString(cm *font.CMap) string {
	bw, abw, chars, ranges := font.VerifCMapState(cm)
	cs := make([]string, len(chars))
	for i, ch := range chars {
		cs[i] = fmt.Sprintf("%x:%s", ch.Code, scalarsSep(ch.Text, ","))
	}
	rs := make([]string, len(ranges))
	for i, r := range ranges {
		us := make([]rune, len(r.Units))
		for j, u := range r.Units {
			us[j] = rune(u)
		}
		rs[i] = fmt.Sprintf("%x:%x:%x:%s", r.Start, r.End, r.StartUnicode, runesC(us))
	}
	return fmt.Sprintf("bw=%d abw=%d chars=%s ranges=%s", bw, abw, strings.Join(cs, ";"), strings.Join(rs, ";"))
}

// cmapOracle: looking up the authored codes in the rendered program returns the authored text.
func cmapOracle(c *hx.Ctx, prog []byte, width int, es []entry, pname string, ops bool) {
	cmapOracleD(c, prog, width, es, pname, pname, ops)
}

// cmapOracleD: pname is the oracle key's policy class, desc the full description of how the
// program was written (for the failure detail).
func cmapOracleD(c *hx.Ctx, prog []byte, width int, es []entry, pname, desc string, ops bool) {
	var data []byte
	var want strings.Builder
	for _, e := range es {
		data = append(data, codeBytes(e.code, width)...)
		want.WriteString(string(e.text))
	}
	k := kase("cmap", "prog", hx.Hex(prog), "width", width, "codes", hx.Hex(data), "want", hx.HexS(want.String()), "policy", pname)
	cm, p := parseCMap(prog)
	if p != "" || cm == nil {
		c.Check("C07/panic", false, k, func() string { return "ParseToUnicodeCMap panicked or failed: " + p })
		return
	}
	var got string
	if p := hx.Safe(func() { got = cm.LookupString(data) }); p != "" {
		c.Check("C07/panic", false, k, func() string { return "LookupString panicked: " + p })
		return
	}
	c.Check("C07/cmap-lookup-"+pname, got == want.String(), k, func() string {
		// name the first code whose own lookup is wrong
		for _, e := range es {
			g := cm.LookupString(codeBytes(e.code, width))
			if g != string(e.text) {
				return fmt.Sprintf("policy %s, %d-byte codes: code %X is specified as %s but decodes to %s", desc, width, e.code, runesC(e.text), scalarsSep(g, ","))
			}
		}
		return fmt.Sprintf("policy %s: every code decodes alone but the %d-code string decodes to %q, want %q", desc, len(es), firstNs(got, 12), firstNs(want.String(), 12))
	})
	checkOutput(c, "LookupString", got, k, false)
	if ops {
		c.Op("c07.cmapstate "+hx.Hex(prog), stateString(cm))
		c.Op(fmt.Sprintf("c07.cmap %s %s", hx.Hex(prog), hx.Hex(data)), out(got))
	}
}

func replayCMap(c *hx.Ctx, k map[string]interface{}) {
	prog, data, want := unhex(k["prog"]), unhex(k["codes"]), string(unhex(k["want"]))
	pname, _ := k["policy"].(string)
	cm, p := parseCMap(prog)
	if p != "" || cm == nil {
		c.Check("C07/panic", false, k, func() string { return "ParseToUnicodeCMap panicked or failed: " + p })
		return
	}
	var got string
	if p := hx.Safe(func() { got = cm.LookupString(data) }); p != "" {
		c.Check("C07/panic", false, k, func() string { return "LookupString panicked: " + p })
		return
	}
	c.Check("C07/cmap-lookup-"+pname, got == want, k, func() string {
		return fmt.Sprintf("LookupString = %s, specified %s", scalarsSep(firstNs(got, 16), ","), scalarsSep(firstNs(want, 16), ","))
	})
}

func sampleEntries(r *hx.Rng, es []entry, n int) []entry {
	cp := append([]entry(nil), es...)
	hx.Shuffle(r, cp)
	if len(cp) > n {
		cp = cp[:n]
	}
	return cp
}

func runCMaps(c *hx.Ctx) {
	for i := 0; i < c.N(200, 6000); i++ {
		r := c.Rng.Fork(uint64(3000000 + i))
		m := genMap(r)
		es := m.entries()
		for pi, p := range policyForms {
			p.crlf = r.Chance(1, 2)
			p.upper = r.Chance(1, 2)
			prog := render(m, p)
			sample := sampleEntries(c.Rng.Fork(uint64(3000000+i)), m.entriesFor(p), 64)
			// correspondence ops on every program of small maps, on a rotating policy for large ones
			ops := len(es) <= 40 || (i+pi)%len(policyForms) == 0
			cmapOracle(c, prog, m.width, sample, p.name, ops)
			if ops {
				// the Lean copy of this writer (Model/CMapRender.lean), which the round-trip
				// theorems quantify over, renders the same program and specifies the same map
				c.Op(fmt.Sprintf("c07.render %s %s %d %s", polFlags(p), p.form, m.width, runsField(m)), hx.Hex(prog))
				c.Op(fmt.Sprintf("c07.entries %s %s", p.form, runsField(m)), entriesField(m.entriesFor(p)))
			}
			c.Count("policy-" + p.name)
			if p.crlf {
				c.Count("eol-crlf")
			} else {
				c.Count("eol-lf")
			}
		}
		c.Count(fmt.Sprintf("width-%d", m.width))
		switch {
		case len(es) <= 8:
			c.Count("entries-1..8")
		case len(es) <= 40:
			c.Count("entries-9..40")
		case len(es) <= 120:
			c.Count("entries-41..120")
		default:
			c.Count("entries-121..300")
		}
		c.Case(fmt.Sprintf("map%d/%d/%v", m.width, len(es), es[0]), true)
	}
}

// ---- token-level functions --------------------------------------------------------------

func runTokens(c *hx.Ctx) {
	alphabet := []byte("0123456789abcdefABCDEF")
	junk := []byte(" \t\r\ngG-+_xX<[")
	for i := 0; i < c.N(1200, 30000); i++ {
		r := c.Rng.Fork(uint64(4000000 + i))
		n := r.Range(0, 14)
		if r.Chance(1, 20) {
			n = r.Range(15, 40)
		}
		tok := make([]byte, n)
		for j := range tok {
			switch {
			case r.Chance(1, 25):
				tok[j] = hx.Pick(r, junk)
			case r.Chance(1, 6):
				tok[j] = "dD8fFeE0"[r.Intn(8)]
			default:
				tok[j] = hx.Pick(r, alphabet)
			}
		}
		s := string(tok)
		u, err := font.VerifHexToUnicode(s)
		if err != nil {
			c.Op("c07.h2u "+hx.Hex(tok), "err")
		} else {
			c.Op("c07.h2u "+hx.Hex(tok), "ok "+out(u))
			checkOutput(c, "hexToUnicode", u, kase("malformed", "prog", hx.HexS("1 beginbfchar <01> <"+s+"> endbfchar"), "data", "01"), false)
		}
		v, err := font.VerifParseHexToUint32(s)
		if err != nil {
			c.Op("c07.hex32 "+hx.Hex(tok), "err")
		} else {
			c.Op("c07.hex32 "+hx.Hex(tok), fmt.Sprintf("ok %d", v))
		}
		c.Case("tok"+s, err == nil)
		c.Count("token")
	}
}

// ---- malformed programs --------------------------------------------------------------------

var handMade = []string{
	"",
	"begincodespacerangendcodespacerange",
	"beginbfrangendbfrange",
	"beginbfcharendbfchar",
	"1 beginbfrange\n<01> <02> ] [ <0041> ]\nendbfrange",
	"1 beginbfrange\n<01> <02> [ <0041>\nendbfrange",
	"1 beginbfrange\n<01> <02> [ <0041> <0042>\n<0043> ]\n<05> <06> <0061>\nendbfrange",
	"1 beginbfrange <01> <02> [<0041> <0042>] <05> <06> [<0043> <0044>] endbfrange",
	"1 beginbfrange\n<01> <02> <0041> <05> <06> [<0043> <0044>]\nendbfrange",
	"1 begincodespacerange\n<0000> <FFFF>\nendcodespacerange\n1 beginbfchar\n<20> <0041>\nendbfchar",
	"1 begincodespacerange\n<00> <FF>\nendcodespacerange\n1 beginbfchar\n<0020> <0041>\nendbfchar",
	"1 beginbfchar\n<41> <FEFF0042>\n<42> <FEFF>\n<43> <D800>\n<44> <D8000041>\n<45> <4>\n<46> <>\n<> <0041>\n<47> <00 41>\nendbfchar",
	"1 beginbfrange\n<00> <FF> <D7F0>\n<0100> <01FF> <FFFFFF80>\n<0200> <02FF> <DBFFDFF0>\n<0300> <0310> <0041 0042>\n<0400> <0410> <01F600>\nendbfrange",
	"1 beginbfrange\n<FFFFFFFE> <FFFFFFFF> [<0041> <0042> <0043> <0044>]\n<00000000> <00000002> [<0061> <> <0062> <zz> <0063>]\nendbfrange",
	"1 begincodespacerange\n<0000000000> <FFFFFFFFFF>\nendcodespacerange\n1 beginbfchar\n<0000000041> <0041>\nendbfchar",
	"2 beginbfchar\n<01> <0041>\nendbfchar\n1 beginbfchar\n<01> <0042>\nendbfchar 1 beginbfrange <01> <03> <0061> <02> <05> <0071> endbfrange",
	"1 begincodespacerange\n<> <>\nendcodespacerange 1 beginbfchar <01> <0041> endbfchar",
	"1 begincodespacerange\n<0> <F>\n<0000> <FFFF>\nendcodespacerange 1 beginbfchar <1> <0041> <002> <0042> endbfchar",
	"beginbfchar <01 endbfchar beginbfchar <02> <0042> endbfchar",
	"beginbfrange <01> <02>\n[\n<0041>\n\n<0042>\n]\n\v\f <03> <04> [ <00\f\n43> <0044> ]\nendbfrange",
}

func mutate(r *hx.Rng, prog []byte) []byte {
	frag := []string{"<", ">", "[", "]", " ", "\n", "\r\n", "\t", "<>", "beginbfchar", "endbfchar", "beginbfrange", "endbfrange",
		"begincodespacerange", "endcodespacerange", "0", "F", "<00>", "<FEFF>", "<D800>", "\f", "\v", "g"}
	out := append([]byte(nil), prog...)
	for k := r.Range(1, 4); k > 0; k-- {
		if len(out) == 0 {
			out = []byte(hx.Pick(r, frag))
			continue
		}
		pos := r.Intn(len(out))
		switch r.Intn(5) {
		case 0: // delete a span
			end := min(len(out), pos+r.Range(1, 12))
			out = append(out[:pos], out[end:]...)
		case 1: // insert a fragment
			f := hx.Pick(r, frag)
			out = append(out[:pos], append([]byte(f), out[pos:]...)...)
		case 2: // replace one byte by an ASCII byte
			out[pos] = byte(r.Intn(0x80))
		case 3: // truncate
			out = out[:pos]
		case 4: // duplicate a span
			end := min(len(out), pos+r.Range(1, 40))
			out = append(out[:end], append(append([]byte(nil), out[pos:end]...), out[end:]...)...)
		}
	}
	return out
}

// malformedCase: no panic, valid UTF-8 out; state and lookups compared with the model.
func malformedCase(c *hx.Ctx, prog, data []byte, width int, ops bool) {
	k := kase("malformed", "prog", hx.Hex(prog), "data", hx.Hex(data))
	cm, p := parseCMap(prog)
	if p != "" {
		c.Check("C07/panic", false, k, func() string { return "ParseToUnicodeCMap panicked: " + p })
		return
	}
	c.Check("C07/panic", true, k, nil)
	if cm == nil {
		return
	}
	var got, gotw string
	if p := hx.Safe(func() {
		got = cm.LookupString(data)
		if width > 0 {
			gotw = font.VerifLookupStringWithWidth(cm, data, width)
		}
	}); p != "" {
		c.Check("C07/panic", false, k, func() string { return "LookupString panicked: " + p })
		return
	}
	checkOutput(c, "LookupString", got, k, false)
	if ops {
		c.Op("c07.cmapstate "+hx.Hex(prog), stateString(cm))
		c.Op(fmt.Sprintf("c07.cmap %s %s", hx.Hex(prog), hx.Hex(data)), out(got))
		if width > 0 {
			c.Op(fmt.Sprintf("c07.cmapw %s %d %s", hx.Hex(prog), width, hx.Hex(data)), out(gotw))
		}
		if len(data) > 0 {
			code := uint32(data[0])
			if len(data) > 1 && data[0]&1 == 1 {
				code = code<<8 | uint32(data[1])
			}
			c.Op(fmt.Sprintf("c07.lookup %s %d", hx.Hex(prog), code), out(cm.Lookup(code)))
		}
	}
}

func runMalformed(c *hx.Ctx) {
	for i, h := range handMade {
		r := c.Rng.Fork(uint64(5000000 + i))
		for _, data := range [][]byte{{}, {1}, {1, 2, 3, 4, 5}, {0, 0x20, 0, 0x41, 0x41}, {0xFF, 0xFF, 0xFF, 0xFF, 0, 0, 0, 1}, r.Bytes(9)} {
			malformedCase(c, []byte(h), data, r.Range(1, 5), true)
		}
		c.Case("hand"+h, true)
		c.Count("malformed-handmade")
	}
	for i := 0; i < c.N(1500, 40000); i++ {
		r := c.Rng.Fork(uint64(6000000 + i))
		var prog []byte
		if r.Chance(1, 8) {
			prog = []byte(hx.Pick(r, handMade))
		} else {
			m := genMap(r)
			if len(m.entries()) > 30 {
				m.runs = m.runs[:min(len(m.runs), 6)]
			}
			p := hx.Pick(r, policyForms)
			p.crlf, p.upper = r.Bool(), r.Bool()
			prog = render(m, p)
			if r.Chance(1, 4) { // width quirks: code space wider/narrower than the codes, or absent
				s := string(prog)
				switch r.Intn(3) {
				case 0:
					s = strings.Replace(s, "begincodespacerange", "begincodespacerange <0000> <FFFF> ", 1)
				case 1:
					s = strings.Replace(s, "begincodespacerange", "xcodespacerange", 1)
				default:
					s = strings.Replace(s, "begincodespacerange", "begincodespacerange <00> <FF> ", 1)
				}
				prog = []byte(s)
			}
		}
		prog = mutate(r, prog)
		data := r.Bytes(r.Range(0, 12))
		if r.Chance(1, 2) {
			for j := range data {
				data[j] &= 0x3
			}
		}
		malformedCase(c, prog, data, r.Range(1, 5), true)
		c.Case("mal"+string(prog), true)
		c.Count("malformed-mutated")
	}
}
