package c07

import (
	"fmt"
	"strings"

	"verifharness/hx"
)

// ---- the specification of a whole program on EVERY byte string (ops c07.rprog / c07.spec / c07.spectext) ----
//
// Props/C07Arrange.lean proves, for every list of well-formed sections (no "each code once"
// hypothesis), that LookupString of the parsed program is specDecode: whole codes of the
// code-space width, the last direct definition of a code before the first offset range that
// contains it, undefined codes as the character of that number, a short remainder byte by
// byte. These ops tie the three definitions the theorems are about to the Go code:
//
//	c07.rprog <flags/wrap> <w> <sections>   -> hex of the program renderLayout writes (Lean: renderProgram)
//	c07.spec <w> <sections> <dataHex>       -> scalars of LookupString(data) of that program (Lean: specDecode)
//	c07.spectext <sections> <code>          -> scalars of Lookup(code) (Lean: specText)
//
// sections: `c=item;item|r=item;..` (`~` = none), item = c<code>:<text> | o<lo>:<t/t/..> | a<lo>:<t/t/..>.
// The data are specified codes, codes nobody defines (also surrogate and > U+10FFFF numbers) and
// a remainder shorter than a code. A second stream leaves the property's hypotheses: programs that
// define codes twice (a later bfchar entry, a second range over codes of the first, an array over
// codes of an offset range) - there the model alone says what the code does (last direct
// definition, first range), no oracle of the property applies.

func secsField(secs [][]litem) string {
	if len(secs) == 0 {
		return "~"
	}
	ss := make([]string, len(secs))
	for i, sec := range secs {
		kind := "r"
		if sec[0].kind == itemChar {
			kind = "c"
		}
		its := make([]string, len(sec))
		for j, it := range sec {
			ts := make([]string, len(it.r.texts))
			for q, t := range it.r.texts {
				ts[q] = runesC(t)
			}
			its[j] = fmt.Sprintf("%c%x:%s", "coa"[it.kind], it.r.lo, strings.Join(ts, "/"))
		}
		ss[i] = kind + "=" + strings.Join(its, ";")
	}
	return strings.Join(ss, "|")
}

// redefine adds items that define codes of m again, with other texts.
func redefine(r *hx.Rng, m *lmap, items []litem) ([]litem, string) {
	rn := m.runs[r.Intn(len(m.runs))]
	k := r.Intn(len(rn.texts))
	other := func(n int) [][]rune {
		st := startText(r, n)
		ts := make([][]rune, n)
		for j := range ts {
			ts[j] = bumpLastUnit(st, j)
		}
		return ts
	}
	switch r.Intn(4) {
	case 0: // the same code in a second bfchar entry
		return append(items, litem{itemChar, run{lo: rn.lo + uint32(k), texts: other(1)}}), "twice-bfchar"
	case 1: // a second offset range over the tail of the run
		return append(items, litem{itemOffset, run{lo: rn.lo + uint32(k), texts: other(len(rn.texts) - k)}}), "twice-offset"
	case 2: // an array over the tail of the run
		return append(items, litem{itemArray, run{lo: rn.lo + uint32(k), texts: other(len(rn.texts) - k)}}), "twice-array"
	default: // two bfchar entries for one code, both new texts
		c := rn.lo + uint32(k)
		return append(items, litem{itemChar, run{lo: c, texts: other(1)}}, litem{itemChar, run{lo: c, texts: other(1)}}), "thrice-bfchar"
	}
}

func runCMapSpec(c *hx.Ctx) {
	for i := 0; i < c.N(160, 3000); i++ {
		r := c.Rng.Fork(uint64(3600000 + i))
		var m *lmap
		switch {
		case i%3 == 0:
			m = genMapW(r, 2)
		default:
			m = genMap(r)
		}
		for len(m.entries()) > 60 { // keep the op lines short: the large maps are the layouts' business
			m = genMapW(r, m.width)
		}
		es := m.entries()
		items := genItems(r, m)
		twice := ""
		if i%2 == 1 {
			items, twice = redefine(r, m, items)
		}
		l := genLayout(r)
		if twice != "" {
			// keep the order drawn by redefine visible: no re-sorting by code for half of them
			if r.Bool() {
				l.order = "shuffled"
			}
		}
		secs := l.sections(arrange(r, items, l))
		prog := renderLayout(m.width, secs, l.p)
		cm, p := parseCMap(prog)
		k := kase("cmap", "prog", hx.Hex(prog), "width", m.width, "codes", "-", "want", "-", "policy", "spec")
		if p != "" || cm == nil {
			c.Check("C07/panic", false, k, func() string { return "ParseToUnicodeCMap panicked or failed: " + p })
			continue
		}
		sf := secsField(secs)
		c.Op(fmt.Sprintf("c07.rprog %s %d %s", polFlags(l.p), m.width, sf), hx.Hex(prog))

		// data: specified codes, undefined codes, and a remainder shorter than one code
		var data []byte
		nUndef, nSpec := 0, 0
		defined := map[uint32]bool{}
		for _, e := range es {
			defined[e.code] = true
		}
		for n := r.Range(1, 10); n > 0; n-- {
			if r.Chance(2, 3) {
				data = append(data, codeBytes(es[r.Intn(len(es))].code, m.width)...)
				nSpec++
				continue
			}
			b := make([]byte, m.width)
			for j := range b {
				b[j] = byte(r.Intn(256))
			}
			if r.Chance(1, 4) && m.width >= 2 { // a surrogate number / a number beyond U+10FFFF
				b[m.width-2] = 0xD8 + byte(r.Intn(8))
				if m.width >= 3 && r.Bool() {
					b[m.width-3] = byte(r.Range(0x11, 0xFF))
				}
			}
			var code uint32
			for _, x := range b {
				code = code<<8 | uint32(x)
			}
			if !defined[code] {
				nUndef++
			} else {
				nSpec++
			}
			data = append(data, b...)
		}
		tail := 0
		if m.width > 1 && r.Bool() {
			tail = r.Range(1, m.width-1)
			for j := 0; j < tail; j++ {
				if r.Bool() {
					data = append(data, byte(es[r.Intn(len(es))].code))
				} else {
					data = append(data, byte(r.Intn(256)))
				}
			}
		}
		var got string
		if p := hx.Safe(func() { got = cm.LookupString(data) }); p != "" {
			c.Check("C07/panic", false, k, func() string { return "LookupString panicked: " + p })
			continue
		}
		checkOutput(c, "LookupString", got, k, false)
		c.Op(fmt.Sprintf("c07.spec %d %s %s", m.width, sf, hx.Hex(data)), out(got))
		// single codes: one defined, one at random (mostly undefined), the code below the first run
		probe := []uint32{es[r.Intn(len(es))].code, uint32(r.Intn(1 << (8 * uint(min(m.width, 3))))), es[0].code - 1}
		for _, code := range probe {
			c.Op(fmt.Sprintf("c07.spectext %s %x", sf, code), out(cm.Lookup(code)))
		}

		if twice != "" {
			c.Count("spec-" + twice)
		} else {
			c.Count("spec-each-code-once")
		}
		if nUndef > 0 {
			c.Count("spec-data-with-undefined-codes")
		}
		if tail > 0 {
			c.Count("spec-data-with-short-remainder")
		}
		if nUndef == 0 && tail == 0 {
			c.Count("spec-data-specified-codes-only")
		}
		c.Count(fmt.Sprintf("spec-width-%d", m.width))
		c.Case(fmt.Sprintf("spec%d/%d/%s/%d+%d+%d", m.width, len(es), twice, nSpec, nUndef, tail), got != "")
	}
}
