package c07

import (
	"fmt"
	"sort"

	"verifharness/hx"
)

// ---- layouts: the same code -> text map written as a different arrangement of entries ----
//
// A ToUnicode CMap is a set of code -> text entries (ISO 32000-1 9.10.3): which entry form a
// generator picks for a group of codes (bfchar, bfrange with an offset target, bfrange with an
// array target), in which order it writes the entries, how it cuts them into sections (each at
// most 100 entries) and in which order the sections follow each other says nothing about what
// a code decodes to. render() always writes the runs of a map in ascending code order, one
// entry form per policy (or a fixed interleaving); the layouts below keep the logical map and
// draw all of that arrangement at random, so the statement "every CMap decodes to the
// specified text" is also examined on programs whose entries are not in code order, whose
// bfrange sections mix array targets with offset targets in any order, whose sections
// alternate between bfchar and bfrange, and whose last section is of any kind.

const (
	itemChar = iota
	itemOffset
	itemArray
)

type litem struct {
	kind int
	r    run // itemChar: exactly one code
}

type layout struct {
	order string // ascending | descending | shuffled | rotated
	group string // interleaved | chars-first | ranges-first
	apart bool   // array-target entries never share a section with offset-target entries
	cap   int    // most entries in one section (1..100)
	p     policy // formatting only: oneLine, wrapArr, crlf, upper
}

// key: the oracle key's class is the order of the entries alone (the harness keeps three
// failing cases per key and twenty in all, so the classes are kept few enough for each to
// come with its witness); describe() names the whole arrangement in the failure detail.
func (l layout) key() string { return "layout-random-" + l.order }

func (l layout) describe() string {
	s := fmt.Sprintf("layout entries %s, sections %s of at most %d", l.order, l.group, l.cap)
	if l.apart {
		s += ", array targets in sections of their own"
	}
	return s
}

// genItems cuts the runs of m into entries: every run is written whole or in two adjacent
// parts, each part as one bfrange entry (offset or array target) or as one bfchar entry per
// code. The parts of a run are runs themselves (texts[k+i] is texts[k] with its last UTF-16
// unit advanced by i), so the specified map stays m.entries().
func genItems(r *hx.Rng, m *lmap) []litem {
	var items []litem
	// how the generator leans: mostly offsets, mostly arrays, mostly chars, or anything
	lean := r.Intn(4)
	for _, rn := range m.runs {
		parts := []run{rn}
		if len(rn.texts) >= 2 && r.Chance(1, 4) {
			k := r.Range(1, len(rn.texts)-1)
			parts = []run{{lo: rn.lo, texts: rn.texts[:k]}, {lo: rn.lo + uint32(k), texts: rn.texts[k:]}}
		}
		for _, pt := range parts {
			kind := r.Intn(3)
			if lean < 3 && r.Chance(1, 2) {
				kind = []int{itemOffset, itemArray, itemChar}[lean]
			}
			if kind == itemChar {
				for i, t := range pt.texts {
					items = append(items, litem{itemChar, run{lo: pt.lo + uint32(i), texts: [][]rune{t}}})
				}
			} else {
				items = append(items, litem{kind, pt})
			}
		}
	}
	return items
}

func genLayout(r *hx.Rng) layout {
	l := layout{
		order: hx.Pick(r, []string{"ascending", "descending", "shuffled", "shuffled", "rotated"}),
		group: hx.Pick(r, []string{"interleaved", "interleaved", "chars-first", "ranges-first"}),
		apart: r.Chance(1, 4),
		cap:   hx.Pick(r, []int{1, 2, 3, 5, 8, 100, 100, 100}),
	}
	l.p.crlf, l.p.upper = r.Bool(), r.Bool()
	switch r.Intn(4) {
	case 0:
		l.p.oneLine = true
	case 1:
		l.p.wrapArr = r.Range(1, 4)
	}
	return l
}

func arrange(r *hx.Rng, items []litem, l layout) []litem {
	out := append([]litem(nil), items...)
	sort.SliceStable(out, func(i, j int) bool { return out[i].r.lo < out[j].r.lo })
	switch l.order {
	case "descending":
		for i, j := 0, len(out)-1; i < j; i, j = i+1, j-1 {
			out[i], out[j] = out[j], out[i]
		}
	case "shuffled":
		hx.Shuffle(r, out)
	case "rotated":
		if len(out) > 1 {
			k := r.Range(1, len(out)-1)
			out = append(append([]litem(nil), out[k:]...), out[:k]...)
		}
	}
	isChar := func(it litem) bool { return it.kind == itemChar }
	switch l.group {
	case "chars-first":
		sort.SliceStable(out, func(i, j int) bool { return isChar(out[i]) && !isChar(out[j]) })
	case "ranges-first":
		sort.SliceStable(out, func(i, j int) bool { return !isChar(out[i]) && isChar(out[j]) })
	}
	return out
}

// sectionKind: entries of the same section kind may share a section.
func (l layout) sectionKind(it litem) int {
	if it.kind == itemChar {
		return 0
	}
	if l.apart && it.kind == itemArray {
		return 2
	}
	return 1
}

// sections cuts the arranged entries into sections: a new section begins where the kind
// changes and where the section is full.
func (l layout) sections(items []litem) [][]litem {
	var secs [][]litem
	for _, it := range items {
		n := len(secs)
		if n > 0 && len(secs[n-1]) < l.cap && l.sectionKind(secs[n-1][0]) == l.sectionKind(it) {
			secs[n-1] = append(secs[n-1], it)
		} else {
			secs = append(secs, []litem{it})
		}
	}
	return secs
}

func renderLayout(width int, secs [][]litem, p policy) []byte {
	w := &writer{p: p, eol: "\n", sep: " "}
	if p.crlf {
		w.eol = "\r\n"
	}
	if p.oneLine {
		w.eol = " "
	}
	w.line("/CIDInit /ProcSet findresource begin")
	w.line("12 dict begin")
	w.line("begincmap")
	w.line("/CIDSystemInfo << /Registry (Adobe) /Ordering (UCS) /Supplement 0 >> def")
	w.line("/CMapName /Adobe-Identity-UCS def")
	w.line("/CMapType 2 def")
	w.line("1 begincodespacerange")
	w.line(w.code(0, width), w.code(0xFFFFFFFF, width))
	w.line("endcodespacerange")
	for _, sec := range secs {
		kind := "bfrange"
		if sec[0].kind == itemChar {
			kind = "bfchar"
		}
		w.line(fmt.Sprintf("%d begin%s", len(sec), kind))
		for _, it := range sec {
			r := it.r
			hi := r.lo + uint32(len(r.texts)) - 1
			switch it.kind {
			case itemChar:
				w.line(w.code(r.lo, width), w.text(r.texts[0]))
			case itemOffset:
				w.line(w.code(r.lo, width), w.code(hi, width), w.text(r.texts[0]))
			case itemArray:
				toks := []string{w.code(r.lo, width), w.code(hi, width), "["}
				for i, t := range r.texts {
					toks = append(toks, w.text(t))
					if p.wrapArr > 0 && (i+1)%p.wrapArr == 0 && i+1 < len(r.texts) {
						w.line(toks...)
						toks = nil
					}
				}
				toks = append(toks, "]")
				w.line(toks...)
			}
		}
		w.line("end" + kind)
	}
	w.line("endcmap")
	w.line("CMapName currentdict /CMap defineresource pop")
	w.line("end")
	w.line("end")
	return []byte(w.sb.String())
}

// shape buckets of a rendered layout (input distribution only; the oracle does not use them)
func layoutShape(secs [][]litem) []string {
	var out []string
	lastRange := -1
	nRange := 0
	for i, sec := range secs {
		if sec[0].kind != itemChar {
			lastRange = i
			nRange++
		}
	}
	if nRange >= 2 {
		out = append(out, "layout-several-bfrange-sections")
	}
	if len(secs) > 0 && secs[len(secs)-1][0].kind == itemChar && nRange > 0 {
		out = append(out, "layout-bfchar-section-last")
	}
	unordered := func(sec []litem, kind int) bool {
		var prev *litem
		for i := range sec {
			if kind >= 0 && sec[i].kind != kind {
				continue
			}
			if prev != nil && prev.r.lo > sec[i].r.lo {
				return true
			}
			prev = &sec[i]
		}
		return false
	}
	hasArr := func(sec []litem) bool {
		for _, it := range sec {
			if it.kind == itemArray {
				return true
			}
		}
		return false
	}
	for i, sec := range secs {
		if sec[0].kind == itemChar {
			continue
		}
		where := "a"
		if i == lastRange {
			where = "last"
		}
		switch {
		case hasArr(sec) && unordered(sec, itemOffset):
			out = append(out, "layout-"+where+"-bfrange-section-array+offsets-out-of-order")
		case unordered(sec, -1):
			out = append(out, "layout-"+where+"-bfrange-section-out-of-order")
		}
	}
	// entries of one section in order, but a later section starts below an earlier one
	var prevLo uint32
	seen := false
	for _, sec := range secs {
		if sec[0].kind == itemChar {
			continue
		}
		if seen && sec[0].r.lo < prevLo {
			out = append(out, "layout-bfrange-sections-out-of-order")
			break
		}
		prevLo, seen = sec[0].r.lo, true
	}
	return out
}

// permutations of 0..n-1 in lexicographic order
func perms(n int) [][]int {
	if n == 0 {
		return [][]int{{}}
	}
	var out [][]int
	for _, p := range perms(n - 1) {
		for pos := 0; pos <= len(p); pos++ {
			q := append(append(append([]int(nil), p[:pos]...), n-1), p[pos:]...)
			out = append(out, q)
		}
	}
	sort.Slice(out, func(i, j int) bool {
		for k := range out[i] {
			if out[i][k] != out[j][k] {
				return out[i][k] < out[j][k]
			}
		}
		return false
	})
	return out
}

// runCMapLayoutsSmall: maps of three (thorough: also four) short runs, exhaustively every
// assignment of an entry form to each run x every order of writing the entries x {each entry
// in a section of its own, as few sections as the kinds allow}. The programs are a few lines
// long, so a failure here is a witness one can read.
func runCMapLayoutsSmall(c *hx.Ctx) {
	forms := "oac" // offset, array, char
	sizes := []int{3}
	if c.Thorough() {
		sizes = []int{3, 4}
	}
	for _, n := range sizes {
		for rep := 0; rep < c.N(2, 6); rep++ {
			r := c.Rng.Fork(uint64(3400000 + 10*n + rep))
			w := 2
			if rep > 0 {
				w = r.Range(1, 4)
			}
			// n disjoint runs, ascending; form "char" is given to a run of one code
			m := &lmap{width: w}
			lo := uint32(r.Range(0x20, 0x40))
			for k := 0; k < n; k++ {
				l := r.Range(2, 4)
				st := startText(r, l)
				rn := run{lo: lo}
				for j := 0; j < l; j++ {
					rn.texts = append(rn.texts, bumpLastUnit(st, j))
				}
				m.runs = append(m.runs, rn)
				lo += uint32(l + r.Range(0, 12))
			}
			nf := 1
			for k := 0; k < n; k++ {
				nf *= 3
			}
			for fa := 0; fa < nf; fa++ {
				kinds := make([]int, n)
				for k, x := 0, fa; k < n; k, x = k+1, x/3 {
					kinds[k] = []int{itemOffset, itemArray, itemChar}[x%3]
				}
				for _, pm := range perms(n) {
					for _, cap := range []int{100, 1} {
						var items []litem
						name := ""
						asc := true
						for j, ri := range pm {
							rn := m.runs[ri]
							name += string(forms[map[int]int{itemOffset: 0, itemArray: 1, itemChar: 2}[kinds[ri]]])
							if j > 0 && pm[j-1] > ri {
								asc = false
							}
							if kinds[ri] == itemChar {
								for q, t := range rn.texts {
									items = append(items, litem{itemChar, run{lo: rn.lo + uint32(q), texts: [][]rune{t}}})
								}
							} else {
								items = append(items, litem{kinds[ri], rn})
							}
						}
						key := "layout-exhaustive-unordered"
						if asc {
							key = "layout-exhaustive-ascending"
						}
						desc := fmt.Sprintf("layout of %d runs written as %s (o = bfrange offset target, a = bfrange array target, c = bfchar entries) in the order %v", n, name, pm)
						if cap == 1 {
							desc += ", one section per entry"
						} else {
							desc += ", as few sections as the kinds allow"
						}
						l := layout{cap: cap}
						l.p.crlf, l.p.upper = r.Bool(), r.Bool()
						if r.Chance(1, 4) {
							l.p.oneLine = true
						}
						secs := l.sections(items)
						prog := renderLayout(m.width, secs, l.p)
						cmapOracleD(c, prog, m.width, m.entries(), key, desc, n == 3)
						for _, s := range layoutShape(secs) {
							c.Count(s)
						}
						c.Count(fmt.Sprintf("layout-exhaustive-%d-runs", n))
					}
				}
			}
			c.Case(fmt.Sprintf("layoutsmall%d/%d/%v", n, w, m.entries()[0]), true)
		}
	}
}

func runCMapLayouts(c *hx.Ctx) {
	for i := 0; i < c.N(240, 6000); i++ {
		r := c.Rng.Fork(uint64(3500000 + i))
		var m *lmap
		if r.Chance(1, 3) { // the two-byte codes of Identity-H fonts, the usual case
			m = genMapW(r, 2)
		} else {
			m = genMap(r)
		}
		es := m.entries()
		items := genItems(r, m)
		for li := 0; li < 3; li++ {
			l := genLayout(r)
			secs := l.sections(arrange(r, items, l))
			prog := renderLayout(m.width, secs, l.p)
			// every specified code of small maps, a sample of large ones
			sample := es
			if len(es) > 96 {
				sample = sampleEntries(c.Rng.Fork(uint64(3500000+i)), es, 96)
			}
			ops := len(es) <= 40 || (i+li)%4 == 0
			cmapOracleD(c, prog, m.width, sample, l.key(), l.describe(), ops)
			c.Count("order-" + l.order)
			c.Count("sections-" + l.group)
			for _, s := range layoutShape(secs) {
				c.Count(s)
			}
		}
		c.Case(fmt.Sprintf("layout%d/%d/%v", m.width, len(es), es[0]), true)
	}
}
