package c07

import (
	"bytes"
	"encoding/hex"
	"fmt"
	"os"
	"path/filepath"
	"sort"
	"strings"

	"github.com/tsawler/tabula"
	"golang.org/x/text/unicode/norm"

	"verifharness/hx"
)

// Pages with SEVERAL font dictionaries. The property quantifies over fonts: every string is
// decoded by the font dictionary its Tf selects in the resource dictionary in force - by THAT
// dictionary's /ToUnicode, else by THAT dictionary's /Encoding. The logical document authored
// here is a page (scope 0) and Form XObjects (scopes 1..), each scope with its own /Font
// resource dictionary binding names to font dictionaries, and a list of items: show a string in
// a named font, or draw a form. The font dictionaries of one document may
//   - share /Subtype and /BaseFont while specifying different decoding (one font program split
//     into several 8-bit simple fonts with per-font ToUnicode; Helvetica once with
//     WinAnsiEncoding and once with MacRomanEncoding), with the same codes mapped differently,
//   - be one and the same object bound under two names or in two scopes (then, and only then,
//     decoding is the same),
//   - be bound under a name that another scope binds to a different font (forms conventionally
//     start at /F1 again).
// The specified fragments are the shows in execution order, each decoded by the logical font.

type mfFont struct {
	Subtype string `json:"st"`               // TrueType | Type1 | Type0
	Base    string `json:"bf"`               // /BaseFont
	Enc     string `json:"enc"`              // /Encoding name ("" = none written; Type0: Identity-H)
	TU      string `json:"tu"`               // hex of the ToUnicode program ("" = none)
	Direct  bool   `json:"dir"`              // the dictionary is written directly in the resource dictionary
	Diffs   string `json:"diffs,omitempty"`  // the /Differences array text ("" = /Encoding is a name)
	NoBase  bool   `json:"nobase,omitempty"` // with Diffs: the /Encoding dictionary has no /BaseEncoding (Type1: StandardEncoding)
}

type mfBind struct {
	Name string `json:"n"`
	Font int    `json:"f"`
}

type mfItem struct {
	Form  int    `json:"form,omitempty"`  // > 0: draw the form of that scope
	Twice bool   `json:"twice,omitempty"` // draw it a second time, translated
	Name  string `json:"n,omitempty"`     // show: resource name of the font
	Data  string `json:"d,omitempty"`     // show: hex of the string
	Want  string `json:"w,omitempty"`     // show: hex of the specified text (UTF-8)
}

type mfScope struct {
	Fonts []mfBind `json:"fonts"`
	Items []mfItem `json:"items"`
}

type mfDoc struct {
	Fonts  []mfFont  `json:"fonts"`
	Scopes []mfScope `json:"scopes"` // 0 = the page; k > 0 = Form XObject /Xk
}

// ---- writer -----------------------------------------------------------------------

type pdfObjs struct{ bodies []string }

func (p *pdfObjs) reserve() int { p.bodies = append(p.bodies, ""); return len(p.bodies) }
func (p *pdfObjs) set(n int, body string) {
	p.bodies[n-1] = body
}
func (p *pdfObjs) add(body string) int { n := p.reserve(); p.set(n, body); return n }
func (p *pdfObjs) stream(dict string, data []byte) int {
	return p.add(fmt.Sprintf("<< %s/Length %d >>\nstream\n%s\nendstream", dict, len(data), data))
}
func (p *pdfObjs) bytes(root int) []byte {
	var b bytes.Buffer
	b.WriteString("%PDF-1.4\n")
	offs := make([]int, len(p.bodies))
	for i, o := range p.bodies {
		offs[i] = b.Len()
		fmt.Fprintf(&b, "%d 0 obj\n%s\nendobj\n", i+1, o)
	}
	xref := b.Len()
	fmt.Fprintf(&b, "xref\n0 %d\n0000000000 65535 f \n", len(offs)+1)
	for _, o := range offs {
		fmt.Fprintf(&b, "%010d 00000 n \n", o)
	}
	fmt.Fprintf(&b, "trailer\n<< /Size %d /Root %d 0 R >>\nstartxref\n%d\n%%%%EOF\n", len(offs)+1, root, xref)
	return b.Bytes()
}

// write renders the logical document as a one-page PDF and returns the specified fragment
// texts in execution order.
func (d *mfDoc) write() (pdf []byte, want []string) {
	o, _, _ := d.objects()
	return o.bytes(1), d.wants(0, 0)
}

// objects: the indirect objects of the document (1 = catalog), the object numbers of the page
// and of its content stream.
func (d *mfDoc) objects() (objs *pdfObjs, pageObj, contentObj int) {
	o := &pdfObjs{}
	catalog, pages, page := o.reserve(), o.reserve(), o.reserve()
	// font dictionaries: one text (and, unless direct, one object) per logical font
	fontText := make([]string, len(d.Fonts))
	fontObj := make([]int, len(d.Fonts))
	for i, f := range d.Fonts {
		var sb strings.Builder
		fmt.Fprintf(&sb, "<< /Type /Font /Subtype /%s /BaseFont /%s", f.Subtype, f.Base)
		if f.Subtype == "Type0" {
			desc := o.add(fmt.Sprintf("<< /Type /Font /Subtype /CIDFontType2 /BaseFont /%s /CIDSystemInfo << /Registry (Adobe) /Ordering (Identity) /Supplement 0 >> /CIDToGIDMap /Identity /DW 1000 >>", f.Base))
			fmt.Fprintf(&sb, " /Encoding /Identity-H /DescendantFonts [%d 0 R]", desc)
		} else if f.Diffs != "" {
			sb.WriteString(" /Encoding << /Type /Encoding")
			if !f.NoBase {
				sb.WriteString(" /BaseEncoding /" + f.Enc)
			}
			sb.WriteString(" /Differences " + f.Diffs + " >>")
		} else if f.Enc != "" {
			sb.WriteString(" /Encoding /" + f.Enc)
		}
		if f.TU != "" {
			prog, _ := hex.DecodeString(f.TU)
			fmt.Fprintf(&sb, " /ToUnicode %d 0 R", o.stream("", prog))
		}
		sb.WriteString(" >>")
		fontText[i] = sb.String()
		if !f.Direct {
			fontObj[i] = o.add(fontText[i])
		}
	}
	// forms are written before the scopes that draw them need their numbers
	formObj := make([]int, len(d.Scopes))
	for k := 1; k < len(d.Scopes); k++ {
		formObj[k] = o.reserve()
	}
	y := 760
	resources := func(s mfScope) string {
		var sb strings.Builder
		sb.WriteString("<< /Font <<")
		for _, b := range s.Fonts {
			if d.Fonts[b.Font].Direct {
				fmt.Fprintf(&sb, " /%s %s", b.Name, fontText[b.Font])
			} else {
				fmt.Fprintf(&sb, " /%s %d 0 R", b.Name, fontObj[b.Font])
			}
		}
		sb.WriteString(" >>")
		var xo []string
		for _, it := range s.Items {
			if it.Form > 0 {
				xo = append(xo, fmt.Sprintf("/X%d %d 0 R", it.Form, formObj[it.Form]))
			}
		}
		if len(xo) > 0 {
			sb.WriteString(" /XObject << " + strings.Join(xo, " ") + " >>")
		}
		sb.WriteString(" >>")
		return sb.String()
	}
	content := func(s mfScope) []byte {
		var sb strings.Builder
		for _, it := range s.Items {
			if it.Form > 0 {
				fmt.Fprintf(&sb, "q /X%d Do Q\n", it.Form)
				if it.Twice {
					fmt.Fprintf(&sb, "q 1 0 0 1 260 0 cm /X%d Do Q\n", it.Form)
				}
				continue
			}
			fmt.Fprintf(&sb, "BT /%s 12 Tf 1 0 0 1 40 %d Tm <%s> Tj ET\n", it.Name, y, it.Data)
			y -= 14
		}
		return []byte(sb.String())
	}
	for k := len(d.Scopes) - 1; k >= 1; k-- {
		s := d.Scopes[k]
		data := content(s)
		o.set(formObj[k], fmt.Sprintf("<< /Type /XObject /Subtype /Form /BBox [0 0 612 792] /Resources %s /Length %d >>\nstream\n%s\nendstream",
			resources(s), len(data), data))
	}
	cs := o.stream("", content(d.Scopes[0]))
	o.set(catalog, fmt.Sprintf("<< /Type /Catalog /Pages %d 0 R >>", pages))
	o.set(pages, fmt.Sprintf("<< /Type /Pages /Kids [%d 0 R] /Count 1 >>", page))
	o.set(page, fmt.Sprintf("<< /Type /Page /Parent %d 0 R /MediaBox [0 0 612 792] /Contents %d 0 R /Resources %s >>", pages, cs, resources(d.Scopes[0])))
	return o, page, cs
}

// wants: the specified texts of scope k in execution order.
func (d *mfDoc) wants(k, depth int) []string {
	var w []string
	if depth > 8 || k >= len(d.Scopes) {
		return nil
	}
	for _, it := range d.Scopes[k].Items {
		if it.Form > 0 {
			sub := d.wants(it.Form, depth+1)
			w = append(w, sub...)
			if it.Twice {
				w = append(w, sub...)
			}
			continue
		}
		t, _ := hex.DecodeString(it.Want)
		w = append(w, string(t))
	}
	return w
}

// classes of the document (for the oracle key and the distribution)
func (d *mfDoc) sharedProgram() bool { // two different dictionaries with one Subtype+BaseFont
	for i := range d.Fonts {
		for j := i + 1; j < len(d.Fonts); j++ {
			if d.Fonts[i].Base == d.Fonts[j].Base {
				return true
			}
		}
	}
	return false
}

func (d *mfDoc) nameRebound() bool { // one resource name, different fonts in different scopes
	seen := map[string]int{}
	for _, s := range d.Scopes {
		for _, b := range s.Fonts {
			if f, ok := seen[b.Name]; ok && f != b.Font {
				return true
			}
			seen[b.Name] = b.Font
		}
	}
	return false
}

// hasDifferences: some font's text comes from the /Differences of its /Encoding dictionary
func (d *mfDoc) hasDifferences() bool {
	for _, f := range d.Fonts {
		if f.Diffs != "" && f.TU == "" {
			return true
		}
	}
	return false
}

func (d *mfDoc) describe() string {
	var sb strings.Builder
	for i, f := range d.Fonts {
		fmt.Fprintf(&sb, "font#%d{%s /%s enc=%q differences=%s tounicode=%v}", i, f.Subtype, f.Base, f.Enc, f.Diffs, f.TU != "")
	}
	for k, s := range d.Scopes {
		if k == 0 {
			sb.WriteString(" page[")
		} else {
			fmt.Fprintf(&sb, " form/X%d[", k)
		}
		for _, b := range s.Fonts {
			fmt.Fprintf(&sb, "/%s=font#%d ", b.Name, b.Font)
		}
		sb.WriteString(":")
		for _, it := range s.Items {
			if it.Form > 0 {
				fmt.Fprintf(&sb, " Do/X%d", it.Form)
				if it.Twice {
					sb.WriteString("x2")
				}
			} else {
				fmt.Fprintf(&sb, " /%s<%s>", it.Name, it.Data)
			}
		}
		sb.WriteString("]")
	}
	return sb.String()
}

// ---- oracle -----------------------------------------------------------------------

func multiFontCase(c *hx.Ctx, dir string, idx int, d *mfDoc) {
	k := kase("multifont", "doc", d)
	pdf, want := d.write()
	path := filepath.Join(dir, fmt.Sprintf("c07-mf-%d.pdf", idx))
	if err := os.WriteFile(path, pdf, 0o644); err != nil {
		c.Note("C07 multifont: %v", err)
		return
	}
	defer os.Remove(path)
	var texts []string
	var ferr error
	if p := hx.Safe(func() {
		frs, _, err := tabula.Open(path).Fragments()
		ferr = err
		for _, f := range frs {
			texts = append(texts, f.Text)
		}
	}); p != "" {
		c.Check("C07/panic", false, k, func() string { return "tabula.Open(..).Fragments() panicked: " + p })
		return
	}
	if ferr != nil {
		c.Count("multifont-open-error")
		c.Check("C07/pdf-multifont-open", false, k, func() string {
			return fmt.Sprintf("Fragments() of a well-formed one-page PDF with %d font dictionaries failed: %v", len(d.Fonts), ferr)
		})
		return
	}
	for _, t := range texts {
		checkOutput(c, "fragment text from tabula.Open(f).Fragments()", t, k, true)
	}
	ok := len(texts) == len(want)
	for i := 0; ok && i < len(texts); i++ {
		ok = texts[i] == want[i]
	}
	// the finer key names the class: a resource name bound to different fonts in the page and in
	// a form (resource scoping) / several dictionaries of one font program / neither
	key := "C07/pdf-multifont-text"
	switch {
	case d.hasDifferences():
		key = "C07/pdf-multifont-text-differences"
	case d.nameRebound():
		key = "C07/pdf-multifont-text-name-rebound"
	case d.sharedProgram():
		key = "C07/pdf-multifont-text-shared-basefont"
	}
	c.Check(key, ok, k, func() string {
		return fmt.Sprintf("every string decodes by the font dictionary its Tf selects: got %q, specified %q; %s", texts, want, d.describe())
	})
	// the same document, as an object table, through the model of the extractor
	// (Model/FormFonts.lean): ties the model to the public path tabula.Open(f).Fragments().
	// Every show of these documents has its own position, so de-duplication removes nothing.
	if x := d.asExtDoc(); x != nil {
		objs, pres, content := x.opFields()
		c.Op(fmt.Sprintf("c07.ext %s %s %s %s", objs, pres, content, x.nfcCandidates()), "ok "+textsField(texts))
	}
}

// asExtDoc: the written PDF's objects as the object table of op c07.ext (the page's
// resources and content taken from the page object the writer produced).
func (d *mfDoc) asExtDoc() *xDoc {
	o, page, cs := d.objects()
	x := &xDoc{objs: map[int]*xObj{}}
	for i, body := range o.bodies {
		if j := strings.Index(body, "\nstream\n"); j >= 0 && strings.HasSuffix(body, "\nendstream") {
			dict := body[:j]
			// the model reads the dictionary text; /Length is not needed by it
			x.objs[i+1] = &xObj{body: dict, data: []byte(body[j+len("\nstream\n") : len(body)-len("\nendstream")]), stream: true}
		} else {
			x.objs[i+1] = &xObj{body: body}
		}
	}
	pb := o.bodies[page-1]
	j := strings.Index(pb, "/Resources ")
	if j < 0 || !strings.HasSuffix(pb, " >>") {
		return nil
	}
	x.pageRes = pb[j+len("/Resources ") : len(pb)-len(" >>")]
	if c := x.objs[cs]; c != nil && c.stream {
		x.content = c.data
	} else {
		return nil
	}
	for _, s := range d.Scopes {
		for _, it := range s.Items {
			if it.Form == 0 {
				b, _ := hex.DecodeString(it.Data)
				x.datas = append(x.datas, b)
			}
		}
	}
	for _, f := range d.Fonts {
		if f.TU != "" {
			p, _ := hex.DecodeString(f.TU)
			x.progs = append(x.progs, p)
		}
		if f.Diffs != "" {
			x.diffTexts = append(x.diffTexts, f.Diffs)
		}
	}
	return x
}

func replayMultiFont(c *hx.Ctx, k map[string]interface{}) {
	var d mfDoc
	if err := hx.Remarshal(k["doc"], &d); err != nil || len(d.Scopes) == 0 {
		c.Note("C07 replay multifont: bad case: %v", err)
		return
	}
	for _, s := range d.Scopes {
		for _, b := range s.Fonts {
			if b.Font < 0 || b.Font >= len(d.Fonts) {
				return
			}
		}
		for _, it := range s.Items {
			if it.Form < 0 || it.Form >= len(d.Scopes) {
				return
			}
		}
	}
	dir, err := os.MkdirTemp("", "c07mf")
	if err != nil {
		return
	}
	defer os.RemoveAll(dir)
	multiFontCase(c, dir, 0, &d)
}

// ---- generator --------------------------------------------------------------------

// a logical font while generating: the dictionary plus what it specifies
type mfGen struct {
	mfFont
	m    *lmap     // ToUnicode map (nil = none)
	es   []entry   // its specified entries under the rendering policy
	runs []diffRun // the /Differences of its /Encoding dictionary as authored (nil = none)
}

// withDifferences makes g a simple font whose /Encoding is a dictionary with /Differences
// (g.Enc is its base encoding; written as /BaseEncoding unless it is what the subtype implies
// without one and noBase is drawn).
func (g *mfGen) withDifferences(r *hx.Rng) {
	var table string
	for _, e := range mfLatinEncodings {
		if e.name == g.Enc {
			table = e.table
		}
	}
	g.runs = genDiffRuns(r, encCodes(table, false))
	g.Diffs = renderDiffs(g.runs)
	// ISO 32000-1 Table 114: without /BaseEncoding a nonsymbolic font that is not embedded
	// starts from StandardEncoding (only generated for Type1, where nothing else is said)
	g.NoBase = g.Subtype == "Type1" && g.Enc == "StandardEncoding" && r.Bool()
}

var mfLatinEncodings = []struct{ name, table string }{
	{"WinAnsiEncoding", "winAnsiTable"},
	{"MacRomanEncoding", "macRomanTable"},
	{"StandardEncoding", "standardEncodingTableData"},
}

// encCodes: the codes of a named encoding for which the reference (Annex D) gives exactly one
// character that is not white space; high = only codes >= 0x80 (where the encodings differ).
func encCodes(table string, high bool) []byte {
	var cs []byte
	t := refTables[table]
	for b := 0x21; b < 256; b++ {
		if high && b < 0x80 {
			continue
		}
		if len(t[b]) == 1 && t[b][0] != 0x20 && t[b][0] != 0xA0 {
			cs = append(cs, byte(b))
		}
	}
	return cs
}

// relabel: a map with the code layout of m (same codes, same run lengths) and fresh texts:
// the same codes of two subsets of one font program stand for different characters.
func relabel(r *hx.Rng, m *lmap) *lmap {
	n := &lmap{width: m.width}
	for _, rn := range m.runs {
		st := startText(r, len(rn.texts))
		nr := run{lo: rn.lo}
		for i := range rn.texts {
			nr.texts = append(nr.texts, bumpLastUnit(st, i))
		}
		n.runs = append(n.runs, nr)
	}
	return n
}

func smallMapW(r *hx.Rng, w int) *lmap {
	m := genMapW(r, w)
	if len(m.runs) > 5 {
		m.runs = m.runs[:5]
	}
	return m
}

// show: a string in font g and its specified text
func (g *mfGen) show(r *hx.Rng) (data []byte, want string) {
	if g.m != nil {
		var sb strings.Builder
		for _, e := range sampleEntries(r, g.es, r.Range(1, 6)) {
			data = append(data, codeBytes(e.code, g.m.width)...)
			sb.WriteString(string(e.text))
		}
		return data, norm.NFC.String(sb.String())
	}
	var table string
	for _, e := range mfLatinEncodings {
		if e.name == g.Enc {
			table = e.table
		}
	}
	hi, all := encCodes(table, true), encCodes(table, false)
	names := diffNames(g.runs)
	var named []byte
	inAll := map[byte]bool{}
	for _, b := range all {
		inAll[b] = true
	}
	for b, n := range names {
		// a code named by a glyph the package does not know shows the base encoding's
		// character: only shown where the base encoding defines one
		if _, ok := glyphSpec(n); ok || inAll[b] {
			named = append(named, b)
		}
	}
	sort.Slice(named, func(i, j int) bool { return named[i] < named[j] })
	var sb strings.Builder
	for n := r.Range(1, 10); n > 0; n-- {
		b := hx.Pick(r, all)
		if r.Chance(2, 3) {
			b = hx.Pick(r, hi)
		}
		if len(named) > 0 && r.Chance(2, 3) {
			b = hx.Pick(r, named)
		}
		// a string that begins with FE FF / FF FE is, by the property's decode priority, UTF-16
		// with a byte-order mark, not text in the named encoding: not generated here
		if len(data) == 1 && ((data[0] == 0xFE && b == 0xFF) || (data[0] == 0xFF && b == 0xFE)) {
			b = hx.Pick(r, all[:40])
		}
		data = append(data, b)
		if n, ok := names[b]; ok {
			if gr, known := glyphSpec(n); known {
				sb.WriteRune(gr)
				continue
			}
		}
		sb.WriteRune(refTables[table][b][0])
	}
	return data, norm.NFC.String(sb.String())
}

func genMultiFont(r *hx.Rng) *mfDoc {
	nf := r.Range(2, 4)
	subtypes := []string{"TrueType", "Type1", "Type0"}
	bases := []string{"ABCDEF+Verif", "Helvetica", "GHIJKL+VerifSans-Bold", "Times-Roman"}
	hx.Shuffle(r, bases)
	// 0: all dictionaries describe one font program; 1: two programs among them; 2: all distinct
	baseMode := hx.Pick(r, []int{0, 0, 0, 1, 2})
	caseSubtype := hx.Pick(r, subtypes)
	encOrder := append([]struct{ name, table string }(nil), mfLatinEncodings...)
	hx.Shuffle(r, encOrder)
	var gens []*mfGen
	for i := 0; i < nf; i++ {
		g := &mfGen{}
		switch baseMode {
		case 0:
			g.Subtype, g.Base = caseSubtype, bases[0]
		case 1:
			g.Subtype, g.Base = caseSubtype, bases[i%2]
			if r.Chance(1, 4) { // one BaseFont under two subtypes
				g.Subtype = hx.Pick(r, subtypes)
			}
		default:
			g.Subtype, g.Base = hx.Pick(r, subtypes), bases[i]
		}
		g.Direct = r.Chance(1, 8)
		g.Enc = encOrder[i%len(encOrder)].name
		if g.Subtype == "Type0" || r.Chance(3, 5) { // ToUnicode decides
			w := 1
			if g.Subtype == "Type0" {
				w, g.Enc = 2, "Identity-H"
			} else if r.Chance(1, 4) {
				g.Enc = ""
			}
			var prev *mfGen
			for _, p := range gens {
				if p.m != nil && p.m.width == w {
					prev = p
				}
			}
			if prev != nil && r.Bool() {
				g.m = relabel(r, prev.m)
			} else {
				g.m = smallMapW(r, w)
			}
			p := hx.Pick(r, policyForms)
			p.crlf, p.upper = r.Bool(), r.Bool()
			g.TU = hex.EncodeToString(render(g.m, p))
			g.es = g.m.entriesFor(p)
		} else if r.Chance(1, 2) { // the /Differences of an /Encoding dictionary decide
			g.withDifferences(r)
		}
		gens = append(gens, g)
	}
	d := &mfDoc{}
	for _, g := range gens {
		d.Fonts = append(d.Fonts, g.mfFont)
	}
	// scopes: the page, 0-2 forms drawn by the page, possibly one more drawn by form 1
	nforms := hx.Pick(r, []int{0, 0, 1, 1, 1, 2})
	nested := nforms > 0 && r.Chance(1, 4)
	ns := 1 + nforms
	if nested {
		ns++
	}
	d.Scopes = make([]mfScope, ns)
	// which fonts each scope binds: every font somewhere, every scope at least one
	binds := make([][]int, ns)
	for f := range gens {
		s := r.Intn(ns)
		binds[s] = append(binds[s], f)
	}
	for s := range binds {
		extra := r.Intn(3)
		if len(binds[s]) == 0 {
			extra = 1 + r.Intn(2)
		}
		for ; extra > 0; extra-- {
			f := r.Intn(nf)
			binds[s] = append(binds[s], f) // the same font twice = one object under two names
		}
		hx.Shuffle(r, binds[s])
	}
	// names: unique in the document, or every scope starts at /F1 again
	restart := r.Chance(1, 3)
	counter := 0
	for s := range d.Scopes {
		if restart {
			counter = 0
		}
		for _, f := range binds[s] {
			counter++
			d.Scopes[s].Fonts = append(d.Scopes[s].Fonts, mfBind{Name: fmt.Sprintf("F%d", counter), Font: f})
		}
	}
	// items: shows in the scope's fonts (each binding at least once), forms drawn in between
	for s := range d.Scopes {
		var items []mfItem
		bs := append([]mfBind(nil), d.Scopes[s].Fonts...)
		for extra := r.Intn(3); extra > 0; extra-- {
			bs = append(bs, hx.Pick(r, d.Scopes[s].Fonts))
		}
		hx.Shuffle(r, bs)
		for _, b := range bs {
			data, want := gens[b.Font].show(r)
			items = append(items, mfItem{Name: b.Name, Data: hex.EncodeToString(data), Want: hex.EncodeToString([]byte(want))})
		}
		var draws []int
		switch {
		case s == 0:
			for k := 1; k <= nforms; k++ {
				draws = append(draws, k)
			}
		case s == 1 && nested:
			draws = append(draws, ns-1)
		}
		for _, k := range draws {
			at := r.Intn(len(items) + 1)
			it := mfItem{Form: k, Twice: s == 0 && r.Chance(1, 4)}
			items = append(items[:at], append([]mfItem{it}, items[at:]...)...)
		}
		d.Scopes[s].Items = items
	}
	return d
}

func runMultiFont(c *hx.Ctx) {
	dir, err := os.MkdirTemp("", "c07mf")
	if err != nil {
		c.Note("C07 multifont: %v", err)
		return
	}
	defer os.RemoveAll(dir)
	for i := 0; i < c.N(120, 2500); i++ {
		r := c.Rng.Fork(uint64(9900000 + i))
		d := genMultiFont(r)
		multiFontCase(c, dir, i, d)
		c.Case(fmt.Sprintf("multifont%d", i), true)
		if d.hasDifferences() {
			c.Count("multifont-with-differences")
		}
		switch {
		case d.nameRebound():
			c.Count("multifont-name-rebound")
		case d.sharedProgram():
			c.Count("multifont-shared-basefont")
		default:
			c.Count("multifont-distinct")
		}
		if len(d.Scopes) > 1 {
			c.Count("multifont-with-forms")
		}
	}
}
