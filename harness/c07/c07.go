// Package c07 is the correspondence/oracle harness for property C07:
// "Character codes decode to the Unicode the font specifies".
//
// Wire format (harness -> Lean driver, one op per line; bytes are lower-case hex, "-" = empty;
// scalar lists are lower-case hex numbers separated by spaces (results) or commas (inside a
// field), "-" = empty list):
//
//	c07.dec <nameHex> <byte>            -> rune value of GetEncoding(name).Decode(byte), decimal
//	c07.enc <nameHex> <dataHex>         -> <Name()> <scalars of DecodeString>
//	c07.ref <tableVar> <byte>           -> allowed scalars of the independent reference (comma list)
//	c07.u16be|c07.u16le <dataHex>       -> scalars of font.DecodeUTF16BE/LE
//	c07.cu16 <dataHex>                  -> ok <scalars> | err   (decodeUTF16BE of cmap.go)
//	c07.h2u <hexOfToken>                -> ok <scalars> | err   (hexToUnicode)
//	c07.hex32 <hexOfToken>              -> ok <decimal> | err   (parseHexToUint32)
//	c07.cmapstate <programHex>          -> bw=.. abw=.. chars=code:scalars;.. ranges=lo:hi:start:units;..
//	c07.cmap <programHex> <codesHex>    -> scalars of ParseToUnicodeCMap(program).LookupString(codes)
//	c07.cmapw <programHex> <w> <codes>  -> scalars of lookupStringWithWidth
//	c07.lookup <programHex> <code>      -> scalars of Lookup(code)
//	c07.font <programHex|~> <encNameHex> <differences code>rune;..|~> <dataHex> <nfc table pre>post;..|~>
//	                                    -> scalars of (*Font).DecodeString(data)
//	c07.glyph <glyphNameHex>            -> rune (hex) the package's glyph list gives the name | -
//	c07.nofont <dataHex>                -> scalars of the fragment text of `<data> Tj` with no font
//	c07.render <flags/wrap> <form> <w> <runs> -> hex of the program the independent writer renders
//	c07.entries <form> <runs>           -> the code:text entries the program specifies
//	c07.rprog <flags/wrap> <w> <sections>  -> hex of the program for any arrangement of entries into sections (spec.go)
//	c07.spec <w> <sections> <dataHex>   -> scalars of LookupString(data) of that program: the specification on EVERY byte string
//	c07.spectext <sections> <code>      -> scalars of Lookup(code): the specified text of a code, - = undefined
//	c07.ext <objects> <pageResHex|~> <contentHex> <nfc table>
//	                                    -> ok <texts of all fragments in show order, before de-duplication> | err
//
// An implementation result that is not valid UTF-8 is written as `invalid-utf8 <hex>`.
package c07

import (
	"encoding/hex"
	"fmt"
	"strconv"
	"strings"
	"unicode/utf8"

	"verifharness/hx"
)

func init() { hx.Register("C07", Run, Replay) }

func Run(c *hx.Ctx) {
	c.Rep.Rule = "exhaustive: 256 codes x 6 named encodings (+ unknown names) against independent reference tables and x/text charmaps; " +
		"generated: code->text maps (1-300 entries, code width 1-4, targets ASCII/BMP/ligature/multi-char/combining/astral) rendered by an " +
		"independent CMap writer under every formatting policy (bfchar lines / one line / bfrange offset / bfrange array / arrays spanning lines; LF, CRLF), " +
		"the same maps as arbitrary arrangements of entries (each run whole or cut in two, each part as bfchar entries, an offset-target or an array-target bfrange entry; entries ascending, descending, rotated or shuffled; sections of 1-100 entries alternating between bfchar and bfrange or grouped, array and offset targets sharing sections or not; for maps of three short runs exhaustively every assignment of entry forms x every order of the entries x one section per entry or as few as possible), " +
		"arrangements whose data also hold codes nobody defines (surrogate and > U+10FFFF numbers included) and a remainder shorter than one code, half of them defining a code twice (a second bfchar entry, a second range, an array over an offset range) against the specification of a whole program (ops c07.rprog / c07.spec / c07.spectext), " +
		"mutated (malformed) programs, scalar strings through UTF-16BE/LE (all scalars swept), byte strings through (*Font).DecodeString and text.Extractor, " +
		"every name of an independent excerpt of the Adobe Glyph List (and names outside the list) through the package's glyph list, fonts with a Differences map (characters of the glyph list, arbitrary scalars, combining marks, rune 0 and invalid runes; with and without a ToUnicode CMap beside it) through DecodeString, font dictionaries whose /Encoding dictionary has /Differences (1-4 runs of Adobe Glyph List names and of names outside the list, runs naming a code again, with or without /BaseEncoding, Type1 and TrueType) in the documents below, one-page PDFs (TrueType font with /Encoding and /ToUnicode) through tabula.Open(f).Fragments(), " +
		"one-page PDFs with 2-4 font dictionaries (TrueType/Type1/Type0; sharing one BaseFont or not; each with its own ToUnicode and/or /Encoding, the same codes mapped differently; " +
		"bound in the page and in Form XObjects it draws, under unique names or names every scope starts again) where every shown string must decode by the dictionary its Tf selects. " +
		"documents for text.Extractor given as object tables (1-4 font dictionaries, page + 0-3 Form XObjects each with its own resources, shows by Tj/TJ/'/\" under q/Q and Do): half well formed (every Tf names a font of its own scope: the specified texts are demanded), half with what the property does not speak about (odd /Subtype, /Encoding dictionaries or wrong types, ToUnicode that is no stream, bad /Widths, unbound or missing Tf, stray Q, forms without /Resources or drawing themselves, unparsable content). " +
		"non-trivial = the decoded result is non-empty"
	runEncodings(c)
	runUTF16(c)
	runTokens(c)
	runCMaps(c)
	runCMapLayoutsSmall(c)
	runCMapLayouts(c)
	runCMapSpec(c)
	runMalformed(c)
	runFonts(c)
	runDifferences(c)
	runPDF(c)
	runMultiFont(c)
	runExtract(c)
	c.Rep.Exhaustive = true
}

// ---- helpers --------------------------------------------------------------------

func scalarsSep(s string, sep string) string {
	if s == "" {
		return "-"
	}
	var sb strings.Builder
	first := true
	for _, r := range s {
		if !first {
			sb.WriteString(sep)
		}
		first = false
		sb.WriteString(strconv.FormatInt(int64(r), 16))
	}
	return sb.String()
}

// out renders an implementation string result for the impl stream.
func out(s string) string {
	if !utf8.ValidString(s) {
		return "invalid-utf8 " + hx.HexS(s)
	}
	return scalarsSep(s, " ")
}

func runesC(rs []rune) string {
	if len(rs) == 0 {
		return "-"
	}
	parts := make([]string, len(rs))
	for i, r := range rs {
		parts[i] = strconv.FormatInt(int64(r), 16)
	}
	return strings.Join(parts, ",")
}

func unhex(v interface{}) []byte {
	s, _ := v.(string)
	if s == "" || s == "-" {
		return nil
	}
	b, _ := hex.DecodeString(s)
	return b
}

func kase(kind string, kv ...interface{}) map[string]interface{} {
	m := map[string]interface{}{"kind": kind}
	for i := 0; i+1 < len(kv); i += 2 {
		m[kv[i].(string)] = kv[i+1]
	}
	return m
}

// checkOutput applies the output invariant of the property to a text the library returned:
// valid UTF-8 always; NFC where the library normalises (Font.DecodeString, fragment texts) —
// the low-level decoders (Encoding.DecodeString, DecodeUTF16BE/LE, CMap.LookupString) return the
// specified code points unnormalised, by design.
func checkOutput(c *hx.Ctx, where string, s string, k map[string]interface{}, nfc bool) {
	c.Check("C07/output-invalid-utf8", utf8.ValidString(s), k, func() string {
		return fmt.Sprintf("%s returned invalid UTF-8 %q", where, s)
	})
	if nfc && utf8.ValidString(s) {
		c.Check("C07/output-not-nfc", isNFC(s), k, func() string {
			return fmt.Sprintf("%s returned text that is not in NFC: %q (%s)", where, s, scalarsSep(s, " "))
		})
	}
}

// Replay re-runs one recorded failing case on the implementation.
func Replay(c *hx.Ctx, k map[string]interface{}) {
	kind, _ := k["kind"].(string)
	switch kind {
	case "enc":
		name, _ := k["name"].(string)
		b, _ := k["byte"].(float64)
		encByteOracles(c, name, int(b))
	case "utf16":
		replayUTF16(c, k)
	case "cmap":
		replayCMap(c, k)
	case "malformed":
		malformedCase(c, unhex(k["prog"]), unhex(k["data"]), 0, false)
	case "font":
		replayFont(c, k)
	case "nofont":
		noFontCase(c, unhex(k["data"]), false)
	case "glyph":
		replayGlyph(c, k)
	case "pdf":
		replayPDF(c, k)
	case "multifont":
		replayMultiFont(c, k)
	case "ext":
		replayExt(c, k)
	default:
		c.Note("C07 replay: unknown case kind %q", kind)
	}
}
