// Package c07 is the correspondence/oracle harness for property C07.
package c07

import "verifharness/hx"

func init() { hx.Register("C07", Run, Replay) }

// Run is not built yet for this property.
func Run(c *hx.Ctx) { c.Note("C07: harness not built") }

func Replay(c *hx.Ctx, kase map[string]interface{}) {}
