package c07

import (
	"fmt"

	"github.com/tsawler/tabula/font"
	"golang.org/x/text/encoding/charmap"

	"verifharness/hx"
)

// the named encodings of the property and the Go table each one is documented to use
var namedEncodings = []struct{ name, tableVar, short string }{
	{"WinAnsiEncoding", "winAnsiTable", "winansi"},
	{"MacRomanEncoding", "macRomanTable", "macroman"},
	{"PDFDocEncoding", "pdfDocTable", "pdfdoc"},
	{"StandardEncoding", "standardEncodingTableData", "standard"},
	{"SymbolEncoding", "symbolEncodingTable", "symbol"},
	{"ZapfDingbatsEncoding", "zapfDingbatsEncodingTable", "zapfdingbats"},
}

// codes where x/text (cp1252 / Mac OS Roman) and the PDF encodings legitimately differ
var xtextExceptions = map[string]map[int][]rune{
	"WinAnsiEncoding":  {0xA0: {0x20}, 0xAD: {0x2D}},
	"MacRomanEncoding": {0xCA: {0x20}, 0xDB: {0xA4}, 0xDA: {0x2215}, 0xE1: {0x2219}, 0xF8: {0x2C9}, 0xB5: {0x3BC}},
}

func inSet(r rune, set []rune) bool {
	for _, x := range set {
		if x == r {
			return true
		}
	}
	return false
}

func xtextOf(name string) (*charmap.Charmap, string) {
	switch name {
	case "WinAnsiEncoding":
		return charmap.Windows1252, "cp1252"
	case "MacRomanEncoding":
		return charmap.Macintosh, "macintosh"
	}
	return nil, ""
}

// encByteOracles: the statement-level checks for one (encoding, byte).
func encByteOracles(c *hx.Ctx, name string, b int) {
	var tv, short string
	for _, e := range namedEncodings {
		if e.name == name {
			tv, short = e.tableVar, e.short
		}
	}
	if tv == "" {
		return
	}
	k := kase("enc", "name", name, "byte", b)
	var r rune
	var s string
	if p := hx.Safe(func() {
		enc := font.GetEncoding(name)
		r = enc.Decode(byte(b))
		s = enc.DecodeString([]byte{byte(b)})
	}); p != "" {
		c.Check("C07/panic", false, k, func() string { return "GetEncoding/Decode panicked: " + p })
		return
	}
	ref := refTables[tv][b]
	if ref != nil {
		c.Check("C07/encoding-vs-ref-"+short, inSet(r, ref) && s == string(r), k, func() string {
			return fmt.Sprintf("%s byte 0x%02X decodes to U+%04X (DecodeString %q); ISO 32000-1 Annex D reference allows %s", name, b, r, s, runesC(ref))
		})
		if cm, xn := xtextOf(name); cm != nil {
			xt := cm.DecodeByte(byte(b))
			c.Check("C07/encoding-vs-xtext-"+xn, r == xt || inSet(r, xtextExceptions[name][b]), k, func() string {
				return fmt.Sprintf("%s byte 0x%02X decodes to U+%04X; x/text charmap %s gives U+%04X", name, b, r, xn, xt)
			})
			c.Check("C07/ref-table-matches-xtext", inSet(xt, ref), k, func() string {
				return fmt.Sprintf("harness reference for %s byte 0x%02X is %s but x/text %s gives U+%04X", name, b, runesC(ref), xn, xt)
			})
		}
	}
	checkOutput(c, "DecodeString of "+name, s, k, false)
}

func runEncodings(c *hx.Ctx) {
	names := []string{}
	for _, e := range namedEncodings {
		names = append(names, e.name)
	}
	for _, e := range namedEncodings {
		enc := font.GetEncoding(e.name)
		c.Check("C07/getencoding-name", enc.Name() == e.name, kase("enc", "name", e.name, "byte", 0), func() string {
			return fmt.Sprintf("GetEncoding(%q).Name() = %q", e.name, enc.Name())
		})
		for b := 0; b < 256; b++ {
			encByteOracles(c, e.name, b)
			c.Op(fmt.Sprintf("c07.dec %s %d", hx.HexS(e.name), b), fmt.Sprint(int(enc.Decode(byte(b)))))
			c.Op(fmt.Sprintf("c07.enc %s %s", hx.HexS(e.name), hx.Hex([]byte{byte(b)})), enc.Name()+" "+out(enc.DecodeString([]byte{byte(b)})))
			c.Op(fmt.Sprintf("c07.ref %s %d", e.tableVar, b), runesC(refTables[e.tableVar][b]))
			c.Case(fmt.Sprintf("%s/%d", e.name, b), enc.Decode(byte(b)) != 0)
			c.Count("enc-byte")
		}
	}
	// name dispatch incl. the default, and whole strings (0 = unmapped is skipped)
	others := []string{"", "Identity-H", "Identity-V", "winansiencoding", "WinAnsiEncoding ", "MacExpertEncoding", "Symbol", "ZapfDingbats", "StandardEncodingTable", "\xff\xfe"}
	all := append(append([]string{}, names...), others...)
	for i := 0; i < c.N(400, 6000); i++ {
		r := c.Rng.Fork(uint64(i))
		name := hx.Pick(r, all)
		if r.Chance(1, 10) {
			name = string(r.Bytes(r.Range(0, 12)))
		}
		data := r.Bytes(r.Range(0, 40))
		enc := font.GetEncoding(name)
		s := enc.DecodeString(data)
		c.Op(fmt.Sprintf("c07.enc %s %s", hx.HexS(name), hx.Hex(data)), enc.Name()+" "+out(s))
		checkOutput(c, "DecodeString", s, kase("font", "enc", hx.HexS(name), "data", hx.Hex(data)), false)
		c.Case("encs"+name+string(data), s != "")
		c.Count("enc-string")
	}
}
