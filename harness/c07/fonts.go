package c07

import (
	"fmt"
	"reflect"
	"sort"
	"strings"

	"github.com/tsawler/tabula/contentstream"
	"github.com/tsawler/tabula/core"
	"github.com/tsawler/tabula/font"
	"github.com/tsawler/tabula/text"
	"golang.org/x/text/unicode/norm"

	"verifharness/hx"
)

// nfcTable: NFC is a parameter of the model; the harness supplies x/text's result for every
// string the implementation could have normalised (each decoding branch applied to data).
func nfcTable(cm *font.CMap, encName string, diffs map[byte]rune, data []byte) string {
	var pres []string
	add := func(s string) {
		for _, p := range pres {
			if p == s {
				return
			}
		}
		pres = append(pres, s)
	}
	hx.Safe(func() {
		if cm != nil {
			add(cm.LookupString(data))
		}
		if len(data) >= 2 {
			add(font.DecodeUTF16BE(append([]byte(nil), data[2:]...)))
			add(font.DecodeUTF16LE(append([]byte(nil), data[2:]...)))
		}
		add(font.GetEncoding(encName).DecodeString(data))
		if len(diffs) > 0 {
			add(font.NewCustomEncoding(font.GetEncoding(encName), diffs).DecodeString(data))
		}
		add(strings.ToValidUTF8(string(data), "�"))
	})
	var parts []string
	for _, p := range pres {
		if !strings.Contains(out(p), "invalid") {
			parts = append(parts, scalarsSep(p, ",")+">"+scalarsSep(norm.NFC.String(p), ","))
		}
	}
	if len(parts) == 0 {
		return "~"
	}
	return strings.Join(parts, ";")
}

// diffsField: Font.Differences as the op field `code>rune;...` (hex, sorted by code; "~" = none).
func diffsField(diffs map[byte]rune) string {
	if len(diffs) == 0 {
		return "~"
	}
	var cs []int
	for c := range diffs {
		cs = append(cs, int(c))
	}
	sort.Ints(cs)
	parts := make([]string, len(cs))
	for i, c := range cs {
		parts[i] = fmt.Sprintf("%x>%x", c, diffs[byte(c)])
	}
	return strings.Join(parts, ";")
}

// Font.Differences exists since tabula b3a0e07. The harness reaches the field by name so that
// it still builds against a tree without it (there a font simply has no differences, and the
// oracles say what that means for the text).
func setDifferences(f *font.Font, diffs map[byte]rune) {
	if len(diffs) == 0 {
		return
	}
	fv := reflect.ValueOf(f).Elem().FieldByName("Differences")
	if !fv.IsValid() || !fv.CanSet() || fv.Type() != reflect.TypeOf(map[byte]rune(nil)) {
		return
	}
	m := map[byte]rune{}
	for b, r := range diffs {
		m[b] = r
	}
	fv.Set(reflect.ValueOf(m))
}

func getDifferences(f *font.Font) map[byte]rune {
	fv := reflect.ValueOf(f).Elem().FieldByName("Differences")
	if !fv.IsValid() {
		return nil
	}
	m, _ := fv.Interface().(map[byte]rune)
	return m
}

func parseDiffsField(s string) map[byte]rune {
	if s == "" || s == "~" {
		return nil
	}
	m := map[byte]rune{}
	for _, p := range strings.Split(s, ";") {
		var c, r int
		if _, err := fmt.Sscanf(p, "%x>%x", &c, &r); err == nil {
			m[byte(c)] = rune(r)
		}
	}
	return m
}

// fontCase runs (*Font).DecodeString and the same font through text.Extractor.
// diffs is Font.Differences (nil: the font has no /Differences).
// want == nil: only the output invariant is checked.
func fontCase(c *hx.Ctx, prog []byte, hasCMap bool, encName string, diffs map[byte]rune, data []byte, wantKey string, want *string, ops bool) {
	progHex := "~"
	if hasCMap {
		progHex = hx.Hex(prog)
	}
	k := kase("font", "prog", progHex, "enc", hx.HexS(encName), "diffs", diffsField(diffs), "data", hx.Hex(data))
	if want != nil {
		k["want"] = hx.HexS(*want)
		k["key"] = wantKey
	}
	var cm *font.CMap
	if hasCMap {
		var p string
		cm, p = parseCMap(prog)
		if p != "" || cm == nil {
			c.Check("C07/panic", false, k, func() string { return "ParseToUnicodeCMap panicked: " + p })
			return
		}
	}
	f := font.NewFont("F1", "Helvetica", "Type1")
	f.Encoding = encName
	f.ToUnicodeCMap = cm
	setDifferences(f, diffs)
	var got string
	if p := hx.Safe(func() { got = f.DecodeString(append([]byte(nil), data...)) }); p != "" {
		c.Check("C07/panic", false, k, func() string { return "Font.DecodeString panicked: " + p })
		return
	}
	if want != nil {
		c.Check(wantKey, got == *want, k, func() string {
			return fmt.Sprintf("Font{ToUnicode:%v, Encoding:%q, Differences:%s}.DecodeString(%x) = %s, specified %s", hasCMap, encName, diffsField(diffs), data,
				scalarsSep(firstNs(got, 16), ","), scalarsSep(firstNs(*want, 16), ","))
		})
	}
	checkOutput(c, "Font.DecodeString", got, k, true)
	if ops {
		c.Op(fmt.Sprintf("c07.font %s %s %s %s %s", progHex, hx.HexS(encName), diffsField(diffs), hx.Hex(data), nfcTable(cm, encName, diffs, data)), out(got))
	}
	// the same font registered with the text extractor: BT /F1 12 Tf <data> Tj ET
	var frag string
	var n int
	if p := hx.Safe(func() {
		e := text.NewExtractor()
		e.RegisterParsedFont("/F1", f)
		frs, err := e.Extract([]contentstream.Operation{
			{Operator: "BT"},
			{Operator: "Tf", Operands: []core.Object{core.Name("F1"), core.Int(12)}},
			{Operator: "Tj", Operands: []core.Object{core.String(data)}},
			{Operator: "ET"},
		})
		if err == nil {
			n = len(frs)
			if n > 0 {
				frag = frs[0].Text
			}
		} else {
			n = -1
		}
	}); p != "" {
		c.Check("C07/panic", false, k, func() string { return "text.Extractor panicked: " + p })
		return
	}
	c.Check("C07/extractor-fragment-text", n == 1 && frag == got, k, func() string {
		return fmt.Sprintf("fragment text of <%x> Tj with the font registered: %d fragment(s), text %q; Font.DecodeString gives %q", data, n, frag, got)
	})
	checkOutput(c, "fragment text", frag, k, true)
}

func replayFont(c *hx.Ctx, k map[string]interface{}) {
	progHex, _ := k["prog"].(string)
	has := progHex != "~" && progHex != ""
	var want *string
	key, _ := k["key"].(string)
	if w, ok := k["want"].(string); ok {
		s := string(unhex(w))
		want = &s
	}
	ds, _ := k["diffs"].(string)
	fontCase(c, unhex(k["prog"]), has, string(unhex(k["enc"])), parseDiffsField(ds), unhex(k["data"]), key, want, false)
}

// noFontCase: a Tj with no font selected (showText's font-less path).
func noFontCase(c *hx.Ctx, data []byte, ops bool) {
	k := kase("nofont", "data", hx.Hex(data))
	var frag string
	n := 0
	if p := hx.Safe(func() {
		e := text.NewExtractor()
		frs, err := e.Extract([]contentstream.Operation{
			{Operator: "BT"},
			{Operator: "Tj", Operands: []core.Object{core.String(data)}},
			{Operator: "ET"},
		})
		if err == nil {
			n = len(frs)
			if n > 0 {
				frag = frs[0].Text
			}
		}
	}); p != "" {
		c.Check("C07/panic", false, k, func() string { return "text.Extractor panicked: " + p })
		return
	}
	if n != 1 {
		c.Count("nofont-no-fragment")
		return
	}
	checkOutput(c, "fragment text (no font selected)", frag, k, true)
	if ops {
		pre := strings.ToValidUTF8(string(data), "�")
		c.Op(fmt.Sprintf("c07.nofont %s %s", hx.Hex(data), scalarsSep(pre, ",")+">"+scalarsSep(norm.NFC.String(pre), ",")), out(frag))
	}
}

func randData(r *hx.Rng) []byte {
	n := r.Range(0, 20)
	switch r.Intn(5) {
	case 0: // valid UTF-8 incl. decomposed sequences
		s := []rune{}
		for i := 0; i < n/2; i++ {
			s = append(s, randScalar(r))
			if r.Chance(1, 3) {
				s = append(s, rune(r.Range(0x300, 0x36F)))
			}
		}
		return []byte(string(s))
	case 1: // nearly valid UTF-8
		b := []byte("aé€😀é")
		b[r.Intn(len(b))] = byte(r.U64())
		return b
	case 2:
		return append([]byte{0xFE, 0xFF}, r.Bytes(n)...)
	case 3:
		return append([]byte{0xFF, 0xFE}, r.Bytes(n)...)
	}
	return r.Bytes(n)
}

func runFonts(c *hx.Ctx) {
	encNames := []string{"WinAnsiEncoding", "MacRomanEncoding", "PDFDocEncoding", "StandardEncoding", "SymbolEncoding", "ZapfDingbatsEncoding", "", "Identity-H", "Custom"}
	// 1. ToUnicode takes precedence over BOM and encoding
	for i := 0; i < c.N(250, 8000); i++ {
		r := c.Rng.Fork(uint64(7000000 + i))
		m := genMap(r)
		if r.Chance(1, 4) { // make the code string look like a BOM / like mapped WinAnsi text
			m = &lmap{width: 2, runs: []run{{lo: 0xFEFF, texts: [][]rune{{'B', 'O', 'M'}}}, {lo: 0xFFFE, texts: [][]rune{{0x1D400}}}, {lo: 0x4142, texts: [][]rune{{'x', 0x301}}}}}
		}
		p := hx.Pick(r, policyForms)
		p.crlf, p.upper = r.Bool(), r.Bool()
		prog := render(m, p)
		es := sampleEntries(r, m.entriesFor(p), 12)
		if m.runs[0].lo == 0xFEFF && m.width == 2 {
			es = append([]entry{m.entries()[r.Intn(2)]}, es...)
		}
		var data []byte
		var sb strings.Builder
		for _, e := range es {
			data = append(data, codeBytes(e.code, m.width)...)
			sb.WriteString(string(e.text))
		}
		want := norm.NFC.String(sb.String())
		fontCase(c, prog, true, hx.Pick(r, encNames), nil, data, "C07/tounicode-precedence", &want, len(m.entries()) <= 40)
		c.Case("fontcm"+string(data)+string(prog[:min(len(prog), 40)]), true)
		c.Count("font-tounicode")
	}
	// 2. UTF-16 with a byte-order mark (no ToUnicode)
	for i := 0; i < c.N(300, 6000); i++ {
		r := c.Rng.Fork(uint64(8000000 + i))
		n := r.Range(0, 16)
		s := make([]rune, n)
		for j := range s {
			s[j] = randScalar(r)
			if r.Chance(1, 4) {
				s[j] = rune(r.Range(0x300, 0x36F))
			}
		}
		be := r.Bool()
		data := []byte{0xFF, 0xFE}
		if be {
			data = []byte{0xFE, 0xFF}
		}
		data = append(data, utf16Bytes(s, be)...)
		want := norm.NFC.String(string(s))
		fontCase(c, nil, false, hx.Pick(r, encNames), nil, data, "C07/utf16-bom-decode", &want, true)
		c.Case("fontbom"+string(data), n > 0)
		c.Count("font-bom")
	}
	// 3. named encoding, raw bytes, arbitrary byte strings: output invariant on every path
	for i := 0; i < c.N(800, 20000); i++ {
		r := c.Rng.Fork(uint64(9000000 + i))
		enc := hx.Pick(r, encNames)
		data := randData(r)
		var want *string
		key := ""
		isBOM := len(data) >= 2 && ((data[0] == 0xFE && data[1] == 0xFF) || (data[0] == 0xFF && data[1] == 0xFE))
		if enc != "" && !isBOM {
			w := norm.NFC.String(font.GetEncoding(enc).DecodeString(data))
			want, key = &w, "C07/font-named-encoding"
		}
		hasCM := r.Chance(1, 5)
		var prog []byte
		if hasCM {
			prog = mutate(r, render(genMapSmall(r), hx.Pick(r, policyForms)))
			want = nil
		}
		fontCase(c, prog, hasCM, enc, nil, data, key, want, true)
		c.Case("fontany"+enc+string(data), len(data) > 0)
		if enc == "" && !hasCM && !isBOM {
			c.Count("font-raw-bytes")
		} else {
			c.Count("font-bytes")
		}
	}
	// 4. no font selected at all
	for i := 0; i < c.N(300, 6000); i++ {
		r := c.Rng.Fork(uint64(9500000 + i))
		data := randData(r)
		noFontCase(c, data, true)
		c.Case("nofont"+string(data), len(data) > 0)
		c.Count("nofont")
	}
}

func genMapSmall(r *hx.Rng) *lmap {
	m := genMap(r)
	if len(m.runs) > 5 {
		m.runs = m.runs[:5]
	}
	return m
}
