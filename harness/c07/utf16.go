package c07

import (
	"fmt"
	"unicode/utf16"

	"github.com/tsawler/tabula/font"
	"golang.org/x/text/unicode/norm"

	"verifharness/hx"
)

func isNFC(s string) bool { return norm.NFC.IsNormalString(s) }

// utf16Bytes is the harness's own encoder (Go's unicode/utf16, independent of tabula).
func utf16Bytes(s []rune, bigEndian bool) []byte {
	us := utf16.Encode(s)
	b := make([]byte, 0, 2*len(us))
	for _, u := range us {
		if bigEndian {
			b = append(b, byte(u>>8), byte(u))
		} else {
			b = append(b, byte(u), byte(u>>8))
		}
	}
	return b
}

var edgeScalars = []rune{0x20, 0x41, 0x7F, 0x80, 0xFF, 0x100, 0x301, 0x7FF, 0x800, 0xD7FF, 0xE000, 0xFEFF, 0xFFFD, 0xFFFE, 0xFFFF,
	0x10000, 0x1D400, 0x1F600, 0x2F800, 0xFFFFF, 0x100000, 0x10FFFF, 0xFB00, 0xFB01, 0x0, 0xA, 0xD}

func randScalar(r *hx.Rng) rune {
	switch r.Intn(6) {
	case 0:
		return rune(r.Range(0x20, 0x7E))
	case 1:
		return hx.Pick(r, edgeScalars)
	case 2:
		return rune(r.Range(0x10000, 0x10FFFF))
	case 3:
		return rune(r.Range(0xE000, 0xFFFF))
	default:
		return rune(r.Range(0, 0xD7FF))
	}
}

func utf16Roundtrip(c *hx.Ctx, s []rune, ops bool) {
	for _, be := range []bool{true, false} {
		enc := utf16Bytes(s, be)
		var got string
		name, op := "DecodeUTF16LE", "c07.u16le"
		if be {
			name, op = "DecodeUTF16BE", "c07.u16be"
		}
		k := kase("utf16", "be", be, "data", hx.Hex(enc))
		if p := hx.Safe(func() {
			cp := append([]byte(nil), enc...)
			if be {
				got = font.DecodeUTF16BE(cp)
			} else {
				got = font.DecodeUTF16LE(cp)
			}
		}); p != "" {
			c.Check("C07/panic", false, k, func() string { return name + " panicked: " + p })
			continue
		}
		c.Check("C07/utf16-roundtrip", got == string(s), k, func() string {
			return fmt.Sprintf("%s(utf16 of %s) = %s", name, runesC(firstN(s, 8)), scalarsSep(firstNs(got, 8), ","))
		})
		if ops {
			c.Op(op+" "+hx.Hex(enc), out(got))
		}
	}
}

func firstN(s []rune, n int) []rune {
	if len(s) > n {
		return s[:n]
	}
	return s
}

func firstNs(s string, n int) string { return string(firstN([]rune(s), n)) }

func replayUTF16(c *hx.Ctx, k map[string]interface{}) {
	be, _ := k["be"].(bool)
	data := unhex(k["data"])
	us := make([]uint16, 0, len(data)/2)
	for i := 0; i+1 < len(data); i += 2 {
		if be {
			us = append(us, uint16(data[i])<<8|uint16(data[i+1]))
		} else {
			us = append(us, uint16(data[i+1])<<8|uint16(data[i]))
		}
	}
	utf16Roundtrip(c, utf16.Decode(us), false)
}

func runUTF16(c *hx.Ctx) {
	// every Unicode scalar value, in blocks (oracle on all; correspondence on all blocks in
	// thorough, a spread of blocks in quick)
	const block = 2048
	bi := 0
	for lo := rune(0); lo < 0x110000; lo += block {
		var s []rune
		for r := lo; r < lo+block; r++ {
			if r >= 0xD800 && r <= 0xDFFF {
				continue
			}
			s = append(s, r)
		}
		if len(s) == 0 {
			continue
		}
		utf16Roundtrip(c, s, c.Thorough() || bi%37 == 0 || lo == 0xD800-block || lo == 0xE000 || lo == 0x10000 || lo == 0x110000-block)
		c.Case(fmt.Sprintf("u16sweep%x", lo), true)
		c.Count("utf16-sweep-block")
		bi++
	}
	for i := 0; i < c.N(600, 20000); i++ {
		r := c.Rng.Fork(uint64(1000000 + i))
		n := r.Range(0, 24)
		s := make([]rune, n)
		for j := range s {
			s[j] = randScalar(r)
		}
		utf16Roundtrip(c, s, true)
		c.Case("u16"+string(s), n > 0)
		c.Count("utf16-valid")
	}
	// malformed UTF-16: lone surrogates, odd lengths — correspondence only
	for i := 0; i < c.N(600, 20000); i++ {
		r := c.Rng.Fork(uint64(2000000 + i))
		n := r.Range(0, 14)
		var b []byte
		for j := 0; j < n; j++ {
			switch r.Intn(4) {
			case 0:
				b = append(b, byte(r.Range(0xD8, 0xDF)), byte(r.U64()))
			case 1:
				b = append(b, byte(r.U64()), byte(r.Range(0xD8, 0xDF)))
			default:
				b = append(b, byte(r.U64()), byte(r.U64()))
			}
		}
		if r.Chance(1, 3) {
			b = append(b, byte(r.U64()))
		}
		be := font.DecodeUTF16BE(append([]byte(nil), b...))
		le := font.DecodeUTF16LE(append([]byte(nil), b...))
		c.Op("c07.u16be "+hx.Hex(b), out(be))
		c.Op("c07.u16le "+hx.Hex(b), out(le))
		k := kase("font", "enc", "-", "data", hx.Hex(append([]byte{0xFE, 0xFF}, b...)))
		checkOutput(c, "DecodeUTF16BE", be, k, false)
		checkOutput(c, "DecodeUTF16LE", le, k, false)
		cs, err := font.VerifCMapDecodeUTF16BE(b)
		if err != nil {
			c.Op("c07.cu16 "+hx.Hex(b), "err")
		} else {
			c.Op("c07.cu16 "+hx.Hex(b), "ok "+out(cs))
		}
		c.Case("u16m"+string(b), be != "")
		c.Count("utf16-malformed")
	}
}
