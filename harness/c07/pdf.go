package c07

import (
	"bytes"
	"fmt"
	"os"
	"path/filepath"
	"strings"

	"github.com/tsawler/tabula"
	"golang.org/x/text/unicode/norm"

	"verifharness/hx"
)

// minimalPDF writes a one-page PDF (classic xref table) whose only font /F1 is a simple
// TrueType font with the given /Encoding name ("" = none) and ToUnicode program (nil = none),
// and whose content shows each string of data with a hex-string Tj.
func minimalPDF(encName string, toUnicode []byte, shows [][]byte) []byte {
	var objs []string
	var content strings.Builder
	content.WriteString("BT /F1 12 Tf 72 700 Td\n")
	for _, d := range shows {
		fmt.Fprintf(&content, "<%x> Tj 0 -20 Td\n", d)
	}
	content.WriteString("ET\n")
	fontDict := "<< /Type /Font /Subtype /TrueType /BaseFont /ABCDEF+Verif"
	if encName != "" {
		fontDict += " /Encoding /" + encName
	}
	if toUnicode != nil {
		fontDict += " /ToUnicode 6 0 R"
	}
	fontDict += " >>"
	objs = append(objs,
		"<< /Type /Catalog /Pages 2 0 R >>",
		"<< /Type /Pages /Kids [3 0 R] /Count 1 >>",
		"<< /Type /Page /Parent 2 0 R /MediaBox [0 0 612 792] /Contents 4 0 R /Resources << /Font << /F1 5 0 R >> >> >>",
		fmt.Sprintf("<< /Length %d >>\nstream\n%sendstream", content.Len(), content.String()),
		fontDict)
	if toUnicode != nil {
		objs = append(objs, fmt.Sprintf("<< /Length %d >>\nstream\n%s\nendstream", len(toUnicode), toUnicode))
	}
	var b bytes.Buffer
	b.WriteString("%PDF-1.4\n")
	offs := make([]int, len(objs))
	for i, o := range objs {
		offs[i] = b.Len()
		fmt.Fprintf(&b, "%d 0 obj\n%s\nendobj\n", i+1, o)
	}
	xref := b.Len()
	fmt.Fprintf(&b, "xref\n0 %d\n0000000000 65535 f \n", len(objs)+1)
	for _, o := range offs {
		fmt.Fprintf(&b, "%010d 00000 n \n", o)
	}
	fmt.Fprintf(&b, "trailer\n<< /Size %d /Root 1 0 R >>\nstartxref\n%d\n%%%%EOF\n", len(objs)+1, xref)
	return b.Bytes()
}

// pdfCase: fragment texts from tabula.Open(file).Fragments() for a font with a ToUnicode CMap
// and an encoding; want[i] is the specified text of shows[i].
func pdfCase(c *hx.Ctx, dir string, idx int, encName string, prog []byte, shows [][]byte, want []string) {
	k := kase("pdf", "enc", encName, "prog", hx.Hex(prog), "shows", func() []string {
		s := make([]string, len(shows))
		for i, d := range shows {
			s[i] = hx.Hex(d)
		}
		return s
	}(), "want", func() []string {
		s := make([]string, len(want))
		for i, d := range want {
			s[i] = hx.HexS(d)
		}
		return s
	}())
	path := filepath.Join(dir, fmt.Sprintf("c07-%d.pdf", idx))
	if err := os.WriteFile(path, minimalPDF(encName, prog, shows), 0o644); err != nil {
		c.Note("C07 pdf: %v", err)
		return
	}
	defer os.Remove(path)
	var texts []string
	var ferr error
	if p := hx.Safe(func() {
		frs, _, err := tabula.Open(path).Fragments()
		ferr = err
		for _, f := range frs {
			texts = append(texts, f.Text)
		}
	}); p != "" {
		c.Check("C07/panic", false, k, func() string { return "tabula.Open(..).Fragments() panicked: " + p })
		return
	}
	if ferr != nil {
		c.Count("pdf-open-error")
		c.Note("C07 pdf: Fragments: %v", ferr)
		return
	}
	for _, t := range texts {
		checkOutput(c, "fragment text from tabula.Open(f).Fragments()", t, k, true)
	}
	// fragments come back in show order for this layout (one per line, top to bottom)
	var nonEmptyWant []string
	for _, w := range want {
		nonEmptyWant = append(nonEmptyWant, w)
	}
	ok := len(texts) == len(nonEmptyWant)
	if ok {
		for i := range texts {
			if texts[i] != nonEmptyWant[i] {
				ok = false
			}
		}
	}
	c.Check("C07/pdf-fragment-text", ok, k, func() string {
		return fmt.Sprintf("fragments of the PDF (font /Encoding %q, ToUnicode %v): got %q, specified %q", encName, prog != nil, texts, nonEmptyWant)
	})
}

func replayPDF(c *hx.Ctx, k map[string]interface{}) {
	enc, _ := k["enc"].(string)
	var shows [][]byte
	var want []string
	if l, ok := k["shows"].([]interface{}); ok {
		for _, x := range l {
			shows = append(shows, unhex(x))
		}
	}
	if l, ok := k["want"].([]interface{}); ok {
		for _, x := range l {
			want = append(want, string(unhex(x)))
		}
	}
	prog := unhex(k["prog"])
	dir, err := os.MkdirTemp("", "c07pdf")
	if err != nil {
		return
	}
	defer os.RemoveAll(dir)
	pdfCase(c, dir, 0, enc, prog, shows, want)
}

func runPDF(c *hx.Ctx) {
	dir, err := os.MkdirTemp("", "c07pdf")
	if err != nil {
		c.Note("C07 pdf: %v", err)
		return
	}
	defer os.RemoveAll(dir)
	for i := 0; i < c.N(60, 1500); i++ {
		r := c.Rng.Fork(uint64(9800000 + i))
		enc := hx.Pick(r, []string{"WinAnsiEncoding", "MacRomanEncoding", "StandardEncoding", ""})
		if r.Chance(1, 3) {
			// no ToUnicode: named encoding of printable ASCII (identical in the three Latin encodings
			// except quotes/grave, which are avoided), or UTF-16 with BOM
			if enc == "" {
				enc = "WinAnsiEncoding"
			}
			var shows [][]byte
			var want []string
			for j := r.Range(1, 4); j > 0; j-- {
				if r.Bool() {
					n := r.Range(1, 12)
					s := make([]rune, n)
					for x := range s {
						s[x] = randScalar(r)
						for s[x] < 0x20 || s[x] == 0xFEFF {
							s[x] = randScalar(r)
						}
					}
					shows = append(shows, append([]byte{0xFE, 0xFF}, utf16Bytes(s, true)...))
					want = append(want, norm.NFC.String(string(s)))
				} else {
					n := r.Range(1, 12)
					b := make([]byte, n)
					for x := range b {
						b[x] = "ABCXYZabcxyz0189 .,;:!?()[]{}+-=/"[r.Intn(33)]
					}
					shows = append(shows, b)
					want = append(want, string(b))
				}
			}
			pdfCase(c, dir, i, enc, nil, shows, want)
			c.Count("pdf-no-tounicode")
		} else {
			m := genMapSmall(r)
			p := hx.Pick(r, policyForms)
			p.crlf, p.upper = r.Bool(), r.Bool()
			prog := render(m, p)
			es := m.entriesFor(p)
			var shows [][]byte
			var want []string
			for j := r.Range(1, 4); j > 0; j-- {
				var d []byte
				var sb strings.Builder
				for _, e := range sampleEntries(r, es, r.Range(1, 6)) {
					d = append(d, codeBytes(e.code, m.width)...)
					sb.WriteString(string(e.text))
				}
				shows = append(shows, d)
				want = append(want, norm.NFC.String(sb.String()))
			}
			pdfCase(c, dir, i, enc, prog, shows, want)
			c.Count("pdf-tounicode")
		}
		c.Case(fmt.Sprintf("pdf%d", i), true)
	}
}
