// Package hx is the common runtime of the correspondence harness: one PRNG,
// the op/impl line writers, the statement-level oracle recorder and the
// report that the check driver turns into evidence.
package hx

import (
	"bufio"
	"crypto/sha256"
	"encoding/hex"
	"encoding/json"
	"fmt"
	"os"
	"path/filepath"
	"runtime"
	"runtime/debug"
	"sort"
	"strconv"
	"strings"
	"time"
)

// Rng is splitmix64; every random choice of a run derives from one state.
type Rng struct{ s uint64 }

func NewRng(seed uint64) *Rng { return &Rng{s: seed*0x9E3779B97F4A7C15 + 0x1234567} }

func (r *Rng) U64() uint64 {
	r.s += 0x9E3779B97F4A7C15
	z := r.s
	z = (z ^ (z >> 30)) * 0xBF58476D1CE4E5B9
	z = (z ^ (z >> 27)) * 0x94D049BB133111EB
	return z ^ (z >> 31)
}

// Intn returns a value in [0,n).
func (r *Rng) Intn(n int) int {
	if n <= 0 {
		return 0
	}
	return int(r.U64() % uint64(n))
}

// Range returns a value in [lo,hi].
func (r *Rng) Range(lo, hi int) int { return lo + r.Intn(hi-lo+1) }

func (r *Rng) Bool() bool { return r.U64()&1 == 1 }

// Chance is true with probability num/den.
func (r *Rng) Chance(num, den int) bool { return r.Intn(den) < num }

func (r *Rng) Bytes(n int) []byte {
	b := make([]byte, n)
	for i := range b {
		b[i] = byte(r.U64())
	}
	return b
}

func Pick[T any](r *Rng, xs []T) T { return xs[r.Intn(len(xs))] }

func Shuffle[T any](r *Rng, xs []T) {
	for i := len(xs) - 1; i > 0; i-- {
		j := r.Intn(i + 1)
		xs[i], xs[j] = xs[j], xs[i]
	}
}

// Fork derives an independent stream (so that a case replays from its index).
func (r *Rng) Fork(i uint64) *Rng { return NewRng(r.s ^ (i+1)*0xD1B54A32D192ED03) }

// Failure is one statement-level oracle failure on the implementation.
type Failure struct {
	Key    string      `json:"key"`    // failure class, e.g. C17/placement
	Case   interface{} `json:"case"`   // replayable input
	Detail string      `json:"detail"` // expected vs actual
}

type Report struct {
	Property     string         `json:"property"`
	Tier         string         `json:"tier"`
	Seed         uint64         `json:"seed"`
	Evaluations  int            `json:"evaluations"`
	Ops          int            `json:"ops"`
	Distinct     int            `json:"distinct_nontrivial"`
	Rule         string         `json:"rule"`
	Distribution map[string]int `json:"distribution"`
	Samples      []string       `json:"samples"`
	Failures     []Failure      `json:"failures"`
	FailureCount map[string]int `json:"failure_count"`
	OracleChecks int            `json:"oracle_checks"`
	Exhaustive   bool           `json:"exhaustive"`
	Notes        []string       `json:"notes"`
}

type Ctx struct {
	Prop    string
	Tier    string
	Seed    uint64
	OutDir  string
	Rng     *Rng
	Rep     Report
	ops     *bufio.Writer
	impl    *bufio.Writer
	opsF    *os.File
	implF   *os.File
	seen    map[[16]byte]struct{}
	maxFail int
}

func NewCtx(prop, tier string, seed uint64, outDir string) (*Ctx, error) {
	if err := os.MkdirAll(outDir, 0o755); err != nil {
		return nil, err
	}
	of, err := os.Create(filepath.Join(outDir, "ops.txt"))
	if err != nil {
		return nil, err
	}
	inf, err := os.Create(filepath.Join(outDir, "impl.txt"))
	if err != nil {
		return nil, err
	}
	c := &Ctx{Prop: prop, Tier: tier, Seed: seed, OutDir: outDir, Rng: NewRng(seed),
		ops: bufio.NewWriterSize(of, 1<<20), impl: bufio.NewWriterSize(inf, 1<<20), opsF: of, implF: inf,
		seen: map[[16]byte]struct{}{}, maxFail: 20}
	c.Rep = Report{Property: prop, Tier: tier, Seed: seed, Distribution: map[string]int{}, FailureCount: map[string]int{}}
	return c, nil
}

func (c *Ctx) Thorough() bool { return c.Tier == "thorough" }

// N picks the case count for the tier.
func (c *Ctx) N(quick, thorough int) int {
	if c.Thorough() {
		return thorough
	}
	return quick
}

// Op records one correspondence pair: the op line for the Lean driver and the
// implementation's canonical reply.
func (c *Ctx) Op(line, implOut string) {
	if strings.ContainsAny(line, "\n\r") || strings.ContainsAny(implOut, "\n\r") {
		panic("hx: newline in op line: " + line)
	}
	c.ops.WriteString(line)
	c.ops.WriteByte('\n')
	c.impl.WriteString(implOut)
	c.impl.WriteByte('\n')
	c.Rep.Ops++
	if len(c.Rep.Samples) < 6 || (c.Rep.Ops%997 == 0 && len(c.Rep.Samples) < 12) {
		s := line + " => " + implOut
		if len(s) > 400 {
			s = s[:400] + "…"
		}
		c.Rep.Samples = append(c.Rep.Samples, s)
	}
}

// Case counts one generated case; canon is its canonical form, nontrivial says
// whether it reached a non-error, non-empty result.
func (c *Ctx) Case(canon string, nontrivial bool) {
	c.Rep.Evaluations++
	if nontrivial {
		h := sha256.Sum256([]byte(canon))
		var k [16]byte
		copy(k[:], h[:16])
		if _, ok := c.seen[k]; !ok {
			c.seen[k] = struct{}{}
			c.Rep.Distinct++
		}
	}
}

func (c *Ctx) Count(bucket string) { c.Rep.Distribution[bucket]++ }

func (c *Ctx) Note(format string, a ...interface{}) {
	c.Rep.Notes = append(c.Rep.Notes, fmt.Sprintf(format, a...))
}

// Check records the outcome of one statement-level oracle evaluation on the
// implementation. On failure the case is kept (first maxFail per run).
func (c *Ctx) Check(key string, ok bool, kase interface{}, detail func() string) bool {
	c.Rep.OracleChecks++
	if ok {
		return true
	}
	c.Rep.FailureCount[key]++
	if c.Rep.FailureCount[key] <= 3 && len(c.Rep.Failures) < c.maxFail {
		c.Rep.Failures = append(c.Rep.Failures, Failure{Key: key, Case: kase, Detail: detail()})
	}
	return false
}

func (c *Ctx) Finish() error {
	c.ops.Flush()
	c.impl.Flush()
	c.opsF.Close()
	c.implF.Close()
	b, err := json.MarshalIndent(&c.Rep, "", " ")
	if err != nil {
		return err
	}
	return os.WriteFile(filepath.Join(c.OutDir, "report.json"), b, 0o644)
}

// Hex encodes bytes for the line protocol ("-" for empty).
func Hex(b []byte) string {
	if len(b) == 0 {
		return "-"
	}
	return hex.EncodeToString(b)
}

func HexS(s string) string { return Hex([]byte(s)) }

func HexList(xs []string) string {
	ys := make([]string, len(xs))
	for i, x := range xs {
		ys[i] = HexS(x)
	}
	return strings.Join(ys, ",")
}

func SortedKeys[V any](m map[string]V) []string {
	ks := make([]string, 0, len(m))
	for k := range m {
		ks = append(ks, k)
	}
	sort.Strings(ks)
	return ks
}

// Safe runs f and converts a panic into an error string.
func Safe(f func()) (panicked string) {
	defer func() {
		if r := recover(); r != nil {
			panicked = fmt.Sprint(r)
			// where in tabula: the first few frames inside the library
			n := 0
			for _, line := range strings.Split(string(debug.Stack()), "\n") {
				if strings.Contains(line, "/repo/") || (strings.Contains(line, "tabula") && strings.Contains(line, ".go:")) {
					panicked += " @ " + strings.TrimSpace(line)
					n++
					if n >= 3 {
						break
					}
				}
			}
		}
	}()
	f()
	return ""
}

// PropRunner is what each property package registers from init().
type PropRunner struct {
	Run    func(*Ctx)
	Replay func(*Ctx, map[string]interface{})
}

var Registry = map[string]PropRunner{}

func Register(id string, run func(*Ctx), replay func(*Ctx, map[string]interface{})) {
	Registry[id] = PropRunner{run, replay}
}

// Remarshal converts a generic JSON value into a typed one.
func Remarshal(in interface{}, out interface{}) error {
	b, err := json.Marshal(in)
	if err != nil {
		return err
	}
	return json.Unmarshal(b, out)
}

// Guard runs f (a call into the implementation) under a deadline. A panic is
// recorded as <prefix>/panic. If f does not return in time the failure
// <prefix>/hang is recorded, the report is written and the process exits with
// status 3: a spinning goroutine cannot be stopped, and letting it run would
// exhaust memory. Returns false if f panicked.
func (c *Ctx) Guard(prefix string, kase interface{}, seconds int, f func()) bool {
	done := make(chan string, 1)
	t0 := time.Now()
	go func() { done <- Safe(f) }()
	if slowMs > 0 {
		defer func() {
			if d := time.Since(t0); d > time.Duration(slowMs)*time.Millisecond {
				fmt.Fprintf(os.Stderr, "hx slow %s %.1fs\n", prefix, d.Seconds())
			}
		}()
	}
	deadline := time.After(time.Duration(seconds) * time.Second)
	tick := time.NewTicker(100 * time.Millisecond)
	defer tick.Stop()
	for {
		select {
		case msg := <-done:
			if msg != "" {
				c.Check(prefix+"/panic", false, kase, func() string { return msg })
				return false
			}
			return true
		case <-tick.C:
			var ms runtime.MemStats
			runtime.ReadMemStats(&ms)
			if ms.HeapInuse > MemLimit {
				// garbage of earlier cases that has not been collected yet counts in HeapInuse:
				// collect first, so that the verdict does not depend on GC timing
				runtime.GC()
				runtime.ReadMemStats(&ms)
			}
			if ms.HeapInuse > MemLimit {
				c.Check(prefix+"/memory", false, kase, func() string {
					return fmt.Sprintf("heap grew to %d MiB during one implementation call", ms.HeapInuse>>20)
				})
				c.Note("aborted after excessive allocation; remaining cases not run")
				c.Finish()
				os.Exit(3)
			}
		case <-deadline:
			c.Check(prefix+"/hang", false, kase, func() string {
				return fmt.Sprintf("implementation call did not return within %d s", seconds)
			})
			c.Note("aborted after a hang; remaining cases not run")
			c.Finish()
			os.Exit(3)
		}
	}
}

// slowMs (HX_SLOW_MS): debugging aid, report guarded calls slower than this on stderr.
var slowMs, _ = strconv.Atoi(os.Getenv("HX_SLOW_MS"))

// MemLimit is the heap size at which Guard aborts the run (excessive allocation).
var MemLimit uint64 = 3 << 30

// Current records the case about to run, so that a crash that kills the whole
// process (stack exhaustion, out of memory) still leaves a replayable input behind.
func (c *Ctx) Current(kase interface{}) {
	b, _ := json.Marshal(kase)
	os.WriteFile(filepath.Join(c.OutDir, "current.json"), b, 0o644)
}
