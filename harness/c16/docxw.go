package c16

import (
	"fmt"
	"sort"
	"strconv"

	"verifharness/hx"
	"verifharness/writers"
)

// Independent DOCX writer (ECMA-376 WordprocessingML): document.xml, styles.xml,
// numbering.xml, header/footer parts, relationships, content types.

var docxNS = [][2]string{
	{"w", "http://schemas.openxmlformats.org/wordprocessingml/2006/main"},
	{"r", "http://schemas.openxmlformats.org/officeDocument/2006/relationships"},
	{"mc", "http://schemas.openxmlformats.org/markup-compatibility/2006"},
	{"v", "urn:schemas-microsoft-com:vml"},
}

type docxPkg struct {
	Doc       *Node
	Styles    *Node // nil when the part is absent
	Numbering *Node // nil when the part is absent
	Tables    []*Node // the w:tbl elements of the body (not the nested ones), in order
	Headers   []*Node // the header parts in relationship order
	Footers   []*Node // the footer parts in relationship order
	Members   []writers.Member
}

func wval(tag, v string) *Node { return E(tag).A("w:val", v) }

// docxStyleFor picks the paragraph style id for a logical paragraph and records
// which style definitions the styles part needs.
func docxStyleFor(p *lpara, need map[string]bool) (style string, outline int) {
	outline = -1
	L := p.Level
	switch p.Kind {
	case "h":
		switch p.Via {
		case "builtin":
			style = styleID("Heading", L)
		case "custom":
			style = styleID("Kapitel9", L)
		case "inherited":
			style = styleID("Sub", L)
			need[styleID("Heading", L)] = true
		case "inherited2":
			style = styleID("SubSub", L)
			need[styleID("SubK", L)] = true
			need[styleID("Kapitel9", L)] = true
		case "name":
			style = styleID("berschrift", L)
		case "cyclic":
			style = styleID("CycA", L)
			need[styleID("CycB", L)] = true
		case "family":
			style = p.Fam // its ancestors are added by family.closeNeed
		case "outline":
			outline = p.Level - 1
			style = docxPlainStyle(p.Plain, need) // the body style the paragraph is written in, if any
		}
	case "p":
		if p.Fam != "" {
			style = p.Fam // a (cell) paragraph written in a style of the family
		}
		if s := docxPlainStyle(p.Via, need); s != "" {
			style = s
		}
		if p.Out9 {
			outline = 9 // "body text": no level
		}
	case "li":
		style = "ListParagraph"
	}
	if style != "" && style != undefStyleDocx {
		need[style] = true
	}
	return
}

// undefStyleDocx: a style id the styles part never defines (the id a German Word gives
// "Body Text"); a paragraph that names it is formatted like the default style.
const undefStyleDocx = "Textkrper"

// docxPlainStyle: the style id of a non-heading paragraph style (a p.Via value).
func docxPlainStyle(via string, need map[string]bool) string {
	switch via {
	case "quote":
		return "Quote"
	case "boldsmall":
		return "BoldSmall"
	case "bigbold":
		return "BigBold"
	case "cycplain":
		need["CycPlainB"] = true
		return "CycPlainA"
	case "undef":
		return undefStyleDocx
	case "normal":
		return "Normal"
	}
	return ""
}

func digitsSuffix(id string) (string, int) {
	i := len(id)
	for i > 0 && id[i-1] >= '0' && id[i-1] <= '9' {
		i--
	}
	n, _ := strconv.Atoi(id[i:])
	return id[:i], n
}

// Custom style ids do not spell their level as a digit (a reader must not take the
// level from the id): level L is the letter 'a'+L-1, and "Kapitel9c" even carries a
// misleading digit. Built-in ids (Heading3, localized berschrift3) do end in the level.
var letterBases = []string{"Kapitel9", "SubSub", "SubK", "Sub", "CycA", "CycB"}

func styleID(base string, L int) string {
	for _, b := range letterBases {
		if b == base {
			return base + string(rune('a'+L-1))
		}
	}
	return base + strconv.Itoa(L)
}

func splitStyleID(id string) (string, int) {
	for _, b := range letterBases {
		if len(id) == len(b)+1 && id[:len(b)] == b && id[len(b)] >= 'a' && id[len(b)] <= 'i' {
			return b, int(id[len(b)]-'a') + 1
		}
	}
	return digitsSuffix(id)
}

// docxStyleDef writes one style definition of the fixed style sheet.
func docxStyleDef(id string, noOutline bool) *Node {
	st := E("w:style").A("w:type", "paragraph").A("w:styleId", id)
	base, L := splitStyleID(id)
	rpr := E("w:rPr")
	ppr := E("w:pPr")
	name, basedOn := id, "Normal"
	switch base {
	case "Heading":
		name = "heading " + strconv.Itoa(L)
		if !noOutline {
			ppr.Add(wval("w:outlineLvl", strconv.Itoa(L-1)))
		}
		rpr.Add(E("w:b"), wval("w:sz", strconv.Itoa(40-2*L)))
	case "Kapitel9":
		name = "Kapitel " + string(rune('A'+L-1))
		st.A("w:customStyle", "1")
		ppr.Add(wval("w:jc", "center"), wval("w:outlineLvl", strconv.Itoa(L-1)))
		rpr.Add(E("w:i"))
	case "Sub":
		name, basedOn = "Sub "+string(rune('A'+L-1)), styleID("Heading", L)
		st.A("w:customStyle", "1")
		rpr.Add(wval("w:color", "FF0000"))
	case "SubK":
		name, basedOn = "SubK "+string(rune('A'+L-1)), styleID("Kapitel9", L)
		st.A("w:customStyle", "1")
	case "SubSub":
		name, basedOn = "SubSub "+string(rune('A'+L-1)), styleID("SubK", L)
		st.A("w:customStyle", "1")
		ppr.Add(wval("w:jc", "right"))
	case "berschrift":
		name = "heading " + strconv.Itoa(L)
		if !noOutline {
			ppr.Add(wval("w:outlineLvl", strconv.Itoa(L-1)))
		}
	case "CycA":
		name, basedOn = "CycA "+string(rune('A'+L-1)), styleID("CycB", L)
	case "CycB":
		name, basedOn = "CycB "+string(rune('A'+L-1)), styleID("CycA", L)
		ppr.Add(wval("w:outlineLvl", strconv.Itoa(L-1)))
	case "Quote":
		rpr.Add(E("w:i"))
	case "BoldSmall":
		name = "Bold Small"
		rpr.Add(E("w:b"), wval("w:sz", "22"))
	case "BigBold":
		name = "Big Bold"
		rpr.Add(E("w:b"), wval("w:sz", "36"))
	case "CycPlainA":
		basedOn = "CycPlainB"
	case "CycPlainB":
		basedOn = "CycPlainA"
		rpr.Add(E("w:b").A("w:val", "false"))
	case "ListParagraph":
		name = "List Paragraph"
		ppr.Add(E("w:ind").A("w:left", "720"))
	case "Normal":
		st.A("w:default", "1")
		basedOn = ""
	}
	st.Add(wval("w:name", name))
	if basedOn != "" {
		st.Add(wval("w:basedOn", basedOn))
	}
	if len(ppr.Kids) > 0 {
		st.Add(ppr)
	}
	if len(rpr.Kids) > 0 {
		st.Add(rpr)
	}
	return st
}

// docxFamilyDef writes a derived style of the document's style family: basedOn its
// parent, and - when it overrides - an outline level of its own (0-based, ECMA-376
// 17.3.1.20; paragraph properties not given are inherited along basedOn, 17.7.4.3).
func docxFamilyDef(s *fstyle) *Node {
	st := E("w:style").A("w:type", "paragraph").A("w:customStyle", "1").A("w:styleId", s.ID)
	st.Add(wval("w:name", "Fam "+s.ID[3:]), wval("w:basedOn", s.Parent))
	ppr := E("w:pPr")
	if s.Depth%2 == 0 {
		ppr.Add(E("w:keepNext"))
	}
	if s.Own > 0 {
		ppr.Add(wval("w:outlineLvl", strconv.Itoa(s.Own-1)))
	}
	if len(ppr.Kids) > 0 {
		st.Add(ppr)
	}
	if s.Depth == 1 {
		st.Add(E("w:rPr", wval("w:color", "1F3864")))
	}
	return st
}

func docxRunItems(run lrun) []*Node {
	var kids []*Node
	if run.Bold {
		kids = append(kids, E("w:rPr", E("w:b")))
	}
	for _, it := range run.Items {
		switch it.Kind {
		case "t":
			kids = append(kids, E("w:t", T(it.Tok)).A("xml:space", "preserve"))
		case "tab":
			kids = append(kids, E("w:tab"))
		case "br":
			kids = append(kids, E("w:br"))
		case "pbr":
			kids = append(kids, E("w:br").A("w:type", "page"))
		case "sym":
			kids = append(kids, E("w:sym").A("w:font", "Wingdings").A("w:char", it.Tok))
		case "lit":
			kids = append(kids, E("w:t", T(it.Tok)).A("xml:space", "preserve"))
		}
	}
	return kids
}

func docxRun(run lrun) *Node {
	switch run.Wrap {
	case "del":
		return E("w:del", E("w:r", E("w:delText", T(run.Items[0].Tok)))).A("w:id", "7").A("w:author", "a")
	case "txbx":
		// a text box anchored in the run: a paragraph nested inside a paragraph
		inner := E("w:p", E("w:r", E("w:t", T(run.Items[0].Tok))))
		return E("w:r", E("w:pict", E("v:shape", E("v:textbox", E("w:txbxContent", inner)))))
	}
	r := E("w:r", docxRunItems(run)...)
	switch run.Wrap {
	case "hyperlink":
		return E("w:hyperlink", r).A("r:id", "rId9").A("w:history", "1")
	case "ins":
		return E("w:ins", r).A("w:id", "3").A("w:author", "a")
	case "sdt":
		return E("w:sdt", E("w:sdtPr", wval("w:alias", "field")), E("w:sdtContent", r))
	}
	return r
}

func docxPara(p *lpara, need map[string]bool) *Node {
	style, outline := docxStyleFor(p, need)
	p.Style = style
	ppr := E("w:pPr")
	if style != "" {
		ppr.Add(wval("w:pStyle", style))
	}
	if p.Kind == "li" || p.AlsoList {
		switch p.RawLevel {
		case "":
			ppr.Add(E("w:numPr", wval("w:ilvl", strconv.Itoa(p.Level)), wval("w:numId", strconv.Itoa(p.NumID))))
		case "omit": // no w:ilvl: the item is at level 0 (ECMA-376 17.9.3)
			ppr.Add(E("w:numPr", wval("w:numId", strconv.Itoa(p.NumID))))
		default:
			ppr.Add(E("w:numPr", wval("w:ilvl", rawAttr(p.RawLevel)), wval("w:numId", strconv.Itoa(p.NumID))))
		}
	}
	if p.Jc != "" {
		// direct formatting of this paragraph (CT_PPrBase order: spacing, ind, jc, outlineLvl)
		ppr.Add(E("w:spacing").A("w:before", "120").A("w:after", "240"), E("w:ind").A("w:left", "360").A("w:hanging", "180"), wval("w:jc", p.Jc))
	}
	if outline >= 0 {
		ppr.Add(wval("w:outlineLvl", strconv.Itoa(outline)))
	}
	n := E("w:p")
	if len(ppr.Kids) > 0 {
		n.Add(ppr)
	}
	for _, ru := range p.Runs {
		n.Add(docxRun(ru))
	}
	return n
}

func docxTable(t *ltable, need map[string]bool) *Node {
	tbl := E("w:tbl", E("w:tblPr", wval("w:tblStyle", "TableGrid"), E("w:tblW").A("w:w", "0").A("w:type", "auto"),
		E("w:tblBorders", E("w:top").A("w:val", "single").A("w:sz", "4"))))
	if !t.NoGrid {
		g := E("w:tblGrid")
		for c := 0; c < t.C; c++ {
			g.Add(E("w:gridCol").A("w:w", "2000"))
		}
		tbl.Add(g)
	}
	for a := 0; a < t.R; a++ {
		tr := E("w:tr")
		if t.HdrRows[a] {
			tr.Add(E("w:trPr", E("w:tblHeader"))) // "repeat as header row": says nothing about where the row is
		}
		for b := 0; b < t.C; b++ {
			pos := [2]int{a, b}
			if cell := t.Cells[pos]; cell != nil {
				tcPr := E("w:tcPr", E("w:tcW").A("w:w", strconv.Itoa(2000*cell.CS)).A("w:type", "dxa"))
				if cell.RawCS != "" {
					tcPr.Add(wval("w:gridSpan", rawAttr(cell.RawCS)))
				} else if cell.CS > 1 {
					tcPr.Add(wval("w:gridSpan", strconv.Itoa(cell.CS)))
				}
				if cell.RS > 1 {
					tcPr.Add(wval("w:vMerge", "restart"))
				}
				tc := E("w:tc", tcPr)
				var boxed []*Node
				for i := range cell.Paras {
					pn := docxPara(&cell.Paras[i], need)
					if cell.Box == "" || i < cell.BoxAt || i >= cell.BoxAt+cell.BoxN {
						tc.Add(pn)
						continue
					}
					// a block-level container that is a child of the cell (structure.go)
					boxed = append(boxed, pn)
					if i == cell.BoxAt+cell.BoxN-1 {
						tc.Add(docxBox(cell.Box, 500+i, boxed))
					}
				}
				if cell.Nested != nil {
					tc.Add(docxTable(cell.Nested, need), E("w:p")) // a cell must end with a paragraph
				}
				tr.Add(tc)
				continue
			}
			anchor := t.Cover[pos]
			if anchor[0] == a {
				continue // covered horizontally by the anchor's gridSpan
			}
			if anchor[1] == b {
				// vertical continuation: one cell with the same gridSpan and an empty paragraph
				ac := t.Cells[anchor]
				tcPr := E("w:tcPr", E("w:tcW").A("w:w", strconv.Itoa(2000*ac.CS)).A("w:type", "dxa"))
				if ac.CS > 1 {
					tcPr.Add(wval("w:gridSpan", strconv.Itoa(ac.CS)))
				}
				if t.ExplicitContinue {
					tcPr.Add(wval("w:vMerge", "continue")) // the default value written out
				} else {
					tcPr.Add(E("w:vMerge"))
				}
				tr.Add(E("w:tc", tcPr, E("w:p")))
			}
		}
		tbl.Add(tr)
	}
	return tbl
}

func docxNumbering() *Node {
	n := E("w:numbering")
	bullets := []string{"•", "o", ""}
	fmts := []string{"decimal", "lowerLetter", "lowerRoman", "upperLetter", "upperRoman"}
	for an := 0; an < 3; an++ {
		abs := E("w:abstractNum").A("w:abstractNumId", strconv.Itoa(an))
		abs.Add(wval("w:multiLevelType", "hybridMultilevel"))
		for l := 0; l < 9; l++ {
			lvl := E("w:lvl").A("w:ilvl", strconv.Itoa(l))
			start := "1"
			if an == 2 && l == 0 {
				start = "3"
			}
			lvl.Add(wval("w:start", start))
			if an == 0 || (an == 2 && l%2 == 1) {
				lvl.Add(wval("w:numFmt", "bullet"), wval("w:lvlText", bullets[l%3]))
			} else {
				lvl.Add(wval("w:numFmt", fmts[(l+an)%5]), wval("w:lvlText", fmt.Sprintf("%%%d.", l+1)))
			}
			lvl.Add(wval("w:lvlJc", "left"))
			abs.Add(lvl)
		}
		n.Add(abs)
	}
	for id := 1; id <= 3; id++ {
		n.Add(E("w:num", wval("w:abstractNumId", strconv.Itoa(id-1))).A("w:numId", strconv.Itoa(id)))
	}
	return n
}

// docxNumberingFor: the numbering part of the document.
func docxNumberingFor(d *ldoc) *Node {
	if d.NumSeed != 0 {
		return docxNumberingVariant(hx.NewRng(d.NumSeed))
	}
	return docxNumbering()
}

func docxHdrFtr(tag string, toks []string) *Node {
	n := E(tag)
	for _, t := range toks {
		n.Add(E("w:p", E("w:pPr", wval("w:pStyle", "Header")), E("w:r", E("w:t", T(t)))))
	}
	return n
}

const relNS = "http://schemas.openxmlformats.org/officeDocument/2006/relationships"

func writeDocx(r *hx.Rng, d *ldoc) docxPkg {
	need := map[string]bool{"Normal": true}
	body := E("w:body")
	var bodyTables []*Node
	blockNodes := func(bl lblock) []*Node {
		ns := docxMarks(bl.Marks)
		if bl.P != nil {
			return append(ns, docxPara(bl.P, need))
		}
		tn := docxTable(bl.T, need)
		bodyTables = append(bodyTables, tn) // the tables of the body: w:tbl children of the body itself or of a block-level container
		return append(ns, tn)
	}
	for i := 0; i < len(d.Blocks); {
		bl := d.Blocks[i]
		if bl.Box == 0 {
			body.Add(blockNodes(bl)...)
			i++
			continue
		}
		// consecutive blocks of one container (structure.go)
		var inner []*Node
		for ; i < len(d.Blocks) && d.Blocks[i].Box == bl.Box; i++ {
			inner = append(inner, blockNodes(d.Blocks[i])...)
		}
		body.Add(docxBox(bl.BoxKind, bl.Box, inner))
	}
	sect := E("w:sectPr")
	if len(d.Header) > 0 {
		sect.Add(E("w:headerReference").A("w:type", "default").A("r:id", "rId2"))
	}
	if len(d.Footer) > 0 {
		sect.Add(E("w:footerReference").A("w:type", "default").A("r:id", "rId3"))
	}
	sect.Add(E("w:pgSz").A("w:w", "12240").A("w:h", "15840"))
	body.Add(sect)
	pkg := docxPkg{Doc: E("w:document", body), Tables: bodyTables}

	ct := `<?xml version="1.0" encoding="UTF-8" standalone="yes"?>` + "\n" +
		`<Types xmlns="http://schemas.openxmlformats.org/package/2006/content-types">` +
		`<Default Extension="rels" ContentType="application/vnd.openxmlformats-package.relationships+xml"/>` +
		`<Default Extension="xml" ContentType="application/xml"/>` +
		`<Override PartName="/word/document.xml" ContentType="application/vnd.openxmlformats-officedocument.wordprocessingml.document.main+xml"/>`
	rels := `<?xml version="1.0" encoding="UTF-8" standalone="yes"?>` + "\n" +
		`<Relationships xmlns="http://schemas.openxmlformats.org/package/2006/relationships">`
	var members []writers.Member
	if d.Styles {
		st := E("w:styles", E("w:docDefaults", E("w:rPrDefault", E("w:rPr", E("w:rFonts").A("w:ascii", "Calibri"), wval("w:sz", "22")))))
		d.Fam.closeNeed(need)
		ids := make([]string, 0, len(need))
		for id := range need {
			ids = append(ids, id)
		}
		sort.Strings(ids)
		if r.Bool() {
			hx.Shuffle(r, ids) // definition order is free; basedOn may point forward
		}
		for _, id := range ids {
			if fs := d.Fam.get(id); fs != nil && fs.Via == "family" {
				st.Add(docxFamilyDef(fs))
				continue
			}
			st.Add(docxStyleDef(id, d.NoOutline))
		}
		pkg.Styles = st
		members = append(members, writers.Member{Name: "word/styles.xml", Data: st.XML(docxNS)})
		ct += `<Override PartName="/word/styles.xml" ContentType="application/vnd.openxmlformats-officedocument.wordprocessingml.styles+xml"/>`
		rels += `<Relationship Id="rId1" Type="` + relNS + `/styles" Target="styles.xml"/>`
	}
	if d.Numbering {
		pkg.Numbering = docxNumberingFor(d)
		members = append(members, writers.Member{Name: "word/numbering.xml", Data: pkg.Numbering.XML(docxNS)})
		ct += `<Override PartName="/word/numbering.xml" ContentType="application/vnd.openxmlformats-officedocument.wordprocessingml.numbering+xml"/>`
		rels += `<Relationship Id="rId4" Type="` + relNS + `/numbering" Target="numbering.xml"/>`
	}
	if len(d.Header) > 0 {
		parts := [][]string{d.Header}
		if d.Render && len(d.Header) > 1 {
			// render stream: the header lines spread over two header parts (default and first page)
			parts = [][]string{d.Header[:1], d.Header[1:]}
		}
		for k, lines := range parts {
			name := fmt.Sprintf("header%d.xml", k+1)
			rid := []string{"rId2", "rId5"}[k]
			h := docxHdrFtr("w:hdr", lines)
			pkg.Headers = append(pkg.Headers, h)
			members = append(members, writers.Member{Name: "word/" + name, Data: h.XML(docxNS)})
			ct += `<Override PartName="/word/` + name + `" ContentType="application/vnd.openxmlformats-officedocument.wordprocessingml.header+xml"/>`
			rels += `<Relationship Id="` + rid + `" Type="` + relNS + `/header" Target="` + name + `"/>`
		}
	}
	if len(d.Footer) > 0 {
		pkg.Footers = []*Node{docxHdrFtr("w:ftr", d.Footer)}
		members = append(members, writers.Member{Name: "word/footer1.xml", Data: pkg.Footers[0].XML(docxNS)})
		ct += `<Override PartName="/word/footer1.xml" ContentType="application/vnd.openxmlformats-officedocument.wordprocessingml.footer+xml"/>`
		rels += `<Relationship Id="rId3" Type="` + relNS + `/footer" Target="footer1.xml"/>`
	}
	rels += `<Relationship Id="rId9" Type="` + relNS + `/hyperlink" Target="https://example.org/" TargetMode="External"/></Relationships>`
	if d.Meta {
		members = append(members, writers.Member{Name: "docProps/core.xml", Data: []byte(`<?xml version="1.0" encoding="UTF-8"?>` + "\n" +
			`<cp:coreProperties xmlns:cp="http://schemas.openxmlformats.org/package/2006/metadata/core-properties" xmlns:dc="http://purl.org/dc/elements/1.1/"><dc:title>METATITLE</dc:title><dc:creator>someone</dc:creator></cp:coreProperties>`)})
		ct += `<Override PartName="/docProps/core.xml" ContentType="application/vnd.openxmlformats-package.core-properties+xml"/>`
	}
	ct += `</Types>`
	head := []writers.Member{
		{Name: "[Content_Types].xml", Data: []byte(ct)},
		{Name: "_rels/.rels", Data: []byte(`<?xml version="1.0" encoding="UTF-8" standalone="yes"?>` + "\n" +
			`<Relationships xmlns="http://schemas.openxmlformats.org/package/2006/relationships"><Relationship Id="rId1" Type="` + relNS + `/officeDocument" Target="word/document.xml"/></Relationships>`)},
		{Name: "word/_rels/document.xml.rels", Data: []byte(rels)},
		{Name: "word/document.xml", Data: pkg.Doc.XML(docxNS)},
	}
	rest := append(head[1:], members...)
	if r.Chance(1, 3) {
		hx.Shuffle(r, rest) // part order inside the package is free
	}
	pkg.Members = append([]writers.Member{head[0]}, rest...)
	return pkg
}
