package c16

import (
	"strconv"
	"fmt"
	"regexp"
	"strings"

	"github.com/tsawler/tabula/model"
)

// Statement-level oracles, written from the property text and computed from the
// logical document only (never from the Lean model): order of blocks, order of
// inline content, heading levels, list nesting, table grid, header/footer leak.

type outputs struct {
	Text string
	MD   string
	Doc  *model.Document
	// Parsed: the tables of the format reader (docx.Open / odt.Open) in the order it
	// holds them; HaveParsed says the reader was consulted at all.
	Parsed     []ptable
	HaveParsed bool
	// Hdr, Ftr: what the format reader answers when the header / footer text is asked
	// for (HeaderTexts() / FooterTexts()); HaveHF says it was asked.
	Hdr, Ftr []string
	HaveHF   bool
}

// pcell is one cell of a reader's parsed table row. Flag: the reader says the cell
// is not a cell of its own but the continuation of a merge from above (docx:
// IsMergedContinuation, odt: IsCovered).
type pcell struct {
	Text   string
	CS, RS int
	Flag   bool
}

type ptable [][]pcell

func (p ptable) contains(tok string) bool {
	for _, row := range p {
		for _, c := range row {
			if strings.Contains(c.Text, tok) {
				return true
			}
		}
	}
	return false
}

type entry struct {
	Kind  string // p, h, li, tbl
	Level int
	Text  string
	Tbl   *model.Table
}

func flatten(doc *model.Document) []entry {
	var out []entry
	if doc == nil {
		return out
	}
	for _, pg := range doc.Pages {
		for _, el := range pg.Elements {
			switch e := el.(type) {
			case *model.Paragraph:
				out = append(out, entry{Kind: "p", Text: e.Text})
			case *model.Heading:
				out = append(out, entry{Kind: "h", Level: e.Level, Text: e.Text})
			case *model.List:
				for _, it := range e.Items {
					out = append(out, entry{Kind: "li", Level: it.Level, Text: it.Text})
				}
			case *model.Table:
				out = append(out, entry{Kind: "tbl", Tbl: e})
			default:
				out = append(out, entry{Kind: fmt.Sprintf("%T", el)})
			}
		}
	}
	return out
}

func (e entry) contains(tok string) bool {
	if e.Tbl != nil {
		for _, row := range e.Tbl.Rows {
			for _, c := range row {
				if strings.Contains(c.Text, tok) {
					return true
				}
			}
		}
		return false
	}
	return strings.Contains(e.Text, tok)
}

// fails collects the failed keys of one document (first detail per key).
type fails map[string]string

func (f fails) add(key, format string, a ...interface{}) {
	if _, ok := f[key]; !ok {
		f[key] = fmt.Sprintf(format, a...)
	}
}

var oracleKeys = map[string][]string{
	"docx": {"body-order", "table-after-multipara-table", "inline-order", "hyperlink-text-lost", "ins-text-lost", "sdt-text-lost",
		"text-lost", "list-item-lost", "heading-level", "style-chain-heading-level", "direct-outline-level", "list-nesting", "grid-cell", "merged-cell", "header-leak",
		"header-requested", "parsed-grid-shape", "parsed-grid-span", "parsed-grid-continuation", "block-container-content-lost"},
	"odt": {"body-order", "span-text-order", "inline-element-lost", "link-text-lost", "nested-span-text-lost", "text-lost", "list-item-lost",
		"heading-level", "style-chain-heading-level", "direct-outline-level", "outline-level-vs-inherited-style-level", "outline-level-vs-own-style-level",
		"heading-without-outline-level", "paragraph-in-heading-style", "list-nesting", "grid-cell", "merged-cell", "header-leak",
		"header-requested", "parsed-grid-shape", "parsed-grid-span", "parsed-grid-continuation"},
}

// headingKey: a heading written in a derived style of the document's style family
// (its level is what the style's own definition chain says, whichever other styles
// of the family were used before it) fails under a key of its own.
func headingKey(p *lpara) string {
	if p.NoOwnLevel {
		// the heading states no level itself (text:outline-level absent or no level 1..10)
		return "heading-without-outline-level"
	}
	if p.StyleLevel != 0 && p.StyleOwn {
		// the heading says its level itself; the style it names carries another default
		// outline level (or is the built-in heading style of another level)
		return "outline-level-vs-own-style-level"
	}
	if p.StyleLevel != 0 {
		// the heading says its level itself; only a style ABOVE its own paragraph style
		// carries another default outline level
		return "outline-level-vs-inherited-style-level"
	}
	if p.Via == "family" {
		return "style-chain-heading-level"
	}
	if p.Via == "outline" && p.Plain != "" {
		return "direct-outline-level"
	}
	return "heading-level"
}

// outlineStyled lists the body styles (p.Via values) in which the document has a
// heading made by a direct outline level, with the first such block. The outline level
// is direct formatting of that one paragraph: every plain paragraph written in the same
// style - before it or after it - is a plain paragraph all the same, and fails under the
// key direct-outline-level if it is presented as a heading.
func (d *ldoc) outlineStyled() map[string]int {
	out := map[string]int{}
	for bi, bl := range d.Blocks {
		if p := bl.P; p != nil && p.Kind == "h" && p.Via == "outline" && p.Plain != "" {
			if _, seen := out[p.Plain]; !seen {
				out[p.Plain] = bi
			}
		}
	}
	return out
}

// plainKey: the key under which a plain paragraph presented as a heading fails, and a
// note on the heading that shares its style.
func plainKey(p *lpara, bi int, shared map[string]int) (string, string) {
	if p.HStyle != "" {
		return "paragraph-in-heading-style", "; the block is a <text:p> written in a heading style (" + p.HStyle + "): a paragraph, whatever default outline level its style or a style above it carries"
	}
	hb, ok := shared[p.Via]
	if !ok || p.Via == "" {
		return "heading-level", ""
	}
	where := "later"
	if hb < bi {
		where = "earlier"
	}
	return "direct-outline-level", fmt.Sprintf("; block %d, %s in the document, is a heading by a direct outline level and is written in the same style - the outline level belongs to that paragraph only", hb, where)
}

// chainNote describes the definition chain of a family style for the failure detail.
func (d *ldoc) chainNote(p *lpara) string {
	var b strings.Builder
	if p.NoOwnLevel {
		at := "text:outline-level=" + strconv.Quote(p.RawOutline)
		if p.RawOutline == "omit" {
			at = "no text:outline-level"
		}
		fmt.Fprintf(&b, "; the heading is written <text:h> with %s (no level 1..10): it is a heading of level 1 (the format's default) or of the level of its paragraph style", at)
		if p.Via != "outline" {
			fmt.Fprintf(&b, " (%d)", p.Level)
		}
	}
	if p.StyleLevel != 0 {
		fmt.Fprintf(&b, "; the heading is written <text:h text:outline-level=\"%d\">, the definition chain of its paragraph style says default outline level %d", p.Level, p.StyleLevel)
		if p.StyleOwn {
			b.WriteString(" (the style the heading names carries it itself, or is the built-in heading style of that level)")
		} else {
			b.WriteString(" (in a style above it only: the style the heading names carries no outline level of its own)")
		}
	}
	if p.Via != "family" || d.Fam == nil {
		return b.String()
	}
	b.WriteString("; definition chain:")
	for s := d.Fam.get(p.Fam); s != nil; s = d.Fam.get(s.Parent) {
		switch {
		case s.Parent == "":
			fmt.Fprintf(&b, " %s (root, level %d)", s.ID, s.Level)
		case s.Own > 0:
			fmt.Fprintf(&b, " %s (own level %d) <-", s.ID, s.Own)
		default:
			fmt.Fprintf(&b, " %s (inherits) <-", s.ID)
		}
	}
	return b.String()
}

// blockLostKey: the key under which a token of the block that shows up nowhere fails. A
// block that sits in a block-level container of the body (w:sdt / w:customXml) fails under
// a key of its own: the container is transparent, what it holds is body content.
func blockLostKey(format string, bl lblock, t ptok) string {
	if bl.Box != 0 || t.CellBox != "" {
		return "block-container-content-lost"
	}
	return lostKey(format, t.Wrap)
}

// boxNote says which container the block sits in.
func boxNote(bl lblock) string {
	if bl.Box == 0 {
		if bl.T != nil {
			for _, c := range bl.T.Cells {
				if c.Box != "" {
					return fmt.Sprintf("; a cell of the table holds paragraphs inside a block-level container (%s) that is a child of the w:tc", c.Box)
				}
			}
		}
		return ""
	}
	return fmt.Sprintf("; the block is written inside a block-level container of the body (%s): %s", bl.BoxKind,
		map[string]string{"sdt": "<w:body>..<w:sdt><w:sdtPr/><w:sdtContent>BLOCKS</w:sdtContent></w:sdt>..", "customXml": "<w:body>..<w:customXml>BLOCKS</w:customXml>..",
			"customXml-in-sdt": "<w:sdt><w:sdtContent><w:customXml>BLOCKS</w:customXml></w:sdtContent></w:sdt>", "sdt-in-customXml": "<w:customXml><w:sdt><w:sdtContent>BLOCKS</w:sdtContent></w:sdt></w:customXml>"}[bl.BoxKind])
}

func lostKey(format, wrap string) string {
	if format == "docx" {
		switch wrap {
		case "hyperlink", "ins", "sdt":
			return wrap + "-text-lost"
		}
		return "text-lost"
	}
	switch wrap {
	case "a":
		return "link-text-lost"
	case "span2":
		return "nested-span-text-lost"
	}
	return "text-lost"
}

func orderKey(format string) string {
	if format == "docx" {
		return "inline-order"
	}
	return "span-text-order"
}

// tokenOrderOK: the tokens occur in s in the given order.
func tokenOrderOK(s string, toks []ptok) bool {
	pos := 0
	for _, t := range toks {
		i := strings.Index(s[pos:], t.Tok)
		if i < 0 {
			return false
		}
		pos += i + len(t.Tok)
	}
	return true
}

var mdOrdered = regexp.MustCompile(`^[0-9]+\. `)

func evaluate(d *ldoc, out outputs) fails {
	f := fails{}
	F := d.Format
	bodyKey := "body-order"
	if F == "docx" {
		seenMulti := false
		for _, bl := range d.Blocks {
			if bl.T != nil {
				if seenMulti {
					bodyKey = "table-after-multipara-table"
				}
				if bl.T.multiPara() {
					seenMulti = true
				}
			}
		}
	}
	shared := d.outlineStyled()
	entries := flatten(out.Doc)
	find := func(tok string) int {
		for i, e := range entries {
			if e.contains(tok) {
				return i
			}
		}
		return -1
	}

	// ---- the document model: blocks in order, exact paragraph text, structure ----
	last := -1
	wantN := 0
	for bi, bl := range d.Blocks {
		var toks []ptok
		if bl.P != nil {
			toks = bl.P.tokens()
		} else {
			toks = bl.T.tokens()
		}
		j, lost := -1, false
		whole := bl.Box == 0 && itemLost(bl, toks, func(tok string) bool { return find(tok) >= 0 })
		for _, t := range toks {
			k := find(t.Tok)
			if k < 0 {
				lost = true
				if whole {
					f.add("list-item-lost", "Document(): list item block %d (level %d, text %q) is in no element%s", bi, bl.P.Level, bl.P.wantText(), d.nestNote(bi))
				} else {
					f.add(blockLostKey(F, bl, t), "Document(): token %q of block %d (%s) is in no element%s", t.Tok, bi, t.Wrap, boxNote(bl))
				}
				continue
			}
			if j < 0 {
				j = k
			}
		}
		if bl.P != nil && bl.P.wantText() != "" || bl.T != nil {
			wantN++
		}
		if j < 0 {
			continue
		}
		if j <= last {
			f.add(bodyKey, "Document(): block %d is element %d, but an earlier block is element %d", bi, j, last)
		}
		last = j
		e := entries[j]
		if bl.T != nil {
			if e.Tbl == nil {
				f.add(bodyKey, "Document(): table block %d landed in a %s element", bi, e.Kind)
				continue
			}
			if !bl.T.Undef {
				checkGrid(f, bl.T, e.Tbl, bi)
			}
			continue
		}
		p := bl.P
		if e.Tbl != nil {
			f.add(bodyKey, "Document(): paragraph block %d landed in a table element", bi)
			continue
		}
		if !lost && e.Text != p.wantText() {
			if tokenOrderOK(e.Text, toks) && F == "odt" {
				f.add("inline-element-lost", "Document(): block %d text %q want %q", bi, e.Text, p.wantText())
			} else {
				f.add(orderKey(F), "Document(): block %d text %q want %q", bi, e.Text, p.wantText())
			}
		}
		switch p.Kind {
		case "h":
			if e.Kind != "h" || !p.levelOK(e.Level) {
				f.add(headingKey(p), "Document(): block %d (heading level %d via %s, style %q) is %s level %d%s", bi, p.Level, p.Via, p.Style, e.Kind, e.Level, d.chainNote(p))
			}
		case "p":
			if p.Via != "bigbold" && e.Kind != "p" {
				key, note := plainKey(p, bi, shared)
				f.add(key, "Document(): block %d (plain paragraph, style %q%s) is %s level %d%s", bi, p.Style, p.directNote(), e.Kind, e.Level, note)
			}
		case "li":
			if e.Kind != "li" || e.Level != p.Level && !p.LevelUndef {
				f.add("list-nesting", "Document(): block %d (list item level %d%s) is %s level %d", bi, p.Level, p.levelNote(), e.Kind, e.Level)
			}
		}
	}
	// ---- the reader's parsed tables: every grid position as authored ----
	if out.HaveParsed {
		for bi, bl := range d.Blocks {
			if bl.T == nil || bl.T.Undef {
				continue
			}
			toks := bl.T.tokens()
			if len(toks) == 0 {
				continue
			}
			for _, pt := range out.Parsed {
				if pt.contains(toks[0].Tok) {
					checkParsedGrid(f, bl.T, pt, bi)
					break
				}
			}
		}
	}

	if len(entries) != wantN && len(f) == 0 {
		// a table without any text that sits in a block-level container can only be missed by counting
		mute := 0
		for _, bl := range d.Blocks {
			if bl.Box != 0 && bl.T != nil && len(bl.T.tokens()) == 0 {
				mute++
			}
		}
		if mute > 0 && len(entries) < wantN && len(entries) >= wantN-mute {
			f.add("block-container-content-lost", "Document(): %d elements for %d non-empty blocks; %d table(s) without text are written inside a block-level container of the body (w:sdt / w:customXml)", len(entries), wantN, mute)
		} else {
			f.add(bodyKey, "Document(): %d elements for %d non-empty blocks", len(entries), wantN)
		}
	}

	// ---- plain text and Markdown: same order, same paragraph text, structure marks ----
	for _, o := range []struct{ name, s string }{{"Text()", out.Text}, {"ToMarkdown()", out.MD}} {
		pos := -1
		padded := "\n" + o.s + "\n"
		for bi, bl := range d.Blocks {
			var toks []ptok
			if bl.P != nil {
				toks = bl.P.tokens()
			} else {
				toks = bl.T.tokens()
			}
			lost := false
			first := true
			whole := bl.Box == 0 && itemLost(bl, toks, func(tok string) bool { return strings.Contains(o.s, tok) })
			for _, t := range toks {
				k := strings.Index(o.s, t.Tok)
				if k < 0 {
					lost = true
					if whole {
						f.add("list-item-lost", "%s: list item block %d (level %d, text %q) missing%s", o.name, bi, bl.P.Level, bl.P.wantText(), d.nestNote(bi))
					} else {
						f.add(blockLostKey(F, bl, t), "%s: token %q of block %d (%s) missing%s", o.name, t.Tok, bi, t.Wrap, boxNote(bl))
					}
					continue
				}
				if k <= pos {
					if first {
						f.add(bodyKey, "%s: block %d starts at %d, before the end of earlier content (%d)", o.name, bi, k, pos)
					} else if bl.P != nil {
						f.add(orderKey(F), "%s: token %q of block %d out of order", o.name, t.Tok, bi)
					} else {
						f.add("grid-cell", "%s: token %q of table block %d out of order", o.name, t.Tok, bi)
					}
				}
				first = false
				pos = k
			}
			if bl.P == nil || lost || len(toks) == 0 {
				continue
			}
			p := bl.P
			want := p.wantText()
			if o.name == "ToMarkdown()" {
				want = strings.TrimSpace(want)
			}
			if !strings.Contains(o.s, want) {
				key := orderKey(F)
				if F == "odt" && tokenOrderOK(o.s, toks) {
					key = "inline-element-lost"
				}
				f.add(key, "%s: block %d text %q not present verbatim", o.name, bi, want)
				continue
			}
			if o.name == "ToMarkdown()" {
				switch p.Kind {
				case "h":
					lvl := p.Level
					if lvl > 6 {
						lvl = 6
					}
					shown := strings.Contains(padded, "\n"+strings.Repeat("#", lvl)+" "+p.wantText()+"\n")
					if p.NoOwnLevel {
						shown = false
						for l := 1; l <= 10 && !shown; l++ {
							shown = p.levelOK(l) && strings.Contains(padded, "\n"+strings.Repeat("#", min(l, 6))+" "+p.wantText()+"\n")
						}
					}
					if !shown {
						f.add(headingKey(p), "%s: block %d not rendered as a level-%d heading line (via %s, style %q)%s", o.name, bi, lvl, p.Via, p.Style, d.chainNote(p))
					}
				case "li":
					line := lineOf(o.s, toks[0].Tok)
					ind := strings.Repeat("  ", p.Level)
					if p.LevelUndef { // no level demanded: a list item line at whatever indentation
						ind = line[:len(line)-len(strings.TrimLeft(line, " "))]
					}
					rest := strings.TrimPrefix(line, ind)
					if !strings.HasPrefix(line, ind) || !(strings.HasPrefix(rest, "- ") || mdOrdered.MatchString(rest)) {
						f.add("list-nesting", "%s: block %d (list level %d%s) rendered as line %q", o.name, bi, p.Level, p.levelNote(), line)
					}
				case "p":
					if p.Via != "bigbold" && strings.HasPrefix(lineOf(o.s, toks[0].Tok), "#") {
						key, note := plainKey(p, bi, shared)
						f.add(key, "%s: block %d (plain paragraph, style %q%s) rendered as heading line %q%s", o.name, bi, p.Style, p.directNote(), lineOf(o.s, toks[0].Tok), note)
					}
				}
			} else if p.Kind == "li" && !p.LevelUndef {
				line := lineOf(o.s, toks[0].Tok)
				ind := strings.Repeat("  ", p.Level)
				rest := strings.TrimPrefix(line, ind)
				if !strings.HasPrefix(line, ind) || rest == "" || rest[0] == ' ' {
					f.add("list-nesting", "%s: block %d (list level %d) rendered as line %q", o.name, bi, p.Level, line)
				}
			}
		}
		for _, t := range append(append([]string{}, d.Header...), d.Footer...) {
			if strings.Contains(o.s, t) {
				f.add("header-leak", "%s contains header/footer token %q", o.name, t)
			}
		}
	}
	for _, t := range append(append([]string{}, d.Header...), d.Footer...) {
		if find(t) >= 0 {
			f.add("header-leak", "Document() contains header/footer token %q", t)
		}
	}
	// ---- "unless requested": asked for, the header and footer text is what the parts say ----
	// (ODT keeps header and footer in the master page of styles.xml: no styles part, none written)
	if out.HaveHF && (F == "docx" || d.Styles) {
		for _, hf := range []struct {
			what   string
			lines  []string
			got    []string
			others []string
		}{{"header", d.Header, out.Hdr, d.Footer}, {"footer", d.Footer, out.Ftr, d.Header}} {
			all := strings.Join(hf.got, "\n")
			pos := -1
			for _, t := range hf.lines {
				k := strings.Index(all, t)
				switch {
				case k < 0:
					f.add("header-requested", "%sTexts(): the %s line %q of the package's %s part is missing; answered %q%s", strings.Title(hf.what), hf.what, t, hf.what, hf.got, d.flavourNote())
				case k < pos:
					f.add("header-requested", "%sTexts(): the %s line %q comes before an earlier line of the part; answered %q", strings.Title(hf.what), hf.what, t, hf.got)
				}
				pos = max(pos, k)
			}
			for _, t := range hf.others {
				if strings.Contains(all, t) {
					f.add("header-requested", "%sTexts() holds %q, a line of the other part", strings.Title(hf.what), t)
				}
			}
		}
	}
	return f
}

// flavourNote says how the package spells its namespaces when not the writers' way.
func (d *ldoc) flavourNote() string {
	if d.Flavour == "" {
		return ""
	}
	return "; markup flavour of the package: " + d.Flavour
}

// itemLost: the block is a list item and none of its text - plain text among it, so no
// inline wrapper is to blame - shows up in the view: the item is lost as a whole.
func itemLost(bl lblock, toks []ptok, has func(string) bool) bool {
	if bl.P == nil || bl.P.Kind != "li" {
		return false
	}
	plain := false
	for _, t := range toks {
		if has(t.Tok) {
			return false
		}
		plain = plain || t.Wrap == "" || t.Wrap == "span"
	}
	return plain
}

// nestNote says what the list item of block bi is nested below (odt: list items
// that only wrap the nested list, or an item without text).
func (d *ldoc) nestNote(bi int) string {
	p := d.Blocks[bi].P
	if d.Format != "odt" || p == nil || p.Kind != "li" || p.Level == 0 {
		return ""
	}
	if bi == 0 || d.Blocks[bi-1].P == nil || d.Blocks[bi-1].P.Kind != "li" || d.Blocks[bi-1].P.NumID != p.NumID {
		return fmt.Sprintf("; the list starts at level %d: the item sits below %d list item(s) without a paragraph of their own", p.Level, p.Level)
	}
	for k := bi - 1; k >= 0; k-- {
		q := d.Blocks[k].P
		if q == nil || q.Kind != "li" || q.NumID != p.NumID {
			break
		}
		if q.Level < p.Level {
			switch {
			case q.Level < p.Level-1:
				return fmt.Sprintf("; nearest shallower item is at level %d: %d list item(s) without a paragraph of their own in between", q.Level, p.Level-1-q.Level)
			case q.empty():
				return "; its parent item has no text"
			}
			return ""
		}
	}
	return fmt.Sprintf("; no shallower item before it in the list: it sits below %d list item(s) without a paragraph of their own", p.Level)
}

// directNote says which direct formatting a plain paragraph carries in its own properties.
func (p *lpara) directNote() string {
	s := ""
	if p.Jc != "" {
		s += ", direct w:jc=" + p.Jc
	}
	if p.Out9 {
		s += ", direct w:outlineLvl=9 (body text)"
	}
	return s
}

// levelNote says how the level of a list item was written when not the plain way.
func (p *lpara) levelNote() string {
	switch {
	case p.LevelUndef:
		return fmt.Sprintf(", written w:ilvl=%q: outside 0..8, no level demanded", rawAttr(p.RawLevel))
	case p.RawLevel == "omit":
		return ", no w:ilvl written"
	case p.RawLevel != "":
		return fmt.Sprintf(", written w:ilvl=%q", p.RawLevel)
	}
	return ""
}

func lineOf(s, tok string) string {
	k := strings.Index(s, tok)
	if k < 0 {
		return ""
	}
	a := strings.LastIndex(s[:k], "\n") + 1
	b := strings.Index(s[k:], "\n")
	if b < 0 {
		return s[a:]
	}
	return s[a : k+b]
}

// checkGrid: cell (r,c) of the document-model table is the authored cell; merged
// regions carry their spans on the anchor and nothing on the covered positions.
func checkGrid(f fails, t *ltable, m *model.Table, bi int) {
	if len(m.Rows) != t.R {
		f.add("grid-cell", "table block %d has %d rows, authored %d", bi, len(m.Rows), t.R)
		return
	}
	for a := 0; a < t.R; a++ {
		for b := 0; b < t.C; b++ {
			cell := m.GetCell(a, b)
			if cell == nil {
				f.add("grid-cell", "table block %d has no cell (%d,%d); authored grid %dx%d", bi, a, b, t.R, t.C)
				continue
			}
			if lc := t.Cells[[2]int{a, b}]; lc != nil {
				key := "grid-cell"
				if lc.CS > 1 || lc.RS > 1 {
					key = "merged-cell"
				}
				if cell.Text != lc.wantText() {
					f.add(key, "table block %d cell (%d,%d) text %q want %q", bi, a, b, cell.Text, lc.wantText())
				}
				if cell.ColSpan != lc.CS || cell.RowSpan != lc.RS {
					f.add("merged-cell", "table block %d cell (%d,%d) spans %dx%d (rows x cols), authored %dx%d; authored table: %s", bi, a, b, cell.RowSpan, cell.ColSpan, lc.RS, lc.CS, t.sketch())
				}
			} else {
				if cell.Text != "" {
					f.add("merged-cell", "table block %d position (%d,%d) is covered by a merge but holds %q", bi, a, b, cell.Text)
				}
				if cell.RowSpan > 1 || cell.ColSpan > 1 {
					anc := t.Cover[[2]int{a, b}]
					f.add("merged-cell", "table block %d position (%d,%d) is covered by the merge anchored at (%d,%d) but is itself given spans %dx%d (rows x cols); authored table: %s",
						bi, a, b, anc[0], anc[1], cell.RowSpan, cell.ColSpan, t.sketch())
				}
			}
		}
	}
}

// sketch prints the authored grid row by row: [first token RxC] for an anchor
// (spans omitted when 1x1), ^ for a position covered from above, < for one covered
// from the left.
func (t *ltable) sketch() string {
	var b strings.Builder
	fmt.Fprintf(&b, "%d rows x %d grid columns:", t.R, t.C)
	for a := 0; a < t.R; a++ {
		fmt.Fprintf(&b, " row%d:", a)
		for c := 0; c < t.C; c++ {
			pos := [2]int{a, c}
			if cell := t.Cells[pos]; cell != nil {
				name := ""
				for i := range cell.Paras {
					if tk := cell.Paras[i].tokens(); len(tk) > 0 {
						name = tk[0].Tok
						break
					}
				}
				if cell.RS > 1 || cell.CS > 1 {
					fmt.Fprintf(&b, "[%s %dx%d]", name, cell.RS, cell.CS)
				} else {
					fmt.Fprintf(&b, "[%s]", name)
				}
				continue
			}
			if anc := t.Cover[pos]; anc[0] == a {
				b.WriteString("<")
			} else {
				b.WriteString("^")
			}
		}
	}
	return b.String()
}

// checkParsedGrid walks every row of the reader's parsed table along the grid: a
// parsed cell starts at the grid column where the cells before it in the row end
// (each takes ColSpan columns). At that position the authored grid has either
//   - an anchor: the parsed cell must be a cell of its own (not flagged as the
//     continuation of a merge) and carry the authored row span and column span;
//   - a position covered from above: the parsed cell must be flagged as continuation
//     and stay inside the merged region (the readers either keep one continuation
//     cell as wide as the merge or one placeholder per column; both tile the region);
//   - a position covered from the left by a cell of the same row: no parsed cell may
//     start there.
//
// Every row must end exactly at the last grid column.
func checkParsedGrid(f fails, t *ltable, pt ptable, bi int) {
	if len(pt) != t.R {
		f.add("parsed-grid-shape", "reader: table block %d has %d parsed rows, authored %d; authored table: %s", bi, len(pt), t.R, t.sketch())
		return
	}
	for a := 0; a < t.R; a++ {
		g := 0
		for i, pc := range pt[a] {
			if g >= t.C {
				f.add("parsed-grid-shape", "reader: table block %d row %d: parsed cell #%d starts at grid column %d, past the %d authored columns; authored table: %s", bi, a, i, g, t.C, t.sketch())
				break
			}
			pos := [2]int{a, g}
			w := pc.CS
			if w < 1 {
				f.add("parsed-grid-span", "reader: table block %d row %d: parsed cell #%d at grid column %d has column span %d", bi, a, i, g, pc.CS)
				w = 1
			}
			if lc := t.Cells[pos]; lc != nil {
				if pc.Flag {
					f.add("parsed-grid-continuation", "reader: table block %d row %d: parsed cell #%d at grid column %d is flagged as merge continuation, but the authored grid has a cell of its own there; authored table: %s", bi, a, i, g, t.sketch())
				}
				if pc.CS != lc.CS || pc.RS != lc.RS {
					f.add("parsed-grid-span", "reader: table block %d row %d: parsed cell #%d at grid column %d spans %dx%d (rows x cols), authored %dx%d; authored table: %s", bi, a, i, g, pc.RS, pc.CS, lc.RS, lc.CS, t.sketch())
				}
				if pc.Text != lc.wantText() {
					f.add("grid-cell", "reader: table block %d row %d: parsed cell #%d at grid column %d holds %q, authored %q", bi, a, i, g, pc.Text, lc.wantText())
				}
				g += w
				continue
			}
			anc := t.Cover[pos]
			if anc[0] == a {
				f.add("parsed-grid-shape", "reader: table block %d row %d: parsed cell #%d starts at grid column %d, inside the column span of the cell at column %d; authored table: %s", bi, a, i, g, anc[1], t.sketch())
				g += w
				continue
			}
			if !pc.Flag {
				f.add("parsed-grid-continuation", "reader: table block %d row %d: parsed cell #%d at grid column %d is not flagged as merge continuation, but the position is covered by the merge anchored at (%d,%d); authored table: %s", bi, a, i, g, anc[0], anc[1], t.sketch())
			}
			if end := anc[1] + t.Cells[anc].CS; g+w > end {
				f.add("parsed-grid-span", "reader: table block %d row %d: continuation cell #%d at grid column %d is %d columns wide and leaves the merged region (columns %d..%d); authored table: %s", bi, a, i, g, w, anc[1], end-1, t.sketch())
			}
			if pc.Text != "" {
				f.add("parsed-grid-continuation", "reader: table block %d row %d: continuation cell #%d at grid column %d holds %q", bi, a, i, g, pc.Text)
			}
			g += w
		}
		if g != t.C {
			f.add("parsed-grid-shape", "reader: table block %d row %d ends at grid column %d, authored %d columns; authored table: %s", bi, a, g, t.C, t.sketch())
		}
	}
}
