package c16

import (
	"strings"

	"verifharness/hx"
	"verifharness/writers"
)

// Node is the authored XML tree: an element (Tag, Attrs, Kids) or a text node
// (Tag == ""). The same tree is serialised into the package part and sent to the
// Lean model on the op line, so the model sees exactly what was authored.
type Node struct {
	Tag   string
	Attrs [][2]string
	Kids  []*Node
	Text  string
}

func E(tag string, kids ...*Node) *Node {
	n := &Node{Tag: tag}
	for _, k := range kids {
		if k != nil {
			n.Kids = append(n.Kids, k)
		}
	}
	return n
}

func T(s string) *Node { return &Node{Text: s} }

func (n *Node) A(k, v string) *Node {
	n.Attrs = append(n.Attrs, [2]string{k, v})
	return n
}

func (n *Node) Add(kids ...*Node) *Node {
	for _, k := range kids {
		if k != nil {
			n.Kids = append(n.Kids, k)
		}
	}
	return n
}

// xml writes the element; decls are namespace declarations put on this element only.
func (n *Node) xml(b *strings.Builder, decls string) {
	if n.Tag == "" {
		b.WriteString(writers.XMLEsc(n.Text))
		return
	}
	b.WriteString("<" + n.Tag)
	b.WriteString(decls)
	for _, a := range n.Attrs {
		b.WriteString(" " + a[0] + "=\"" + writers.XMLEsc(a[1]) + "\"")
	}
	if len(n.Kids) == 0 {
		b.WriteString("/>")
		return
	}
	b.WriteString(">")
	for _, k := range n.Kids {
		k.xml(b, "")
	}
	b.WriteString("</" + n.Tag + ">")
}

// XML serialises a part: XML declaration, root with the namespace declarations.
func (n *Node) XML(ns [][2]string) []byte {
	var b strings.Builder
	b.WriteString(`<?xml version="1.0" encoding="UTF-8" standalone="yes"?>` + "\n")
	var d strings.Builder
	for _, p := range ns {
		d.WriteString(" xmlns:" + p[0] + "=\"" + p[1] + "\"")
	}
	n.xml(&b, d.String())
	return []byte(b.String())
}

// Sexp is the wire form of the tree (one field, no spaces):
//
//	node := '(' hex(tag) { '@' hex(attr) '=' hex(value) } { node | '\'' hex(text) } ')'
func (n *Node) Sexp() string {
	var b strings.Builder
	n.sexp(&b)
	return b.String()
}

func (n *Node) sexp(b *strings.Builder) {
	if n.Tag == "" {
		b.WriteString("'" + hx.HexS(n.Text))
		return
	}
	b.WriteString("(" + hx.HexS(n.Tag))
	for _, a := range n.Attrs {
		b.WriteString("@" + hx.HexS(a[0]) + "=" + hx.HexS(a[1]))
	}
	for _, k := range n.Kids {
		k.sexp(b)
	}
	b.WriteString(")")
}
