package c16

import (
	"fmt"

	"verifharness/hx"
)

// ---- numeric attributes at the edges of their range ---------------------------------------
//
// Spans, column repetitions and list levels are numbers in attributes. What the formats
// define: w:gridSpan, number-columns-spanned, number-rows-spanned and
// number-columns-repeated are positive integers (xsd:integer spelling: an optional sign,
// leading zeros allowed), w:ilvl runs from 0 to 8. genEdgeDoc writes them
//   - at the edges that are still meant: 1 written out, other spellings of the same number
//     ("+2", "007"), a cell 1024 grid columns wide, a cell 1024 rows high, 1024 repeated
//     columns, list level 8, no w:ilvl at all (level 0): the full oracles apply;
//   - just outside and far outside: 0, -1, 1025, 2^31-1, 2^32, 2^63-1, 2^63, 10^20-1, the
//     empty string, a word: the table is marked Undef / the item LevelUndef (text present, in
//     order, in place, no crash; the Lean model says what the readers make of the number).

// edgeBase: documents with an index from here on are drawn by genEdgeDoc.
const edgeBase = 3_000_000

var spanJunk = []string{"0", "-1", "1025", "2147483647", "4294967296", "9223372036854775807", "9223372036854775808",
	"99999999999999999999", "-2147483648", emptyAttr, "x", "1025", "0", "-1"}

var levelJunk = []string{"9", "10", "255", "2147483647", "4294967296", "99999999999999999999", "-1", emptyAttr, "x", "9"}

// emptyAttr stands for an attribute that is present and empty ("" in the Raw fields means
// "written the plain way").
const emptyAttr = "<empty>"

func rawAttr(v string) string {
	if v == emptyAttr {
		return ""
	}
	return v
}

// respell writes n as another lexical form of the same xsd:integer.
func respell(r *hx.Rng, n int) string {
	switch r.Intn(3) {
	case 0:
		return fmt.Sprintf("+%d", n)
	case 1:
		return fmt.Sprintf("00%d", n)
	}
	return fmt.Sprint(n)
}

// genEdgeTable: a small table (merges as in genTable) whose span attributes are written
// at the edges. junk = false: only other spellings of the numbers meant; junk = true: at
// least one attribute outside 1..1024 on a cell that the rest of the grid gives one
// column / one row.
func (d *ldoc) genEdgeTable(r *hx.Rng, junk bool) *ltable {
	t := d.genTable(r, 1)
	var singles []*lcell
	for a := 0; a < t.R; a++ {
		for b := 0; b < t.C; b++ {
			cell := t.Cells[[2]int{a, b}]
			if cell == nil {
				continue
			}
			if cell.CS > 1 && r.Chance(1, 3) {
				cell.RawCS = respell(r, cell.CS)
			}
			if cell.RS > 1 && d.Format == "odt" && r.Chance(1, 3) {
				cell.RawRS = respell(r, cell.RS)
			}
			if cell.CS == 1 && r.Chance(1, 3) {
				cell.RawCS = respell(r, 1)
			}
			if cell.RS == 1 && d.Format == "odt" && r.Chance(1, 3) {
				cell.RawRS = respell(r, 1)
			}
			if cell.CS == 1 && cell.RS == 1 {
				singles = append(singles, cell)
			}
		}
	}
	if d.Format == "odt" && r.Chance(1, 3) {
		t.NoGrid = false
		t.RawRepeat, t.RepeatN = respell(r, 1), 1
		if r.Bool() {
			t.RawRepeat, t.RepeatN = respell(r, t.C), t.C
		}
	}
	if junk {
		t.Undef = true
		placed := false
		for _, cell := range singles {
			if r.Chance(1, 3) {
				if d.Format == "odt" && r.Bool() {
					cell.RawRS = hx.Pick(r, spanJunk)
				} else {
					cell.RawCS = hx.Pick(r, spanJunk)
				}
				placed = true
			}
		}
		if d.Format == "odt" && r.Chance(1, 3) {
			t.NoGrid = false
			t.RawRepeat, t.RepeatN = hx.Pick(r, spanJunk), 1
			placed = true
		}
		if !placed {
			if len(singles) > 0 {
				hx.Pick(r, singles).RawCS = hx.Pick(r, spanJunk)
			} else if d.Format == "odt" {
				t.NoGrid = false
				t.RawRepeat, t.RepeatN = hx.Pick(r, spanJunk), 1
			} else {
				t.Undef = false // nothing to put it on
			}
		}
	}
	return t
}

var wideRows = [][]int{{1024}, {1023, 1}, {1, 1023}, {512, 512}, {1000, 24}, {1, 1022, 1}, {2, 1022}}

// genWideTable: 1..3 rows over 1024 grid columns, every row a handful of cells whose
// widths add up to 1024 (one cell as wide as the table, 1023+1, 512+512, ...).
func (d *ldoc) genWideTable(r *hx.Rng) *ltable {
	t := &ltable{R: r.Range(1, 3), C: 1024, Cells: map[[2]int]*lcell{}, Cover: map[[2]int][2]int{}, NoGrid: r.Bool(), Wide: true}
	full := r.Intn(t.R) // this row: the one cell as wide as the table
	for a := 0; a < t.R; a++ {
		ws := hx.Pick(r, wideRows)
		if a == full {
			ws = wideRows[0]
		}
		col := 0
		for _, w := range ws {
			if w > 1 {
				t.place(a, col, 1, w)
			}
			col += w
		}
	}
	d.fillCells(r, t, 1)
	if d.Format == "odt" && t.NoGrid {
		t.NoGrid = false
		t.RawRepeat, t.RepeatN = "1024", 1024
	}
	return t
}

// genTallTable (odt): a cell 1024 rows high beside 1024 (now and then 1025) rows of one cell.
func (d *ldoc) genTallTable(r *hx.Rng) *ltable {
	t := &ltable{R: 1024 + r.Intn(2), C: 2, Cells: map[[2]int]*lcell{}, Cover: map[[2]int][2]int{}, Wide: true}
	col := r.Intn(2)
	t.place(0, col, 1024, 1)
	for a := 0; a < t.R; a++ {
		for b := 0; b < t.C; b++ {
			pos := [2]int{a, b}
			if _, cov := t.Cover[pos]; cov {
				continue
			}
			cell := t.Cells[pos]
			if cell == nil {
				cell = &lcell{RS: 1, CS: 1}
				t.Cells[pos] = cell
			}
			d.ntok++
			cell.Paras = []lpara{{Kind: "p", Runs: []lrun{{Items: []inl{{Kind: "t", Tok: fmt.Sprintf("Q%03dx", d.ntok)}}}}}}
		}
	}
	return t
}

// genEdgeList: a run of list items of one list whose levels are written at the edges.
func (d *ldoc) genEdgeList(r *hx.Rng) []lblock {
	var out []lblock
	numID := r.Range(1, 3)
	last := -1
	for i := r.Range(2, 5); i > 0; i-- {
		p := &lpara{Kind: "li", Runs: d.genRuns(r, 1), NumID: numID}
		if d.Format == "odt" {
			// levels jump: the list starts deep, deepens by several levels at once
			p.Level = min(r.Range(0, last+3), 4)
			if r.Chance(1, 6) {
				p.Runs, p.NoPara = nil, r.Bool()
			}
			last = p.Level
		} else {
			switch k := r.Intn(6); {
			case k == 0:
				p.Level, p.RawLevel = 0, "omit"
			case k == 1:
				p.Level = 8
			case k == 2:
				p.Level = r.Range(0, 8)
				p.RawLevel = respell(r, p.Level)
			case k == 3:
				p.Level = r.Range(0, 8)
			default:
				p.RawLevel, p.LevelUndef = hx.Pick(r, levelJunk), true
			}
		}
		out = append(out, lblock{P: p})
	}
	return out
}

// genEdgeDoc draws a document whose subject is the numeric attributes: tables with span
// and repetition attributes at the edges, tables 1024 columns wide / 1024 rows high,
// lists with levels at the edges, between ordinary paragraphs and headings.
func genEdgeDoc(r *hx.Rng, format string) *ldoc {
	d := &ldoc{Format: format, Styles: r.Chance(4, 5), Numbering: r.Chance(3, 4), Meta: r.Bool(), NoOutline: r.Chance(1, 3), Edge: true}
	if r.Chance(1, 3) {
		d.ntok++
		d.Header = append(d.Header, fmt.Sprintf("HDR%03dx", d.ntok))
	}
	wide := 0
	for n := r.Range(2, 5); n > 0; n-- {
		switch k := r.Intn(12); {
		case k < 2:
			d.Blocks = append(d.Blocks, lblock{P: d.genPara(r)})
		case k < 3:
			d.Blocks = append(d.Blocks, lblock{P: d.genHeading(r)})
		case k < 5:
			d.Blocks = append(d.Blocks, lblock{T: d.genEdgeTable(r, false)})
		case k < 8:
			d.Blocks = append(d.Blocks, lblock{T: d.genEdgeTable(r, true)})
		case k < 9 && wide == 0:
			wide++
			if format == "odt" && r.Chance(1, 3) {
				d.Blocks = append(d.Blocks, lblock{T: d.genTallTable(r)})
			} else {
				d.Blocks = append(d.Blocks, lblock{T: d.genWideTable(r)})
			}
		case k < 9:
			d.Blocks = append(d.Blocks, lblock{P: d.genPara(r)})
		default:
			d.Blocks = append(d.Blocks, d.genEdgeList(r)...)
			// a list is closed by something that is no list item
			d.Blocks = append(d.Blocks, lblock{P: d.genPara(r)})
		}
	}
	return d
}
