package c16

import (
	"strconv"
	"fmt"
	"strings"

	"verifharness/hx"
)

// ---- the logical document ------------------------------------------------------
//
// A logical document is what the author means: a sequence of blocks (paragraph,
// heading, list item, table) whose every text piece is a unique token, so order
// and containment are decidable by search in any output. The two package writers
// (docxw.go, odtw.go) render it; the oracles (oracle.go) are computed from it.

type inl struct {
	Kind string // t, tab, br, pbr (page break, docx), sym (docx), s (odt spaces), lit (literal text that is no token)
	Tok  string // t: the token; sym: hex code; s: count; lit: the text
}

// lrun is a run (docx) / a span or direct text (odt).
type lrun struct {
	Items []inl
	// Wrap: docx: "", hyperlink, ins, sdt, del, txbx (decoy paragraph nested in the run);
	// odt: "" (direct text), span, a, span2 (span nested in a span), note (decoy).
	Wrap string
	Bold bool
}

type lpara struct {
	Kind  string // p, h, li
	Runs  []lrun
	Level int    // h: 1..9 (odt: 1..10); li: 0-based nesting
	Via   string // h: builtin, custom, inherited, inherited2, name, outline, cyclic; p: "", quote, boldsmall, bigbold, cycplain
	NumID int    // li: which list (1..3)
	Fam   string // h via family, or a cell paragraph: the style of the document's style family it uses
	Style string // filled by the writer: the style id / name used
	// docx li: what w:ilvl's w:val says when it is not the plain decimal of Level
	// ("" = plain; "omit" = no w:ilvl element at all, which means level 0).
	RawLevel string
	// li: the written level is outside the format's range 0..8 (or no number at all):
	// the item must still be a list item with its text, in place; no level is demanded.
	LevelUndef bool
	// odt li: the item is written as <text:list-item> without any <text:p> (Empty only).
	NoPara bool
	// h via outline: the body (non-heading) paragraph style the heading is written in, as
	// one of bodyVias ("" = no style at all). The outline level is direct formatting of
	// this ONE paragraph (ECMA-376 17.3.1.20: w:outlineLvl in the paragraph's own w:pPr;
	// ODF: text:h with its text:outline-level) - it says nothing about the style, nor
	// about any other paragraph written in that style, before or after it.
	Plain string
	// docx p / h via outline: more direct formatting in the paragraph's own w:pPr beside
	// its style: Jc = the w:jc value (with w:spacing and w:ind), "" = none.
	Jc string
	// docx p: w:outlineLvl 9 written out in the paragraph's own w:pPr - "body text", no
	// level (ECMA-376 17.3.1.20): the paragraph is a plain paragraph all the same.
	Out9 bool
	// docx h (render stream): the heading also carries numbering properties (w:numPr)
	AlsoList bool
	// odt h: the level that the DEFINITION CHAIN of the heading's paragraph style says, when
	// it is not the heading's level (0 = they agree). The level of a <text:h> is its
	// text:outline-level (OpenDocument 1.2 part 1, 5.1.2 / 19.844: "the outline level of
	// the heading"); style:default-outline-level only says which level a paragraph GETS when
	// the style is applied in an editor (19.470). A heading moved to another level keeps its
	// paragraph style - as a rule through an automatic style Pn derived from "Heading N"
	// that carries no outline level of its own - and says its level itself. Level stays the
	// heading's level (what every oracle demands); StyleLevel only picks the style.
	StyleLevel int
	// odt h with StyleLevel: the style the heading names carries the other level ITSELF
	// (style:default-outline-level in its own definition, or the level in its built-in
	// name) - false: only a style above it in the parent-style-name chain does.
	StyleOwn bool
	// odt h: the text of the text:outline-level attribute when it is not the plain decimal
	// of Level: "omit" = no attribute at all; another spelling of the same number ("03");
	// or, with NoOwnLevel, a text that is no level 1..10 ("", "0", "11", "x", "-2", "2.5").
	RawOutline string
	// odt h: the heading states no level itself (text:outline-level absent or no level
	// 1..10; the attribute is optional up to ODF 1.1, "headings without a level attribute
	// are assumed to be at level 1", and required from 1.2 on). Level then only picks the
	// paragraph style; what is demanded is a heading, in place, at level 1 or at the level
	// the definition chain of its paragraph style says (see levelOK).
	NoOwnLevel bool
	// odt p: the plain paragraph <text:p> is written in a heading style: one of builtin,
	// custom, inherited, inherited2, name (the style of level Level, as for a heading of
	// that Via) or family (the family style Fam). A text:p is a paragraph whatever its
	// style (ODF 1.2 part 1, 5.1.3; style:default-outline-level is for editors, 19.470).
	HStyle string
}

// levelOK: is l a level the heading may be presented at. A heading that says its level
// (text:outline-level in 1..10) has that level, whatever its style says. One that does not
// is at level 1 (the default of the format up to ODF 1.1) or at the level of its paragraph
// style (own or inherited default outline level, or the built-in name); nothing else.
func (p *lpara) levelOK(l int) bool {
	if !p.NoOwnLevel {
		return l == p.Level
	}
	return l == 1 || p.Via != "outline" && l == p.Level
}

// noLevelTexts: attribute values of text:outline-level that are no level 1..10
// ("omit" = the attribute is left out).
var noLevelTexts = []string{"omit", "omit", "", "0", "11", "x", "-2", "2.5"}

// unlevel makes the odt heading one that states no level itself (now and then), or
// respells its level.
func (p *lpara) unlevel(r *hx.Rng) {
	switch k := r.Intn(12); {
	case k < 2:
		p.NoOwnLevel, p.RawOutline = true, hx.Pick(r, noLevelTexts)
		p.StyleLevel, p.StyleOwn = 0, false
		if p.Level == 10 {
			p.Level = 9
		}
	case k == 2:
		p.RawOutline = "0" + strconv.Itoa(p.Level)
	}
}

// styleLevel: the level that picks the paragraph style of the heading.
func (p *lpara) styleLevel() int {
	if p.StyleLevel != 0 {
		return p.StyleLevel
	}
	return p.Level
}

// otherLevel draws a level 1..9 that is not L.
func otherLevel(r *hx.Rng, L int) int {
	m := r.Range(1, 8)
	if m >= L {
		m++
	}
	return m
}

// bodyVias: the non-heading paragraph styles a document may use as its body style
// (p.Via values): an italic style, a bold 11 pt style, a style in a basedOn cycle, a
// style id that styles.xml does not define, and the default paragraph style named
// explicitly. (bigbold is left out: a bold style of 14 pt and more may be taken for a
// heading style by the documented heuristic, see props/C16.json.)
var bodyVias = []string{"quote", "boldsmall", "cycplain", "undef", "normal"}

// empty: a list item without text of its own (odt): it shows nothing, and whatever is
// nested below it stays.
func (p *lpara) empty() bool { return p.Kind == "li" && len(p.Runs) == 0 }

type lcell struct {
	Paras  []lpara
	RS, CS int
	Nested *ltable
	// RawCS / RawRS: the text of the span attribute (docx w:gridSpan, odt
	// number-columns-spanned / number-rows-spanned) when it is not the plain decimal of
	// CS / RS (which is left out when 1). Either another spelling of the same number
	// ("1" written out, "+2", "007") or, in a table marked Undef, a value outside 1..1024.
	RawCS, RawRS string
	// docx (structure.go): the paragraphs Paras[BoxAt : BoxAt+BoxN] are written inside a
	// block-level container of kind Box (sdt, customXml, ...) that is a child of the w:tc.
	// "" = every paragraph is a direct child of the cell.
	Box         string
	BoxAt, BoxN int
}

type ltable struct {
	R, C   int
	Cells  map[[2]int]*lcell // anchors only
	Cover  map[[2]int][2]int // covered position -> its anchor
	NoGrid bool              // docx: omit w:tblGrid
	// docx: continuation cells say w:vMerge w:val="continue" instead of the bare element
	ExplicitContinue bool
	// odt: the first table:table-column carries number-columns-repeated=RawRepeat and
	// stands for RepeatN columns (the remaining C-RepeatN columns follow one by one).
	RawRepeat string
	RepeatN   int
	// Undef: some span / repetition attribute of the table is outside what the format
	// defines (0, negative, above 1024, not a number). The harness authored no grid for
	// such a table: its text must be present, in order and in place in every view, and
	// nothing may crash; the grid oracles do not apply (the Lean model says what the
	// readers make of the attribute).
	Undef bool
	Wide  bool // a table 1024 grid columns wide / 1024 rows high (spans at the upper edge)
	// odt: how the writer groups the rows / columns of the table (0 = not at all; see odtTable)
	Groups int
	// odt, Groups == 6: the rows of the table laid out by a drawn plan (structure.go): runs of
	// rows directly in the table, in table:table-rows, in table:table-header-rows, each
	// section on its own or in a table:table-row-group - heading rows also AFTER other rows
	Plan []rowSeg
	// docx: the rows that carry w:trPr/w:tblHeader ("repeat as header row"), by row index
	HdrRows map[int]bool
}

type lblock struct {
	P       *lpara
	T       *ltable
	Section bool // odt: wrapped in a text:section with the next block
	// docx: the block sits in a block-level container that is a direct child of the body
	// (structure.go): consecutive blocks with the same Box > 0 share one container of kind
	// BoxKind (sdt, customXml, sdt-in-customXml, customXml-in-sdt). 0 = a direct child.
	Box     int
	BoxKind string
	// docx: empty body-level markers written right before the block (bookmarkStart /
	// bookmarkEnd / proofErr as direct children of the body)
	Marks int
}

type ldoc struct {
	Format    string // docx, odt
	Blocks    []lblock
	Header    []string
	Footer    []string
	Styles    bool
	Numbering bool
	Meta      bool
	NoOutline bool // the built-in heading styles are written without an outline level
	Fam       *family
	// Body: the document has a body style (one of bodyVias) that most of its plain
	// paragraphs, some cell paragraphs and the headings made by a direct outline level are
	// written in; "" = no such style.
	Body      string
	// render stream (genRenderDoc): NumSeed != 0 = the numbering part / the list styles are
	// drawn from this seed instead of the fixed ones; Planted = how often a header / footer
	// line was planted in the body on purpose (line -> count)
	Render    bool
	NumSeed   uint64
	Planted   map[string]int
	NoDraw    bool // fixed witness: the writers draw nothing of their own (no row / column grouping)
	Grid      bool // drawn by genGridDoc: the subject is the table grid
	Edge      bool // drawn by genEdgeDoc: numeric attributes at the edges of their range
	Flavour   string // how the package spells its namespaces (flavour.go); "" = as the writers do
	ntok      int
}

// ---- the style family ---------------------------------------------------------------
//
// A family is a small forest of paragraph styles of one document: one or two root
// heading styles (built-in, custom with an outline level, or localized built-in) and
// two to five custom styles derived from them along basedOn / parent-style-name,
// one to three derivations deep. A derived style either inherits its parent's level
// or OVERRIDES it with an outline level of its own; further styles derived from it
// inherit the overridden level. The level of a style is a function of its definition
// chain alone (own level if it has one, else the parent's) - the paragraphs of the
// document use the family's styles in arbitrary order and repetition (parent before
// child, child before parent, interleaved, inside table cells), and whatever a
// reader resolved earlier must not change the level.

type fstyle struct {
	ID     string // docx style id / odt style name
	Parent string // "" for a root
	Via    string // roots: builtin, custom, name; derived: family
	Own    int    // derived: 0 = inherits, 1..9 = its own level; roots: the level
	Level  int    // what the definition chain says
	Depth  int    // 0 = root
}

type family struct{ Styles []fstyle } // roots first, parents before children

func rootStyleID(format, via string, L int) string {
	if format == "docx" {
		switch via {
		case "builtin":
			return styleID("Heading", L)
		case "custom":
			return styleID("Kapitel9", L)
		}
		return styleID("berschrift", L)
	}
	switch via {
	case "builtin":
		return fmt.Sprintf("Heading_20_%d", L)
	case "custom":
		return fmt.Sprintf("Kapitel_20_%d", L)
	}
	return fmt.Sprintf("Heading%d", L)
}

func genFamily(r *hx.Rng, format string) *family {
	f := &family{}
	for i := r.Range(1, 2); i > 0; i-- {
		via := hx.Pick(r, []string{"builtin", "builtin", "custom", "name"})
		L := r.Range(1, 9)
		id := rootStyleID(format, via, L)
		if f.get(id) == nil {
			f.Styles = append(f.Styles, fstyle{ID: id, Via: via, Own: L, Level: L})
		}
	}
	for i, n := 0, r.Range(2, 5); i < n; i++ {
		var cands []fstyle
		for _, s := range f.Styles {
			if s.Depth < 3 {
				cands = append(cands, s)
			}
		}
		par := hx.Pick(r, cands)
		if len(f.Styles) > 2 && r.Bool() {
			par = cands[len(cands)-1] // favour deep chains
		}
		s := fstyle{Parent: par.ID, Via: "family", Level: par.Level, Depth: par.Depth + 1}
		if r.Chance(2, 3) {
			s.Own = r.Range(1, 9) // overrides (now and then with the very level it would inherit)
			s.Level = s.Own
		}
		// ids carry no digit and no level: the level is in the definition only
		if format == "docx" {
			s.ID = "Fam" + string(rune('A'+i))
		} else {
			s.ID = "Fam_20_" + string(rune('A'+i))
		}
		f.Styles = append(f.Styles, s)
	}
	return f
}

func (f *family) get(id string) *fstyle {
	if f == nil {
		return nil
	}
	for i := range f.Styles {
		if f.Styles[i].ID == id {
			return &f.Styles[i]
		}
	}
	return nil
}

// ancestors lists the style ids above id, nearest first.
func (f *family) ancestors(id string) []string {
	var out []string
	for s := f.get(id); s != nil && s.Parent != ""; s = f.get(s.Parent) {
		out = append(out, s.Parent)
	}
	return out
}

// overrides: the style has a level of its own that differs from the one it would inherit.
func (f *family) overrides(id string) bool {
	s := f.get(id)
	if s == nil || s.Parent == "" || s.Own == 0 {
		return false
	}
	return f.get(s.Parent).Level != s.Own
}

// closeNeed adds the family styles the needed ones are derived from.
func (f *family) closeNeed(need map[string]bool) {
	if f == nil {
		return
	}
	for _, s := range f.Styles {
		if need[s.ID] {
			for _, a := range f.ancestors(s.ID) {
				need[a] = true
			}
		}
	}
}

func (f *family) canon() string {
	if f == nil {
		return "-"
	}
	var b strings.Builder
	for _, s := range f.Styles {
		fmt.Fprintf(&b, "%s<%s:%d=%d,", s.ID, s.Parent, s.Own, s.Level)
	}
	return b.String()
}

// genFamilyHeading: a heading that uses one of the family's styles (a root or a derived one).
func (d *ldoc) genFamilyHeading(r *hx.Rng) *lpara {
	s := hx.Pick(r, d.Fam.Styles)
	p := &lpara{Kind: "h", Runs: d.genRuns(r, 0), Level: s.Level, Via: s.Via}
	if s.Via == "family" {
		p.Fam = s.ID
	}
	switch {
	case d.Format != "odt":
	case s.Via == "family" && s.Own == 0 && r.Chance(1, 2):
		// the heading says another level than the one its style inherits
		p.StyleLevel, p.Level = s.Level, otherLevel(r, s.Level)
	case (s.Via != "family" || s.Own != 0) && r.Chance(1, 4):
		// ... than the one its style carries itself
		p.StyleLevel, p.StyleOwn, p.Level = s.Level, true, otherLevel(r, s.Level)
	default:
		p.unlevel(r)
	}
	return p
}

func (d *ldoc) tok(r *hx.Rng) string {
	d.ntok++
	t := fmt.Sprintf("Q%03dx", d.ntok)
	switch r.Intn(12) {
	case 0:
		t += "é"
	case 1:
		t += "&b"
	case 2:
		t += " mid w"
	case 3:
		t += "<i>"
	case 4:
		t += "日本"
	}
	return t
}

var symCodes = []string{"F0E0", "263A", "41", "1F600", "20AC", "f0b7"}

func (d *ldoc) genRuns(r *hx.Rng, rich int) []lrun {
	// rich: 0 = text only, single kind of wrap allowed; 1 = + tabs; 2 = everything
	n := r.Range(1, 4)
	var runs []lrun
	for i := 0; i < n; i++ {
		run := lrun{Bold: r.Chance(1, 5)}
		m := 1
		if rich > 0 {
			m = r.Range(1, 3)
		}
		for j := 0; j < m; j++ {
			k := "t"
			if rich >= 1 && r.Chance(1, 4) {
				k = "tab"
			}
			if rich >= 2 && r.Chance(1, 5) {
				if d.Format == "docx" {
					k = hx.Pick(r, []string{"br", "pbr", "sym", "tab", "br"})
				} else {
					k = hx.Pick(r, []string{"br", "s", "tab"})
				}
			}
			it := inl{Kind: k}
			switch k {
			case "t":
				it.Tok = d.tok(r)
			case "sym":
				it.Tok = hx.Pick(r, symCodes)
			case "s":
				it.Tok = fmt.Sprint(r.Range(1, 3))
			}
			run.Items = append(run.Items, it)
		}
		if r.Chance(1, 4) {
			if d.Format == "docx" {
				run.Wrap = hx.Pick(r, []string{"hyperlink", "ins", "sdt", "hyperlink", "ins", "sdt", "del", "txbx"})
			} else {
				run.Wrap = hx.Pick(r, []string{"span", "span", "a", "span2", "note"})
			}
		} else if d.Format == "odt" && r.Bool() {
			run.Wrap = "span"
		}
		if run.Wrap == "del" || run.Wrap == "txbx" || run.Wrap == "note" {
			// decoys carry exactly one text token
			run.Items = []inl{{Kind: "t", Tok: d.tok(r)}}
		}
		runs = append(runs, run)
	}
	// at least one visible text token per paragraph, so the paragraph is findable
	vis := false
	for _, ru := range runs {
		if ru.Wrap == "del" || ru.Wrap == "txbx" || ru.Wrap == "note" {
			continue
		}
		for _, it := range ru.Items {
			if it.Kind == "t" {
				vis = true
			}
		}
	}
	if !vis {
		runs = append(runs, lrun{Items: []inl{{Kind: "t", Tok: d.tok(r)}}})
	}
	return runs
}

func (d *ldoc) genPara(r *hx.Rng) *lpara {
	p := &lpara{Kind: "p", Runs: d.genRuns(r, 2)}
	if d.Styles && r.Chance(1, 3) {
		p.Via = hx.Pick(r, []string{"quote", "boldsmall", "bigbold", "cycplain"})
	}
	if d.Body != "" {
		if r.Chance(3, 5) {
			p.Via = d.Body
		}
		if d.Format == "docx" {
			if r.Chance(1, 4) {
				p.Jc = hx.Pick(r, []string{"center", "right", "both"})
			}
			p.Out9 = r.Chance(1, 6)
		}
	}
	if d.Format == "odt" && d.Styles && r.Chance(1, 6) {
		// a text:p written in a heading style (or in a style derived from one)
		p.Via, p.HStyle, p.Level = "", hx.Pick(r, []string{"builtin", "custom", "inherited", "inherited2", "name"}), r.Range(1, 9)
		if d.Fam != nil && r.Bool() {
			p.HStyle, p.Level, p.Fam = "family", 0, hx.Pick(r, d.Fam.Styles).ID
		}
	}
	return p
}

func (d *ldoc) genHeading(r *hx.Rng) *lpara {
	p := &lpara{Kind: "h", Runs: d.genRuns(r, 0), Level: r.Range(1, 9)}
	if d.Format == "odt" && p.Level == 9 && r.Chance(1, 2) {
		p.Level = 10 // ODF outline levels run to 10
	}
	if d.Styles {
		p.Via = hx.Pick(r, []string{"builtin", "custom", "inherited", "inherited2", "name", "outline", "cyclic"})
	} else {
		p.Via = hx.Pick(r, []string{"builtin", "outline"})
	}
	if d.Format == "odt" {
		switch p.Via {
		case "inherited", "inherited2":
			if r.Chance(1, 2) {
				// the automatic style is derived from the heading style of another level
				p.StyleLevel = otherLevel(r, p.Level)
			}
		case "builtin", "custom", "name":
			if r.Chance(1, 4) {
				// the heading names the heading style of another level itself
				p.StyleLevel, p.StyleOwn = otherLevel(r, p.Level), true
			}
		}
	}
	if d.Body != "" && r.Bool() {
		p.StyleLevel, p.StyleOwn = 0, false
		// a heading made by direct formatting of a paragraph of the body text
		p.Via = "outline"
		if r.Chance(4, 5) {
			p.Plain = d.Body
		}
		if d.Format == "docx" && r.Chance(1, 4) {
			p.Jc = hx.Pick(r, []string{"center", "right", "both"})
		}
	}
	if d.Format == "odt" {
		p.unlevel(r)
	}
	return p
}

func (d *ldoc) genTable(r *hx.Rng, depth int) *ltable {
	t := &ltable{R: r.Range(1, 4), C: r.Range(1, 4), Cells: map[[2]int]*lcell{}, Cover: map[[2]int][2]int{}, NoGrid: r.Chance(1, 5), ExplicitContinue: r.Chance(1, 4)}
	// merges: up to two non-overlapping rectangles
	for m := r.Intn(3); m > 0; m-- {
		r0, c0 := r.Intn(t.R), r.Intn(t.C)
		rs, cs := r.Range(1, t.R-r0), r.Range(1, t.C-c0)
		if rs == 1 && cs == 1 {
			continue
		}
		ok := true
		for a := r0; a < r0+rs && ok; a++ {
			for b := c0; b < c0+cs; b++ {
				if _, used := t.Cover[[2]int{a, b}]; used {
					ok = false
					break
				}
				if _, used := t.Cells[[2]int{a, b}]; used {
					ok = false
					break
				}
			}
		}
		if !ok {
			continue
		}
		t.Cells[[2]int{r0, c0}] = &lcell{RS: rs, CS: cs}
		for a := r0; a < r0+rs; a++ {
			for b := c0; b < c0+cs; b++ {
				if a != r0 || b != c0 {
					t.Cover[[2]int{a, b}] = [2]int{r0, c0}
				}
			}
		}
	}
	d.fillCells(r, t, depth)
	return t
}

// fillCells gives every position that no merge covers its cell (1x1 unless it
// anchors a merge) and every cell its paragraphs, in row-major order.
func (d *ldoc) fillCells(r *hx.Rng, t *ltable, depth int) {
	for a := 0; a < t.R; a++ {
		for b := 0; b < t.C; b++ {
			pos := [2]int{a, b}
			if _, cov := t.Cover[pos]; cov {
				continue
			}
			cell := t.Cells[pos]
			if cell == nil {
				cell = &lcell{RS: 1, CS: 1}
				t.Cells[pos] = cell
			}
			np := 1
			if r.Chance(2, 5) {
				np = r.Range(2, 3)
			}
			for i := 0; i < np; i++ {
				cp := lpara{Kind: "p"}
				if !(np > 1 && r.Chance(1, 6)) { // sometimes an empty paragraph between others
					cp.Runs = d.genCellRuns(r)
				}
				if d.Fam != nil && r.Chance(1, 3) {
					cp.Fam = hx.Pick(r, d.Fam.Styles).ID // a cell paragraph in a style of the family
				}
				if d.Body != "" && r.Chance(1, 3) {
					cp.Fam, cp.Via = "", d.Body // a cell paragraph in the body style
				}
				cell.Paras = append(cell.Paras, cp)
			}
			if depth == 0 && r.Chance(1, 8) {
				cell.Nested = d.genTable(r, 1)
			}
		}
	}
}

// ---- tables that combine horizontal and vertical merges ---------------------------------
//
// genMergeGrid draws a grid of 2..5 rows and 3..6 columns in two steps. First one to
// three VERTICAL merges (2..4 rows high, one or now and then two columns wide) are
// placed at random free positions - several per table, side by side or stacked in
// the same column. Then every row, on its own, partitions each maximal run of still
// free positions into cells of width 1..3. Because the rows are partitioned
// independently, the rows a vertical merge runs through as a rule hold DIFFERENT
// numbers of cells to its left (a column span in the start row only, in a
// continuation row only, in both with different widths, in neither): where a cell
// sits in its row (its index among the row's cells) says nothing about its grid
// column. The grid column of every anchor, its spans and the covered positions are
// recorded in the ltable exactly as for the plain tables, and both writers render it.

func (t *ltable) free(r0, c0, rs, cs int) bool {
	for a := r0; a < r0+rs; a++ {
		for b := c0; b < c0+cs; b++ {
			if _, used := t.Cover[[2]int{a, b}]; used {
				return false
			}
			if _, used := t.Cells[[2]int{a, b}]; used {
				return false
			}
		}
	}
	return true
}

func (t *ltable) place(r0, c0, rs, cs int) {
	t.Cells[[2]int{r0, c0}] = &lcell{RS: rs, CS: cs}
	for a := r0; a < r0+rs; a++ {
		for b := c0; b < c0+cs; b++ {
			if a != r0 || b != c0 {
				t.Cover[[2]int{a, b}] = [2]int{r0, c0}
			}
		}
	}
}

func (d *ldoc) genMergeGrid(r *hx.Rng) *ltable {
	t := &ltable{R: r.Range(2, 5), C: r.Range(3, 6), Cells: map[[2]int]*lcell{}, Cover: map[[2]int][2]int{},
		NoGrid: r.Chance(1, 5), ExplicitContinue: r.Chance(1, 4)}
	for want, tries := r.Range(1, 3), 0; want > 0 && tries < 12; tries++ {
		cs := 1
		if r.Chance(1, 4) {
			cs = 2
		}
		rs := r.Range(2, min(4, t.R))
		r0, c0 := r.Intn(t.R-rs+1), r.Intn(t.C-cs+1)
		if c0 == 0 && r.Bool() {
			c0 = r.Intn(t.C - cs + 1) // fewer merges in the first column: nothing lies to their left
		}
		if !t.free(r0, c0, rs, cs) {
			continue
		}
		t.place(r0, c0, rs, cs)
		want--
	}
	for a := 0; a < t.R; a++ {
		for b := 0; b < t.C; {
			if !t.free(a, b, 1, 1) {
				b++
				continue
			}
			run := 1
			for b+run < t.C && t.free(a, b+run, 1, 1) {
				run++
			}
			w := 1
			if r.Chance(2, 5) {
				w = r.Range(2, 3)
			}
			if w > run {
				w = run
			}
			if w > 1 {
				t.place(a, b, 1, w)
			}
			b += w
		}
	}
	d.fillCells(r, t, 1) // depth 1: no nested tables here, the grid is the subject
	return t
}

// leftLayout lists the grid columns < c at which a cell (anchor or vertical
// continuation) of row a starts, as the row is written in the package: the number
// of entries is the index the cell at column c has in its row.
func (t *ltable) leftLayout(a, c int) string {
	var b strings.Builder
	for k := 0; k < c; k++ {
		pos := [2]int{a, k}
		if anc, cov := t.Cover[pos]; cov && (anc[0] == a || anc[1] != k) {
			continue // covered horizontally: no cell of its own in this row
		}
		fmt.Fprintf(&b, "%d,", k)
	}
	return b.String()
}

// mergeClasses classifies the vertical merges of the table by what lies to their left.
func (t *ltable) mergeClasses() []string {
	var out []string
	nv := 0
	for a := 0; a < t.R; a++ {
		for c := 0; c < t.C; c++ {
			cell := t.Cells[[2]int{a, c}]
			if cell == nil || cell.RS < 2 {
				continue
			}
			nv++
			out = append(out, fmt.Sprintf("vmerge-%d-rows", cell.RS))
			if cell.CS > 1 {
				out = append(out, "vmerge-with-colspan")
			}
			start := t.leftLayout(a, c)
			more, fewer, same := false, false, true
			for k := a + 1; k < a+cell.RS; k++ {
				l := t.leftLayout(k, c)
				if l != start {
					same = false
				}
				if strings.Count(l, ",") > strings.Count(start, ",") {
					more = true
				}
				if strings.Count(l, ",") < strings.Count(start, ",") {
					fewer = true
				}
			}
			switch {
			case c == 0:
				out = append(out, "vmerge-in-first-column")
			case same:
				out = append(out, "vmerge-rows-alike-to-its-left")
			default:
				out = append(out, "vmerge-rows-differ-to-its-left")
				if more {
					out = append(out, "vmerge-fewer-cells-left-in-start-row")
				}
				if fewer {
					out = append(out, "vmerge-fewer-cells-left-in-continuation-row")
				}
				if !more && !fewer {
					out = append(out, "vmerge-same-count-other-widths-left")
				}
			}
		}
	}
	if nv > 1 {
		out = append(out, "several-vmerges-in-table")
	}
	return out
}

// genGridDoc draws a document whose subject is the table grid: one to three
// merge-combining tables between paragraphs, headings and plain tables.
func genGridDoc(r *hx.Rng, format string) *ldoc {
	d := &ldoc{Format: format, Styles: r.Chance(4, 5), Numbering: r.Bool(), Meta: r.Bool(), NoOutline: r.Chance(1, 3), Grid: true}
	if r.Chance(1, 3) {
		d.ntok++
		d.Header = append(d.Header, fmt.Sprintf("HDR%03dx", d.ntok))
	}
	for n := r.Range(1, 3); n > 0; n-- {
		switch r.Intn(5) {
		case 0:
			d.Blocks = append(d.Blocks, lblock{P: d.genPara(r)})
		case 1:
			d.Blocks = append(d.Blocks, lblock{P: d.genHeading(r)})
		case 2:
			d.Blocks = append(d.Blocks, lblock{T: d.genTable(r, 0)})
		}
		d.Blocks = append(d.Blocks, lblock{T: d.genMergeGrid(r)})
	}
	if r.Bool() {
		d.Blocks = append(d.Blocks, lblock{P: d.genPara(r)})
	}
	return d
}

func (d *ldoc) genCellRuns(r *hx.Rng) []lrun {
	n := r.Range(1, 2)
	var runs []lrun
	for i := 0; i < n; i++ {
		run := lrun{Items: []inl{{Kind: "t", Tok: d.tok(r)}}}
		if d.Format == "odt" && r.Bool() {
			run.Wrap = "span"
		}
		if d.Format == "docx" && r.Chance(1, 8) {
			run.Wrap = "hyperlink"
		}
		runs = append(runs, run)
	}
	return runs
}

// genDoc draws one logical document.
func genDoc(r *hx.Rng, format string) *ldoc {
	d := &ldoc{Format: format, Styles: r.Chance(4, 5), Numbering: r.Chance(3, 4), Meta: r.Bool(), NoOutline: r.Chance(1, 3)}
	if r.Chance(3, 5) {
		for i := r.Range(1, 2); i > 0; i-- {
			d.ntok++
			d.Header = append(d.Header, fmt.Sprintf("HDR%03dx", d.ntok))
		}
		for i := r.Range(0, 2); i > 0; i-- {
			d.ntok++
			d.Footer = append(d.Footer, fmt.Sprintf("FTR%03dx", d.ntok))
		}
	}
	n := r.Range(1, 9)
	if d.Styles && r.Chance(1, 3) {
		d.Fam = genFamily(r, format)
		n = r.Range(3, 10)
	}
	if r.Bool() {
		// without a styles part every style id is an undefined one
		d.Body = hx.Pick(r, bodyVias)
		n = max(n, r.Range(3, 10))
	}
	lastLevel := -1
	for len(d.Blocks) < n {
		if d.Fam != nil && r.Chance(2, 5) {
			d.Blocks = append(d.Blocks, lblock{P: d.genFamilyHeading(r)})
			lastLevel = -1
			continue
		}
		switch k := r.Intn(10); {
		case k < 4:
			d.Blocks = append(d.Blocks, lblock{P: d.genPara(r)})
			lastLevel = -1
		case k < 6:
			d.Blocks = append(d.Blocks, lblock{P: d.genHeading(r)})
			lastLevel = -1
		case k < 8:
			numID := r.Range(1, 3)
			for i := r.Range(1, 4); i > 0; i-- {
				p := &lpara{Kind: "li", Runs: d.genRuns(r, 1), NumID: numID}
				if format == "odt" {
					// a nested text:list deepens one level per text:list; a list that starts
					// below level 0 or deepens by several levels at once has list items
					// without a paragraph of their own in between (odtList writes them)
					p.Level = r.Range(0, lastLevel+1)
					if r.Chance(1, 4) {
						p.Level += r.Range(1, 2)
					}
					if p.Level > 3 {
						p.Level = 3
					}
					if r.Chance(1, 12) {
						// an item without text (what an editor leaves behind): shows nothing,
						// but items nested below it are items of the list all the same
						p.Runs, p.NoPara = nil, r.Bool()
					}
				} else {
					p.Level = r.Intn(4)
					if r.Chance(1, 10) {
						p.Level = r.Range(4, 8)
					}
				}
				lastLevel = p.Level
				d.Blocks = append(d.Blocks, lblock{P: p})
			}
			lastLevel = -1
		default:
			d.Blocks = append(d.Blocks, lblock{T: d.genTable(r, 0)})
			// the table-after-table interleavings matter: often follow with another table / paragraph / table
			if r.Bool() {
				if r.Bool() {
					d.Blocks = append(d.Blocks, lblock{P: d.genPara(r)})
				}
				d.Blocks = append(d.Blocks, lblock{T: d.genTable(r, 0)})
				if r.Bool() {
					d.Blocks = append(d.Blocks, lblock{P: d.genPara(r)})
				}
			}
			lastLevel = -1
		}
	}
	if format == "odt" {
		for i := range d.Blocks {
			if d.Blocks[i].P != nil && d.Blocks[i].P.Kind == "li" {
				continue
			}
			if r.Chance(1, 8) {
				d.Blocks[i].Section = true
			}
		}
	}
	return d
}

// ---- what the author means (expected values) ---------------------------------------

func symChar(hexCode string) string {
	var v rune
	fmt.Sscanf(strings.ToLower(hexCode), "%x", &v)
	return string(v)
}

func decoy(w string) bool { return w == "del" || w == "txbx" || w == "note" }

// wantText is the paragraph's text as authored: inline content in source order.
func (p *lpara) wantText() string {
	var b strings.Builder
	for _, ru := range p.Runs {
		if decoy(ru.Wrap) {
			continue
		}
		for _, it := range ru.Items {
			switch it.Kind {
			case "t":
				b.WriteString(it.Tok)
			case "tab":
				b.WriteString("\t")
			case "br":
				b.WriteString("\n")
			case "pbr":
				b.WriteString("\n\n")
			case "sym":
				b.WriteString(symChar(it.Tok))
			case "s":
				n := int(it.Tok[0] - '0')
				b.WriteString(strings.Repeat(" ", n))
			case "lit":
				b.WriteString(it.Tok)
			}
		}
	}
	return b.String()
}

type ptok struct {
	Tok  string
	Wrap string
	// CellBox: the kind of block-level container of a table cell the token's paragraph is
	// written in ("" = none)
	CellBox string
}

// tokens lists the visible text tokens of the paragraph in source order.
func (p *lpara) tokens() []ptok {
	var out []ptok
	for _, ru := range p.Runs {
		if decoy(ru.Wrap) {
			continue
		}
		for _, it := range ru.Items {
			if it.Kind == "t" {
				out = append(out, ptok{Tok: it.Tok, Wrap: ru.Wrap})
			}
		}
	}
	return out
}

func (p *lpara) decoyTokens() []string {
	var out []string
	for _, ru := range p.Runs {
		if decoy(ru.Wrap) {
			for _, it := range ru.Items {
				out = append(out, it.Tok)
			}
		}
	}
	return out
}

// wantCellText: the cell's paragraphs joined in order (empty paragraphs add nothing).
func (c *lcell) wantText() string {
	var parts []string
	for i := range c.Paras {
		if t := c.Paras[i].wantText(); t != "" {
			parts = append(parts, t)
		}
	}
	return strings.Join(parts, "\n")
}

// multiPara reports whether the table nests block content below a cell (several
// paragraphs in a cell, or a nested table) - the interleavings the counting pass got wrong.
func (t *ltable) multiPara() bool {
	for _, c := range t.Cells {
		if len(c.Paras) > 1 || c.Nested != nil {
			return true
		}
	}
	return false
}

func (t *ltable) tokens() []ptok {
	var out []ptok
	for a := 0; a < t.R; a++ {
		for b := 0; b < t.C; b++ {
			if c := t.Cells[[2]int{a, b}]; c != nil {
				for i := range c.Paras {
					for _, t := range c.Paras[i].tokens() {
						if c.Box != "" && i >= c.BoxAt && i < c.BoxAt+c.BoxN {
							t.CellBox = c.Box
						}
						out = append(out, t)
					}
				}
			}
		}
	}
	return out
}

func (d *ldoc) canon() string {
	var b strings.Builder
	fmt.Fprintf(&b, "%s s%v n%v h%v f%v F%s B%s X%s|", d.Format, d.Styles, d.Numbering, d.Header, d.Footer, d.Fam.canon(), d.Body, d.Flavour)
	for _, bl := range d.Blocks {
		if bl.Box != 0 || bl.Marks != 0 {
			fmt.Fprintf(&b, "<%s#%d+%d>", bl.BoxKind, bl.Box, bl.Marks)
		}
		if bl.P != nil {
			fmt.Fprintf(&b, "%s/%d~%d%v%s%v/%s%s%s%s%v/%d/%q;", bl.P.Kind, bl.P.Level, bl.P.StyleLevel, bl.P.StyleOwn, bl.P.RawLevel, bl.P.NoPara, bl.P.Via, bl.P.Fam, bl.P.Plain, bl.P.Jc, bl.P.Out9, bl.P.NumID, bl.P.wantText())
			if bl.P.NoOwnLevel || bl.P.RawOutline != "" || bl.P.HStyle != "" {
				fmt.Fprintf(&b, "{%v %q %s}", bl.P.NoOwnLevel, bl.P.RawOutline, bl.P.HStyle)
			}
			for _, ru := range bl.P.Runs {
				b.WriteString(ru.Wrap + ",")
			}
		} else {
			fmt.Fprintf(&b, "T%dx%d%s%s[", bl.T.R, bl.T.C, bl.T.RawRepeat, bl.T.structCanon())
			for a := 0; a < bl.T.R; a++ {
				for c := 0; c < bl.T.C; c++ {
					if cell := bl.T.Cells[[2]int{a, c}]; cell != nil {
						fmt.Fprintf(&b, "%d%s.%d%s.%d.%v.%q", cell.RS, cell.RawRS, cell.CS, cell.RawCS, len(cell.Paras), cell.Nested != nil, cell.wantText())
						for i := range cell.Paras {
							b.WriteString("~" + cell.Paras[i].Fam + cell.Paras[i].Via)
						}
						if cell.Box != "" {
							fmt.Fprintf(&b, "<%s@%d+%d>", cell.Box, cell.BoxAt, cell.BoxN)
						}
						b.WriteString(",")
					}
				}
			}
			b.WriteString("];")
		}
	}
	return b.String()
}
